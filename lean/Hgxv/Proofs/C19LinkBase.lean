import Hgxv.Proofs.C19K
/-! # C19 ↔ C01 … C04, shared part (core Lean only)

Content-level facts used by the four link files `C19LinkC01 … C19LinkC04`:
* association lists under an injective re-keying (`mapKV`): the abstract specs `C0x.Spec` and C19's `Content` differ
  only by the key shape (`(nodes, tags)`) and the metadata value type (`Option Nat`);
* `Dyn`: the content invariant every loop of `remove_node` preserves (`WF` + unit weights when unweighted + canonical
  keys), so that the per-call lemmas of the link files need no other hypothesis;
* the loops of `remove_node(keep_edges=True)` written the way the specs write them - over incident KEYS, reading weight
  and metadata from the CURRENT state (`shrinkAddK`, `shrinkOneK`) - equal C19's loops over the records read before
  the loop (`foldl_shrinkAddK`, `foldl_shrinkOneK`). -/
namespace C19
open AL
set_option linter.unusedSectionVars false
set_option linter.unusedSimpArgs false
set_option linter.unusedVariables false

/-- metadata of the container models (`attribute ↦ value`, no `None` values) as C19 metadata -/
def mdOf (m : List (Nat × Nat)) : Md := m.map (fun p => (p.1, some p.2))

theorem mdOf_inj {a b : List (Nat × Nat)} (h : mdOf a = mdOf b) : a = b := by
  induction a generalizing b with
  | nil => cases b with
    | nil => rfl
    | cons y ys => simp [mdOf] at h
  | cons x xs ih =>
    cases b with
    | nil => simp [mdOf] at h
    | cons y ys =>
      simp only [mdOf, List.map_cons, List.cons.injEq, Prod.mk.injEq, Option.some.injEq] at h
      obtain ⟨⟨h1, h2⟩, h3⟩ := h
      rw [ih (by simpa [mdOf] using h3)]
      congr 1
      exact Prod.ext h1 h2

/-- `metadata.get(attr)` on a container metadata dict is the plain lookup -/
theorem mdGet_mdOf (m : List (Nat × Nat)) (a : Nat) : mdGet (mdOf m) a = get? m a := by
  unfold mdGet
  induction m with
  | nil => rfl
  | cons hd t ih =>
    obtain ⟨k, v⟩ := hd
    simp only [mdOf, List.map_cons, get?] at ih ⊢
    by_cases h : k = a
    · simp [h]
    · simp only [h, if_false]; exact ih

section mapkv
variable {α α' β β' : Type} [DecidableEq α] [DecidableEq α']

/-- re-key and re-value an association list -/
def mapKV (kf : α → α') (vf : β → β') (l : List (α × β)) : List (α' × β') := l.map (fun p => (kf p.1, vf p.2))

theorem keys_mapKV (kf : α → α') (vf : β → β') (l : List (α × β)) : keys (mapKV kf vf l) = (keys l).map kf := by
  simp [mapKV, keys, List.map_map, Function.comp_def]


theorem keys_nodup_of_mapKV (kf : α → α') (vf : β → β') (l : List (α × β)) (h : (keys (mapKV kf vf l)).Nodup) :
    (keys l).Nodup := by
  rw [keys_mapKV] at h
  have h1 : ((keys l).map kf).Pairwise (· ≠ ·) := h
  exact (List.pairwise_map.mp h1).imp (fun {a b} (hab : kf a ≠ kf b) (e : a = b) => hab (by rw [e]))

theorem mapKV_append (kf : α → α') (vf : β → β') (l m : List (α × β)) :
    mapKV kf vf (l ++ m) = mapKV kf vf l ++ mapKV kf vf m := by
  simp [mapKV]

variable (kf : α → α') (vf : β → β') (hinj : ∀ a b, kf a = kf b → a = b)
include hinj

theorem get?_mapKV (l : List (α × β)) (k : α) : get? (mapKV kf vf l) (kf k) = (get? l k).map vf := by
  induction l with
  | nil => rfl
  | cons hd t ih =>
    obtain ⟨k', v⟩ := hd
    simp only [mapKV, List.map_cons, get?] at ih ⊢
    by_cases h : k' = k
    · subst h; simp
    · have : kf k' ≠ kf k := fun e => h (hinj _ _ e)
      simp [h, this, ih]

theorem set_mapKV (l : List (α × β)) (k : α) (v : β) :
    AL.set (mapKV kf vf l) (kf k) (vf v) = mapKV kf vf (AL.set l k v) := by
  induction l with
  | nil => rfl
  | cons hd t ih =>
    obtain ⟨k', v'⟩ := hd
    simp only [mapKV, List.map_cons, AL.set] at ih ⊢
    by_cases h : k' = k
    · subst h; simp
    · have : kf k' ≠ kf k := fun e => h (hinj _ _ e)
      simp [h, this, ih]

theorem erase_mapKV (l : List (α × β)) (k : α) :
    erase (mapKV kf vf l) (kf k) = mapKV kf vf (erase l k) := by
  induction l with
  | nil => rfl
  | cons hd t ih =>
    obtain ⟨k', v'⟩ := hd
    simp only [mapKV, List.map_cons, erase] at ih ⊢
    by_cases h : k' = k
    · subst h; simp
    · have : kf k' ≠ kf k := fun e => h (hinj _ _ e)
      simp [h, this, ih]

theorem keys_mapKV_nodup (l : List (α × β)) (h : (keys l).Nodup) : (keys (mapKV kf vf l)).Nodup := by
  rw [keys_mapKV]
  exact List.Pairwise.map kf (fun a b hab e => hab (hinj a b e)) h

end mapkv

section al2
variable {α β : Type} [DecidableEq α]

/-- dict assignment to an absent key appends -/
theorem al_set_of_none (l : List (α × β)) (k : α) (v : β) (h : get? l k = none) : AL.set l k v = l ++ [(k, v)] := by
  induction l with
  | nil => rfl
  | cons hd t ih =>
    obtain ⟨k', v'⟩ := hd
    by_cases hk : k' = k
    · subst hk; simp [get?] at h
    · simp only [get?, hk, if_false] at h
      simp [AL.set, hk, ih h]

/-- dict assignment of the value already stored changes nothing -/
theorem al_set_same (l : List (α × β)) (k : α) (v : β) (h : get? l k = some v) : AL.set l k v = l := by
  induction l with
  | nil => simp [get?] at h
  | cons hd t ih =>
    obtain ⟨k', v'⟩ := hd
    by_cases hk : k' = k
    · subst hk; simp only [get?, if_true, Option.some.injEq] at h; subst h; simp [AL.set]
    · simp only [get?, hk, if_false] at h
      simp [AL.set, hk, ih h]

/-- `del d[k]` written as a filter (`C01.del`, `C04.del`) is `AL.erase` when keys are distinct -/
theorem al_filter_ne_eq_erase (l : List (α × β)) (k : α) (hnd : (keys l).Nodup) :
    l.filter (fun p => decide (p.1 ≠ k)) = erase l k := by
  rw [al_erase_eq_filter l k hnd]
  apply List.filter_congr
  intro e _
  simp

theorem al_mem_iff_get? {l : List (α × β)} (hnd : (keys l).Nodup) (e : α × β) : e ∈ l ↔ get? l e.1 = some e.2 :=
  ⟨fun h => al_get?_of_mem hnd h, fun h => al_mem_of_get? h⟩

end al2

section dyn
variable {κ ω : Type} [DecidableEq κ] [Add ω] (ops : KeyOps κ)

/-- an unweighted container stores the unit weight `u` everywhere (class invariant of C01-C04) -/
def UnitW (u : ω) (c : Content κ ω) : Prop := c.weighted = false → ∀ e ∈ c.edges, e.2.1 = u

/-- the content invariant of the loops of `remove_node`: well formed, unit weights when unweighted, every key in
canonical form (`Canon`, a parameter: sorted node tuple(s), for `DirectedHypergraph` also disjoint sides) -/
structure Dyn (u : ω) (Canon : κ → Prop) (c : Content κ ω) : Prop where
  wf : WF ops c
  unitw : UnitW u c
  canon : ∀ e ∈ c.edges, Canon e.1

/-- `shrink` keeps canonical keys canonical -/
def CanonShrink (Canon : κ → Prop) : Prop := ∀ k n k', Canon k → ops.shrink k n = some k' → Canon k'

theorem addEdge_dyn (u : ω) (Canon : κ → Prop) (c : Content κ ω) (k : κ) (w : ω) (md : Md)
    (h : Dyn ops u Canon c) (hsub : ∀ m ∈ ops.nodesOf k, m ∈ keys c.nodes) (hw : c.weighted = false → w = u)
    (hk : Canon k) : Dyn ops u Canon (addEdge ops c k w md) := by
  have hnd := addEdge_keys_nodup ops c k w md h.wf.keysNodup
  have hget : ∀ e ∈ (addEdge ops c k w md).edges,
      (k = e.1 ∧ mergeInto c.weighted (get? c.edges k) (k, (w, md)) = some e.2) ∨ (k ≠ e.1 ∧ e ∈ c.edges) := by
    intro e he
    have h1 := (al_mem_iff_get? hnd e).mp he
    rw [addEdge_get?] at h1
    by_cases hke : k = e.1
    · rw [if_pos hke] at h1; exact Or.inl ⟨hke, h1⟩
    · rw [if_neg hke] at h1; exact Or.inr ⟨hke, al_mem_of_get? h1⟩
  refine ⟨⟨?_, hnd, ?_⟩, ?_, ?_⟩
  · rw [addEdge_nodes ops c k w md hsub]; exact h.wf.nodesNodup
  · intro e he m hm
    rw [addEdge_nodes ops c k w md hsub]
    rcases hget e he with ⟨hke, _⟩ | ⟨_, hmem⟩
    · exact hsub m (hke ▸ hm)
    · exact h.wf.closed e hmem m hm
  · intro hwt e he
    rw [addEdge_weighted] at hwt
    rcases hget e he with ⟨hke, hm⟩ | ⟨_, hmem⟩
    · rw [hwt] at hm
      cases hg : get? c.edges k with
      | none =>
        rw [hg] at hm
        simp only [mergeInto, Option.some.injEq] at hm
        rw [← hm]; exact hw hwt
      | some v =>
        rw [hg] at hm
        simp only [mergeInto, Bool.false_eq_true, if_false, Option.some.injEq] at hm
        rw [← hm]
        exact h.unitw hwt (k, v) (al_mem_of_get? hg)
    · exact h.unitw hwt e hmem
  · intro e he
    rcases hget e he with ⟨hke, _⟩ | ⟨_, hmem⟩
    · exact hke ▸ hk
    · exact h.canon e hmem

theorem removeEdge_dyn (u : ω) (Canon : κ → Prop) (c : Content κ ω) (k : κ) (h : Dyn ops u Canon c) :
    Dyn ops u Canon (removeEdge c k) := by
  have hmem : ∀ e ∈ (removeEdge c k).edges, e ∈ c.edges :=
    fun e he => ((al_mem_erase h.wf.keysNodup e).mp he).1
  exact ⟨⟨h.wf.nodesNodup, al_keys_erase_nodup _ _ h.wf.keysNodup, fun e he => h.wf.closed e (hmem e he)⟩,
    fun hw e he => h.unitw hw e (hmem e he), fun e he => h.canon e (hmem e he)⟩

theorem dropNode_dyn (u : ω) (Canon : κ → Prop) (c : Content κ ω) (n : Node) (h : Dyn ops u Canon c)
    (hfree : ∀ e ∈ c.edges, n ∉ ops.nodesOf e.1) : Dyn ops u Canon (dropNode c n) := by
  refine ⟨⟨al_keys_erase_nodup _ _ h.wf.nodesNodup, h.wf.keysNodup, ?_⟩, h.unitw, h.canon⟩
  intro e he m hm
  have h1 := h.wf.closed e he m hm
  obtain ⟨x, hx, hxm⟩ := List.mem_map.mp h1
  have : x ∈ erase c.nodes n := by
    rw [al_mem_erase h.wf.nodesNodup]
    refine ⟨hx, ?_⟩
    intro hxn
    have hmn : m = n := by rw [← hxm]; exact hxn
    exact hfree e he (hmn ▸ hm)
  exact List.mem_map.mpr ⟨x, this, hxm⟩

/-- the spec-style loop bodies: weight and metadata of the incident key are read from the current state -/
def shrinkAddK (n : Node) (c : Content κ ω) (k : κ) : Content κ ω :=
  match get? c.edges k with
  | none => c
  | some v => shrinkAdd ops n c (k, v)

def shrinkOneK (n : Node) (c : Content κ ω) (k : κ) : Content κ ω :=
  match get? c.edges k with
  | none => c
  | some v => shrinkOne ops n c (k, v)

theorem shrinkAdd_dyn (hlaw : Lawful ops) (u : ω) (Canon : κ → Prop) (hcs : CanonShrink ops Canon) (n : Node)
    (c : Content κ ω) (e : κ × (ω × Md)) (he : e ∈ c.edges) (h : Dyn ops u Canon c) :
    Dyn ops u Canon (shrinkAdd ops n c e) := by
  unfold shrinkAdd
  split
  · exact h
  · rename_i k' hk'
    refine addEdge_dyn ops u Canon c k' e.2.1 e.2.2 h ?_ (fun hw => h.unitw hw e he) (hcs _ _ _ (h.canon e he) hk')
    intro m hm
    exact h.wf.closed e he m ((hlaw _ _ _ hk' m).mp hm).1

theorem shrinkOne_dyn (hlaw : Lawful ops) (u : ω) (Canon : κ → Prop) (hcs : CanonShrink ops Canon) (n : Node)
    (c : Content κ ω) (e : κ × (ω × Md)) (he : e ∈ c.edges) (h : Dyn ops u Canon c) :
    Dyn ops u Canon (shrinkOne ops n c e) := by
  unfold shrinkOne
  split
  · exact removeEdge_dyn ops u Canon c e.1 h
  · rename_i k' hk'
    refine addEdge_dyn ops u Canon _ k' e.2.1 e.2.2 (removeEdge_dyn ops u Canon c e.1 h) ?_
      (fun hw => h.unitw hw e he) (hcs _ _ _ (h.canon e he) hk')
    intro m hm
    exact h.wf.closed e he m ((hlaw _ _ _ hk' m).mp hm).1

theorem shrinkAddK_dyn (hlaw : Lawful ops) (u : ω) (Canon : κ → Prop) (hcs : CanonShrink ops Canon) (n : Node)
    (c : Content κ ω) (k : κ) (h : Dyn ops u Canon c) : Dyn ops u Canon (shrinkAddK ops n c k) := by
  unfold shrinkAddK
  split
  · exact h
  · rename_i v hv
    exact shrinkAdd_dyn ops hlaw u Canon hcs n c (k, v) (al_mem_of_get? hv) h

theorem shrinkOneK_dyn (hlaw : Lawful ops) (u : ω) (Canon : κ → Prop) (hcs : CanonShrink ops Canon) (n : Node)
    (c : Content κ ω) (k : κ) (h : Dyn ops u Canon c) : Dyn ops u Canon (shrinkOneK ops n c k) := by
  unfold shrinkOneK
  split
  · exact h
  · rename_i v hv
    exact shrinkOne_dyn ops hlaw u Canon hcs n c (k, v) (al_mem_of_get? hv) h

/-- re-inserting a shrunk key does not touch the records of keys that contain `n` -/
theorem shrinkAdd_get?_in (hlaw : Lawful ops) (n : Node) (c : Content κ ω) (e : κ × (ω × Md)) (k2 : κ)
    (hk2 : n ∈ ops.nodesOf k2) : get? (shrinkAdd ops n c e).edges k2 = get? c.edges k2 := by
  unfold shrinkAdd
  split
  · rfl
  · rename_i k' hk'
    rw [addEdge_get?]
    have : k' ≠ k2 := by
      intro hkk; subst hkk
      exact ((hlaw _ _ _ hk' n).mp hk2).2 rfl
    rw [if_neg this]


theorem shrinkAddK_get?_in (hlaw : Lawful ops) (n : Node) (c : Content κ ω) (k k2 : κ)
    (hk2 : n ∈ ops.nodesOf k2) : get? (shrinkAddK ops n c k).edges k2 = get? c.edges k2 := by
  unfold shrinkAddK
  split
  · rfl
  · exact shrinkAdd_get?_in ops hlaw n c _ k2 hk2

theorem foldl_shrinkAdd_get?_in (hlaw : Lawful ops) (n : Node) (l : List (κ × (ω × Md))) (c : Content κ ω) (k2 : κ)
    (hk2 : n ∈ ops.nodesOf k2) : get? (l.foldl (shrinkAdd ops n) c).edges k2 = get? c.edges k2 := by
  induction l generalizing c with
  | nil => rfl
  | cons e l ih => simp only [List.foldl_cons]; rw [ih, shrinkAdd_get?_in ops hlaw n c e k2 hk2]

theorem foldl_shrinkAdd_dyn (hlaw : Lawful ops) (u : ω) (Canon : κ → Prop) (hcs : CanonShrink ops Canon) (n : Node)
    (l : List (κ × (ω × Md))) (c : Content κ ω) (hn : ∀ e ∈ l, n ∈ ops.nodesOf e.1)
    (hrec : ∀ e ∈ l, get? c.edges e.1 = some e.2) (h : Dyn ops u Canon c) :
    Dyn ops u Canon (l.foldl (shrinkAdd ops n) c) := by
  induction l generalizing c with
  | nil => exact h
  | cons e l ih =>
    simp only [List.foldl_cons]
    apply ih _ (fun e' he' => hn e' (List.mem_cons_of_mem _ he'))
    · intro e' he'
      rw [shrinkAdd_get?_in ops hlaw n c e e'.1 (hn e' (List.mem_cons_of_mem _ he'))]
      exact hrec e' (List.mem_cons_of_mem _ he')
    · exact shrinkAdd_dyn ops hlaw u Canon hcs n c e (al_mem_of_get? (hrec e List.mem_cons_self)) h

/-- batch containers (`Hypergraph`, `DirectedHypergraph`): the re-insertion loop over the incident keys, reading the
current state, is C19's loop over the records read before the loop -/
theorem foldl_shrinkAddK (hlaw : Lawful ops) (n : Node) (l : List (κ × (ω × Md))) (c : Content κ ω)
    (hn : ∀ e ∈ l, n ∈ ops.nodesOf e.1) (hrec : ∀ e ∈ l, get? c.edges e.1 = some e.2) :
    (l.map (·.1)).foldl (shrinkAddK ops n) c = l.foldl (shrinkAdd ops n) c := by
  induction l generalizing c with
  | nil => rfl
  | cons e l ih =>
    simp only [List.map_cons, List.foldl_cons]
    have h1 : shrinkAddK ops n c e.1 = shrinkAdd ops n c e := by
      unfold shrinkAddK; rw [hrec e List.mem_cons_self]
    rw [h1]
    apply ih _ (fun e' he' => hn e' (List.mem_cons_of_mem _ he'))
    intro e' he'
    rw [shrinkAdd_get?_in ops hlaw n c e e'.1 (hn e' (List.mem_cons_of_mem _ he'))]
    exact hrec e' (List.mem_cons_of_mem _ he')

/-- record-by-record containers (`TemporalHypergraph`, `MultiplexHypergraph`): same statement -/
theorem foldl_shrinkOneK (hlaw : Lawful ops) (n : Node) (l : List (κ × (ω × Md))) (c : Content κ ω)
    (hn : ∀ e ∈ l, n ∈ ops.nodesOf e.1) (hnd : (keys c.edges).Nodup) (hdist : (l.map (·.1)).Nodup)
    (hrec : ∀ e ∈ l, get? c.edges e.1 = some e.2) :
    (l.map (·.1)).foldl (shrinkOneK ops n) c = l.foldl (shrinkOne ops n) c := by
  induction l generalizing c with
  | nil => rfl
  | cons e l ih =>
    simp only [List.map_cons, List.foldl_cons]
    have h1 : shrinkOneK ops n c e.1 = shrinkOne ops n c e := by
      unfold shrinkOneK; rw [hrec e List.mem_cons_self]
    rw [h1]
    simp only [List.map_cons, List.nodup_cons] at hdist
    apply ih _ (fun e' he' => hn e' (List.mem_cons_of_mem _ he')) (shrinkOne_keys_nodup ops n c e hnd) hdist.2
    intro e' he'
    rw [shrinkOne_get?_in ops hlaw n c e e'.1 (hn e' (List.mem_cons_of_mem _ he')) hnd]
    have : e.1 ≠ e'.1 := by
      intro hee
      exact hdist.1 (hee ▸ List.mem_map.mpr ⟨e', he', rfl⟩)
    rw [if_neg this]
    exact hrec e' (List.mem_cons_of_mem _ he')

/-- the incident records are records of the content, under distinct keys -/
theorem incident_rec (c : Content κ ω) (n : Node) (hnd : (keys c.edges).Nodup) :
    ∀ e ∈ incident ops c n, get? c.edges e.1 = some e.2 :=
  fun e he => al_get?_of_mem hnd ((mem_incident ops c n e).mp he).1

theorem incident_keys_nodup (c : Content κ ω) (n : Node) (hnd : (keys c.edges).Nodup) :
    ((incident ops c n).map (·.1)).Nodup := by
  have hnd' : c.edges.Nodup := by
    have h1 : (c.edges.map (·.1)).Pairwise (· ≠ ·) := hnd
    exact (List.pairwise_map.mp h1).imp (fun {a b} (hab : a.1 ≠ b.1) (e : a = b) => hab (by rw [e]))
  have hinc : (incident ops c n).Pairwise (· ≠ ·) := incident_nodup ops c n hnd'
  show ((incident ops c n).map (·.1)).Pairwise (· ≠ ·)
  rw [List.pairwise_map]
  refine hinc.imp_of_mem ?_
  intro a b ha hb hne hab
  exact hne (al_entry_unique hnd ((mem_incident ops c n a).mp ha).1 ((mem_incident ops c n b).mp hb).1 hab)

/-- after the loop of `remove_node(keep_edges=True)` no key contains `n` -/
theorem foldl_shrinkOne_free (hlaw : Lawful ops) (c : Content κ ω) (hwf : WF ops c) (n : Node) :
    ∀ e ∈ ((incident ops c n).foldl (shrinkOne ops n) c).edges, n ∉ ops.nodesOf e.1 := by
  intro e he hmem
  have hnd := foldl_shrinkOne_keys_nodup ops n (incident ops c n) c hwf.keysNodup
  have h1 := (al_mem_iff_get? hnd e).mp he
  rw [foldl_shrinkOne_get?_in ops hlaw n _ c e.1 hmem hwf.keysNodup] at h1
  split at h1
  · cases h1
  · rename_i hni
    have : e.1 ∈ (incident ops c n).map (·.1) :=
      List.mem_map.mpr ⟨(e.1, e.2), (mem_incident ops c n _).mpr ⟨al_mem_of_get? h1, hmem⟩, rfl⟩
    exact hni this

/-- a fold on the spec side is the fold on the content side when every step is (under the invariant `I`) -/
theorem foldl_sim {σ K C : Type} (ofS : σ → C) (f : σ → K → σ) (g : C → K → C) (I : C → Prop)
    (hstep : ∀ a k, I (ofS a) → ofS (f a k) = g (ofS a) k) (hI : ∀ c k, I c → I (g c k)) :
    ∀ (ks : List K) (a : σ), I (ofS a) → ofS (ks.foldl f a) = ks.foldl g (ofS a) ∧ I (ofS (ks.foldl f a)) := by
  intro ks
  induction ks with
  | nil => intro a h; exact ⟨rfl, h⟩
  | cons k ks ih =>
    intro a h
    simp only [List.foldl_cons]
    have h1 := hstep a k h
    have h2 : I (ofS (f a k)) := h1 ▸ hI _ k h
    obtain ⟨h3, h4⟩ := ih (f a k) h2
    exact ⟨by rw [h3, h1], h4⟩

end dyn

/-! ### `filter_hypergraph` as the sequence of public calls it makes on an object -/
section via
variable {κ ω σ : Type} [DecidableEq κ] [Add ω]

/-- calls in sequence; the first rejected call (an exception) ends the run -/
def seqB {K : Type} (f : σ → K → σ × Bool) : σ → List K → σ × Bool
  | s, [] => (s, true)
  | s, k :: ks =>
    match f s k with
    | (s', true) => seqB f s' ks
    | (s', false) => (s', false)

/-- `filter_hypergraph` on an object of a full container model: `view` reads its content (`get_nodes(metadata=True)`,
`get_edges(metadata=True)`), `rmNode` / `rmEdge` are its `remove_node(·, keep_edges)` / `remove_edge` with their verdicts.
The node list is computed before the first removal, the hyperedge list on the object left by the node phase. -/
def filterVia (view : σ → Content κ ω) (rmNode : σ → Node → σ × Bool) (rmEdge : σ → κ → σ × Bool)
    (s : σ) (nc ec : Option Crit) (mode : Mode) : σ × Bool :=
  match seqB rmNode s (removedNodes (view s) nc mode) with
  | (s1, false) => (s1, false)
  | (s1, true) => seqB rmEdge s1 (match ec with
      | none => []
      | some cr => edgesToProcess (view s1) cr mode)

theorem seqB_foldlM {K C : Type} (view : σ → C) (f : σ → K → σ × Bool) (g? : C → K → Option C) (J : σ → Prop)
    (Q : K → Prop)
    (hstep : ∀ s k, J s → Q k → ((f s k).2 = true ↔ (g? (view s) k).isSome) ∧
      ((f s k).2 = true → J (f s k).1 ∧ g? (view s) k = some (view (f s k).1))) :
    ∀ (ks : List K) (s : σ) (c' : C), (∀ k ∈ ks, Q k) → J s → ks.foldlM g? (view s) = some c' →
      (seqB f s ks).2 = true ∧ view (seqB f s ks).1 = c' ∧ J (seqB f s ks).1 := by
  intro ks
  induction ks with
  | nil =>
    intro s c' _ hs h
    simp only [List.foldlM_nil, pure, Option.some.injEq] at h
    exact ⟨rfl, h, hs⟩
  | cons k ks ih =>
    intro s c' hq hs h
    rw [List.foldlM_cons] at h
    obtain ⟨h1, h2⟩ := hstep s k hs (hq k List.mem_cons_self)
    cases hg : g? (view s) k with
    | none => rw [hg] at h; cases h
    | some c1 =>
      rw [hg] at h
      have hacc : (f s k).2 = true := h1.mpr (by simp [hg])
      obtain ⟨hJ, hv⟩ := h2 hacc
      rw [hg, Option.some.injEq] at hv
      simp only [seqB]
      generalize hr : f s k = r at hacc hJ hv
      obtain ⟨s', b⟩ := r
      simp only at hacc hJ hv
      subst hacc
      simp only []
      apply ih s' c' (fun k' hk' => hq k' (List.mem_cons_of_mem _ hk')) hJ
      rw [← hv]; exact h

theorem nodePhase?_eq (ops : KeyOps κ) (c : Content κ ω) (nc : Option Crit) (mode : Mode) (keep : Bool) :
    nodePhase? ops c nc mode keep = (removedNodes c nc mode).foldlM (removeNode? ops keep) c := by
  cases nc <;> rfl

theorem edgePhase?_eq (c : Content κ ω) (ec : Option Crit) (mode : Mode) :
    edgePhase? c ec mode = (match ec with
      | none => []
      | some cr => edgesToProcess c cr mode).foldlM removeEdge? c := by
  cases ec <;> rfl

/-- if every `remove_node` / `remove_edge` of the object is C19's content operation with the same verdict (on objects
satisfying `J`, which the calls preserve and which gives `WF`), then `filter_hypergraph` on the object makes no rejected
call, stays within `J` and leaves the content `filterHg` computes. -/
theorem filterVia_eq (ops : KeyOps κ) (hlaw : Lawful ops) (keep : Bool) (view : σ → Content κ ω)
    (rmNode : σ → Node → σ × Bool) (rmEdge : σ → κ → σ × Bool) (J : σ → Prop) (Q : κ → Prop)
    (hwf : ∀ s, J s → WF ops (view s)) (hQ : ∀ s, J s → ∀ e ∈ (view s).edges, Q e.1)
    (hnode : ∀ s n, J s → ((rmNode s n).2 = true ↔ (removeNode? ops keep (view s) n).isSome) ∧
      ((rmNode s n).2 = true → J (rmNode s n).1 ∧ view (rmNode s n).1 = removeNode ops keep (view s) n))
    (hedge : ∀ s k, J s → Q k → ((rmEdge s k).2 = true ↔ (removeEdge? (view s) k).isSome) ∧
      ((rmEdge s k).2 = true → J (rmEdge s k).1 ∧ view (rmEdge s k).1 = removeEdge (view s) k))
    (s : σ) (hs : J s) (nc ec : Option Crit) (mode : Mode) :
    (filterVia view rmNode rmEdge s nc ec mode).2 = true ∧ J (filterVia view rmNode rmEdge s nc ec mode).1 ∧
    view (filterVia view rmNode rmEdge s nc ec mode).1 = filterHg ops (view s) nc ec mode keep := by
  have hret := filterHg?_eq ops hlaw (view s) (hwf s hs) nc ec mode keep
  unfold filterHg? at hret
  rw [nodePhase?_eq] at hret
  cases hn : (removedNodes (view s) nc mode).foldlM (removeNode? ops keep) (view s) with
  | none => rw [hn] at hret; cases hret
  | some c1 =>
    rw [hn, Option.bind_some, edgePhase?_eq] at hret
    have hstepN : ∀ s k, J s → True → ((rmNode s k).2 = true ↔ (removeNode? ops keep (view s) k).isSome) ∧
        ((rmNode s k).2 = true → J (rmNode s k).1 ∧ removeNode? ops keep (view s) k = some (view (rmNode s k).1)) := by
      intro s k hJ _
      obtain ⟨h1, h2⟩ := hnode s k hJ
      refine ⟨h1, fun hacc => ⟨(h2 hacc).1, ?_⟩⟩
      have := h1.mp hacc
      unfold removeNode? at this ⊢
      split
      · rw [(h2 hacc).2]
      · rename_i hno; simp [hno] at this
    have hstepE : ∀ s k, J s → Q k → ((rmEdge s k).2 = true ↔ (removeEdge? (view s) k).isSome) ∧
        ((rmEdge s k).2 = true → J (rmEdge s k).1 ∧ removeEdge? (view s) k = some (view (rmEdge s k).1)) := by
      intro s k hJ hq
      obtain ⟨h1, h2⟩ := hedge s k hJ hq
      refine ⟨h1, fun hacc => ⟨(h2 hacc).1, ?_⟩⟩
      have := h1.mp hacc
      unfold removeEdge? at this ⊢
      split
      · rw [(h2 hacc).2]
      · rename_i hno; simp [hno] at this
    obtain ⟨a1, a2, a3⟩ := seqB_foldlM view rmNode (removeNode? ops keep) J (fun _ => True) hstepN _ s c1
      (fun _ _ => trivial) hs hn
    unfold filterVia
    generalize hr : seqB rmNode s (removedNodes (view s) nc mode) = r at a1 a2 a3
    obtain ⟨s1, b⟩ := r
    simp only at a1 a2 a3
    subst a1
    simp only []
    rw [← a2] at hret
    have hq1 : ∀ k ∈ (match ec with
        | none => []
        | some cr => edgesToProcess (view s1) cr mode), Q k := by
      intro k hk
      cases ec with
      | none => simp at hk
      | some cr =>
        simp only [edgesToProcess, List.mem_map, List.mem_filter] at hk
        obtain ⟨e, ⟨he, _⟩, rfl⟩ := hk
        exact hQ s1 a3 e he
    obtain ⟨b1, b2, b3⟩ := seqB_foldlM view rmEdge removeEdge? J Q hstepE _ s1 _ hq1 a3 hret
    exact ⟨b1, b3, b2⟩

end via

/-! ### canonical keys of the instances -/

/-- sorted node tuple -/
def SortedL (l : List Nat) : Prop := l.Pairwise (· ≤ ·)

theorem sortedL_without {l : List Nat} (h : SortedL l) (n : Nat) : SortedL (without l n) :=
  List.Pairwise.filter _ h

/-- `Hypergraph`: the node tuple is sorted, no tag -/
def CanonH (k : Key) : Prop := SortedL k.1 ∧ k.2 = []
/-- `TemporalHypergraph` / `MultiplexHypergraph`: the node tuple is sorted, one tag (time / layer) -/
def CanonT (k : Key) : Prop := SortedL k.1 ∧ ∃ t, k.2 = [t]
/-- `DirectedHypergraph`: both tuples sorted, no node on both sides -/
def CanonD (k : Key) : Prop := SortedL k.1 ∧ SortedL k.2 ∧ ∀ m ∈ k.1, m ∉ k.2

theorem canonShrink_H : CanonShrink opsH CanonH := by
  intro k n k' hk h
  simp only [opsH, Option.some.injEq] at h
  subst h; exact ⟨sortedL_without hk.1 n, hk.2⟩

theorem canonShrink_T : CanonShrink opsT CanonT := by
  intro k n k' hk h
  simp only [opsT] at h
  split at h
  · cases h
  · cases h; exact ⟨sortedL_without hk.1 n, hk.2⟩

theorem canonShrink_D : CanonShrink opsD CanonD := by
  intro k n k' hk h
  simp only [opsD] at h
  split at h
  · cases h
  · cases h
    refine ⟨sortedL_without hk.1 n, sortedL_without hk.2.1 n, ?_⟩
    intro m hm hm2
    simp only [without, List.mem_filter] at hm hm2
    exact hk.2.2 m hm.1 hm2.1


/-- the three instances are lawful (same statements as `C19_lawful_H/T/D` of `Props/C19.lean`, needed here) -/
theorem lawful_H : Lawful opsH := by
  intro k n k' h m
  simp only [opsH, Option.some.injEq] at h
  subst h; simp [opsH, without]

theorem lawful_T : Lawful opsT := by
  intro k n k' h m
  simp only [opsT] at h
  split at h
  · cases h
  · cases h; simp [opsT, without]

theorem lawful_D : Lawful opsD := by
  intro k n k' h m
  simp only [opsD] at h
  split at h
  · cases h
  · cases h
    simp only [opsD, without, List.mem_append, List.mem_filter, ne_eq, decide_not, Bool.not_eq_true',
      decide_eq_false_iff_not]
    constructor
    · rintro (⟨h1, h2⟩ | ⟨h1, h2⟩); exact ⟨Or.inl h1, h2⟩; exact ⟨Or.inr h1, h2⟩
    · rintro ⟨h1 | h1, h2⟩; exact Or.inl ⟨h1, h2⟩; exact Or.inr ⟨h1, h2⟩

end C19
