import Hgxv.Proofs.C15Closed
import Mathlib.Analysis.SpecialFunctions.Log.Basic
import Mathlib.Data.Nat.Factorial.Basic
import Mathlib.Data.Nat.Choose.Basic
/-! # C15 — `log_binomial` / `log_kappa`: the sums of logarithms are the logarithm of the coefficient -/
open Finset
namespace C15

theorem prodFrom_pos (lo len : ℕ) (hlo : 1 ≤ lo) : 0 < prodFrom lo len := by
  induction len with
  | zero => simp [prodFrom]
  | succ n ih => simp only [prodFrom]; exact Nat.mul_pos ih (by omega)

theorem binomDen_eq (k : ℕ) : binomDen k = k.factorial := by
  unfold binomDen
  induction k with
  | zero => simp [prodFrom]
  | succ n ih => simp only [prodFrom, ih, Nat.factorial_succ]; ring

/-- `prodFrom (m + 1) k · m! = (m + k)!` -/
theorem prodFrom_mul_factorial (m k : ℕ) : prodFrom (m + 1) k * m.factorial = (m + k).factorial := by
  induction k with
  | zero => simp [prodFrom]
  | succ n ih =>
    simp only [prodFrom]
    have : (m + (n + 1)).factorial = (m + n + 1) * (m + n).factorial := by
      rw [← Nat.add_assoc, Nat.factorial_succ]
    rw [this, ← ih]; ring

/-- the two products of `log_binomial(n, k)`: numerator = denominator · `C(n, k)` (`k ≤ n`) -/
theorem binomNum_eq (n k : ℕ) (hk : k ≤ n) : binomNum n k = binomDen k * Nat.choose n k := by
  unfold binomNum
  have h1 := prodFrom_mul_factorial (n - k) k
  have h2 : n - k + k = n := by omega
  rw [h2] at h1
  have h3 := Nat.choose_mul_factorial_mul_factorial hk
  have hpos : 0 < (n - k).factorial := Nat.factorial_pos _
  apply Nat.eq_of_mul_eq_mul_right hpos
  rw [h1, binomDen_eq, ← h3]; ring

/-- `np.log(np.arange(lo, lo + len)).sum()` is the logarithm of the product (`lo ≥ 1`: no factor is 0) -/
theorem log_prodFrom (lo len : ℕ) (hlo : 1 ≤ lo) :
    Real.log (prodFrom lo len : ℝ) = ∑ i ∈ range len, Real.log ((lo + i : ℕ) : ℝ) := by
  induction len with
  | zero => simp [prodFrom]
  | succ n ih =>
    have hp : ((prodFrom lo n : ℕ) : ℝ) ≠ 0 := by
      have := prodFrom_pos lo n hlo
      exact_mod_cast this.ne'
    have hq : ((lo + n : ℕ) : ℝ) ≠ 0 := by
      have : 0 < lo + n := by omega
      exact_mod_cast this.ne'
    simp only [prodFrom, Nat.cast_mul, Finset.sum_range_succ]
    rw [Real.log_mul hp hq, ih]

theorem kappaProd_eq (N d : ℕ) (hd : 2 ≤ d) (hN : d ≤ N) : kappaProd N d = kappa N d := by
  unfold kappaProd
  rw [kappa_eq, binomNum_eq (N - 2) (d - 2) (by omega)]
  have hden : ((binomDen (d - 2) : ℕ) : ℚ) ≠ 0 := by
    have := prodFrom_pos 1 (d - 2) (le_refl 1)
    unfold binomDen
    exact_mod_cast this.ne'
  rw [Nat.cast_mul, mul_div_cancel_left₀ _ hden]

end C15
