import Hgxv.Proofs.C06Link
import Hgxv.Proofs.C02Total
/-! # C06 ↔ C02 (`DirectedHypergraph`): the content-level `add_node` / `add_edge` of `Model/C06.lean` are the
operations of `C02.Spec`, and every reachable state of the full model is a well-formed C06 content.  Core Lean only. -/
namespace C06

def dkey (k : C02.Key) : DKey := ⟨k.1, k.2⟩

theorem dkey_inj : ∀ a b : C02.Key, dkey a = dkey b → a = b := by
  intro a b h
  obtain ⟨a1, a2⟩ := a
  obtain ⟨b1, b2⟩ := b
  simp only [dkey, DKey.mk.injEq] at h
  rw [h.1, h.2]

/-- the abstract state of the full `DirectedHypergraph` model as a C06 content -/
def ofSpec02 (a : C02.Spec) : Content DKey := ofTables dkey a.weighted a.hmeta a.nodes a.edges

theorem insertSorted02 (a : Nat) (l : List Nat) : C02.insertSorted a l = Wire.insertSorted a l := by
  induction l with
  | nil => rfl
  | cons b bs ih => simp [C02.insertSorted, Wire.insertSorted, ih]

theorem sortNodes02 (l : List Nat) : C02.sortNodes l = sort l := by
  unfold C02.sortNodes sort Wire.sortNats
  induction l with
  | nil => rfl
  | cons a t ih => simp only [List.foldr_cons, ih, insertSorted02]

/-! ## the spec operations as table updates -/

theorem spec02_addNode (a : C02.Spec) (n : Nat) (md : Option C02.Meta) :
    C02.Spec.addNode a n md = { a with nodes := tAddNode a.nodes n (md.getD []) } := by
  unfold C02.Spec.addNode tAddNode
  cases h : AL.get? a.nodes n with
  | none => rfl
  | some old =>
    cases old with
    | nil => rfl
    | cons x xs => rfl

theorem spec02_touchAll (l : List Nat) (a : C02.Spec) :
    C02.Spec.touchAll a l = { a with nodes := tTouchAll a.nodes l } := by
  unfold tTouchAll
  induction l generalizing a with
  | nil => rfl
  | cons n l ih =>
    simp only [C02.Spec.touchAll, List.foldl_cons]
    rw [ih, spec02_addNode]; rfl

theorem rejects02 (wtd : Bool) (w : Option Int) :
    (!wtd && w.isSome && w != some C02.one) = rejectsWeight wtd w := by
  cases w with
  | none => simp [rejectsWeight]
  | some q =>
    have : C02.one = unit := rfl
    cases wtd <;> simp [rejectsWeight, this, bne]

theorem spec02_addEdgeKey (a : C02.Spec) (k : C02.Key) (w : Option Int) (md : Option C02.Meta) :
    C02.Spec.addEdgeKey a k w md =
      if rejectsWeight a.weighted w then (a, .rej)
      else ({ a with
                edges := AL.set a.edges k (tEntry a.weighted (AL.get? a.edges k) (weightOrUnit w) (md.getD []))
                nodes := if (AL.get? a.edges k).isNone then tTouchAll a.nodes (k.1 ++ k.2) else a.nodes }, .ok) := by
  unfold C02.Spec.addEdgeKey
  rw [rejects02]
  by_cases hr : rejectsWeight a.weighted w = true
  · simp [hr]
  · simp only [hr, Bool.false_eq_true, if_false]
    have hone : C02.one = unit := rfl
    have hw' : w.getD unit = weightOrUnit w := by cases w <;> rfl
    cases hg : AL.get? a.edges k with
    | none =>
      simp only [spec02_touchAll, tEntry, Option.isNone_none, if_true, hone, hw']
    | some old =>
      obtain ⟨w0, m0⟩ := old
      simp only [tEntry, Option.isNone_some, Bool.false_eq_true, if_false, hone, hw']

/-! ## the link -/

/-- `add_node` of the spec is C06's `addNode` on the content -/
theorem link_addNode02 (a : C02.Spec) (n : Nat) (md : Option C02.Meta) :
    ofSpec02 (C02.Spec.addNode a n md) = addNode (ofSpec02 a) n (md.map decMeta) := by
  rw [spec02_addNode]; unfold ofSpec02; rw [addNode_ofTables]

/-- `add_edge` of the spec (sides given as iterables or bare nodes) is C06's `addEdge` on the content, accepted and
rejected alike -/
theorem link_addEdge02 (a : C02.Spec) (e : C02.RawEdge) (w : Option Int) (md : Option C02.Meta) :
    addEdge (ofSpec02 a) ⟨e.src.toList, e.tgt.toList⟩ w (md.map decMeta) =
      match C02.Spec.addEdge a e w md with
      | (a', .ok) => some (ofSpec02 a')
      | (_, .rej) => none := by
  unfold C02.Spec.addEdge
  rw [spec02_addEdgeKey]
  unfold ofSpec02
  rw [addEdge_ofTables dkey dkey_inj a.weighted a.hmeta a.nodes a.edges ⟨e.src.toList, e.tgt.toList⟩ (C02.canonAdd e)
    (by show (⟨sort e.src.toList, sort e.tgt.toList⟩ : DKey) = dkey (C02.canonAdd e)
        simp [dkey, C02.canonAdd, sortNodes02])]
  by_cases hr : rejectsWeight a.weighted w = true
  · simp [hr]
  · simp only [hr, Bool.false_eq_true, if_false]
    have : Kind.touchAlways DKey = false := rfl
    simp only [this, Bool.false_or]
    rfl

theorem link_new02 (w : Bool) (hm : Option C02.Meta) :
    ofSpec02 (C02.Spec.ctor w hm none none none none).1 = setHMeta (construct DKey w) (decMeta (C02.ctorHMeta hm w)) := rfl

theorem link_setHMeta02 (a : C02.Spec) (hm : C02.Meta) :
    ofSpec02 (C02.Spec.applyOp a (.setHMeta hm)).1 = setHMeta (ofSpec02 a) (decMeta hm) := rfl

theorem ofSpec02_onto (c : Content DKey) : ∃ a : C02.Spec, ofSpec02 a = c :=
  ⟨{ weighted := c.weighted, hmeta := encMeta c.hmeta, nodes := mapKV id encMeta c.nodes,
     edges := mapKV (fun k : DKey => (k.src, k.tgt)) (fun v => (v.1, encMeta v.2)) c.edges },
   ofTables_enc dkey (fun k : DKey => (k.src, k.tgt)) (fun _ => rfl) c⟩

/-! ## `load_hypergraph` replays the records on `C02.Spec` -/

/-- the spec's own entry points, as `load_hypergraph` uses them: `DirectedHypergraph(weighted=w)` then
`set_hypergraph_metadata`, `add_node(n, md)`, `add_edge((sources, targets), weight, md)` -/
def specD : SpecOps DKey C02.Spec where
  of := ofSpec02
  new w hm := (C02.Spec.applyOp (C02.Spec.ctor w none none none none none).1 (.setHMeta hm)).1
  addNode a n md := (C02.Spec.applyOp a (.addNode n (some md))).1
  addEdge a k w md :=
    match C02.Spec.applyOp a (.addEdge (C02.RawEdge.ofLists k.src k.tgt) w (some md)) with
    | (a', .ok) => some a'
    | (_, .rej) => none
  okKey _ := True
  of_new w hm := rfl
  of_addNode a n md := link_addNode02 a n (some md)
  of_addEdge a k w md _ := by
    have h := link_addEdge02 a (C02.RawEdge.ofLists k.src k.tgt) w (some md)
    simp only [Option.map_some] at h
    have hk : (⟨(C02.RawEdge.ofLists k.src k.tgt).src.toList, (C02.RawEdge.ofLists k.src k.tgt).tgt.toList⟩ : DKey) = k := rfl
    rw [hk] at h
    rw [h]
    simp only [C02.Spec.applyOp]
    cases C02.Spec.addEdge a (C02.RawEdge.ofLists k.src k.tgt) w (some md) with
    | mk a' o => cases o <;> rfl

/-! ## reachable states of the full model are well-formed contents -/

/-- `C02.Inv` does not say that an unweighted object holds weight 1 everywhere; `C02.Unw` (an invariant of every
history as well, `C02.runCmds_all`) does -/
theorem WF_ofSpec02_abs (s : C02.Store) (h : C02.Inv s) (u : C02.Unw s) : WF (ofSpec02 (C02.abs s)) := by
  unfold ofSpec02
  apply WF_ofTables dkey dkey_inj
  · rw [C02.abs_nodes_keys]; exact h.nd_adjS
  · rw [C02.abs_edges_keys]; exact h.nd_edge
  · intro k hk
    rw [C02.abs_edges_keys] at hk
    obtain ⟨id, hid⟩ := AL_get?_isSome_of_mem _ _ hk
    have kw := h.key_wf id k (h.rev_of_edge k id hid)
    show (⟨sort k.1, sort k.2⟩ : DKey) = ⟨k.1, k.2⟩
    rw [sort_of_sorted _ kw.sortedS, sort_of_sorted _ kw.sortedT]
  · intro k hk n hn
    rw [C02.abs_edges_keys] at hk
    obtain ⟨id, hid⟩ := AL_get?_isSome_of_mem _ _ hk
    rw [C02.abs_nodes_keys]
    have hn' : n ∈ k.1 ∨ n ∈ k.2 := List.mem_append.mp hn
    have := h.nodes_in id k (h.rev_of_edge k id hid) n hn'
    apply Decidable.byContradiction
    intro hc
    rw [AL_get?_none_of_not_mem _ _ hc] at this
    cases this
  · intro hw e he
    simp only [C02.abs, List.mem_map] at he
    obtain ⟨p, hp, rfl⟩ := he
    have hid : AL.get? s.edgeList p.1 = some p.2 := AL_get?_of_mem_nodup _ _ _ h.nd_edge hp
    have hsome : (AL.get? s.weights p.2).isSome = true := by
      rw [h.weights_same, h.rev_of_edge _ _ hid]; rfl
    obtain ⟨w0, hw0⟩ := Option.isSome_iff_exists.mp hsome
    show (AL.get? s.weights p.2).getD 0 = unit
    rw [hw0]
    exact u hw p.2 w0 hw0

/-- every object after every history of constructor calls, copies and public mutating calls -/
theorem WF_ofSpec02_run (cs : List C02.Cmd) (hcs : ∀ c ∈ cs, c.WF) (slot : Nat) (s : C02.Store)
    (hs : AL.get? (C02.runCmds [] cs) slot = some s) : WF (ofSpec02 (C02.abs s)) := by
  have h0 : C02.StateInv [] := fun _ _ h => by simp [AL.get?] at h
  have o0 : C02.StateOrd [] := fun _ _ h => by simp [AL.get?] at h
  have u0 : C02.StateUnw [] := fun _ _ h => by simp [AL.get?] at h
  obtain ⟨hi, _, hu⟩ := C02.runCmds_all [] cs hcs h0 o0 u0
  exact WF_ofSpec02_abs s (hi slot s hs) (hu slot s hs)

/-! ## one step on the concrete store (`C02.abs_applyOp`) -/

theorem link_store_addNode02 (s : C02.Store) (h : C02.Inv s) (o : C02.Ord s) (n : Nat) (md : Option C02.Meta) :
    ofSpec02 (C02.abs (C02.applyOp s (.addNode n md)).1) = addNode (ofSpec02 (C02.abs s)) n (md.map decMeta) := by
  have hs := (C02.abs_applyOp s (.addNode n md) trivial h o).1
  rw [hs]
  exact link_addNode02 (C02.abs s) n md

/-- `add_edge` of the id-indexed model on a hyperedge with duplicate-free, disjoint, non-empty sides (`C02.RawWF`, the
property's quantifier) shows as C06's `addEdge`, accepted and rejected alike -/
theorem link_store_addEdge02 (s : C02.Store) (h : C02.Inv s) (o : C02.Ord s) (e : C02.RawEdge) (he : C02.RawWF e)
    (w : Option Int) (md : Option C02.Meta) :
    addEdge (ofSpec02 (C02.abs s)) ⟨e.src.toList, e.tgt.toList⟩ w (md.map decMeta) =
      match C02.applyOp s (.addEdge e w md) with
      | (s', .ok) => some (ofSpec02 (C02.abs s'))
      | (_, .rej) => none := by
  obtain ⟨h1, h2⟩ := C02.abs_applyOp s (.addEdge e w md) he h o
  rw [link_addEdge02]
  simp only [C02.Spec.applyOp] at h1 h2
  revert h1 h2
  generalize C02.applyOp s (.addEdge e w md) = r
  generalize C02.Spec.addEdge (C02.abs s) e w md = q
  obtain ⟨s', o1⟩ := r
  obtain ⟨a', o2⟩ := q
  intro h1 h2
  simp only at h1 h2
  subst h1 h2
  cases o1 <;> rfl

/-! ## `load_hypergraph` builds an object of the id-indexed model -/

theorem match_outD {β : Type} (r : C02.Store × C02.Out) (g : C02.Store → β) :
    (match r with
      | (s', .ok) => some (g s')
      | (_, .rej) => none) = if r.2 = .ok then some (g r.1) else none := by
  obtain ⟨s', o⟩ := r
  cases o <;> simp

instance (e : C02.RawEdge) : Decidable (C02.RawWF e) :=
  decidable_of_iff (e.src.toList.Nodup ∧ e.tgt.toList.Nodup ∧ (∀ n, n ∈ e.src.toList → n ∉ e.tgt.toList) ∧
      e.src.toList ≠ [] ∧ e.tgt.toList ≠ [])
    ⟨fun ⟨a, b, c, d, f⟩ => ⟨a, b, c, d, f⟩, fun ⟨a, b, c, d, f⟩ => ⟨a, b, c, d, f⟩⟩

/-- objects of the full model: the tables together with their representation invariant (`Ord`: ids in creation order) -/
abbrev StoreD := { s : C02.Store // C02.Inv s ∧ C02.Ord s }

def storeD : SpecOps DKey StoreD where
  of s := ofSpec02 (C02.abs s.1)
  new w hm := ⟨(C02.applyOp (C02.ctor w none none none none none).1 (.setHMeta hm)).1,
    C02.applyOp_inv _ (.setHMeta hm) trivial (C02.inv_init w _),
    C02.applyOp_ord _ (.setHMeta hm) trivial (C02.inv_init w _) (C02.ord_init w _)⟩
  addNode s n md := ⟨(C02.applyOp s.1 (.addNode n (some md))).1,
    C02.applyOp_inv _ (.addNode n (some md)) trivial s.2.1, C02.applyOp_ord _ (.addNode n (some md)) trivial s.2.1 s.2.2⟩
  addEdge s k w md :=
    if hk : C02.RawWF (.ofLists k.src k.tgt) then
      if (C02.applyOp s.1 (.addEdge (.ofLists k.src k.tgt) w (some md))).2 = .ok then
        some ⟨(C02.applyOp s.1 (.addEdge (.ofLists k.src k.tgt) w (some md))).1,
          C02.applyOp_inv _ (.addEdge (.ofLists k.src k.tgt) w (some md)) hk s.2.1,
          C02.applyOp_ord _ (.addEdge (.ofLists k.src k.tgt) w (some md)) hk s.2.1 s.2.2⟩
      else none
    else none
  okKey k := C02.RawWF (.ofLists k.src k.tgt)
  of_new w hm := rfl
  of_addNode s n md := link_store_addNode02 s.1 s.2.1 s.2.2 n (some md)
  of_addEdge s k w md hk := by
    have h := link_store_addEdge02 s.1 s.2.1 s.2.2 (.ofLists k.src k.tgt) hk w (some md)
    simp only [Option.map_some] at h
    have hk' : (⟨(C02.RawEdge.ofLists k.src k.tgt).src.toList, (C02.RawEdge.ofLists k.src k.tgt).tgt.toList⟩ : DKey) = k := rfl
    rw [hk'] at h
    rw [h]
    rw [match_outD]
    simp only [dif_pos hk]
    split <;> rfl

/-- the keys of a reachable object have duplicate-free, disjoint, non-empty sides -/
theorem okKeys02 (s : C02.Store) (h : C02.Inv s) : ∀ e ∈ (ofSpec02 (C02.abs s)).edges, storeD.okKey e.1 := by
  intro e he
  obtain ⟨p, hp, rfl⟩ := (mem_mapKV dkey decVal2 _ e).mp he
  have hk : p.1 ∈ AL.keys (C02.abs s).edges := List.mem_map.mpr ⟨p, hp, rfl⟩
  rw [C02.abs_edges_keys] at hk
  obtain ⟨id, hid⟩ := AL_get?_isSome_of_mem _ _ hk
  have kw := h.key_wf id p.1 (h.rev_of_edge p.1 id hid)
  exact ⟨kw.nodupS, kw.nodupT, kw.disj, kw.neS, kw.neT⟩

end C06
