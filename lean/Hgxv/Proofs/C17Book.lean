import Hgxv.Proofs.C17Psi
import Mathlib.Order.Basic
/-! Bookkeeping of `fit` and the assembly step of `HySC.apply_kmeans`. -/
namespace C17

section best
variable {α : Type} [LinearOrder α] {β : Type}

theorem bestStep_spec (acc : α × Option β) (r : α × β) :
    acc.1 ≤ (bestStep acc r).1 ∧ r.1 ≤ (bestStep acc r).1 ∧
    ((bestStep acc r) = acc ∨ (bestStep acc r) = (r.1, some r.2) ∧ acc.1 < r.1) := by
  unfold bestStep
  split
  · exact ⟨le_of_lt ‹_›, le_refl _, Or.inr ⟨rfl, ‹_›⟩⟩
  · exact ⟨le_refl _, not_lt.mp ‹_›, Or.inl rfl⟩

/-- the fold `if self.maxL < loglik: save` over the realisations, started from any accumulator -/
theorem best_fold (rs : List (α × β)) : ∀ (acc : α × Option β),
    let res := rs.foldl bestStep acc
    acc.1 ≤ res.1 ∧ (∀ r ∈ rs, r.1 ≤ res.1) ∧
    (res = acc ∨ ∃ b, res.2 = some b ∧ (res.1, b) ∈ rs ∧ acc.1 < res.1) := by
  induction rs with
  | nil => intro acc; simp
  | cons r rs ih =>
    intro acc
    simp only [List.foldl_cons]
    obtain ⟨h1, h2, h3⟩ := ih (bestStep acc r)
    obtain ⟨s1, s2, s3⟩ := bestStep_spec acc r
    refine ⟨le_trans s1 h1, ?_, ?_⟩
    · intro x hx
      rcases List.mem_cons.mp hx with rfl | hx
      · exact le_trans s2 h1
      · exact h2 x hx
    · rcases h3 with h3 | ⟨b, hb1, hb2, hb3⟩
      · rcases s3 with s3 | ⟨s3, s4⟩
        · left; rw [h3, s3]
        · right; refine ⟨r.2, ?_, ?_, ?_⟩
          · rw [h3, s3]
          · rw [h3, s3]; simp
          · rw [h3, s3]; exact s4
      · right; exact ⟨b, hb1, List.mem_cons_of_mem _ hb2, lt_of_le_of_lt s1 hb3⟩

/-- as soon as one realisation ends above the start value, the stored optimum the fold started with is gone -/
theorem fold_forgets (rs : List (α × β)) : ∀ (a : α) (s s' : Option β), (∃ r ∈ rs, a < r.1) →
    rs.foldl bestStep (a, s) = rs.foldl bestStep (a, s') := by
  induction rs with
  | nil => intro a s s' h; obtain ⟨r, hr, _⟩ := h; simp at hr
  | cons r rs ih =>
    intro a s s' h
    simp only [List.foldl_cons]
    by_cases hlt : a < r.1
    · have e1 : bestStep (a, s) r = (r.1, some r.2) := by unfold bestStep; simp [hlt]
      have e2 : bestStep (a, s') r = (r.1, some r.2) := by unfold bestStep; simp [hlt]
      rw [e1, e2]
    · have e1 : bestStep (a, s) r = (a, s) := by unfold bestStep; simp [hlt]
      have e2 : bestStep (a, s') r = (a, s') := by unfold bestStep; simp [hlt]
      rw [e1, e2]
      apply ih
      obtain ⟨x, hx, hxlt⟩ := h
      rcases List.mem_cons.mp hx with rfl | hx
      · exact absurd hxlt hlt
      · exact ⟨x, hx, hxlt⟩

/-- no realisation above the accumulator: the fold returns the accumulator -/
theorem fold_keeps (rs : List (α × β)) : ∀ (o : α × Option β), (∀ r ∈ rs, r.1 ≤ o.1) →
    rs.foldl bestStep o = o := by
  induction rs with
  | nil => intro o _; rfl
  | cons r rs ih =>
    intro o h
    simp only [List.foldl_cons]
    have e : bestStep o r = o := by
      unfold bestStep
      simp [not_lt.mpr (h r (by simp))]
    rw [e]
    exact ih o (fun x hx => h x (List.mem_cons_of_mem _ hx))

end best

section conv
variable {α : Type} [Sub α] [Zero α] [LT α] [DecidableLT α]

/-- the last `train_info` row of the realisation carries the current value of `loglik` -/
def RowsOk (s : Conv α) : Prop := ∀ r, s.rows.head? = some r → r.2.1 = s.loglik

theorem convStep_rowsOk (tol : α) (thr every : Nat) (s : Conv α) (L : α) (h : RowsOk s) :
    RowsOk (convStep tol thr every s L) := by
  unfold convStep RowsOk
  simp only
  by_cases hc : s.it % every = 0
  · simp only [hc, if_true]
    intro r hr
    simp only [List.head?_cons, Option.some.injEq] at hr
    rw [← hr]
  · simp only [hc, if_false]
    exact h

theorem go_rowsOk (tol : α) (thr every : Nat) : ∀ (n : Nat) (Ls : List α) (s : Conv α), RowsOk s →
    RowsOk (runReal.go tol thr every n Ls s)
  | 0, _, s, h => by unfold runReal.go; exact h
  | _ + 1, [], s, h => by unfold runReal.go; exact h
  | n + 1, L :: Ls, s, h => by
    unfold runReal.go
    split
    · exact h
    · exact go_rowsOk tol thr every n Ls _ (convStep_rowsOk tol thr every s L h)

theorem convStep_rows_ne (tol : α) (thr every : Nat) (s : Conv α) (L : α) (h : s.rows ≠ [] ∨ s.it % every = 0) :
    (convStep tol thr every s L).rows ≠ [] := by
  unfold convStep
  simp only
  by_cases hc : s.it % every = 0
  · simp [hc]
  · simp only [hc, if_false]
    rcases h with h | h
    · exact h
    · exact absurd h hc

theorem go_rows_ne (tol : α) (thr every : Nat) : ∀ (n : Nat) (Ls : List α) (s : Conv α), s.rows ≠ [] →
    (runReal.go tol thr every n Ls s).rows ≠ []
  | 0, _, s, h => by unfold runReal.go; exact h
  | _ + 1, [], s, h => by unfold runReal.go; exact h
  | n + 1, L :: Ls, s, h => by
    unfold runReal.go
    split
    · exact h
    · exact go_rows_ne tol thr every n Ls _ (convStep_rows_ne tol thr every s L (Or.inl h))

end conv

/-! ### `HySC.apply_kmeans` -/

def asmStep (N K : Nat) (X : List (List Nat)) (p : Nat × Nat) : List (List Nat) :=
  (List.range N).map (fun j => (List.range K).map (fun k => if j = p.1 ∧ k = p.2 then 1 else (X.getD j []).getD k 0))

theorem assemble_eq (N K : Nat) (a b : List Nat) :
    assemble N K a b = (a.zip b).foldl (asmStep N K) (tab2 N K (fun _ _ => 0)) := rfl

theorem asm_fold (N K : Nat) (ps : List (Nat × Nat)) : ∀ (X : List (List Nat)) (j k : Nat), j < N → k < K →
    at2 (ps.foldl (asmStep N K) X) j k = if (j, k) ∈ ps then 1 else at2 X j k := by
  induction ps with
  | nil => intro X j k _ _; simp
  | cons p ps ih =>
    intro X j k hj hk
    simp only [List.foldl_cons]
    rw [ih _ j k hj hk]
    have : at2 (asmStep N K X p) j k = if j = p.1 ∧ k = p.2 then 1 else at2 X j k :=
      at2_tab2 N K (fun j k => if j = p.1 ∧ k = p.2 then 1 else (X.getD j []).getD k 0) j k hj hk
    rw [this]
    by_cases h1 : (j, k) ∈ ps
    · simp [h1]
    · by_cases h2 : j = p.1 ∧ k = p.2
      · have : (j, k) = p := by cases p; simp_all
        simp [h2, this]
      · have : ¬ (j, k) = p := by intro h; apply h2; rw [← h]; exact ⟨rfl, rfl⟩
        simp [h1, h2, this]

theorem zip_functional : ∀ (a b : List Nat), a.Nodup → ∀ j k k', (j, k) ∈ a.zip b → (j, k') ∈ a.zip b → k = k'
  | [], _, _, _, _, _, h, _ => by simp at h
  | _ :: _, [], _, _, _, _, h, _ => by simp at h
  | x :: a, y :: b, hnd, j, k, k', h, h' => by
    simp only [List.zip_cons_cons, List.mem_cons, Prod.mk.injEq] at h h'
    have hx : x ∉ a := (List.nodup_cons.mp hnd).1
    rcases h with ⟨rfl, rfl⟩ | h
    · rcases h' with ⟨_, rfl⟩ | h'
      · rfl
      · exact absurd (List.of_mem_zip h').1 hx
    · rcases h' with ⟨rfl, rfl⟩ | h'
      · exact absurd (List.of_mem_zip h).1 hx
      · exact zip_functional a b (List.nodup_cons.mp hnd).2 j k k' h h'

theorem zip_total : ∀ (a b : List Nat), b.length = a.length → ∀ j, j ∈ a → ∃ k, k ∈ b ∧ (j, k) ∈ a.zip b
  | [], _, _, _, h => by simp at h
  | x :: a, [], hl, _, _ => by simp at hl
  | x :: a, y :: b, hl, j, h => by
    rcases List.mem_cons.mp h with rfl | h
    · exact ⟨y, by simp, by simp⟩
    · obtain ⟨k, hk, hz⟩ := zip_total a b (by simpa using hl) j h
      exact ⟨k, by simp [hk], by simp [hz]⟩

end C17
