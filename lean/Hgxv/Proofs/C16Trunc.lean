import Hgxv.Model.C16Trunc
import Mathlib.Algebra.Order.Field.Basic
import Mathlib.Tactic.Linarith
import Mathlib.Tactic.Ring
namespace C16

section
variable {α : Type} [LE α] [DecidableLE α]

theorem ppfFrom_spec (cdf : Nat → α) (p : α) (fuel k0 k : Nat) (h : ppfFrom cdf p fuel k0 = some k) :
    k0 ≤ k ∧ k < k0 + fuel ∧ p ≤ cdf k ∧ ∀ j, k0 ≤ j → j < k → ¬ p ≤ cdf j := by
  induction fuel generalizing k0 with
  | zero => simp [ppfFrom] at h
  | succ n ih =>
    unfold ppfFrom at h
    by_cases hp : p ≤ cdf k0
    · rw [if_pos hp] at h
      cases h
      exact ⟨Nat.le_refl _, by omega, hp, fun j h1 h2 => by omega⟩
    · rw [if_neg hp] at h
      obtain ⟨a, b, c, d⟩ := ih (k0 + 1) h
      refine ⟨by omega, by omega, c, ?_⟩
      intro j h1 h2
      by_cases hj : j = k0
      · rw [hj]; exact hp
      · exact d j (by omega) h2

theorem ppfFrom_complete (cdf : Nat → α) (p : α) (fuel k0 j : Nat) (h1 : k0 ≤ j) (h2 : j < k0 + fuel) (hp : p ≤ cdf j) :
    ∃ k, ppfFrom cdf p fuel k0 = some k := by
  induction fuel generalizing k0 with
  | zero => omega
  | succ n ih =>
    unfold ppfFrom
    by_cases hp0 : p ≤ cdf k0
    · exact ⟨k0, by rw [if_pos hp0]⟩
    · rw [if_neg hp0]
      have : j ≠ k0 := fun hj => hp0 (hj ▸ hp)
      exact ih (k0 + 1) (by omega) (by omega)

end

section
variable {α : Type} [Field α] [LinearOrder α] [IsStrictOrderedRing α]

/-- `p <= c` in terms of the uniform: `u <= (c - e) / (1 - e)` -/
theorem truncP_le_iff (u e c : α) (he : e < 1) : u + (1 - u) * e ≤ c ↔ u ≤ (c - e) / (1 - e) := by
  have h1 : 0 < 1 - e := by linarith
  rw [le_div_iff₀ h1]
  constructor <;> intro h <;> nlinarith [h]

end
end C16
