import Hgxv.Model.C07Heap
import Hgxv.Proofs.C07Json
/-! # C07 — `serialize` over references returns `ser` of the denoted value -/
namespace C07

theorem look_map_ser (vals : List JTree) (r : Nat) : look (vals.map ser) r = ser (look vals r) := by
  unfold look
  rw [List.getElem?_map]
  cases vals[r]? <;> simp [ser]

theorem cellSer_map (vals : List JTree) (c : Cell) : cellSer (vals.map ser) c = ser (cellVal vals c) := by
  cases c with
  | atom t => rfl
  | arr is =>
    simp only [cellSer, cellVal, ser_arr, List.map_map]
    congr 1
    apply List.map_congr_left
    intro i _
    exact look_map_ser vals i
  | obj fs =>
    simp only [cellSer, cellVal, ser_obj, List.map_map]
    congr 2
    apply List.map_congr_left
    intro p _
    simp only [Function.comp, look_map_ser]

theorem serFrom_map (h : Heap) : ∀ acc : List JTree, serFrom (acc.map ser) h = (valuesFrom acc h).map ser := by
  induction h with
  | nil => intro acc; rfl
  | cons c cs ih =>
    intro acc
    simp only [serFrom, valuesFrom]
    rw [cellSer_map, ← ih]
    simp

theorem serCells_eq (h : Heap) : serCells h = (values h).map ser := by
  have := serFrom_map h []
  simpa [serCells, values] using this

end C07
