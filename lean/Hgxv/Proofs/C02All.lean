import Hgxv.Proofs.C02NodeRef
/-! C02 helper lemmas, part 12: the two "all metadata" listings as multisets. -/
namespace C02
open AL

theorem nodup_of_keys_nodup {α β : Type} [DecidableEq α] (l : List (α × β)) (h : (keys l).Nodup) : l.Nodup := by
  induction l with
  | nil => simp
  | cons hd t ih =>
    simp only [keys, List.map_cons, List.nodup_cons] at h
    refine List.nodup_cons.mpr ⟨?_, ih (by simpa [keys] using h.2)⟩
    intro hc
    exact h.1 (List.mem_map.mpr ⟨hd, hc, rfl⟩)

/-- `get_all_nodes_metadata()` lists, as a multiset, the metadata of the nodes of the abstract object -/
theorem q_allNodesMeta (s : Store) (h : Inv s) : (allNodesMeta s).Perm ((abs s).nodes.map (·.2)) := by
  unfold allNodesMeta
  apply List.Perm.map
  have nd1 : s.nmeta.Nodup := nodup_of_keys_nodup _ h.nd_nm
  have nd2 : (abs s).nodes.Nodup := nodup_of_keys_nodup _ (by rw [abs_nodes_keys]; exact h.nd_adjS)
  rw [List.perm_ext_iff_of_nodup nd1 nd2]
  intro p
  constructor
  · intro hp
    have hg := get?_of_mem _ _ _ h.nd_nm hp
    have hn : p.1 ∈ keys s.adjS := by
      rw [← isSome_get?_iff, ← h.nmeta_same, hg]; rfl
    have : get? (abs s).nodes p.1 = some p.2 := by rw [abs_get_node]; simp [hn, hg]
    exact mem_of_get? _ _ _ this
  · intro hp
    have hg := get?_of_mem _ _ _ (by rw [abs_nodes_keys]; exact h.nd_adjS) hp
    rw [h.nmeta_abs] at hg
    exact mem_of_get? _ _ _ hg

/-- `get_all_edges_metadata()` lists, as a multiset, the metadata of the hyperedges of the abstract object -/
theorem q_allEdgesMeta (s : Store) (h : Inv s) (o : Ord s) : (allEdgesMeta s).Perm ((abs s).edges.map (·.2.2)) := by
  unfold allEdgesMeta
  have e1 : (abs s).edges.map (·.2.2) =
      (s.edgeList.map (fun p => (p.2, (get? s.emeta p.2).getD []))).map (·.2) := by
    simp [abs, List.map_map, Function.comp_def]
  rw [e1]
  apply List.Perm.map
  have nd1 : s.emeta.Nodup := nodup_of_keys_nodup _ h.nd_em
  have ndk : (keys (s.edgeList.map (fun p => (p.2, (get? s.emeta p.2).getD [])))).Nodup := by
    have : keys (s.edgeList.map (fun p => (p.2, (get? s.emeta p.2).getD []))) = s.edgeList.map (·.2) := by
      simp [keys, List.map_map, Function.comp_def]
    rw [this]
    exact o.edge_sorted.imp (fun hab => Nat.ne_of_lt hab)
  have nd2 := nodup_of_keys_nodup _ ndk
  rw [List.perm_ext_iff_of_nodup nd1 nd2]
  intro p
  simp only [List.mem_map]
  constructor
  · intro hp
    have hg := get?_of_mem _ _ _ h.nd_em hp
    have hr : (get? s.rev p.1).isSome := by rw [← h.emeta_same, hg]; rfl
    obtain ⟨k, hk⟩ := Option.isSome_iff_exists.mp hr
    refine ⟨(k, p.1), mem_of_get? _ _ _ (h.edge_of_rev _ _ hk), ?_⟩
    simp [hg]
  · rintro ⟨q, hq, rfl⟩
    have hg : get? s.edgeList q.1 = some q.2 := get?_of_mem _ _ _ h.nd_edge hq
    obtain ⟨m, hm⟩ := Option.isSome_iff_exists.mp (h.emeta_of_edge _ _ hg)
    simp only [hm, Option.getD_some]
    exact mem_of_get? _ _ _ hm

end C02
