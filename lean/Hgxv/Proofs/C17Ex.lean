import Hgxv.Proofs.C17EM
import Mathlib.Tactic.IntervalCases
import Mathlib.Tactic.NormNum
/-! A concrete instance satisfying the hypotheses of the ascent theorems (non-vacuity). -/
namespace C17

/-- a toy instance: nodes 0,1,2, hyperedges {0,1} (weight 1) and {0,1,2} (weight 2), K = 1 -/
noncomputable def cEx : Cfg ℝ :=
  { N := 3, K := 1, D := 3, edges := [[0, 1], [0, 1, 2]], A := [1, 2], minv := 0, maxv := none, eps := 0,
    rtol := 1 / 1000, normU := false }

theorem at2_nonneg_of (m : Mat ℝ) (h : ∀ r ∈ m, ∀ x ∈ r, 0 ≤ x) (d k : Nat) : 0 ≤ at2 m d k := by
  unfold at2
  simp only [List.getD_eq_getElem?_getD]
  cases hd : m[d]? with
  | none => simp
  | some r =>
    simp only [Option.getD_some]
    cases hk : r[k]? with
    | none => simp
    | some x => simp; exact h r (List.mem_of_getElem? hd) x (List.mem_of_getElem? hk)

theorem cEx_setup : Setup cEx := by
  refine ⟨rfl, rfl, rfl, rfl, by decide, ?_, ?_, ?_, ?_⟩
  · intro e he
    have : e < 2 := he
    interval_cases e <;> simp [cEx, Cfg.wt, at1]
  · intro e he
    have : e < 2 := he
    interval_cases e <;> simp [cEx, Cfg.edge]
  · intro e he
    have : e < 2 := he
    interval_cases e <;> simp [cEx, Cfg.edge]
  · intro e he
    have : e < 2 := he
    interval_cases e <;> simp [cEx, Cfg.edge]

theorem cEx_init : (∀ i k, i < cEx.N → k < cEx.K → cEx.isIso i = false → 0 < at2 ([[1], [2], [3]] : Mat ℝ) i k) ∧
    (∀ e, e < cEx.E → ∀ k, k < cEx.K → 0 < at2 ([[1], [5]] : Mat ℝ) ((cEx.edge e).length - 2) k) ∧
    (∀ d k, 0 ≤ at2 ([[1], [5]] : Mat ℝ) d k) := by
  refine ⟨?_, ?_, ?_⟩
  · intro i k hi hk _
    have hi' : i < 3 := hi
    have hk' : k < 1 := hk
    interval_cases i <;> interval_cases k <;> simp [at2]
  · intro e he k hk
    have he' : e < 2 := he
    have hk' : k < 1 := hk
    interval_cases e <;> interval_cases k <;> simp [at2, cEx, Cfg.edge]
  · intro d k
    apply at2_nonneg_of
    intro r hr x hx
    simp at hr
    rcases hr with rfl | rfl <;> simp at hx <;> rw [hx] <;> norm_num

end C17
