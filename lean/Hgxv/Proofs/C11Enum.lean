import Hgxv.Model.C11Enum
import Hgxv.Proofs.C11Census
import Hgxv.Proofs.C11RelabelAux
/-! # C11 - the undirected census as an enumeration (core Lean only)

The classified node sets `counted n E` are the connected `n`-sets, each once; the result does not depend (up to
order) on the incidence-list / adjacency-list / root orders nor on the insertion order; every pass hands the induced
sub-hypergraph with ranks to the class table; the census counts `countedPats` class by class. -/
namespace C11

/-! ## the ESU pass for arbitrary adjacency lists and root order -/

def esuFromW (n : Nat) (g : Nat → List Nat) (v : Nat) : List (List Nat) :=
  extend n g v [v] ((g v).filter (v < ·)) (g v)

theorem esuSetsWith_eq (n : Nat) (g : Nat → List Nat) (rts : List Nat) :
    esuSetsWith n g rts = rts.flatMap (esuFromW n g) := rfl

section gen
variable {n : Nat} {g : Nat → List Nat} {rts : List Nat}

theorem esuW_out (hn : 1 ≤ n) (hgnd : ∀ w, (g w).Nodup) :
    ∀ o ∈ esuSetsWith n g rts, o.Nodup ∧ o.length = n ∧ ∃ v ∈ rts, RootValid g v o := by
  intro o ho
  rw [esuSetsWith_eq, List.mem_flatMap] at ho
  obtain ⟨v, hv, hov⟩ := ho
  have hinv := root_inv (N := n) (g := g) v hn hgnd
  obtain ⟨hnd, hlen⟩ := extend_out hgnd _ _ _ hinv o hov
  refine ⟨hnd, hlen, v, hv, ?_⟩
  have spec := extend_spec hgnd _ _ _ hinv o hnd hlen
  apply Classical.byContradiction
  intro hnv
  have h0 := spec.2 (fun hval => hnv (root_valid_iff.mp hval))
  have hpos : 0 < (esuFromW n g v).countP (sameSet o) :=
    List.countP_pos_iff.mpr ⟨o, hov, (sameSet_iff o o).mpr (fun _ => Iff.rfl)⟩
  unfold esuFromW at hpos
  omega

theorem esuW_count_root (hn : 1 ≤ n) (hgnd : ∀ w, (g w).Nodup) (v : Nat) (S : List Nat) (hS : S.Nodup)
    (hlen : S.length = n) :
    (RootValid g v S → (esuFromW n g v).countP (sameSet S) = 1) ∧
    (¬ RootValid g v S → (esuFromW n g v).countP (sameSet S) = 0) := by
  have hinv := root_inv (N := n) (g := g) v hn hgnd
  have spec := extend_spec hgnd _ _ _ hinv S hS hlen
  exact ⟨fun h => spec.1 (root_valid_iff.mpr h), fun h => spec.2 (fun hv => h (root_valid_iff.mp hv))⟩

theorem esuW_count (hn : 1 ≤ n) (hgnd : ∀ w, (g w).Nodup) (hr : rts.Nodup) (S : List Nat) (hS : S.Nodup)
    (hlen : S.length = n) :
    ((∃ v ∈ rts, RootValid g v S) → (esuSetsWith n g rts).countP (sameSet S) = 1) ∧
    ((¬ ∃ v ∈ rts, RootValid g v S) → (esuSetsWith n g rts).countP (sameSet S) = 0) := by
  rw [esuSetsWith_eq, List.countP_flatMap]
  constructor
  · rintro ⟨v, hv, hval⟩
    have := sum_map_single rts hr (List.countP (sameSet S) ∘ esuFromW n g) v hv (by
      intro x _ hne
      exact (esuW_count_root hn hgnd x S hS hlen).2 (fun hx => hne (rootValid_unique hx hval)))
    rw [this]
    exact (esuW_count_root hn hgnd v S hS hlen).1 hval
  · intro hno
    apply sum_map_zero'
    intro x hx
    exact (esuW_count_root hn hgnd x S hS hlen).2 (fun h => hno ⟨x, hx, h⟩)

theorem mem_esuW_sorted (hn : 1 ≤ n) (hgnd : ∀ w, (g w).Nodup) (hr : rts.Nodup) {S : List Nat} :
    (∃ o ∈ esuSetsWith n g rts, isort o = S) ↔
      SSorted S ∧ S.length = n ∧ ∃ v ∈ rts, RootValid g v S := by
  constructor
  · rintro ⟨o, ho, rfl⟩
    obtain ⟨hnd, hlen, v, hv, hval⟩ := esuW_out hn hgnd o ho
    exact ⟨isort_sorted hnd, by rw [isort_length, hlen], v, hv,
      rootValid_congr (fun x => (mem_isort (l := o)).symm) hval⟩
  · rintro ⟨hS, hlen, hex⟩
    have h1 := (esuW_count hn hgnd hr S hS.nodup hlen).1 hex
    have hpos : 0 < (esuSetsWith n g rts).countP (sameSet S) := by omega
    obtain ⟨o, ho, hsame⟩ := List.countP_pos_iff.mp hpos
    have hnd := (esuW_out (rts := rts) hn hgnd o ho).1
    exact ⟨o, ho, isort_eq_of_mem_iff hnd hS ((sameSet_iff S o).mp hsame)⟩

theorem esuW_sorted_nodup (hn : 1 ≤ n) (hgnd : ∀ w, (g w).Nodup) (hr : rts.Nodup) :
    ((esuSetsWith n g rts).map isort).Nodup := by
  rw [List.nodup_iff_pairwise_ne, List.pairwise_map]
  have hp := pairwise_of_countP_le_one sameSet (esuSetsWith n g rts) (by
    intro x hx
    obtain ⟨hnd, hlen, _⟩ := esuW_out hn hgnd x hx
    have := esuW_count hn hgnd hr x hnd hlen
    by_cases hv : ∃ v ∈ rts, RootValid g v x
    · rw [this.1 hv]; exact Nat.le_refl 1
    · rw [this.2 hv]; omega) (by
    intro x _; exact (sameSet_iff x x).mpr (fun _ => Iff.rfl))
  refine List.Pairwise.imp ?_ hp
  intro a b hab heq
  have : sameSet a b = true := by
    rw [sameSet_iff]
    intro x
    rw [← mem_isort (l := b), ← heq, mem_isort]
  rw [this] at hab; exact absurd hab (by simp)

end gen

/-- only the membership of the adjacency lists matters for validity -/
theorem reachIn_g_congr {g g' : Nat → List Nat} (h : ∀ w u, u ∈ g w → u ∈ g' w) {S sub : List Nat} {x : Nat}
    (hr : ReachIn g S sub x) : ReachIn g' S sub x := by
  induction hr with
  | base hx => exact ReachIn.base hx
  | step _ hxy hxS ih => exact ReachIn.step ih (h _ _ hxy) hxS

theorem rootValid_g_congr {g g' : Nat → List Nat} (h : ∀ w u, u ∈ g w → u ∈ g' w) {v : Nat} {S : List Nat}
    (hv : RootValid g v S) : RootValid g' v S :=
  ⟨hv.root_in, hv.above, fun x hx => reachIn_g_congr h (hv.reach x hx)⟩

/-- the ESU pass hands over the same node sets, each once, whatever the order of the adjacency lists and of the roots -/
theorem esuW_perm {n : Nat} (hn : 1 ≤ n) {g g' : Nat → List Nat} {rts rts' : List Nat}
    (hg : ∀ w, (g w).Nodup) (hg' : ∀ w, (g' w).Nodup) (hgg : ∀ w u, u ∈ g' w ↔ u ∈ g w)
    (hr : rts.Nodup) (hr' : rts'.Nodup) (hrr : ∀ v, v ∈ rts' ↔ v ∈ rts) :
    ((esuSetsWith n g' rts').map isort).Perm ((esuSetsWith n g rts).map isort) := by
  apply (List.perm_ext_iff_of_nodup (esuW_sorted_nodup hn hg' hr') (esuW_sorted_nodup hn hg hr)).mpr
  intro S
  rw [List.mem_map, List.mem_map, mem_esuW_sorted hn hg' hr', mem_esuW_sorted hn hg hr]
  constructor
  · rintro ⟨a, b, v, hv, hval⟩
    exact ⟨a, b, v, (hrr v).mp hv, rootValid_g_congr (fun w u => (hgg w u).mp) hval⟩
  · rintro ⟨a, b, v, hv, hval⟩
    exact ⟨a, b, v, (hrr v).mpr hv, rootValid_g_congr (fun w u => (hgg w u).mpr) hval⟩

/-! ## `counted` is the list of visited sets of the census proof -/

theorem map_fst_withPat (n : Nat) (T : HG) (L : List (List Nat)) : (withPat n T L).map (·.1) = L := by
  unfold withPat; rw [List.map_map]; simp [Function.comp_def]

theorem countedPats_eq (n : Nat) (E0 : HG) :
    countedPats n E0 = withPat n (upTo n E0) (fullSets n (upTo n E0)) ++
      (withPat n (smaller n (upTo n E0)) (sets2 n (upTo n E0)) ++
       withPat n (dyadic (upTo n E0)) (sets3 n (upTo n E0))) := rfl

theorem counted_eq (n : Nat) (E0 : HG) : counted n E0 = allSets n (upTo n E0) := by
  unfold counted allSets
  rw [countedPats_eq, List.map_append, List.map_append, map_fst_withPat, map_fst_withPat, map_fst_withPat]

section main
variable {n : Nat} (hn : n = 3 ∨ n = 4) {E : HG} (hE : WF E)

include hn hE in
theorem counted_nodup : (counted n E).Nodup := by
  rw [counted_eq]; exact allSets_nodup hn (hE.filter _)

include hn hE in
theorem mem_counted {S : List Nat} : S ∈ counted n E ↔ SSorted S ∧ S.length = n ∧ Conn E S := by
  have hle : ∀ e ∈ upTo n E, e.length ≤ n := by
    intro e he; simpa using (List.mem_filter.mp he).2
  have hEn : WF (upTo n E) := hE.filter _
  rw [counted_eq, mem_allSets hn hEn hle]
  constructor
  · rintro ⟨a, b, c⟩; exact ⟨a, b, (conn_upTo hE a b).mp c⟩
  · rintro ⟨a, b, c⟩; exact ⟨a, b, (conn_upTo hE a b).mpr c⟩

include hn hE in
/-- every pass hands the pattern of the full hyperedge table to the class table -/
theorem countedPats_pattern {sp : List Nat × Nat} (h : sp ∈ countedPats n E) :
    sp.1 ∈ counted n E ∧ sp.2 = pattern n E sp.1 := by
  have hEn : WF (upTo n E) := hE.filter _
  refine ⟨List.mem_map.mpr ⟨sp, h, rfl⟩, ?_⟩
  rw [countedPats_eq] at h
  unfold withPat at h
  rcases List.mem_append.mp h with h1 | h23
  · obtain ⟨S, _, rfl⟩ := List.mem_map.mp h1
    exact pattern_upTo E S
  · rcases List.mem_append.mp h23 with h2 | h3
    · obtain ⟨S, hS, rfl⟩ := List.mem_map.mp h2
      show pattern n (smaller n (upTo n E)) S = pattern n E S
      rw [(pat2 hEn hS).2.1, pattern_upTo]
    · obtain ⟨S, hS, rfl⟩ := List.mem_map.mp h3
      show pattern n (dyadic (upTo n E)) S = pattern n E S
      rw [(pat3 hn hEn hS).1, pattern_upTo]

end main

/-- the labelled pattern is the induced sub-hypergraph with nodes replaced by ranks -/
theorem pattern_induced {n : Nat} (E : HG) {S : List Nat} (hlen : S.length = n) :
    pattern n E S = inducedMask n E S := by
  unfold pattern patBits inducedMask
  rw [hyperedgesOf_eq hlen, List.map_map]
  rfl

theorem conn_congr {E E' : HG} (h : ∀ e, e ∈ E ↔ e ∈ E') (S : List Nat) : Conn E S ↔ Conn E' S := by
  constructor
  · intro hc y hy x hx
    refine hreach_mono ?_ (hc y hy x hx)
    rintro y x ⟨e, he, hs, hy, hx⟩; exact ⟨e, (h e).mp he, hs, hy, hx⟩
  · intro hc y hy x hx
    refine hreach_mono ?_ (hc y hy x hx)
    rintro y x ⟨e, he, hs, hy, hx⟩; exact ⟨e, (h e).mpr he, hs, hy, hx⟩

/-- insertion order: the classified sets are the same up to order -/
theorem counted_perm {n : Nat} (hn : n = 3 ∨ n = 4) {E E' : HG} (hE : WF E) (hperm : E.Perm E') :
    (counted n E').Perm (counted n E) := by
  have hE' : WF E' := ⟨hperm.nodup_iff.mp hE.nodup, fun e he => hE.sorted e (hperm.mem_iff.mpr he)⟩
  apply (List.perm_ext_iff_of_nodup (counted_nodup hn hE') (counted_nodup hn hE)).mpr
  intro S
  rw [mem_counted hn hE', mem_counted hn hE, conn_congr (fun e => hperm.mem_iff) S]

/-! ## independence of the incidence-list, adjacency-list and root orders -/

theorem mem_nfCandsWith {n : Nat} {E : HG} {inc : Nat → HG} {S : List Nat} :
    S ∈ nfCandsWith n E inc ↔ ∃ e ∈ E, e.length + 1 = n ∧ ∃ x ∈ e, ∃ e' ∈ inc x, S = unionSet e e' := by
  simp only [nfCandsWith, List.mem_flatMap, List.mem_filter, List.mem_map, beq_iff_eq]
  constructor
  · rintro ⟨e, ⟨he, hl⟩, x, hx, e', he', rfl⟩; exact ⟨e, he, hl, x, hx, e', he', rfl⟩
  · rintro ⟨e, he, hl, x, hx, e', he', rfl⟩; exact ⟨e, ⟨he, hl⟩, x, hx, e', he', rfl⟩

theorem withPat_perm (n : Nat) (T : HG) {L L' : List (List Nat)} (h : L'.Perm L) :
    (withPat n T L').Perm (withPat n T L) := h.map _

theorem countedWith_perm {n : Nat} (hn : 1 ≤ n) (E0 : HG) {inc : Nat → HG} {g : Nat → List Nat} {rts : List Nat}
    (hinc : ∀ x e, e ∈ inc x ↔ e ∈ incident n (upTo n E0) x)
    (hg : ∀ w, (g w).Nodup ∧ ∀ u, u ∈ g w ↔ u ∈ nbrs (upTo n E0) w)
    (hr : rts.Nodup ∧ ∀ v, v ∈ rts ↔ v ∈ roots (upTo n E0)) :
    (countedWith n E0 inc g rts).Perm (countedPats n E0) := by
  -- pass 2
  have h2 : (if n == 4 then visitNew n (fullSets n (upTo n E0)) (nfCandsWith n (upTo n E0) inc) else []).Perm
      (if n == 4 then visitNew n (fullSets n (upTo n E0))
        (nfCandsWith n (upTo n E0) (incident n (upTo n E0))) else []) := by
    split
    · apply (List.perm_ext_iff_of_nodup nodup_visitNew nodup_visitNew).mpr
      intro S
      rw [mem_visitNew, mem_visitNew, mem_nfCandsWith, mem_nfCandsWith]
      constructor
      · rintro ⟨⟨e, he, hl, x, hx, e', he', rfl⟩, r⟩
        exact ⟨⟨e, he, hl, x, hx, e', (hinc x e').mp he', rfl⟩, r⟩
      · rintro ⟨⟨e, he, hl, x, hx, e', he', rfl⟩, r⟩
        exact ⟨⟨e, he, hl, x, hx, e', (hinc x e').mpr he', rfl⟩, r⟩
    · exact List.Perm.refl _
  -- pass 3
  have h3 := esuW_perm hn (g := nbrs (upTo n E0)) (g' := g) (rts := roots (upTo n E0)) (rts' := rts)
    (nbrs_nodup _) (fun w => (hg w).1) (fun w u => (hg w).2 u) (roots_nodup _) hr.1 hr.2
  unfold countedPats countedWith
  simp only []
  refine List.Perm.append (List.Perm.refl _) (List.Perm.append (withPat_perm _ _ h2) (withPat_perm _ _ ?_))
  have hf : ∀ S, (!(((if n == 4 then visitNew n (fullSets n (upTo n E0)) (nfCandsWith n (upTo n E0) inc) else [])
        ++ fullSets n (upTo n E0)).contains S))
      = (!(((if n == 4 then visitNew n (fullSets n (upTo n E0))
        (nfCandsWith n (upTo n E0) (incident n (upTo n E0))) else []) ++ fullSets n (upTo n E0)).contains S)) := by
    intro S
    congr 1
    rw [Bool.eq_iff_iff, List.contains_iff_mem, List.contains_iff_mem, List.mem_append, List.mem_append,
      h2.mem_iff]
  rw [List.filter_congr (fun S _ => hf S)]
  exact h3.filter _

/-! ## the census counts `countedPats` class by class -/

theorem isRelabelOf_iff {n c p : Nat} : isRelabelOf n c p = true ↔ ∃ t ∈ tbls n, applyPerm t c = p := by
  simp [isRelabelOf, List.any_eq_true]

theorem census_counted {n : Nat} (hn : n = 3 ∨ n = 4) {E : HG} (hE : WF E) :
    census n E = (classes n).map fun c =>
      (c, ((countedPats n E).filter fun sp => isRelabelOf n c sp.2).length) := by
  have hEn : WF (upTo n E) := hE.filter _
  have h1 : census n E = censusWith (tbls n) (classes n) (labeling n) n (upTo n E) := by
    unfold census censusWith; rw [upTo_idem]
  rw [h1, census_eq_classCount hn hEn (upTo_idem n E).symm]
  apply List.map_congr_left
  intro c hc
  congr 1
  unfold classCount
  rw [← counted_eq, ← List.countP_eq_length_filter]
  unfold counted
  rw [List.countP_map]
  apply List.countP_congr
  intro sp hsp
  obtain ⟨hin, hp⟩ := countedPats_pattern hn hE hsp
  have hlen : sp.1.length = n := ((mem_counted hn hE).mp hin).2.1
  simp only [Function.comp]
  rw [pattern_upTo, ← hp]
  have hlt : sp.2 < numMasks n := by rw [hp]; exact pattern_lt E hlen
  have hiff := isRelabel_iff hn hc hlt
  by_cases h : cidFor n sp.2 = c
  · have h' := isRelabelOf_iff.mpr (hiff.mpr h)
    rw [h']; simpa using h
  · have h' : isRelabelOf n c sp.2 = false :=
      Bool.eq_false_iff.mpr (fun h' => h (hiff.mp (isRelabelOf_iff.mp h')))
    rw [h']; simpa using h

end C11
