import Hgxv.Model.C04Ext
import Hgxv.Proofs.C04Query
import Hgxv.Proofs.C04Dump
/-! C04, extension round - the constructor is a history of public calls; the hashing view is the sorted map.
Core Lean only. -/
namespace C04
open AL

/-! ## the constructor -/

deriving instance DecidableEq for Op

/-- the quantifier's "node sets" for the constructor's batch -/
def CtorArgs.WF (a : CtorArgs) : Prop :=
  match ctorBatch a.edges with
  | some (some (raws, _)) => ∀ r ∈ raws, r.Nodup
  | _ => True

instance (a : CtorArgs) : Decidable a.WF := by
  unfold CtorArgs.WF
  split <;> infer_instance

theorem nodeOps_wf (nm : List (Node × Meta)) : ∀ op ∈ nodeOps nm, op.WF := by
  intro op hop
  obtain ⟨p, _, rfl⟩ := List.mem_map.mp hop
  exact True.intro

theorem ctorNodes_run (s : Store) (nm : List (Node × Meta)) : ctorNodes s nm = run s (nodeOps nm) := by
  induction nm generalizing s with
  | nil => rfl
  | cons p t ih => exact ih (addNode s p.1 (some p.2))

theorem Spec.ctorNodes_run (sp : Spec) (nm : List (Node × Meta)) : Spec.ctorNodes sp nm = Spec.run sp (nodeOps nm) := by
  induction nm generalizing sp with
  | nil => rfl
  | cons p t ih => exact ih (Spec.addNode sp p.1 (some p.2))

theorem ctorNodes_inv (w : Bool) (hm : HMeta) (nm : List (Node × Meta)) : Inv (ctorNodes (init w hm) nm) := by
  rw [ctorNodes_run]
  exact run_inv _ _ (inv_init w hm) (nodeOps_wf nm)

theorem abs_ctorNodes (w : Bool) (hm : HMeta) (nm : List (Node × Meta)) :
    abs (ctorNodes (init w hm) nm) = Spec.ctorNodes (Spec.init w hm) nm := by
  rw [ctorNodes_run, Spec.ctorNodes_run, abs_run _ _ (inv_init w hm) (nodeOps_wf nm), abs_init]

theorem Spec.run_append (sp : Spec) (a b : List Op) : Spec.run sp (a ++ b) = Spec.run (Spec.run sp a) b := by
  unfold Spec.run
  rw [List.foldl_append]

/-- accepted constructor = the run of `ctorOps` from the empty object -/
theorem construct_some (a : CtorArgs) (s : Store) (h : construct a = some s) :
    ∃ pre, ctorOps a = some pre ∧ s = run (init a.weighted a.hm) pre := by
  unfold construct at h
  unfold ctorOps
  cases hb : ctorBatch a.edges with
  | none => rw [hb] at h; simp at h
  | some b =>
    cases b with
    | none =>
      rw [hb] at h
      simp only [Option.some.injEq] at h
      exact ⟨_, rfl, by rw [← h, ctorNodes_run]⟩
    | some p =>
      obtain ⟨raws, ls⟩ := p
      rw [hb] at h
      simp only at h
      refine ⟨_, rfl, ?_⟩
      rw [Hgxv_run_snoc, ← ctorNodes_run]
      generalize hr : addEdges (ctorNodes (init a.weighted a.hm) a.nodeMeta) raws ls a.weights a.edgeMeta = r at h
      obtain ⟨s1, o⟩ := r
      cases o with
      | rej => simp at h
      | ok =>
        simp only [Option.some.injEq] at h
        rw [← h]
        show s1 = (addEdges (ctorNodes (init a.weighted a.hm) a.nodeMeta) raws ls a.weights a.edgeMeta).1
        rw [hr]
where
  Hgxv_run_snoc {s0 : Store} {pre : List Op} {op : Op} : run s0 (pre ++ [op]) = (step (run s0 pre) op).1 := by
    rw [run_append]; rfl

theorem Spec.construct_some (a : CtorArgs) (sp : Spec) (h : Spec.construct a = some sp) :
    ∃ pre, ctorOps a = some pre ∧ sp = Spec.run (Spec.init a.weighted a.hm) pre := by
  unfold Spec.construct at h
  unfold ctorOps
  cases hb : ctorBatch a.edges with
  | none => rw [hb] at h; simp at h
  | some b =>
    cases b with
    | none =>
      rw [hb] at h
      simp only [Option.some.injEq] at h
      exact ⟨_, rfl, by rw [← h, Spec.ctorNodes_run]⟩
    | some p =>
      obtain ⟨raws, ls⟩ := p
      rw [hb] at h
      simp only at h
      refine ⟨_, rfl, ?_⟩
      rw [Spec.run_append, ← Spec.ctorNodes_run]
      generalize hr : Spec.addEdges (Spec.ctorNodes (Spec.init a.weighted a.hm) a.nodeMeta) raws ls a.weights a.edgeMeta = r at h
      obtain ⟨s1, o⟩ := r
      cases o with
      | rej => simp at h
      | ok =>
        simp only [Option.some.injEq] at h
        rw [← h]
        show s1 = (Spec.addEdges (Spec.ctorNodes (Spec.init a.weighted a.hm) a.nodeMeta) raws ls a.weights a.edgeMeta).1
        rw [hr]

theorem ctorOps_wf (a : CtorArgs) (ha : a.WF) (pre : List Op) (h : ctorOps a = some pre) : ∀ op ∈ pre, op.WF := by
  unfold ctorOps at h
  unfold CtorArgs.WF at ha
  cases hb : ctorBatch a.edges with
  | none => rw [hb] at h; simp at h
  | some b =>
    cases b with
    | none =>
      rw [hb] at h
      simp only [Option.some.injEq] at h
      rw [← h]; exact nodeOps_wf _
    | some p =>
      obtain ⟨raws, ls⟩ := p
      rw [hb] at h ha
      simp only [Option.some.injEq] at h ha
      rw [← h]
      intro op hop
      rcases List.mem_append.mp hop with h1 | h1
      · exact nodeOps_wf _ op h1
      · simp only [List.mem_singleton] at h1
        rw [h1]; exact ha

/-- the constructor refines the constructor of the map: accepted together, same abstract state -/
theorem construct_abs (a : CtorArgs) (ha : a.WF) : (construct a).map abs = Spec.construct a := by
  unfold construct Spec.construct
  unfold CtorArgs.WF at ha
  cases hb : ctorBatch a.edges with
  | none => rfl
  | some b =>
    cases b with
    | none => simp only [Option.map_some, abs_ctorNodes]
    | some p =>
      obtain ⟨raws, ls⟩ := p
      rw [hb] at ha
      simp only at ha ⊢
      obtain ⟨e1, e2⟩ := abs_addEdges _ raws ls a.weights a.edgeMeta (ctorNodes_inv a.weighted a.hm a.nodeMeta) ha
      rw [abs_ctorNodes] at e1 e2
      generalize addEdges (ctorNodes (init a.weighted a.hm) a.nodeMeta) raws ls a.weights a.edgeMeta = r at e1 e2 ⊢
      generalize Spec.addEdges (Spec.ctorNodes (Spec.init a.weighted a.hm) a.nodeMeta) raws ls a.weights a.edgeMeta = r' at e1 e2 ⊢
      obtain ⟨s1, o1⟩ := r
      obtain ⟨sp1, o1'⟩ := r'
      simp only at e1 e2
      subst e2
      cases o1 with
      | ok => simp only [Option.map_some, e1]
      | rej => rfl

/-! ## strict total orders and `sorted` -/

structure StrictTotal {κ : Type} (lt : κ → κ → Bool) : Prop where
  irrefl : ∀ a, lt a a = false
  trans : ∀ a b c, lt a b = true → lt b c = true → lt a c = true
  tri : ∀ a b, lt a b = false → lt b a = false → a = b

theorem ltList_irrefl (a : List Nat) : ltList a a = false := by
  induction a with
  | nil => rfl
  | cons x t ih => simp [ltList, ih]

theorem ltList_trans (a b c : List Nat) (h1 : ltList a b = true) (h2 : ltList b c = true) : ltList a c = true := by
  induction a generalizing b c with
  | nil =>
    cases b with
    | nil => simp [ltList] at h1
    | cons y bs =>
      cases c with
      | nil => simp [ltList] at h2
      | cons z cs => rfl
  | cons x as ih =>
    cases b with
    | nil => simp [ltList] at h1
    | cons y bs =>
      cases c with
      | nil => simp [ltList] at h2
      | cons z cs =>
        simp only [ltList, Bool.or_eq_true, Bool.and_eq_true, decide_eq_true_eq] at h1 h2 ⊢
        rcases h1 with h1 | ⟨e1, h1⟩
        · rcases h2 with h2 | ⟨e2, h2⟩
          · left; omega
          · left; omega
        · rcases h2 with h2 | ⟨e2, h2⟩
          · left; omega
          · right; exact ⟨by omega, ih bs cs h1 h2⟩

theorem ltList_tri (a b : List Nat) (h1 : ltList a b = false) (h2 : ltList b a = false) : a = b := by
  induction a generalizing b with
  | nil =>
    cases b with
    | nil => rfl
    | cons y bs => simp [ltList] at h1
  | cons x as ih =>
    cases b with
    | nil => simp [ltList] at h2
    | cons y bs =>
      simp only [ltList, Bool.or_eq_false_iff, Bool.and_eq_false_iff, decide_eq_false_iff_not] at h1 h2
      have hxy : x = y := by omega
      subst hxy
      have e1 : ltList as bs = false := by
        rcases h1.2 with h | h
        · exact absurd rfl h
        · exact h
      have e2 : ltList bs as = false := by
        rcases h2.2 with h | h
        · exact absurd rfl h
        · exact h
      rw [ih bs e1 e2]

theorem st_ltNat : StrictTotal ltNat :=
  ⟨fun a => by simp [ltNat], fun a b c h1 h2 => by simp only [ltNat, decide_eq_true_eq] at *; omega,
   fun a b h1 h2 => by simp only [ltNat, decide_eq_false_iff_not] at *; omega⟩

theorem st_ltKey : StrictTotal ltKey := by
  refine ⟨fun a => ?_, fun a b c h1 h2 => ?_, fun a b h1 h2 => ?_⟩
  · simp [ltKey, ltList_irrefl]
  · simp only [ltKey, Bool.or_eq_true, Bool.and_eq_true, decide_eq_true_eq] at h1 h2 ⊢
    rcases h1 with h1 | ⟨e1, h1⟩
    · rcases h2 with h2 | ⟨e2, h2⟩
      · left; exact ltList_trans _ _ _ h1 h2
      · left; rw [← e2]; exact h1
    · rcases h2 with h2 | ⟨e2, h2⟩
      · left; rw [e1]; exact h2
      · right; exact ⟨e1.trans e2, Nat.lt_trans h1 h2⟩
  · simp only [ltKey, Bool.or_eq_false_iff, Bool.and_eq_false_iff, decide_eq_false_iff_not] at h1 h2
    have e : a.1 = b.1 := ltList_tri _ _ h1.1 h2.1
    have e2 : a.2 = b.2 := by
      rcases h1.2 with h | h
      · exact absurd e h
      · rcases h2.2 with h' | h'
        · exact absurd e.symm h'
        · exact Nat.le_antisymm (Nat.le_of_not_lt h') (Nat.le_of_not_lt h)
    exact Prod.ext e e2

section SortSec
variable {α κ : Type} (key : α → κ) (lt : κ → κ → Bool)

theorem insBy_perm (x : α) (l : List α) : (insBy key lt x l).Perm (x :: l) := by
  induction l with
  | nil => exact List.Perm.refl _
  | cons y ys ih =>
    unfold insBy
    split
    · exact List.Perm.refl _
    · exact (List.Perm.cons y ih).trans (List.Perm.swap x y ys)

theorem sortBy_perm (l : List α) : (sortBy key lt l).Perm l := by
  induction l with
  | nil => exact List.Perm.refl _
  | cons x t ih => exact (insBy_perm key lt x _).trans (List.Perm.cons x ih)

theorem insBy_sorted (st : StrictTotal lt) (x : α) (l : List α)
    (h : l.Pairwise (fun a b => lt (key a) (key b) = true)) (hx : ∀ y ∈ l, key y ≠ key x) :
    (insBy key lt x l).Pairwise (fun a b => lt (key a) (key b) = true) := by
  induction l with
  | nil => simp [insBy]
  | cons y ys ih =>
    have hp := List.pairwise_cons.mp h
    unfold insBy
    split
    · rename_i hlt
      refine List.pairwise_cons.mpr ⟨?_, h⟩
      intro z hz
      rcases List.mem_cons.mp hz with rfl | hz
      · exact hlt
      · exact st.trans _ _ _ hlt (hp.1 z hz)
    · rename_i hlt
      refine List.pairwise_cons.mpr ⟨?_, ih hp.2 (fun z hz => hx z (List.mem_cons_of_mem _ hz))⟩
      intro z hz
      rcases List.mem_cons.mp ((insBy_perm key lt x ys).mem_iff.mp hz) with rfl | hz
      · cases hyx : lt (key y) (key z) with
        | true => rfl
        | false =>
          exfalso
          have hlt' : lt (key z) (key y) = false := by simpa using hlt
          exact hx y List.mem_cons_self (st.tri _ _ hyx hlt')
      · exact hp.1 z hz

theorem sortBy_sorted (st : StrictTotal lt) (l : List α) (hn : (l.map key).Nodup) :
    (sortBy key lt l).Pairwise (fun a b => lt (key a) (key b) = true) := by
  induction l with
  | nil => simp [sortBy]
  | cons x t ih =>
    have hn' := List.nodup_cons.mp hn
    refine insBy_sorted key lt st x _ (ih hn'.2) ?_
    intro y hy he
    apply hn'.1
    rw [← he]
    exact List.mem_map.mpr ⟨y, (sortBy_perm key lt t).mem_iff.mp hy, rfl⟩

/-- `sorted` of items with distinct keys depends only on the items as a set: not on the order they arrive in -/
theorem sortBy_perm_eq (st : StrictTotal lt) (l l' : List α) (hn : (l.map key).Nodup) (hp : l.Perm l') :
    sortBy key lt l = sortBy key lt l' := by
  have hn' : (l'.map key).Nodup := (hp.map key).nodup_iff.mp hn
  refine List.Perm.eq_of_pairwise (le := fun a b => lt (key a) (key b) = true) ?_
    (sortBy_sorted key lt st l hn) (sortBy_sorted key lt st l' hn')
    ((sortBy_perm key lt l).trans (hp.trans (sortBy_perm key lt l').symm))
  intro a b _ _ hab hba
  have := st.trans _ _ _ hab hba
  rw [st.irrefl] at this
  exact absurd this (by simp)

theorem insBy_map (x : α) (l : List α) : (insBy key lt x l).map key = insBy id lt (key x) (l.map key) := by
  induction l with
  | nil => rfl
  | cons y ys ih =>
    simp only [insBy, List.map_cons, id]
    split
    · rfl
    · simp only [List.map_cons, ih]

theorem sortBy_map (l : List α) : (sortBy key lt l).map key = sortBy id lt (l.map key) := by
  induction l with
  | nil => rfl
  | cons x t ih =>
    show (insBy key lt x (sortBy key lt t)).map key = insBy id lt (key x) (sortBy id lt (t.map key))
    rw [insBy_map, ih]

end SortSec

/-! ## the hashing view -/

theorem hashEdges_map (s : Store) (L : List (Key × (Int × Meta)))
    (h : ∀ r ∈ L, canon r.1.1 = r.1.1 ∧ ∃ id, get? s.edgeList r.1 = some id ∧ r.2 = entryOf s id) :
    hashEdges s (L.map (·.1)) = some L := by
  induction L with
  | nil => rfl
  | cons r t ih =>
    obtain ⟨hc, id, hg, hv⟩ := h r List.mem_cons_self
    obtain ⟨⟨e, l⟩, v⟩ := r
    simp only at hc hg hv
    simp only [List.map_cons, hashEdges, hc, hg, ih (fun r hr => h r (List.mem_cons_of_mem _ hr)), Option.map_some, hv, entryOf]

theorem hashNodes_map (s : Store) (L : List (Node × Meta)) (h : ∀ p ∈ L, get? s.nmeta p.1 = some p.2) :
    hashNodes s (L.map (·.1)) = some L := by
  induction L with
  | nil => rfl
  | cons p t ih =>
    have hp := h p List.mem_cons_self
    simp only [List.map_cons, hashNodes, hp, ih (fun r hr => h r (List.mem_cons_of_mem _ hr)), Option.map_some]

/-- in a reachable state `expose_attributes_for_hashing()` succeeds and is the hashing view of the map -/
theorem hashView_abs (s : Store) (h : Inv s) : hashView s = some (Spec.hashView (abs s)) := by
  have he : hashEdges s (sortBy id ltKey (records s)) =
      some (sortBy (fun (r : Key × (Int × Meta)) => r.1) ltKey (abs s).edges) := by
    have : sortBy id ltKey (records s) = (sortBy (fun (r : Key × (Int × Meta)) => r.1) ltKey (abs s).edges).map (·.1) := by
      rw [sortBy_map, records_abs]; rfl
    rw [this]
    apply hashEdges_map
    intro r hr
    have hr' : r ∈ (abs s).edges := (sortBy_perm _ _ _).mem_iff.mp hr
    rw [abs_edges] at hr'
    obtain ⟨p, hp, rfl⟩ := List.mem_map.mp hr'
    have hg := get?_of_mem _ _ _ h.id.el_nodup hp
    exact ⟨(h.id.key_sorted _ _ (h.id.rev_of_edge _ _ hg)).canon, p.2, hg, rfl⟩
  have hn : hashNodes s (sortBy id ltNat (nodes s)) = some (sortBy (fun (p : Node × Meta) => p.1) ltNat s.nmeta) := by
    have : sortBy id ltNat (nodes s) = (sortBy (fun (p : Node × Meta) => p.1) ltNat s.nmeta).map (·.1) := by
      rw [sortBy_map]; rfl
    rw [this]
    apply hashNodes_map
    intro p hp
    exact get?_of_mem _ _ _ h.nm.nm_nodup ((sortBy_perm _ _ _).mem_iff.mp hp)
  unfold hashView
  rw [he, hn]
  rfl

/-- the hashing view of a map is the same for two maps iff they have the same flag, the same hypergraph metadata
and the same entries / nodes as SETS (any arrangement) -/
theorem Spec.hashView_eq_iff (sp sp' : Spec) (h1 : (keys sp.edges).Nodup) (h2 : (keys sp.nodes).Nodup) :
    Spec.hashView sp = Spec.hashView sp' ↔
      sp.weighted = sp'.weighted ∧ sp.hmeta = sp'.hmeta ∧ sp.edges.Perm sp'.edges ∧ sp.nodes.Perm sp'.nodes := by
  constructor
  · intro h
    have a1 : sp.weighted = sp'.weighted := congrArg HashView.weighted h
    have a2 : sp.hmeta = sp'.hmeta := congrArg HashView.hmeta h
    have a3 : sortBy (fun (r : Key × (Int × Meta)) => r.1) ltKey sp.edges =
        sortBy (fun (r : Key × (Int × Meta)) => r.1) ltKey sp'.edges := congrArg HashView.edges h
    have a4 : sortBy (fun (p : Node × Meta) => p.1) ltNat sp.nodes =
        sortBy (fun (p : Node × Meta) => p.1) ltNat sp'.nodes := congrArg HashView.nodes h
    have p1 := sortBy_perm (fun (r : Key × (Int × Meta)) => r.1) ltKey sp.edges
    have p2 := sortBy_perm (fun (r : Key × (Int × Meta)) => r.1) ltKey sp'.edges
    have q1 := sortBy_perm (fun (p : Node × Meta) => p.1) ltNat sp.nodes
    have q2 := sortBy_perm (fun (p : Node × Meta) => p.1) ltNat sp'.nodes
    rw [a3] at p1
    rw [a4] at q1
    exact ⟨a1, a2, p1.symm.trans p2, q1.symm.trans q2⟩
  · rintro ⟨a1, a2, a3, a4⟩
    unfold Spec.hashView
    rw [a1, a2, sortBy_perm_eq _ _ st_ltKey sp.edges sp'.edges h1 a3, sortBy_perm_eq _ _ st_ltNat sp.nodes sp'.nodes h2 a4]

/-! ## the raw tables -/

/-- `get_edge_list()` / `get_adj_dict()` in a reachable state: the keys are the records, ids increase in insertion order and
lie below `_next_edge_id`; a node's list is exactly the ids of the records containing it, in that order; the dict has the
nodes as keys -/
theorem raw_tables (s : Store) (h : Inv s) :
    keys (edgeTable s) = records s ∧ ((edgeTable s).map (·.2)).Pairwise (· < ·) ∧
    (∀ p ∈ edgeTable s, p.2 < s.nextId) ∧
    (∀ n ids, get? (adjTable s) n = some ids → ids = ((edgeTable s).filter (fun p => decide (n ∈ p.1.1))).map (·.2)) ∧
    (∀ n, (get? (adjTable s) n).isSome ↔ n ∈ nodes s) := by
  refine ⟨rfl, h.id.el_sorted, ?_, fun n ids hg => adj_eq_filter s n ids h hg, fun n => ?_⟩
  · intro p hp
    have hg := get?_of_mem _ _ _ h.id.el_nodup hp
    exact h.id.id_lt _ _ (h.id.rev_of_edge _ _ hg)
  · rw [show adjTable s = s.adj from rfl, h.nm.adj_nm n, nodes, mem_keys_iff]

end C04
