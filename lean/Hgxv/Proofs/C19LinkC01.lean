import Hgxv.Proofs.C01Ref
import Hgxv.Proofs.C19LinkBase
/-! # C19 ↔ C01: `Hypergraph`

`ofSpec01 : C01.Spec → Content Key Int` (key `(sorted nodes, [])`, metadata values wrapped in `some`).  Under the content
invariant `Dyn opsH C01.one CanonH` (which `C01.Inv` gives for every reachable store, `dyn01_of_inv`):
`C01.Spec.removeEdge` is `C19.removeEdge` / `removeEdge?`, `C01.Spec.removeNode` is `C19.removeNode opsH` /
`removeNode?`, with the same verdict; through `C01.sim_apply` the same holds for the concrete store.  Core Lean only. -/
namespace C19
open AL
set_option linter.unusedSectionVars false
set_option linter.unusedSimpArgs false
set_option linter.unusedVariables false

def keyH (e : List Nat) : Key := (e, [])
theorem keyH_inj (a b : List Nat) (h : keyH a = keyH b) : a = b := by
  simp only [keyH, Prod.mk.injEq, and_true] at h; exact h

/-- a record value `(weight, metadata)` of a container model as a C19 record value -/
def recOf (v : Int × List (Nat × Nat)) : Int × Md := (v.1, mdOf v.2)

/-- the content of an abstract `Hypergraph` -/
def ofSpec01 (a : C01.Spec) : Content Key Int :=
  { weighted := a.weighted, nodes := mapKV (fun n => n) mdOf a.nodes, edges := mapKV keyH recOf a.edges }

abbrev Dyn01 (c : Content Key Int) : Prop := Dyn opsH C01.one CanonH c

theorem nodes01_get (a : C01.Spec) (n : Node) : get? (ofSpec01 a).nodes n = (get? a.nodes n).map mdOf :=
  get?_mapKV (fun n => n) mdOf (fun _ _ h => h) a.nodes n

theorem edges01_get (a : C01.Spec) (e : List Nat) : get? (ofSpec01 a).edges (keyH e) = (get? a.edges e).map recOf :=
  get?_mapKV keyH recOf keyH_inj a.edges e

theorem touch01 (a : C01.Spec) (n : Node) :
    ofSpec01 (C01.Spec.touchNode a n) = { ofSpec01 a with nodes := touchNode (ofSpec01 a).nodes n } := by
  unfold C01.Spec.touchNode touchNode
  rw [nodes01_get]
  cases hg : get? a.nodes n with
  | some v => simp
  | none =>
    simp only [Option.map_none, Option.isSome_none, Bool.false_eq_true, if_false]
    simp only [ofSpec01, al_set_of_none _ _ _ hg, mapKV_append]
    rfl

theorem touchFold01 (e : List Nat) (a : C01.Spec) :
    ofSpec01 (e.foldl C01.Spec.touchNode a) = { ofSpec01 a with nodes := touchNodes (ofSpec01 a).nodes e } := by
  induction e generalizing a with
  | nil => rfl
  | cons n e ih =>
    simp only [List.foldl_cons, touchNodes] at ih ⊢
    rw [ih, touch01]

/-- `add_edge(edge, weight, metadata)` with both optional arguments given (as `remove_node` calls it) -/
theorem addEdge01 (a : C01.Spec) (raw : List Nat) (w : Int) (md : List (Nat × Nat))
    (hw : a.weighted = false → w = C01.one) :
    (C01.Spec.addEdge a raw (some w) (some md)).2 = .ok ∧
    ofSpec01 (C01.Spec.addEdge a raw (some w) (some md)).1 =
      addEdge opsH (ofSpec01 a) (keyH (C01.canon raw)) w (mdOf md) := by
  have hc : (!a.weighted && (some w).isSome && (some w != some C01.one)) = false := by
    cases hwt : a.weighted with
    | true => rfl
    | false => simp [hw hwt]
  unfold C01.Spec.addEdge addEdge
  rw [hc, edges01_get]
  simp only [Bool.false_eq_true, if_false]
  cases hg : get? a.edges (C01.canon raw) with
  | none =>
    refine ⟨rfl, ?_⟩
    simp only [Option.map_none, Option.getD_some]
    rw [touchFold01]
    have hwv : (if a.weighted = true then w else C01.one) = w := by
      cases hwt : a.weighted with
      | true => simp
      | false => simp [hw hwt]
    simp only [addEdgeNew, ofSpec01, al_set_of_none _ _ _ hg, mapKV_append, hwv]
    rfl
  | some v =>
    obtain ⟨w0, md0⟩ := v
    refine ⟨rfl, ?_⟩
    simp only [Option.map_some, Option.getD_some, addEdgeOld, ofSpec01]
    congr 1
    exact (set_mapKV keyH recOf keyH_inj a.edges (C01.canon raw) _).symm

theorem del01 {α β : Type} [DecidableEq α] (l : List (α × β)) (k : α) (hnd : (keys l).Nodup) :
    C01.del l k = erase l k := al_filter_ne_eq_erase l k hnd

/-- `remove_edge(edge)` -/
theorem removeEdge01 (a : C01.Spec) (raw : List Nat) (hnd : (keys a.edges).Nodup) :
    ((get? (ofSpec01 a).edges (keyH (C01.canon raw))).isSome = true →
      (C01.Spec.removeEdge a raw).2 = .ok ∧
      ofSpec01 (C01.Spec.removeEdge a raw).1 = removeEdge (ofSpec01 a) (keyH (C01.canon raw))) ∧
    ((get? (ofSpec01 a).edges (keyH (C01.canon raw))).isSome = false → C01.Spec.removeEdge a raw = (a, .rej)) := by
  rw [edges01_get, Option.isSome_map]
  unfold C01.Spec.removeEdge
  constructor
  · intro hp
    rw [if_pos hp]
    refine ⟨rfl, ?_⟩
    simp only [removeEdge, ofSpec01, del01 _ _ hnd]
    congr 1
    exact (erase_mapKV keyH recOf keyH_inj a.edges (C01.canon raw)).symm
  · intro hp
    rw [if_neg (by simp [hp])]

/-- a verdict-threaded loop of the spec is the fold on the content when every call is accepted and is the content
step (under the invariant `I` and the per-key condition `P`, both maintained) -/
theorem seqOps01 {K : Type} (f : C01.Spec → K → C01.Spec × C01.Out) (g : Content Key Int → K → Content Key Int)
    (I : Content Key Int → Prop) (P : Content Key Int → K → Prop)
    (hstep : ∀ a k, I (ofSpec01 a) → P (ofSpec01 a) k → (f a k).2 = .ok ∧ ofSpec01 (f a k).1 = g (ofSpec01 a) k)
    (hI : ∀ c k, I c → P c k → I (g c k))
    (hP : ∀ c k k', I c → P c k → k' ≠ k → P c k' → P (g c k) k') :
    ∀ (ks : List K) (a : C01.Spec), ks.Nodup → I (ofSpec01 a) → (∀ k ∈ ks, P (ofSpec01 a) k) →
      ∃ a', C01.seqOps f a ks = (a', .ok) ∧ ofSpec01 a' = ks.foldl g (ofSpec01 a) ∧ I (ofSpec01 a') := by
  intro ks
  induction ks with
  | nil => intro a _ hi _; exact ⟨a, rfl, rfl, hi⟩
  | cons k ks ih =>
    intro a hnd hi hp
    simp only [List.nodup_cons] at hnd
    obtain ⟨h1, h2⟩ := hstep a k hi (hp k List.mem_cons_self)
    simp only [C01.seqOps, List.foldl_cons]
    generalize hr : f a k = r at h1 h2
    obtain ⟨a1, o⟩ := r
    simp only at h1 h2
    subst h1
    simp only []
    rw [← h2]
    apply ih a1 hnd.2
    · rw [h2]; exact hI _ k hi (hp k List.mem_cons_self)
    · intro k' hk'
      rw [h2]
      exact hP _ k k' hi (hp k List.mem_cons_self) (fun e => hnd.1 (e ▸ hk')) (hp k' (List.mem_cons_of_mem _ hk'))

/-- the incident keys of the spec are the keys of C19's incident records, in the same order -/
theorem incident01 (a : C01.Spec) (n : Node) :
    (incident opsH (ofSpec01 a) n).map (·.1) = (C01.Spec.incidentKeys a n).map keyH := by
  have h2 : (ofSpec01 a).edges.filter
      (fun e => !(opsH.first e.1).contains n && (opsH.nodesOf e.1).contains n) = [] := by
    apply List.filter_eq_nil_iff.mpr
    intro e _
    simp [opsH]
  unfold incident
  rw [h2, List.append_nil]
  simp only [ofSpec01, mapKV, C01.Spec.incidentKeys, keys, List.filter_map, List.map_map]
  congr 1
  apply List.filter_congr
  intro p _
  simp [opsH, keyH, Function.comp_def]

theorem sorted_canon01 {e : List Nat} (h : SortedL e) : C01.canon e = e := C01.canon_of_sorted h

/-- the loop body of `remove_node(keep_edges=True)` on a present incident key -/
theorem shrinkInto01 (n : Node) (a : C01.Spec) (e : List Nat) (h : Dyn01 (ofSpec01 a))
    (hp : (get? (ofSpec01 a).edges (keyH e)).isSome = true) :
    (C01.Spec.shrinkInto n a e).2 = .ok ∧
    ofSpec01 (C01.Spec.shrinkInto n a e).1 = shrinkAddK opsH n (ofSpec01 a) (keyH e) := by
  rw [edges01_get, Option.isSome_map] at hp
  obtain ⟨v, hv⟩ := Option.isSome_iff_exists.mp hp
  obtain ⟨w0, md0⟩ := v
  have hc : get? (ofSpec01 a).edges (keyH e) = some (recOf (w0, md0)) := by rw [edges01_get, hv]; rfl
  have hmem : (keyH e, recOf (w0, md0)) ∈ (ofSpec01 a).edges := al_mem_of_get? hc
  have hsorted : SortedL e := (h.canon _ hmem).1
  have hw : a.weighted = false → w0 = C01.one := fun hwt => h.unitw hwt _ hmem
  have hwo : C01.Spec.weightOf a e = w0 := by simp [C01.Spec.weightOf, hv]
  have hmo : C01.Spec.emetaOf a e = md0 := by simp [C01.Spec.emetaOf, hv]
  unfold C01.Spec.shrinkInto
  rw [hwo, hmo]
  obtain ⟨h1, h2⟩ := addEdge01 a (e.filter (· ≠ n)) w0 md0 hw
  refine ⟨h1, ?_⟩
  rw [h2, C01.canon_filter_of_canon (sorted_canon01 hsorted)]
  unfold shrinkAddK
  rw [hc]
  rfl

/-- `remove_node(node, keep_edges)` of the abstract `Hypergraph` is C19's `removeNode opsH`; it is accepted iff the
node is present (`removeNode?`), and the invariant is kept -/
theorem removeNode01 (a : C01.Spec) (h : Dyn01 (ofSpec01 a)) (n : Node) (keep : Bool) :
    ((get? a.nodes n).isSome = true →
      (C01.Spec.removeNode a n keep).2 = .ok ∧
      ofSpec01 (C01.Spec.removeNode a n keep).1 = removeNode opsH keep (ofSpec01 a) n) ∧
    ((get? a.nodes n).isSome = false → C01.Spec.removeNode a n keep = (a, .rej)) := by
  refine ⟨fun hn => ?_, fun hn => by unfold C01.Spec.removeNode; simp [hn]⟩
  have hndE : (keys a.edges).Nodup := keys_nodup_of_mapKV keyH recOf a.edges h.wf.keysNodup
  have hkeys := incident01 a n
  have hesnd : (C01.Spec.incidentKeys a n).Nodup := (List.filter_sublist).nodup hndE
  have hrec := incident_rec opsH (ofSpec01 a) n h.wf.keysNodup
  have hinc_n : ∀ e ∈ incident opsH (ofSpec01 a) n, n ∈ opsH.nodesOf e.1 :=
    fun e he => ((mem_incident opsH _ n e).mp he).2
  have hes : ∀ e ∈ C01.Spec.incidentKeys a n, (get? (ofSpec01 a).edges (keyH e)).isSome = true ∧ n ∈ e := by
    intro e he
    simp only [C01.Spec.incidentKeys, List.mem_filter, decide_eq_true_eq] at he
    rw [edges01_get, Option.isSome_map]
    exact ⟨(al_isSome_iff_mem _ _).mpr he.1, he.2⟩
  -- phase 1
  have hphase1 : ∃ a1, (if keep = true then C01.seqOps (C01.Spec.shrinkInto n) a (C01.Spec.incidentKeys a n)
        else (a, C01.Out.ok)) = (a1, .ok) ∧
      ofSpec01 a1 = (if keep = true then (incident opsH (ofSpec01 a) n).foldl (shrinkAdd opsH n) (ofSpec01 a)
        else ofSpec01 a) ∧ Dyn01 (ofSpec01 a1) := by
    cases keep with
    | false => exact ⟨a, rfl, rfl, h⟩
    | true =>
      obtain ⟨a1, e1, e2, e3⟩ := seqOps01 (C01.Spec.shrinkInto n) (fun c e => shrinkAddK opsH n c (keyH e)) Dyn01
        (fun c e => (get? c.edges (keyH e)).isSome = true ∧ n ∈ e)
        (fun a' k hi hp => shrinkInto01 n a' k hi hp.1)
        (fun c k hi _ => shrinkAddK_dyn opsH lawful_H C01.one CanonH canonShrink_H n c (keyH k) hi)
        (fun c k k' _ _ _ hp' => ⟨by rw [shrinkAddK_get?_in opsH lawful_H n c (keyH k) (keyH k') hp'.2];
                                        exact hp'.1, hp'.2⟩)
        _ a hesnd h hes
      refine ⟨a1, e1, ?_, e3⟩
      rw [e2, ← List.foldl_map (f := keyH) (g := shrinkAddK opsH n), ← hkeys]
      exact foldl_shrinkAddK opsH lawful_H n _ _ hinc_n hrec
  obtain ⟨a1, p1, p2, p3⟩ := hphase1
  -- the incident keys are still there
  have hes1 : ∀ e ∈ C01.Spec.incidentKeys a n, (get? (ofSpec01 a1).edges (keyH e)).isSome = true := by
    intro e he
    rw [p2]
    cases keep with
    | false => exact (hes e he).1
    | true =>
      simp only [if_true]
      rw [foldl_shrinkAdd_get?_in opsH lawful_H n _ _ (keyH e) (hes e he).2]
      exact (hes e he).1
  have hcanon : ∀ e ∈ C01.Spec.incidentKeys a n, C01.canon e = e := by
    intro e he
    obtain ⟨v, hv⟩ := Option.isSome_iff_exists.mp (hes e he).1
    exact sorted_canon01 (h.canon _ (al_mem_of_get? hv)).1
  have hmapc : (C01.Spec.incidentKeys a n).map C01.canon = C01.Spec.incidentKeys a n := by
    have : ∀ (l : List (List Nat)), (∀ x ∈ l, C01.canon x = x) → l.map C01.canon = l := by
      intro l; induction l with
      | nil => intro _; rfl
      | cons x t ih =>
        intro hl
        simp only [List.map_cons]
        rw [hl x List.mem_cons_self, ih (fun y hy => hl y (List.mem_cons_of_mem _ hy))]
    exact this _ hcanon
  -- phase 2
  obtain ⟨a2, q1, q2, q3⟩ := seqOps01 C01.Spec.removeEdge (fun c e => removeEdge c (keyH e)) Dyn01
    (fun c e => (get? c.edges (keyH e)).isSome = true ∧ C01.canon e = e)
    (fun a' k hi hp => by
      have := (removeEdge01 a' k (keys_nodup_of_mapKV keyH recOf a'.edges hi.wf.keysNodup)).1
      rw [hp.2] at this
      exact this hp.1)
    (fun c k hi _ => removeEdge_dyn opsH C01.one CanonH c (keyH k) hi)
    (fun c k k' _ _ hne hp' => ⟨by
      simp only [removeEdge]
      rw [get?_erase_ne _ _ _ (fun e => hne (keyH_inj _ _ e).symm)]
      exact hp'.1, hp'.2⟩)
    _ a1 hesnd p3 (fun e he => ⟨hes1 e he, hcanon e he⟩)
  have hvalid : ((C01.Spec.incidentKeys a n).all (fun r => (get? a1.edges (C01.canon r)).isSome)
      && decide ((C01.Spec.incidentKeys a n).map C01.canon).Nodup) = true := by
    simp only [Bool.and_eq_true, List.all_eq_true, decide_eq_true_eq]
    refine ⟨?_, by rw [hmapc]; exact hesnd⟩
    intro r hr
    rw [hcanon r hr]
    have := hes1 r hr
    rwa [edges01_get, Option.isSome_map] at this
  have hre : C01.Spec.removeEdges a1 (C01.Spec.incidentKeys a n) = (a2, .ok) := by
    unfold C01.Spec.removeEdges
    rw [if_pos hvalid, q1]
  have hndN2 : (keys a2.nodes).Nodup := keys_nodup_of_mapKV (fun n => n) mdOf a2.nodes q3.wf.nodesNodup
  have hres : C01.Spec.removeNode a n keep = ({ a2 with nodes := C01.del a2.nodes n }, .ok) := by
    unfold C01.Spec.removeNode
    simp only [hn, Bool.not_true, Bool.false_eq_true, if_false]
    rw [p1]
    simp only []
    rw [hre]
  rw [hres]
  refine ⟨rfl, ?_⟩
  have hdrop : ofSpec01 { a2 with nodes := C01.del a2.nodes n } = dropNode (ofSpec01 a2) n := by
    simp only [ofSpec01, dropNode, del01 _ _ hndN2]
    congr 1
    exact (erase_mapKV (fun n => n) mdOf (fun _ _ h => h) a2.nodes n).symm
  rw [hdrop, q2, ← List.foldl_map (f := keyH) (g := removeEdge), ← hkeys, List.foldl_map, p2]
  unfold removeNode keepLoop
  cases keep with
  | false => rfl
  | true => rfl


/-! ### the concrete store: `C01.Inv` gives the content invariant, `C01.apply` the content operations -/

theorem dyn01_of_inv (s : C01.Store) (h : C01.Inv s) : Dyn01 (ofSpec01 (C01.abs s)) := by
  have hmem : ∀ e ∈ (ofSpec01 (C01.abs s)).edges, ∃ k id, get? s.edgeList k = some id ∧
      e = (keyH k, recOf (C01.wm s id)) := by
    intro e he
    simp only [ofSpec01, mapKV, C01.abs_edges, List.map_map, List.mem_map] at he
    obtain ⟨p, hp, rfl⟩ := he
    exact ⟨p.1, p.2, h.id_of_mem hp, rfl⟩
  refine ⟨⟨?_, ?_, ?_⟩, ?_, ?_⟩
  · apply keys_mapKV_nodup (fun n => n) mdOf (fun _ _ e => e)
    show (keys s.nmeta).Nodup
    rw [h.nm_keys]; exact h.adj_nodup
  · apply keys_mapKV_nodup keyH recOf keyH_inj
    rw [C01.abs_keys]; exact h.el_nodup
  · intro e he m hm
    obtain ⟨k, id, hid, rfl⟩ := hmem e he
    have h1 := h.nodes_in id k (h.rev_of_edge _ _ hid) m hm
    rw [← C01.mem_keys_iff, ← h.nm_keys] at h1
    simp only [ofSpec01, keys_mapKV, List.map_id']
    exact h1
  · intro hw e he
    obtain ⟨k, id, hid, rfl⟩ := hmem e he
    have hw1 : (get? s.weights id).isSome := by rw [h.w_dom]; simp [h.rev_of_edge _ _ hid]
    obtain ⟨w0, hw0⟩ := Option.isSome_iff_exists.mp hw1
    simp only [recOf, C01.wm, hw0, Option.getD_some]
    exact h.unw_one hw id w0 hw0
  · intro e he
    obtain ⟨k, id, hid, rfl⟩ := hmem e he
    refine ⟨?_, rfl⟩
    show SortedL k
    rw [← (h.key_canon k id hid).2]
    exact C01.canon_sorted k

/-- `get_nodes(metadata=True)` / `get_edges(metadata=True)` of a `Hypergraph` object -/
def view01 (s : C01.Store) : Content Key Int := ofSpec01 (C01.abs s)

/-- `remove_node(n, keep_edges)` on the object, with its verdict -/
def rmNode01 (keep : Bool) (s : C01.Store) (n : Node) : C01.Store × Bool :=
  ((C01.apply s (.removeNode n keep)).1, decide ((C01.apply s (.removeNode n keep)).2 = .ok))

/-- `remove_edge(k)` on the object for a key as `get_edges` lists it -/
def rmEdge01 (s : C01.Store) (k : Key) : C01.Store × Bool :=
  ((C01.apply s (.removeEdge k.1)).1, decide ((C01.apply s (.removeEdge k.1)).2 = .ok))

theorem rmNode01_link (keep : Bool) (s : C01.Store) (n : Node) (h : C01.Inv s) :
    ((rmNode01 keep s n).2 = true ↔ (removeNode? opsH keep (view01 s) n).isSome) ∧
    ((rmNode01 keep s n).2 = true → C01.Inv (rmNode01 keep s n).1 ∧
      view01 (rmNode01 keep s n).1 = removeNode opsH keep (view01 s) n) := by
  obtain ⟨s1, s2, s3⟩ := C01.sim_apply s (.removeNode n keep) trivial h
  obtain ⟨l1, l2⟩ := removeNode01 (C01.abs s) (dyn01_of_inv s h) n keep
  have hpres : (get? (view01 s).nodes n).isSome = (get? (C01.abs s).nodes n).isSome := by
    simp only [view01, nodes01_get, Option.isSome_map]
  simp only [rmNode01, view01, removeNode?, decide_eq_true_eq]
  rw [s1, s2]
  simp only [C01.Spec.apply]
  cases hn : (get? (C01.abs s).nodes n).isSome with
  | true =>
    have hn' : (get? (ofSpec01 (C01.abs s)).nodes n).isSome = true := by rw [← hn]; exact hpres
    obtain ⟨a1, a2⟩ := l1 hn
    simp only [hn', if_true, Option.isSome_some, a1, true_iff, forall_const]
    exact ⟨trivial, s3, a2⟩
  | false =>
    have hn' : (get? (ofSpec01 (C01.abs s)).nodes n).isSome = false := by rw [← hn]; exact hpres
    rw [l2 hn]
    simp [hn']

theorem rmEdge01_link (s : C01.Store) (k : Key) (h : C01.Inv s) (hk : CanonH k) :
    ((rmEdge01 s k).2 = true ↔ (removeEdge? (view01 s) k).isSome) ∧
    ((rmEdge01 s k).2 = true → C01.Inv (rmEdge01 s k).1 ∧ view01 (rmEdge01 s k).1 = removeEdge (view01 s) k) := by
  obtain ⟨s1, s2, s3⟩ := C01.sim_apply s (.removeEdge k.1) trivial h
  have hd := dyn01_of_inv s h
  obtain ⟨l1, l2⟩ := removeEdge01 (C01.abs s) k.1 (keys_nodup_of_mapKV keyH recOf _ hd.wf.keysNodup)
  have hkk : keyH (C01.canon k.1) = k := by
    rw [sorted_canon01 hk.1]
    obtain ⟨k1, k2⟩ := k
    simp only [CanonH] at hk
    simp [keyH, hk.2]
  rw [hkk] at l1 l2
  simp only [rmEdge01, view01, removeEdge?, decide_eq_true_eq]
  rw [s1, s2]
  simp only [C01.Spec.apply]
  by_cases hp : (get? (ofSpec01 (C01.abs s)).edges k).isSome = true
  · obtain ⟨a1, a2⟩ := l1 hp
    simp only [hp, if_true, Option.isSome_some, a1, true_iff, forall_const]
    exact ⟨trivial, s3, a2⟩
  · have hp' : (get? (ofSpec01 (C01.abs s)).edges k).isSome = false := by simpa using hp
    rw [l2 hp']
    simp [hp']

/-- **`filter_hypergraph` on a `Hypergraph` object.**  For every store satisfying the class invariant (every reachable
one): the run of public calls the filter makes - `remove_node(n, keep_edges)` for the listed nodes, then `remove_edge`
for the hyperedges listed on the object left by the node phase - meets no rejection, ends in a store satisfying the
invariant, and the content of that store is `filterHg opsH` of the content of the input. -/
theorem filter01 (s : C01.Store) (h : C01.Inv s) (nc ec : Option Crit) (mode : Mode) (keep : Bool) :
    let r := filterVia view01 (rmNode01 keep) rmEdge01 s nc ec mode
    r.2 = true ∧ C01.Inv r.1 ∧ view01 r.1 = filterHg opsH (view01 s) nc ec mode keep :=
  filterVia_eq opsH lawful_H keep view01 (rmNode01 keep) rmEdge01 C01.Inv CanonH
    (fun s hs => (dyn01_of_inv s hs).wf) (fun s hs => (dyn01_of_inv s hs).canon)
    (fun s n hs => rmNode01_link keep s n hs) (fun s k hs hk => rmEdge01_link s k hs hk) s h nc ec mode

end C19
