import Hgxv.Model.C04
import Hgxv.Model.C04Spec
/-! C04 - basic lemmas: association lists (`get?`, `set`, `del`, `keys`, `map`), `canon`, and the
characterisation of the small helper functions of the store. Core Lean only. -/
namespace C04
open AL

section al
variable {α β γ : Type} [DecidableEq α]
set_option linter.unusedSectionVars false

theorem get?_del (l : List (α × β)) (k k' : α) : get? (del l k) k' = if k' = k then none else get? l k' := by
  induction l with
  | nil => simp [del]
  | cons hd t ih => simp only [del] at ih ⊢; grind [get?]

theorem keys_del (l : List (α × β)) (k : α) : keys (del l k) = (keys l).filter (· ≠ k) := by
  induction l with
  | nil => simp [del, keys]
  | cons hd t ih => simp only [del, keys] at ih ⊢; grind

theorem mem_keys_iff (l : List (α × β)) (k : α) : k ∈ keys l ↔ (get? l k).isSome := by
  induction l with
  | nil => simp [keys]
  | cons hd t ih => grind [get?, keys]

theorem mem_keys_set (l : List (α × β)) (k k' : α) (v : β) : k' ∈ keys (set l k v) ↔ k' = k ∨ k' ∈ keys l := by
  rw [mem_keys_iff, mem_keys_iff, get?_set]; grind

theorem keys_nodup_set (l : List (α × β)) (k : α) (v : β) (h : (keys l).Nodup) : (keys (set l k v)).Nodup := by
  cases hg : get? l k with
  | none =>
    rw [keys_set_of_not_mem _ _ _ hg]
    have := (get?_eq_none_iff l k).mp hg
    exact List.nodup_append.mpr ⟨h, by simp, by intro a ha b hb; simp at hb; grind⟩
  | some v0 => rw [keys_set_of_mem _ _ _ (by simp [hg])]; exact h

theorem keys_nodup_del (l : List (α × β)) (k : α) (h : (keys l).Nodup) : (keys (del l k)).Nodup := by
  rw [keys_del]; exact h.filter _

theorem set_same (l : List (α × β)) (k : α) (v : β) (h : get? l k = some v) : set l k v = l := by
  induction l with
  | nil => simp [get?] at h
  | cons hd t ih => grind [get?, AL.set]

theorem mem_of_get? (l : List (α × β)) (k : α) (v : β) (h : get? l k = some v) : (k, v) ∈ l := by
  induction l with
  | nil => simp [get?] at h
  | cons hd t ih => grind [get?]

theorem get?_of_mem (l : List (α × β)) (k : α) (v : β) (hn : (keys l).Nodup) (h : (k, v) ∈ l) : get? l k = some v := by
  induction l with
  | nil => simp at h
  | cons hd t ih =>
    obtain ⟨k0, v0⟩ := hd
    simp only [keys, List.map_cons, List.nodup_cons, List.mem_map] at hn
    simp only [get?]
    rcases List.mem_cons.mp h with h | h
    · cases h; simp
    · have : k0 ≠ k := by intro hk; subst hk; exact hn.1 ⟨(k0, v), h, rfl⟩
      simp [this]; exact ih hn.2 h

/-- value-wise map of an association list -/
def mapVal (f : α → β → γ) (l : List (α × β)) : List (α × γ) := l.map (fun p => (p.1, f p.1 p.2))

theorem get?_mapVal (f : α → β → γ) (l : List (α × β)) (k : α) : get? (mapVal f l) k = (get? l k).map (f k) := by
  induction l with
  | nil => simp [mapVal, get?]
  | cons hd t ih => simp only [mapVal, List.map_cons, get?] at ih ⊢; grind

theorem keys_mapVal (f : α → β → γ) (l : List (α × β)) : keys (mapVal f l) = keys l := by
  simp [mapVal, keys]

theorem del_mapVal (f : α → β → γ) (l : List (α × β)) (k : α) : del (mapVal f l) k = mapVal f (del l k) := by
  simp [mapVal, del, List.filter_map]; rfl

theorem mapVal_congr (f g : α → β → γ) (l : List (α × β)) (h : ∀ p ∈ l, f p.1 p.2 = g p.1 p.2) :
    mapVal f l = mapVal g l := by
  simp only [mapVal]; apply List.map_congr_left; intro p hp; rw [h p hp]

/-- `set` of a new key through `mapVal` -/
theorem set_mapVal_new (f g : α → β → γ) (l : List (α × β)) (k : α) (v : β) (hk : get? l k = none)
    (hfg : ∀ p ∈ l, g p.1 p.2 = f p.1 p.2) :
    set (mapVal f l) k (g k v) = mapVal g (set l k v) := by
  induction l with
  | nil => simp [mapVal, AL.set]
  | cons hd t ih =>
    obtain ⟨k0, v0⟩ := hd
    have hne : k0 ≠ k := by intro h; subst h; simp [get?] at hk
    have hk' : get? t k = none := by simpa [get?, hne] using hk
    have := ih hk' (fun p hp => hfg p (List.mem_cons_of_mem _ hp))
    have h0 := hfg (k0, v0) List.mem_cons_self
    simp only [mapVal, List.map_cons, AL.set, hne, if_false] at this ⊢
    rw [this]; simp at h0; rw [h0]

/-- `set` of an existing key through `mapVal`: only that entry's value changes -/
theorem set_mapVal_old (f g : α → β → γ) (l : List (α × β)) (k : α) (v : γ) (hn : (keys l).Nodup)
    (hk : ∃ b, get? l k = some b ∧ g k b = v)
    (hfg : ∀ p ∈ l, p.1 ≠ k → g p.1 p.2 = f p.1 p.2) :
    set (mapVal f l) k v = mapVal g l := by
  induction l with
  | nil => obtain ⟨b, hb, _⟩ := hk; simp [get?] at hb
  | cons hd t ih =>
    obtain ⟨k0, v0⟩ := hd
    simp only [keys, List.map_cons, List.nodup_cons, List.mem_map] at hn
    by_cases hne : k0 = k
    · subst hne
      obtain ⟨b, hb, hgb⟩ := hk
      simp only [get?, if_true] at hb
      cases hb
      simp only [mapVal, List.map_cons, AL.set, if_true, hgb]
      congr 1
      apply List.map_congr_left
      intro p hp
      have : p.1 ≠ k0 := by intro h; exact hn.1 ⟨p, hp, h⟩
      rw [hfg p (List.mem_cons_of_mem _ hp) this]
    · obtain ⟨b, hb, hgb⟩ := hk
      simp only [get?, hne, if_false] at hb
      have := ih hn.2 ⟨b, hb, hgb⟩ (fun p hp => hfg p (List.mem_cons_of_mem _ hp))
      have h0 := hfg (k0, v0) List.mem_cons_self hne
      simp only [mapVal, List.map_cons, AL.set, hne, if_false] at this ⊢
      rw [this]; simp only at h0; rw [h0]

theorem set_set (l : List (α × β)) (k : α) (a b : β) : AL.set (AL.set l k a) k b = AL.set l k b := by
  induction l with
  | nil => simp [AL.set]
  | cons hd t ih => grind [AL.set]

end al

/-! ## canonical hyperedges -/

theorem insertSorted_perm (a : Nat) (l : List Nat) : (insertSorted a l).Perm (a :: l) := by
  induction l with
  | nil => simp [insertSorted]
  | cons b bs ih =>
    simp only [insertSorted]; split
    · exact List.Perm.refl _
    · exact (List.Perm.cons b ih).trans (List.Perm.swap a b bs)

theorem canon_perm (l : List Nat) : (canon l).Perm l := by
  induction l with
  | nil => simp [canon]
  | cons a l ih =>
    have : canon (a :: l) = insertSorted a (canon l) := rfl
    rw [this]; exact (insertSorted_perm a _).trans (List.Perm.cons a ih)

theorem canon_nodup {l : List Nat} (h : l.Nodup) : (canon l).Nodup := (canon_perm l).nodup_iff.mpr h
theorem mem_canon {l : List Nat} {n : Nat} : n ∈ canon l ↔ n ∈ l := (canon_perm l).mem_iff
theorem canon_length (l : List Nat) : (canon l).length = l.length := (canon_perm l).length_eq

theorem insertSorted_sorted (a : Nat) (l : List Nat) (h : l.Pairwise (· ≤ ·)) : (insertSorted a l).Pairwise (· ≤ ·) := by
  induction l with
  | nil => simp [insertSorted]
  | cons b bs ih =>
    simp only [insertSorted]; split
    · rename_i hab
      refine List.pairwise_cons.mpr ⟨?_, h⟩
      intro c hc
      rcases List.mem_cons.mp hc with hc | hc
      · omega
      · have := (List.pairwise_cons.mp h).1 c hc; omega
    · rename_i hab
      have hb := List.pairwise_cons.mp h
      refine List.pairwise_cons.mpr ⟨?_, ih hb.2⟩
      intro c hc
      rcases List.mem_cons.mp ((insertSorted_perm a bs).mem_iff.mp hc) with hc | hc
      · omega
      · exact hb.1 c hc

theorem canon_sorted (l : List Nat) : (canon l).Pairwise (· ≤ ·) := by
  induction l with
  | nil => simp [canon]
  | cons a l ih =>
    have : canon (a :: l) = insertSorted a (canon l) := rfl
    rw [this]; exact insertSorted_sorted a _ ih

theorem insertSorted_of_le (a : Nat) (l : List Nat) (h : ∀ b ∈ l, a ≤ b) : insertSorted a l = a :: l := by
  cases l with
  | nil => rfl
  | cons b bs => simp [insertSorted, h b List.mem_cons_self]

theorem canon_of_sorted (l : List Nat) (h : l.Pairwise (· ≤ ·)) : canon l = l := by
  induction l with
  | nil => rfl
  | cons a l ih =>
    have hb := List.pairwise_cons.mp h
    have : canon (a :: l) = insertSorted a (canon l) := rfl
    rw [this, ih hb.2, insertSorted_of_le a l hb.1]

/-- strictly increasing = canonical and duplicate free -/
def SSorted (e : Edge) : Prop := e.Pairwise (· < ·)

theorem SSorted.le {e : Edge} (h : SSorted e) : e.Pairwise (· ≤ ·) := h.imp (fun hab => Nat.le_of_lt hab)
theorem SSorted.nodup {e : Edge} (h : SSorted e) : e.Nodup := h.imp (fun hab => Nat.ne_of_lt hab)
theorem SSorted.canon {e : Edge} (h : SSorted e) : canon e = e := canon_of_sorted e h.le
theorem SSorted.filter {e : Edge} (h : SSorted e) (p : Nat → Bool) : SSorted (e.filter p) := List.Pairwise.filter p h

theorem strict_of_sorted_nodup (l : List Nat) (h1 : l.Pairwise (· ≤ ·)) (h2 : l.Nodup) : l.Pairwise (· < ·) := by
  induction l with
  | nil => simp
  | cons a l ih =>
    have ha := List.pairwise_cons.mp h1
    have hb := List.nodup_cons.mp h2
    refine List.pairwise_cons.mpr ⟨?_, ih ha.2 hb.2⟩
    intro c hc
    have := ha.1 c hc
    have : a ≠ c := by intro h; subst h; exact hb.1 hc
    omega

theorem canon_ssorted {raw : List Nat} (h : raw.Nodup) : SSorted (canon raw) :=
  strict_of_sorted_nodup _ (canon_sorted raw) (canon_nodup h)

end C04

namespace C04
open AL
theorem set_eq_append {α β : Type} [DecidableEq α] (l : List (α × β)) (k : α) (v : β) (h : get? l k = none) :
    AL.set l k v = l ++ [(k, v)] := by
  induction l with
  | nil => simp [AL.set]
  | cons hd t ih => grind [AL.set, get?]

theorem addLayer_nodup (ls : List Layer) (l : Layer) (h : ls.Nodup) : (addLayer ls l).Nodup := by
  unfold addLayer; split
  · exact h
  · exact List.nodup_append.mpr ⟨h, by simp, by intro a ha b hb; simp at hb; grind⟩

theorem mem_addLayer (ls : List Layer) (l l' : Layer) : l' ∈ addLayer ls l ↔ l' = l ∨ l' ∈ ls := by
  unfold addLayer; split <;> grind
end C04
