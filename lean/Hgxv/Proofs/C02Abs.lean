import Hgxv.Proofs.C02Ref
/-! C02 helper lemmas, part 7: the abstraction `abs : Store → Spec` and the refinement of every query
(concrete answer = answer of the abstract object; role listings as multisets). Core Lean only. -/

namespace AL
variable {α β γ : Type} [DecidableEq α]

theorem get?_map_val (l : List (α × β)) (g : β → γ) (k : α) :
    get? (l.map (fun p => (p.1, g p.2))) k = (get? l k).map g := by
  induction l with
  | nil => simp
  | cons hd t ih => obtain ⟨a, b⟩ := hd; simp only [List.map_cons, get?]; split <;> simp [ih]

theorem keys_map_val (l : List (α × β)) (g : β → γ) : keys (l.map (fun p => (p.1, g p.2))) = keys l := by
  simp [keys, List.map_map, Function.comp_def]

theorem get?_keymap (l : List α) (g : α → β) (k : α) :
    get? (l.map (fun a => (a, g a))) k = if k ∈ l then some (g k) else none := by
  induction l with
  | nil => simp
  | cons a t ih =>
    simp only [List.map_cons, get?, List.mem_cons]
    by_cases h : a = k
    · subst h; simp
    · have : ¬ k = a := fun hc => h hc.symm
      simp [h, this, ih]

theorem keys_keymap (l : List α) (g : α → β) : keys (l.map (fun a => (a, g a))) = l := by
  simp [keys, List.map_map, Function.comp_def]

theorem has_map_val (l : List (α × β)) (g : β → γ) (k : α) :
    has (l.map (fun p => (p.1, g p.2))) k = has l k := by
  simp [has, get?_map_val]

end AL

namespace C02
open AL

/-! ### lists of optional answers -/

theorem mapM_some {α β : Type} (l : List α) (f : α → Option β) (g : α → β) (h : ∀ a ∈ l, f a = some (g a)) :
    l.mapM f = some (l.map g) := by
  induction l with
  | nil => simp
  | cons a t ih =>
    rw [List.mapM_cons, h a List.mem_cons_self, ih (fun b hb => h b (List.mem_cons_of_mem _ hb))]
    simp

theorem mapM_congr {α β : Type} (l : List α) (f g : α → Option β) (h : ∀ a ∈ l, f a = g a) :
    l.mapM f = l.mapM g := by
  induction l with
  | nil => simp
  | cons a t ih =>
    rw [List.mapM_cons, List.mapM_cons, h a List.mem_cons_self, ih (fun b hb => h b (List.mem_cons_of_mem _ hb))]

/-! ### pieces of the abstraction -/

theorem abs_nodes_keys (s : Store) : keys (abs s).nodes = keys s.adjS := keys_keymap _ _
theorem abs_edges_keys (s : Store) : keys (abs s).edges = keys s.edgeList :=
  keys_map_val s.edgeList (fun id => ((get? s.weights id).getD 0, (get? s.emeta id).getD []))

theorem abs_get_node (s : Store) (n : Node) :
    get? (abs s).nodes n = if n ∈ keys s.adjS then some ((get? s.nmeta n).getD []) else none :=
  get?_keymap _ _ _

theorem abs_has_node (s : Store) (n : Node) : has (abs s).nodes n = has s.adjS n := by
  have h1 := has_iff (abs s).nodes n
  have h2 := has_iff s.adjS n
  rw [abs_nodes_keys] at h1
  cases ha : has (abs s).nodes n <;> cases hb : has s.adjS n <;> simp_all

theorem abs_get_edge (s : Store) (k : Key) :
    get? (abs s).edges k =
      (get? s.edgeList k).map (fun id => ((get? s.weights id).getD 0, (get? s.emeta id).getD [])) :=
  get?_map_val s.edgeList (fun id => ((get? s.weights id).getD 0, (get? s.emeta id).getD [])) k

theorem abs_has_edge (s : Store) (k : Key) : has (abs s).edges k = has s.edgeList k :=
  has_map_val s.edgeList (fun id => ((get? s.weights id).getD 0, (get? s.emeta id).getD [])) k

/-! ### queries -/

theorem q_nodes (s : Store) : nodes s = (abs s).nodeList := (abs_nodes_keys s).symm

theorem q_nodesMeta (s : Store) (h : Inv s) : nodesMeta s = some (abs s).nodes := by
  unfold nodesMeta nodes
  refine mapM_some _ _ (fun n => (n, (get? s.nmeta n).getD [])) ?_
  intro n hn
  have : (get? s.nmeta n).isSome := by rw [h.nmeta_same]; exact (isSome_get?_iff _ _).mpr hn
  obtain ⟨md, hmd⟩ := Option.isSome_iff_exists.mp this
  simp [hmd]

theorem q_checkNode (s : Store) (n : Node) : checkNode s n = has (abs s).nodes n := (abs_has_node s n).symm

theorem q_nodeMeta (s : Store) (h : Inv s) (n : Node) : nodeMeta s n = (abs s).nodeMeta n := by
  unfold nodeMeta Spec.nodeMeta
  rw [abs_get_node]
  by_cases hn : n ∈ keys s.adjS
  · have h1 : has s.adjS n = true := (has_iff _ _).mpr hn
    have : (get? s.nmeta n).isSome := by rw [h.nmeta_same]; exact (isSome_get?_iff _ _).mpr hn
    obtain ⟨md, hmd⟩ := Option.isSome_iff_exists.mp this
    simp [hn, h1, hmd]
  · have h1 : has s.adjS n = false := by
      cases hh : has s.adjS n
      · rfl
      · exact absurd ((has_iff _ _).mp hh) hn
    simp [hn, h1]

theorem q_edges (s : Store) (f : Filt) (up : Bool) : edges s f up = (abs s).edgesF f up := by
  unfold edges Spec.edgesF Spec.keyList; rw [abs_edges_keys]

theorem q_numbers (s : Store) : numNodes s = (abs s).nodes.length ∧ numEdges s = (abs s).edges.length ∧
    sizes s = (abs s).sizes ∧ sources s = (abs s).keyList.map (·.1) ∧ targets s = (abs s).keyList.map (·.2) := by
  refine ⟨?_, ?_, ?_, ?_, ?_⟩
  · simp [numNodes, nodes, abs, keys]
  · simp [numEdges, abs]
  · simp [sizes, Spec.sizes, Spec.keyList, abs_edges_keys]
  · simp [sources, Spec.keyList, abs_edges_keys]
  · simp [targets, Spec.keyList, abs_edges_keys]

theorem Inv.weightOfKey_mem {s : Store} (h : Inv s) (p : Key × Nat) (hp : p ∈ s.edgeList) :
    weightOfKey s p.1 = some ((get? s.weights p.2).getD 0) ∧ metaOfKey s p.1 = some ((get? s.emeta p.2).getD []) := by
  have hg : get? s.edgeList p.1 = some p.2 := get?_of_mem _ _ _ h.nd_edge hp
  have hw := h.weights_of_edge p.1 p.2 hg
  have hm := h.emeta_of_edge p.1 p.2 hg
  obtain ⟨w, hw⟩ := Option.isSome_iff_exists.mp hw
  obtain ⟨m, hm⟩ := Option.isSome_iff_exists.mp hm
  simp [weightOfKey, metaOfKey, hg, hw, hm]

theorem q_edgesMeta (s : Store) (h : Inv s) (f : Filt) (up : Bool) : edgesMeta s f up = (abs s).edgesMetaF f up := by
  unfold edgesMeta edges Spec.edgesMetaF
  cases f.target with
  | none => rfl
  | some t =>
    simp only [Option.map_some, Option.bind_some]
    have : (keys s.edgeList).filter (passes t up) = (s.edgeList.filter (fun p => passes t up p.1)).map (·.1) := by
      simp only [keys]; induction s.edgeList with
      | nil => rfl
      | cons a l ih => simp only [List.map_cons, List.filter_cons]; split <;> simp [ih]
    rw [this, List.mapM_map]
    rw [mapM_some _ _ (fun p => (p.1, (get? s.emeta p.2).getD []))]
    · simp [abs, List.filter_map, Function.comp_def]
    · intro p hp
      have := (h.weightOfKey_mem p (List.mem_filter.mp hp).1).2
      simp [this]

theorem q_weightsDict (s : Store) (h : Inv s) (f : Filt) (up : Bool) : weightsDict s f up = (abs s).weightsDictF f up := by
  unfold weightsDict edges Spec.weightsDictF
  cases f.target with
  | none => rfl
  | some t =>
    simp only [Option.map_some, Option.bind_some]
    have : (keys s.edgeList).filter (passes t up) = (s.edgeList.filter (fun p => passes t up p.1)).map (·.1) := by
      simp only [keys]; induction s.edgeList with
      | nil => rfl
      | cons a l ih => simp only [List.map_cons, List.filter_cons]; split <;> simp [ih]
    rw [this, List.mapM_map]
    rw [mapM_some _ _ (fun p => (p.1, (get? s.weights p.2).getD 0))]
    · simp [abs, List.filter_map, Function.comp_def]
    · intro p hp
      have := (h.weightOfKey_mem p (List.mem_filter.mp hp).1).1
      simp [this]

theorem q_edge (s : Store) (h : Inv s) (e : RawEdge) :
    checkEdge s e = (abs s).checkEdge e ∧ getWeight s e = (abs s).getWeight e ∧ edgeMeta s e = (abs s).edgeMeta e := by
  unfold checkEdge getWeight edgeMeta Spec.checkEdge Spec.getWeight Spec.edgeMeta
  cases canonStrict e with
  | none => simp
  | some k =>
    simp only [Option.map_some, Option.bind_some, abs_has_edge, abs_get_edge, true_and]
    cases hk : get? s.edgeList k with
    | none => simp [weightOfKey, metaOfKey, hk]
    | some id =>
      obtain ⟨w, hw⟩ := Option.isSome_iff_exists.mp (h.weights_of_edge k id hk)
      obtain ⟨m, hm⟩ := Option.isSome_iff_exists.mp (h.emeta_of_edge k id hk)
      simp [weightOfKey, metaOfKey, hk, hw, hm]

/-- agreement of two optional listings as multisets -/
def OptPerm {α : Type} : Option (List α) → Option (List α) → Prop
  | none, none => True
  | some a, some b => a.Perm b
  | _, _ => False

theorem q_sourceEdges (s : Store) (h : Inv s) (n : Node) (f : Filt) :
    OptPerm (sourceEdges s n f) ((abs s).sourceEdges n f) := by
  unfold Spec.sourceEdges
  rw [abs_has_node]
  cases ha : get? s.adjS n with
  | none => simp [sourceEdges, ha, has, OptPerm]
  | some ids =>
    cases ht : f.target with
    | none => simp [sourceEdges, ha, ht, has, OptPerm]
    | some t =>
      rw [h.sourceEdges_eq n ids ha f t ht]
      simp only [has, ha, Option.isSome_some, Bool.not_true, Bool.false_eq_true, if_false, Option.map_some, OptPerm,
        Spec.keyList, abs_edges_keys]
      exact h.sourceEdges_perm n ids ha t

theorem q_targetEdges (s : Store) (h : Inv s) (n : Node) (f : Filt) :
    OptPerm (targetEdges s n f) ((abs s).targetEdges n f) := by
  unfold Spec.targetEdges
  rw [abs_has_node]
  cases hS : get? s.adjS n with
  | none =>
    have hT : get? s.adjT n = none := by
      have := h.adj_same n; rw [hS] at this; cases hq : get? s.adjT n <;> simp_all
    simp [targetEdges, hT, hS, has, OptPerm]
  | some idsS =>
    have hT : (get? s.adjT n).isSome := by rw [h.adj_same, hS]; rfl
    obtain ⟨ids, ha⟩ := Option.isSome_iff_exists.mp hT
    cases ht : f.target with
    | none => simp [targetEdges, ha, ht, has, hS, OptPerm]
    | some t =>
      rw [h.targetEdges_eq n ids ha f t ht]
      simp only [has, hS, Option.isSome_some, Bool.not_true, Bool.false_eq_true, if_false, Option.map_some, OptPerm,
        Spec.keyList, abs_edges_keys]
      exact h.targetEdges_perm n ids ha t

def optAppend {α : Type} (a b : Option (List α)) : Option (List α) :=
  match a, b with
  | some x, some y => some (x ++ y)
  | _, _ => none

theorem OptPerm.append {α : Type} {a b a' b' : Option (List α)} (h1 : OptPerm a a') (h2 : OptPerm b b') :
    OptPerm (optAppend a b) (optAppend a' b') := by
  cases a <;> cases a' <;> cases b <;> cases b' <;> simp only [OptPerm] at h1 h2 <;> simp only [optAppend, OptPerm]
  exact List.Perm.append h1 h2

theorem incident_eq (s : Store) (n : Node) (f : Filt) :
    incident s n f = optAppend (sourceEdges s n f) (targetEdges s n f) := by
  unfold incident optAppend; cases sourceEdges s n f <;> cases targetEdges s n f <;> rfl

theorem Spec.incident_eq (s : Spec) (n : Node) (f : Filt) :
    s.incident n f = optAppend (s.sourceEdges n f) (s.targetEdges n f) := by
  unfold Spec.incident optAppend; cases s.sourceEdges n f <;> cases s.targetEdges n f <;> rfl

theorem q_incident (s : Store) (h : Inv s) (n : Node) (f : Filt) :
    OptPerm (incident s n f) ((abs s).incident n f) := by
  rw [incident_eq, Spec.incident_eq]
  exact OptPerm.append (q_sourceEdges s h n f) (q_targetEdges s h n f)

theorem OptPerm.length {α : Type} {a b : Option (List α)} (h : OptPerm a b) : a.map List.length = b.map List.length := by
  cases a <;> cases b <;> simp_all [OptPerm]
  exact h.length_eq

theorem q_degrees (s : Store) (h : Inv s) (n : Node) (f : Filt) :
    degree s n f = (abs s).degree n f ∧ inDegree s n f = (abs s).inDegree n f ∧ outDegree s n f = (abs s).outDegree n f :=
  ⟨(q_incident s h n f).length, (q_sourceEdges s h n f).length, (q_targetEdges s h n f).length⟩

theorem OptPerm.nodeSet {a b : Option (List Key)} (h : OptPerm a b) (n : Node) :
    a.map (fun ks => nodeSet ((ks.flatMap (fun k => k.1 ++ k.2)).filter (· != n))) =
    b.map (fun ks => nodeSet ((ks.flatMap (fun k => k.1 ++ k.2)).filter (· != n))) := by
  cases a <;> cases b <;> simp_all [OptPerm]
  apply nodeSet_eq_of_mem
  intro x
  simp only [List.mem_filter, List.mem_flatMap]
  constructor
  · rintro ⟨⟨k, hk, hx⟩, hne⟩; exact ⟨⟨k, h.mem_iff.mp hk, hx⟩, hne⟩
  · rintro ⟨⟨k, hk, hx⟩, hne⟩; exact ⟨⟨k, h.mem_iff.mpr hk, hx⟩, hne⟩

theorem q_neighbors (s : Store) (h : Inv s) (n : Node) (f : Filt) : neighbors s n f = (abs s).neighbors n f := by
  unfold neighbors Spec.neighbors
  have hi := q_incident s h n f
  by_cases hp : has s.adjS n = true
  · have hT : has s.adjT n = true := by
      have := h.adj_same n; simp only [has] at hp ⊢; rw [this]; exact hp
    simp only [hp, hT, Bool.not_true, Bool.or_self, Bool.false_eq_true, if_false]
    exact hi.nodeSet n
  · have hp' : has s.adjS n = false := by cases hq : has s.adjS n <;> simp_all
    simp only [hp', Bool.not_false, Bool.true_or, if_true]
    -- the abstract object rejects as well: the node is absent
    have : (abs s).incident n f = none := by
      unfold Spec.incident Spec.sourceEdges; rw [abs_has_node, hp']; simp
    rw [this]; rfl

theorem q_isIsolated (s : Store) (h : Inv s) (n : Node) (f : Filt) : isIsolated s n f = (abs s).isIsolated n f := by
  unfold isIsolated Spec.isIsolated; rw [q_neighbors s h n f]

theorem q_seqs (s : Store) (h : Inv s) (f : Filt) :
    degreeSeq s f = (abs s).degreeSeq f ∧ inDegreeSeq s f = (abs s).inDegreeSeq f ∧
    outDegreeSeq s f = (abs s).outDegreeSeq f ∧ degreeDist s f = (abs s).degreeDist f ∧
    isolatedNodes s f = (abs s).isolatedNodes f := by
  have e1 : degreeSeq s f = (abs s).degreeSeq f := by
    unfold degreeSeq Spec.degreeSeq; rw [q_nodes]
    cases f.target with
    | none => rfl
    | some t => exact mapM_congr _ _ _ (fun n _ => by rw [(q_degrees s h n f).1])
  refine ⟨e1, ?_, ?_, ?_, ?_⟩
  · unfold inDegreeSeq Spec.inDegreeSeq; rw [q_nodes]
    exact mapM_congr _ _ _ (fun n _ => by rw [(q_degrees s h n f).2.1])
  · unfold outDegreeSeq Spec.outDegreeSeq; rw [q_nodes]
    exact mapM_congr _ _ _ (fun n _ => by rw [(q_degrees s h n f).2.2])
  · unfold degreeDist Spec.degreeDist; rw [e1]
  · unfold isolatedNodes Spec.isolatedNodes; rw [q_nodes]
    cases f.target with
    | none => rfl
    | some t =>
      simp only []
      rw [mapM_congr _ _ _ (fun n _ => by rw [q_neighbors s h n f])]

end C02
