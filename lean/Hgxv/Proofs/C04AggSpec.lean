import Hgxv.Proofs.C04Agg
/-! C04 - the folded aggregate table equals the declarative one of `Spec.aggregated`. Core Lean only. -/
namespace C04
open AL

theorem rev_induction {α : Type} {P : List α → Prop} (h0 : P []) (h1 : ∀ l a, P l → P (l ++ [a])) : ∀ l, P l := by
  have key : ∀ l : List α, P l.reverse := by
    intro l
    induction l with
    | nil => exact h0
    | cons a t ih => rw [List.reverse_cons]; exact h1 _ _ ih
  intro l
  have := key l.reverse
  rwa [List.reverse_reverse] at this

theorem distinct_append_one (l : List Edge) (a : Edge) :
    Spec.distinct (l ++ [a]) = if a ∈ Spec.distinct l then Spec.distinct l else Spec.distinct l ++ [a] := by
  unfold Spec.distinct
  rw [List.foldl_append]
  rfl

theorem mem_distinct (l : List Edge) (a : Edge) : a ∈ Spec.distinct l ↔ a ∈ l := by
  induction l using rev_induction with
  | h0 => simp [Spec.distinct]
  | h1 l b ih =>
    rw [distinct_append_one]
    split <;> simp [ih] <;> grind

theorem distinct_nodup (l : List Edge) : (Spec.distinct l).Nodup := by
  induction l using rev_induction with
  | h0 => simp [Spec.distinct]
  | h1 l b ih =>
    rw [distinct_append_one]
    split
    · exact ih
    · rename_i hb
      exact List.nodup_append.mpr ⟨ih, by simp, by intro a ha c hc; simp at hc; subst hc; intro h; subst h; exact hb ha⟩

/-- the declarative table over a list of records -/
def declTable (wtd : Bool) (es : List (Key × (Int × Meta))) : List (Edge × (Int × Meta)) :=
  (Spec.distinct (es.map (·.1.1))).map (fun e =>
    (e, (if wtd then ((es.filter (fun r => r.1.1 = e)).map (·.2.1)).sum else one,
         ((es.filter (fun r => r.1.1 = e)).map (·.2.2)).getLast?.getD [])))

theorem get?_map_key {β : Type} (f : Edge → β) (l : List Edge) (e : Edge) :
    get? (l.map (fun e => (e, f e))) e = if e ∈ l then some (f e) else none := by
  induction l with
  | nil => simp [get?]
  | cons a t ih => simp only [List.map_cons, get?, List.mem_cons]; grind

theorem set_map_key_mem {β : Type} (f g : Edge → β) (l : List Edge) (e : Edge) (he : e ∈ l) (hnd : l.Nodup)
    (hfg : ∀ e' ∈ l, e' ≠ e → g e' = f e') :
    AL.set (l.map (fun e => (e, f e))) e (g e) = l.map (fun e => (e, g e)) := by
  induction l with
  | nil => simp at he
  | cons a t ih =>
    have hn := List.nodup_cons.mp hnd
    simp only [List.map_cons, AL.set]
    by_cases ha : a = e
    · subst ha
      simp only [if_true]
      congr 1
      apply List.map_congr_left
      intro e' he'
      have h2 : e' ≠ a := by intro h; subst h; exact hn.1 he'
      rw [hfg e' (List.mem_cons_of_mem _ he') h2]
    · simp only [ha, if_false]
      rw [hfg a List.mem_cons_self ha]
      congr 1
      rcases List.mem_cons.mp he with h | h
      · exact absurd h.symm ha
      · exact ih h hn.2 (fun e' he' => hfg e' (List.mem_cons_of_mem _ he'))

theorem declTable_snoc (wtd : Bool) (es : List (Key × (Int × Meta))) (r : Key × (Int × Meta)) :
    declTable wtd (es ++ [r]) = tblStep wtd (declTable wtd es) r.1.1 r.2.1 r.2.2 := by
  obtain ⟨⟨e, l⟩, w, md⟩ := r
  simp only [declTable, tblStep, List.map_append, List.map_cons, List.map_nil, distinct_append_one]
  rw [get?_map_key]
  have hfilt : ∀ e', (es ++ [((e, l), w, md)]).filter (fun r => r.1.1 = e') =
      es.filter (fun r => r.1.1 = e') ++ (if e = e' then [((e, l), w, md)] else []) := by
    intro e'
    rw [List.filter_append]
    by_cases h : e = e' <;> simp [List.filter_cons, h]
  by_cases hmem : e ∈ Spec.distinct (es.map (·.1.1))
  · simp only [hmem, if_true]
    symm
    have := set_map_key_mem
      (fun e' => (if wtd then ((es.filter (fun r => r.1.1 = e')).map (·.2.1)).sum else one,
         ((es.filter (fun r => r.1.1 = e')).map (·.2.2)).getLast?.getD []))
      (fun e' => (if wtd then (((es ++ [((e, l), w, md)]).filter (fun r => r.1.1 = e')).map (·.2.1)).sum else one,
         (((es ++ [((e, l), w, md)]).filter (fun r => r.1.1 = e')).map (·.2.2)).getLast?.getD []))
      (Spec.distinct (es.map (·.1.1))) e hmem (distinct_nodup _)
      (by
        intro e' _ hne
        rw [hfilt e']
        simp [Ne.symm hne])
    rw [← this]
    congr 1
    rw [hfilt e]
    cases wtd <;> simp
  · simp only [hmem, if_false, List.map_append, List.map_cons, List.map_nil]
    have hnot : ∀ r ∈ es, r.1.1 ≠ e := by
      intro r hr he
      apply hmem
      rw [mem_distinct]
      exact List.mem_map.mpr ⟨r, hr, he⟩
    have hempty : es.filter (fun r => r.1.1 = e) = [] := by
      apply List.filter_eq_nil_iff.mpr
      intro r hr; simpa using hnot r hr
    rw [set_eq_append _ _ _ (by rw [get?_map_key]; simp [hmem])]
    congr 1
    · apply List.map_congr_left
      intro e' he'
      have hne : e ≠ e' := by intro h; subst h; exact hmem he'
      rw [hfilt e']; simp [hne]
    · rw [hfilt e, hempty]
      cases wtd <;> simp

theorem aggTable_append (wtd : Bool) (es1 es2 : List (Key × (Int × Meta))) (tbl : List (Edge × (Int × Meta))) :
    aggTable wtd (es1 ++ es2) tbl = aggTable wtd es2 (aggTable wtd es1 tbl) := by
  simp only [aggTable, List.foldl_append]

theorem aggTable_eq_decl (wtd : Bool) (es : List (Key × (Int × Meta))) : aggTable wtd es [] = declTable wtd es := by
  induction es using rev_induction with
  | h0 => simp [aggTable, declTable, Spec.distinct]
  | h1 es r ih =>
    rw [aggTable_append, ih, declTable_snoc]
    simp [aggTable]

theorem aggregated_spec (s : Store) (h : Inv s) : aggregated s = some (Spec.aggregated (abs s)) := by
  rw [aggregated_eq s h, aggTable_eq_decl]
  rfl

theorem overlap_spec (s : Store) (raw : List Node) (h : Inv s) : overlap s raw = Spec.overlap (abs s) raw := by
  rw [overlap_eq s raw h]; rfl

end C04
