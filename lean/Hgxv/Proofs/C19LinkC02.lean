import Hgxv.Proofs.C02All
import Hgxv.Proofs.C02Total
import Hgxv.Proofs.C19LinkC04
/-! # C19 ↔ C02: `DirectedHypergraph`

`ofSpec02 : C02.Spec → Content Key Int` (keys `(sorted sources, sorted targets)` are C19's keys as they are).  Under the
content invariant `Dyn opsD C02.one CanonD` - well formed, unit weights when unweighted, both sides sorted and NO NODE ON
BOTH SIDES (`C02.Inv`'s `KeyWF`; the quantifier of C02/C19) - `C02.Spec.removeNode` (source-role incidences, then
target-role incidences: all re-insertions, then all removals) is `C19.removeNode opsD`, `C02.Spec.removeEdge` is
`C19.removeEdge`, with the same verdicts.

The side condition "no node on both sides" is necessary: `add_edge` accepts `((1,2),(1,3))`; `remove_node(1)` then lists
that hyperedge twice (once per role), re-inserts `((2),(3))` twice and raises on the second `remove_edge` - as
`C02.Spec.removeNode` does (witness `overlap02_rejected` below) - while C19's content model lists it once and accepts.

Second side condition, for `keep_edges=True` only (`NoNone`): no stored hyperedge metadata is the bare value `None`
(`C02.metaNone`).  `remove_node(keep_edges=True)` re-inserts a shrunk hyperedge with `add_edge(.., metadata=md)`, and a
metadata ARGUMENT `None` means "not given" (`C02.argMeta`): the re-inserted hyperedge gets `{}`, which the content model
of C19 (it re-adds the stored metadata as it is) does not express (witness `noneMeta02_differs`).  `NoNone` is kept by
`remove_node` / `remove_edge`, so it threads through the filter.
Core Lean only. -/
namespace C19
open AL
set_option linter.unusedSectionVars false
set_option linter.unusedSimpArgs false
set_option linter.unusedVariables false

/-- the content of an abstract `DirectedHypergraph` -/
def ofSpec02 (a : C02.Spec) : Content Key Int :=
  { weighted := a.weighted, nodes := mapKV (fun n => n) mdOf a.nodes, edges := mapKV (fun k => k) recOf a.edges }

abbrev Dyn02 (c : Content Key Int) : Prop := Dyn opsD C02.one CanonD c

theorem nodes02_get (a : C02.Spec) (n : Node) : get? (ofSpec02 a).nodes n = (get? a.nodes n).map mdOf :=
  get?_mapKV (fun n => n) mdOf (fun _ _ h => h) a.nodes n

theorem edges02_get (a : C02.Spec) (k : Key) : get? (ofSpec02 a).edges k = (get? a.edges k).map recOf :=
  get?_mapKV (fun k => k) recOf (fun _ _ h => h) a.edges k

theorem touch02 (a : C02.Spec) (n : Node) :
    ofSpec02 (C02.Spec.addNode a n none) = { ofSpec02 a with nodes := touchNode (ofSpec02 a).nodes n } := by
  unfold C02.Spec.addNode touchNode
  rw [nodes02_get]
  cases hg : get? a.nodes n with
  | none =>
    simp only [Option.map_none, Option.isSome_none, Bool.false_eq_true, if_false, Option.getD_none]
    simp only [ofSpec02, al_set_of_none _ _ _ hg, mapKV_append]
    rfl
  | some v =>
    cases v with
    | nil =>
      simp only [Option.map_some, Option.isSome_some, if_true, Option.getD_none]
      rw [al_set_same _ _ _ hg]
    | cons x xs => simp

theorem touchAll02 (ns : List Node) (a : C02.Spec) :
    ofSpec02 (C02.Spec.touchAll a ns) = { ofSpec02 a with nodes := touchNodes (ofSpec02 a).nodes ns } ∧
    (C02.Spec.touchAll a ns).edges = a.edges ∧ (C02.Spec.touchAll a ns).weighted = a.weighted := by
  induction ns generalizing a with
  | nil => exact ⟨rfl, rfl, rfl⟩
  | cons n ns ih =>
    obtain ⟨h1, h2, h3⟩ := ih (C02.Spec.addNode a n none)
    have he : (C02.Spec.addNode a n none).edges = a.edges ∧ (C02.Spec.addNode a n none).weighted = a.weighted := by
      unfold C02.Spec.addNode; split <;> exact ⟨rfl, rfl⟩
    simp only [C02.Spec.touchAll, touchNodes, List.foldl_cons] at h1 h2 h3 ⊢
    rw [h1, touch02, h2, h3]
    exact ⟨rfl, he.1, he.2⟩

/-- `add_edge` on a canonical key with both optional arguments given -/
theorem addEdgeKey02 (a : C02.Spec) (k : Key) (w : Int) (md : C02.Meta) (hw : a.weighted = false → w = C02.one) :
    (C02.Spec.addEdgeKey a k (some w) (some md)).2 = .ok ∧
    ofSpec02 (C02.Spec.addEdgeKey a k (some w) (some md)).1 = addEdge opsD (ofSpec02 a) k w (mdOf md) := by
  have hc : (!a.weighted && (some w).isSome && (some w != some C02.one)) = false := by
    cases hwt : a.weighted with
    | true => rfl
    | false => simp [hw hwt]
  unfold C02.Spec.addEdgeKey addEdge
  rw [hc, edges02_get]
  simp only [Bool.false_eq_true, if_false]
  cases hg : get? a.edges k with
  | none =>
    refine ⟨rfl, ?_⟩
    obtain ⟨t1, t2, t3⟩ := touchAll02 (k.1 ++ k.2) a
    have hwv : (if a.weighted = true then w else C02.one) = w := by
      cases hwt : a.weighted with
      | true => simp
      | false => simp [hw hwt]
    simp only [Option.map_none, Option.getD_some, hwv]
    have hg' : get? (C02.Spec.touchAll a (k.1 ++ k.2)).edges k = none := by rw [t2]; exact hg
    have : ofSpec02 { C02.Spec.touchAll a (k.1 ++ k.2) with
          edges := AL.set (C02.Spec.touchAll a (k.1 ++ k.2)).edges k (w, md) } =
        { ofSpec02 (C02.Spec.touchAll a (k.1 ++ k.2)) with
          edges := (ofSpec02 (C02.Spec.touchAll a (k.1 ++ k.2))).edges ++ [(k, (w, mdOf md))] } := by
      simp only [ofSpec02, al_set_of_none _ _ _ hg', mapKV_append]
      rfl
    rw [this, t1]
    simp only [addEdgeNew, ofSpec02, t2]
    rfl
  | some v =>
    obtain ⟨w0, md0⟩ := v
    refine ⟨rfl, ?_⟩
    simp only [Option.map_some, Option.getD_some, addEdgeOld, ofSpec02]
    congr 1
    exact (set_mapKV (fun k => k) recOf (fun _ _ h => h) a.edges k _).symm

theorem sortNodes02 {l : List Nat} (h : SortedL l) : C02.sortNodes l = l := C02.sortNodes_of_sorted h

theorem removeEdgeKey02 (a : C02.Spec) (k : Key) :
    ((get? (ofSpec02 a).edges k).isSome = true →
      (C02.Spec.removeEdgeKey a k).2 = .ok ∧ ofSpec02 (C02.Spec.removeEdgeKey a k).1 = removeEdge (ofSpec02 a) k) ∧
    ((get? (ofSpec02 a).edges k).isSome = false → C02.Spec.removeEdgeKey a k = (a, .rej)) := by
  rw [edges02_get, Option.isSome_map]
  unfold C02.Spec.removeEdgeKey AL.has
  constructor
  · intro hp
    rw [if_pos hp]
    refine ⟨rfl, ?_⟩
    simp only [removeEdge, ofSpec02]
    congr 1
    exact (erase_mapKV (fun k => k) recOf (fun _ _ h => h) a.edges k).symm
  · intro hp
    rw [if_neg (by simp [hp])]

/-- `remove_edge(k)` for a key with sorted sides -/
theorem removeEdge02 (a : C02.Spec) (k : Key) (hk : SortedL k.1 ∧ SortedL k.2) :
    C02.Spec.removeEdge a (C02.RawEdge.ofKey k) = C02.Spec.removeEdgeKey a k := by
  unfold C02.Spec.removeEdge
  simp only [C02.RawEdge.ofKey, C02.canonStrict, C02.Side.strict, sortNodes02 hk.1, sortNodes02 hk.2]

/-! ### the side condition of `keep_edges=True`: no stored hyperedge metadata is the bare value `None` -/

/-- no stored hyperedge metadata is the bare value `None` (then `remove_node(keep_edges=True)` would reset it to `{}`) -/
def NoNone (c : Content Key Int) : Prop := ∀ e ∈ c.edges, e.2.2 ≠ mdOf C02.metaNone

theorem argMeta_of_ne {md : C02.Meta} (h : mdOf md ≠ mdOf C02.metaNone) : C02.argMeta md = md := by
  unfold C02.argMeta
  rw [if_neg]
  intro hb
  exact h (by rw [eq_of_beq hb])

theorem mem_set02 {α β : Type} [DecidableEq α] (l : List (α × β)) (k : α) (v : β) (e : α × β)
    (h : e ∈ AL.set l k v) : e = (k, v) ∨ e ∈ l := by
  induction l with
  | nil => simp [AL.set] at h; exact .inl h
  | cons hd t ih => grind [AL.set]

theorem noNone_addEdge (c : Content Key Int) (k : Key) (w : Int) (md : Md) (h : NoNone c)
    (hmd : md ≠ mdOf C02.metaNone) : NoNone (addEdge opsD c k w md) := by
  intro e he
  unfold addEdge at he
  split at he
  · simp only [addEdgeOld] at he
    rcases mem_set02 _ _ _ _ he with rfl | h1
    · exact hmd
    · exact h e h1
  · simp only [addEdgeNew, List.mem_append, List.mem_singleton] at he
    rcases he with h1 | rfl
    · exact h e h1
    · exact hmd

theorem noNone_shrinkAdd (n : Node) (c : Content Key Int) (e : Key × (Int × Md)) (h : NoNone c)
    (hmd : e.2.2 ≠ mdOf C02.metaNone) : NoNone (shrinkAdd opsD n c e) := by
  unfold shrinkAdd
  split
  · exact h
  · exact noNone_addEdge c _ _ _ h hmd

/-- the re-insertion re-adds the metadata of an existing record -/
theorem noNone_shrinkAddK (n : Node) (c : Content Key Int) (k : Key) (h : NoNone c) : NoNone (shrinkAddK opsD n c k) := by
  unfold shrinkAddK
  split
  · exact h
  · rename_i v hv
    exact noNone_shrinkAdd n c (k, v) h (h (k, v) (al_mem_of_get? hv))

theorem noNone_removeEdge (c : Content Key Int) (k : Key) (h : NoNone c) : NoNone (removeEdge c k) :=
  fun e he => h e (AL.mem_erase_of _ _ _ he)

theorem noNone_foldl_shrinkAdd (n : Node) (l : List (Key × (Int × Md))) (c : Content Key Int) (h : NoNone c)
    (hl : ∀ e ∈ l, e.2.2 ≠ mdOf C02.metaNone) : NoNone (l.foldl (shrinkAdd opsD n) c) := by
  induction l generalizing c with
  | nil => exact h
  | cons e l ih =>
    exact ih _ (noNone_shrinkAdd n c e h (hl e List.mem_cons_self)) (fun x hx => hl x (List.mem_cons_of_mem _ hx))

theorem noNone_foldl_removeEdge (l : List (Key × (Int × Md))) (c : Content Key Int) (h : NoNone c) :
    NoNone (l.foldl (fun c e => removeEdge c e.1) c) := by
  induction l generalizing c with
  | nil => exact h
  | cons e l ih => exact ih _ (noNone_removeEdge c e.1 h)

/-- `remove_node` (either mode) keeps the side condition -/
theorem noNone_removeNode (keep : Bool) (c : Content Key Int) (n : Node) (h : NoNone c) :
    NoNone (removeNode opsD keep c n) := by
  have hinc : ∀ e ∈ incident opsD c n, e.2.2 ≠ mdOf C02.metaNone :=
    fun e he => h e ((mem_incident opsD c n e).mp he).1
  have h1 := noNone_foldl_shrinkAdd n (incident opsD c n) c h hinc
  cases keep with
  | false => exact noNone_foldl_removeEdge (incident opsD c n) _ h
  | true => exact noNone_foldl_removeEdge (incident opsD c n) _ h1

/-- the re-insertion of one incident hyperedge (its stored metadata is not the bare value `None`) -/
theorem reinsert02 (n : Node) (a : C02.Spec) (k : Key) (h : Dyn02 (ofSpec02 a)) (hnn : NoNone (ofSpec02 a))
    (hp : (get? (ofSpec02 a).edges k).isSome = true) :
    (C02.Spec.reinsert a n k).2 = .ok ∧ ofSpec02 (C02.Spec.reinsert a n k).1 = shrinkAddK opsD n (ofSpec02 a) k := by
  rw [edges02_get, Option.isSome_map] at hp
  obtain ⟨v, hv⟩ := Option.isSome_iff_exists.mp hp
  obtain ⟨w0, md0⟩ := v
  have hc : get? (ofSpec02 a).edges k = some (recOf (w0, md0)) := by rw [edges02_get, hv]; rfl
  have hmem : (k, recOf (w0, md0)) ∈ (ofSpec02 a).edges := al_mem_of_get? hc
  have hcan : CanonD k := h.canon _ hmem
  have hw : a.weighted = false → w0 = C02.one := fun hwt => h.unitw hwt _ hmem
  unfold C02.Spec.reinsert shrinkAddK
  rw [hc]
  unfold shrinkAdd
  simp only [C02.shrinkKey, filter_bne_without, opsD]
  by_cases hemp : without k.1 n = [] ∨ without k.2 n = []
  · have : ((without k.1 n).isEmpty || (without k.2 n).isEmpty) = true := by
      rcases hemp with h1 | h1 <;> simp [h1]
    simp only [this, if_true, hemp]
    exact ⟨by first | rfl | trivial, by first | rfl | trivial⟩
  · have hne : ((without k.1 n).isEmpty || (without k.2 n).isEmpty) = false := by
      have h1 : without k.1 n ≠ [] := fun e => hemp (Or.inl e)
      have h2 : without k.2 n ≠ [] := fun e => hemp (Or.inr e)
      cases hx : without k.1 n with
      | nil => exact absurd hx h1
      | cons _ _ =>
        cases hy : without k.2 n with
        | nil => exact absurd hy h2
        | cons _ _ => rfl
    simp only [hne, Bool.false_eq_true, if_false, hemp, hv]
    unfold C02.Spec.addEdge
    have hk' : C02.canonAdd (C02.RawEdge.ofKey (without k.1 n, without k.2 n)) = (without k.1 n, without k.2 n) := by
      simp only [C02.canonAdd, C02.RawEdge.ofKey, C02.Side.toList, sortNodes02 (sortedL_without hcan.1 n),
        sortNodes02 (sortedL_without hcan.2.1 n)]
    rw [hk', argMeta_of_ne (hnn _ hmem)]
    exact addEdgeKey02 a _ w0 md0 hw

/-- a verdict-threaded recursion of the spec (`reinsertAll`, `removeKeys`: `seq`, given by its two equations) is the
fold on the content when every call is accepted and is the content step -/
theorem seq02 {K : Type} (f : C02.Spec → K → C02.Spec × C02.Out) (seq : C02.Spec → List K → C02.Spec × C02.Out)
    (hnil : ∀ s, seq s [] = (s, .ok))
    (hcons : ∀ s k ks, seq s (k :: ks) = (match (f s k).2 with
      | .rej => f s k
      | .ok => seq (f s k).1 ks))
    (g : Content Key Int → K → Content Key Int) (I : Content Key Int → Prop) (P : Content Key Int → K → Prop)
    (hstep : ∀ a k, I (ofSpec02 a) → P (ofSpec02 a) k → (f a k).2 = .ok ∧ ofSpec02 (f a k).1 = g (ofSpec02 a) k)
    (hI : ∀ c k, I c → P c k → I (g c k))
    (hP : ∀ c k k', I c → P c k → k' ≠ k → P c k' → P (g c k) k') :
    ∀ (ks : List K) (a : C02.Spec), ks.Nodup → I (ofSpec02 a) → (∀ k ∈ ks, P (ofSpec02 a) k) →
      ∃ a', seq a ks = (a', .ok) ∧ ofSpec02 a' = ks.foldl g (ofSpec02 a) ∧ I (ofSpec02 a') := by
  intro ks
  induction ks with
  | nil => intro a _ hi _; exact ⟨a, hnil a, rfl, hi⟩
  | cons k ks ih =>
    intro a hnd hi hp
    simp only [List.nodup_cons] at hnd
    obtain ⟨h1, h2⟩ := hstep a k hi (hp k List.mem_cons_self)
    rw [hcons, h1]
    simp only [List.foldl_cons]
    rw [← h2]
    apply ih _ hnd.2
    · rw [h2]; exact hI _ k hi (hp k List.mem_cons_self)
    · intro k' hk'
      rw [h2]
      exact hP _ k k' hi (hp k List.mem_cons_self) (fun e => hnd.1 (e ▸ hk')) (hp k' (List.mem_cons_of_mem _ hk'))

theorem keys_filter_mapKV {α β β' : Type} (vf : β → β') (l : List (α × β)) (q : α × β' → Bool) (p : α → Bool)
    (h : ∀ x ∈ l, q (x.1, vf x.2) = p x.1) :
    ((mapKV (fun k => k) vf l).filter q).map (·.1) = (keys l).filter p := by
  induction l with
  | nil => rfl
  | cons x t ih =>
    have hx := h x List.mem_cons_self
    have ih' := ih (fun y hy => h y (List.mem_cons_of_mem _ hy))
    simp only [mapKV, keys, List.map_cons, List.filter_cons] at ih' ⊢
    rw [hx]
    split
    · simp [ih']
    · exact ih'

/-- with no node on both sides, the spec's "source incidences then target incidences" is C19's incident list -/
theorem incident02 (a : C02.Spec) (n : Node) (hcan : ∀ e ∈ (ofSpec02 a).edges, CanonD e.1) :
    (incident opsD (ofSpec02 a) n).map (·.1) = C02.Spec.incidentKeys a n := by
  unfold incident C02.Spec.incidentKeys
  rw [List.map_append]
  have hmemk : ∀ p ∈ a.edges, CanonD p.1 := by
    intro p hp
    have : (p.1, recOf p.2) ∈ (ofSpec02 a).edges := by
      simp only [ofSpec02, mapKV, List.mem_map]
      exact ⟨p, hp, rfl⟩
    exact hcan _ this
  congr 1
  · apply keys_filter_mapKV
    intro p _
    simp only [opsD, List.contains_append]
    cases k1 : p.1.1.contains n <;> simp
  · apply keys_filter_mapKV
    intro p hp
    simp only [opsD, List.contains_append]
    cases k1 : p.1.1.contains n with
    | false => simp
    | true =>
      have hn1 : n ∈ p.1.1 := by simpa using k1
      have hn2 : n ∉ p.1.2 := (hmemk p hp).2.2 n hn1
      simp [hn2]

/-- `remove_node(node, keep_edges)` of the abstract `DirectedHypergraph` is C19's `removeNode opsD`; for
`keep_edges=True`: when no stored hyperedge metadata is the bare value `None` -/
theorem removeNode02 (a : C02.Spec) (h : Dyn02 (ofSpec02 a)) (n : Node) (keep : Bool)
    (hnn : keep = true → NoNone (ofSpec02 a)) :
    ((get? a.nodes n).isSome = true →
      (C02.Spec.removeNode a n keep).2 = .ok ∧
      ofSpec02 (C02.Spec.removeNode a n keep).1 = removeNode opsD keep (ofSpec02 a) n) ∧
    ((get? a.nodes n).isSome = false → C02.Spec.removeNode a n keep = (a, .rej)) := by
  refine ⟨fun hn => ?_, fun hn => by unfold C02.Spec.removeNode AL.has; simp [hn]⟩
  have hkeys := incident02 a n h.canon
  have hesnd : (C02.Spec.incidentKeys a n).Nodup := by
    rw [← hkeys]; exact incident_keys_nodup opsD (ofSpec02 a) n h.wf.keysNodup
  have hrec := incident_rec opsD (ofSpec02 a) n h.wf.keysNodup
  have hinc_n : ∀ e ∈ incident opsD (ofSpec02 a) n, n ∈ opsD.nodesOf e.1 :=
    fun e he => ((mem_incident opsD _ n e).mp he).2
  have hes : ∀ k ∈ C02.Spec.incidentKeys a n, (get? (ofSpec02 a).edges k).isSome = true ∧ n ∈ opsD.nodesOf k := by
    intro k hk
    rw [← hkeys] at hk
    obtain ⟨e, he, rfl⟩ := List.mem_map.mp hk
    exact ⟨by rw [hrec e he]; rfl, hinc_n e he⟩
  have hphase1 : ∃ a1, (if keep = true then C02.Spec.reinsertAll a n (C02.Spec.incidentKeys a n)
        else (a, C02.Out.ok)) = (a1, .ok) ∧
      ofSpec02 a1 = (if keep = true then (incident opsD (ofSpec02 a) n).foldl (shrinkAdd opsD n) (ofSpec02 a)
        else ofSpec02 a) ∧ Dyn02 (ofSpec02 a1) := by
    cases keep with
    | false => exact ⟨a, rfl, rfl, h⟩
    | true =>
      obtain ⟨a1, e1, e2, e3⟩ := seq02 (fun s k => C02.Spec.reinsert s n k) (fun s ks => C02.Spec.reinsertAll s n ks)
        (fun _ => rfl) (fun _ _ _ => rfl) (fun c k => shrinkAddK opsD n c k) (fun c => Dyn02 c ∧ NoNone c)
        (fun c k => (get? c.edges k).isSome = true ∧ n ∈ opsD.nodesOf k)
        (fun a' k hi hp => reinsert02 n a' k hi.1 hi.2 hp.1)
        (fun c k hi _ => ⟨shrinkAddK_dyn opsD lawful_D C02.one CanonD canonShrink_D n c k hi.1,
          noNone_shrinkAddK n c k hi.2⟩)
        (fun c k k' _ _ _ hp' => ⟨by rw [shrinkAddK_get?_in opsD lawful_D n c k k' hp'.2]; exact hp'.1, hp'.2⟩)
        _ a hesnd ⟨h, hnn rfl⟩ hes
      refine ⟨a1, e1, ?_, e3.1⟩
      rw [e2, ← hkeys]
      exact foldl_shrinkAddK opsD lawful_D n _ _ hinc_n hrec
  obtain ⟨a1, p1, p2, p3⟩ := hphase1
  have hes1 : ∀ k ∈ C02.Spec.incidentKeys a n, (get? (ofSpec02 a1).edges k).isSome = true := by
    intro k hk
    rw [p2]
    cases keep with
    | false => exact (hes k hk).1
    | true =>
      simp only [if_true]
      rw [foldl_shrinkAdd_get?_in opsD lawful_D n _ _ k (hes k hk).2]
      exact (hes k hk).1
  have hsorted : ∀ k ∈ C02.Spec.incidentKeys a n, SortedL k.1 ∧ SortedL k.2 := by
    intro k hk
    obtain ⟨v, hv⟩ := Option.isSome_iff_exists.mp (hes k hk).1
    have := h.canon _ (al_mem_of_get? hv)
    exact ⟨this.1, this.2.1⟩
  obtain ⟨a2, q1, q2, q3⟩ := seq02 (fun s k => C02.Spec.removeEdge s (C02.RawEdge.ofKey k))
    (fun s ks => C02.Spec.removeKeys s ks) (fun _ => rfl) (fun _ _ _ => rfl)
    (fun c k => removeEdge c k) Dyn02
    (fun c k => (get? c.edges k).isSome = true ∧ (SortedL k.1 ∧ SortedL k.2))
    (fun a' k hi hp => by
      simp only [removeEdge02 a' k hp.2]
      exact (removeEdgeKey02 a' k).1 hp.1)
    (fun c k hi _ => removeEdge_dyn opsD C02.one CanonD c k hi)
    (fun c k k' _ _ hne hp' => ⟨by
      simp only [removeEdge]
      rw [get?_erase_ne _ _ _ (fun e => hne e.symm)]
      exact hp'.1, hp'.2⟩)
    _ a1 hesnd p3 (fun k hk => ⟨hes1 k hk, hsorted k hk⟩)
  have hres : C02.Spec.removeNode a n keep = ({ a2 with nodes := erase a2.nodes n }, .ok) := by
    unfold C02.Spec.removeNode AL.has
    simp only [hn, Bool.not_true, Bool.false_eq_true, if_false]
    rw [p1]
    simp only []
    rw [q1]
  rw [hres]
  refine ⟨rfl, ?_⟩
  have hdrop : ofSpec02 { a2 with nodes := erase a2.nodes n } = dropNode (ofSpec02 a2) n := by
    simp only [ofSpec02, dropNode]
    congr 1
    exact (erase_mapKV (fun n => n) mdOf (fun _ _ h => h) a2.nodes n).symm
  rw [hdrop, q2, ← hkeys, List.foldl_map, p2]
  unfold removeNode keepLoop
  cases keep with
  | false => rfl
  | true => rfl

/-- the corner the side condition excludes: `((1,2),(1,3))` is accepted by `add_edge`; `remove_node(1)` is then rejected
by the abstract `DirectedHypergraph` (as by the code: the second `remove_edge` of the same hyperedge raises) whereas the
content model accepts it -/
theorem overlap02_rejected :
    let a := (C02.Spec.addEdge {} (C02.RawEdge.ofLists [1, 2] [1, 3]) none none).1
    (C02.Spec.addEdge {} (C02.RawEdge.ofLists [1, 2] [1, 3]) none none).2 = .ok ∧
    (C02.Spec.removeNode a 1 false).2 = .rej ∧ (C02.Spec.removeNode a 1 true).2 = .rej ∧
    (removeNode? opsD true (ofSpec02 a) 1).isSome = true ∧ ¬ Dyn02 (ofSpec02 a) := by
  refine ⟨by decide, by decide, by decide, by decide, ?_⟩
  intro h
  have := (h.canon (([1, 2], [1, 3]), (C02.one, [])) (by decide)).2.2 1 (by decide)
  exact this (by decide)

/-! ### the concrete store -/

/-- the invariants C02 proves for every reachable `DirectedHypergraph` object -/
def Inv02 (s : C02.Store) : Prop := C02.Inv s ∧ C02.Ord s ∧ C02.Unw s

theorem dyn02_of_inv (s : C02.Store) (h : Inv02 s) : Dyn02 (ofSpec02 (C02.abs s)) := by
  obtain ⟨hi, _, hu⟩ := h
  have hmem : ∀ e ∈ (ofSpec02 (C02.abs s)).edges, ∃ k id, get? s.edgeList k = some id ∧
      e = (k, recOf ((get? s.weights id).getD 0, (get? s.emeta id).getD [])) := by
    intro e he
    simp only [ofSpec02, mapKV, C02.abs, List.map_map, List.mem_map] at he
    obtain ⟨p, hp, rfl⟩ := he
    exact ⟨p.1, p.2, al_get?_of_mem hi.nd_edge hp, rfl⟩
  refine ⟨⟨?_, ?_, ?_⟩, ?_, ?_⟩
  · apply keys_mapKV_nodup (fun n => n) mdOf (fun _ _ e => e)
    rw [C02.abs_nodes_keys]; exact hi.nd_adjS
  · apply keys_mapKV_nodup (fun k => k) recOf (fun _ _ e => e)
    rw [C02.abs_edges_keys]; exact hi.nd_edge
  · intro e he m hm
    obtain ⟨k, id, hid, rfl⟩ := hmem e he
    have hm' : m ∈ k.1 ∨ m ∈ k.2 := by simpa [opsD] using hm
    have h1 := hi.nodes_in id k (hi.rev_of_edge _ _ hid) m hm'
    simp only [ofSpec02, keys_mapKV, List.map_id', C02.abs_nodes_keys]
    exact (al_isSome_iff_mem _ _).mp h1
  · intro hw e he
    obtain ⟨k, id, hid, rfl⟩ := hmem e he
    have hw1 : (get? s.weights id).isSome := by rw [hi.weights_same]; simp [hi.rev_of_edge _ _ hid]
    obtain ⟨w0, hw0⟩ := Option.isSome_iff_exists.mp hw1
    simp only [recOf, hw0, Option.getD_some]
    exact hu hw id w0 hw0
  · intro e he
    obtain ⟨k, id, hid, rfl⟩ := hmem e he
    have hk := hi.key_wf id k (hi.rev_of_edge _ _ hid)
    exact ⟨hk.sortedS, hk.sortedT, hk.disj⟩

/-- `get_nodes(metadata=True)` / `get_edges(metadata=True)` of a `DirectedHypergraph` object -/
def view02 (s : C02.Store) : Content Key Int := ofSpec02 (C02.abs s)

def rmNode02 (keep : Bool) (s : C02.Store) (n : Node) : C02.Store × Bool :=
  ((C02.applyOp s (.removeNode n keep)).1, decide ((C02.applyOp s (.removeNode n keep)).2 = .ok))

def rmEdge02 (s : C02.Store) (k : Key) : C02.Store × Bool :=
  ((C02.applyOp s (.removeEdge (C02.RawEdge.ofKey k))).1,
   decide ((C02.applyOp s (.removeEdge (C02.RawEdge.ofKey k))).2 = .ok))

theorem inv02_applyOp (s : C02.Store) (op : C02.Op) (ho : op.WF) (h : Inv02 s) : Inv02 (C02.applyOp s op).1 :=
  ⟨C02.applyOp_inv s op ho h.1, C02.applyOp_ord s op ho h.1 h.2.1, C02.applyOp_unw s op h.1 h.2.1 h.2.2⟩

theorem rmNode02_link (keep : Bool) (s : C02.Store) (n : Node) (h : Inv02 s)
    (hnn : keep = true → NoNone (view02 s)) :
    ((rmNode02 keep s n).2 = true ↔ (removeNode? opsD keep (view02 s) n).isSome) ∧
    ((rmNode02 keep s n).2 = true → Inv02 (rmNode02 keep s n).1 ∧
      view02 (rmNode02 keep s n).1 = removeNode opsD keep (view02 s) n) := by
  obtain ⟨s1, s2⟩ := C02.abs_applyOp s (.removeNode n keep) trivial h.1 h.2.1
  have s3 := inv02_applyOp s (.removeNode n keep) trivial h
  obtain ⟨l1, l2⟩ := removeNode02 (C02.abs s) (dyn02_of_inv s h) n keep hnn
  have hpres : (get? (view02 s).nodes n).isSome = (get? (C02.abs s).nodes n).isSome := by
    simp only [view02, nodes02_get, Option.isSome_map]
  simp only [rmNode02, view02, removeNode?, decide_eq_true_eq]
  rw [s1, s2]
  simp only [C02.Spec.applyOp]
  by_cases hn : (get? (C02.abs s).nodes n).isSome = true
  · have hn' : (get? (ofSpec02 (C02.abs s)).nodes n).isSome = true := by rw [← hn]; exact hpres
    obtain ⟨a1, a2⟩ := l1 hn
    simp only [hn', if_true, Option.isSome_some, a1, true_iff, forall_const]
    exact ⟨trivial, s3, a2⟩
  · have hnf : (get? (C02.abs s).nodes n).isSome = false := by simpa using hn
    have hn' : (get? (ofSpec02 (C02.abs s)).nodes n).isSome = false := by rw [← hnf]; exact hpres
    rw [l2 hnf]
    simp [hn']

theorem rmEdge02_link (s : C02.Store) (k : Key) (h : Inv02 s) (hk : CanonD k) :
    ((rmEdge02 s k).2 = true ↔ (removeEdge? (view02 s) k).isSome) ∧
    ((rmEdge02 s k).2 = true → Inv02 (rmEdge02 s k).1 ∧ view02 (rmEdge02 s k).1 = removeEdge (view02 s) k) := by
  obtain ⟨s1, s2⟩ := C02.abs_applyOp s (.removeEdge (C02.RawEdge.ofKey k)) trivial h.1 h.2.1
  have s3 := inv02_applyOp s (.removeEdge (C02.RawEdge.ofKey k)) trivial h
  obtain ⟨l1, l2⟩ := removeEdgeKey02 (C02.abs s) k
  simp only [rmEdge02, view02, removeEdge?, decide_eq_true_eq]
  rw [s1, s2]
  simp only [C02.Spec.applyOp, removeEdge02 _ k ⟨hk.1, hk.2.1⟩]
  by_cases hp : (get? (ofSpec02 (C02.abs s)).edges k).isSome = true
  · obtain ⟨a1, a2⟩ := l1 hp
    simp only [hp, if_true, Option.isSome_some, a1, true_iff, forall_const]
    exact ⟨trivial, s3, a2⟩
  · have hp' : (get? (ofSpec02 (C02.abs s)).edges k).isSome = false := by simpa using hp
    rw [l2 hp']
    simp [hp']

/-- the corner the side condition `NoNone` excludes: `set_edge_metadata(((1,2),(3)), None)` stores the bare value `None`;
`remove_node(2, keep_edges=True)` then re-inserts `((1),(3))` with `add_edge(.., metadata=None)`, i.e. with `{}` (the
object, as the code), whereas the content model of C19 carries the stored value over.  With `keep_edges=False` (no
re-insertion) the two agree on that state. -/
theorem noneMeta02_differs :
    let s := C02.run {} [.addEdge (.ofLists [1, 2] [3]) none none, .setEdgeMeta (.ofLists [1, 2] [3]) C02.metaNone]
    (view02 s).edges = [(([1, 2], [3]), (C02.one, mdOf C02.metaNone))] ∧ ¬ NoNone (view02 s) ∧
    (rmNode02 true s 2).2 = true ∧
    (view02 (rmNode02 true s 2).1).edges = [(([1], [3]), (C02.one, []))] ∧
    (removeNode opsD true (view02 s) 2).edges = [(([1], [3]), (C02.one, mdOf C02.metaNone))] ∧
    (view02 (rmNode02 false s 2).1).edges = (removeNode opsD false (view02 s) 2).edges := by
  refine ⟨by decide, ?_, by decide, by decide, by decide, by decide⟩
  intro h
  exact h (([1, 2], [3]), (C02.one, mdOf C02.metaNone)) (by decide) rfl

/-- **`filter_hypergraph` on a `DirectedHypergraph` object** (same statement as `filter01`; for `keep_edges=True` under
the side condition that no stored hyperedge metadata is the bare value `None`, which also holds afterwards). -/
theorem filter02 (s : C02.Store) (h : Inv02 s) (nc ec : Option Crit) (mode : Mode) (keep : Bool)
    (hnn : keep = true → NoNone (view02 s)) :
    let r := filterVia view02 (rmNode02 keep) rmEdge02 s nc ec mode
    r.2 = true ∧ Inv02 r.1 ∧ view02 r.1 = filterHg opsD (view02 s) nc ec mode keep ∧
      (keep = true → NoNone (view02 r.1)) := by
  have := filterVia_eq opsD lawful_D keep view02 (rmNode02 keep) rmEdge02
    (fun s => Inv02 s ∧ (keep = true → NoNone (view02 s))) CanonD
    (fun s hs => (dyn02_of_inv s hs.1).wf) (fun s hs => (dyn02_of_inv s hs.1).canon)
    (fun s n hs => by
      obtain ⟨l1, l2⟩ := rmNode02_link keep s n hs.1 hs.2
      refine ⟨l1, fun hacc => ⟨⟨(l2 hacc).1, fun hk => ?_⟩, (l2 hacc).2⟩⟩
      rw [(l2 hacc).2]
      exact noNone_removeNode keep _ n (hs.2 hk))
    (fun s k hs hk => by
      obtain ⟨l1, l2⟩ := rmEdge02_link s k hs.1 hk
      refine ⟨l1, fun hacc => ⟨⟨(l2 hacc).1, fun hk' => ?_⟩, (l2 hacc).2⟩⟩
      rw [(l2 hacc).2]
      exact noNone_removeEdge _ k (hs.2 hk'))
    s ⟨h, hnn⟩ nc ec mode
  exact ⟨this.1, this.2.1.1, this.2.2, this.2.1.2⟩

end C19
