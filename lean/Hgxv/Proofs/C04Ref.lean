import Hgxv.Proofs.C04Inv
/-! C04 - refinement: the abstraction `abs : Store → Spec` commutes with every operation, and every query of
the store is the query of its abstraction. Core Lean only. -/
namespace C04
open AL

/-- the `(weight, metadata)` entry of record `id` -/
def entryOf (s : Store) (id : Nat) : Int × Meta := ((get? s.weights id).getD one, (get? s.emeta id).getD [])

theorem abs_edges (s : Store) : (abs s).edges = mapVal (fun _ id => entryOf s id) s.edgeList := rfl

theorem Spec.ext' {a b : Spec} (h1 : a.weighted = b.weighted) (h2 : a.nodes = b.nodes) (h3 : a.edges = b.edges)
    (h4 : a.hmeta = b.hmeta) (h5 : a.layers = b.layers) : a = b := by
  cases a; cases b; simp at *; exact ⟨h1, h2, h3, h4, h5⟩

theorem abs_get? (s : Store) (k : Key) : get? (abs s).edges k = (get? s.edgeList k).map (entryOf s) := by
  rw [abs_edges, get?_mapVal]

/-! ## nodes -/

theorem abs_addNode (s : Store) (n : Node) (md : Option Meta) (h : NM s) :
    abs (addNode s n md) = Spec.addNode (abs s) n md := by
  obtain ⟨f1, f2, f3, f4, f5, f6, f7, f8⟩ := addNode_fields s n md
  have hn := addNode_nmeta s n md (h.adj_nm n)
  apply Spec.ext'
  · simp only [abs, f6]; unfold Spec.addNode; split <;> rfl
  · simp only [abs]; rw [hn]; unfold Spec.addNode; simp only []
    split <;> simp_all
  · simp only [abs_edges, entryOf, f1, f3, f4]; unfold Spec.addNode; split <;> rfl
  · simp only [abs, f7]; unfold Spec.addNode; split <;> rfl
  · simp only [abs, f8]; unfold Spec.addNode; split <;> rfl

theorem abs_foldl_addNode (f : Node → Option Meta) (ns : List Node) (s : Store) (h : NM s) :
    abs (ns.foldl (fun s n => addNode s n (f n)) s) = ns.foldl (fun sp n => Spec.addNode sp n (f n)) (abs s) := by
  induction ns generalizing s with
  | nil => rfl
  | cons n ns ih =>
    simp only [List.foldl_cons]
    rw [ih _ (addNode_NM s n _ h), abs_addNode s n _ h]

theorem abs_addNodes (s : Store) (ns : List Node) (mds : Option (List (Node × Meta))) (h : NM s) :
    abs (addNodes s ns mds).1 = (Spec.addNodes (abs s) ns mds).1 ∧ (addNodes s ns mds).2 = (Spec.addNodes (abs s) ns mds).2 := by
  unfold addNodes Spec.addNodes
  cases mds with
  | none => exact ⟨abs_foldl_addNode (fun _ => none) ns s h, rfl⟩
  | some d =>
    simp only []
    by_cases hc : (ns.all fun n => (get? d n).isSome) = true
    · rw [if_pos hc, if_pos hc]
      exact ⟨abs_foldl_addNode (fun n => get? d n) ns s h, rfl⟩
    · rw [if_neg hc, if_neg hc]
      exact ⟨rfl, rfl⟩

theorem touchNodes_eq_foldl (s : Store) (ns : List Node) : touchNodes s ns = ns.foldl (fun s n => addNode s n none) s := by
  induction ns generalizing s with
  | nil => rfl
  | cons n ns ih => simp only [touchNodes, List.foldl_cons]; exact ih _

theorem abs_touchNodes (s : Store) (ns : List Node) (h : NM s) : abs (touchNodes s ns) = Spec.touchNodes (abs s) ns := by
  rw [touchNodes_eq_foldl]; exact abs_foldl_addNode (fun _ => none) ns s h

/-! ## insertion -/

theorem abs_linkAll (s : Store) (id : Nat) (ns : List Node) : abs (linkAll s id ns) = abs s := rfl

theorem abs_allocRecord (s : Store) (k : Key) (w : Int) (md : Meta) (h : IdInv s) (hk : get? s.edgeList k = none) :
    abs (allocRecord s k w md) = { abs s with edges := AL.set (abs s).edges k (w, md) } := by
  apply Spec.ext' <;> try rfl
  simp only [abs_edges]
  have := set_mapVal_new (fun _ id => entryOf s id) (fun _ id => entryOf (allocRecord s k w md) id) s.edgeList k s.nextId hk
    (by
      intro p hp
      have hlt := h.el_lt p hp
      have hne : s.nextId ≠ p.2 := by omega
      simp only [entryOf, allocRecord, get?_set, hne, if_false])
  simp only [entryOf, allocRecord, get?_set_self, Option.getD_some] at this ⊢
  exact this.symm

theorem abs_bumpRecord (s : Store) (k : Key) (id : Nat) (w : Int) (md : Meta) (h : IdInv s)
    (hk : get? s.edgeList k = some id) :
    abs (bumpRecord s id w md) =
      { abs s with edges := AL.set (abs s).edges k (Spec.mergeEntry s.weighted (get? (abs s).edges k) w md) } := by
  apply Spec.ext' <;> try rfl
  have hrev := h.rev_of_edge _ _ hk
  have hw : (get? s.weights id).isSome := (h.w_some id).mpr (by simp [hrev])
  obtain ⟨w0, hw0⟩ := Option.isSome_iff_exists.mp hw
  simp only [abs_edges]
  symm
  apply set_mapVal_old _ _ _ _ _ h.el_nodup
  · refine ⟨id, hk, ?_⟩
    rw [get?_mapVal, hk]
    simp only [Option.map_some, Spec.mergeEntry, entryOf, bumpRecord, hw0, Option.getD_some, get?_set_self]
    cases hwt : s.weighted <;> simp [hw0]
  · intro p hp hne
    have hpe := get?_of_mem _ _ _ h.el_nodup hp
    have hne2 : id ≠ p.2 := by
      intro he
      have h1 := h.rev_of_edge _ _ hpe
      rw [← he, hrev] at h1
      cases h1; exact hne rfl
    simp only [entryOf, bumpRecord, get?_set, hne2, if_false]
    cases s.weighted <;> simp [get?_set, hne2]

theorem abs_withLayer (s : Store) (l : Layer) :
    abs { s with layers := addLayer s.layers l } = { abs s with layers := addLayer (abs s).layers l } := rfl

theorem abs_addEdgeNew (s : Store) (k : Key) (w : Int) (md : Meta) (h : Inv s) (hk : get? s.edgeList k = none) :
    abs (addEdgeNew s k w md) = Spec.touchNodes { abs s with edges := AL.set (abs s).edges k (w, md) } k.1 := by
  have hnm : NM (allocRecord s k w md) := h.nm.of_eq (fun _ => rfl) rfl
  simp only [addEdgeNew, abs_linkAll]
  rw [abs_touchNodes _ _ hnm, abs_allocRecord _ _ _ _ h.id hk]

theorem abs_addEdgeOld (s : Store) (k : Key) (id : Nat) (w : Int) (md : Meta) (h : Inv s)
    (hk : get? s.edgeList k = some id) :
    abs (addEdgeOld s k id w md) =
      Spec.touchNodes { abs s with edges := AL.set (abs s).edges k (Spec.mergeEntry s.weighted (get? (abs s).edges k) w md) } k.1 := by
  have hnm : NM (bumpRecord s id w md) := h.nm.of_eq (fun _ => rfl) rfl
  simp only [addEdgeOld]
  rw [abs_touchNodes _ _ hnm, abs_bumpRecord _ _ _ _ _ h.id hk]

theorem abs_addEdgeCore (s : Store) (raw : List Node) (l : Layer) (w : Int) (md : Meta) (h : Inv s) :
    abs (addEdgeCore s raw l w md) = Spec.addEdgeCore (abs s) raw l w md := by
  unfold addEdgeCore Spec.addEdgeCore
  have h0 := withLayer_inv s l h
  split
  · rename_i hk
    rw [abs_addEdgeNew _ _ _ _ h0 hk]
    congr 1
    apply Spec.ext' <;> try rfl
    simp only [abs_withLayer]
    rw [abs_get?, hk]
    rfl
  · rename_i id hk
    rw [abs_addEdgeOld _ _ _ _ _ h0 hk]
    rfl

theorem abs_addEdge (s : Store) (raw : List Node) (l : Layer) (w : Option Int) (md : Option Meta) (h : Inv s) :
    abs (addEdge s raw l w md).1 = (Spec.addEdge (abs s) raw l w md).1 ∧
    (addEdge s raw l w md).2 = (Spec.addEdge (abs s) raw l w md).2 := by
  unfold addEdge Spec.addEdge
  have : (abs s).weighted = s.weighted := rfl
  rw [this]
  by_cases hc : (!s.weighted && w.getD one != one) = true
  · rw [if_pos hc, if_pos hc]; exact ⟨rfl, rfl⟩
  · rw [if_neg hc, if_neg hc]; exact ⟨abs_addEdgeCore s raw l _ _ h, rfl⟩

theorem abs_addEdgesLoop (s : Store) (es : List (List Node × Layer)) (ws : List (Option Int)) (mds : List (Option Meta))
    (h : Inv s) (hes : ∀ p ∈ es, p.1.Nodup) :
    abs (addEdgesLoop s es ws mds) = Spec.addEdgesLoop (abs s) es ws mds := by
  induction es generalizing s ws mds with
  | nil => unfold addEdgesLoop Spec.addEdgesLoop; rfl
  | cons p es ih =>
    obtain ⟨raw, l⟩ := p
    cases ws with
    | nil => unfold addEdgesLoop Spec.addEdgesLoop; rfl
    | cons w ws =>
      cases mds with
      | nil => unfold addEdgesLoop Spec.addEdgesLoop; rfl
      | cons md mds =>
        unfold addEdgesLoop Spec.addEdgesLoop
        rw [ih _ _ _ (addEdge_inv s raw l w md h (hes (raw, l) List.mem_cons_self))
          (fun p hp => hes p (List.mem_cons_of_mem _ hp)), (abs_addEdge s raw l w md h).1]

theorem abs_addEdges (s : Store) (raws : List (List Node)) (ls : List Layer) (ws : Option (List Int))
    (mds : Option (List Meta)) (h : Inv s) (hr : ∀ r ∈ raws, r.Nodup) :
    abs (addEdges s raws ls ws mds).1 = (Spec.addEdges (abs s) raws ls ws mds).1 ∧
    (addEdges s raws ls ws mds).2 = (Spec.addEdges (abs s) raws ls ws mds).2 := by
  unfold addEdges Spec.addEdges
  simp only []
  by_cases h1 : ls.length < raws.length
  · rw [if_pos h1, if_pos h1]; exact ⟨rfl, rfl⟩
  · rw [if_neg h1, if_neg h1]
    by_cases h2 : (!mdsLenOK mds raws.length) = true
    · rw [if_pos h2, if_pos h2]; exact ⟨rfl, rfl⟩
    · rw [if_neg h2, if_neg h2]
      cases ws with
      | none => exact ⟨abs_addEdgesLoop _ _ _ _ h (zip_fst_nodup raws ls hr), rfl⟩
      | some wl =>
        simp only []
        by_cases h3 : ¬ (raws.zip ls).Nodup
        · rw [if_pos h3, if_pos h3]; exact ⟨rfl, rfl⟩
        · rw [if_neg h3, if_neg h3]
          by_cases h4 : wl.length ≠ raws.length
          · rw [if_pos h4, if_pos h4]; exact ⟨rfl, rfl⟩
          · rw [if_neg h4, if_neg h4]
            exact ⟨abs_addEdgesLoop _ _ _ _ (weighted_true_inv s h) (zip_fst_nodup raws ls hr), rfl⟩

/-! ## removal of a record -/

theorem abs_removeKey (s : Store) (k : Key) (id : Nat) (h : IdInv s) (hk : get? s.edgeList k = some id) :
    abs (removeKey s k id) = Spec.dropKey (abs s) k := by
  apply Spec.ext' <;> try rfl
  have hrev := h.rev_of_edge _ _ hk
  simp only [Spec.dropKey, abs_edges, del_mapVal]
  simp only [removeKey]
  apply mapVal_congr
  intro p hp
  have hp' : p ∈ s.edgeList := (List.mem_filter.mp hp).1
  have hne : p.1 ≠ k := by simpa using (List.mem_filter.mp hp).2
  have hpe := get?_of_mem _ _ _ h.el_nodup hp'
  have hne2 : p.2 ≠ id := by
    intro he
    have h1 := h.rev_of_edge _ _ hpe
    rw [he, hrev] at h1
    cases h1; exact hne rfl
  simp only [entryOf, get?_del, hne2, if_false]

theorem abs_removeEdge (s : Store) (raw : List Node) (l : Layer) (h : Inv s) :
    abs (removeEdge s raw l).1 = (Spec.removeEdge (abs s) raw l).1 ∧
    (removeEdge s raw l).2 = (Spec.removeEdge (abs s) raw l).2 := by
  unfold removeEdge Spec.removeEdge
  rw [abs_get?]
  cases hk : get? s.edgeList (canon raw, l) with
  | none => simp
  | some id =>
    simp only [Option.map_some, Option.isSome_some, if_true]
    exact ⟨abs_removeKey s _ id h.id hk, by first | rfl | trivial⟩

/-! ## weights and metadata -/

theorem abs_setWeight (s : Store) (raw : List Node) (l : Layer) (w : Int) (h : Inv s) :
    abs (setWeight s raw l w).1 = (Spec.setWeight (abs s) raw l w).1 ∧
    (setWeight s raw l w).2 = (Spec.setWeight (abs s) raw l w).2 := by
  unfold setWeight Spec.setWeight
  have : (abs s).weighted = s.weighted := rfl
  rw [this]
  by_cases hc : (!s.weighted && w != one) = true
  · rw [if_pos hc, if_pos hc]; exact ⟨rfl, rfl⟩
  · rw [if_neg hc, if_neg hc, abs_get?]
    cases hk : get? s.edgeList (canon raw, l) with
    | none => simp
    | some id =>
      simp only [Option.map_some]
      refine ⟨?_, by first | rfl | trivial⟩
      apply Spec.ext' <;> try rfl
      simp only [abs_edges]
      symm
      apply set_mapVal_old _ _ _ _ _ h.id.el_nodup
      · exact ⟨id, hk, by simp [entryOf, get?_set_self]⟩
      · intro p hp hne
        have hpe := get?_of_mem _ _ _ h.id.el_nodup hp
        have hrev := h.id.rev_of_edge _ _ hk
        have hne2 : id ≠ p.2 := by
          intro he
          have h1 := h.id.rev_of_edge _ _ hpe
          rw [← he, hrev] at h1
          exact hne (Option.some.inj h1).symm
        simp only [entryOf, get?_set, hne2, if_false]

/-- replacing the metadata of record `id` (key `k`) -/
theorem abs_emeta_set (s : Store) (k : Key) (id : Nat) (md : Meta) (h : Inv s) (hk : get? s.edgeList k = some id) :
    abs { s with emeta := AL.set s.emeta id md } =
      { abs s with edges := AL.set (abs s).edges k ((entryOf s id).1, md) } := by
  apply Spec.ext' <;> try rfl
  simp only [abs_edges]
  symm
  apply set_mapVal_old _ _ _ _ _ h.id.el_nodup
  · exact ⟨id, hk, by simp [entryOf, get?_set_self]⟩
  · intro p hp hne
    have hpe := get?_of_mem _ _ _ h.id.el_nodup hp
    have hrev := h.id.rev_of_edge _ _ hk
    have hne2 : id ≠ p.2 := by
      intro he
      have h1 := h.id.rev_of_edge _ _ hpe
      rw [← he, hrev] at h1
      cases h1; exact hne rfl
    simp only [entryOf, get?_set, hne2, if_false]

theorem emeta_of_edge (s : Store) (k : Key) (id : Nat) (h : Inv s) (hk : get? s.edgeList k = some id) :
    ∃ md, get? s.emeta id = some md ∧ (entryOf s id).2 = md := by
  have hrev := h.id.rev_of_edge _ _ hk
  have : (get? s.emeta id).isSome := (h.id.em_some id).mpr (by simp [hrev])
  obtain ⟨md, hmd⟩ := Option.isSome_iff_exists.mp this
  exact ⟨md, hmd, by simp [entryOf, hmd]⟩

theorem abs_setAttrEdge (s : Store) (raw : List Node) (l : Layer) (k v : Nat) (h : Inv s) :
    abs (setAttrEdge s raw l k v).1 = (Spec.setAttrEdge (abs s) raw l k v).1 ∧
    (setAttrEdge s raw l k v).2 = (Spec.setAttrEdge (abs s) raw l k v).2 := by
  unfold setAttrEdge Spec.setAttrEdge
  rw [abs_get?]
  cases hk : get? s.edgeList (canon raw, l) with
  | none => simp
  | some id =>
    obtain ⟨md, hmd, he⟩ := emeta_of_edge s _ id h hk
    simp only [Option.map_some, hmd]
    refine ⟨?_, by first | rfl | trivial⟩
    rw [abs_emeta_set s _ id _ h hk, ← he]

theorem abs_delAttrEdge (s : Store) (raw : List Node) (l : Layer) (k : Nat) (h : Inv s) :
    abs (delAttrEdge s raw l k).1 = (Spec.delAttrEdge (abs s) raw l k).1 ∧
    (delAttrEdge s raw l k).2 = (Spec.delAttrEdge (abs s) raw l k).2 := by
  unfold delAttrEdge Spec.delAttrEdge
  rw [abs_get?]
  cases hk : get? s.edgeList (canon raw, l) with
  | none => simp
  | some id =>
    obtain ⟨md, hmd, he⟩ := emeta_of_edge s _ id h hk
    simp only [Option.map_some, hmd, he]
    by_cases hc : (get? md k).isSome = true
    · rw [if_pos hc, if_pos hc]
      refine ⟨?_, rfl⟩
      rw [abs_emeta_set s _ id _ h hk]
    · rw [if_neg hc, if_neg hc]; exact ⟨rfl, rfl⟩

theorem abs_setAttrNode (s : Store) (n : Node) (k v : Nat) :
    abs (setAttrNode s n k v).1 = (Spec.setAttrNode (abs s) n k v).1 ∧
    (setAttrNode s n k v).2 = (Spec.setAttrNode (abs s) n k v).2 := by
  unfold setAttrNode Spec.setAttrNode
  have : (abs s).nodes = s.nmeta := rfl
  rw [this]
  cases get? s.nmeta n with
  | none => exact ⟨rfl, rfl⟩
  | some md => exact ⟨rfl, rfl⟩

theorem abs_delAttrNode (s : Store) (n : Node) (k : Nat) :
    abs (delAttrNode s n k).1 = (Spec.delAttrNode (abs s) n k).1 ∧
    (delAttrNode s n k).2 = (Spec.delAttrNode (abs s) n k).2 := by
  unfold delAttrNode Spec.delAttrNode
  have : (abs s).nodes = s.nmeta := rfl
  rw [this]
  cases get? s.nmeta n with
  | none => exact ⟨rfl, rfl⟩
  | some md =>
    simp only []
    by_cases hc : (get? md k).isSome = true
    · rw [if_pos hc, if_pos hc]; exact ⟨rfl, rfl⟩
    · rw [if_neg hc, if_neg hc]; exact ⟨rfl, rfl⟩

/-! ## remove_node -/

theorem removeStored_eq (s : Store) (e : Edge) (l : Layer) (id : Nat) (h : Inv s) (hr : get? s.rev id = some (e, l)) :
    (removeEdge s e l).1 = removeKey s (e, l) id := by
  have hc : canon e = e := (h.id.key_sorted _ _ hr).canon
  have hk := h.id.edge_of_rev _ _ hr
  unfold removeEdge
  rw [hc]; simp only [hk]

theorem abs_dropRecord (s : Store) (id : Nat) (k : Key) (h : Inv s) (hr : get? s.rev id = some k) :
    abs (dropRecord s id) = Spec.dropKey (abs s) k := by
  obtain ⟨e, l⟩ := k
  unfold dropRecord
  simp only [hr]
  rw [removeStored_eq s e l id h hr]
  exact abs_removeKey s _ id h.id (h.id.edge_of_rev _ _ hr)

theorem abs_shrinkRecord (s : Store) (n : Node) (id : Nat) (k : Key) (h : Inv s) (hr : get? s.rev id = some k) :
    abs (shrinkRecord s n id) = Spec.shrinkKey (abs s) n k := by
  obtain ⟨e, l⟩ := k
  have hk := h.id.edge_of_rev _ _ hr
  unfold shrinkRecord Spec.shrinkKey
  simp only [hr]
  rw [abs_get?, hk]
  simp only [Option.map_some, entryOf]
  rw [removeStored_eq s e l id h hr]
  have h1 : Inv (removeKey s (e, l) id) := removeKey_inv s _ id h hk
  have ha := abs_removeKey s (e, l) id h.id hk
  by_cases hc : (List.filter (fun x => decide (x ≠ n)) e).isEmpty = true
  · rw [if_pos hc, if_pos hc]; exact ha
  · rw [if_neg hc, if_neg hc, (abs_addEdge _ _ _ _ _ h1).1, ha]

theorem addEdge_rev_mono (s : Store) (raw : List Node) (l : Layer) (w : Option Int) (md : Option Meta) (id : Nat) (k : Key)
    (h : Inv s) (hg : get? s.rev id = some k) : get? (addEdge s raw l w md).1.rev id = some k := by
  unfold addEdge
  split
  · exact hg
  · unfold addEdgeCore
    split
    · rw [(addEdgeNew_fields _ _ _ _).2.1]
      simp only [allocRecord, get?_set]
      have := h.id.id_lt _ _ hg
      have hne : s.nextId ≠ id := by omega
      simp only [hne, if_false]; exact hg
    · simp only [addEdgeOld]
      rw [(touchNodes_fields _ _).2.1]
      exact hg

theorem dropRecord_rev_other (s : Store) (id id' : Nat) (k' : Key) (h : Inv s) (hne : id' ≠ id)
    (hg : get? s.rev id' = some k') : get? (dropRecord s id).rev id' = some k' := by
  unfold dropRecord
  split
  · exact hg
  · rename_i e l hr
    rw [removeStored_rev s e l id h hr, get?_del]
    simp only [hne, if_false]; exact hg

theorem shrinkRecord_rev_other (s : Store) (n : Node) (id id' : Nat) (k' : Key) (h : Inv s) (hne : id' ≠ id)
    (hg : get? s.rev id' = some k') : get? (shrinkRecord s n id).rev id' = some k' := by
  unfold shrinkRecord
  split
  · exact hg
  · rename_i e l hr
    have h1 : get? (removeEdge s e l).1.rev id' = some k' := by
      rw [removeStored_rev s e l id h hr, get?_del]
      simp only [hne, if_false]; exact hg
    simp only []
    split
    · exact h1
    · exact addEdge_rev_mono _ _ _ _ _ _ _ (removeEdge_inv s e l h) h1

theorem abs_removeLoop (n : Node) (keep : Bool) (ps : List (Nat × Key)) (s : Store) (h : Inv s)
    (hps : ∀ p ∈ ps, get? s.rev p.1 = some p.2) (hnd : (ps.map (·.1)).Nodup) :
    abs ((ps.map (·.1)).foldl (fun s id => if keep then shrinkRecord s n id else dropRecord s id) s) =
      (ps.map (·.2)).foldl (fun sp k => if keep then Spec.shrinkKey sp n k else Spec.dropKey sp k) (abs s) := by
  induction ps generalizing s with
  | nil => rfl
  | cons p ps ih =>
    obtain ⟨id, k⟩ := p
    simp only [List.map_cons, List.foldl_cons]
    have hr : get? s.rev id = some k := hps (id, k) List.mem_cons_self
    have hnd' := List.nodup_cons.mp hnd
    cases keep with
    | true =>
      simp only [if_true]
      rw [← abs_shrinkRecord s n id k h hr]
      apply ih _ (shrinkRecord_inv s n id h)
      · intro p hp
        have hne : p.1 ≠ id := by
          intro he; apply hnd'.1; rw [← he]; exact List.mem_map.mpr ⟨p, hp, rfl⟩
        exact shrinkRecord_rev_other s n id p.1 p.2 h hne (hps p (List.mem_cons_of_mem _ hp))
      · exact hnd'.2
    | false =>
      simp only [Bool.false_eq_true, if_false]
      rw [← abs_dropRecord s id k h hr]
      apply ih _ (dropRecord_inv s id h)
      · intro p hp
        have hne : p.1 ≠ id := by
          intro he; apply hnd'.1; rw [← he]; exact List.mem_map.mpr ⟨p, hp, rfl⟩
        exact dropRecord_rev_other s id p.1 p.2 h hne (hps p (List.mem_cons_of_mem _ hp))
      · exact hnd'.2

/-- strictly increasing lists with the same members are equal -/
theorem sorted_ext (l1 l2 : List Nat) (h1 : l1.Pairwise (· < ·)) (h2 : l2.Pairwise (· < ·)) (h : ∀ a, a ∈ l1 ↔ a ∈ l2) :
    l1 = l2 := by
  have n1 : l1.Nodup := h1.imp (fun hab => Nat.ne_of_lt hab)
  have n2 : l2.Nodup := h2.imp (fun hab => Nat.ne_of_lt hab)
  exact List.Perm.eq_of_pairwise (le := (· < ·)) (fun a b _ _ hab hba => by omega) h1 h2
    ((List.perm_ext_iff_of_nodup n1 n2).mpr h)

/-- the ids in `_adj[n]` are exactly the ids of the records containing `n`, in the order of `_edge_list` -/
theorem adj_eq_filter (s : Store) (n : Node) (ids : List Nat) (h : Inv s) (hg : get? s.adj n = some ids) :
    ids = (s.edgeList.filter (fun p => decide (n ∈ p.1.1))).map (·.2) := by
  apply sorted_ext _ _ (h.adj.adj_sorted n ids hg)
  · exact h.id.el_sorted.sublist ((List.filter_sublist).map _)
  · intro id
    rw [h.adj.adj_iff n ids hg id]
    simp only [List.mem_map, List.mem_filter, decide_eq_true_eq]
    constructor
    · rintro ⟨k, hk, hn⟩
      exact ⟨(k, id), ⟨mem_of_get? _ _ _ (h.id.edge_of_rev _ _ hk), hn⟩, rfl⟩
    · rintro ⟨p, ⟨hp, hn⟩, rfl⟩
      exact ⟨p.1, h.id.rev_of_edge _ _ (get?_of_mem _ _ _ h.id.el_nodup hp), hn⟩

theorem foldl_dropKey (ks : List Key) (sp : Spec) :
    ks.foldl (fun sp k => Spec.dropKey sp k) sp = { sp with edges := sp.edges.filter (fun r => !decide (r.1 ∈ ks)) } := by
  induction ks generalizing sp with
  | nil =>
    cases sp; simp only [List.foldl_nil, List.not_mem_nil, decide_false, Bool.not_false]
    congr 1; exact (List.filter_eq_self.mpr (fun _ _ => rfl)).symm
  | cons k ks ih =>
    simp only [List.foldl_cons]
    rw [ih]
    simp only [Spec.dropKey, del, List.filter_filter]
    congr 1
    apply List.filter_congr
    intro r _
    simp only [List.mem_cons]
    by_cases h1 : r.1 = k <;> by_cases h2 : r.1 ∈ ks <;> simp [h1, h2]

theorem abs_removeNode (s : Store) (n : Node) (keep : Bool) (h : Inv s) :
    abs (removeNode s n keep).1 = (Spec.removeNode (abs s) n keep).1 ∧
    (removeNode s n keep).2 = (Spec.removeNode (abs s) n keep).2 := by
  unfold removeNode Spec.removeNode
  have hn : (get? (abs s).nodes n).isSome = (get? s.adj n).isSome := by
    have := h.nm.adj_nm n
    show (get? s.nmeta n).isSome = _
    cases h1 : (get? s.nmeta n).isSome <;> cases h2 : (get? s.adj n).isSome <;> simp_all
  rw [hn]
  cases hg : get? s.adj n with
  | none => simp
  | some ids =>
    simp only [Option.isSome_some, if_true]
    refine ⟨?_, by first | rfl | trivial⟩
    -- the parallel list of (id, key) pairs
    have hids := adj_eq_filter s n ids h hg
    let ps : List (Nat × Key) := (s.edgeList.filter (fun p => decide (n ∈ p.1.1))).map (fun p => (p.2, p.1))
    have hps1 : ps.map (·.1) = ids := by rw [hids]; simp [ps, List.map_map]
    have hps2 : ps.map (·.2) = (keys (abs s).edges).filter (fun k => decide (n ∈ k.1)) := by
      rw [abs_edges, keys_mapVal]
      simp only [ps, List.map_map, keys, List.filter_map]
      rfl
    have hrev : ∀ p ∈ ps, get? s.rev p.1 = some p.2 := by
      intro p hp
      obtain ⟨q, hq, rfl⟩ := List.mem_map.mp hp
      exact h.id.rev_of_edge _ _ (get?_of_mem _ _ _ h.id.el_nodup (List.mem_filter.mp hq).1)
    have hnd : (ps.map (·.1)).Nodup := by
      rw [hps1]; exact (h.adj.adj_sorted n ids hg).imp (fun hab => Nat.ne_of_lt hab)
    have hloop := abs_removeLoop n keep ps s h hrev hnd
    rw [hps1, hps2] at hloop
    have hfin : ∀ (s1 : Store), abs { s1 with adj := del s1.adj n, nmeta := del s1.nmeta n } = Spec.dropNode (abs s1) n :=
      fun _ => rfl
    rw [hfin, hloop]
    cases keep with
    | true => simp only [if_true]
    | false =>
      simp only [Bool.false_eq_true, if_false]
      rw [foldl_dropKey]
      congr 2
      apply List.filter_congr
      intro r hr
      have : r.1 ∈ keys (abs s).edges := List.mem_map.mpr ⟨r, hr, rfl⟩
      simp only [List.mem_filter, this, true_and, decide_eq_true_eq]

/-! ## one step, every history -/

theorem abs_step (s : Store) (op : Op) (h : Inv s) (hw : op.WF) :
    abs (step s op).1 = (Spec.step (abs s) op).1 ∧ (step s op).2 = (Spec.step (abs s) op).2 := by
  cases op with
  | addNode n md => exact ⟨abs_addNode s n md h.nm, rfl⟩
  | addNodes ns mds => exact abs_addNodes s ns mds h.nm
  | addEdge raw l w md => exact abs_addEdge s raw l w md h
  | addEdges raws ls ws mds => exact abs_addEdges s raws ls ws mds h hw
  | removeEdge raw l => exact abs_removeEdge s raw l h
  | removeNode n keep => exact abs_removeNode s n keep h
  | setWeight raw l w => exact abs_setWeight s raw l w h
  | setHMeta hm => exact ⟨rfl, rfl⟩
  | setAttrH k v => exact ⟨rfl, rfl⟩
  | setLayerMeta l v => exact ⟨rfl, rfl⟩
  | setDatasetMeta v => exact ⟨rfl, rfl⟩
  | setAttrNode n k v => exact abs_setAttrNode s n k v
  | delAttrNode n k => exact abs_delAttrNode s n k
  | setAttrEdge raw l k v => exact abs_setAttrEdge s raw l k v h
  | delAttrEdge raw l k => exact abs_delAttrEdge s raw l k h

theorem abs_run (s : Store) (ops : List Op) (h : Inv s) (hw : ∀ op ∈ ops, op.WF) :
    abs (run s ops) = Spec.run (abs s) ops := by
  induction ops generalizing s with
  | nil => rfl
  | cons op ops ih =>
    simp only [run, Spec.run, List.foldl_cons]
    have h1 := step_inv s op h (hw op List.mem_cons_self)
    have := ih _ h1 (fun o ho => hw o (List.mem_cons_of_mem _ ho))
    simp only [run, Spec.run] at this
    rw [this, (abs_step s op h (hw op List.mem_cons_self)).1]

theorem abs_init (w : Bool) (hm : HMeta) : abs (init w hm) = Spec.init w hm := rfl

end C04
