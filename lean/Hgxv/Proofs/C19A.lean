import Hgxv.Model.C19
/-! Helper lemmas for C19 part A (metadata filters), core Lean only. -/
namespace C19
open AL
set_option linter.unusedSectionVars false
set_option linter.unusedSimpArgs false

section al
variable {α β : Type} [DecidableEq α]

theorem al_mem_keys_of_mem {l : List (α × β)} {e : α × β} (h : e ∈ l) : e.1 ∈ keys l := by
  simp only [keys, List.mem_map]; exact ⟨e, h, rfl⟩

theorem al_erase_eq_filter (l : List (α × β)) (k : α) (hnd : (keys l).Nodup) :
    erase l k = l.filter (fun e => !decide (e.1 = k)) := by
  induction l with
  | nil => simp [erase]
  | cons hd t ih =>
    obtain ⟨k', v'⟩ := hd
    simp only [keys, List.map_cons, List.nodup_cons] at hnd
    by_cases hk : k' = k
    · subst hk
      have : t.filter (fun e => !decide (e.1 = k')) = t := by
        apply List.filter_eq_self.mpr
        intro e he
        have : e.1 ≠ k' := by
          intro h; apply hnd.1; rw [← h]; exact al_mem_keys_of_mem he
        simpa using this
      simp only [erase, if_true, List.filter_cons]
      simp [this]
    · have := ih hnd.2
      simp [erase, hk, this]

theorem al_keys_filter_nodup (l : List (α × β)) (p : α × β → Bool) (hnd : (keys l).Nodup) :
    (keys (l.filter p)).Nodup := by
  unfold keys at *
  exact (List.Sublist.map _ List.filter_sublist).nodup hnd

theorem al_foldl_erase_eq_filter (ks : List α) (l : List (α × β)) (hnd : (keys l).Nodup) :
    ks.foldl erase l = l.filter (fun e => !ks.contains e.1) := by
  induction ks generalizing l with
  | nil =>
    simp only [List.foldl_nil, List.contains_nil, Bool.not_false]
    exact (List.filter_eq_self.mpr (fun _ _ => rfl)).symm
  | cons k ks ih =>
    simp only [List.foldl_cons]
    rw [al_erase_eq_filter l k hnd, ih _ (al_keys_filter_nodup l _ hnd), List.filter_filter]
    apply List.filter_congr
    intro e _
    by_cases h : e.1 = k
    · simp [h]
    · have h' : ¬ k = e.1 := fun x => h x.symm
      simp [h, h']

/-- with distinct keys an entry is determined by its key -/
theorem al_entry_unique {l : List (α × β)} (hnd : (keys l).Nodup) {a b : α × β} (ha : a ∈ l) (hb : b ∈ l)
    (h : a.1 = b.1) : a = b := by
  induction l with
  | nil => simp at ha
  | cons hd t ih =>
    simp only [keys, List.map_cons, List.nodup_cons] at hnd
    rcases List.mem_cons.mp ha with rfl | ha' <;> rcases List.mem_cons.mp hb with rfl | hb'
    · rfl
    · exact absurd (h ▸ al_mem_keys_of_mem hb') hnd.1
    · exact absurd (h ▸ al_mem_keys_of_mem ha') hnd.1
    · exact ih hnd.2 ha' hb'

theorem al_get?_of_mem {l : List (α × β)} (hnd : (keys l).Nodup) {e : α × β} (he : e ∈ l) :
    get? l e.1 = some e.2 := by
  induction l with
  | nil => simp at he
  | cons hd t ih =>
    obtain ⟨k', v'⟩ := hd
    simp only [keys, List.map_cons, List.nodup_cons] at hnd
    rcases List.mem_cons.mp he with rfl | he'
    · simp [get?]
    · have : k' ≠ e.1 := by
        intro h; apply hnd.1; rw [h]; exact al_mem_keys_of_mem he'
      simp [get?, this, ih hnd.2 he']

theorem al_mem_of_get? {l : List (α × β)} {k : α} {v : β} (h : get? l k = some v) : (k, v) ∈ l := by
  induction l with
  | nil => simp [get?] at h
  | cons hd t ih =>
    obtain ⟨k', v'⟩ := hd
    by_cases hk : k' = k
    · subst hk; simp [get?] at h; simp [h]
    · simp [get?, hk] at h; exact List.mem_cons_of_mem _ (ih h)

end al

section dropMode
variable {κ ω : Type} [DecidableEq κ] [Add ω] (ops : KeyOps κ)

theorem foldl_removeEdge (l : List (κ × (ω × Md))) (c : Content κ ω) :
    l.foldl (fun c e => removeEdge c e.1) c = { c with edges := (l.map (·.1)).foldl erase c.edges } := by
  induction l generalizing c with
  | nil => simp
  | cons e l ih => simp only [List.foldl_cons, List.map_cons]; rw [ih]; rfl

theorem foldl_removeEdge' (l : List κ) (c : Content κ ω) :
    l.foldl removeEdge c = { c with edges := l.foldl erase c.edges } := by
  induction l generalizing c with
  | nil => simp
  | cons e l ih => simp only [List.foldl_cons]; rw [ih]; rfl

theorem mem_incident (c : Content κ ω) (n : Node) (e : κ × (ω × Md)) :
    e ∈ incident ops c n ↔ e ∈ c.edges ∧ n ∈ ops.nodesOf e.1 := by
  simp only [incident, List.mem_append, List.mem_filter, Bool.and_eq_true, Bool.not_eq_true']
  cases h : (ops.first e.1).contains n <;> simp [List.contains_iff_mem]

theorem removeNode_drop (c : Content κ ω) (n : Node) (hn : (keys c.nodes).Nodup) (he : (keys c.edges).Nodup) :
    removeNode ops false c n =
      { weighted := c.weighted, nodes := c.nodes.filter (fun x => !decide (x.1 = n)),
        edges := c.edges.filter (fun e => !(ops.nodesOf e.1).contains n) } := by
  simp only [removeNode, dropNode, Bool.false_eq_true, if_false, foldl_removeEdge]
  rw [al_erase_eq_filter _ _ hn, al_foldl_erase_eq_filter _ _ he]
  congr 1
  apply List.filter_congr
  intro e hemem
  congr 1
  rw [Bool.eq_iff_iff]
  simp only [List.contains_iff_mem, List.mem_map, mem_incident]
  constructor
  · rintro ⟨e', ⟨he', hc⟩, h1⟩
    have := al_entry_unique he he' hemem h1
    rw [← this]; exact hc
  · intro h; exact ⟨e, ⟨hemem, h⟩, rfl⟩

theorem foldl_removeNode_drop (R : List Node) (c : Content κ ω) (hn : (keys c.nodes).Nodup)
    (he : (keys c.edges).Nodup) :
    R.foldl (removeNode ops false) c =
      { weighted := c.weighted, nodes := c.nodes.filter (fun x => !R.contains x.1),
        edges := c.edges.filter (fun e => (ops.nodesOf e.1).all (fun m => !R.contains m)) } := by
  induction R generalizing c with
  | nil =>
    simp only [List.foldl_nil, List.contains_nil, Bool.not_false, List.all_eq_true, implies_true, decide_true]
    rw [List.filter_eq_self.mpr (fun _ _ => rfl), List.filter_eq_self.mpr (fun _ _ => by simp)]
  | cons n R ih =>
    simp only [List.foldl_cons]
    rw [removeNode_drop ops c n hn he, ih _ (al_keys_filter_nodup _ _ hn) (al_keys_filter_nodup _ _ he)]
    simp only [List.filter_filter]
    congr 1
    · apply List.filter_congr
      intro x _
      rw [Bool.eq_iff_iff]
      simp only [Bool.and_eq_true, Bool.not_eq_true', List.contains_iff_mem, decide_eq_false_iff_not,
        List.mem_cons, not_or, Bool.not_eq_eq_eq_not, Bool.not_true]
      simp only [← Bool.not_eq_true, List.contains_iff_mem, List.mem_cons, not_or, decide_eq_true_eq]
      exact And.comm
    · apply List.filter_congr
      intro e _
      rw [Bool.eq_iff_iff]
      simp only [Bool.and_eq_true, List.all_eq_true, Bool.not_eq_true', ← Bool.not_eq_true,
        List.contains_iff_mem, List.mem_cons, not_or]
      constructor
      · rintro ⟨h1, h2⟩ m hm
        exact ⟨fun h => h2 (h ▸ hm), h1 m hm⟩
      · intro h
        exact ⟨fun m hm => (h m hm).2, fun hm => (h n hm).1 rfl⟩
      done

theorem nodesToProcess_contains (c : Content κ ω) (cr : Crit) (mode : Mode) (hn : (keys c.nodes).Nodup)
    {x : Node × Md} (hx : x ∈ c.nodes) :
    (nodesToProcess c cr mode).contains x.1 = selected mode (matchesCrit x.2 cr) := by
  rw [Bool.eq_iff_iff]
  simp only [nodesToProcess, List.contains_iff_mem, List.mem_map, List.mem_filter]
  constructor
  · rintro ⟨y, ⟨hy, hs⟩, h1⟩
    rw [← al_entry_unique hn hy hx h1]; exact hs
  · intro h; exact ⟨x, ⟨hx, h⟩, rfl⟩

theorem edgesToProcess_contains (c : Content κ ω) (cr : Crit) (mode : Mode) (he : (keys c.edges).Nodup)
    {e : κ × (ω × Md)} (hx : e ∈ c.edges) :
    (edgesToProcess c cr mode).contains e.1 = selected mode (matchesCrit e.2.2 cr) := by
  rw [Bool.eq_iff_iff]
  simp only [edgesToProcess, List.contains_iff_mem, List.mem_map, List.mem_filter]
  constructor
  · rintro ⟨y, ⟨hy, hs⟩, h1⟩
    rw [← al_entry_unique he hy hx h1]; exact hs
  · intro h; exact ⟨e, ⟨hx, h⟩, rfl⟩

theorem removedNodes_contains (c : Content κ ω) (nc : Option Crit) (mode : Mode) (hn : (keys c.nodes).Nodup)
    {x : Node × Md} (hx : x ∈ c.nodes) :
    (removedNodes c nc mode).contains x.1 = critSel nc mode x.2 := by
  cases nc with
  | none => simp [removedNodes, critSel]
  | some cr => simp only [removedNodes, critSel]; exact nodesToProcess_contains c cr mode hn hx

theorem edgePhase_eq (c : Content κ ω) (ec : Option Crit) (mode : Mode) (he : (keys c.edges).Nodup) :
    edgePhase c ec mode = { c with edges := c.edges.filter (fun e => !critSel ec mode e.2.2) } := by
  cases ec with
  | none =>
    simp only [edgePhase, critSel, Bool.not_false]
    rw [List.filter_eq_self.mpr (fun _ _ => rfl)]
  | some cr =>
    simp only [edgePhase, critSel, foldl_removeEdge']
    rw [al_foldl_erase_eq_filter _ _ he]
    congr 1
    apply List.filter_congr
    intro e hemem
    rw [edgesToProcess_contains c cr mode he hemem]

theorem nodePhase_drop (c : Content κ ω) (nc : Option Crit) (mode : Mode) (hn : (keys c.nodes).Nodup)
    (he : (keys c.edges).Nodup) :
    nodePhase ops c nc mode false =
      { weighted := c.weighted, nodes := c.nodes.filter (fun x => !critSel nc mode x.2),
        edges := c.edges.filter (fun e => (ops.nodesOf e.1).all (fun m => !(removedNodes c nc mode).contains m)) } := by
  cases nc with
  | none =>
    simp only [nodePhase, critSel, removedNodes, Bool.not_false, List.contains_nil]
    rw [List.filter_eq_self.mpr (fun _ _ => rfl), List.filter_eq_self.mpr (fun _ _ => by simp)]
  | some cr =>
    simp only [nodePhase, removedNodes]
    rw [foldl_removeNode_drop ops _ c hn he]
    congr 1
    apply List.filter_congr
    intro x hx
    rw [nodesToProcess_contains c cr mode hn hx]; rfl

/-- `filter_hypergraph(..., keep_edges=False)` in closed form -/
theorem filterHg_drop (c : Content κ ω) (nc ec : Option Crit) (mode : Mode) (hn : (keys c.nodes).Nodup)
    (he : (keys c.edges).Nodup) :
    filterHg ops c nc ec mode false =
      { weighted := c.weighted, nodes := c.nodes.filter (fun x => !critSel nc mode x.2),
        edges := c.edges.filter (fun e => (ops.nodesOf e.1).all (fun m => !(removedNodes c nc mode).contains m)
                                          && !critSel ec mode e.2.2) } := by
  unfold filterHg
  rw [nodePhase_drop ops c nc mode hn he, edgePhase_eq _ _ _ (al_keys_filter_nodup _ _ he)]
  simp only [List.filter_filter]
  congr 1
  apply List.filter_congr
  intro e _
  exact Bool.and_comm _ _

end dropMode
end C19
