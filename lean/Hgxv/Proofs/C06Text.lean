import Hgxv.Model.C06Text
/-! Lemmas for the framing of the text file (core Lean only). -/
namespace C06

section
variable {α : Type}

/-- the pieces written after the first record: `,` record, `,` record, ... -/
def tailPieces (rs : List α) : List (Piece α) := rs.flatMap (fun r => [Piece.sep, Piece.item r])

theorem tailPieces_cons (r : α) (rs : List α) :
    tailPieces (r :: rs) = Piece.sep :: Piece.item r :: tailPieces rs := by
  simp [tailPieces]

theorem foldl_writeItem (rs : List α) (out : List (Piece α)) :
    rs.foldl Writer.writeItem { first := false, out := out } = { first := false, out := out ++ tailPieces rs } := by
  induction rs generalizing out with
  | nil => simp [tailPieces]
  | cons r rs ih =>
    simp only [List.foldl_cons, Writer.writeItem, Writer.comma]
    rw [ih]
    simp [tailPieces_cons]

theorem writeText_nil : writeText ([] : List α) = [.opn, .cls] := rfl

theorem writeText_cons (r : α) (rs : List α) :
    writeText (r :: rs) = .opn :: .item r :: (tailPieces rs ++ [.cls]) := by
  simp only [writeText, List.foldl_cons, Writer.writeItem, Writer.start, Writer.comma]
  have h := foldl_writeItem rs ([Piece.opn] ++ [] ++ [Piece.item r])
  simp only [if_true] at *
  rw [h]
  simp [Writer.finish]

theorem readTail_tailPieces (rs : List α) : readTail (tailPieces rs ++ [.cls]) = some rs := by
  induction rs with
  | nil => simp [tailPieces, readTail]
  | cons r rs ih =>
    rw [tailPieces_cons]
    simp only [List.cons_append, readTail, ih, Option.map_some]

theorem readText_writeText (rs : List α) : readText (writeText rs) = some rs := by
  cases rs with
  | nil => simp [writeText_nil, readText]
  | cons r rs =>
    rw [writeText_cons]
    simp only [readText, readTail_tailPieces, Option.map_some]

theorem intersperse_items (r : α) (rs : List α) :
    ((r :: rs).map Piece.item).intersperse .sep = Piece.item r :: tailPieces rs := by
  induction rs generalizing r with
  | nil => simp [tailPieces]
  | cons x rs ih =>
    have := ih x
    simp only [List.map_cons] at this ⊢
    rw [List.intersperse_cons_cons, this, tailPieces_cons]

theorem writeText_framed (rs : List α) : writeText rs = framed rs := by
  cases rs with
  | nil => simp [writeText_nil, framed]
  | cons r rs =>
    rw [writeText_cons, framed, intersperse_items]
    simp

/-- number of pieces: `[`, `]`, one per record, one separator between neighbours -/
theorem writeText_length (rs : List α) : (writeText rs).length = 2 + rs.length + (rs.length - 1) := by
  cases rs with
  | nil => simp [writeText_nil]
  | cons r rs =>
    rw [writeText_cons]
    have : (tailPieces rs).length = 2 * rs.length := by
      induction rs with
      | nil => simp [tailPieces]
      | cons x xs ih => rw [tailPieces_cons]; simp [ih]; omega
    simp [this]; omega

end

end C06
