import Hgxv.Model.C05
/-! Helper lemmas for the C05 theorems (core Lean only). -/
namespace C05AL
open AL
variable {α β : Type} [DecidableEq α]

theorem mem_of_get? (l : List (α × β)) (k : α) (v : β) (h : get? l k = some v) : (k, v) ∈ l := by
  induction l with
  | nil => simp at h
  | cons hd t ih => grind [get?]

theorem get?_of_mem_nodup (l : List (α × β)) (k : α) (v : β) (hnd : (keys l).Nodup) (h : (k, v) ∈ l) :
    get? l k = some v := by
  induction l with
  | nil => simp at h
  | cons hd t ih =>
    obtain ⟨k', v'⟩ := hd
    simp only [keys, List.map_cons, List.nodup_cons] at hnd
    rcases List.mem_cons.1 h with h | h
    · cases h; simp [get?]
    · have hk : k' ≠ k := by
        intro e; subst e
        exact hnd.1 (List.mem_map.2 ⟨(k', v), h, rfl⟩)
      simp only [get?, hk, ↓reduceIte]
      exact ih hnd.2 h

theorem mem_iff_get? (l : List (α × β)) (hnd : (keys l).Nodup) (k : α) (v : β) :
    (k, v) ∈ l ↔ get? l k = some v :=
  ⟨get?_of_mem_nodup l k v hnd, mem_of_get? l k v⟩

theorem set_same (l : List (α × β)) (k : α) (v : β) (h : get? l k = some v) : AL.set l k v = l := by
  induction l with
  | nil => simp at h
  | cons hd t ih => grind [get?, AL.set]

theorem set_of_none (l : List (α × β)) (k : α) (v : β) (h : get? l k = none) : AL.set l k v = l ++ [(k, v)] := by
  induction l with
  | nil => simp [AL.set]
  | cons hd t ih => grind [get?, AL.set]

theorem get?_append (l m : List (α × β)) (k : α) :
    get? (l ++ m) k = match get? l k with | some v => some v | none => get? m k := by
  induction l with
  | nil => simp
  | cons hd t ih => grind [get?]

omit [DecidableEq α] in
theorem keys_append (l m : List (α × β)) : keys (l ++ m) = keys l ++ keys m := by simp [keys]

theorem mem_keys_iff (l : List (α × β)) (k : α) : k ∈ keys l ↔ (get? l k).isSome := by
  have := get?_eq_none_iff l k
  cases h : get? l k <;> simp_all

theorem has_iff (l : List (α × β)) (k : α) : has l k = true ↔ k ∈ keys l := by
  rw [mem_keys_iff]; rfl

theorem keys_set (l : List (α × β)) (k : α) (v : β) :
    keys (AL.set l k v) = if k ∈ keys l then keys l else keys l ++ [k] := by
  by_cases h : k ∈ keys l
  · simp only [h, ↓reduceIte]; exact keys_set_of_mem l k v ((mem_keys_iff l k).1 h)
  · simp only [h, ↓reduceIte]; exact keys_set_of_not_mem l k v ((get?_eq_none_iff l k).2 h)

theorem keys_erase_nodup (l : List (α × β)) (k : α) (h : (keys l).Nodup) : (keys (erase l k)).Nodup := by
  rw [keys_erase_perm]; exact h.erase k

theorem mem_erase (l : List (α × β)) (k : α) (e : α × β) (h : e ∈ erase l k) : e ∈ l := by
  induction l with
  | nil => simp [erase] at h
  | cons hd t ih => grind [erase]

/-- two association lists with the same key sequence and the same lookups are equal -/
theorem ext (l m : List (α × β)) (hk : keys l = keys m) (hnd : (keys l).Nodup)
    (hg : ∀ k ∈ keys l, get? l k = get? m k) : l = m := by
  induction l generalizing m with
  | nil => cases m with
    | nil => rfl
    | cons a m => simp [keys] at hk
  | cons hd t ih =>
    cases m with
    | nil => simp [keys] at hk
    | cons a m =>
      obtain ⟨k, v⟩ := hd
      obtain ⟨k2, v2⟩ := a
      simp only [keys, List.map_cons, List.cons.injEq] at hk
      obtain ⟨hk1, hk2⟩ := hk
      subst hk1
      simp only [keys, List.map_cons, List.nodup_cons] at hnd
      have h0 := hg k (by simp [keys])
      simp only [get?, ↓reduceIte, Option.some.injEq] at h0
      subst h0
      congr 1
      apply ih m hk2 hnd.2
      intro k' hk'
      have hne : k ≠ k' := by intro e; subst e; exact hnd.1 hk'
      have := hg k' (by simp only [keys, List.map_cons, List.mem_cons]; right; exact hk')
      simpa [get?, hne] using this

end C05AL

namespace C05
variable {κ : Type} [DecidableEq κ] [Keyed κ]

/-! ## node table -/

theorem keys_addNodeL (l : List (Node × Meta)) (n : Node) (md : Meta) :
    AL.keys (addNodeL l n md) = if n ∈ AL.keys l then AL.keys l else AL.keys l ++ [n] := by
  unfold addNodeL
  cases h : AL.get? l n with
  | none =>
    have : n ∉ AL.keys l := (AL.get?_eq_none_iff l n).1 h
    rw [if_neg this, C05AL.keys_append]; rfl
  | some cur =>
    have hm : n ∈ AL.keys l := by rw [C05AL.mem_keys_iff, h]; rfl
    simp only [hm, ↓reduceIte]
    split
    · rw [C05AL.keys_set]; simp [hm]
    · rfl

theorem addNodeL_touch_present (l : List (Node × Meta)) (n : Node) (h : n ∈ AL.keys l) :
    addNodeL l n [] = l := by
  unfold addNodeL
  cases hg : AL.get? l n with
  | none => exact absurd h ((AL.get?_eq_none_iff l n).1 hg)
  | some cur =>
    simp only
    split
    · next hc => subst hc; exact C05AL.set_same l n [] hg
    · rfl

theorem addNodeL_touch_absent (l : List (Node × Meta)) (n : Node) (h : n ∉ AL.keys l) :
    addNodeL l n [] = l ++ [(n, [])] := by
  unfold addNodeL
  rw [(AL.get?_eq_none_iff l n).2 h]

theorem get?_addNodeL_touch (l : List (Node × Meta)) (n m : Node) :
    AL.get? (addNodeL l n []) m = if m ∈ AL.keys l then AL.get? l m else if m = n then some [] else none := by
  by_cases h : n ∈ AL.keys l
  · rw [addNodeL_touch_present l n h]
    by_cases hm : m ∈ AL.keys l
    · simp [hm]
    · have : m ≠ n := by intro e; subst e; exact hm h
      simp [hm, this, (AL.get?_eq_none_iff l m).2 hm]
  · rw [addNodeL_touch_absent l n h, C05AL.get?_append]
    by_cases hm : m ∈ AL.keys l
    · obtain ⟨v, hv⟩ := Option.isSome_iff_exists.1 ((C05AL.mem_keys_iff l m).1 hm)
      simp [hm, hv]
    · simp only [(AL.get?_eq_none_iff l m).2 hm, hm, ↓reduceIte]
      by_cases e : m = n
      · subst e; simp [AL.get?]
      · have : n ≠ m := fun h => e h.symm
        simp [AL.get?, e, this]

theorem touchL_cons (l : List (Node × Meta)) (n : Node) (ns : List Node) :
    touchL l (n :: ns) = touchL (addNodeL l n []) ns := rfl

theorem touchL_append (l : List (Node × Meta)) (a b : List Node) :
    touchL l (a ++ b) = touchL (touchL l a) b := by
  simp [touchL, List.foldl_append]

theorem mem_keys_touchL (l : List (Node × Meta)) (ns : List Node) (m : Node) :
    m ∈ AL.keys (touchL l ns) ↔ m ∈ AL.keys l ∨ m ∈ ns := by
  induction ns generalizing l with
  | nil => simp [touchL]
  | cons n ns ih =>
    rw [touchL_cons, ih, keys_addNodeL]
    by_cases h : n ∈ AL.keys l
    · simp only [h, ↓reduceIte, List.mem_cons]; grind
    · simp only [h, ↓reduceIte, List.mem_append, List.mem_cons]; grind

theorem nodup_keys_touchL (l : List (Node × Meta)) (ns : List Node) (h : (AL.keys l).Nodup) :
    (AL.keys (touchL l ns)).Nodup := by
  induction ns generalizing l with
  | nil => simpa [touchL] using h
  | cons n ns ih =>
    rw [touchL_cons]
    apply ih
    rw [keys_addNodeL]
    by_cases hn : n ∈ AL.keys l
    · simpa [hn] using h
    · simp only [hn, ↓reduceIte]
      rw [List.nodup_append]
      refine ⟨h, by simp, ?_⟩
      intro a ha b hb
      simp only [List.mem_singleton] at hb
      subst hb
      intro e; subst e; exact hn ha

theorem touchL_present (l : List (Node × Meta)) (ns : List Node) (h : ∀ n ∈ ns, n ∈ AL.keys l) :
    touchL l ns = l := by
  induction ns with
  | nil => rfl
  | cons n ns ih =>
    rw [touchL_cons, addNodeL_touch_present l n (h n (by simp))]
    exact ih (fun m hm => h m (by simp [hm]))

theorem get?_touchL (l : List (Node × Meta)) (ns : List Node) (m : Node) :
    AL.get? (touchL l ns) m = if m ∈ AL.keys l then AL.get? l m else if m ∈ ns then some [] else none := by
  induction ns generalizing l with
  | nil =>
    by_cases hm : m ∈ AL.keys l
    · simp [touchL, hm]
    · simp [touchL, hm, (AL.get?_eq_none_iff l m).2 hm]
  | cons n ns ih =>
    rw [touchL_cons, ih, get?_addNodeL_touch, keys_addNodeL]
    by_cases hm : m ∈ AL.keys l
    · by_cases hn : n ∈ AL.keys l <;> simp [hm, hn]
    · by_cases hn : n ∈ AL.keys l
      · have : m ≠ n := by intro e; subst e; exact hm hn
        simp [hm, hn, this]
      · by_cases e : m = n
        · subst e; simp [hm]
        · simp [hm, hn, e]

end C05
