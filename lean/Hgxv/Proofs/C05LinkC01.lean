import Hgxv.Model.C01
import Hgxv.Proofs.C05WF
/-! OPTIONAL link (imported by nothing, not needed by `Props/C05.lean`): the content-level semantics of
`Model/C05.lean` is the abstract specification `C01.Spec` of `Model/C01.lean` (which C01 proves to be the
abstraction `C01.abs` of the concrete id-table store), operation by operation, for the eight mutators C05
models.  If `Model/C01.lean` changes shape this file may be deleted without any effect on the C05 check. -/
namespace C05

/-- forget the hypergraph-level metadata (C01 uses other tokens for it; C05's incidence metadata, empty edges and
hypergraph-level metadata are left empty: the eight linked mutators do not touch them) -/
def ofSpec (a : C01.Spec) : Content UKey := { weighted := a.weighted, nodes := a.nodes, edges := a.edges }

/-- the C01 operations that C05 models, on canonical keys -/
def liftOp : C01.Op → Option (Op UKey)
  | .addNode n md => some (.addNode n (md.getD []))
  | .addEdge raw w md => some (.addEdge (canonU raw) w (md.getD []))
  | .removeEdge raw => some (.removeEdge (canonU raw))
  | .setWeight raw w => some (.setWeight (canonU raw) w)
  | .setNodeMeta n md => some (.setNodeMeta n md)
  | .setEdgeMeta raw md => some (.setEdgeMeta (canonU raw) md)
  | .setAttrNode n k v => some (.setNodeAttr n k v)
  | .setAttrEdge raw k v => some (.setEdgeAttr (canonU raw) k v)
  | _ => none

theorem insertSorted_eq (a : Nat) (l : List Nat) : C01.insertSorted a l = insertSorted a l := by
  induction l with
  | nil => rfl
  | cons b bs ih => simp [C01.insertSorted, insertSorted, ih]

theorem canon_eq (raw : List Nat) : C01.canon raw = canonU raw := by
  induction raw with
  | nil => rfl
  | cons a l ih =>
    simp only [C01.canon, canonU, List.foldr_cons] at ih ⊢
    rw [ih, insertSorted_eq]

theorem set_set {α β : Type} [DecidableEq α] (l : List (α × β)) (k : α) (v v' : β) :
    AL.set (AL.set l k v) k v' = AL.set l k v' := by
  induction l with
  | nil => simp [AL.set]
  | cons hd t ih => grind [AL.set]

theorem del_eq_erase {α β : Type} [DecidableEq α] (l : List (α × β)) (k : α) (h : (AL.keys l).Nodup) :
    C01.del l k = AL.erase l k := by
  induction l with
  | nil => rfl
  | cons hd t ih =>
    obtain ⟨k', v'⟩ := hd
    simp only [AL.keys, List.map_cons, List.nodup_cons] at h
    by_cases e : k' = k
    · subst e
      have : C01.del t k' = t := by
        unfold C01.del
        apply List.filter_eq_self.2
        intro p hp
        simp only [ne_eq, decide_not, Bool.not_eq_eq_eq_not, Bool.not_true, decide_eq_false_iff_not]
        intro e2
        exact h.1 (List.mem_map.2 ⟨p, hp, e2⟩)
      simp only [C01.del, ne_eq, not_true_eq_false, decide_false, Bool.false_eq_true, not_false_eq_true,
        List.filter_cons_of_neg, AL.erase, ↓reduceIte]
      exact this
    · have ih' := ih (by simpa [AL.keys] using h.2)
      simp only [C01.del, ne_eq, decide_not] at ih' ⊢
      simp [AL.erase, e, ih']

theorem touchNode_eq (a : C01.Spec) (n : Node) :
    C01.Spec.touchNode a n = { a with nodes := addNodeL a.nodes n [] } := by
  unfold C01.Spec.touchNode
  cases h : AL.get? a.nodes n with
  | none =>
    have hn : n ∉ AL.keys a.nodes := (AL.get?_eq_none_iff _ _).1 h
    simp [addNodeL_touch_absent _ _ hn, C05AL.set_of_none _ _ _ h]
  | some v =>
    have hn : n ∈ AL.keys a.nodes := (C05AL.mem_keys_iff _ _).2 (by simp [h])
    simp [addNodeL_touch_present _ _ hn]

theorem foldl_touchNode_eq (e : List Nat) (a : C01.Spec) :
    e.foldl C01.Spec.touchNode a = { a with nodes := touchL a.nodes e } := by
  induction e generalizing a with
  | nil => rfl
  | cons n e ih => rw [List.foldl_cons, touchNode_eq, ih]; rfl

theorem addNode_eq (a : C01.Spec) (n : Node) (md : Option Meta) :
    (C01.Spec.addNode a n md).nodes = addNodeL a.nodes n (md.getD []) ∧
    (C01.Spec.addNode a n md).edges = a.edges ∧ (C01.Spec.addNode a n md).weighted = a.weighted := by
  unfold C01.Spec.addNode
  simp only [touchNode_eq]
  cases h : AL.get? a.nodes n with
  | none =>
    have hn : n ∉ AL.keys a.nodes := (AL.get?_eq_none_iff _ _).1 h
    have hg : AL.get? (addNodeL a.nodes n []) n = some [] := by
      rw [get?_addNodeL_touch]; simp [hn]
    simp only [hg]
    refine ⟨?_, trivial, trivial⟩
    simp only [addNodeL, h]
    rw [← C05AL.set_of_none _ _ _ h, set_set, C05AL.set_of_none _ _ _ h]
  | some cur =>
    have hn : n ∈ AL.keys a.nodes := (C05AL.mem_keys_iff _ _).2 (by simp [h])
    simp only [addNodeL_touch_present _ _ hn, h]
    cases cur with
    | nil => simp [addNodeL, h]
    | cons x xs => simp [addNodeL, h]

/-- one call of a modelled mutator on `C01.Spec` is the C05 step on its content, with the same verdict -/
theorem link_C01 (a : C01.Spec) (op : C01.Op) (op' : Op UKey) (hl : liftOp op = some op')
    (hwf : WF (ofSpec a)) :
    ofSpec (C01.Spec.apply a op).1 = step (ofSpec a) op' ∧
    ((C01.Spec.apply a op).2 = .ok ↔ (apply? (ofSpec a) op').isSome = true) := by
  obtain ⟨aw, an, ae, ah⟩ := a
  cases op <;> simp only [liftOp, Option.some.injEq, reduceCtorEq] at hl <;> subst hl
  case addNode n md =>
    obtain ⟨h1, h2, h3⟩ := addNode_eq ⟨aw, an, ae, ah⟩ n md
    simp [C01.Spec.apply, step, apply?, addNode, ofSpec, h1, h2, h3]
  case addEdge raw w md =>
    simp only [C01.Spec.apply, C01.Spec.addEdge, canon_eq, step, apply?, addEdge, ofSpec]
    have hone : C01.one = unitW := rfl
    cases hw : aw <;> cases w with
    | none =>
      cases hg : AL.get? ae (canonU raw) with
      | none =>
        simp [weightOk, addEdgeCore, addEdgeNew, touchAll, hw, hg, hone, foldl_touchNode_eq,
          C05AL.set_of_none _ _ _ hg, Keyed.members]
      | some v => simp [weightOk, addEdgeCore, addEdgeOld, hw, hg, hone]
    | some x =>
      by_cases hx : x = unitW
      · subst hx
        cases hg : AL.get? ae (canonU raw) with
        | none =>
          simp [weightOk, addEdgeCore, addEdgeNew, touchAll, hw, hg, hone, foldl_touchNode_eq,
            C05AL.set_of_none _ _ _ hg, Keyed.members]
        | some v => simp [weightOk, addEdgeCore, addEdgeOld, hw, hg, hone]
      · cases hg : AL.get? ae (canonU raw) with
        | none =>
          simp [weightOk, addEdgeCore, addEdgeNew, touchAll, hw, hg, hone, hx, foldl_touchNode_eq,
            C05AL.set_of_none _ _ _ hg, Keyed.members]
        | some v => simp [weightOk, addEdgeCore, addEdgeOld, hw, hg, hone, hx]
  case removeEdge raw =>
    simp only [C01.Spec.apply, C01.Spec.removeEdge, canon_eq, step, apply?, removeEdge, ofSpec, AL.has]
    have hd : C01.del ae (canonU raw) = AL.erase ae (canonU raw) := del_eq_erase _ _ hwf.keys_nodup
    by_cases hs : (AL.get? ae (canonU raw)).isSome = true
    · simp [hs, hd]
    · simp [hs]
  case setWeight raw w =>
    simp only [C01.Spec.apply, C01.Spec.setWeight, canon_eq, step, apply?, setWeight, ofSpec]
    have hone : C01.one = unitW := rfl
    rw [hone]
    by_cases hok : (!aw && w != unitW) = true
    · simp [hok]
    · simp only [hok, Bool.false_eq_true, ↓reduceIte]
      cases hg : AL.get? ae (canonU raw) with
      | none => simp
      | some v => simp
  case setNodeMeta n md =>
    simp only [C01.Spec.apply, C01.Spec.setNodeMeta, step, apply?, setNodeMeta, ofSpec, AL.has]
    by_cases hs : (AL.get? an n).isSome = true
    · simp [hs]
    · simp [hs]
  case setEdgeMeta raw md =>
    simp only [C01.Spec.apply, C01.Spec.setEdgeMeta, canon_eq, step, apply?, setEdgeMeta, ofSpec]
    cases hg : AL.get? ae (canonU raw) <;> simp
  case setAttrNode n k v =>
    simp only [C01.Spec.apply, C01.Spec.setAttrNode, step, apply?, setNodeAttr, ofSpec]
    cases hg : AL.get? an n <;> simp
  case setAttrEdge raw k v =>
    simp only [C01.Spec.apply, C01.Spec.setAttrEdge, canon_eq, step, apply?, setEdgeAttr, ofSpec]
    cases hg : AL.get? ae (canonU raw) <;> simp

/-- more C01 operations: node batches (with and without the metadata table) and `clear` -/
def liftOp2 : C01.Op → Option (Op UKey)
  | .addNodes ns tbl => some (.addNodes ns tbl)
  | .clear => some .clear
  | op => liftOp op

theorem ofSpec_foldl_addNode (f : Node → Option Meta) (ns : List Node) : ∀ (a : C01.Spec),
    ofSpec (ns.foldl (fun a n => C01.Spec.addNode a n (f n)) a) =
      ns.foldl (fun h n => addNode h n ((f n).getD [])) (ofSpec a) := by
  induction ns with
  | nil => intro a; rfl
  | cons n ns ih =>
    intro a
    rw [List.foldl_cons, List.foldl_cons, ih]
    congr 1
    obtain ⟨h1, h2, h3⟩ := addNode_eq a n (f n)
    simp [ofSpec, addNode, h1, h2, h3]

theorem touchAll_eq_foldl (ns : List Node) : ∀ (c : Content UKey),
    touchAll c ns = ns.foldl (fun h n => addNode h n []) c := by
  induction ns with
  | nil => intro c; rfl
  | cons n ns ih =>
    intro c
    rw [List.foldl_cons, ← ih]
    simp [touchAll, touchL, addNode]

theorem link_C01_nodes (a : C01.Spec) (op : C01.Op) (op' : Op UKey) (hl : liftOp2 op = some op')
    (hwf : WF (ofSpec a)) :
    ofSpec (C01.Spec.apply a op).1 = step (ofSpec a) op' ∧
    ((C01.Spec.apply a op).2 = .ok ↔ (apply? (ofSpec a) op').isSome = true) := by
  cases op
  case addNodes ns tbl =>
    simp only [liftOp2, Option.some.injEq] at hl; subst hl
    cases tbl with
    | none =>
      have := ofSpec_foldl_addNode (fun _ => none) ns a
      simp only [Option.getD_none] at this
      simp [C01.Spec.apply, C01.Spec.addNodes, step, apply?, addNodes, this, touchAll_eq_foldl]
    | some t =>
      have := ofSpec_foldl_addNode (fun n => AL.get? t n) ns a
      simp only [C01.Spec.apply, C01.Spec.addNodes, step, apply?, addNodes, AL.has]
      by_cases hv : ns.all (fun n => (AL.get? t n).isSome) = true
      · simp [hv, this]
      · simp [hv]
  case clear =>
    simp only [liftOp2, Option.some.injEq] at hl; subst hl
    simp [C01.Spec.apply, step, apply?, clear, ofSpec, Keyed.clearsHyper]
  all_goals exact link_C01 a _ op' hl hwf

end C05
