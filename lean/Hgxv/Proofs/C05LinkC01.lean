import Hgxv.Model.C01
import Hgxv.Proofs.C05WF
import Hgxv.Proofs.C05Node
/-! OPTIONAL link (imported by nothing, not needed by `Props/C05.lean`): the content-level semantics of
`Model/C05.lean` is the abstract specification `C01.Spec` of `Model/C01.lean` (which C01 proves to be the
abstraction `C01.abs` of the concrete id-table store), operation by operation, for the eight mutators C05
modelled first, and (second half of the file) for `add_nodes`, `clear` and `remove_node`.  If `Model/C01.lean` changes shape this file may be deleted without any effect on the C05 check. -/
namespace C05

/-- forget the hypergraph-level metadata (C01 uses other tokens for it; C05's incidence metadata, empty edges and
hypergraph-level metadata are left empty: the eight linked mutators do not touch them) -/
def ofSpec (a : C01.Spec) : Content UKey := { weighted := a.weighted, nodes := a.nodes, edges := a.edges }

/-- the C01 operations that C05 models, on canonical keys -/
def liftOp : C01.Op → Option (Op UKey)
  | .addNode n md => some (.addNode n (md.getD []))
  | .addEdge raw w md => some (.addEdge (canonU raw) w (md.getD []))
  | .removeEdge raw => some (.removeEdge (canonU raw))
  | .setWeight raw w => some (.setWeight (canonU raw) w)
  | .setNodeMeta n md => some (.setNodeMeta n md)
  | .setEdgeMeta raw md => some (.setEdgeMeta (canonU raw) md)
  | .setAttrNode n k v => some (.setNodeAttr n k v)
  | .setAttrEdge raw k v => some (.setEdgeAttr (canonU raw) k v)
  | _ => none

theorem insertSorted_eq (a : Nat) (l : List Nat) : C01.insertSorted a l = insertSorted a l := by
  induction l with
  | nil => rfl
  | cons b bs ih => simp [C01.insertSorted, insertSorted, ih]

theorem canon_eq (raw : List Nat) : C01.canon raw = canonU raw := by
  induction raw with
  | nil => rfl
  | cons a l ih =>
    simp only [C01.canon, canonU, List.foldr_cons] at ih ⊢
    rw [ih, insertSorted_eq]

theorem set_set {α β : Type} [DecidableEq α] (l : List (α × β)) (k : α) (v v' : β) :
    AL.set (AL.set l k v) k v' = AL.set l k v' := by
  induction l with
  | nil => simp [AL.set]
  | cons hd t ih => grind [AL.set]

theorem del_eq_erase {α β : Type} [DecidableEq α] (l : List (α × β)) (k : α) (h : (AL.keys l).Nodup) :
    C01.del l k = AL.erase l k := by
  induction l with
  | nil => rfl
  | cons hd t ih =>
    obtain ⟨k', v'⟩ := hd
    simp only [AL.keys, List.map_cons, List.nodup_cons] at h
    by_cases e : k' = k
    · subst e
      have : C01.del t k' = t := by
        unfold C01.del
        apply List.filter_eq_self.2
        intro p hp
        simp only [ne_eq, decide_not, Bool.not_eq_eq_eq_not, Bool.not_true, decide_eq_false_iff_not]
        intro e2
        exact h.1 (List.mem_map.2 ⟨p, hp, e2⟩)
      simp only [C01.del, ne_eq, not_true_eq_false, decide_false, Bool.false_eq_true, not_false_eq_true,
        List.filter_cons_of_neg, AL.erase, ↓reduceIte]
      exact this
    · have ih' := ih (by simpa [AL.keys] using h.2)
      simp only [C01.del, ne_eq, decide_not] at ih' ⊢
      simp [AL.erase, e, ih']

theorem touchNode_eq (a : C01.Spec) (n : Node) :
    C01.Spec.touchNode a n = { a with nodes := addNodeL a.nodes n [] } := by
  unfold C01.Spec.touchNode
  cases h : AL.get? a.nodes n with
  | none =>
    have hn : n ∉ AL.keys a.nodes := (AL.get?_eq_none_iff _ _).1 h
    simp [addNodeL_touch_absent _ _ hn, C05AL.set_of_none _ _ _ h]
  | some v =>
    have hn : n ∈ AL.keys a.nodes := (C05AL.mem_keys_iff _ _).2 (by simp [h])
    simp [addNodeL_touch_present _ _ hn]

theorem foldl_touchNode_eq (e : List Nat) (a : C01.Spec) :
    e.foldl C01.Spec.touchNode a = { a with nodes := touchL a.nodes e } := by
  induction e generalizing a with
  | nil => rfl
  | cons n e ih => rw [List.foldl_cons, touchNode_eq, ih]; rfl

theorem addNode_eq (a : C01.Spec) (n : Node) (md : Option Meta) :
    (C01.Spec.addNode a n md).nodes = addNodeL a.nodes n (md.getD []) ∧
    (C01.Spec.addNode a n md).edges = a.edges ∧ (C01.Spec.addNode a n md).weighted = a.weighted := by
  unfold C01.Spec.addNode
  simp only [touchNode_eq]
  cases h : AL.get? a.nodes n with
  | none =>
    have hn : n ∉ AL.keys a.nodes := (AL.get?_eq_none_iff _ _).1 h
    have hg : AL.get? (addNodeL a.nodes n []) n = some [] := by
      rw [get?_addNodeL_touch]; simp [hn]
    simp only [hg]
    refine ⟨?_, trivial, trivial⟩
    simp only [addNodeL, h]
    rw [← C05AL.set_of_none _ _ _ h, set_set, C05AL.set_of_none _ _ _ h]
  | some cur =>
    have hn : n ∈ AL.keys a.nodes := (C05AL.mem_keys_iff _ _).2 (by simp [h])
    simp only [addNodeL_touch_present _ _ hn, h]
    cases cur with
    | nil => simp [addNodeL, h]
    | cons x xs => simp [addNodeL, h]

/-- one call of a modelled mutator on `C01.Spec` is the C05 step on its content, with the same verdict -/
theorem link_C01 (a : C01.Spec) (op : C01.Op) (op' : Op UKey) (hl : liftOp op = some op')
    (hwf : WF (ofSpec a)) :
    ofSpec (C01.Spec.apply a op).1 = step (ofSpec a) op' ∧
    ((C01.Spec.apply a op).2 = .ok ↔ (apply? (ofSpec a) op').isSome = true) := by
  obtain ⟨aw, an, ae, ah⟩ := a
  cases op <;> simp only [liftOp, Option.some.injEq, reduceCtorEq] at hl <;> subst hl
  case addNode n md =>
    obtain ⟨h1, h2, h3⟩ := addNode_eq ⟨aw, an, ae, ah⟩ n md
    simp [C01.Spec.apply, step, apply?, addNode, ofSpec, h1, h2, h3]
  case addEdge raw w md =>
    simp only [C01.Spec.apply, C01.Spec.addEdge, canon_eq, step, apply?, addEdge, ofSpec]
    have hone : C01.one = unitW := rfl
    cases hw : aw <;> cases w with
    | none =>
      cases hg : AL.get? ae (canonU raw) with
      | none =>
        simp [weightOk, addEdgeCore, addEdgeNew, touchAll, hw, hg, hone, foldl_touchNode_eq,
          C05AL.set_of_none _ _ _ hg, Keyed.members]
      | some v => simp [weightOk, addEdgeCore, addEdgeOld, hw, hg, hone]
    | some x =>
      by_cases hx : x = unitW
      · subst hx
        cases hg : AL.get? ae (canonU raw) with
        | none =>
          simp [weightOk, addEdgeCore, addEdgeNew, touchAll, hw, hg, hone, foldl_touchNode_eq,
            C05AL.set_of_none _ _ _ hg, Keyed.members]
        | some v => simp [weightOk, addEdgeCore, addEdgeOld, hw, hg, hone]
      · cases hg : AL.get? ae (canonU raw) with
        | none =>
          simp [weightOk, addEdgeCore, addEdgeNew, touchAll, hw, hg, hone, hx, foldl_touchNode_eq,
            C05AL.set_of_none _ _ _ hg, Keyed.members]
        | some v => simp [weightOk, addEdgeCore, addEdgeOld, hw, hg, hone, hx]
  case removeEdge raw =>
    simp only [C01.Spec.apply, C01.Spec.removeEdge, canon_eq, step, apply?, removeEdge, ofSpec, AL.has]
    have hd : C01.del ae (canonU raw) = AL.erase ae (canonU raw) := del_eq_erase _ _ hwf.keys_nodup
    by_cases hs : (AL.get? ae (canonU raw)).isSome = true
    · simp [hs, hd]
    · simp [hs]
  case setWeight raw w =>
    simp only [C01.Spec.apply, C01.Spec.setWeight, canon_eq, step, apply?, setWeight, ofSpec]
    have hone : C01.one = unitW := rfl
    rw [hone]
    by_cases hok : (!aw && w != unitW) = true
    · simp [hok]
    · simp only [hok, Bool.false_eq_true, ↓reduceIte]
      cases hg : AL.get? ae (canonU raw) with
      | none => simp
      | some v => simp
  case setNodeMeta n md =>
    simp only [C01.Spec.apply, C01.Spec.setNodeMeta, step, apply?, setNodeMeta, ofSpec, AL.has]
    by_cases hs : (AL.get? an n).isSome = true
    · simp [hs]
    · simp [hs]
  case setEdgeMeta raw md =>
    simp only [C01.Spec.apply, C01.Spec.setEdgeMeta, canon_eq, step, apply?, setEdgeMeta, ofSpec]
    cases hg : AL.get? ae (canonU raw) <;> simp
  case setAttrNode n k v =>
    simp only [C01.Spec.apply, C01.Spec.setAttrNode, step, apply?, setNodeAttr, ofSpec]
    cases hg : AL.get? an n <;> simp
  case setAttrEdge raw k v =>
    simp only [C01.Spec.apply, C01.Spec.setAttrEdge, canon_eq, step, apply?, setEdgeAttr, ofSpec]
    cases hg : AL.get? ae (canonU raw) <;> simp

/-- more C01 operations: node batches (with and without the metadata table) and `clear` -/
def liftOp2 : C01.Op → Option (Op UKey)
  | .addNodes ns tbl => some (.addNodes ns tbl)
  | .clear => some .clear
  | op => liftOp op

theorem ofSpec_foldl_addNode (f : Node → Option Meta) (ns : List Node) : ∀ (a : C01.Spec),
    ofSpec (ns.foldl (fun a n => C01.Spec.addNode a n (f n)) a) =
      ns.foldl (fun h n => addNode h n ((f n).getD [])) (ofSpec a) := by
  induction ns with
  | nil => intro a; rfl
  | cons n ns ih =>
    intro a
    rw [List.foldl_cons, List.foldl_cons, ih]
    congr 1
    obtain ⟨h1, h2, h3⟩ := addNode_eq a n (f n)
    simp [ofSpec, addNode, h1, h2, h3]

theorem touchAll_eq_foldl (ns : List Node) : ∀ (c : Content UKey),
    touchAll c ns = ns.foldl (fun h n => addNode h n []) c := by
  induction ns with
  | nil => intro c; rfl
  | cons n ns ih =>
    intro c
    rw [List.foldl_cons, ← ih]
    simp [touchAll, touchL, addNode]

theorem link_C01_nodes (a : C01.Spec) (op : C01.Op) (op' : Op UKey) (hl : liftOp2 op = some op')
    (hwf : WF (ofSpec a)) :
    ofSpec (C01.Spec.apply a op).1 = step (ofSpec a) op' ∧
    ((C01.Spec.apply a op).2 = .ok ↔ (apply? (ofSpec a) op').isSome = true) := by
  cases op
  case addNodes ns tbl =>
    simp only [liftOp2, Option.some.injEq] at hl; subst hl
    cases tbl with
    | none =>
      have := ofSpec_foldl_addNode (fun _ => none) ns a
      simp only [Option.getD_none] at this
      simp [C01.Spec.apply, C01.Spec.addNodes, step, apply?, addNodes, this, touchAll_eq_foldl]
    | some t =>
      have := ofSpec_foldl_addNode (fun n => AL.get? t n) ns a
      simp only [C01.Spec.apply, C01.Spec.addNodes, step, apply?, addNodes, AL.has]
      by_cases hv : ns.all (fun n => (AL.get? t n).isSome) = true
      · simp [hv, this]
      · simp [hv]
  case clear =>
    simp only [liftOp2, Option.some.injEq] at hl; subst hl
    simp [C01.Spec.apply, step, apply?, clear, ofSpec, Keyed.clearsHyper]
  all_goals exact link_C01 a _ op' hl hwf

/-- the removal loop of `C01.Spec` (`remove_edges` of distinct present canonical keys) is one filter, like `foldRemove_eq` -/
theorem spec_removeLoop_eq : ∀ (es : List (List Nat)) (r : C01.Spec), (AL.keys r.edges).Nodup →
    (∀ e ∈ es, C01.canon e = e ∧ e ∈ AL.keys r.edges) → es.Nodup →
    C01.seqOps C01.Spec.removeEdge r es =
      ({ r with edges := r.edges.filter (fun p => decide (p.1 ∉ es)) }, C01.Out.ok) := by
  intro es
  induction es with
  | nil =>
    intro r _ _ _
    have : r.edges.filter (fun p => decide (p.1 ∉ ([] : List (List Nat)))) = r.edges := by
      apply List.filter_eq_self.2; intro a _; simp
    simp only [C01.seqOps]; rw [this]
  | cons e t ih =>
    intro r hnd hes hn
    obtain ⟨hc, hp⟩ := hes e List.mem_cons_self
    rw [List.nodup_cons] at hn
    have hstep : C01.Spec.removeEdge r e = ({ r with edges := C01.del r.edges e }, C01.Out.ok) := by
      unfold C01.Spec.removeEdge; rw [hc, if_pos ((C05AL.mem_keys_iff _ _).1 hp)]
    have hde : C01.del r.edges e = AL.erase r.edges e := del_eq_erase _ _ hnd
    have hnd' : (AL.keys (C01.del r.edges e)).Nodup := by rw [hde]; exact C05AL.keys_erase_nodup _ _ hnd
    have ht : ∀ e' ∈ t, C01.canon e' = e' ∧ e' ∈ AL.keys (C01.del r.edges e) := by
      intro e' he'
      obtain ⟨h1, h2⟩ := hes e' (List.mem_cons_of_mem _ he')
      refine ⟨h1, ?_⟩
      rw [hde]; apply C05AL.mem_keys_erase_of_ne _ _ _ h2
      intro heq; subst heq; exact hn.1 he'
    have hih := ih { r with edges := C01.del r.edges e } hnd' ht hn.2
    have hfil : (C01.del r.edges e).filter (fun p => decide (p.1 ∉ t)) =
        r.edges.filter (fun p => decide (p.1 ∉ e :: t)) := by
      unfold C01.del
      rw [List.filter_filter]
      apply List.filter_congr
      intro p _
      by_cases h1 : p.1 = e <;> by_cases h2 : p.1 ∈ t <;> simp [h1, h2]
    simp only [C01.seqOps, hstep]
    rw [hih]
    show (({ r with edges := (C01.del r.edges e).filter (fun p => decide (p.1 ∉ t)) } : C01.Spec), C01.Out.ok) = _
    rw [hfil]

/-- the `keep_edges=True` loop of `C01.Spec` and of the C05 content run side by side -/
theorem spec_shrinkLoop_eq (n : Node) (c : Content UKey) : ∀ (es : List (List Nat)) (a : C01.Spec),
    (∀ k ∈ es, k ∈ keysOf c ∧ n ∈ Keyed.members k) → ShrinkInv n c (ofSpec a) →
    ∃ r, C01.seqOps (C01.Spec.shrinkInto n) a es = (r, C01.Out.ok) ∧
      es.foldlM (shrinkInto n) (ofSpec a) = some (ofSpec r) := by
  intro es
  induction es with
  | nil => intro a _ _; exact ⟨a, rfl, rfl⟩
  | cons e t ih =>
    intro a hin hi
    have hke : e ∈ keysOf (ofSpec a) := hi.2.1 e (hin e List.mem_cons_self).1
    obtain ⟨v, hv⟩ := Option.isSome_iff_exists.1 ((C05AL.mem_keys_iff _ _).1 hke)
    have hv' : AL.get? a.edges e = some v := hv
    obtain ⟨h', e1⟩ := shrinkInto_returns n c (ofSpec a) e (hin e List.mem_cons_self).1 hi
    have hinv := shrinkInto_inv n c (ofSpec a) h' e e1 (hin e List.mem_cons_self) hi
    have hl := link_C01 a (.addEdge (e.filter (· ≠ n)) (some v.1) (some v.2))
      (.addEdge (canonU (e.filter (· ≠ n))) (some v.1) v.2) rfl hi.1
    have hshr : shrinkInto n (ofSpec a) e =
        apply? (ofSpec a) (.addEdge (canonU (e.filter (· ≠ n))) (some v.1) v.2) := by
      simp [shrinkInto, Keyed.without, getWeight, getEdgeMeta, ofSpec, hv', apply?]
    have hspec : C01.Spec.shrinkInto n a e =
        C01.Spec.apply a (.addEdge (e.filter (· ≠ n)) (some v.1) (some v.2)) := by
      simp [C01.Spec.shrinkInto, C01.Spec.apply, C01.Spec.weightOf, C01.Spec.emetaOf, hv']
    rw [hshr] at e1
    have hok : (C01.Spec.apply a (.addEdge (e.filter (· ≠ n)) (some v.1) (some v.2))).2 = C01.Out.ok :=
      hl.2.2 (by rw [e1]; rfl)
    have hst : ofSpec (C01.Spec.apply a (.addEdge (e.filter (· ≠ n)) (some v.1) (some v.2))).1 = h' := by
      rw [hl.1]; unfold step; rw [e1]; rfl
    rw [← hshr] at e1
    generalize hres : C01.Spec.apply a (.addEdge (e.filter (· ≠ n)) (some v.1) (some v.2)) = res at hok hst hspec
    obtain ⟨a', o⟩ := res
    simp only at hok hst
    subst hok
    subst hst
    obtain ⟨r, h1, h2⟩ := ih a' (fun k hk => hin k (List.mem_cons_of_mem _ hk)) hinv
    refine ⟨r, ?_, ?_⟩
    · simp only [C01.seqOps, hspec]; exact h1
    · rw [foldlM_some_cons _ _ _ _ _ e1]; exact h2

/-- `remove_node(node, keep_edges)` on `C01.Spec` (canonical keys: what `C01.SWF` / `C01.abs_swf` give for every abstract state
of a history) is the C05 step on its content, same verdict -/
theorem link_C01_removeNode (a : C01.Spec) (n : Node) (keep : Bool) (hwf : WF (ofSpec a))
    (hcan : ∀ k ∈ AL.keys a.edges, C01.canon k = k) :
    ofSpec (C01.Spec.removeNode a n keep).1 = step (ofSpec a) (.removeNode n keep) ∧
    ((C01.Spec.removeNode a n keep).2 = C01.Out.ok ↔ (apply? (ofSpec a) (.removeNode n keep)).isSome = true) := by
  by_cases hn : n ∈ nodesOf (ofSpec a)
  · have hsome : (AL.get? a.nodes n).isSome = true := (C05AL.mem_keys_iff _ _).1 hn
    have htw : onBothSides (ofSpec a) n = false := by simp [onBothSides, Keyed.twice]
    obtain ⟨c1, e1, hi1, e2⟩ := removeNode_spec (ofSpec a) n keep hwf hn htw
    have hinc : Keyed.incident n (keysOf (ofSpec a)) = C01.Spec.incidentKeys a n := rfl
    have hin2 : ∀ k ∈ C01.Spec.incidentKeys a n, k ∈ keysOf (ofSpec a) ∧ n ∈ Keyed.members k :=
      fun k hk => (KeyedLaws.mem_incident n (keysOf (ofSpec a)) k).1 (hinc ▸ hk)
    have hB : ∃ r, (if keep then C01.seqOps (C01.Spec.shrinkInto n) a (C01.Spec.incidentKeys a n) else (a, C01.Out.ok))
        = (r, C01.Out.ok) ∧ ofSpec r = c1 := by
      cases keep with
      | false =>
        simp only [Bool.false_eq_true, ↓reduceIte, Option.some.injEq] at e1
        exact ⟨a, rfl, e1⟩
      | true =>
        obtain ⟨r, h1, h2⟩ := spec_shrinkLoop_eq n (ofSpec a) _ a hin2
          ⟨hwf, fun _ h => h, fun _ h => .inl h, rfl, rfl, rfl⟩
        simp only [↓reduceIte] at e1
        rw [hinc, h2] at e1
        simp only [Option.some.injEq] at e1
        exact ⟨r, h1, e1⟩
    obtain ⟨r, hr1, hr2⟩ := hB
    subst hr2
    have hes : ∀ e ∈ C01.Spec.incidentKeys a n, C01.canon e = e ∧ e ∈ AL.keys r.edges :=
      fun e he => ⟨hcan e (hin2 e he).1, hi1.2.1 e (hin2 e he).1⟩
    have hnd : (C01.Spec.incidentKeys a n).Nodup := (List.filter_sublist).nodup hwf.keys_nodup
    have hrem := spec_removeLoop_eq _ r hi1.1.keys_nodup hes hnd
    have hvalid : ((C01.Spec.incidentKeys a n).all (fun r' => (AL.get? r.edges (C01.canon r')).isSome) &&
        decide ((C01.Spec.incidentKeys a n).map C01.canon).Nodup) = true := by
      have hm : (C01.Spec.incidentKeys a n).map C01.canon = C01.Spec.incidentKeys a n := by
        have : (C01.Spec.incidentKeys a n).map C01.canon = (C01.Spec.incidentKeys a n).map id :=
          List.map_congr_left (fun x hx => (hes x hx).1)
        rw [this, List.map_id]
      simp only [Bool.and_eq_true, List.all_eq_true, decide_eq_true_eq]
      refine ⟨fun x hx => by rw [(hes x hx).1]; exact (C05AL.mem_keys_iff _ _).1 (hes x hx).2, ?_⟩
      rw [hm]; exact hnd
    have hC01 : C01.Spec.removeNode a n keep =
        ({ r with edges := r.edges.filter (fun p => decide (p.1 ∉ C01.Spec.incidentKeys a n)),
                  nodes := C01.del r.nodes n }, C01.Out.ok) := by
      unfold C01.Spec.removeNode
      simp only [hsome, Bool.not_true, Bool.false_eq_true, ↓reduceIte]
      rw [hr1]
      simp only [C01.Spec.removeEdges, hvalid, ↓reduceIte, hrem]
    have hdel : C01.del r.nodes n = AL.erase r.nodes n := del_eq_erase _ _ hi1.1.nodes_nodup
    have hfil : r.edges.filter (fun p => decide (p.1 ∉ C01.Spec.incidentKeys a n)) =
        r.edges.filter (fun p => decide (n ∉ Keyed.members p.1)) := by
      apply List.filter_congr
      intro p hp
      have hpk : p.1 ∈ keysOf (ofSpec r) := mem_keys_of_mem _ p hp
      rw [decide_eq_decide]
      constructor
      · intro h1 h2
        exact h1 (hinc ▸ (KeyedLaws.mem_incident n (keysOf (ofSpec a)) p.1).2 ⟨hi1.of_mem p.1 hpk h2, h2⟩)
      · intro h1 h2
        exact h1 (hin2 p.1 h2).2
    rw [hC01]
    have e2' : apply? (ofSpec a) (Op.removeNode n keep) = some _ := e2
    constructor
    · unfold step; rw [e2']
      simp only [Option.getD_some, ofSpec, hdel, hfil]
    · simp [e2']
  · have hnone : (AL.get? a.nodes n).isSome = false := by
      cases h : (AL.get? a.nodes n).isSome with
      | false => rfl
      | true => exact absurd ((C05AL.mem_keys_iff _ _).2 h) hn
    have hhas : AL.has (ofSpec a).nodes n = false := hnone
    simp [C01.Spec.removeNode, hnone, step, apply?, removeNode, hhas]

end C05
