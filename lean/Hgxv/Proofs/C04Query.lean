import Hgxv.Proofs.C04Ref
/-! C04 - every query of the concrete store equals the query of its abstraction (under the invariant). -/
namespace C04
open AL

theorem nodes_abs (s : Store) : nodes s = Spec.nodeList (abs s) := rfl

theorem records_abs (s : Store) : records s = Spec.records (abs s) := by
  simp only [records, Spec.records, abs_edges, keys_mapVal]

theorem getWeight_abs (s : Store) (raw : List Node) (l : Layer) (h : Inv s) :
    getWeight s raw l = Spec.getWeight (abs s) raw l := by
  unfold getWeight Spec.getWeight
  rw [abs_get?]
  cases hk : get? s.edgeList (canon raw, l) with
  | none => rfl
  | some id =>
    have hrev := h.id.rev_of_edge _ _ hk
    have : (get? s.weights id).isSome := (h.id.w_some id).mpr (by simp [hrev])
    obtain ⟨w, hw⟩ := Option.isSome_iff_exists.mp this
    simp [entryOf, hw]

theorem getEdgeMeta_abs (s : Store) (raw : List Node) (l : Layer) (h : Inv s) :
    getEdgeMeta s raw l = Spec.getEdgeMeta (abs s) raw l := by
  unfold getEdgeMeta Spec.getEdgeMeta
  rw [abs_get?]
  cases hk : get? s.edgeList (canon raw, l) with
  | none => rfl
  | some id =>
    obtain ⟨md, hmd, _⟩ := emeta_of_edge s _ id h hk
    simp [entryOf, hmd]

theorem filterMap_rev_eq (s : Store) (h : Inv s) (ps : List (Key × Nat)) (hps : ∀ p ∈ ps, p ∈ s.edgeList) :
    (ps.map (·.2)).filterMap (get? s.rev) = ps.map (·.1) := by
  induction ps with
  | nil => rfl
  | cons p ps ih =>
    have hp := hps p List.mem_cons_self
    have hr := h.id.rev_of_edge _ _ (get?_of_mem _ _ _ h.id.el_nodup hp)
    simp only [List.map_cons, List.filterMap_cons, hr]
    rw [ih (fun q hq => hps q (List.mem_cons_of_mem _ hq))]

theorem incident_abs (s : Store) (n : Node) (f : Filt) (h : Inv s) :
    incident s n f = Spec.incident (abs s) n f := by
  unfold incident Spec.incident
  have hn : (get? (abs s).nodes n).isSome = (get? s.adj n).isSome := by
    have := h.nm.adj_nm n
    show (get? s.nmeta n).isSome = _
    cases h1 : (get? s.nmeta n).isSome <;> cases h2 : (get? s.adj n).isSome <;> simp_all
  rw [hn]
  cases hg : get? s.adj n with
  | none => simp
  | some ids =>
    simp only [Option.isSome_some, if_true]
    by_cases hf : f = Filt.both
    · rw [if_pos hf, if_pos hf]
    · rw [if_neg hf, if_neg hf]
      congr 1
      rw [adj_eq_filter s n ids h hg, filterMap_rev_eq s h _ (fun p hp => (List.mem_filter.mp hp).1)]
      rw [← records_abs]
      simp only [records, keys, List.filter_map, List.filter_filter]
      congr 1
      apply List.filter_congr
      intro a _
      simp [Bool.and_comm]

theorem degree_abs (s : Store) (n : Node) (f : Filt) (h : Inv s) : degree s n f = Spec.degree (abs s) n f := by
  unfold degree Spec.degree; rw [incident_abs s n f h]

theorem degreeSeq_abs (s : Store) (f : Filt) (h : Inv s) : degreeSeq s f = Spec.degreeSeq (abs s) f := by
  unfold degreeSeq Spec.degreeSeq
  rw [nodes_abs]
  have : (fun n => (degree s n f).map (fun d => (n, d))) = (fun n => (Spec.degree (abs s) n f).map (fun d => (n, d))) := by
    funext n; rw [degree_abs s n f h]
  rw [this]

theorem nodup_of_map {α β : Type} (f : α → β) (l : List α) (h : (l.map f).Nodup) : l.Nodup := by
  induction l with
  | nil => simp
  | cons a t ih =>
    simp only [List.map_cons, List.nodup_cons, List.mem_map] at h
    exact List.nodup_cons.mpr ⟨fun hm => h.1 ⟨a, hm, rfl⟩, ih h.2⟩

theorem filterMap_nodup {α β : Type} (f : α → Option β) (l : List α) (hl : l.Nodup)
    (hinj : ∀ a ∈ l, ∀ b ∈ l, ∀ x, f a = some x → f b = some x → a = b) : (l.filterMap f).Nodup := by
  induction l with
  | nil => simp
  | cons a t ih =>
    have hnd := List.nodup_cons.mp hl
    simp only [List.filterMap_cons]
    have iht := ih hnd.2 (fun x hx y hy => hinj x (List.mem_cons_of_mem _ hx) y (List.mem_cons_of_mem _ hy))
    split
    · exact iht
    · rename_i x hx
      refine List.nodup_cons.mpr ⟨?_, iht⟩
      intro hmem
      obtain ⟨b, hb, hbx⟩ := List.mem_filterMap.mp hmem
      have := hinj a List.mem_cons_self b (List.mem_cons_of_mem _ hb) x hx hbx
      exact hnd.1 (this ▸ hb)

/-- `get_edges(metadata=True)` lists the same (key, metadata) pairs as the abstract map, as a multiset -/
theorem edgesMeta_abs (s : Store) (h : Inv s) : (edgesMeta s).Perm (Spec.edgesMeta (abs s)) := by
  have hnd2 : (Spec.edgesMeta (abs s)).Nodup := by
    have : ((Spec.edgesMeta (abs s)).map (·.1)).Nodup := by
      simp only [Spec.edgesMeta, abs_edges, mapVal, List.map_map]
      exact h.id.el_nodup
    exact nodup_of_map _ _ this
  have hnd1 : (edgesMeta s).Nodup := by
    unfold edgesMeta
    have hinj : ∀ a ∈ s.emeta, ∀ b ∈ s.emeta, ∀ x,
        (get? s.rev a.1).map (fun k => (k, a.2)) = some x → (get? s.rev b.1).map (fun k => (k, b.2)) = some x → a = b := by
      intro a ha b hb x hxa hxb
      cases ha1 : get? s.rev a.1 with
      | none => simp [ha1] at hxa
      | some ka =>
        cases hb1 : get? s.rev b.1 with
        | none => simp [hb1] at hxb
        | some kb =>
          simp [ha1] at hxa; simp [hb1] at hxb
          have hk : ka = kb := by rw [← hxa] at hxb; exact (Prod.mk.inj hxb).1.symm
          have hmd : a.2 = b.2 := by rw [← hxa] at hxb; exact (Prod.mk.inj hxb).2.symm
          have e1 := h.id.edge_of_rev _ _ ha1
          have e2 := h.id.edge_of_rev _ _ hb1
          rw [hk, e2] at e1
          exact Prod.ext (Option.some.inj e1).symm hmd
    exact filterMap_nodup _ _ (nodup_of_map _ _ h.id.em_nodup) hinj
  rw [List.perm_ext_iff_of_nodup hnd1 hnd2]
  intro x
  obtain ⟨k, md⟩ := x
  simp only [edgesMeta, Spec.edgesMeta, List.mem_filterMap, List.mem_map, abs_edges, mapVal]
  constructor
  · rintro ⟨p, hp, hx⟩
    cases hr : get? s.rev p.1 with
    | none => simp [hr] at hx
    | some k' =>
      simp [hr] at hx
      obtain ⟨rfl, rfl⟩ := hx
      have he := h.id.edge_of_rev _ _ hr
      refine ⟨(k', (entryOf s p.1)), ⟨(k', p.1), mem_of_get? _ _ _ he, rfl⟩, ?_⟩
      have := get?_of_mem _ _ _ h.id.em_nodup hp
      simp [entryOf, this]
  · rintro ⟨r, ⟨p, hp, rfl⟩, hx⟩
    simp only at hx
    obtain ⟨rfl, rfl⟩ := Prod.mk.inj hx
    have hk := get?_of_mem _ _ _ h.id.el_nodup hp
    obtain ⟨md, hmd, he⟩ := emeta_of_edge s _ _ h hk
    refine ⟨(p.2, md), mem_of_get? _ _ _ hmd, ?_⟩
    simp [h.id.rev_of_edge _ _ hk, he]

end C04
