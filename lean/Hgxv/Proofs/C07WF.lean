import Hgxv.Proofs.C07Canon
/-! # C07 helper lemmas: well-formed tables — the pre-image factors through the content, and the table-level
operations preserve well-formedness (core Lean only) -/
namespace C07
open AL

/-! ## association lists -/
section alist
variable {α β : Type} [DecidableEq α]

theorem mem_keys_of_get? {l : List (α × β)} {k : α} {v : β} (h : get? l k = some v) : k ∈ keys l := by
  apply Decidable.byContradiction
  intro hn
  rw [← get?_eq_none_iff] at hn
  rw [hn] at h; cases h

theorem isSome_get?_iff {l : List (α × β)} {k : α} : (get? l k).isSome = true ↔ k ∈ keys l := by
  constructor
  · intro h
    obtain ⟨v, hv⟩ := Option.isSome_iff_exists.mp h
    exact mem_keys_of_get? hv
  · intro h
    cases hg : get? l k with
    | none => exact absurd h ((get?_eq_none_iff l k).mp hg)
    | some v => rfl

theorem has_iff {l : List (α × β)} {k : α} : has l k = true ↔ k ∈ keys l := isSome_get?_iff

theorem mem_of_get? {l : List (α × β)} {k : α} {v : β} (h : get? l k = some v) : (k, v) ∈ l := by
  induction l with
  | nil => simp at h
  | cons hd t ih =>
    obtain ⟨k', v'⟩ := hd
    unfold get? at h
    split at h
    · rename_i hk; subst hk; cases h; exact List.mem_cons_self ..
    · exact List.mem_cons_of_mem _ (ih h)

theorem get?_of_mem_nodup {l : List (α × β)} (hnd : (keys l).Nodup) {k : α} {v : β} (h : (k, v) ∈ l) :
    get? l k = some v := by
  induction l with
  | nil => cases h
  | cons hd t ih =>
    obtain ⟨k', v'⟩ := hd
    simp only [keys, List.map_cons, List.nodup_cons] at hnd
    rcases List.mem_cons.mp h with heq | ht
    · cases heq; simp [get?]
    · have hne : k' ≠ k := by
        intro e; subst e
        exact hnd.1 (List.mem_map.mpr ⟨(k', v), ht, rfl⟩)
      simp only [get?, hne, if_false]
      exact ih hnd.2 ht

theorem mem_keys_set {l : List (α × β)} {k k' : α} {v : β} : k' ∈ keys (set l k v) ↔ k' = k ∨ k' ∈ keys l := by
  rw [← isSome_get?_iff, ← isSome_get?_iff, get?_set]
  by_cases h : k = k'
  · subst h; simp
  · have h' : ¬ k' = k := fun e => h e.symm
    simp [h, h']

theorem keys_set_nodup {l : List (α × β)} (hnd : (keys l).Nodup) (k : α) (v : β) : (keys (set l k v)).Nodup := by
  cases hg : get? l k with
  | none =>
    rw [keys_set_of_not_mem l k v hg]
    have hk : k ∉ keys l := (get?_eq_none_iff l k).mp hg
    exact List.nodup_append.mpr ⟨hnd, (by simp), by
      intro a ha b hb
      rw [List.mem_singleton] at hb
      subst hb
      intro e; subst e; exact hk ha⟩
  | some v' =>
    rw [keys_set_of_mem l k v (by rw [hg]; rfl)]
    exact hnd

theorem keys_erase_nodup {l : List (α × β)} (hnd : (keys l).Nodup) (k : α) : (keys (erase l k)).Nodup := by
  rw [keys_erase_perm]
  exact hnd.erase k

theorem mem_keys_erase {l : List (α × β)} (hnd : (keys l).Nodup) {k k' : α} :
    k' ∈ keys (erase l k) ↔ k' ≠ k ∧ k' ∈ keys l := by
  rw [keys_erase_perm, hnd.mem_erase_iff]

theorem get?_erase {l : List (α × β)} (hnd : (keys l).Nodup) (k k' : α) :
    get? (erase l k) k' = if k = k' then none else get? l k' := by
  by_cases h : k = k'
  · subst h; simp [get?_erase_self l k hnd]
  · simp [h, get?_erase_ne l k k' h]

end alist

theorem mapM_eq_some_map {α β : Type} (f : α → Option β) (g : α → β) (l : List α)
    (h : ∀ x, x ∈ l → f x = some (g x)) : l.mapM f = some (l.map g) := by
  induction l with
  | nil => rfl
  | cons a t ih =>
    rw [List.mapM_cons, h a (List.mem_cons_self ..), ih (fun x hx => h x (List.mem_cons_of_mem _ hx))]
    rfl

theorem filterMap_eq_map {α β : Type} (f : α → Option β) (g : α → β) (l : List α)
    (h : ∀ x, x ∈ l → f x = some (g x)) : l.filterMap f = l.map g := by
  induction l with
  | nil => rfl
  | cons a t ih =>
    rw [List.filterMap_cons, h a (List.mem_cons_self ..), ih (fun x hx => h x (List.mem_cons_of_mem _ hx))]
    rfl

variable {κ : Type} [Kind κ]

/-! ## the pre-image of well-formed tables is the canonical tree of their content -/

/-- the record of a key as the hash reads it -/
def recOf (t : Tables κ) (k : κ) : κ × Num × JTree :=
  match get? t.edgeList k with
  | some id => (k, (get? t.weights id).getD (.int 1), (get? t.edgeMeta id).getD emptyObj)
  | none => (k, .int 1, emptyObj)

def nrecOf (t : Tables κ) (n : Nat) : Nat × JTree := (n, (get? t.nodeMeta n).getD emptyObj)

theorem content_edges {t : Tables κ} (w : WF t) : (content t).edges = (keys t.edgeList).map (recOf t) := by
  unfold content
  simp only [keys, List.map_map]
  apply filterMap_eq_map
  intro p hp
  obtain ⟨k, id⟩ := p
  have hg : get? t.edgeList k = some id := get?_of_mem_nodup w.edge.elNodup hp
  obtain ⟨wv, hw⟩ := Option.isSome_iff_exists.mp (w.edge.hasW k id hg)
  obtain ⟨md, hm⟩ := Option.isSome_iff_exists.mp (w.edge.hasM k id hg)
  simp [recOf, hg, hw, hm]

theorem content_nodes {t : Tables κ} (w : WF t) : (content t).nodes = (keys t.adj).map (nrecOf t) := by
  unfold content
  apply filterMap_eq_map
  intro n hn
  have : n ∈ keys t.nodeMeta := (w.node.same n).mp hn
  obtain ⟨md, hm⟩ := Option.isSome_iff_exists.mp (isSome_get?_iff.mpr this)
  simp [nrecOf, hm]

theorem edgeEntry_eq {t : Tables κ} (w : WF t) {k : κ} (hk : k ∈ keys t.edgeList) :
    edgeEntry? t k = some (edgeTree (recOf t k)) := by
  obtain ⟨id, hid⟩ := Option.isSome_iff_exists.mp (isSome_get?_iff.mpr hk)
  have hc : Kind.canonK k = k := w.edge.canonKeys k hk
  simp [edgeEntry?, recOf, hc, hid]

theorem nodeEntry_eq {t : Tables κ} (w : WF t) {n : Nat} (hn : n ∈ keys t.adj) :
    nodeEntry? t n = some (nodeTree (nrecOf t n)) := by
  have : n ∈ keys t.nodeMeta := (w.node.same n).mp hn
  obtain ⟨md, hm⟩ := Option.isSome_iff_exists.mp (isSome_get?_iff.mpr this)
  simp [nodeEntry?, nrecOf, hm]

theorem sort_nodeKeys {t : Tables κ} (w : WF t) :
    sortBy KeyOrd.le (nodeKeys t) = sortBy KeyOrd.le (keys t.adj) := by
  unfold nodeKeys
  split
  · rfl
  · have hp : (keys t.nodeMeta).Perm (keys t.adj) :=
      (List.perm_ext_iff_of_nodup w.node.nmNodup w.node.adjNodup).mpr (fun n => (w.node.same n).symm)
    exact sortBy_eq_of_perm (fun a b => KeyOrd.total a b) (fun a b c => KeyOrd.trans a b c) hp
      (fun a b _ _ hab hba => KeyOrd.antisymm a b hab hba)

theorem expose_eq {t : Tables κ} (w : WF t) :
    expose? t = some (topTree (Kind.tag κ) (content t).weighted (content t).hmeta
      ((sortBy edgeKeyLe (content t).edges).map edgeTree) ((sortBy nodeKeyLe (content t).nodes).map nodeTree)) := by
  have he : (sortBy KeyOrd.le (keys t.edgeList)).mapM (edgeEntry? t)
      = some ((sortBy edgeKeyLe (content t).edges).map edgeTree) := by
    rw [content_edges w, sortBy_map KeyOrd.le edgeKeyLe (recOf t) (fun a b => by
      simp only [edgeKeyLe, recOf]; split <;> split <;> rfl), List.map_map]
    exact mapM_eq_some_map _ _ _ (fun k hk => edgeEntry_eq w (mem_sortBy.mp hk))
  have hn : (sortBy KeyOrd.le (nodeKeys t)).mapM (nodeEntry? t)
      = some ((sortBy nodeKeyLe (content t).nodes).map nodeTree) := by
    rw [sort_nodeKeys w, content_nodes w, sortBy_map KeyOrd.le nodeKeyLe (nrecOf t) (fun a b => rfl), List.map_map]
    exact mapM_eq_some_map _ _ _ (fun n hn => nodeEntry_eq w (mem_sortBy.mp hn))
  unfold expose?
  rw [he, hn]
  rfl

/-- `C07_factor` -/
theorem factor {t : Tables κ} (w : WF t) : preimage? t = some (canon (content t)) := by
  unfold preimage? canon
  rw [expose_eq w]
  rfl

theorem content_WF {t : Tables κ} (w : WF t) : (content t).WF := by
  constructor
  · rw [content_nodes w, List.map_map]
    have : ((fun x : Nat × JTree => x.1) ∘ nrecOf t) = id := by funext n; rfl
    rw [this, List.map_id]; exact w.node.adjNodup
  · rw [content_edges w, List.map_map]
    have : ((fun x : κ × Num × JTree => x.1) ∘ recOf t) = id := by
      funext k; simp only [Function.comp, recOf]; split <;> rfl
    rw [this, List.map_id]; exact w.edge.elNodup

end C07
