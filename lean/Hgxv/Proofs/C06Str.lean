import Hgxv.Model.C06Str
/-! Lemmas for the string-literal layer of the text format (core Lean only). -/
namespace C06
namespace Str

theorem hexVal_hexDigit (d : Nat) (h : d < 16) : hexVal? (hexDigit d) = some d := by
  have key : ∀ d : Fin 16, hexVal? (hexDigit d.val) = some d.val := by decide
  exact key ⟨d, h⟩

theorem hexDigit_printable (d : Nat) (h : d < 16) : 32 ≤ hexDigit d ∧ hexDigit d ≤ 126 := by
  unfold hexDigit
  split <;> omega

theorem hex4_digits (u : Nat) (h : u < 65536) :
    hex4? (hexDigit (u / 4096 % 16)) (hexDigit (u / 256 % 16)) (hexDigit (u / 16 % 16)) (hexDigit (u % 16)) = some u := by
  unfold hex4?
  rw [hexVal_hexDigit _ (by omega), hexVal_hexDigit _ (by omega), hexVal_hexDigit _ (by omega), hexVal_hexDigit _ (by omega)]
  simp only [Option.some.injEq]
  omega

theorem esc4_append (u : Nat) (rest : List Nat) :
    esc4 u ++ rest = 92 :: 117 :: hexDigit (u / 4096 % 16) :: hexDigit (u / 256 % 16) :: hexDigit (u / 16 % 16)
      :: hexDigit (u % 16) :: rest := rfl

theorem uEsc_esc4 (u : Nat) (h : u < 65536) (rest : List Nat) : uEsc? (esc4 u ++ rest) = some u := by
  rw [esc4_append]
  simp only [uEsc?, and_self, if_true]
  exact hex4_digits u h

/-- a `\uXXXX` that is not the first half of a pair is read as the code point `u` -/
theorem decBody_esc4 (u : Nat) (h : u < 65536) (rest : List Nat)
    (hc : isHigh u = true → ∀ u2, uEsc? rest = some u2 → isLow u2 = false) :
    decBody (esc4 u ++ rest) = (decBody rest).map (u :: ·) := by
  have hu := uEsc_esc4 u h rest
  rw [esc4_append] at hu ⊢
  rw [decBody]
  simp only [hu, List.drop_succ_cons, List.drop_zero]
  simp only [show (92 : Nat) ≠ 34 by decide, if_false, if_true]
  cases hh : isHigh u with
  | false => simp
  | true =>
    simp only [if_true]
    cases h2 : uEsc? rest with
    | none => rfl
    | some u2 => simp [hc hh u2 h2]

/-- a high-surrogate escape followed by a low-surrogate escape is read as one astral code point -/
theorem decBody_pair (hi lo : Nat) (h1 : isHigh hi = true) (h2 : isLow lo = true) (rest : List Nat) :
    decBody (esc4 hi ++ (esc4 lo ++ rest)) =
      (decBody rest).map ((65536 + (hi - 55296) * 1024 + (lo - 56320)) :: ·) := by
  have hhi : hi < 65536 := by simp [isHigh] at h1; omega
  have hlo : lo < 65536 := by simp [isLow] at h2; omega
  have hu := uEsc_esc4 hi hhi (esc4 lo ++ rest)
  have hl := uEsc_esc4 lo hlo rest
  rw [esc4_append] at hu
  rw [esc4_append hi, decBody]
  simp only [hu, List.drop_succ_cons, List.drop_zero]
  simp only [show (92 : Nat) ≠ 34 by decide, if_false, if_true, h1, hl, h2]
  rw [esc4_append lo]
  simp only [List.drop_succ_cons, List.drop_zero]

theorem short_cases (c e : Nat) (h : short? c = some e) :
    (c = 34 ∧ e = 34) ∨ (c = 92 ∧ e = 92) ∨ (c = 10 ∧ e = 110) ∨ (c = 13 ∧ e = 114) ∨ (c = 9 ∧ e = 116) ∨
      (c = 8 ∧ e = 98) ∨ (c = 12 ∧ e = 102) := by
  unfold short? at h
  repeat' (split at h)
  all_goals (simp at h <;> omega)

theorem short_none (c : Nat) (h : short? c = none) :
    c ≠ 34 ∧ c ≠ 92 ∧ c ≠ 10 ∧ c ≠ 13 ∧ c ≠ 9 ∧ c ≠ 8 ∧ c ≠ 12 := by
  unfold short? at h
  repeat' (split at h)
  all_goals (first | (simp at h; done) | omega)

theorem uEsc_head (x y : Nat) (rest : List Nat) (h : ¬ (x = 92 ∧ y = 117)) : uEsc? (x :: y :: rest) = none := by
  unfold uEsc?
  split
  · rename_i heq
    simp only [List.cons.injEq] at heq
    obtain ⟨h1, h2, _⟩ := heq
    subst h1 h2
    simp [h]
  · rfl

theorem uEsc_single (x : Nat) (h : x ≠ 92) (rest : List Nat) : uEsc? (x :: rest) = none := by
  cases rest with
  | nil => simp [uEsc?]
  | cons y r => exact uEsc_head x y r (by simp [h])

/-- the text of a code point starts with the escape of a LOW surrogate only if the code point is one -/
theorem uEsc_encChar_low (c : Nat) (hc : c < 1114112) (rest : List Nat) (u2 : Nat)
    (h : uEsc? (encChar c ++ rest) = some u2) (hl : isLow u2 = true) : isLow c = true := by
  unfold encChar at h
  cases hs : short? c with
  | some e =>
    rw [hs] at h
    have he : e ≠ 117 := by
      rcases short_cases c e hs with h | h | h | h | h | h | h <;> omega
    have : uEsc? ([92, e] ++ rest) = none := uEsc_head 92 e rest (by simp [he])
    simp only [this] at h
    cases h
  | none =>
    rw [hs] at h
    simp only at h
    have hn := short_none c hs
    by_cases hp : 32 ≤ c ∧ c ≤ 126
    · simp only [hp, and_self, if_true] at h
      have : uEsc? ([c] ++ rest) = none := uEsc_single c hn.2.1 rest
      rw [this] at h
      cases h
    · simp only [hp, if_false] at h
      by_cases hb : c < 65536
      · simp only [hb, if_true] at h
        rw [uEsc_esc4 c hb] at h
        cases h
        exact hl
      · simp only [hb, if_false] at h
        rw [List.append_assoc, uEsc_esc4 _ (by omega)] at h
        cases h
        simp [isLow] at hl
        omega

theorem noPair_tail (a : Nat) (s : List Nat) (h : NoPair (a :: s)) : NoPair s := by
  cases s with
  | nil => trivial
  | cons b t => exact h.2

/-- reading the text of `s` (up to and including the closing quote) gives `s` back -/
theorem decBody_encBody (s : List Nat) (hv : Valid s) (hp : NoPair s) : decBody (encBody s ++ [34]) = some s := by
  induction s with
  | nil =>
    show decBody [34] = some []
    rw [decBody]
    simp
  | cons c s ih =>
    have hc : c < 1114112 := hv c (by simp)
    have hvs : Valid s := fun x hx => hv x (by simp [hx])
    have ihs := ih hvs (noPair_tail c s hp)
    have hcons : encBody (c :: s) ++ [34] = encChar c ++ (encBody s ++ [34]) := by
      simp [encBody, List.flatMap_cons]
    rw [hcons]
    cases hs : short? c with
    | some e =>
      have henc : encChar c = [92, e] := by simp [encChar, hs]
      rw [henc]
      show decBody (92 :: e :: (encBody s ++ [34])) = some (c :: s)
      rw [decBody]
      rcases short_cases c e hs with h | h | h | h | h | h | h <;>
        (obtain ⟨h1, h2⟩ := h; subst h1 h2; simp [unshort?, ihs])
    | none =>
      have hn := short_none c hs
      by_cases hpr : 32 ≤ c ∧ c ≤ 126
      · have henc : encChar c = [c] := by simp [encChar, hs, hpr]
        rw [henc]
        show decBody (c :: (encBody s ++ [34])) = some (c :: s)
        rw [decBody.eq_def]
        have h32 : ¬ c < 32 := by omega
        simp [hn.1, hn.2.1, h32, ihs]
      · by_cases hb : c < 65536
        · have henc : encChar c = esc4 c := by simp [encChar, hs, hpr, hb]
          rw [henc, decBody_esc4 c hb _ ?_, ihs]
          · rfl
          · intro hh u2 h2
            cases s with
            | nil =>
              simp [encBody, uEsc?] at h2
            | cons b t =>
              have hb' : b < 1114112 := hvs b (by simp)
              have hcons2 : encBody (b :: t) ++ [34] = encChar b ++ (encBody t ++ [34]) := by
                simp [encBody, List.flatMap_cons]
              rw [hcons2] at h2
              cases hl : isLow u2 with
              | false => rfl
              | true =>
                have := uEsc_encChar_low b hb' _ u2 h2 hl
                exact absurd ⟨hh, this⟩ hp.1
        · have henc : encChar c = esc4 (55296 + (c - 65536) / 1024) ++ esc4 (56320 + (c - 65536) % 1024) := by
            simp [encChar, hs, hpr, hb]
          rw [henc, List.append_assoc, decBody_pair _ _ (by simp [isHigh]; omega) (by simp [isLow]; omega), ihs]
          simp only [Option.map_some, Option.some.injEq, List.cons.injEq, and_true]
          omega

theorem decode_encode (s : List Nat) (hv : Valid s) (hp : NoPair s) : decode (encode s) = some s := by
  show decBody (encBody s ++ [34]) = some s
  exact decBody_encBody s hv hp

theorem esc4_printable (v : Nat) : ∀ u ∈ esc4 v, 32 ≤ u ∧ u ≤ 126 := by
  intro u hu
  have hd := fun d (h : d < 16) => hexDigit_printable d h
  simp only [esc4, List.mem_cons, List.not_mem_nil, or_false] at hu
  rcases hu with h | h | h | h | h | h
  · omega
  · omega
  all_goals (subst h; exact hd _ (Nat.mod_lt _ (by decide)))

theorem encChar_printable (c : Nat) : ∀ u ∈ encChar c, 32 ≤ u ∧ u ≤ 126 := by
  intro u hu
  unfold encChar at hu
  cases hs : short? c with
  | some e =>
    rw [hs] at hu
    simp only [List.mem_cons, List.not_mem_nil, or_false] at hu
    rcases short_cases c e hs with h | h | h | h | h | h | h <;> omega
  | none =>
    rw [hs] at hu
    simp only at hu
    by_cases hp : 32 ≤ c ∧ c ≤ 126
    · simp only [hp, and_self, if_true, List.mem_cons, List.not_mem_nil, or_false] at hu
      omega
    · simp only [hp, if_false] at hu
      by_cases hb : c < 65536
      · simp only [hb, if_true] at hu
        exact esc4_printable _ u hu
      · simp only [hb, if_false, List.mem_append] at hu
        rcases hu with h | h
        · exact esc4_printable _ u h
        · exact esc4_printable _ u h

theorem encode_printable (s : List Nat) : ∀ u ∈ encode s, 32 ≤ u ∧ u ≤ 126 := by
  intro u hu
  simp only [encode, encBody, List.mem_cons, List.mem_append, List.mem_flatMap, List.not_mem_nil, or_false] at hu
  rcases hu with h | ⟨c, hc, hu⟩ | h
  · omega
  · exact encChar_printable c u hu
  · omega

end Str
end C06
