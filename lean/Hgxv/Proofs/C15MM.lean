import Mathlib.Analysis.Convex.Jensen
import Mathlib.Analysis.Convex.SpecificFunctions.Basic
import Mathlib.Analysis.SpecialFunctions.Log.Basic
import Mathlib.Algebra.BigOperators.Field
open Finset Real

/-! # EM / MM ascent for Poisson-type objectives (used by `C15_ascent`)
Text machine-checked in the design round (DESIGN-feasibility.md §F). -/
namespace C15

/-- r log r - r + 1 ≥ 0 for r ≥ 0 -/
theorem rlogr (r : ℝ) (hr : 0 ≤ r) : 0 ≤ r * log r - r + 1 := by
  rcases hr.eq_or_lt with h | h
  · subst h; simp
  · have := Real.log_le_sub_one_of_pos (inv_pos.mpr h)
    rw [Real.log_inv] at this
    have h2 : -log r * r ≤ (r⁻¹ - 1) * r := mul_le_mul_of_nonneg_right this h.le
    have h3 : r⁻¹ * r = 1 := inv_mul_cancel₀ h.ne'
    nlinarith

variable {ι κ : Type} [DecidableEq κ]

/-- Jensen step for one hyperedge: log λ(x') ≥ log λ(x) + Σ_k ρ_k log (x'_k / x_k),
    over the support t of the coefficients (c_k > 0 on t). -/
theorem jensen_edge (t : Finset κ) (c x x' : κ → ℝ)
    (hc : ∀ k ∈ t, 0 < c k) (hx : ∀ k ∈ t, 0 < x k) (hx' : ∀ k ∈ t, 0 < x' k) (hne : t.Nonempty) :
    log (∑ k ∈ t, c k * x k) + ∑ k ∈ t, (c k * x k / ∑ j ∈ t, c j * x j) * log (x' k / x k)
      ≤ log (∑ k ∈ t, c k * x' k) := by
  set L := ∑ j ∈ t, c j * x j with hL
  have hLpos : 0 < L := Finset.sum_pos (fun k hk => mul_pos (hc k hk) (hx k hk)) hne
  have hJ := strictConcaveOn_log_Ioi.concaveOn.le_map_sum (t := t) (w := fun k => c k * x k / L)
    (p := fun k => x' k / x k)
    (fun k hk => div_nonneg (mul_pos (hc k hk) (hx k hk)).le hLpos.le)
    (by rw [← Finset.sum_div]; exact div_self hLpos.ne')
    (fun k hk => div_pos (hx' k hk) (hx k hk))
  simp only [smul_eq_mul] at hJ
  have hsum : ∑ k ∈ t, c k * x k / L * (x' k / x k) = (∑ k ∈ t, c k * x' k) / L := by
    rw [Finset.sum_div]; apply Finset.sum_congr rfl; intro k hk
    have := (hx k hk).ne'; field_simp
  rw [hsum] at hJ
  have hL' : 0 < ∑ k ∈ t, c k * x' k := Finset.sum_pos (fun k hk => mul_pos (hc k hk) (hx' k hk)) hne
  rw [Real.log_div hL'.ne' hLpos.ne'] at hJ
  linarith

omit [DecidableEq κ] in
theorem MM_ascent (E : Finset ι) (T : Finset κ) (A : ι → ℝ) (c : ι → κ → ℝ) (b x : κ → ℝ)
    (hA : ∀ e ∈ E, 0 ≤ A e) (hc : ∀ e ∈ E, ∀ k ∈ T, 0 ≤ c e k)
    (hb : ∀ k ∈ T, 0 < b k) (hx : ∀ k ∈ T, 0 < x k)
    (hpos : ∀ e ∈ E, 0 < A e → ∃ k ∈ T, 0 < c e k)
    (lam : (κ → ℝ) → ι → ℝ) (hlam : ∀ y e, lam y e = ∑ k ∈ T, c e k * y k)
    (x' : κ → ℝ) (hx' : ∀ k, x' k = x k * (∑ e ∈ E, A e * c e k / lam x e) / b k)
    (F : (κ → ℝ) → ℝ) (hF : ∀ y, F y = ∑ e ∈ E, A e * log (lam y e) - ∑ k ∈ T, b k * y k) :
    F x ≤ F x' := by
  classical
  -- basic positivity facts
  have hlampos : ∀ e ∈ E, 0 < A e → 0 < lam x e := by
    intro e he hAe
    obtain ⟨k, hk, hck⟩ := hpos e he hAe
    rw [hlam]
    exact Finset.sum_pos' (fun j hj => mul_nonneg (hc e he j hj) (hx j hj).le)
      ⟨k, hk, mul_pos hck (hx k hk)⟩
  have hS_nonneg : ∀ k ∈ T, 0 ≤ ∑ e ∈ E, A e * c e k / lam x e := by
    intro k hk
    apply Finset.sum_nonneg; intro e he
    rcases (hA e he).eq_or_lt with h0 | hpos'
    · rw [← h0]; simp
    · exact div_nonneg (mul_nonneg hpos'.le (hc e he k hk)) (hlampos e he hpos').le
  have hx'_nonneg : ∀ k ∈ T, 0 ≤ x' k := by
    intro k hk; rw [hx']
    exact div_nonneg (mul_nonneg (hx k hk).le (hS_nonneg k hk)) (hb k hk).le
  have hx'_pos : ∀ e ∈ E, 0 < A e → ∀ k ∈ T, 0 < c e k → 0 < x' k := by
    intro e he hAe k hk hck
    rw [hx']
    apply div_pos _ (hb k hk)
    apply mul_pos (hx k hk)
    apply Finset.sum_pos'
    · intro e' he'
      rcases (hA e' he').eq_or_lt with h0 | hp
      · rw [← h0]; simp
      · exact div_nonneg (mul_nonneg hp.le (hc e' he' k hk)) (hlampos e' he' hp).le
    · exact ⟨e, he, div_pos (mul_pos hAe hck) (hlampos e he hAe)⟩
  -- per-edge Jensen
  have hedge : ∀ e ∈ E, A e * (log (lam x e) + ∑ k ∈ T, (c e k * x k / lam x e) * log (x' k / x k))
      ≤ A e * log (lam x' e) := by
    intro e he
    rcases (hA e he).eq_or_lt with h0 | hAe
    · rw [← h0]; simp
    · apply mul_le_mul_of_nonneg_left _ hAe.le
      set t := T.filter (fun k => 0 < c e k) with ht
      have hsub : ∀ (f : κ → ℝ), (∀ k ∈ T, c e k = 0 → f k = 0) → ∑ k ∈ T, f k = ∑ k ∈ t, f k := by
        intro f hf
        rw [ht, Finset.sum_filter]
        apply Finset.sum_congr rfl
        intro k hk
        by_cases h : 0 < c e k
        · simp [h]
        · have : c e k = 0 := le_antisymm (not_lt.mp h) (hc e he k hk)
          simp [h, hf k hk this]
      have hne : t.Nonempty := by
        obtain ⟨k, hk, hck⟩ := hpos e he hAe
        exact ⟨k, by simp [ht, hk, hck]⟩
      have hlx : lam x e = ∑ k ∈ t, c e k * x k := by
        rw [hlam]; exact hsub _ (fun k _ h => by simp [h])
      have hlx' : lam x' e = ∑ k ∈ t, c e k * x' k := by
        rw [hlam]; exact hsub _ (fun k _ h => by simp [h])
      have hrho : ∑ k ∈ T, (c e k * x k / lam x e) * log (x' k / x k)
          = ∑ k ∈ t, (c e k * x k / ∑ j ∈ t, c e j * x j) * log (x' k / x k) := by
        rw [← hlx]; exact hsub _ (fun k _ h => by simp [h])
      rw [hrho, hlx, hlx']
      apply jensen_edge t (c e) x x'
      · intro k hk; exact (Finset.mem_filter.mp hk).2
      · intro k hk; exact hx k (Finset.mem_filter.mp hk).1
      · intro k hk; exact hx'_pos e he hAe k (Finset.mem_filter.mp hk).1 (Finset.mem_filter.mp hk).2
      · exact hne
  -- sum over edges and exchange
  have hsum := Finset.sum_le_sum hedge
  have hexch : ∑ e ∈ E, A e * ∑ k ∈ T, (c e k * x k / lam x e) * log (x' k / x k)
      = ∑ k ∈ T, b k * x' k * log (x' k / x k) := by
    simp_rw [Finset.mul_sum]
    rw [Finset.sum_comm]
    apply Finset.sum_congr rfl
    intro k hk
    rw [hx' k]
    have hbk := (hb k hk).ne'
    rw [show b k * (x k * (∑ e ∈ E, A e * c e k / lam x e) / b k) = x k * ∑ e ∈ E, A e * c e k / lam x e by
      field_simp]
    rw [Finset.mul_sum, Finset.sum_mul]
    apply Finset.sum_congr rfl
    intro e he; ring
  -- the scalar inequality per parameter
  have hscal : ∀ k ∈ T, 0 ≤ b k * x' k * log (x' k / x k) - b k * x' k + b k * x k := by
    intro k hk
    have hxk := hx k hk
    have hr : 0 ≤ x' k / x k := div_nonneg (hx'_nonneg k hk) hxk.le
    have := rlogr (x' k / x k) hr
    have hmul := mul_nonneg (mul_pos (hb k hk) hxk).le this
    have : b k * x k * (x' k / x k * log (x' k / x k) - x' k / x k + 1)
        = b k * x' k * log (x' k / x k) - b k * x' k + b k * x k := by
      field_simp
    linarith
  have hscal_sum := Finset.sum_nonneg hscal
  simp only [Finset.sum_add_distrib, Finset.sum_sub_distrib] at hscal_sum
  simp_rw [mul_add, Finset.sum_add_distrib] at hsum
  rw [hexch] at hsum
  rw [hF, hF]
  linarith

end C15
