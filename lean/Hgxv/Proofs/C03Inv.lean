import Hgxv.Proofs.C03Base
/-! Invariant of the C03 store and its preservation by every operation (core Lean only). -/
namespace AL
variable {α β : Type} [DecidableEq α]

theorem set_of_not_mem (l : List (α × β)) (k : α) (v : β) (h : get? l k = none) : set l k v = l ++ [(k, v)] := by
  induction l with
  | nil => simp [set]
  | cons hd t ih => grind [set, get?]

theorem erase_of_not_mem (l : List (α × β)) (k : α) (h : get? l k = none) : erase l k = l := by
  induction l with
  | nil => simp [erase]
  | cons hd t ih => grind [erase, get?]

theorem mem_erase_of_ne (l : List (α × β)) (k : α) (p : α × β) (hp : p ∈ l) (hne : p.1 ≠ k) : p ∈ erase l k := by
  induction l with
  | nil => simp at hp
  | cons hd t ih => grind [erase]

theorem mem_of_mem_erase (l : List (α × β)) (k : α) (p : α × β) (hp : p ∈ erase l k) : p ∈ l := by
  induction l with
  | nil => simp [erase] at hp
  | cons hd t ih => grind [erase]

theorem keys_set_same (l : List (α × β)) (k : α) (v : β) (h : (get? l k).isSome) : keys (set l k v) = keys l :=
  keys_set_of_mem l k v h

end AL

namespace C03
open AL

/-! ### node tables -/

/-- `_adj` and `_node_metadata` have the same, distinct keys -/
structure NT (s : Store) : Prop where
  adjNodup : (keys s.adj).Nodup
  nmetaNodup : (keys s.nmeta).Nodup
  same : ∀ n, (get? s.adj n).isSome ↔ (get? s.nmeta n).isSome

theorem touchNode_fields (s : Store) (m : Node) :
    (touchNode s m).edgeList = s.edgeList ∧ (touchNode s m).rev = s.rev ∧ (touchNode s m).weights = s.weights ∧
    (touchNode s m).emeta = s.emeta ∧ (touchNode s m).nextId = s.nextId ∧ (touchNode s m).weighted = s.weighted ∧
    (touchNode s m).hmeta = s.hmeta := by
  unfold touchNode; split <;> simp

theorem touchNode_adj (s : Store) (hnt : NT s) (m n : Node) :
    get? (touchNode s m).adj n = if n = m then some ((get? s.adj m).getD []) else get? s.adj n := by
  unfold touchNode
  by_cases h : (get? s.nmeta m).isSome
  · simp only [h, if_true]
    have := (hnt.same m).mpr h
    by_cases hn : n = m
    · subst hn; simp only [if_true]; obtain ⟨v, hv⟩ := Option.isSome_iff_exists.mp this; simp [hv]
    · simp [hn]
  · simp only [h]
    have hnone : get? s.adj m = none := by
      cases hg : get? s.adj m with
      | none => rfl
      | some v => exact absurd ((hnt.same m).mp (by simp [hg])) h
    simp only [Bool.false_eq_true, if_false, get?_set, hnone, Option.getD_none]
    by_cases hn : n = m
    · subst hn; simp
    · simp [hn, Ne.symm hn]

theorem touchNode_nmeta (s : Store) (m n : Node) :
    get? (touchNode s m).nmeta n = if n = m then some ((get? s.nmeta m).getD []) else get? s.nmeta n := by
  unfold touchNode
  by_cases h : (get? s.nmeta m).isSome
  · simp only [h, if_true]
    by_cases hn : n = m
    · subst hn; simp only [if_true]; obtain ⟨v, hv⟩ := Option.isSome_iff_exists.mp h; simp [hv]
    · simp [hn]
  · have hnone : get? s.nmeta m = none := by
      cases hg : get? s.nmeta m with
      | none => rfl
      | some v => simp [hg] at h
    simp only [hnone, Option.isSome_none, Bool.false_eq_true, if_false, get?_set, Option.getD_none]
    by_cases hn : n = m
    · subst hn; simp
    · simp [hn, Ne.symm hn]

theorem touchNode_NT (s : Store) (hnt : NT s) (m : Node) : NT (touchNode s m) := by
  refine ⟨?_, ?_, ?_⟩
  · unfold touchNode; split
    · exact hnt.adjNodup
    · exact keys_set_nodup _ _ _ hnt.adjNodup
  · unfold touchNode; split
    · exact hnt.nmetaNodup
    · exact keys_set_nodup _ _ _ hnt.nmetaNodup
  · intro n
    rw [touchNode_adj s hnt, touchNode_nmeta]
    by_cases hn : n = m
    · simp [hn]
    · simp only [hn, if_false]; exact hnt.same n

theorem touchNodes_fields (s : Store) (ns : List Node) :
    (touchNodes s ns).edgeList = s.edgeList ∧ (touchNodes s ns).rev = s.rev ∧ (touchNodes s ns).weights = s.weights ∧
    (touchNodes s ns).emeta = s.emeta ∧ (touchNodes s ns).nextId = s.nextId ∧ (touchNodes s ns).weighted = s.weighted ∧
    (touchNodes s ns).hmeta = s.hmeta := by
  induction ns generalizing s with
  | nil => simp [touchNodes]
  | cons n ns ih =>
    have h1 := ih (touchNode s n)
    have h2 := touchNode_fields s n
    simp only [touchNodes, List.foldl_cons] at *
    grind

theorem touchNodes_NT (s : Store) (hnt : NT s) (ns : List Node) : NT (touchNodes s ns) := by
  induction ns generalizing s with
  | nil => exact hnt
  | cons n ns ih => simp only [touchNodes, List.foldl_cons]; exact ih _ (touchNode_NT s hnt n)

theorem touchNodes_adj (s : Store) (hnt : NT s) (ns : List Node) (n : Node) :
    get? (touchNodes s ns).adj n = if n ∈ ns then some ((get? s.adj n).getD []) else get? s.adj n := by
  induction ns generalizing s with
  | nil => simp [touchNodes]
  | cons m ns ih =>
    have := ih (touchNode s m) (touchNode_NT s hnt m)
    simp only [touchNodes, List.foldl_cons] at *
    rw [this, touchNode_adj s hnt]
    by_cases hn : n = m
    · subst hn; simp
    · simp [hn]

theorem touchNodes_nmeta (s : Store) (ns : List Node) (n : Node) :
    get? (touchNodes s ns).nmeta n = if n ∈ ns then some ((get? s.nmeta n).getD []) else get? s.nmeta n := by
  induction ns generalizing s with
  | nil => simp [touchNodes]
  | cons m ns ih =>
    have := ih (touchNode s m)
    simp only [touchNodes, List.foldl_cons] at *
    rw [this, touchNode_nmeta]
    by_cases hn : n = m
    · subst hn; simp
    · simp [hn]

/-! ### adjacency updates -/

theorem appendId_keys (adj : List (Node × List Nat)) (id : Nat) (n : Node) : keys (appendId adj id n) = keys adj := by
  unfold appendId
  cases h : get? adj n with
  | none => rfl
  | some ids => exact keys_set_same _ _ _ (by simp [h])

theorem appendId_get (adj : List (Node × List Nat)) (id : Nat) (m n : Node) :
    get? (appendId adj id m) n = if n = m then (get? adj m).map (· ++ [id]) else get? adj n := by
  unfold appendId
  cases h : get? adj m with
  | none => by_cases hn : n = m <;> simp [hn, h]
  | some ids =>
    simp only [get?_set]
    by_cases hn : n = m
    · subst hn; simp
    · simp [hn, Ne.symm hn]

theorem linkNodes_keys (adj : List (Node × List Nat)) (id : Nat) (ns : List Node) : keys (linkNodes adj id ns) = keys adj := by
  induction ns generalizing adj with
  | nil => rfl
  | cons m ns ih => simp only [linkNodes, List.foldl_cons] at *; rw [ih, appendId_keys]

theorem linkNodes_get (adj : List (Node × List Nat)) (id : Nat) (ns : List Node) (hnd : ns.Nodup) (n : Node) :
    get? (linkNodes adj id ns) n = if n ∈ ns then (get? adj n).map (· ++ [id]) else get? adj n := by
  induction ns generalizing adj with
  | nil => simp [linkNodes]
  | cons m ns ih =>
    have hnd' := List.nodup_cons.mp hnd
    have := ih (appendId adj id m) hnd'.2
    simp only [linkNodes, List.foldl_cons] at *
    rw [this, appendId_get]
    by_cases hn : n = m
    · subst hn; simp [hnd'.1]
    · simp [hn]

theorem unlinkNodes_keys (adj : List (Node × List Nat)) (id : Nat) (ns : List Node) : keys (unlinkNodes adj id ns) = keys adj := by
  induction ns generalizing adj with
  | nil => rfl
  | cons m ns ih =>
    simp only [unlinkNodes]
    rw [ih]
    cases h : get? adj m with
    | none => rfl
    | some ids => exact keys_set_same _ _ _ (by simp [h])

theorem unlinkNodes_get (adj : List (Node × List Nat)) (id : Nat) (ns : List Node) (hnd : ns.Nodup) (n : Node) :
    get? (unlinkNodes adj id ns) n = if n ∈ ns then (get? adj n).map (·.erase id) else get? adj n := by
  induction ns generalizing adj with
  | nil => simp [unlinkNodes]
  | cons m ns ih =>
    have hnd' := List.nodup_cons.mp hnd
    simp only [unlinkNodes]
    rw [ih _ hnd'.2]
    cases h : get? adj m with
    | none =>
      by_cases hn : n = m
      · subst hn; simp [hnd'.1, h]
      · simp [hn]
    | some ids =>
      simp only [get?_set]
      by_cases hn : n = m
      · subst hn; simp [hnd'.1, h]
      · simp [hn, Ne.symm hn]

end C03

namespace C03
open AL

def hasNode (n : Node) (p : Key × Nat) : Bool := p.1.2.contains n

structure Inv (s : Store) : Prop where
  nt : NT s
  keysNodup : (keys s.edgeList).Nodup
  revNodup : (keys s.rev).Nodup
  wNodup : (keys s.weights).Nodup
  mNodup : (keys s.emeta).Nodup
  rev_of_edge : ∀ k id, get? s.edgeList k = some id → get? s.rev id = some k
  edge_of_rev : ∀ k id, get? s.rev id = some k → get? s.edgeList k = some id
  id_lt : ∀ id k, get? s.rev id = some k → id < s.nextId
  wKeys : ∀ id, (get? s.weights id).isSome ↔ (get? s.rev id).isSome
  mKeys : ∀ id, (get? s.emeta id).isSome ↔ (get? s.rev id).isSome
  adj_char : ∀ n ids, get? s.adj n = some ids → ids = (s.edgeList.filter (hasNode n)).map (·.2)
  nodes_in : ∀ k id, get? s.edgeList k = some id → ∀ n ∈ k.2, (get? s.adj n).isSome
  keyCanon : ∀ k id, get? s.edgeList k = some id → Sorted k.2 ∧ k.2.Nodup
  unw : s.weighted = false → ∀ id w, get? s.weights id = some w → w = one

theorem inv_new (w : Bool) : Inv (Store.new w) := by
  constructor <;> simp [Store.new, keys]
  constructor <;> simp [keys]

theorem inv_clear (s : Store) : Inv (clear s) := by
  constructor <;> simp [clear, keys]
  constructor <;> simp [keys]

/-- no record mentions a node that is not in the adjacency table -/
theorem no_key_of_not_adj (s : Store) (h : Inv s) (n : Node) (hn : get? s.adj n = none) :
    s.edgeList.filter (hasNode n) = [] := by
  apply List.filter_eq_nil_iff.mpr
  intro p hp hc
  obtain ⟨k, id⟩ := p
  have hg := get?_of_mem s.edgeList k id h.keysNodup hp
  have : n ∈ k.2 := by simpa [hasNode] using hc
  have := h.nodes_in k id hg n this
  simp [hn] at this

theorem addEdgeNew_parts (s : Store) (k : Key) (wt : Int) (md : Meta) (h : Inv s) (hnd : k.2.Nodup) :
    let r := addEdgeNew s k wt md
    r.edgeList = AL.set s.edgeList k s.nextId ∧ r.rev = AL.set s.rev s.nextId k ∧
    r.weights = AL.set s.weights s.nextId wt ∧ r.emeta = AL.set s.emeta s.nextId md ∧
    r.nextId = s.nextId + 1 ∧ r.weighted = s.weighted ∧ r.hmeta = s.hmeta ∧ NT r ∧
    (∀ n, get? r.adj n = if n ∈ k.2 then some (((get? s.adj n).getD []) ++ [s.nextId]) else get? s.adj n) ∧
    (∀ n, get? r.nmeta n = if n ∈ k.2 then some ((get? s.nmeta n).getD []) else get? s.nmeta n) := by
  intro r
  let s0 : Store := { s with rev := AL.set s.rev s.nextId k, edgeList := AL.set s.edgeList k s.nextId,
                             nextId := s.nextId + 1, weights := AL.set s.weights s.nextId wt,
                             emeta := AL.set s.emeta s.nextId md }
  have hr : r = { touchNodes s0 k.2 with adj := linkNodes (touchNodes s0 k.2).adj s.nextId k.2 } := rfl
  have hnt0 : NT s0 := ⟨h.nt.adjNodup, h.nt.nmetaNodup, h.nt.same⟩
  have hnt1 := touchNodes_NT s0 hnt0 k.2
  have hf := touchNodes_fields s0 k.2
  have hadj : ∀ n, get? r.adj n = if n ∈ k.2 then some (((get? s.adj n).getD []) ++ [s.nextId]) else get? s.adj n := by
    intro n
    rw [hr]; simp only []
    rw [linkNodes_get _ _ _ hnd, touchNodes_adj s0 hnt0]
    by_cases hn : n ∈ k.2
    · simp [hn, s0]
    · simp [hn, s0]
  refine ⟨by rw [hr]; simp only []; rw [hf.1], by rw [hr]; simp only []; rw [hf.2.1],
    by rw [hr]; simp only []; rw [hf.2.2.1], by rw [hr]; simp only []; rw [hf.2.2.2.1],
    by rw [hr]; simp only []; rw [hf.2.2.2.2.1], by rw [hr]; simp only []; rw [hf.2.2.2.2.2.1],
    by rw [hr]; simp only []; rw [hf.2.2.2.2.2.2], ?_, hadj, ?_⟩
  · refine ⟨?_, ?_, ?_⟩
    · rw [hr]; simp only []; rw [linkNodes_keys]; exact hnt1.adjNodup
    · rw [hr]; exact hnt1.nmetaNodup
    · intro n
      rw [hadj n]
      have : get? r.nmeta n = get? (touchNodes s0 k.2).nmeta n := by rw [hr]
      rw [this, touchNodes_nmeta]
      by_cases hn : n ∈ k.2
      · simp [hn]
      · simp only [hn, if_false]; exact h.nt.same n
  · intro n
    have : get? r.nmeta n = get? (touchNodes s0 k.2).nmeta n := by rw [hr]
    rw [this, touchNodes_nmeta]

end C03

namespace C03
open AL

theorem fresh_rev (s : Store) (h : Inv s) : get? s.rev s.nextId = none := by
  cases hr : get? s.rev s.nextId with
  | none => rfl
  | some e => exact absurd (h.id_lt _ _ hr) (Nat.lt_irrefl _)

theorem addEdgeNew_inv (s : Store) (k : Key) (wt : Int) (md : Meta) (h : Inv s)
    (hk : Sorted k.2 ∧ k.2.Nodup) (hget : get? s.edgeList k = none) (hwt : s.weighted = false → wt = one) :
    Inv (addEdgeNew s k wt md) := by
  obtain ⟨p1, p2, p3, p4, p5, p6, _, p8, p9, _⟩ := addEdgeNew_parts s k wt md h hk.2
  have hfresh := fresh_rev s h
  have hfw : get? s.weights s.nextId = none := by
    cases hg : get? s.weights s.nextId with
    | none => rfl
    | some v => have := (h.wKeys s.nextId).mp (by simp [hg]); simp [hfresh] at this
  have hfm : get? s.emeta s.nextId = none := by
    cases hg : get? s.emeta s.nextId with
    | none => rfl
    | some v => have := (h.mKeys s.nextId).mp (by simp [hg]); simp [hfresh] at this
  refine ⟨p8, ?_, ?_, ?_, ?_, ?_, ?_, ?_, ?_, ?_, ?_, ?_, ?_, ?_⟩
  · rw [p1]; exact keys_set_nodup _ _ _ h.keysNodup
  · rw [p2]; exact keys_set_nodup _ _ _ h.revNodup
  · rw [p3]; exact keys_set_nodup _ _ _ h.wNodup
  · rw [p4]; exact keys_set_nodup _ _ _ h.mNodup
  · intro k' id'
    rw [p1, p2]; simp only [get?_set]
    intro hh
    by_cases he : k = k'
    · subst he; simp at hh; subst hh; simp
    · simp only [he, if_false] at hh
      have hr := h.rev_of_edge k' id' hh
      have hlt := h.id_lt _ _ hr
      have : s.nextId ≠ id' := by omega
      simp [this, hr]
  · intro k' id'
    rw [p1, p2]; simp only [get?_set]
    intro hh
    by_cases hid : s.nextId = id'
    · subst hid; simp at hh; subst hh; simp
    · simp only [hid, if_false] at hh
      have h2 := h.edge_of_rev k' id' hh
      have : k ≠ k' := by intro heq; rw [heq] at hget; rw [hget] at h2; cases h2
      simp [this, h2]
  · intro id' k'
    rw [p2, p5]; simp only [get?_set]
    intro hh
    by_cases hid : s.nextId = id'
    · omega
    · simp only [hid, if_false] at hh; have := h.id_lt _ _ hh; omega
  · intro id'
    rw [p3, p2]; simp only [get?_set]
    by_cases hid : s.nextId = id'
    · simp [hid]
    · simp only [hid, if_false]; exact h.wKeys id'
  · intro id'
    rw [p4, p2]; simp only [get?_set]
    by_cases hid : s.nextId = id'
    · simp [hid]
    · simp only [hid, if_false]; exact h.mKeys id'
  · intro n ids
    rw [p9 n, p1, set_of_not_mem _ _ _ hget, List.filter_append, List.map_append]
    by_cases hn : n ∈ k.2
    · simp only [hn, if_true]
      intro hh; cases hh
      have : [(k, s.nextId)].filter (hasNode n) = [(k, s.nextId)] := by simp [hasNode, hn]
      rw [this]; simp only [List.map_cons, List.map_nil]
      congr 1
      cases ha : get? s.adj n with
      | none => simp [no_key_of_not_adj s h n ha]
      | some ids0 => simp; exact h.adj_char n ids0 ha
    · simp only [hn, if_false]
      intro hh
      have : [(k, s.nextId)].filter (hasNode n) = [] := by simp [hasNode, hn]
      rw [this]; simp; exact h.adj_char n ids hh
  · intro k' id'
    rw [p1]; simp only [get?_set]
    intro hh n hn
    rw [p9 n]
    by_cases he : k = k'
    · subst he; simp [hn]
    · simp only [he, if_false] at hh
      split
      · simp
      · exact h.nodes_in k' id' hh n hn
  · intro k' id'
    rw [p1]; simp only [get?_set]
    intro hh
    by_cases he : k = k'
    · subst he; exact hk
    · simp only [he, if_false] at hh; exact h.keyCanon k' id' hh
  · rw [p6, p3]
    intro hw id' w'
    simp only [get?_set]
    by_cases hid : s.nextId = id'
    · simp only [hid, if_true]; intro hh; cases hh; exact hwt hw
    · simp only [hid, if_false]; exact h.unw hw id' w'

theorem addEdgeOld_inv (s : Store) (id : Nat) (k : Key) (wt : Int) (md : Meta) (h : Inv s)
    (hget : get? s.edgeList k = some id) (hwt : s.weighted = false → wt = one) :
    Inv (addEdgeOld s id k wt md) := by
  have hrev := h.rev_of_edge k id hget
  have hws : (get? s.weights id).isSome := (h.wKeys id).mpr (by simp [hrev])
  have hms : (get? s.emeta id).isSome := (h.mKeys id).mpr (by simp [hrev])
  unfold addEdgeOld
  let s0 : Store := { s with weights := if s.weighted then AL.set s.weights id (((AL.get? s.weights id).getD 0) + wt) else s.weights,
                             emeta := AL.set s.emeta id md }
  have hnt0 : NT s0 := ⟨h.nt.adjNodup, h.nt.nmetaNodup, h.nt.same⟩
  have hf := touchNodes_fields s0 k.2
  have hadj : ∀ n, get? (touchNodes s0 k.2).adj n = get? s.adj n := by
    intro n
    rw [touchNodes_adj s0 hnt0]
    split
    · rename_i hn
      have := h.nodes_in k id hget n hn
      obtain ⟨v, hv⟩ := Option.isSome_iff_exists.mp this
      simp [s0, hv]
    · rfl
  have hwk : ∀ id', (get? s0.weights id').isSome ↔ (get? s.weights id').isSome := by
    intro id'
    simp only [s0]
    split
    · simp only [get?_set]
      by_cases hid : id = id'
      · subst hid; simp [hws]
      · simp [hid]
    · rfl
  refine ⟨touchNodes_NT s0 hnt0 k.2, by rw [hf.1]; exact h.keysNodup, by rw [hf.2.1]; exact h.revNodup, ?_, ?_,
    by rw [hf.1, hf.2.1]; exact h.rev_of_edge, by rw [hf.1, hf.2.1]; exact h.edge_of_rev,
    by rw [hf.2.1, hf.2.2.2.2.1]; exact h.id_lt, ?_, ?_, ?_, ?_, by rw [hf.1]; exact h.keyCanon, ?_⟩
  · rw [hf.2.2.1]; simp only [s0]; split
    · exact keys_set_nodup _ _ _ h.wNodup
    · exact h.wNodup
  · rw [hf.2.2.2.1]; exact keys_set_nodup _ _ _ h.mNodup
  · intro id'; rw [hf.2.2.1, hf.2.1, hwk]; exact h.wKeys id'
  · intro id'; rw [hf.2.2.2.1, hf.2.1]; simp only [s0, get?_set]
    by_cases hid : id = id'
    · subst hid; simp [hrev]
    · simp only [hid, if_false]; exact h.mKeys id'
  · intro n ids; rw [hadj n, hf.1]; exact h.adj_char n ids
  · intro k' id' hh n hn; rw [hadj n]; rw [hf.1] at hh; exact h.nodes_in k' id' hh n hn
  · rw [hf.2.2.2.2.2.1, hf.2.2.1]
    intro hw id' w'
    have hw' : s.weighted = false := hw
    simp only [s0, hw']
    exact h.unw hw' id' w'

end C03

namespace C03
open AL

theorem filter_erase_ids (l : List (Key × Nat)) (k : Key) (id : Nat) (p : Key × Nat → Bool)
    (hnd : (keys l).Nodup) (hinj : ∀ a ∈ l, ∀ b ∈ l, a.2 = b.2 → a = b) (hget : get? l k = some id) :
    ((AL.erase l k).filter p).map (·.2) =
      if p (k, id) then ((l.filter p).map (·.2)).erase id else (l.filter p).map (·.2) := by
  induction l with
  | nil => simp at hget
  | cons hd t ih =>
    obtain ⟨k', id'⟩ := hd
    simp only [keys, List.map_cons, List.nodup_cons] at hnd
    by_cases hk : k' = k
    · subst hk
      simp only [get?, if_true] at hget
      cases hget
      simp only [AL.erase, if_true, List.filter_cons]
      split
      · simp
      · rfl
    · simp only [get?, hk, if_false] at hget
      have hmem : (k, id) ∈ t := mem_of_get? t k id hget
      have hne : id' ≠ id := by
        intro hc
        have := hinj (k', id') (by simp) (k, id) (by simp [hmem]) hc
        exact hk (by cases this; rfl)
      have ih' := ih (by simpa [keys] using hnd.2)
        (fun a ha b hb => hinj a (by simp [ha]) b (by simp [hb])) hget
      simp only [AL.erase, hk, if_false, List.filter_cons]
      by_cases hp : p (k', id') = true
      · simp only [hp, if_true, List.map_cons, ih']
        split
        · rw [List.erase_cons_tail (by simpa using hne)]
        · rfl
      · have hp' : p (k', id') = false := by simpa using hp
        simp only [hp', Bool.false_eq_true, if_false, ih']

theorem edgeList_inj (s : Store) (h : Inv s) : ∀ a ∈ s.edgeList, ∀ b ∈ s.edgeList, a.2 = b.2 → a = b := by
  intro a ha b hb hab
  obtain ⟨k1, i1⟩ := a
  obtain ⟨k2, i2⟩ := b
  simp only at hab; subst hab
  have h1 := h.rev_of_edge k1 i1 (get?_of_mem _ _ _ h.keysNodup ha)
  have h2 := h.rev_of_edge k2 i1 (get?_of_mem _ _ _ h.keysNodup hb)
  rw [h1] at h2; cases h2; rfl

theorem removeKeyId_inv (s : Store) (k : Key) (id : Nat) (h : Inv s) (hget : get? s.edgeList k = some id) :
    Inv (removeKeyId s k id) := by
  have hrev := h.rev_of_edge k id hget
  have hknd := (h.keyCanon k id hget).2
  have hadj : ∀ n, get? (removeKeyId s k id).adj n = if n ∈ k.2 then (get? s.adj n).map (·.erase id) else get? s.adj n := by
    intro n; simp only [removeKeyId]; exact unlinkNodes_get _ _ _ hknd n
  refine ⟨⟨?_, h.nt.nmetaNodup, ?_⟩, keys_erase_nodup _ _ h.keysNodup, keys_erase_nodup _ _ h.revNodup,
    keys_erase_nodup _ _ h.wNodup, keys_erase_nodup _ _ h.mNodup, ?_, ?_, ?_, ?_, ?_, ?_, ?_, ?_, ?_⟩
  · simp only [removeKeyId]; rw [unlinkNodes_keys]; exact h.nt.adjNodup
  · intro n; rw [hadj n]
    have : (removeKeyId s k id).nmeta = s.nmeta := rfl
    rw [this, ← h.nt.same n]
    split <;> simp
  · intro k' id'
    simp only [removeKeyId]
    rw [get?_erase _ _ _ h.keysNodup, get?_erase _ _ _ h.revNodup]
    by_cases he : k = k'
    · simp [he]
    · simp only [he, if_false]
      intro hh
      have hr := h.rev_of_edge k' id' hh
      have : id ≠ id' := by intro hc; subst hc; rw [hrev] at hr; cases hr; exact he rfl
      simp [this, hr]
  · intro k' id'
    simp only [removeKeyId]
    rw [get?_erase _ _ _ h.keysNodup, get?_erase _ _ _ h.revNodup]
    by_cases hid : id = id'
    · simp [hid]
    · simp only [hid, if_false]
      intro hh
      have he := h.edge_of_rev k' id' hh
      have : k ≠ k' := by intro hc; subst hc; rw [hget] at he; cases he; exact hid rfl
      simp [this, he]
  · intro id' k'
    simp only [removeKeyId]
    rw [get?_erase _ _ _ h.revNodup]
    by_cases hid : id = id'
    · simp [hid]
    · simp only [hid, if_false]; exact h.id_lt id' k'
  · intro id'
    simp only [removeKeyId]
    rw [get?_erase _ _ _ h.wNodup, get?_erase _ _ _ h.revNodup]
    by_cases hid : id = id'
    · simp [hid]
    · simp only [hid, if_false]; exact h.wKeys id'
  · intro id'
    simp only [removeKeyId]
    rw [get?_erase _ _ _ h.mNodup, get?_erase _ _ _ h.revNodup]
    by_cases hid : id = id'
    · simp [hid]
    · simp only [hid, if_false]; exact h.mKeys id'
  · intro n ids
    rw [hadj n]
    have hel : (removeKeyId s k id).edgeList = AL.erase s.edgeList k := rfl
    rw [hel, filter_erase_ids s.edgeList k id (hasNode n) h.keysNodup (edgeList_inj s h) hget]
    by_cases hn : n ∈ k.2
    · have hp : hasNode n (k, id) = true := by simp [hasNode, hn]
      simp only [hn, hp, if_true]
      cases ha : get? s.adj n with
      | none => simp
      | some ids0 =>
        simp only [Option.map_some]
        intro hh; cases hh
        rw [h.adj_char n ids0 ha]
    · have hp : ¬ hasNode n (k, id) = true := by simp [hasNode, hn]
      simp only [hn, hp, if_false]
      exact h.adj_char n ids
  · intro k' id'
    simp only [removeKeyId]
    rw [get?_erase _ _ _ h.keysNodup]
    by_cases he : k = k'
    · simp [he]
    · simp only [he, if_false]
      intro hh n hn
      have := h.nodes_in k' id' hh n hn
      have h2 := hadj n
      simp only [removeKeyId] at h2
      rw [h2]
      split <;> simp [this]
  · intro k' id'
    simp only [removeKeyId]
    rw [get?_erase _ _ _ h.keysNodup]
    by_cases he : k = k'
    · simp [he]
    · simp only [he, if_false]; exact h.keyCanon k' id'
  · intro hw id' w'
    simp only [removeKeyId]
    rw [get?_erase _ _ _ h.wNodup]
    by_cases hid : id = id'
    · simp [hid]
    · simp only [hid, if_false]; exact h.unw hw id' w'

end C03

namespace C03
open AL

theorem inv_weights (s : Store) (h : Inv s) (ws : List (Nat × Int)) (hnd : (keys ws).Nodup)
    (hk : ∀ id, (get? ws id).isSome ↔ (get? s.weights id).isSome)
    (hu : s.weighted = false → ∀ id w, get? ws id = some w → w = one) : Inv { s with weights := ws } :=
  ⟨⟨h.nt.adjNodup, h.nt.nmetaNodup, h.nt.same⟩, h.keysNodup, h.revNodup, hnd, h.mNodup, h.rev_of_edge, h.edge_of_rev,
   h.id_lt, fun id => (hk id).trans (h.wKeys id), h.mKeys, h.adj_char, h.nodes_in, h.keyCanon, hu⟩

theorem inv_emeta (s : Store) (h : Inv s) (ms : List (Nat × Meta)) (hnd : (keys ms).Nodup)
    (hk : ∀ id, (get? ms id).isSome ↔ (get? s.emeta id).isSome) : Inv { s with emeta := ms } :=
  ⟨⟨h.nt.adjNodup, h.nt.nmetaNodup, h.nt.same⟩, h.keysNodup, h.revNodup, h.wNodup, hnd, h.rev_of_edge, h.edge_of_rev,
   h.id_lt, h.wKeys, fun id => (hk id).trans (h.mKeys id), h.adj_char, h.nodes_in, h.keyCanon, h.unw⟩

theorem inv_nmeta (s : Store) (h : Inv s) (ms : List (Node × Meta)) (hnd : (keys ms).Nodup)
    (hk : ∀ n, (get? ms n).isSome ↔ (get? s.nmeta n).isSome) : Inv { s with nmeta := ms } :=
  ⟨⟨h.nt.adjNodup, hnd, fun n => (h.nt.same n).trans (hk n).symm⟩, h.keysNodup, h.revNodup, h.wNodup, h.mNodup,
   h.rev_of_edge, h.edge_of_rev, h.id_lt, h.wKeys, h.mKeys, h.adj_char, h.nodes_in, h.keyCanon, h.unw⟩

theorem inv_hmeta (s : Store) (h : Inv s) (md : Meta) : Inv { s with hmeta := md } :=
  ⟨⟨h.nt.adjNodup, h.nt.nmetaNodup, h.nt.same⟩, h.keysNodup, h.revNodup, h.wNodup, h.mNodup,
   h.rev_of_edge, h.edge_of_rev, h.id_lt, h.wKeys, h.mKeys, h.adj_char, h.nodes_in, h.keyCanon, h.unw⟩

theorem isSome_set_existing {β} (l : List (Nat × β)) (k : Nat) (v : β) (hk : (get? l k).isSome) (k2 : Nat) :
    (get? (AL.set l k v) k2).isSome ↔ (get? l k2).isSome := by
  rw [get?_set]
  by_cases h : k = k2
  · subst h; simp [hk]
  · simp [h]

theorem fillMeta_inv (s : Store) (h : Inv s) (n : Node) (md : Meta) : Inv (fillMeta s n md) := by
  unfold fillMeta
  split
  · rename_i hg
    exact inv_nmeta s h _ (keys_set_nodup _ _ _ h.nt.nmetaNodup) (isSome_set_existing _ _ _ (by simp [hg]))
  · exact h

theorem touchNode_inv (s : Store) (h : Inv s) (n : Node) : Inv (touchNode s n) := by
  have hf := touchNode_fields s n
  have hadj := touchNode_adj s h.nt n
  refine ⟨touchNode_NT s h.nt n, by rw [hf.1]; exact h.keysNodup, by rw [hf.2.1]; exact h.revNodup,
    by rw [hf.2.2.1]; exact h.wNodup, by rw [hf.2.2.2.1]; exact h.mNodup,
    by rw [hf.1, hf.2.1]; exact h.rev_of_edge, by rw [hf.1, hf.2.1]; exact h.edge_of_rev,
    by rw [hf.2.1, hf.2.2.2.2.1]; exact h.id_lt, by rw [hf.2.2.1, hf.2.1]; exact h.wKeys,
    by rw [hf.2.2.2.1, hf.2.1]; exact h.mKeys, ?_, ?_, by rw [hf.1]; exact h.keyCanon,
    by rw [hf.2.2.2.2.2.1, hf.2.2.1]; exact h.unw⟩
  · intro m ids
    rw [hadj m, hf.1]
    by_cases hm : m = n
    · subst hm
      simp only [if_true]
      cases ha : get? s.adj m with
      | none => simp [no_key_of_not_adj s h m ha]
      | some ids0 => simp only [Option.getD_some, Option.some.injEq]; intro hh; subst hh; exact h.adj_char m ids0 ha
    · simp only [hm, if_false]; exact h.adj_char m ids
  · intro k id hh m hm
    rw [hf.1] at hh
    rw [hadj m]
    have := h.nodes_in k id hh m hm
    split
    · simp
    · exact this

theorem addNode_inv (s : Store) (h : Inv s) (n : Node) (md : Option Meta) : Inv (addNode s n md) :=
  fillMeta_inv _ (touchNode_inv s h n) n _

theorem foldl_inv {α} (f : Store → α → Store) (hf : ∀ s a, Inv s → Inv (f s a)) (l : List α) (s : Store) (h : Inv s) :
    Inv (l.foldl f s) := by
  induction l generalizing s with
  | nil => exact h
  | cons a l ih => exact ih _ (hf s a h)

theorem addNodes_inv (s : Store) (h : Inv s) (ns : List Node) (mds : Option (List (Node × Meta))) :
    Inv (addNodes s ns mds).1 := by
  unfold addNodes
  cases mds with
  | none => exact foldl_inv _ (fun s n hs => addNode_inv s hs n none) ns s h
  | some d =>
    simp only []
    split
    · exact foldl_inv _ (fun s n hs => addNode_inv s hs n _) ns s h
    · exact h

theorem addEdgeKey_inv (s : Store) (k : Key) (wt : Int) (md : Meta) (h : Inv s)
    (hk : Sorted k.2 ∧ k.2.Nodup) (hwt : s.weighted = false → wt = one) : Inv (addEdgeKey s k wt md) := by
  unfold addEdgeKey
  cases hg : get? s.edgeList k with
  | none => exact addEdgeNew_inv s k wt md h hk hg hwt
  | some id => exact addEdgeOld_inv s id k wt md h hg hwt

theorem addEdge_inv (s : Store) (h : Inv s) (raw : List Nat) (hraw : raw.Nodup) (t : TimeArg) (w : Option Int)
    (md : Option Meta) : Inv (addEdge s raw t w md).1 := by
  unfold addEdge
  cases t with
  | bad => exact h
  | int i =>
    simp only []
    split
    · exact h
    · rename_i hrej
      split
      · exact h
      · apply addEdgeKey_inv s _ _ _ h ⟨canon_sorted raw, canon_nodup hraw⟩
        intro hw
        cases w with
        | none => rfl
        | some v =>
          simp [hw] at hrej
          simp [hrej]

theorem addEdge_weighted (s : Store) (raw : List Nat) (t : TimeArg) (w : Option Int) (md : Option Meta) :
    (addEdge s raw t w md).1.weighted = s.weighted := by
  unfold addEdge
  cases t with
  | bad => rfl
  | int i =>
    simp only []
    split
    · rfl
    · split
      · rfl
      · unfold addEdgeKey
        split
        · unfold addEdgeNew; simp only []; rw [(touchNodes_fields _ _).2.2.2.2.2.1]
        · unfold addEdgeOld; rw [(touchNodes_fields _ _).2.2.2.2.2.1]

theorem addEdgesLoop_inv (ws : Option (List Int)) (mds : Option (List Meta)) (l : List (List Nat × TimeArg))
    (hl : ∀ p ∈ l, p.1.Nodup) (i : Nat) (s : Store) (h : Inv s) : Inv (addEdgesLoop s ws mds i l) := by
  induction l generalizing s i with
  | nil => exact h
  | cons p l ih =>
    obtain ⟨raw, t⟩ := p
    simp only [addEdgesLoop]
    exact ih (fun p hp => hl p (by simp [hp])) _ _ (addEdge_inv s h raw (hl (raw, t) (by simp)) t _ _)

/-- flipping to weighted keeps the invariant (the unweighted clause becomes vacuous) -/
theorem inv_setWeighted (s : Store) (h : Inv s) : Inv { s with weighted := true } :=
  ⟨⟨h.nt.adjNodup, h.nt.nmetaNodup, h.nt.same⟩, h.keysNodup, h.revNodup, h.wNodup, h.mNodup,
   h.rev_of_edge, h.edge_of_rev, h.id_lt, h.wKeys, h.mKeys, h.adj_char, h.nodes_in, h.keyCanon, by simp⟩

theorem addEdges_inv (s : Store) (h : Inv s) (raws : List (List Nat)) (hraws : ∀ r ∈ raws, r.Nodup)
    (ts : List TimeArg) (ws : Option (List Int)) (mds : Option (List Meta)) : Inv (addEdges s raws ts ws mds).1 := by
  unfold addEdges
  have hl : ∀ p ∈ raws.zip ts, p.1.Nodup := fun p hp => hraws p.1 (List.of_mem_zip hp).1
  split
  · apply addEdgesLoop_inv ws mds _ hl
    split
    · exact inv_setWeighted s h
    · exact h
  · exact h

end C03

namespace C03
open AL

theorem removeKey_inv (s : Store) (h : Inv s) (k : Key) : Inv (removeKey s k).1 := by
  unfold removeKey
  cases hg : get? s.edgeList k with
  | none => exact h
  | some id => exact removeKeyId_inv s k id h hg

theorem removeEdge_inv (s : Store) (h : Inv s) (raw : List Nat) (t : TimeArg) : Inv (removeEdge s raw t).1 := by
  unfold removeEdge
  cases mkKey raw t with
  | none => exact h
  | some k => exact removeKey_inv s h k

theorem removeEdges_inv (s : Store) (h : Inv s) (recs : List (TimeArg × List Nat)) : Inv (removeEdges s recs).1 := by
  unfold removeEdges
  cases List.mapM (fun r => mkKey r.2 r.1) recs with
  | none => exact h
  | some ks =>
    simp only []
    split
    · exact foldl_inv _ (fun s k hs => removeKey_inv s hs k) ks s h
    · exact h

/-- one iteration of `remove_node`'s loop: invariant kept, the processed id leaves the node's adjacency list,
the rest of that list is untouched -/
theorem dropIncident_spec (s : Store) (h : Inv s) (n : Node) (keep : Bool) (id : Nat) (rest : List Nat)
    (hadj : get? s.adj n = some (id :: rest)) :
    Inv (dropIncident s n keep id) ∧ get? (dropIncident s n keep id).adj n = some rest := by
  -- the id at the head of the adjacency list is the id of a record containing n
  have hmem : id ∈ (s.edgeList.filter (hasNode n)).map (·.2) := by
    rw [← h.adj_char n _ hadj]; simp
  obtain ⟨p, hp, hpid⟩ := List.mem_map.mp hmem
  obtain ⟨k, id'⟩ := p
  simp only at hpid; subst hpid
  obtain ⟨hp1, hp2⟩ := List.mem_filter.mp hp
  have hnk : n ∈ k.2 := by simpa [hasNode] using hp2
  have hget := get?_of_mem _ _ _ h.keysNodup hp1
  have hrev := h.rev_of_edge k id' hget
  have hcan := h.keyCanon k id' hget
  unfold dropIncident
  simp only [hrev]
  have hrk : removeKey s k = (removeKeyId s k id', Out.ok) := by simp [removeKey, hget]
  have hinv1 := removeKeyId_inv s k id' h hget
  have hadj1 : get? (removeKeyId s k id').adj n = some rest := by
    simp only [removeKeyId]
    rw [unlinkNodes_get _ _ _ hcan.2, hadj]; simp [hnk]
  rw [hrk]
  simp only []
  split
  · -- keep_edges and a non-empty remainder: re-insert without the node
    let upd := k.2.filter (· != n)
    have hupd_nodup : upd.Nodup := hcan.2.filter _
    refine ⟨addEdge_inv _ hinv1 upd hupd_nodup _ _ _, ?_⟩
    have hn_not : n ∉ C03.canon upd := by
      intro hc; have := mem_canon.mp hc; simp [upd] at this
    -- addEdge does not touch the adjacency list of a node outside the inserted set
    have key : ∀ (s1 : Store) (hs1 : Inv s1) (w : Option Int) (md : Option Meta),
        get? (addEdge s1 upd (.int k.1) w md).1.adj n = get? s1.adj n := by
      intro s1 hs1 w md
      unfold addEdge
      simp only []
      split
      · rfl
      · split
        · rfl
        · unfold addEdgeKey
          cases hg : get? s1.edgeList ((k.1 : Int).toNat, C03.canon upd) with
          | none =>
            have := (addEdgeNew_parts s1 ((k.1 : Int).toNat, C03.canon upd) (w.getD one) (md.getD []) hs1
              (canon_nodup hupd_nodup)).2.2.2.2.2.2.2.2.1 n
            simp only [] at this
            rw [this]; simp [hn_not]
          | some idx =>
            simp only [addEdgeOld]
            have hnt : NT { s1 with weights := if s1.weighted = true then AL.set s1.weights idx ((get? s1.weights idx).getD 0 + w.getD one) else s1.weights, emeta := AL.set s1.emeta idx (md.getD []) } :=
              ⟨hs1.nt.adjNodup, hs1.nt.nmetaNodup, hs1.nt.same⟩
            rw [touchNodes_adj _ hnt]
            simp [hn_not]
    rw [key _ hinv1]; exact hadj1
  · exact ⟨hinv1, hadj1⟩

theorem dropLoop_spec (n : Node) (keep : Bool) (ids : List Nat) (s : Store) (h : Inv s)
    (hadj : get? s.adj n = some ids) :
    Inv (ids.foldl (fun s id => dropIncident s n keep id) s) ∧
    get? (ids.foldl (fun s id => dropIncident s n keep id) s).adj n = some [] := by
  induction ids generalizing s with
  | nil => exact ⟨h, hadj⟩
  | cons id rest ih =>
    obtain ⟨h1, h2⟩ := dropIncident_spec s h n keep id rest hadj
    simp only [List.foldl_cons]
    exact ih _ h1 h2

theorem removeNode_inv (s : Store) (h : Inv s) (n : Node) (keep : Bool) : Inv (removeNode s n keep).1 := by
  unfold removeNode
  cases hadj : get? s.adj n with
  | none => exact h
  | some ids =>
    simp only []
    obtain ⟨h1, h2⟩ := dropLoop_spec n keep ids s h hadj
    generalize (ids.foldl (fun s id => dropIncident s n keep id) s) = s1 at h1 h2
    -- after the loop no record contains n
    have hnone : s1.edgeList.filter (hasNode n) = [] := by
      have := h1.adj_char n [] h2
      cases hf : s1.edgeList.filter (hasNode n) with
      | nil => rfl
      | cons a t => rw [hf] at this; simp at this
    have hnotin : ∀ k id, get? s1.edgeList k = some id → n ∉ k.2 := by
      intro k id hg hc
      have : (k, id) ∈ s1.edgeList.filter (hasNode n) :=
        List.mem_filter.mpr ⟨mem_of_get? _ _ _ hg, by simp [hasNode, hc]⟩
      rw [hnone] at this; cases this
    refine ⟨⟨keys_erase_nodup _ _ h1.nt.adjNodup, keys_erase_nodup _ _ h1.nt.nmetaNodup, ?_⟩, h1.keysNodup, h1.revNodup,
      h1.wNodup, h1.mNodup, h1.rev_of_edge, h1.edge_of_rev, h1.id_lt, h1.wKeys, h1.mKeys, ?_, ?_, h1.keyCanon, h1.unw⟩
    · intro m
      simp only []
      rw [get?_erase _ _ _ h1.nt.adjNodup, get?_erase _ _ _ h1.nt.nmetaNodup]
      by_cases hm : n = m
      · simp [hm]
      · simp only [hm, if_false]; exact h1.nt.same m
    · intro m ids'
      simp only []
      rw [get?_erase _ _ _ h1.nt.adjNodup]
      by_cases hm : n = m
      · simp [hm]
      · simp only [hm, if_false]; exact h1.adj_char m ids'
    · intro k id hg m hm
      simp only []
      rw [get?_erase _ _ _ h1.nt.adjNodup]
      have : n ≠ m := by intro hc; subst hc; exact hnotin k id hg hm
      simp only [this, if_false]
      exact h1.nodes_in k id hg m hm

theorem removeNodes_inv (s : Store) (h : Inv s) (ns : List Node) (keep : Bool) : Inv (removeNodes s ns keep).1 := by
  unfold removeNodes
  split
  · exact foldl_inv _ (fun s n hs => removeNode_inv s hs n keep) ns s h
  · exact h

theorem idOf_spec (s : Store) (h : Inv s) (raw : List Nat) (t : TimeArg) (id : Nat) (hid : idOf s raw t = some id) :
    (get? s.rev id).isSome ∧ (get? s.weights id).isSome ∧ (get? s.emeta id).isSome := by
  unfold idOf at hid
  cases hk : mkKey raw t with
  | none => simp [hk] at hid
  | some k =>
    simp [hk] at hid
    have hr := h.rev_of_edge k id hid
    exact ⟨by simp [hr], (h.wKeys id).mpr (by simp [hr]), (h.mKeys id).mpr (by simp [hr])⟩

theorem setWeight_inv (s : Store) (h : Inv s) (raw : List Nat) (t : TimeArg) (w : Int) : Inv (setWeight s raw t w).1 := by
  unfold setWeight
  split
  · exact h
  · rename_i hrej
    cases hid : idOf s raw t with
    | none => exact h
    | some id =>
      simp only []
      obtain ⟨_, hw, _⟩ := idOf_spec s h raw t id hid
      apply inv_weights s h _ (keys_set_nodup _ _ _ h.wNodup) (isSome_set_existing _ _ _ hw)
      intro hu id' w'
      rw [get?_set]
      by_cases hh : id = id'
      · simp only [hh, if_true]; intro he; cases he
        simp [hu] at hrej; exact hrej
      · simp only [hh, if_false]; exact h.unw hu id' w'

/-- well-formed operation: hyperedges are node SETS (duplicate-free tuples) - the property's quantifier -/
def SOp.WF : SOp → Prop
  | .addEdge raw _ _ _ => raw.Nodup
  | .addEdges raws _ _ _ => ∀ r ∈ raws, r.Nodup
  | _ => True

def Op.WF : Op → Prop
  | .on _ o => o.WF
  | _ => True

instance (o : SOp) : Decidable o.WF := by cases o <;> simp only [SOp.WF] <;> infer_instance
instance (o : Op) : Decidable o.WF := by cases o <;> simp only [Op.WF] <;> infer_instance

theorem applyOp_inv (s : Store) (h : Inv s) (o : SOp) (hwf : o.WF) : Inv (applyOp s o).1 := by
  cases o with
  | addNode n md => exact addNode_inv s h n md
  | addNodes ns mds => exact addNodes_inv s h ns mds
  | addEdge raw t w md => exact addEdge_inv s h raw hwf t w md
  | addEdges raws ts ws mds => exact addEdges_inv s h raws hwf ts ws mds
  | removeEdge raw t => exact removeEdge_inv s h raw t
  | removeEdges recs => exact removeEdges_inv s h recs
  | removeNode n keep => exact removeNode_inv s h n keep
  | removeNodes ns keep => exact removeNodes_inv s h ns keep
  | setWeight raw t w => exact setWeight_inv s h raw t w
  | setNodeMeta n md =>
    simp only [applyOp, setNodeMeta]
    split
    · rename_i hs; exact inv_nmeta s h _ (keys_set_nodup _ _ _ h.nt.nmetaNodup) (isSome_set_existing _ _ _ hs)
    · exact h
  | setEdgeMeta raw t md =>
    simp only [applyOp, setEdgeMeta]
    cases hid : idOf s raw t with
    | none => exact h
    | some id =>
      exact inv_emeta s h _ (keys_set_nodup _ _ _ h.mNodup) (isSome_set_existing _ _ _ (idOf_spec s h raw t id hid).2.2)
  | setHMeta md => exact inv_hmeta s h md
  | attrH k v => exact inv_hmeta s h _
  | attrNode n k v =>
    simp only [applyOp, attrNode]
    cases hg : get? s.nmeta n with
    | none => exact h
    | some md => exact inv_nmeta s h _ (keys_set_nodup _ _ _ h.nt.nmetaNodup) (isSome_set_existing _ _ _ (by simp [hg]))
  | attrEdge raw t k v =>
    simp only [applyOp, attrEdge]
    cases hid : idOf s raw t with
    | none => exact h
    | some id =>
      exact inv_emeta s h _ (keys_set_nodup _ _ _ h.mNodup) (isSome_set_existing _ _ _ (idOf_spec s h raw t id hid).2.2)
  | delAttrNode n k =>
    simp only [applyOp, delAttrNode]
    cases hg : get? s.nmeta n with
    | none => exact h
    | some md =>
      simp only []
      split
      · exact inv_nmeta s h _ (keys_set_nodup _ _ _ h.nt.nmetaNodup) (isSome_set_existing _ _ _ (by simp [hg]))
      · exact h
  | delAttrEdge raw t k =>
    simp only [applyOp, delAttrEdge]
    cases hid : idOf s raw t with
    | none => exact h
    | some id =>
      simp only []
      split
      · exact inv_emeta s h _ (keys_set_nodup _ _ _ h.mNodup) (isSome_set_existing _ _ _ (idOf_spec s h raw t id hid).2.2)
      · exact h
  | clear => exact inv_clear s

end C03

namespace AL
variable {α β : Type} [DecidableEq α]
theorem mem_set (l : List (α × β)) (k : α) (v : β) (p : α × β) (hp : p ∈ set l k v) : p = (k, v) ∨ p ∈ l := by
  induction l with
  | nil => simp [set] at hp; exact Or.inl hp
  | cons hd t ih => grind [set]
end AL

namespace C03
open AL

/-- every object of the state satisfies the invariant -/
def StateInv (st : State) : Prop := ∀ p ∈ st, Inv p.2

theorem step_inv (st : State) (hst : StateInv st) (op : Op) (hwf : op.WF) : StateInv (step st op).1 := by
  cases op with
  | new i w =>
    intro p hp
    rcases mem_set _ _ _ _ hp with hp | hp
    · subst hp; exact inv_new w
    · exact hst p hp
  | on i o =>
    simp only [step]
    cases hg : get? st i with
    | none => exact hst
    | some s =>
      intro p hp
      rcases mem_set _ _ _ _ hp with hp | hp
      · subst hp; exact applyOp_inv s (hst (i, s) (mem_of_get? _ _ _ hg)) o hwf
      · exact hst p hp
  | copy i j =>
    simp only [step]
    cases hg : get? st i with
    | none => exact hst
    | some s =>
      intro p hp
      rcases mem_set _ _ _ _ hp with hp | hp
      · subst hp; exact hst (i, s) (mem_of_get? _ _ _ hg)
      · exact hst p hp
  | query i q =>
    simp only [step]
    cases hg : get? st i with
    | none => exact hst
    | some s => exact hst

theorem run_inv (ops : List Op) (hwf : ∀ op ∈ ops, op.WF) (st : State) (hst : StateInv st) : StateInv (run st ops) := by
  induction ops generalizing st with
  | nil => exact hst
  | cons op ops ih =>
    simp only [run, List.foldl_cons]
    exact ih (fun o ho => hwf o (by simp [ho])) _ (step_inv st hst op (hwf op (by simp)))

end C03
