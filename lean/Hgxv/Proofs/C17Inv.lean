import Hgxv.Proofs.C17Psi
set_option linter.unusedSectionVars false
/-! The invariant of `HypergraphMT`'s incremental tables and its preservation by every node update. -/
namespace C17
variable {α : Type} [Field α] [LinearOrder α] [IsStrictOrderedRing α]

/-- what the code guarantees about its configuration: `min_value_par >= 0`, and the upper clamp and its
replacement value are not below it (`1e2` in the code) -/
structure CfgOk (c : Cfg α) : Prop where
  minv : 0 ≤ c.minv
  maxv : ∀ t v, c.maxv = some (t, v) → c.minv ≤ t ∧ c.minv ≤ v

/-- the invariant: the maintained table is the table of elementary symmetric polynomials of the columns of `u`;
`u` and `psiBarOmega` are non-negative; an entry of `u` is `0` or at least `min_value_par` -/
structure Inv0 (c : Cfg α) (s : St α) : Prop where
  psi : ∀ d k, d < c.D → k < c.K → at2 s.psi d k = esymm (d + 1) (col c.N s.u k)
  unn : ∀ i k, 0 ≤ at2 s.u i k
  bar : ∀ d k, 0 ≤ at2 s.bar d k

structure Inv (c : Cfg α) (s : St α) : Prop extends Inv0 c s where
  thr : ∀ i k, at2 s.u i k = 0 ∨ c.minv ≤ at2 s.u i k

theorem at2_tab2_nonneg (n m : Nat) (f : Nat → Nat → α) (h : ∀ i k, i < n → k < m → 0 ≤ f i k) (i k : Nat) :
    0 ≤ at2 (tab2 n m f) i k := by
  by_cases hi : i < n
  · by_cases hk : k < m
    · rw [at2_tab2 _ _ _ _ _ hi hk]; exact h i k hi hk
    · rw [at2_tab2_of_ge_col _ _ _ _ _ (by omega)]
  · rw [at2_tab2_of_ge _ _ _ _ _ (by omega)]

theorem sumR_congr (n : Nat) (f g : Nat → α) (h : ∀ i, i < n → f i = g i) : sumR n f = sumR n g := by
  unfold sumR; congr 1; apply List.map_congr_left; intro i hi; exact h i (by simpa using hi)

theorem tab_congr (n : Nat) (f g : Nat → α) (h : ∀ j, j < n → f j = g j) : tab n f = tab n g := by
  unfold tab; apply List.map_congr_left; intro j hj; exact h j (by simpa using hj)

theorem restL_nonneg (n : Nat) (f : Nat → α) (i : Nat) (h : ∀ j, 0 ≤ f j) : ∀ x ∈ restL n f i, 0 ≤ x := by
  intro x hx
  simp only [restL, List.mem_append, List.mem_map] at hx
  rcases hx with ⟨j, _, rfl⟩ | ⟨j, _, rfl⟩ <;> exact h j

theorem tab_nonneg (n : Nat) (f : Nat → α) (h : ∀ j, 0 ≤ f j) : ∀ x ∈ tab n f, 0 ≤ x := by
  intro x hx
  simp only [tab, List.mem_map] at hx
  obtain ⟨j, _, rfl⟩ := hx; exact h j

/-! ### the repairs do nothing on non-negative tables -/

theorem barRepair_of_nonneg (c : Cfg α) (m : Mat α) (h : ∀ r ∈ m, ∀ x ∈ r, 0 ≤ x) : barRepair c m = m := by
  unfold barRepair
  have h1 : (m.any fun r => r.any (isNegBig c)) = false := by
    rw [List.any_eq_false]; intro r hr
    rw [Bool.not_eq_true, List.any_eq_false]; intro x hx
    simp [isNegBig, isNeg, not_lt.mpr (h r hr x hx)]
  rw [h1]; simp only [Bool.false_eq_true, if_false]
  conv_rhs => rw [← List.map_id m]
  apply List.map_congr_left; intro r hr
  conv_rhs => rw [id, ← List.map_id r]
  apply List.map_congr_left; intro x hx
  simp [zeroNeg, not_lt.mpr (h r hr x hx)]

theorem hasNeg_of_nonneg (m : Mat α) (h : ∀ r ∈ m, ∀ x ∈ r, 0 ≤ x) : hasNeg m = false := by
  unfold hasNeg
  rw [List.any_eq_false]; intro r hr
  rw [Bool.not_eq_true, List.any_eq_false]; intro x hx
  simp [isNeg, not_lt.mpr (h r hr x hx)]

theorem at2_psiRepairLast (c : Cfg α) (m : Mat α) (h : ∀ d k, d < c.D → k < c.K → 0 ≤ at2 m d k)
    (d k : Nat) (hd : d < c.D) (hk : k < c.K) : at2 (psiRepairLast c m) d k = at2 m d k := by
  unfold psiRepairLast
  split
  · rfl
  · rw [at2_tab2 _ _ _ _ _ hd hk]
    split
    · simp [zeroNeg, not_lt.mpr (h d k hd hk)]
    · rfl

/-! ### the clamps -/

theorem clampLow_cases (c : Cfg α) (x : α) : clampLow c x = 0 ∨ (clampLow c x = x ∧ c.minv ≤ x) := by
  unfold clampLow; split
  · left; rfl
  · right; exact ⟨rfl, not_lt.mp ‹_›⟩

theorem clamp_thr (c : Cfg α) (hc : CfgOk c) (x : α) :
    clampHigh c (clampLow c x) = 0 ∨ c.minv ≤ clampHigh c (clampLow c x) := by
  unfold clampHigh
  split
  · rename_i t v hm
    split
    · right; exact (hc.maxv t v hm).2
    · rcases clampLow_cases c x with h | ⟨h, h'⟩
      · left; exact h
      · right; rw [h]; exact h'
  · rcases clampLow_cases c x with h | ⟨h, h'⟩
    · left; exact h
    · right; rw [h]; exact h'

theorem clamp_nonneg (c : Cfg α) (hc : CfgOk c) (x : α) : 0 ≤ clampHigh c (clampLow c x) := by
  rcases clamp_thr c hc x with h | h
  · rw [h]
  · exact le_trans hc.minv h

/-- an entry that is not above the threshold and is `0` or `≥ min_value_par` is left alone by both clamps -/
theorem clamp_inactive (c : Cfg α) (hc : CfgOk c) (x : α) (hx : x = 0 ∨ c.minv ≤ x) (hna : ¬ c.minv < x) :
    clampHigh c (clampLow c x) = x := by
  have hle : x ≤ c.minv := not_lt.mp hna
  have h1 : clampLow c x = x := by
    unfold clampLow; split
    · rcases hx with h | h
      · exact h.symm
      · exact absurd ‹x < c.minv› (not_lt.mpr h)
    · rfl
  rw [h1]; unfold clampHigh; split
  · rename_i t v hm
    have := (hc.maxv t v hm).1
    rw [if_neg (not_lt.mpr (le_trans hle this))]
  · rfl

/-! ### one node update -/

section node
variable (c : Cfg α) (hc : CfgOk c) (s : St α) (hs : Inv0 c s) (i : Nat) (hi : i < c.N)
include hc hs hi

/-- the recomputed columns of `psiBarOmega` hold the elementary symmetric polynomials of the column without node `i` -/
theorem barUpd_spec (act : Nat → Bool) (d k : Nat) (hd : d < c.D) (hk : k < c.K) :
    at2 (barUpd c act (fun k => at2 s.u i k) s.psi s.bar) d k
      = if act k then esymm (d + 1) (restL c.N (fun j => at2 s.u j k) i) else at2 s.bar d k := by
  unfold barUpd
  rw [at2_tab2 _ _ _ _ _ hd hk]
  split
  · exact barAt_eq s.psi k c.N (fun j => at2 s.u j k) i hi c.D (fun d' hd' => hs.psi d' k hd' hk) d hd
  · rfl

theorem barUpd_nonneg (act : Nat → Bool) :
    ∀ r ∈ barUpd c act (fun k => at2 s.u i k) s.psi s.bar, ∀ x ∈ r, 0 ≤ x := by
  intro r hr x hx
  obtain ⟨d, k, hd, hk, rfl⟩ := mem_tab2 _ _ _ r x hr hx
  split
  · rw [barAt_eq s.psi k c.N (fun j => at2 s.u j k) i hi c.D (fun d' hd' => hs.psi d' k hd' hk) d hd]
    exact esymm_nonneg _ _ (restL_nonneg _ _ _ (fun j => hs.unn j k))
  · exact hs.bar d k

theorem barNew_eq : barNew c s i = barUpd c (actK c s i) (fun k => at2 s.u i k) s.psi s.bar := by
  unfold barNew; exact barRepair_of_nonneg c _ (barUpd_nonneg c hc s hs i hi _)

theorem barNew_nonneg (d k : Nat) : 0 ≤ at2 (barNew c s i) d k := by
  rw [barNew_eq c hc s hs i hi]
  unfold barUpd
  apply at2_tab2_nonneg
  intro d k hd hk
  split
  · rw [barAt_eq s.psi k c.N (fun j => at2 s.u j k) i hi c.D (fun d' hd' => hs.psi d' k hd' hk) d hd]
    exact esymm_nonneg _ _ (restL_nonneg _ _ _ (fun j => hs.unn j k))
  · exact hs.bar d k

theorem barOk_barNew : barOk (barNew c s i) = true := by
  unfold barOk
  rw [barNew_eq c hc s hs i hi, hasNeg_of_nonneg _ (barUpd_nonneg c hc s hs i hi _)]; rfl

/-- column `k` after writing the row `v` at node `i` -/
theorem col_setRow (v : Nat → α) (k : Nat) (hk : k < c.K) :
    col c.N (setRow c s.u i v) k = tab c.N (fun j => if j = i then v k else at2 s.u j k) := by
  unfold col setRow
  apply tab_congr; intro j hj
  rw [at2_tab2 _ _ _ _ _ hj hk]

/-- the heart of `C17_psi`: after `psiUpd` with the difference `v - u[i]` on the recomputed columns the table is the
table of the new `u`, provided the row is unchanged on the other columns -/
theorem psiUpd_spec (act : Nat → Bool) (v : Nat → α) (hv : ∀ k, act k = false → v k = at2 s.u i k)
    (d k : Nat) (hd : d < c.D) (hk : k < c.K) :
    at2 (psiUpd c act (fun k => v k - at2 s.u i k) s.psi
          (barUpd c act (fun k => at2 s.u i k) s.psi s.bar)) d k
      = esymm (d + 1) (col c.N (setRow c s.u i v) k) := by
  rw [col_setRow c hc s hs i hi v k hk]
  unfold psiUpd
  rw [at2_tab2 _ _ _ _ _ hd hk]
  have hcol : col c.N s.u k = tab c.N (fun j => at2 s.u j k) := rfl
  have hrest : restL c.N (fun j => if j = i then v k else at2 s.u j k) i = restL c.N (fun j => at2 s.u j k) i :=
    restL_congr _ _ _ _ (fun j hj => by simp [hj])
  rw [esymm_tab c.N _ i hi d, hrest]
  simp only [if_true]
  cases hact : act k
  · simp only [Bool.false_eq_true, if_false]
    rw [hs.psi d k hd hk, hcol, esymm_tab c.N _ i hi d, hv k hact]
  · simp only [if_true]
    rw [hs.psi d k hd hk, hcol, esymm_tab c.N _ i hi d]
    cases d with
    | zero => simp only [esymm_zero]; ring
    | succ d' =>
      simp only
      rw [barUpd_spec c hc s hs i hi act d' k (by omega) hk, hact]
      simp only [if_true]; ring

theorem setRow_at2 (v : Nat → α) (hv0 : ∀ k, 0 ≤ v k) (j k : Nat) :
    (j < c.N ∧ k < c.K ∧ at2 (setRow c s.u i v) j k = (if j = i then v k else at2 s.u j k))
      ∨ at2 (setRow c s.u i v) j k = 0 := by
  by_cases hj : j < c.N
  · by_cases hk : k < c.K
    · left; exact ⟨hj, hk, at2_tab2 _ _ _ _ _ hj hk⟩
    · right; exact at2_tab2_of_ge_col _ _ _ _ _ (by omega)
  · right; exact at2_tab2_of_ge _ _ _ _ _ (by omega)

/-- `Inv0` is preserved when row `i` is replaced by a non-negative `v` (equal to the old row outside the recomputed
columns) and the tables are updated as the code does -/
theorem inv_step0 (act : Nat → Bool) (v : Nat → α) (hv : ∀ k, act k = false → v k = at2 s.u i k)
    (hv0 : ∀ k, 0 ≤ v k) (lams : List α) (rho : Mat α) :
    Inv0 c { s with u := setRow c s.u i v,
                    bar := barRepair c (barUpd c act (fun k => at2 s.u i k) s.psi s.bar),
                    psi := psiRepairLast c (psiUpd c act (fun k => v k - at2 s.u i k) s.psi
                             (barRepair c (barUpd c act (fun k => at2 s.u i k) s.psi s.bar))),
                    lams := lams, rho := rho } := by
  have hbr := barRepair_of_nonneg c _ (barUpd_nonneg c hc s hs i hi act)
  have hunn' : ∀ j k, 0 ≤ at2 (setRow c s.u i v) j k := by
    intro j k
    rcases setRow_at2 c hc s hs i hi v hv0 j k with ⟨_, _, h⟩ | h
    · rw [h]; split
      · exact hv0 k
      · exact hs.unn j k
    · rw [h]
  have hpsi' : ∀ d k, d < c.D → k < c.K →
      at2 (psiUpd c act (fun k => v k - at2 s.u i k) s.psi (barUpd c act (fun k => at2 s.u i k) s.psi s.bar)) d k
        = esymm (d + 1) (col c.N (setRow c s.u i v) k) := psiUpd_spec c hc s hs i hi act v hv
  refine ⟨?_, hunn', ?_⟩
  · intro d k hd hk
    simp only [hbr]
    rw [at2_psiRepairLast c _ _ d k hd hk, hpsi' d k hd hk]
    intro d k hd hk
    rw [hpsi' d k hd hk]
    exact esymm_nonneg _ _ (tab_nonneg _ _ (fun j => hunn' j k))
  · intro d k
    simp only [hbr]
    unfold barUpd
    apply at2_tab2_nonneg
    intro d k hd hk
    split
    · rw [barAt_eq s.psi k c.N (fun j => at2 s.u j k) i hi c.D (fun d' hd' => hs.psi d' k hd' hk) d hd]
      exact esymm_nonneg _ _ (restL_nonneg _ _ _ (fun j => hs.unn j k))
    · exact hs.bar d k

/-- the threshold clause for the new matrix -/
theorem thr_step (v : Nat → α) (hv0 : ∀ k, 0 ≤ v k) (hvt : ∀ k, v k = 0 ∨ c.minv ≤ v k) (j k : Nat)
    (hold : j ≠ i → at2 s.u j k = 0 ∨ c.minv ≤ at2 s.u j k) :
    at2 (setRow c s.u i v) j k = 0 ∨ c.minv ≤ at2 (setRow c s.u i v) j k := by
  rcases setRow_at2 c hc s hs i hi v hv0 j k with ⟨_, _, h⟩ | h
  · simp only [h]; split
    · exact hvt k
    · exact hold ‹_›
  · left; exact h

end node

section node2
variable (c : Cfg α) (hc : CfgOk c) (s : St α) (hs : Inv c s) (i : Nat) (hi : i < c.N)
include hc hs hi

theorem vNew_inactive (k : Nat) (h : actK c s i k = false) : vNew c s i k = at2 s.u i k := by
  unfold vNew; rw [h]; simp only [Bool.false_eq_true, if_false]
  apply clamp_inactive c hc _ (hs.thr i k)
  simpa [actK] using h

/-- every pass of the loop body of `_update_u` preserves the invariant (any `min_value_par ≥ 0`, any Lagrange
multiplier, any `rho`, `w`) -/
theorem uNode_inv : Inv c (uNode c s i) := by
  unfold uNode
  split
  · exact hs
  · split
    · exact ⟨⟨hs.psi, hs.unn, barNew_nonneg c hc s hs.toInv0 i hi⟩, hs.thr⟩
    · refine ⟨inv_step0 c hc s hs.toInv0 i hi (actK c s i) (vNew c s i) (vNew_inactive c hc s hs i hi)
        (fun k => clamp_nonneg c hc _) _ _, ?_⟩
      intro j k
      exact thr_step c hc s hs.toInv0 i hi (vNew c s i) (fun k => clamp_nonneg c hc _) (fun k => clamp_thr c hc _) j k
        (fun _ => hs.thr j k)

end node2

/-- a node whose row of `u` is zero is never touched by `_update_u` -/
theorem zero_row_stays (c : Cfg α) (hc : CfgOk c) (s : St α) (j : Nat) (hj : ∀ k, at2 s.u j k = 0) (i : Nat)
    (k : Nat) : at2 (uNode c s i).u j k = 0 := by
  unfold uNode
  split
  · exact hj k
  · split
    · exact hj k
    · simp only
      by_cases hjN : j < c.N
      · by_cases hkK : k < c.K
        · unfold setRow
          rw [at2_tab2 _ _ _ _ _ hjN hkK]
          split
          · rename_i hne _ hji
            exfalso; apply hne
            subst hji
            have : ∀ k, actK c s j k = false := by
              intro k; simp [actK, hj k, not_lt.mpr hc.minv]
            simp [anyK, this]
          · exact hj k
        · exact at2_tab2_of_ge_col _ _ _ _ _ (by omega)
      · exact at2_tab2_of_ge _ _ _ _ _ (by omega)

theorem uSweep_zero_row (c : Cfg α) (hc : CfgOk c) (j : Nat) (perm : List Nat) :
    ∀ (s : St α), (∀ k, at2 s.u j k = 0) → ∀ k, at2 (uSweep c s perm).u j k = 0 := by
  induction perm with
  | nil => intro s h; exact h
  | cons i perm ih =>
    intro s h
    unfold uSweep; simp only [List.foldl_cons]
    exact ih _ (fun k => zero_row_stays c hc s j h i k)

theorem uSweep_inv (c : Cfg α) (hc : CfgOk c) (perm : List Nat) (hp : ∀ i ∈ perm, i < c.N) :
    ∀ (s : St α), Inv c s → Inv c (uSweep c s perm) := by
  induction perm with
  | nil => intro s hs; exact hs
  | cons i perm ih =>
    intro s hs
    unfold uSweep; simp only [List.foldl_cons]
    exact ih (fun j hj => hp j (by simp [hj])) _ (uNode_inv c hc s hs i (hp i (by simp)))

/-- `_update_em` preserves the invariant (`w` and `rho` do not enter it) -/
theorem emSweep_inv (c : Cfg α) (hc : CfgOk c) (perm : List Nat) (hp : ∀ i ∈ perm, i < c.N)
    (s : St α) (hs : Inv c s) : Inv c (emSweep c s perm) := by
  unfold emSweep
  have h1 : Inv c { s with w := wUpdate c s.rho s.psi, rho := rhoUpdate c s.u (wUpdate c s.rho s.psi) } :=
    ⟨⟨hs.psi, hs.unn, hs.bar⟩, hs.thr⟩
  have h2 := uSweep_inv c hc perm hp _ h1
  exact ⟨⟨h2.psi, h2.unn, h2.bar⟩, h2.thr⟩

end C17
