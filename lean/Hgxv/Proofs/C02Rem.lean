import Hgxv.Proofs.C02Inv
/-! C02 helper lemmas, part 3: removal of hyperedges and nodes preserves the invariant (core Lean only). -/
namespace C02
open AL

/-! ### remove_edge -/

theorem unlink_get (adj : Adj) (id : Nat) (ns : List Node) (hnd : ns.Nodup) (m : Node) :
    get? (unlink adj id ns) m = if m ∈ ns then (get? adj m).map (·.erase id) else get? adj m := by
  induction ns generalizing adj with
  | nil => simp [unlink]
  | cons n ns ih =>
    simp only [unlink]
    have hn : n ∉ ns := (List.nodup_cons.mp hnd).1
    rw [ih _ (List.nodup_cons.mp hnd).2]
    cases ha : get? adj n with
    | none => simp only []; grind
    | some ids => simp only [get?_set]; grind

theorem unlink_nodup (adj : Adj) (id : Nat) (ns : List Node) (h : (keys adj).Nodup) :
    (keys (unlink adj id ns)).Nodup := by
  induction ns generalizing adj with
  | nil => simpa [unlink] using h
  | cons n ns ih =>
    simp only [unlink]
    apply ih
    split
    · exact keys_set_nodup _ _ _ h
    · exact h

theorem unlink_isSome (adj : Adj) (id : Nat) (ns : List Node) (hnd : ns.Nodup) (m : Node) :
    (get? (unlink adj id ns) m).isSome = (get? adj m).isSome := by
  rw [unlink_get _ _ _ hnd]; split <;> simp

/-- one slot of an adjacency map when the id of key `k` is deleted (generic in the role `proj`) -/
theorem adj_unstep (rev : List (Nat × Key)) (hndr : (keys rev).Nodup) (proj : Key → List Node) (k : Key) (id : Nat)
    (n : Node) (ids0 ids : List Nat) (hk : get? rev id = some k)
    (h0 : ∀ id', id' ∈ ids0 ↔ ∃ k', get? rev id' = some k' ∧ n ∈ proj k')
    (hnd : ids0.Nodup)
    (hids : ids = if n ∈ proj k then ids0.erase id else ids0) :
    ids.Nodup ∧ ∀ id', id' ∈ ids ↔ ∃ k', get? (AL.erase rev id) id' = some k' ∧ n ∈ proj k' := by
  have hmem : ∀ id', id' ∈ ids ↔ id' ≠ id ∧ id' ∈ ids0 := by
    intro id'
    by_cases hm : n ∈ proj k
    · rw [hids, if_pos hm]; exact List.Nodup.mem_erase_iff hnd
    · rw [hids, if_neg hm]
      constructor
      · intro h1; refine ⟨?_, h1⟩
        intro hc; subst hc
        obtain ⟨k', hk', hn⟩ := (h0 _).mp h1
        rw [hk] at hk'; injection hk' with hk'; subst hk'; exact hm hn
      · exact fun h1 => h1.2
  refine ⟨?_, ?_⟩
  · by_cases hm : n ∈ proj k
    · rw [hids, if_pos hm]; exact hnd.erase id
    · rw [hids, if_neg hm]; exact hnd
  · intro id'
    rw [hmem, h0, get?_erase _ _ _ hndr]
    by_cases hid : id = id'
    · subst hid; simp
    · have : id' ≠ id := fun hc => hid hc.symm
      simp [hid, this]

theorem removeEdgeKey_inv (s : Store) (k : Key) (h : Inv s) : Inv (removeEdgeKey s k).1 := by
  unfold removeEdgeKey
  cases hk : get? s.edgeList k with
  | none => exact h
  | some id =>
    simp only []
    have hr := h.rev_of_edge k id hk
    have wf := h.key_wf id k hr
    have gS := unlink_get s.adjS id k.1 wf.nodupS
    have gT := unlink_get s.adjT id k.2 wf.nodupT
    have sS : ∀ n ids, get? (unlink s.adjS id k.1) n = some ids →
        ids = if n ∈ k.1 then ((get? s.adjS n).getD []).erase id else (get? s.adjS n).getD [] := by
      intro n ids hh; rw [gS] at hh
      cases ha : get? s.adjS n with
      | none => rw [ha] at hh; split at hh <;> cases hh
      | some x => rw [ha] at hh; split at hh <;> simp_all
    have sT : ∀ n ids, get? (unlink s.adjT id k.2) n = some ids →
        ids = if n ∈ k.2 then ((get? s.adjT n).getD []).erase id else (get? s.adjT n).getD [] := by
      intro n ids hh; rw [gT] at hh
      cases ha : get? s.adjT n with
      | none => rw [ha] at hh; split at hh <;> cases hh
      | some x => rw [ha] at hh; split at hh <;> simp_all
    constructor
    · intro k' id' hh
      show get? (AL.erase s.rev id) id' = some k'
      have hh' : get? (AL.erase s.edgeList k) k' = some id' := hh
      rw [get?_erase _ _ _ h.nd_edge] at hh'
      by_cases he : k = k'
      · simp [he] at hh'
      · simp [he] at hh'
        have h1 := h.rev_of_edge k' id' hh'
        rw [get?_erase _ _ _ h.nd_rev]
        have : id ≠ id' := by
          intro hc; subst hc; rw [hr] at h1; injection h1 with h1; exact he h1
        simp [this, h1]
    · intro k' id' hh
      show get? (AL.erase s.edgeList k) k' = some id'
      have hh' : get? (AL.erase s.rev id) id' = some k' := hh
      rw [get?_erase _ _ _ h.nd_rev] at hh'
      by_cases he : id = id'
      · simp [he] at hh'
      · simp [he] at hh'
        have h1 := h.edge_of_rev k' id' hh'
        rw [get?_erase _ _ _ h.nd_edge]
        have : k ≠ k' := by
          intro hc; subst hc; rw [hk] at h1; injection h1 with h1; exact he h1
        simp [this, h1]
    · intro id' k' hh
      have hh' : get? (AL.erase s.rev id) id' = some k' := hh
      rw [get?_erase _ _ _ h.nd_rev] at hh'
      split at hh'
      · cases hh'
      · exact h.id_lt _ _ hh'
    · intro id' k' hh
      have hh' : get? (AL.erase s.rev id) id' = some k' := hh
      rw [get?_erase _ _ _ h.nd_rev] at hh'
      split at hh'
      · cases hh'
      · exact h.key_wf _ _ hh'
    · intro n ids hh
      exact (adj_unstep s.rev h.nd_rev (·.1) k id n _ ids hr (h.adjS_getD n) (h.adjS_getD_nodup n) (sS n ids hh)).1
    · intro n ids hh id'
      exact (adj_unstep s.rev h.nd_rev (·.1) k id n _ ids hr (h.adjS_getD n) (h.adjS_getD_nodup n) (sS n ids hh)).2 id'
    · intro n ids hh
      exact (adj_unstep s.rev h.nd_rev (·.2) k id n _ ids hr (h.adjT_getD n) (h.adjT_getD_nodup n) (sT n ids hh)).1
    · intro n ids hh id'
      exact (adj_unstep s.rev h.nd_rev (·.2) k id n _ ids hr (h.adjT_getD n) (h.adjT_getD_nodup n) (sT n ids hh)).2 id'
    · intro id' k' hh n hn
      have hh' : get? (AL.erase s.rev id) id' = some k' := hh
      rw [get?_erase _ _ _ h.nd_rev] at hh'
      split at hh'
      · cases hh'
      · show (get? (unlink s.adjS id k.1) n).isSome
        rw [unlink_isSome _ _ _ wf.nodupS]; exact h.nodes_in _ _ hh' n hn
    · intro n
      show (get? (unlink s.adjT id k.2) n).isSome = (get? (unlink s.adjS id k.1) n).isSome
      rw [unlink_isSome _ _ _ wf.nodupS, unlink_isSome _ _ _ wf.nodupT]; exact h.adj_same n
    · intro n
      show (get? s.nmeta n).isSome = (get? (unlink s.adjS id k.1) n).isSome
      rw [unlink_isSome _ _ _ wf.nodupS]; exact h.nmeta_same n
    · intro id'
      show (get? (AL.erase s.weights id) id').isSome = (get? (AL.erase s.rev id) id').isSome
      rw [get?_erase _ _ _ h.nd_w, get?_erase _ _ _ h.nd_rev]
      split
      · rfl
      · exact h.weights_same id'
    · intro id'
      show (get? (AL.erase s.emeta id) id').isSome = (get? (AL.erase s.rev id) id').isSome
      rw [get?_erase _ _ _ h.nd_em, get?_erase _ _ _ h.nd_rev]
      split
      · rfl
      · exact h.emeta_same id'
    · exact keys_erase_nodup _ _ h.nd_edge
    · exact keys_erase_nodup _ _ h.nd_rev
    · exact keys_erase_nodup _ _ h.nd_w
    · exact keys_erase_nodup _ _ h.nd_em
    · exact unlink_nodup _ _ _ h.nd_adjS
    · exact unlink_nodup _ _ _ h.nd_adjT
    · exact h.nd_nm

theorem removeEdge_inv (s : Store) (e : RawEdge) (h : Inv s) : Inv (removeEdge s e).1 := by
  unfold removeEdge
  split
  · exact h
  · exact removeEdgeKey_inv s _ h

theorem removeEdges_inv (s : Store) (es : List RawEdge) (h : Inv s) : Inv (removeEdges s es).1 := by
  induction es generalizing s with
  | nil => exact h
  | cons e es ih =>
    simp only [removeEdges]
    have h1 := removeEdge_inv s e h
    split
    · exact h1
    · exact ih _ h1

end C02
