import Hgxv.Proofs.C06WF
/-! C06: the hMETIS reader — what `add_edges` builds from the listed node sets, and what the line
scanner lists.  Core Lean only. -/
set_option linter.unusedSectionVars false
namespace C06

theorem nodup_of_nodup_map {α β : Type} (f : α → β) (l : List α) (h : (l.map f).Nodup) : l.Nodup := by
  induction l with
  | nil => simp
  | cons a t ih =>
    simp only [List.map_cons, List.nodup_cons, List.mem_map] at h ⊢
    exact ⟨fun ha => h.1 ⟨a, ha, rfl⟩, ih h.2⟩

theorem nodup_map_of_inj {α β : Type} (f : α → β) (hf : ∀ a b, f a = f b → a = b) (l : List α) (h : l.Nodup) :
    (l.map f).Nodup := by
  induction l with
  | nil => simp
  | cons a t ih =>
    simp only [List.map_cons, List.nodup_cons, List.mem_map] at h ⊢
    exact ⟨fun ⟨b, hb, hab⟩ => h.1 (hf _ _ hab ▸ hb), ih h.2⟩

section generic
variable {κ : Type} [DecidableEq κ] [Kind κ]

theorem addEdge_total (c : Content κ) (raw : κ) (w : Option Int) (m : Option Meta)
    (h : rejectsWeight c.weighted w = false) : ∃ c', addEdge c raw w m = some c' := by
  unfold addEdge; simp only [h]
  cases AL.get? c.edges (Kind.canon raw) <;> simp

theorem addEdge_keys_iff (c c' : Content κ) (raw : κ) (w : Option Int) (m : Option Meta)
    (h : addEdge c raw w m = some c') (k : κ) :
    k ∈ AL.keys c'.edges ↔ k ∈ AL.keys c.edges ∨ k = Kind.canon raw := by
  obtain ⟨_, _, hs⟩ := addEdge_spec c c' raw w m h
  cases hg : AL.get? c.edges (Kind.canon raw) with
  | none => rw [hg] at hs; rw [hs.1]; simp [AL.keys]
  | some old =>
    rw [hg] at hs
    have hold : Kind.canon raw ∈ AL.keys c.edges := by
      apply Decidable.byContradiction; intro hc
      rw [(AL.get?_eq_none_iff _ _).mpr hc] at hg; cases hg
    rw [hs.1, AL_keys_set_old _ _ _ hold]
    constructor
    · intro hk; exact Or.inl hk
    · rintro (hk | rfl); exact hk; exact hold

theorem addEdge_nodes_iff (c c' : Content κ) (raw : κ) (w : Option Int) (m : Option Meta)
    (hwf : WF c) (h : addEdge c raw w m = some c') (n : Nat) :
    n ∈ AL.keys c'.nodes ↔ n ∈ AL.keys c.nodes ∨ n ∈ Kind.members (Kind.canon raw) := by
  obtain ⟨_, _, hs⟩ := addEdge_spec c c' raw w m h
  cases hg : AL.get? c.edges (Kind.canon raw) with
  | none => rw [hg] at hs; rw [hs.2]; exact mem_keys_touchAll _ _ _
  | some old =>
    rw [hg] at hs
    have hmem := AL_get?_mem _ _ _ hg
    have hcl : ∀ x ∈ Kind.members (Kind.canon raw), x ∈ AL.keys c.nodes := fun x hx => hwf.2.2.2.1 _ hmem x hx
    rw [hs.2]; split
    · exact mem_keys_touchAll _ _ _
    · constructor
      · intro hn; exact Or.inl hn
      · rintro (hn | hn); exact hn; exact hcl n hn

theorem addEdge_get_new (c c' : Content κ) (raw : κ) (w : Option Int) (m : Option Meta)
    (h : addEdge c raw w m = some c') (hnew : AL.get? c.edges (Kind.canon raw) = none) :
    AL.get? c'.edges (Kind.canon raw) = some ((if c.weighted then weightOrUnit w else unit), metaOrEmpty m) := by
  obtain ⟨_, _, hs⟩ := addEdge_spec c c' raw w m h
  rw [hnew] at hs; rw [hs.1, AL_get?_append, hnew]; simp

theorem addEdge_get_other (c c' : Content κ) (raw : κ) (w : Option Int) (m : Option Meta)
    (h : addEdge c raw w m = some c') (k : κ) (hk : Kind.canon raw ≠ k) :
    AL.get? c'.edges k = AL.get? c.edges k := by
  obtain ⟨_, _, hs⟩ := addEdge_spec c c' raw w m h
  cases hg : AL.get? c.edges (Kind.canon raw) with
  | none =>
    rw [hg] at hs; rw [hs.1, AL_get?_append]
    cases AL.get? c.edges k <;> simp [hk]
  | some old => rw [hg] at hs; rw [hs.1]; exact AL.get?_set_ne _ _ _ _ hk

end generic

/-! ## `Hypergraph(edge_list, weighted, weights)` -/

theorem canonH (e : List Nat) : Kind.canon (⟨e⟩ : HKey) = ⟨sort e⟩ := rfl
theorem membersH (k : HKey) : Kind.members k = k.nodes := rfl

theorem addEdgesH_spec (c : Content HKey) (l : List (List Nat × Option Int)) (hwf : WF c)
    (hrej : c.weighted = false → ∀ p ∈ l, p.2 = none) :
    ∃ c', addEdgesH c l = some c' ∧ WF c' ∧ c'.weighted = c.weighted ∧ c'.hmeta = c.hmeta ∧
      (∀ k, k ∈ AL.keys c'.edges ↔ k ∈ AL.keys c.edges ∨ ∃ p ∈ l, k = ⟨sort p.1⟩) ∧
      (∀ n, n ∈ AL.keys c'.nodes ↔ n ∈ AL.keys c.nodes ∨ ∃ p ∈ l, n ∈ p.1) := by
  induction l generalizing c with
  | nil => exact ⟨c, rfl, hwf, rfl, rfl, by simp, by simp⟩
  | cons p t ih =>
    obtain ⟨e, w⟩ := p
    have hr : rejectsWeight c.weighted w = false := by
      cases hwd : c.weighted with
      | true => cases w <;> simp [rejectsWeight]
      | false => have := hrej hwd (e, w) (by simp); simp at this; subst this; rfl
    obtain ⟨c1, h1⟩ := addEdge_total c ⟨e⟩ w none hr
    have hwf1 := WF_addEdge c c1 ⟨e⟩ w none hwf h1
    obtain ⟨hw1, hm1, _⟩ := addEdge_spec c c1 ⟨e⟩ w none h1
    obtain ⟨c', h2, hwf', hw', hm', hk', hn'⟩ := ih c1 hwf1 (fun hu q hq => hrej (hw1 ▸ hu) q (by simp [hq]))
    refine ⟨c', by simp [addEdgesH, h1, h2], hwf', hw'.trans hw1, hm'.trans hm1, ?_, ?_⟩
    · intro k
      rw [hk', addEdge_keys_iff c c1 ⟨e⟩ w none h1, canonH]
      simp only [List.mem_cons, exists_eq_or_imp]
      constructor
      · rintro ((h | h) | h)
        · exact Or.inl h
        · exact Or.inr (Or.inl h)
        · exact Or.inr (Or.inr h)
      · rintro (h | h | h)
        · exact Or.inl (Or.inl h)
        · exact Or.inl (Or.inr h)
        · exact Or.inr h
    · intro n
      rw [hn', addEdge_nodes_iff c c1 ⟨e⟩ w none hwf h1, canonH, membersH]
      simp only [List.mem_cons, exists_eq_or_imp, mem_sort]
      constructor
      · rintro ((h | h) | h)
        · exact Or.inl h
        · exact Or.inr (Or.inl h)
        · exact Or.inr (Or.inr h)
      · rintro (h | h | h)
        · exact Or.inl (Or.inl h)
        · exact Or.inl (Or.inr h)
        · exact Or.inr h

theorem addEdgesH_get_other (c c' : Content HKey) (l : List (List Nat × Option Int))
    (h : addEdgesH c l = some c') (k : HKey) (hk : ∀ p ∈ l, (⟨sort p.1⟩ : HKey) ≠ k) :
    AL.get? c'.edges k = AL.get? c.edges k := by
  induction l generalizing c with
  | nil => simp [addEdgesH] at h; subst h; rfl
  | cons p t ih =>
    obtain ⟨e, w⟩ := p
    simp only [addEdgesH] at h
    cases h1 : addEdge c ⟨e⟩ w none with
    | none => simp [h1] at h
    | some c1 =>
      simp only [h1] at h
      rw [ih c1 h (fun q hq => hk q (by simp [hq]))]
      exact addEdge_get_other c c1 ⟨e⟩ w none h1 k (hk (e, w) (by simp))

/-- weighted, distinct node sets: every listed node set carries its listed weight -/
theorem addEdgesH_weights (c c' : Content HKey) (l : List (List Nat × Option Int))
    (hw : c.weighted = true)
    (hd : (l.map (fun p => (⟨sort p.1⟩ : HKey))).Nodup)
    (hfresh : ∀ p ∈ l, (⟨sort p.1⟩ : HKey) ∉ AL.keys c.edges)
    (h : addEdgesH c l = some c') :
    ∀ p ∈ l, AL.get? c'.edges ⟨sort p.1⟩ = some (weightOrUnit p.2, []) := by
  induction l generalizing c with
  | nil => simp
  | cons p t ih =>
    obtain ⟨e, w⟩ := p
    simp only [addEdgesH] at h
    cases h1 : addEdge c ⟨e⟩ w none with
    | none => simp [h1] at h
    | some c1 =>
      simp only [h1] at h
      simp only [List.map_cons, List.nodup_cons, List.mem_map] at hd
      have hnew : AL.get? c.edges (Kind.canon (⟨e⟩ : HKey)) = none :=
        (AL.get?_eq_none_iff _ _).mpr (hfresh (e, w) (by simp))
      obtain ⟨hw1, _, _⟩ := addEdge_spec c c1 ⟨e⟩ w none h1
      intro q hq
      rcases List.mem_cons.mp hq with rfl | hq
      · rw [addEdgesH_get_other c1 c' t h ⟨sort e⟩ (fun r hr hcontra => hd.1 ⟨r, hr, hcontra⟩)]
        have := addEdge_get_new c c1 ⟨e⟩ w none h1 hnew
        simpa [canonH, hw, metaOrEmpty] using this
      · refine ih c1 (hw1.trans hw) hd.2 ?_ h q hq
        intro r hr hin
        rcases (addEdge_keys_iff c c1 ⟨e⟩ w none h1 _).mp hin with hin | hin
        · exact hfresh r (by simp [hr]) hin
        · exact hd.1 ⟨r, hr, hin⟩

/-- unweighted: every hyperedge has weight 1 and empty metadata -/
theorem addEdgesH_unit (c c' : Content HKey) (l : List (List Nat × Option Int))
    (hw : c.weighted = false) (hall : ∀ e ∈ c.edges, e.2 = (unit, []))
    (hnone : ∀ p ∈ l, p.2 = none) (h : addEdgesH c l = some c') :
    ∀ e ∈ c'.edges, e.2 = (unit, []) := by
  induction l generalizing c with
  | nil => simp [addEdgesH] at h; subst h; exact hall
  | cons p t ih =>
    obtain ⟨e, w⟩ := p
    have hwn : w = none := hnone (e, w) (by simp)
    subst hwn
    simp only [addEdgesH] at h
    cases h1 : addEdge c ⟨e⟩ none none with
    | none => simp [h1] at h
    | some c1 =>
      simp only [h1] at h
      obtain ⟨hw1, _, hs⟩ := addEdge_spec c c1 ⟨e⟩ none none h1
      refine ih c1 (hw1.trans hw) ?_ (fun q hq => hnone q (by simp [hq])) h
      intro x hx
      cases hg : AL.get? c.edges (Kind.canon (⟨e⟩ : HKey)) with
      | none =>
        rw [hg] at hs; rw [hs.1] at hx
        rcases List.mem_append.mp hx with hx | hx
        · exact hall x hx
        · simp at hx; subst hx; simp [hw, metaOrEmpty]
      | some old =>
        rw [hg] at hs; rw [hs.1] at hx
        rcases AL_mem_set _ _ _ _ hx with hx | hx
        · exact hall x hx
        · subst hx
          have := hall _ (AL_get?_mem _ _ _ hg)
          simp only [hw, metaOrEmpty] at this ⊢
          simp [this]

/-! ## the line scanner -/

/-- while the header has not been seen nothing is listed; in weighted mode one weight per node set -/
def ScanInv (s : HgrSt) : Prop :=
  (s.nodes = 0 → s.es = [] ∧ s.ws = []) ∧ (hgrWeighted s.mode = true → s.es.length = s.ws.length) ∧
  (hgrWeighted s.mode = false → s.ws = [])

theorem scanInv_step (s s' : HgrSt) (l : Line) (hi : ScanInv s) (h : hgrStep s l = some s') : ScanInv s' := by
  obtain ⟨h0, h1, h2⟩ := hi
  cases l with
  | skip => simp [hgrStep] at h; subst h; exact ⟨h0, h1, h2⟩
  | toks t =>
    simp only [hgrStep] at h
    by_cases hn : s.nodes = 0
    · simp only [hn, if_true] at h
      obtain ⟨hes, hws⟩ := h0 hn
      unfold hgrHeader at h
      split at h
      · cases h; simp [ScanInv, hes, hws]
      · cases h
    · simp only [hn, if_false] at h
      split at h
      · unfold hgrEdgeLine at h
        cases hm : hgrWeighted s.mode with
        | true =>
          simp only [hm, if_true] at h
          rcases t with _ | ⟨w, _ | ⟨a, rest⟩⟩
          · cases h
          · cases h
          · cases h
            refine ⟨fun hz => absurd hz hn, fun _ => by simp [h1 hm], fun hc => by simp [hm] at hc⟩
        | false =>
          simp only [hm, Bool.false_eq_true, if_false] at h
          rcases t with _ | ⟨a, rest⟩
          · cases h
          · cases h
            refine ⟨fun hz => absurd hz hn, fun hc => by simp [hm] at hc, fun _ => h2 hm⟩
      · split at h
        · cases h; exact ⟨h0, h1, h2⟩
        · cases h

theorem scanInv_scan (s s' : HgrSt) (ls : List Line) (hi : ScanInv s) (h : hgrScan s ls = some s') : ScanInv s' := by
  induction ls generalizing s with
  | nil => simp [hgrScan] at h; subst h; exact hi
  | cons l t ih =>
    simp only [hgrScan] at h
    cases h1 : hgrStep s l with
    | none => simp [h1] at h
    | some s1 => simp only [h1] at h; exact ih s1 (scanInv_step s s1 l hi h1) h

theorem scanInv_init : ScanInv {} := by simp [ScanInv]

/-- comment and blank lines are dropped -/
def dropSkips : List Line → List Line
  | [] => []
  | .skip :: ls => dropSkips ls
  | .toks l :: ls => .toks l :: dropSkips ls

theorem hgrScan_dropSkips (s : HgrSt) (ls : List Line) : hgrScan s ls = hgrScan s (dropSkips ls) := by
  induction ls generalizing s with
  | nil => rfl
  | cons l t ih =>
    cases l with
    | skip => simp [hgrScan, hgrStep, dropSkips, ih]
    | toks x =>
      simp only [hgrScan, dropSkips]
      cases hgrStep s (.toks x) with
      | none => rfl
      | some s1 => exact ih s1

/-- reading `k` well-shaped hyperedge lines in weighted mode -/
theorem hgrScan_edges_weighted (s : HgrSt) (el : List (Nat × Nat × List Nat)) (rest : List Line)
    (hn : s.nodes ≠ 0) (hm : hgrWeighted s.mode = true) (hc : s.readCount + el.length ≤ s.edges) :
    hgrScan s (el.map (fun p => Line.toks (p.1 :: p.2.1 :: p.2.2)) ++ rest) =
      hgrScan { s with readCount := s.readCount + el.length, ws := s.ws ++ el.map (·.1),
                       es := s.es ++ el.map (fun p => p.2.1 :: p.2.2) } rest := by
  induction el generalizing s with
  | nil => simp
  | cons p t ih =>
    have hlt : s.readCount < s.edges := by simp at hc; omega
    simp only [List.map_cons, List.cons_append, hgrScan, hgrStep, hn, if_false, hlt, if_true, hgrEdgeLine, hm]
    rw [ih { s with readCount := s.readCount + 1, ws := s.ws ++ [p.1], es := s.es ++ [p.2.1 :: p.2.2] } hn hm
      (by simp at hc ⊢; omega)]
    simp [Nat.add_assoc, Nat.add_comm 1]

/-- reading `k` well-shaped hyperedge lines in unweighted mode -/
theorem hgrScan_edges_plain (s : HgrSt) (el : List (Nat × List Nat)) (rest : List Line)
    (hn : s.nodes ≠ 0) (hm : hgrWeighted s.mode = false) (hc : s.readCount + el.length ≤ s.edges) :
    hgrScan s (el.map (fun p => Line.toks (p.1 :: p.2)) ++ rest) =
      hgrScan { s with readCount := s.readCount + el.length, es := s.es ++ el.map (fun p => p.1 :: p.2) } rest := by
  induction el generalizing s with
  | nil => simp
  | cons p t ih =>
    have hlt : s.readCount < s.edges := by simp at hc; omega
    simp only [List.map_cons, List.cons_append, hgrScan, hgrStep, hn, if_false, hlt, if_true, hgrEdgeLine, hm,
      Bool.false_eq_true]
    rw [ih { s with readCount := s.readCount + 1, es := s.es ++ [p.1 :: p.2] } hn hm (by simp at hc ⊢; omega)]
    simp [Nat.add_assoc, Nat.add_comm 1]

/-- the node-weight lines after the hyperedges are skipped (at most `N` of them) -/
theorem hgrScan_nodeLines (s : HgrSt) (nl : List (List Nat))
    (hn : s.nodes ≠ 0) (hc : s.readCount = s.edges) (hk : s.readNode + nl.length ≤ s.nodes) :
    hgrScan s (nl.map Line.toks) = some { s with readNode := s.readNode + nl.length } := by
  induction nl generalizing s with
  | nil => simp [hgrScan]
  | cons p t ih =>
    have hlt : s.readNode < s.nodes := by simp at hk; omega
    have hge : ¬ s.readCount < s.edges := by omega
    simp only [List.map_cons, hgrScan, hgrStep, hn, if_false, hge, hlt, if_true]
    rw [ih { s with readNode := s.readNode + 1 } hn hc (by simp at hk ⊢; omega)]
    simp [Nat.add_assoc, Nat.add_comm 1]

end C06
