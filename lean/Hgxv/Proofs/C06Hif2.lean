import Hgxv.Proofs.C06Hif
/-! C06, HIF reader, second part: the incidence lists of the first loop, and where the node / edge /
incidence records end up.  Core Lean only. -/
set_option linter.unusedSectionVars false
namespace C06

theorem filterMap_congr' {α β : Type} (f g : α → Option β) (l : List α) (h : ∀ x ∈ l, f x = g x) :
    l.filterMap f = l.filterMap g := by
  induction l with
  | nil => rfl
  | cons a t ih =>
    simp only [List.filterMap_cons, h a (by simp)]
    rw [ih (fun x hx => h x (by simp [hx]))]

/-! ## the incidence lists -/

/-- the node ids incident to edge name `e`, in file order -/
def incList (ntab : List (Nat × Nat)) (incs : List (Nat × Nat)) (e : Nat) : List Nat :=
  (incs.filter (fun p => p.1 = e)).filterMap (fun p => AL.get? ntab p.2)

def ListsOK (s : HifSt) (seen : List (Nat × Nat)) : Prop :=
  ∀ e eu, AL.get? s.etab e = some eu → AL.get? s.tmp eu = some (incList s.ntab seen e)

theorem incList_stable (ntab : List (Nat × Nat)) (n : Nat) (seen : List (Nat × Nat)) (e : Nat)
    (h : ∀ p ∈ seen, ∃ nu, AL.get? ntab p.2 = some nu) :
    incList (assign ntab n).1 seen e = incList ntab seen e := by
  unfold incList
  apply filterMap_congr'
  intro x hx
  obtain ⟨nu, hnu⟩ := h x (List.mem_filter.mp hx).1
  rw [hnu, assign_stable _ _ _ _ hnu]

theorem ListsOK_step (s : HifSt) (seen : List (Nat × Nat)) (p : Nat × Nat) (h : Inv1 s seen) (hl : ListsOK s seen) :
    ListsOK (hifInc1 s p) (seen ++ [p]) := by
  obtain ⟨eok, nok, hts, hso, _⟩ := h
  have hn : ∀ q ∈ seen, ∃ nu, AL.get? s.ntab q.2 = some nu := by
    intro q hq; obtain ⟨_, nu, _, _, h2, _⟩ := hso q hq; exact ⟨nu, h2⟩
  have eok' := TabOK_assign s.etab p.1 eok
  intro e eu hget
  simp only [hifInc1] at hget ⊢
  have hself := assign_get_self s.etab p.1
  have hnself := assign_get_self s.ntab p.2
  by_cases hep : e = p.1
  · subst hep
    rw [hself] at hget; cases hget
    rw [AL.get?_set_self]
    have hlast : incList (assign s.ntab p.2).1 (seen ++ [p]) p.1 = incList s.ntab seen p.1 ++ [(assign s.ntab p.2).2] := by
      unfold incList
      rw [List.filter_append, List.filterMap_append]
      have h1 := incList_stable s.ntab p.2 seen p.1 hn
      unfold incList at h1
      rw [h1]
      simp [hnself]
    rw [hlast]
    cases hold : AL.get? s.etab p.1 with
    | some u =>
      rw [assign_old _ _ _ hold]
      simp only [hl p.1 u hold, listOrEmpty]
    | none =>
      rw [assign_new _ _ hold]
      simp only
      have hnone : AL.get? s.tmp s.etab.length = none := by
        cases hg : AL.get? s.tmp s.etab.length with
        | none => rfl
        | some l =>
          obtain ⟨q, _, hq'⟩ := hts _ l hg
          exact absurd (eok.2 _ _ hq') (Nat.lt_irrefl _)
      have hempty : incList s.ntab seen p.1 = [] := by
        unfold incList
        have : seen.filter (fun q => q.1 = p.1) = [] := by
          apply List.filter_eq_nil_iff.mpr
          intro q hq hqp
          obtain ⟨eu, _, _, h1, _, _⟩ := hso q hq
          simp at hqp
          rw [hqp, hold] at h1; cases h1
        rw [this]; rfl
      rw [hnone, hempty]; rfl
  · have hne : p.1 ≠ e := fun h => hep h.symm
    have hold : AL.get? s.etab e = some eu := by
      rcases assign_get _ _ _ _ hget with h1 | ⟨h1, _, _⟩
      · exact h1
      · exact absurd h1 hep
    have hdiff : (assign s.etab p.1).2 ≠ eu := by
      intro hc
      exact hne (eok'.1 _ _ _ (hc ▸ hself) hget)
    rw [AL.get?_set_ne _ _ _ _ hdiff, hl e eu hold]
    congr 1
    unfold incList
    rw [List.filter_append]
    have : [p].filter (fun q => q.1 = e) = [] := by simp [hne]
    rw [this, List.append_nil]
    have h1 := incList_stable s.ntab p.2 seen e hn
    unfold incList at h1
    exact h1.symm

theorem ListsOK_fold (s : HifSt) (seen l : List (Nat × Nat)) (h : Inv1 s seen) (hl : ListsOK s seen) :
    ListsOK (l.foldl hifInc1 s) (seen ++ l) := by
  induction l generalizing s seen with
  | nil => simpa using hl
  | cons p t ih =>
    have := ih (hifInc1 s p) (seen ++ [p]) (Inv1_step s seen p h) (ListsOK_step s seen p h hl)
    simpa [List.append_assoc] using this

theorem ListsOK_pass1 (d : HifDoc) : ListsOK (hifPass1 d) d.incidences := by
  have := ListsOK_fold {} [] d.incidences Inv1_init (by intro e eu h; simp [AL.get?] at h)
  simpa [hifPass1] using this

/-! ## tables are only extended by the later loops -/

/-- `t'` extends `t`: every entry of `t` is still there -/
def Ext (t t' : List (Nat × Nat)) : Prop := ∀ a u, AL.get? t a = some u → AL.get? t' a = some u

theorem Ext_refl (t : List (Nat × Nat)) : Ext t t := fun _ _ h => h
theorem Ext_assign (t : List (Nat × Nat)) (n : Nat) : Ext t (assign t n).1 := fun a u h => assign_stable t n a u h
theorem Ext_trans {a b c : List (Nat × Nat)} (h1 : Ext a b) (h2 : Ext b c) : Ext a c := fun x u h => h2 x u (h1 x u h)

/-! ## node metadata survives `add_node(x)` / `add_edge` -/

theorem get?_touchNode_keep (ns : List (Nat × Meta)) (n u : Nat) (m : Meta) (h : AL.get? ns u = some m) :
    AL.get? (touchNode ns n []) u = some m := by
  unfold touchNode
  cases hg : AL.get? ns n with
  | none => simp [AL_get?_append, h]
  | some old =>
    simp only
    split
    · rename_i hold
      by_cases hnu : n = u
      · subst hnu; rw [hg] at h; cases h; subst hold; simp
      · rw [AL.get?_set_ne _ _ _ _ hnu]; exact h
    · exact h

theorem get?_touchAll_keep (ns : List (Nat × Meta)) (l : List Nat) (u : Nat) (m : Meta) (h : AL.get? ns u = some m) :
    AL.get? (touchAll ns l) u = some m := by
  unfold touchAll
  induction l generalizing ns with
  | nil => exact h
  | cons a t ih => simp only [List.foldl_cons]; exact ih _ (get?_touchNode_keep ns a u m h)

theorem addEdge_node_keep (c c' : Content HKey) (k : HKey) (w : Option Int) (md : Option Meta) (u : Nat) (m : Meta)
    (h : addEdge c k w md = some c') (hu : AL.get? c.nodes u = some m) : AL.get? c'.nodes u = some m := by
  obtain ⟨_, _, hs⟩ := addEdge_spec c c' k w md h
  cases hg : AL.get? c.edges (Kind.canon k) with
  | none => rw [hg] at hs; rw [hs.2]; exact get?_touchAll_keep _ _ _ _ hu
  | some old =>
    rw [hg] at hs; rw [hs.2]
    split
    · exact get?_touchAll_keep _ _ _ _ hu
    · exact hu

/-! ## second loop: node records -/

theorem hifNodes_append (s : HifSt) (i : Nat) (a b : List Nat) :
    hifNodes s i (a ++ b) = hifNodes (hifNodes s i a) (i + a.length) b := by
  induction a generalizing s i with
  | nil => simp [hifNodes]
  | cons x t ih => simp only [List.cons_append, hifNodes, List.length_cons]; rw [ih]; congr 1; omega

theorem hifNode_frame (s : HifSt) (n i : Nat) :
    (hifNode s n i).etab = s.etab ∧ (hifNode s n i).tmp = s.tmp ∧ Ext s.ntab (hifNode s n i).ntab ∧
    (hifNode s n i).c.edges = s.c.edges ∧ (hifNode s n i).added = s.added ∧ (hifNode s n i).incid = s.incid ∧
    (hifNode s n i).empties = s.empties :=
  ⟨rfl, rfl, Ext_assign _ _, rfl, rfl, rfl, rfl⟩

theorem hifNodes_frame (s : HifSt) (i : Nat) (l : List Nat) :
    (hifNodes s i l).etab = s.etab ∧ (hifNodes s i l).tmp = s.tmp ∧ Ext s.ntab (hifNodes s i l).ntab := by
  induction l generalizing s i with
  | nil => exact ⟨rfl, rfl, Ext_refl _⟩
  | cons n t ih =>
    obtain ⟨h1, h2, h3⟩ := ih (hifNode s n i) (i + 1)
    exact ⟨h1, h2, Ext_trans (Ext_assign _ _) h3⟩

/-- a node whose record has been attached keeps it while records of other nodes are processed -/
theorem hifNodes_keep (s : HifSt) (i : Nat) (l : List Nat) (name u : Nat) (m : Meta)
    (hok : TabOK s.ntab) (hn : AL.get? s.ntab name = some u) (hm : AL.get? s.c.nodes u = some m) (hnot : name ∉ l) :
    AL.get? (hifNodes s i l).c.nodes u = some m := by
  induction l generalizing s i with
  | nil => exact hm
  | cons n t ih =>
    simp only [hifNodes]
    have hne : n ≠ name := fun h => hnot (by simp [h])
    have hok' := TabOK_assign s.ntab n hok
    have hdiff : (assign s.ntab n).2 ≠ u := by
      intro hc
      exact hne (hok'.1 _ _ _ (hc ▸ assign_get_self s.ntab n) (assign_stable _ _ _ _ hn))
    apply ih (hifNode s n i) (i + 1) hok' (assign_stable _ _ _ _ hn)
    · simp only [hifNode, setNodeMeta, addNode, metaOrEmpty]
      rw [AL.get?_set_ne _ _ _ _ hdiff]
      exact get?_touchNode_keep _ _ _ _ hm
    · exact fun h => hnot (by simp [h])

theorem hifNode_sets (s : HifSt) (name i : Nat) :
    AL.get? (hifNode s name i).ntab name = some (assign s.ntab name).2 ∧
    AL.get? (hifNode s name i).c.nodes (assign s.ntab name).2 = some (recMeta i) := by
  refine ⟨assign_get_self _ _, ?_⟩
  simp [hifNode, setNodeMeta]

/-! ## third and fourth loop: frames -/

theorem hifEdge_frame (s s' : HifSt) (name i : Nat) (h : hifEdge s name i = some s') :
    s'.ntab = s.ntab ∧ s'.tmp = s.tmp ∧ Ext s.etab s'.etab ∧ s'.incid = s.incid ∧
    (∀ u m, AL.get? s.c.nodes u = some m → AL.get? s'.c.nodes u = some m) := by
  unfold hifEdge at h
  cases hg : AL.get? s.tmp (assign s.etab name).2 with
  | some l =>
    simp only [hg] at h
    cases h1 : addEdge s.c ⟨sort l⟩ none none with
    | none => simp [h1] at h
    | some c1 =>
      simp only [h1] at h; cases h
      refine ⟨rfl, rfl, Ext_assign _ _, rfl, ?_⟩
      intro u m hu
      have := addEdge_node_keep s.c c1 _ none none u m h1 hu
      simp only [setEdgeMeta]; split <;> exact this
  | none =>
    simp only [hg] at h
    split at h
    · cases h
    · cases h; exact ⟨rfl, rfl, Ext_assign _ _, rfl, fun _ _ hu => hu⟩

theorem hifEdges_frame (s s' : HifSt) (i : Nat) (l : List Nat) (h : hifEdges s i l = some s') :
    s'.ntab = s.ntab ∧ s'.tmp = s.tmp ∧ Ext s.etab s'.etab ∧ s'.incid = s.incid ∧
    (∀ u m, AL.get? s.c.nodes u = some m → AL.get? s'.c.nodes u = some m) := by
  induction l generalizing s i with
  | nil => simp [hifEdges] at h; subst h; exact ⟨rfl, rfl, Ext_refl _, rfl, fun _ _ hu => hu⟩
  | cons n t ih =>
    simp only [hifEdges] at h
    cases h1 : hifEdge s n i with
    | none => simp [h1] at h
    | some s1 =>
      simp only [h1] at h
      obtain ⟨a1, a2, a3, a4, a5⟩ := hifEdge_frame s s1 n i h1
      obtain ⟨b1, b2, b3, b4, b5⟩ := ih s1 (i + 1) h
      exact ⟨b1.trans a1, b2.trans a2, Ext_trans a3 b3, b4.trans a4, fun u m hu => b5 u m (a5 u m hu)⟩

theorem hifInc2_frame (s s' : HifSt) (p : Nat × Nat) (j : Nat) (h : hifInc2 s p j = some s') :
    s'.ntab = s.ntab ∧ s'.tmp = s.tmp ∧ s'.etab = s.etab ∧ s'.empties = s.empties ∧
    (∀ u m, AL.get? s.c.nodes u = some m → AL.get? s'.c.nodes u = some m) ∧
    (∀ k v, k ∈ s.added → AL.get? s.c.edges ⟨k⟩ = some v → k ∈ s'.added ∧ AL.get? s'.c.edges ⟨k⟩ = some v) := by
  unfold hifInc2 at h
  cases he : AL.get? s.etab p.1 with
  | none => simp [he] at h
  | some eu =>
    cases hn : AL.get? s.ntab p.2 with
    | none => simp [he, hn] at h
    | some nu =>
      simp only [he, hn] at h
      cases hg : AL.get? s.tmp eu with
      | none => simp [hg] at h
      | some l =>
        simp only [hg] at h
        by_cases hin : sort l ∈ s.added
        · simp only [hin, if_true] at h; cases h
          exact ⟨rfl, rfl, rfl, rfl, fun _ _ hu => hu, fun _ _ hk hv => ⟨hk, hv⟩⟩
        · simp only [hin, if_false] at h
          cases h1 : addEdge s.c ⟨sort l⟩ none none with
          | none => simp [h1] at h
          | some c1 =>
            simp only [h1] at h; cases h
            refine ⟨rfl, rfl, rfl, rfl, fun u m hu => addEdge_node_keep s.c c1 _ none none u m h1 hu, ?_⟩
            intro k v hk hv
            have hne : Kind.canon (⟨sort l⟩ : HKey) ≠ ⟨k⟩ := by
              rw [canonH, sort_idem]
              intro hc; cases hc; exact hin hk
            refine ⟨by simp [hk], ?_⟩
            simp only
            rw [addEdge_get_other s.c c1 _ none none h1 ⟨k⟩ hne]; exact hv

theorem hifIncs2_frame (s s' : HifSt) (j : Nat) (l : List (Nat × Nat)) (h : hifIncs2 s j l = some s') :
    s'.ntab = s.ntab ∧ s'.tmp = s.tmp ∧ s'.etab = s.etab ∧ s'.empties = s.empties ∧
    (∀ u m, AL.get? s.c.nodes u = some m → AL.get? s'.c.nodes u = some m) ∧
    (∀ k v, k ∈ s.added → AL.get? s.c.edges ⟨k⟩ = some v → k ∈ s'.added ∧ AL.get? s'.c.edges ⟨k⟩ = some v) := by
  induction l generalizing s j with
  | nil => simp [hifIncs2] at h; subst h; exact ⟨rfl, rfl, rfl, rfl, fun _ _ hu => hu, fun _ _ hk hv => ⟨hk, hv⟩⟩
  | cons p t ih =>
    simp only [hifIncs2] at h
    cases h1 : hifInc2 s p j with
    | none => simp [h1] at h
    | some s1 =>
      simp only [h1] at h
      obtain ⟨a1, a2, a3, a4, a5, a6⟩ := hifInc2_frame s s1 p j h1
      obtain ⟨b1, b2, b3, b4, b5, b6⟩ := ih s1 (j + 1) h
      refine ⟨b1.trans a1, b2.trans a2, b3.trans a3, b4.trans a4, fun u m hu => b5 u m (a5 u m hu), ?_⟩
      intro k v hk hv
      obtain ⟨c1, c2⟩ := a6 k v hk hv
      exact b6 k v c1 c2

/-- the pieces of `readHif` -/
theorem readHif_stages (d : HifDoc) (r : HifResult) (h : readHif d = some r) :
    ∃ s3 s4, hifEdges (hifNodes (hifPass1 d) 1 d.nodes) 1 d.edges = some s3 ∧ hifIncs2 s3 1 d.incidences = some s4 ∧
      r = { c := s4.c, incid := s4.incid, empties := s4.empties } := by
  unfold readHif at h
  cases h3 : hifEdges (hifNodes (hifPass1 d) 1 d.nodes) 1 d.edges with
  | none => simp [h3] at h
  | some s3 =>
    simp only [h3] at h
    cases h4 : hifIncs2 s3 1 d.incidences with
    | none => simp [h4] at h
    | some s4 => simp only [h4] at h; cases h; exact ⟨s3, s4, rfl, h4, rfl⟩

/-- **node records**: the last record naming a node is that node's metadata in the result -/
theorem hif_node_record (d : HifDoc) (r : HifResult) (h : readHif d = some r) (pre post : List Nat) (name : Nat)
    (hd : d.nodes = pre ++ name :: post) (hnot : name ∉ post) :
    ∃ u, AL.get? (hifNodes (hifPass1 d) 1 d.nodes).ntab name = some u ∧
      AL.get? r.c.nodes u = some (recMeta (pre.length + 1)) := by
  obtain ⟨s3, s4, h3, h4, rfl⟩ := readHif_stages d r h
  have e1 : hifNodes (hifPass1 d) 1 d.nodes =
      hifNodes (hifNode (hifNodes (hifPass1 d) 1 pre) name (1 + pre.length)) (1 + pre.length + 1) post := by
    rw [hd, hifNodes_append]; rfl
  have inv := Inv2_node _ _ _ _ name (1 + pre.length) (Inv2_nodes _ _ _ _ 1 pre (Inv2_of_Inv1 d))
  obtain ⟨g1, g2⟩ := hifNode_sets (hifNodes (hifPass1 d) 1 pre) name (1 + pre.length)
  have k2 := hifNodes_keep _ (1 + pre.length + 1) post name _ _ inv.nok g1 g2 hnot
  have k1 := (hifNodes_frame (hifNode (hifNodes (hifPass1 d) 1 pre) name (1 + pre.length)) (1 + pre.length + 1) post).2.2 _ _ g1
  rw [← e1] at k1 k2
  refine ⟨_, k1, ?_⟩
  obtain ⟨_, _, _, _, f3⟩ := hifEdges_frame _ s3 1 d.edges h3
  obtain ⟨_, _, _, _, f4, _⟩ := hifIncs2_frame s3 s4 1 d.incidences h4
  have := f4 _ _ (f3 _ _ k2)
  rw [Nat.add_comm] at this
  exact this

end C06
