import Hgxv.Proofs.C09Order
/-! Helper lemmas for C09, extension round: sums of matrices, the loops over the orders
(`maxOrder`, `orders`, `matSum`, `multiorderLaplacian`), and the decomposition of counts by order. -/
set_option linter.unusedSectionVars false
namespace C09
variable {R : Type} [CommRing R]

theorem entry_matAdd (A B : List (List R)) (i j : Nat) :
    entry (matAdd A B) i j =
      (entry A i j).bind fun a => (entry B i j).map fun b => a + b := by
  unfold entry matAdd
  cases hA : A[i]? with
  | none => simp [hA, List.getElem?_zipWith]
  | some r =>
    cases hB : B[i]? with
    | none =>
      simp only [List.getElem?_zipWith, hA, hB]
      cases r[j]? <;> simp
    | some s =>
      simp only [List.getElem?_zipWith, hA, hB]
      cases hr : r[j]? <;> cases hs : s[j]? <;> simp [List.getElem?_zipWith, hr, hs]

theorem entry_foldl_matAdd {β : Type} (T : β → List (List R)) (g : β → R) (i j : Nat) (ps : List β)
    (h : ∀ p ∈ ps, entry (T p) i j = some (g p)) (acc : List (List R)) (a : R) (ha : entry acc i j = some a) :
    entry ((ps.map T).foldl matAdd acc) i j = some (a + (ps.map g).sum) := by
  induction ps generalizing acc a with
  | nil => simp [ha]
  | cons p ps ih =>
    simp only [List.map_cons, List.foldl_cons, List.sum_cons]
    rw [ih (fun q hq => h q (List.mem_cons_of_mem _ hq)) (matAdd acc (T p)) (a + g p)
      (by rw [entry_matAdd, ha, h p List.mem_cons_self]; rfl), add_assoc]

/-- entry of Python's `sum(...)` of matrices: the sum of the entries -/
theorem entry_matSum {β : Type} (T : β → List (List R)) (g : β → R) (i j : Nat) (ps : List β)
    (h : ∀ p ∈ ps, entry (T p) i j = some (g p)) (S : List (List R)) (hS : matSum (ps.map T) = some S) :
    entry S i j = some ((ps.map g).sum) := by
  cases ps with
  | nil => simp [matSum] at hS
  | cons p ps =>
    simp only [List.map_cons, matSum, Option.some.injEq] at hS
    subst hS
    rw [entry_foldl_matAdd T g i j ps (fun q hq => h q (List.mem_cons_of_mem _ hq)) (T p) (g p)
      (h p List.mem_cons_self)]
    simp

theorem matSum_eq_none {α : Type} [Add α] (L : List (List (List α))) : matSum L = none ↔ L = [] := by
  cases L <;> simp [matSum]

/-! ### invariants preserved by scaling and adding: square shape, symmetry, zero row sums -/

/-- `n` rows of length `n` -/
def Shape (n : Nat) (M : List (List R)) : Prop := M.length = n ∧ ∀ r ∈ M, r.length = n
/-- symmetric on the index square -/
def Symm (n : Nat) (M : List (List R)) : Prop := ∀ i j, i < n → j < n → entry M i j = entry M j i
/-- every row sums to zero -/
def RowsZero (M : List (List R)) : Prop := ∀ r ∈ M, r.sum = 0

theorem sum_zipWith_add (l1 l2 : List R) (h : l1.length = l2.length) :
    (List.zipWith (· + ·) l1 l2).sum = l1.sum + l2.sum := by
  induction l1 generalizing l2 with
  | nil => cases l2 <;> simp_all
  | cons a l1 ih =>
    cases l2 with
    | nil => simp at h
    | cons b l2 =>
      simp only [List.zipWith_cons_cons, List.sum_cons, ih l2 (by simpa using h)]
      ring

theorem mem_matAdd (A B : List (List R)) (r : List R) (h : r ∈ matAdd A B) :
    ∃ a ∈ A, ∃ b ∈ B, r = List.zipWith (· + ·) a b := by
  unfold matAdd at h
  obtain ⟨i, hi, rfl⟩ := List.mem_iff_getElem.1 h
  simp only [List.length_zipWith] at hi
  exact ⟨A[i]'(by omega), List.getElem_mem _, B[i]'(by omega), List.getElem_mem _, by simp⟩

theorem shape_smul (n : Nat) (c : R) (M : List (List R)) (h : Shape n M) : Shape n (smul c M) := by
  refine ⟨by simpa [smul] using h.1, ?_⟩
  intro r hr
  obtain ⟨r', hr', rfl⟩ := List.mem_map.1 hr
  simpa using h.2 r' hr'

theorem shape_matAdd (n : Nat) (A B : List (List R)) (hA : Shape n A) (hB : Shape n B) : Shape n (matAdd A B) := by
  refine ⟨by simp [matAdd, hA.1, hB.1], ?_⟩
  intro r hr
  obtain ⟨a, ha, b, hb, rfl⟩ := mem_matAdd A B r hr
  simp [hA.2 a ha, hB.2 b hb]

theorem symm_smul (n : Nat) (c : R) (M : List (List R)) (h : Symm n M) : Symm n (smul c M) := by
  intro i j hi hj
  rw [entry_smul, entry_smul, h i j hi hj]

theorem symm_matAdd (n : Nat) (A B : List (List R)) (hA : Symm n A) (hB : Symm n B) : Symm n (matAdd A B) := by
  intro i j hi hj
  rw [entry_matAdd, entry_matAdd, hA i j hi hj, hB i j hi hj]

theorem rowsZero_smul (c : R) (M : List (List R)) (h : RowsZero M) : RowsZero (smul c M) := by
  intro r hr
  obtain ⟨r', hr', rfl⟩ := List.mem_map.1 hr
  have := sum_map_mul_left' r' c id
  simp only [id] at this
  rw [this, List.map_id, h r' hr', mul_zero]

theorem rowsZero_matAdd (n : Nat) (A B : List (List R)) (sA : Shape n A) (sB : Shape n B)
    (hA : RowsZero A) (hB : RowsZero B) : RowsZero (matAdd A B) := by
  intro r hr
  obtain ⟨a, ha, b, hb, rfl⟩ := mem_matAdd A B r hr
  rw [sum_zipWith_add a b (by rw [sA.2 a ha, sB.2 b hb]), hA a ha, hB b hb, add_zero]

/-- the three invariants together -/
def LapLike (n : Nat) (M : List (List R)) : Prop := Shape n M ∧ Symm n M ∧ RowsZero M

theorem lapLike_smul (n : Nat) (c : R) (M : List (List R)) (h : LapLike n M) : LapLike n (smul c M) :=
  ⟨shape_smul n c M h.1, symm_smul n c M h.2.1, rowsZero_smul c M h.2.2⟩

theorem lapLike_matAdd (n : Nat) (A B : List (List R)) (hA : LapLike n A) (hB : LapLike n B) :
    LapLike n (matAdd A B) :=
  ⟨shape_matAdd n A B hA.1 hB.1, symm_matAdd n A B hA.2.1 hB.2.1, rowsZero_matAdd n A B hA.1 hB.1 hA.2.2 hB.2.2⟩

theorem lapLike_foldl (n : Nat) (L : List (List (List R))) (acc : List (List R)) (hacc : LapLike n acc)
    (hL : ∀ M ∈ L, LapLike n M) : LapLike n (L.foldl matAdd acc) := by
  induction L generalizing acc with
  | nil => simpa
  | cons M L ih =>
    simp only [List.foldl_cons]
    exact ih _ (lapLike_matAdd n acc M hacc (hL M List.mem_cons_self)) (fun M' h => hL M' (List.mem_cons_of_mem _ h))

theorem lapLike_matSum (n : Nat) (L : List (List (List R))) (hL : ∀ M ∈ L, LapLike n M) (S : List (List R))
    (hS : matSum L = some S) : LapLike n S := by
  cases L with
  | nil => simp [matSum] at hS
  | cons M L =>
    simp only [matSum, Option.some.injEq] at hS
    subst hS
    exact lapLike_foldl n L M (hL M List.mem_cons_self) (fun M' h => hL M' (List.mem_cons_of_mem _ h))

/-! ### `max_order()` -/

theorem foldl_max_mem (l : List Nat) (a : Nat) : l.foldl max a = a ∨ l.foldl max a ∈ l := by
  induction l generalizing a with
  | nil => simp
  | cons b l ih =>
    simp only [List.foldl_cons]
    rcases ih (max a b) with h | h
    · rw [h]
      rcases Nat.le_total a b with hab | hab
      · right; simp [Nat.max_eq_right hab]
      · left; exact Nat.max_eq_left hab
    · right; exact List.mem_cons_of_mem _ h

theorem maxOrder_eq_none {α : Type} (es : List (Edge × α)) : maxOrder es = none ↔ es = [] := by
  cases es <;> simp [maxOrder]

/-- `max_order()` is the largest order: every hyperedge has at most `m + 1` nodes and one has order exactly `m` -/
theorem maxOrder_spec {α : Type} (es : List (Edge × α)) (m : Nat) (h : maxOrder es = some m) :
    es ≠ [] ∧ (∀ e ∈ es, e.1.length ≤ m + 1) ∧ ∃ e ∈ es, e.1.length - 1 = m := by
  cases es with
  | nil => simp [maxOrder] at h
  | cons e0 es =>
    simp only [maxOrder, Option.some.injEq] at h
    have hle := le_foldl_max (((e0 :: es).map fun e => e.1.length - 1)) 0
    rw [h] at hle
    refine ⟨by simp, ?_, ?_⟩
    · intro e he
      have := hle.2 (e.1.length - 1) (List.mem_map.2 ⟨e, he, rfl⟩)
      omega
    · rcases foldl_max_mem (((e0 :: es).map fun e => e.1.length - 1)) 0 with h0 | hm
      · rw [h] at h0
        refine ⟨e0, List.mem_cons_self, ?_⟩
        have := hle.2 (e0.1.length - 1) (List.mem_map.2 ⟨e0, List.mem_cons_self, rfl⟩)
        omega
      · rw [h] at hm
        obtain ⟨e, he, hem⟩ := List.mem_map.1 hm
        exact ⟨e, he, hem⟩

/-! ### counting hyperedges order by order -/

theorem countP_add_disjoint {β : Type} (l : List β) (a b : β → Bool) (h : ∀ x, ¬ (a x = true ∧ b x = true)) :
    l.countP a + l.countP b = l.countP fun x => a x || b x := by
  induction l with
  | nil => simp
  | cons x l ih =>
    simp only [List.countP_cons]
    have := h x
    cases ha : a x <;> cases hb : b x <;> simp_all <;> omega

/-- the hyperedges with property `p` of the orders `0..K-1`, counted order by order -/
theorem countP_orders {α : Type} (es : List (Edge × α)) (p : Edge × α → Bool) (K : Nat) :
    ((List.range K).map fun d => es.countP fun e => e.1.length == d + 1 && p e).sum
      = es.countP fun e => p e && decide (1 ≤ e.1.length ∧ e.1.length ≤ K) := by
  induction K with
  | zero =>
    simp only [List.range_zero, List.map_nil, List.sum_nil]
    symm
    rw [List.countP_eq_zero]
    intro e _
    simp only [Bool.and_eq_true, decide_eq_true_eq, not_and]
    intro _ h
    omega
  | succ K ih =>
    rw [List.range_succ, List.map_append, List.sum_append, ih]
    simp only [List.map_cons, List.map_nil, List.sum_cons, List.sum_nil, Nat.add_zero]
    rw [countP_add_disjoint]
    · apply List.countP_congr
      intro e _
      cases p e <;> simp <;> omega
    · intro e
      simp
      intro _ _ h2 h3
      omega

/-! ### the per-order Laplacian has the three invariants -/

theorem laplacian_length (d : Nat) (nodes : List Nat) (es : List (Edge × R)) (hN : nodes.Nodup)
    (hE : ∀ e ∈ es, ∀ x ∈ e.1, x ∈ nodes) : (laplacian d nodes es).length = (classes nodes).length := by
  unfold laplacian
  simp only
  rw [gramMatrix_eq d nodes es hN hE, degMatrix_eq]
  simp [matSub, smul, diag]

theorem lapLike_laplacian (d : Nat) (nodes : List Nat) (es : List (Edge × R)) (hN : nodes.Nodup)
    (hE : ∀ e ∈ es, ∀ x ∈ e.1, x ∈ nodes) (hD : ∀ e ∈ es, e.1.Nodup) (hW : ∀ e ∈ es, e.2 = 1) :
    LapLike (classes nodes).length (laplacian d nodes es) := by
  have hlen := laplacian_length d nodes es hN hE
  have hrow : ∀ r ∈ laplacian d nodes es, ∃ i, ∃ hi : i < (classes nodes).length,
      r = (List.zipWith (· - ·)
        ((List.range (classes nodes).length).map fun j =>
          ((d + 1 : Nat) : R) * (if i = j then ((degree d es (classes nodes)[i] : Nat) : R) else 0))
        ((classes nodes).map fun y => gram d es (classes nodes)[i] y)) := by
    intro r hr
    obtain ⟨i, hi, rfl⟩ := List.mem_iff_getElem.1 hr
    have hi' : i < (classes nodes).length := by rw [← hlen]; exact hi
    refine ⟨i, hi', ?_⟩
    have h1 := lap_row d nodes es hN hE i hi'
    rw [List.getElem?_eq_getElem hi] at h1
    exact Option.some.inj h1
  refine ⟨⟨hlen, ?_⟩, ?_, ?_⟩
  · intro r hr
    obtain ⟨i, hi, rfl⟩ := hrow r hr
    simp
  · intro i j hi hj
    rw [lap_entry d nodes es hN hE i j hi hj, lap_entry d nodes es hN hE j i hj hi, gram_comm]
    by_cases h : i = j
    · subst h; rfl
    · have h' : ¬ j = i := fun e => h e.symm
      simp [h, h']
  · intro r hr
    obtain ⟨i, hi, rfl⟩ := hrow r hr
    rw [sum_zipWith_sub _ _ (by simp), sum_gram_unweighted d nodes es hE hD hW, sum_map_mul_left',
      sum_range_ite _ i hi]
    simp

theorem lapLike_lapFlag (ow : Bool) (d : Nat) (nodes : List Nat) (es : List (Edge × R)) (hN : nodes.Nodup)
    (hE : ∀ e ∈ es, ∀ x ∈ e.1, x ∈ nodes) (hD : ∀ e ∈ es, e.1.Nodup) (hW : ∀ e ∈ es, e.2 = 1) :
    LapLike (classes nodes).length (lapFlag ow d nodes es) := by
  cases ow
  · simpa [lapFlag] using lapLike_laplacian d nodes es hN hE hD hW
  · simpa [lapFlag, laplacianScaled] using lapLike_smul _ _ _ (lapLike_laplacian d nodes es hN hE hD hW)

end C09
