import Hgxv.Proofs.C02Basic
/-! C02 helper lemmas, part 2: the representation invariant `Inv` of the concrete store and its preservation by
every operation (core Lean only). -/
namespace C02
open AL

/-! ### add_node -/

theorem ensureNode_adjS (s : Store) (n m : Node) :
    get? (ensureNode s n).adjS m = if m = n then some ((get? s.adjS n).getD []) else get? s.adjS m := by
  unfold ensureNode
  cases h : get? s.adjS n with
  | none => simp [has, h, get?_set]; grind
  | some ids => simp [has, h]; grind

theorem ensureNode_adjT (s : Store) (n m : Node) :
    get? (ensureNode s n).adjT m = if m = n ∧ get? s.adjS n = none then some [] else get? s.adjT m := by
  unfold ensureNode
  cases h : get? s.adjS n with
  | none => simp [has, h, get?_set]; grind
  | some ids => simp [has, h]

theorem ensureNode_nmeta (s : Store) (n m : Node) :
    get? (ensureNode s n).nmeta m = if m = n ∧ get? s.adjS n = none then some [] else get? s.nmeta m := by
  unfold ensureNode
  cases h : get? s.adjS n with
  | none => simp [has, h, get?_set]; grind
  | some ids => simp [has, h]

theorem ensureNode_fields (s : Store) (n : Node) :
    (ensureNode s n).edgeList = s.edgeList ∧ (ensureNode s n).rev = s.rev ∧ (ensureNode s n).weights = s.weights ∧
    (ensureNode s n).emeta = s.emeta ∧ (ensureNode s n).nextId = s.nextId ∧ (ensureNode s n).weighted = s.weighted ∧
    (ensureNode s n).hmeta = s.hmeta := by
  unfold ensureNode; split <;> simp

theorem ensureNode_nodup (s : Store) (n : Node)
    (h : (keys s.adjS).Nodup ∧ (keys s.adjT).Nodup ∧ (keys s.nmeta).Nodup) :
    (keys (ensureNode s n).adjS).Nodup ∧ (keys (ensureNode s n).adjT).Nodup ∧ (keys (ensureNode s n).nmeta).Nodup := by
  unfold ensureNode; split
  · exact h
  · exact ⟨keys_set_nodup _ _ _ h.1, keys_set_nodup _ _ _ h.2.1, keys_set_nodup _ _ _ h.2.2⟩

theorem addNode_adjS (s : Store) (n : Node) (md : Option Meta) (m : Node) :
    get? (addNode s n md).adjS m = if m = n then some ((get? s.adjS n).getD []) else get? s.adjS m := by
  unfold addNode; simp only []; split <;> simp [ensureNode_adjS]

theorem addNode_adjT (s : Store) (n : Node) (md : Option Meta) (m : Node) :
    get? (addNode s n md).adjT m = if m = n ∧ get? s.adjS n = none then some [] else get? s.adjT m := by
  unfold addNode; simp only []; split <;> simp [ensureNode_adjT]

theorem addNode_fields (s : Store) (n : Node) (md : Option Meta) :
    (addNode s n md).edgeList = s.edgeList ∧ (addNode s n md).rev = s.rev ∧ (addNode s n md).weights = s.weights ∧
    (addNode s n md).emeta = s.emeta ∧ (addNode s n md).nextId = s.nextId ∧ (addNode s n md).weighted = s.weighted ∧
    (addNode s n md).hmeta = s.hmeta := by
  have := ensureNode_fields s n
  unfold addNode; simp only []; split <;> simp [this]

/-- which nodes have a metadata entry after `add_node` -/
theorem addNode_nmeta_isSome (s : Store) (n : Node) (md : Option Meta) (m : Node) :
    (get? (addNode s n md).nmeta m).isSome =
      if m = n ∧ get? s.adjS n = none then true else (get? s.nmeta m).isSome := by
  unfold addNode; simp only []; split
  · rename_i h
    simp only [get?_set]
    by_cases hm : n = m
    · subst hm; simp; rw [ensureNode_nmeta] at h; grind
    · simp [hm, ensureNode_nmeta]; grind
  · simp [ensureNode_nmeta]; grind

/-- `add_node` never changes the metadata of another node, nor of a node that already has some -/
theorem addNode_nmeta_other (s : Store) (n : Node) (md : Option Meta) (m : Node) (h : m ≠ n) :
    get? (addNode s n md).nmeta m = get? s.nmeta m := by
  unfold addNode; simp only []; split
  · simp [get?_set, Ne.symm h, ensureNode_nmeta, h]
  · simp [ensureNode_nmeta, h]

/-- `add_node(node)` (no metadata, as called from `add_edge`) leaves the metadata of a present node alone -/
theorem addNode_none_nmeta_present (s : Store) (n m : Node) (hm : (get? s.adjS m).isSome) :
    get? (addNode s n none).nmeta m = get? s.nmeta m := by
  by_cases h : m = n
  · subst h
    unfold addNode; simp only []
    have he : get? (ensureNode s m).nmeta m = get? s.nmeta m := by
      rw [ensureNode_nmeta]; cases hh : get? s.adjS m <;> simp_all
    split
    · rename_i h1; rw [he] at h1; simp [h1]
    · exact he
  · exact addNode_nmeta_other s n none m h

theorem addNode_nodup (s : Store) (n : Node) (md : Option Meta)
    (h : (keys s.adjS).Nodup ∧ (keys s.adjT).Nodup ∧ (keys s.nmeta).Nodup) :
    (keys (addNode s n md).adjS).Nodup ∧ (keys (addNode s n md).adjT).Nodup ∧ (keys (addNode s n md).nmeta).Nodup := by
  have := ensureNode_nodup s n h
  unfold addNode; simp only []; split
  · exact ⟨this.1, this.2.1, keys_set_nodup _ _ _ this.2.2⟩
  · exact this

/-! ### the two linking loops of add_edge -/

theorem pushId_get (adj : Adj) (n : Node) (id : Nat) (m : Node) :
    get? (pushId adj n id) m = if m = n then some ((get? adj n).getD [] ++ [id]) else get? adj m := by
  unfold pushId; rw [get?_set]; grind

theorem linkSrc_fields (s : Store) (id : Nat) (ns : List Node) :
    (linkSrc s id ns).edgeList = s.edgeList ∧ (linkSrc s id ns).rev = s.rev ∧ (linkSrc s id ns).weights = s.weights ∧
    (linkSrc s id ns).emeta = s.emeta ∧ (linkSrc s id ns).nextId = s.nextId ∧ (linkSrc s id ns).weighted = s.weighted ∧
    (linkSrc s id ns).hmeta = s.hmeta := by
  induction ns generalizing s with
  | nil => simp [linkSrc]
  | cons n ns ih =>
    simp only [linkSrc]
    have h1 := ih ({ addNode s n none with adjS := pushId (addNode s n none).adjS n id })
    have h2 := addNode_fields s n none
    simp only at h1
    grind

theorem linkTgt_fields (s : Store) (id : Nat) (ns : List Node) :
    (linkTgt s id ns).edgeList = s.edgeList ∧ (linkTgt s id ns).rev = s.rev ∧ (linkTgt s id ns).weights = s.weights ∧
    (linkTgt s id ns).emeta = s.emeta ∧ (linkTgt s id ns).nextId = s.nextId ∧ (linkTgt s id ns).weighted = s.weighted ∧
    (linkTgt s id ns).hmeta = s.hmeta := by
  induction ns generalizing s with
  | nil => simp [linkTgt]
  | cons n ns ih =>
    simp only [linkTgt]
    have h1 := ih ({ addNode s n none with adjT := pushId (addNode s n none).adjT n id })
    have h2 := addNode_fields s n none
    simp only at h1
    grind

theorem linkSrc_adjS (s : Store) (id : Nat) (ns : List Node) (hnd : ns.Nodup) (m : Node) :
    get? (linkSrc s id ns).adjS m =
      if m ∈ ns then some ((get? s.adjS m).getD [] ++ [id]) else get? s.adjS m := by
  induction ns generalizing s with
  | nil => simp [linkSrc]
  | cons n ns ih =>
    simp only [linkSrc]
    have hn : n ∉ ns := (List.nodup_cons.mp hnd).1
    rw [ih _ (List.nodup_cons.mp hnd).2]
    simp only [pushId_get, addNode_adjS]
    grind

theorem linkSrc_adjT (s : Store) (id : Nat) (ns : List Node) (hnd : ns.Nodup) (m : Node) :
    get? (linkSrc s id ns).adjT m =
      if m ∈ ns ∧ get? s.adjS m = none then some [] else get? s.adjT m := by
  induction ns generalizing s with
  | nil => simp [linkSrc]
  | cons n ns ih =>
    simp only [linkSrc]
    have hn : n ∉ ns := (List.nodup_cons.mp hnd).1
    rw [ih _ (List.nodup_cons.mp hnd).2]
    simp only [pushId_get, addNode_adjS, addNode_adjT]
    grind

theorem linkSrc_nmeta_isSome (s : Store) (id : Nat) (ns : List Node) (hnd : ns.Nodup) (m : Node) :
    (get? (linkSrc s id ns).nmeta m).isSome =
      if m ∈ ns ∧ get? s.adjS m = none then true else (get? s.nmeta m).isSome := by
  induction ns generalizing s with
  | nil => simp [linkSrc]
  | cons n ns ih =>
    simp only [linkSrc]
    have hn : n ∉ ns := (List.nodup_cons.mp hnd).1
    rw [ih _ (List.nodup_cons.mp hnd).2]
    simp only [pushId_get, addNode_adjS, addNode_nmeta_isSome]
    grind

theorem linkTgt_adjT (s : Store) (id : Nat) (ns : List Node) (hnd : ns.Nodup) (m : Node) :
    get? (linkTgt s id ns).adjT m =
      if m ∈ ns then some ((if get? s.adjS m = none then [] else (get? s.adjT m).getD []) ++ [id])
      else get? s.adjT m := by
  induction ns generalizing s with
  | nil => simp [linkTgt]
  | cons n ns ih =>
    simp only [linkTgt]
    have hn : n ∉ ns := (List.nodup_cons.mp hnd).1
    rw [ih _ (List.nodup_cons.mp hnd).2]
    simp only [pushId_get, addNode_adjS, addNode_adjT]
    grind

theorem linkTgt_adjS (s : Store) (id : Nat) (ns : List Node) (m : Node) :
    get? (linkTgt s id ns).adjS m =
      if m ∈ ns then some ((get? s.adjS m).getD []) else get? s.adjS m := by
  induction ns generalizing s with
  | nil => simp [linkTgt]
  | cons n ns ih =>
    simp only [linkTgt]
    rw [ih _]
    simp only [addNode_adjS]
    grind

theorem linkTgt_nmeta_isSome (s : Store) (id : Nat) (ns : List Node) (m : Node) :
    (get? (linkTgt s id ns).nmeta m).isSome =
      if m ∈ ns ∧ get? s.adjS m = none then true else (get? s.nmeta m).isSome := by
  induction ns generalizing s with
  | nil => simp [linkTgt]
  | cons n ns ih =>
    simp only [linkTgt]
    rw [ih _]
    simp only [addNode_adjS, addNode_nmeta_isSome]
    grind

theorem linkSrc_nmeta_present (s : Store) (id : Nat) (ns : List Node) (m : Node) (hm : (get? s.adjS m).isSome) :
    get? (linkSrc s id ns).nmeta m = get? s.nmeta m := by
  induction ns generalizing s with
  | nil => simp [linkSrc]
  | cons n ns ih =>
    simp only [linkSrc]
    rw [ih _ (by simp only [pushId_get, addNode_adjS]; grind)]
    exact addNode_none_nmeta_present s n m hm

theorem linkTgt_nmeta_present (s : Store) (id : Nat) (ns : List Node) (m : Node) (hm : (get? s.adjS m).isSome) :
    get? (linkTgt s id ns).nmeta m = get? s.nmeta m := by
  induction ns generalizing s with
  | nil => simp [linkTgt]
  | cons n ns ih =>
    simp only [linkTgt]
    rw [ih _ (by simp only [addNode_adjS]; grind)]
    exact addNode_none_nmeta_present s n m hm

theorem pushId_nodup (adj : Adj) (n : Node) (id : Nat) (h : (keys adj).Nodup) : (keys (pushId adj n id)).Nodup :=
  keys_set_nodup _ _ _ h

theorem linkSrc_nodup (s : Store) (id : Nat) (ns : List Node)
    (h : (keys s.adjS).Nodup ∧ (keys s.adjT).Nodup ∧ (keys s.nmeta).Nodup) :
    (keys (linkSrc s id ns).adjS).Nodup ∧ (keys (linkSrc s id ns).adjT).Nodup ∧ (keys (linkSrc s id ns).nmeta).Nodup := by
  induction ns generalizing s with
  | nil => simpa [linkSrc] using h
  | cons n ns ih =>
    simp only [linkSrc]
    have h1 := addNode_nodup s n none h
    exact ih _ ⟨pushId_nodup _ _ _ h1.1, h1.2.1, h1.2.2⟩

theorem linkTgt_nodup (s : Store) (id : Nat) (ns : List Node)
    (h : (keys s.adjS).Nodup ∧ (keys s.adjT).Nodup ∧ (keys s.nmeta).Nodup) :
    (keys (linkTgt s id ns).adjS).Nodup ∧ (keys (linkTgt s id ns).adjT).Nodup ∧ (keys (linkTgt s id ns).nmeta).Nodup := by
  induction ns generalizing s with
  | nil => simpa [linkTgt] using h
  | cons n ns ih =>
    simp only [linkTgt]
    have h1 := addNode_nodup s n none h
    exact ih _ ⟨h1.1, pushId_nodup _ _ _ h1.2.1, h1.2.2⟩

/-! ### the invariant -/

/-- a canonical, well-formed key: sides sorted, duplicate-free, disjoint, non-empty -/
structure KeyWF (k : Key) : Prop where
  sortedS : k.1.Pairwise (· ≤ ·)
  sortedT : k.2.Pairwise (· ≤ ·)
  nodupS : k.1.Nodup
  nodupT : k.2.Nodup
  disj : ∀ n, n ∈ k.1 → n ∉ k.2
  neS : k.1 ≠ []
  neT : k.2 ≠ []

/-- representation invariant of `DirectedHypergraph` -/
structure Inv (s : Store) : Prop where
  rev_of_edge : ∀ k id, get? s.edgeList k = some id → get? s.rev id = some k
  edge_of_rev : ∀ k id, get? s.rev id = some k → get? s.edgeList k = some id
  id_lt : ∀ id k, get? s.rev id = some k → id < s.nextId
  key_wf : ∀ id k, get? s.rev id = some k → KeyWF k
  adjS_nodup : ∀ n ids, get? s.adjS n = some ids → ids.Nodup
  adjS_iff : ∀ n ids, get? s.adjS n = some ids → ∀ id, id ∈ ids ↔ ∃ k, get? s.rev id = some k ∧ n ∈ k.1
  adjT_nodup : ∀ n ids, get? s.adjT n = some ids → ids.Nodup
  adjT_iff : ∀ n ids, get? s.adjT n = some ids → ∀ id, id ∈ ids ↔ ∃ k, get? s.rev id = some k ∧ n ∈ k.2
  nodes_in : ∀ id k, get? s.rev id = some k → ∀ n, (n ∈ k.1 ∨ n ∈ k.2) → (get? s.adjS n).isSome
  adj_same : ∀ n, (get? s.adjT n).isSome = (get? s.adjS n).isSome
  nmeta_same : ∀ n, (get? s.nmeta n).isSome = (get? s.adjS n).isSome
  weights_same : ∀ id, (get? s.weights id).isSome = (get? s.rev id).isSome
  emeta_same : ∀ id, (get? s.emeta id).isSome = (get? s.rev id).isSome
  nd_edge : (keys s.edgeList).Nodup
  nd_rev : (keys s.rev).Nodup
  nd_w : (keys s.weights).Nodup
  nd_em : (keys s.emeta).Nodup
  nd_adjS : (keys s.adjS).Nodup
  nd_adjT : (keys s.adjT).Nodup
  nd_nm : (keys s.nmeta).Nodup

theorem inv_init (w : Bool) (hm : Meta) : Inv { weighted := w, hmeta := hm } := by
  constructor <;> simp [keys]

/-! ### add_edge, new hyperedge -/

theorem addEdgeNew_fields (s : Store) (k : Key) (wt : Int) (md : Meta) :
    (addEdgeNew s k wt md).edgeList = AL.set s.edgeList k s.nextId ∧
    (addEdgeNew s k wt md).rev = AL.set s.rev s.nextId k ∧
    (addEdgeNew s k wt md).weights = AL.set s.weights s.nextId (if s.weighted then wt else one) ∧
    (addEdgeNew s k wt md).emeta = AL.set s.emeta s.nextId md ∧
    (addEdgeNew s k wt md).nextId = s.nextId + 1 ∧ (addEdgeNew s k wt md).weighted = s.weighted ∧
    (addEdgeNew s k wt md).hmeta = s.hmeta := by
  unfold addEdgeNew
  simp only [linkTgt_fields, linkSrc_fields]
  simp

theorem addEdgeNew_adjS (s : Store) (k : Key) (wt : Int) (md : Meta) (hS : k.1.Nodup)
    (hd : ∀ n, n ∈ k.1 → n ∉ k.2) (m : Node) :
    get? (addEdgeNew s k wt md).adjS m =
      if m ∈ k.1 then some ((get? s.adjS m).getD [] ++ [s.nextId])
      else if m ∈ k.2 then some ((get? s.adjS m).getD []) else get? s.adjS m := by
  unfold addEdgeNew
  simp only [linkTgt_adjS, linkSrc_adjS _ _ _ hS]
  grind

theorem addEdgeNew_adjT (s : Store) (k : Key) (wt : Int) (md : Meta) (hS : k.1.Nodup) (hT : k.2.Nodup)
    (hd : ∀ n, n ∈ k.1 → n ∉ k.2) (hsame : ∀ n, (get? s.adjT n).isSome = (get? s.adjS n).isSome) (m : Node) :
    get? (addEdgeNew s k wt md).adjT m =
      if m ∈ k.2 then some ((get? s.adjT m).getD [] ++ [s.nextId])
      else if m ∈ k.1 then some ((get? s.adjT m).getD []) else get? s.adjT m := by
  unfold addEdgeNew
  simp only [linkTgt_adjT _ _ _ hT, linkSrc_adjS _ _ _ hS, linkSrc_adjT _ _ _ hS]
  have := hsame m
  have hd' := hd m
  by_cases hm1 : m ∈ k.1 <;> by_cases hm2 : m ∈ k.2 <;> cases h1 : get? s.adjS m <;> cases h2 : get? s.adjT m <;>
    simp_all

theorem addEdgeNew_nmeta_isSome (s : Store) (k : Key) (wt : Int) (md : Meta) (hS : k.1.Nodup)
    (hsame : ∀ n, (get? s.nmeta n).isSome = (get? s.adjS n).isSome) (m : Node) :
    (get? (addEdgeNew s k wt md).nmeta m).isSome =
      if m ∈ k.1 ∨ m ∈ k.2 then true else (get? s.nmeta m).isSome := by
  unfold addEdgeNew
  simp only [linkTgt_nmeta_isSome, linkSrc_nmeta_isSome _ _ _ hS, linkSrc_adjS _ _ _ hS]
  have := hsame m
  by_cases hm1 : m ∈ k.1 <;> by_cases hm2 : m ∈ k.2 <;> cases h1 : get? s.adjS m <;> cases h2 : get? s.nmeta m <;>
    simp_all

theorem addEdgeNew_nodup (s : Store) (k : Key) (wt : Int) (md : Meta)
    (h : (keys s.adjS).Nodup ∧ (keys s.adjT).Nodup ∧ (keys s.nmeta).Nodup) :
    (keys (addEdgeNew s k wt md).adjS).Nodup ∧ (keys (addEdgeNew s k wt md).adjT).Nodup ∧
    (keys (addEdgeNew s k wt md).nmeta).Nodup := by
  unfold addEdgeNew
  exact linkTgt_nodup _ _ _ (linkSrc_nodup _ _ _ h)

theorem Inv.fresh {s : Store} (h : Inv s) : get? s.rev s.nextId = none := by
  cases hr : get? s.rev s.nextId with
  | none => rfl
  | some e => exact absurd (h.id_lt _ _ hr) (Nat.lt_irrefl _)

/-- the id list of a node (empty when the node has no row) lists exactly the hyperedges having it as a source -/
theorem Inv.adjS_getD {s : Store} (h : Inv s) (n : Node) (id : Nat) :
    id ∈ (get? s.adjS n).getD [] ↔ ∃ k, get? s.rev id = some k ∧ n ∈ k.1 := by
  cases ha : get? s.adjS n with
  | some ids => exact h.adjS_iff n ids ha id
  | none =>
    simp only [Option.getD_none, List.not_mem_nil, false_iff]
    rintro ⟨k, hk, hn⟩
    have := h.nodes_in _ _ hk n (Or.inl hn); simp [ha] at this

theorem Inv.adjT_getD {s : Store} (h : Inv s) (n : Node) (id : Nat) :
    id ∈ (get? s.adjT n).getD [] ↔ ∃ k, get? s.rev id = some k ∧ n ∈ k.2 := by
  cases ha : get? s.adjT n with
  | some ids => exact h.adjT_iff n ids ha id
  | none =>
    simp only [Option.getD_none, List.not_mem_nil, false_iff]
    rintro ⟨k, hk, hn⟩
    have h1 := h.nodes_in _ _ hk n (Or.inr hn)
    have h2 := h.adj_same n
    rw [ha] at h2; simp at h2; simp [h2] at h1

theorem Inv.adjS_getD_nodup {s : Store} (h : Inv s) (n : Node) : ((get? s.adjS n).getD []).Nodup := by
  cases ha : get? s.adjS n with
  | some ids => exact h.adjS_nodup n ids ha
  | none => simp

theorem Inv.adjT_getD_nodup {s : Store} (h : Inv s) (n : Node) : ((get? s.adjT n).getD []).Nodup := by
  cases ha : get? s.adjT n with
  | some ids => exact h.adjT_nodup n ids ha
  | none => simp

/-- one slot of an adjacency map when a fresh id is recorded for key `k` (generic in the role `proj`) -/
theorem adj_step (rev : List (Nat × Key)) (proj : Key → List Node) (k : Key) (id : Nat) (n : Node)
    (ids0 ids : List Nat) (hfresh : get? rev id = none)
    (h0 : ∀ id', id' ∈ ids0 ↔ ∃ k', get? rev id' = some k' ∧ n ∈ proj k')
    (hnd : ids0.Nodup)
    (hids : ids = if n ∈ proj k then ids0 ++ [id] else ids0) :
    ids.Nodup ∧ ∀ id', id' ∈ ids ↔ ∃ k', get? (AL.set rev id k) id' = some k' ∧ n ∈ proj k' := by
  have hnot : id ∉ ids0 := by
    intro hc; obtain ⟨k', hk', _⟩ := (h0 id).mp hc; rw [hfresh] at hk'; cases hk'
  by_cases hm : n ∈ proj k
  · rw [if_pos hm] at hids; subst hids
    refine ⟨List.nodup_append.mpr ⟨hnd, by simp, ?_⟩, ?_⟩
    · intro a ha b hb hab
      rw [List.mem_singleton] at hb; rw [hab, hb] at ha; exact hnot ha
    · intro id'
      rw [List.mem_append, List.mem_singleton]
      constructor
      · rintro (h1 | h1)
        · obtain ⟨k', hk', hn⟩ := (h0 id').mp h1
          refine ⟨k', ?_, hn⟩
          rw [get?_set_ne _ _ _ _ (by intro hc; rw [← hc] at h1; exact hnot h1)]; exact hk'
        · subst h1; exact ⟨k, by simp, hm⟩
      · rintro ⟨k', hk', hn⟩
        rw [get?_set] at hk'
        by_cases hid : id = id'
        · right; exact hid.symm
        · rw [if_neg hid] at hk'; left; exact (h0 id').mpr ⟨k', hk', hn⟩
  · rw [if_neg hm] at hids; subst hids
    refine ⟨hnd, ?_⟩
    intro id'
    constructor
    · intro h1
      obtain ⟨k', hk', hn⟩ := (h0 id').mp h1
      refine ⟨k', ?_, hn⟩
      rw [get?_set_ne _ _ _ _ (by intro hc; rw [← hc] at h1; exact hnot h1)]; exact hk'
    · rintro ⟨k', hk', hn⟩
      rw [get?_set] at hk'
      by_cases hid : id = id'
      · rw [if_pos hid] at hk'; injection hk' with hk'; subst hk'; exact absurd hn hm
      · rw [if_neg hid] at hk'; exact (h0 id').mpr ⟨k', hk', hn⟩

theorem addEdgeNew_inv (s : Store) (k : Key) (wt : Int) (md : Meta)
    (hk : KeyWF k) (hget : get? s.edgeList k = none) (h : Inv s) : Inv (addEdgeNew s k wt md) := by
  have hfresh := h.fresh
  obtain ⟨f1, f2, f3, f4, f5, _, _⟩ := addEdgeNew_fields s k wt md
  have aS := addEdgeNew_adjS s k wt md hk.nodupS hk.disj
  have aT := addEdgeNew_adjT s k wt md hk.nodupS hk.nodupT hk.disj h.adj_same
  have aN := addEdgeNew_nmeta_isSome s k wt md hk.nodupS h.nmeta_same
  have nd := addEdgeNew_nodup s k wt md ⟨h.nd_adjS, h.nd_adjT, h.nd_nm⟩
  -- lookups in the new reverse table
  have hrev : ∀ id' k', get? (addEdgeNew s k wt md).rev id' = some k' ↔
      (id' = s.nextId ∧ k' = k) ∨ (id' ≠ s.nextId ∧ get? s.rev id' = some k') := by
    intro id' k'; rw [f2, get?_set]
    by_cases hid : s.nextId = id'
    · subst hid; simp; exact eq_comm
    · have : id' ≠ s.nextId := fun hc => hid hc.symm
      simp [hid, this]
  -- the shape of the new adjacency lists
  have sS : ∀ n ids, get? (addEdgeNew s k wt md).adjS n = some ids →
      ids = if n ∈ k.1 then (get? s.adjS n).getD [] ++ [s.nextId] else (get? s.adjS n).getD [] := by
    intro n ids hh; rw [aS] at hh
    by_cases h1 : n ∈ k.1
    · simp [h1] at hh; simp [h1, hh]
    · by_cases h2 : n ∈ k.2
      · simp [h1, h2] at hh; simp [h1, hh]
      · simp [h1, h2] at hh; simp [h1, hh]
  have sT : ∀ n ids, get? (addEdgeNew s k wt md).adjT n = some ids →
      ids = if n ∈ k.2 then (get? s.adjT n).getD [] ++ [s.nextId] else (get? s.adjT n).getD [] := by
    intro n ids hh; rw [aT] at hh
    by_cases h1 : n ∈ k.2
    · simp [h1] at hh; simp [h1, hh]
    · by_cases h2 : n ∈ k.1
      · simp [h1, h2] at hh; simp [h1, hh]
      · simp [h1, h2] at hh; simp [h1, hh]
  constructor
  · intro k' id' hh
    rw [f1, get?_set] at hh
    rw [hrev]
    by_cases he : k = k'
    · subst he; simp at hh; left; exact ⟨hh.symm, rfl⟩
    · simp [he] at hh
      have h1 := h.rev_of_edge k' id' hh
      have := h.id_lt _ _ h1
      right; exact ⟨by omega, h1⟩
  · intro k' id' hh
    rw [f1, get?_set]
    rcases (hrev id' k').mp hh with ⟨h1, h2⟩ | ⟨h1, h2⟩
    · subst h1 h2; simp
    · have h3 := h.edge_of_rev k' id' h2
      have : k ≠ k' := by intro heq; rw [heq] at hget; rw [hget] at h3; cases h3
      simp [this, h3]
  · intro id' k' hh
    rw [f5]
    rcases (hrev id' k').mp hh with ⟨h1, _⟩ | ⟨_, h2⟩
    · omega
    · have := h.id_lt _ _ h2; omega
  · intro id' k' hh
    rcases (hrev id' k').mp hh with ⟨_, h2⟩ | ⟨_, h2⟩
    · subst h2; exact hk
    · exact h.key_wf _ _ h2
  · intro n ids hh
    exact (adj_step s.rev (·.1) k s.nextId n _ ids hfresh (h.adjS_getD n) (h.adjS_getD_nodup n) (sS n ids hh)).1
  · intro n ids hh id'
    rw [f2]
    exact (adj_step s.rev (·.1) k s.nextId n _ ids hfresh (h.adjS_getD n) (h.adjS_getD_nodup n) (sS n ids hh)).2 id'
  · intro n ids hh
    exact (adj_step s.rev (·.2) k s.nextId n _ ids hfresh (h.adjT_getD n) (h.adjT_getD_nodup n) (sT n ids hh)).1
  · intro n ids hh id'
    rw [f2]
    exact (adj_step s.rev (·.2) k s.nextId n _ ids hfresh (h.adjT_getD n) (h.adjT_getD_nodup n) (sT n ids hh)).2 id'
  · -- nodes_in
    intro id' k' hh n hn
    rw [aS]
    rcases (hrev id' k').mp hh with ⟨_, h2⟩ | ⟨_, h2⟩
    · subst h2
      rcases hn with hn | hn
      · simp [hn]
      · by_cases h1 : n ∈ k'.1 <;> simp [h1, hn]
    · have := h.nodes_in _ _ h2 n hn
      split
      · simp
      · split
        · simp
        · exact this
  · -- adj_same
    intro n
    rw [aS, aT]
    have := h.adj_same n
    by_cases h1 : n ∈ k.1 <;> by_cases h2 : n ∈ k.2 <;> simp [h1, h2, this]
  · -- nmeta_same
    intro n
    rw [aS, aN]
    have := h.nmeta_same n
    by_cases h1 : n ∈ k.1 <;> by_cases h2 : n ∈ k.2 <;> simp [h1, h2, this]
  · intro id'
    rw [f3, f2, get?_set, get?_set]
    by_cases hid : s.nextId = id'
    · simp [hid]
    · simp [hid]; exact h.weights_same id'
  · intro id'
    rw [f4, f2, get?_set, get?_set]
    by_cases hid : s.nextId = id'
    · simp [hid]
    · simp [hid]; exact h.emeta_same id'
  · rw [f1]; exact keys_set_nodup _ _ _ h.nd_edge
  · rw [f2]; exact keys_set_nodup _ _ _ h.nd_rev
  · rw [f3]; exact keys_set_nodup _ _ _ h.nd_w
  · rw [f4]; exact keys_set_nodup _ _ _ h.nd_em
  · exact nd.1
  · exact nd.2.1
  · exact nd.2.2

/-! ### updates of stored values (weights, metadata, flags) -/

theorem isSome_get?_set_of_isSome {α β} [DecidableEq α] (l : List (α × β)) (k : α) (v : β)
    (hk : (get? l k).isSome) (k2 : α) : (get? (AL.set l k v) k2).isSome = (get? l k2).isSome := by
  rw [get?_set]; by_cases h : k = k2
  · subst h; simp [hk]
  · simp [h]

theorem Inv.set_weights {s : Store} (h : Inv s) (id : Nat) (w : Int) (hid : (get? s.weights id).isSome) :
    Inv { s with weights := AL.set s.weights id w } :=
  { h with
    weights_same := fun id' => by
      show (get? (AL.set s.weights id w) id').isSome = _
      rw [isSome_get?_set_of_isSome _ _ _ hid]; exact h.weights_same id'
    nd_w := keys_set_nodup _ _ _ h.nd_w }

theorem Inv.set_emeta {s : Store} (h : Inv s) (id : Nat) (md : Meta) (hid : (get? s.emeta id).isSome) :
    Inv { s with emeta := AL.set s.emeta id md } :=
  { h with
    emeta_same := fun id' => by
      show (get? (AL.set s.emeta id md) id').isSome = _
      rw [isSome_get?_set_of_isSome _ _ _ hid]; exact h.emeta_same id'
    nd_em := keys_set_nodup _ _ _ h.nd_em }

theorem Inv.set_nmeta {s : Store} (h : Inv s) (n : Node) (md : Meta) (hn : (get? s.nmeta n).isSome) :
    Inv { s with nmeta := AL.set s.nmeta n md } :=
  { h with
    nmeta_same := fun n' => by
      show (get? (AL.set s.nmeta n md) n').isSome = _
      rw [isSome_get?_set_of_isSome _ _ _ hn]; exact h.nmeta_same n'
    nd_nm := keys_set_nodup _ _ _ h.nd_nm }

theorem Inv.set_hmeta {s : Store} (h : Inv s) (md : Meta) : Inv { s with hmeta := md } := { h with }
theorem Inv.set_weighted {s : Store} (h : Inv s) (b : Bool) : Inv { s with weighted := b } := { h with }

theorem Inv.emeta_of_edge {s : Store} (h : Inv s) (k : Key) (id : Nat) (hk : get? s.edgeList k = some id) :
    (get? s.emeta id).isSome := by
  rw [h.emeta_same, h.rev_of_edge k id hk]; rfl

theorem Inv.weights_of_edge {s : Store} (h : Inv s) (k : Key) (id : Nat) (hk : get? s.edgeList k = some id) :
    (get? s.weights id).isSome := by
  rw [h.weights_same, h.rev_of_edge k id hk]; rfl

/-! ### add_edge -/

theorem Inv.replace_weights {s : Store} (h : Inv s) (W : List (Nat × Int))
    (h1 : ∀ id, (get? W id).isSome = (get? s.weights id).isSome) (h2 : (keys W).Nodup) :
    Inv { s with weights := W } :=
  { h with
    weights_same := fun id' => by
      show (get? W id').isSome = _
      rw [h1]; exact h.weights_same id'
    nd_w := h2 }

theorem Inv.replace_weights_emeta {s : Store} (h : Inv s) (W : List (Nat × Int))
    (h1 : ∀ id, (get? W id).isSome = (get? s.weights id).isSome) (h2 : (keys W).Nodup)
    (id : Nat) (md : Meta) (hid : (get? s.emeta id).isSome) :
    Inv { s with weights := W, emeta := AL.set s.emeta id md } :=
  Inv.set_emeta (s := { s with weights := W }) (Inv.replace_weights h W h1 h2) id md hid

theorem addEdgeOld_inv (s : Store) (k : Key) (id : Nat) (wt : Int) (md : Meta) (h : Inv s)
    (hk : get? s.edgeList k = some id) : Inv (addEdgeOld s id wt md) := by
  have he := h.emeta_of_edge k id hk
  have hw := h.weights_of_edge k id hk
  unfold addEdgeOld
  refine Inv.replace_weights_emeta h _ ?_ ?_ id md he
  · intro id'
    split
    · split
      · exact isSome_get?_set_of_isSome _ _ _ hw id'
      · rfl
    · rfl
  · split
    · split
      · exact keys_set_nodup _ _ _ h.nd_w
      · exact h.nd_w
    · exact h.nd_w

theorem addEdgeKey_inv (s : Store) (k : Key) (w : Option Int) (md : Option Meta) (hk : KeyWF k) (h : Inv s) :
    Inv (addEdgeKey s k w md).1 := by
  unfold addEdgeKey
  split
  · exact h
  · split
    · rename_i hget; exact addEdgeNew_inv s k _ _ hk hget h
    · rename_i id hget; exact addEdgeOld_inv s k id _ _ h hget

/-- what the property's quantifier guarantees for a hyperedge handed to `add_edge`:
    duplicate-free, disjoint, non-empty source and target listings -/
structure RawWF (e : RawEdge) : Prop where
  nodupS : e.src.toList.Nodup
  nodupT : e.tgt.toList.Nodup
  disj : ∀ n, n ∈ e.src.toList → n ∉ e.tgt.toList
  neS : e.src.toList ≠ []
  neT : e.tgt.toList ≠ []

theorem sortNodes_ne_nil {l : List Nat} (h : l ≠ []) : sortNodes l ≠ [] := by
  intro hc
  have := sortNodes_length l
  rw [hc] at this
  cases l with
  | nil => exact h rfl
  | cons a t => simp at this

theorem keyWF_canonAdd (e : RawEdge) (h : RawWF e) : KeyWF (canonAdd e) := by
  unfold canonAdd
  exact ⟨sortNodes_sorted _, sortNodes_sorted _, sortNodes_nodup h.nodupS, sortNodes_nodup h.nodupT,
    fun n hn hc => h.disj n (mem_sortNodes.mp hn) (mem_sortNodes.mp hc),
    sortNodes_ne_nil h.neS, sortNodes_ne_nil h.neT⟩

theorem addEdge_inv (s : Store) (e : RawEdge) (w : Option Int) (md : Option Meta) (he : RawWF e) (h : Inv s) :
    Inv (addEdge s e w md).1 :=
  addEdgeKey_inv s _ w md (keyWF_canonAdd e he) h

/-! ### add_node -/

theorem addNode_inv (s : Store) (n : Node) (md : Option Meta) (h : Inv s) : Inv (addNode s n md) := by
  obtain ⟨f1, f2, f3, f4, f5, _, _⟩ := addNode_fields s n md
  have aS := addNode_adjS s n md
  have aT := addNode_adjT s n md
  have aN := addNode_nmeta_isSome s n md
  have nd := addNode_nodup s n md ⟨h.nd_adjS, h.nd_adjT, h.nd_nm⟩
  have sS : ∀ m ids, get? (addNode s n md).adjS m = some ids → ids = (get? s.adjS m).getD [] := by
    intro m ids hh; rw [aS] at hh
    by_cases h1 : m = n
    · subst h1; simp at hh; exact hh.symm
    · simp [h1] at hh; simp [hh]
  have sT : ∀ m ids, get? (addNode s n md).adjT m = some ids → ids = (get? s.adjT m).getD [] := by
    intro m ids hh; rw [aT] at hh
    by_cases h1 : m = n ∧ get? s.adjS n = none
    · rw [if_pos h1] at hh
      have h2 := h.adj_same m; rw [h1.1, h1.2] at h2
      cases hq : get? s.adjT n with
      | none => rw [h1.1, hq]; injection hh with hh; exact hh.symm
      | some x => rw [hq] at h2; cases h2
    · rw [if_neg h1] at hh; simp [hh]
  constructor
  · rw [f1, f2]; exact h.rev_of_edge
  · rw [f1, f2]; exact h.edge_of_rev
  · rw [f2, f5]; exact h.id_lt
  · rw [f2]; exact h.key_wf
  · intro m ids hh; rw [sS m ids hh]; exact h.adjS_getD_nodup m
  · intro m ids hh id; rw [sS m ids hh, f2]; exact h.adjS_getD m id
  · intro m ids hh; rw [sT m ids hh]; exact h.adjT_getD_nodup m
  · intro m ids hh id; rw [sT m ids hh, f2]; exact h.adjT_getD m id
  · intro id k hh m hm
    rw [f2] at hh
    have := h.nodes_in id k hh m hm
    rw [aS]; split
    · simp
    · exact this
  · intro m
    rw [aS, aT]
    have := h.adj_same m
    by_cases h1 : m = n
    · subst h1; cases hq : get? s.adjS m <;> simp_all
    · simp [h1, this]
  · intro m
    rw [aS, aN]
    have := h.nmeta_same m
    by_cases h1 : m = n
    · subst h1; cases hq : get? s.adjS m <;> simp_all
    · simp [h1, this]
  · rw [f3, f2]; exact h.weights_same
  · rw [f4, f2]; exact h.emeta_same
  · rw [f1]; exact h.nd_edge
  · rw [f2]; exact h.nd_rev
  · rw [f3]; exact h.nd_w
  · rw [f4]; exact h.nd_em
  · exact nd.1
  · exact nd.2.1
  · exact nd.2.2

theorem addNodes_inv (s : Store) (ns : List Node) (h : Inv s) : Inv (addNodes s ns) := by
  induction ns generalizing s with
  | nil => exact h
  | cons n ns ih => exact ih _ (addNode_inv s n none h)

theorem clear_inv (s : Store) : Inv (clear s) := by
  constructor <;> simp [clear, keys]

end C02
