import Hgxv.Proofs.C14Gen
import Hgxv.Model.C14Trace
/-! Draw accounting of the rejection loops and the trace model of `scale_free_hypergraph` (core Lean only). -/
namespace C14

/-! ## the rejection loop `while len(edges) < k` -/

theorem insAll_prefix {α : Type} [DecidableEq α] (l : List α) : ∀ acc : List α, ∃ t, insAll acc l = acc ++ t := by
  induction l with
  | nil => intro acc; exact ⟨[], by simp [insAll_nil]⟩
  | cons x l ih =>
    intro acc
    obtain ⟨t, ht⟩ := ih (insNew acc x)
    rw [insAll_cons, ht]
    by_cases hx : x ∈ acc
    · rw [insNew_of_mem hx]; exact ⟨t, rfl⟩
    · rw [insNew_of_not_mem hx]; exact ⟨x :: t, by simp⟩

/-- the loop returns the first `k` distinct sorted hyperedges of the stream -/
theorem collect_eq_take (k : Nat) : ∀ (ds : List (List Nat)) (acc : List Edge), acc.length ≤ k →
    collect k acc ds = (insAll acc (ds.map sortE)).take k := by
  intro ds
  induction ds with
  | nil => intro acc h; simp [collect, insAll_nil, List.take_of_length_le h]
  | cons d ds ih =>
    intro acc h
    simp only [collect, List.map_cons]
    split
    · rw [insAll_cons]; apply ih
      have := length_insNew_le acc (sortE d); omega
    · obtain ⟨t, ht⟩ := insAll_prefix (sortE d :: ds.map sortE) acc
      rw [ht, List.take_left' (by omega)]

theorem collectUsed_le_length (k : Nat) : ∀ (ds : List (List Nat)) (acc : List Edge),
    collectUsed k acc ds ≤ ds.length := by
  intro ds
  induction ds with
  | nil => intro acc; simp [collectUsed]
  | cons d ds ih =>
    intro acc; simp only [collectUsed, List.length_cons]; split
    · have := ih (insNew acc (sortE d)); omega
    · omega

/-- the draws behind the point where the loop stopped do not matter -/
theorem collect_take_used (k : Nat) : ∀ (ds : List (List Nat)) (acc : List Edge),
    collect k acc (ds.take (collectUsed k acc ds)) = collect k acc ds := by
  intro ds
  induction ds with
  | nil => intro acc; simp [collectUsed]
  | cons d ds ih =>
    intro acc
    simp only [collectUsed]
    split
    · rename_i hlt
      simp only [List.take_succ_cons, collect, hlt, if_true]
      exact ih _
    · rename_i hge
      simp [collect, hge]

theorem consumedExactly_iff (k : Nat) : ∀ (ds : List (List Nat)) (acc : List Edge),
    consumedExactly k acc ds = true ↔ (collectUsed k acc ds = ds.length ∧ k ≤ (collect k acc ds).length) := by
  intro ds
  induction ds with
  | nil => intro acc; simp [consumedExactly, collectUsed, collect]
  | cons d ds ih =>
    intro acc
    simp only [consumedExactly, collectUsed, collect, Bool.and_eq_true, decide_eq_true_eq, List.length_cons]
    by_cases hlt : acc.length < k
    · simp only [hlt, if_true, true_and, Nat.add_right_cancel_iff]
      exact ih _
    · simp [hlt]

/-- the loop stops within the first `m` draws as soon as these hold `k` distinct hyperedges -/
theorem collectUsed_le_of_distinct (k : Nat) : ∀ (ds : List (List Nat)) (acc : List Edge) (m : Nat),
    k ≤ (insAll acc ((ds.take m).map sortE)).length → collectUsed k acc ds ≤ m := by
  intro ds
  induction ds with
  | nil => intro acc m _; simp [collectUsed]
  | cons d ds ih =>
    intro acc m h
    simp only [collectUsed]
    split
    · rename_i hlt
      cases m with
      | zero => simp [insAll_nil] at h; omega
      | succ m =>
        simp only [List.take_succ_cons, List.map_cons, insAll_cons] at h
        have := ih _ m h; omega
    · omega

/-- ... and not before: while it is still drawing, fewer than `k` distinct hyperedges have been seen -/
theorem distinct_lt_of_lt_collectUsed (k : Nat) : ∀ (ds : List (List Nat)) (acc : List Edge) (m : Nat),
    m < collectUsed k acc ds → (insAll acc ((ds.take m).map sortE)).length < k := by
  intro ds
  induction ds with
  | nil => intro acc m h; simp [collectUsed] at h
  | cons d ds ih =>
    intro acc m h
    simp only [collectUsed] at h
    split at h
    · rename_i hlt
      cases m with
      | zero => simpa [insAll_nil] using hlt
      | succ m =>
        simp only [List.take_succ_cons, List.map_cons, insAll_cons]
        exact ih _ m (by omega)
    · omega

/-- a stream that holds `k` distinct hyperedges makes the loop return, after `collectUsed` draws -/
theorem consumed_prefix (k : Nat) : ∀ (ds : List (List Nat)) (acc : List Edge),
    k ≤ (insAll acc (ds.map sortE)).length → consumedExactly k acc (ds.take (collectUsed k acc ds)) = true := by
  intro ds
  induction ds with
  | nil => intro acc h; simpa [collectUsed, consumedExactly, insAll_nil] using h
  | cons d ds ih =>
    intro acc h
    simp only [collectUsed]
    split
    · rename_i hlt
      simp only [List.take_succ_cons, consumedExactly, hlt, decide_true, Bool.true_and]
      exact ih _ (by simpa [insAll_cons] using h)
    · rename_i hge
      simp only [List.take_zero, consumedExactly, decide_eq_true_eq]; omega

/-- the draws of a run that returned hold exactly `k` distinct hyperedges: every other draw was a repetition -/
theorem consumed_distinct (k : Nat) : ∀ (ds : List (List Nat)) (acc : List Edge),
    consumedExactly k acc ds = true → acc.length ≤ k → (insAll acc (ds.map sortE)).length = k := by
  intro ds
  induction ds with
  | nil => intro acc h hle; simp [consumedExactly] at h; simp [insAll_nil]; omega
  | cons d ds ih =>
    intro acc h hle
    simp only [consumedExactly, Bool.and_eq_true, decide_eq_true_eq] at h
    simp only [List.map_cons, insAll_cons]
    apply ih _ h.2
    have := length_insNew_le acc (sortE d); omega

theorem consumed_length_ge (k : Nat) (ds : List (List Nat)) (h : consumedExactly k [] ds = true) : k ≤ ds.length := by
  have h1 := consumed_distinct k ds [] h (by simp)
  have h2 := length_insAll_le (ds.map sortE) ([] : List Edge)
  simp at h2; omega

/-! ## the trace of `scale_free_hypergraph` -/

theorem countExp_append (a b : List SfEv) : countExp (a ++ b) = countExp a + countExp b := by
  simp [countExp, List.filter_append]
theorem countSwap_append (a b : List SfEv) : countSwap (a ++ b) = countSwap a + countSwap b := by
  simp [countSwap, List.filter_append]
theorem countChoice_append (a b : List SfEv) : countChoice (a ++ b) = countChoice a + countChoice b := by
  simp [countChoice, List.filter_append]

/-- a block of swap calls -/
structure SwapBlock (pre : List SfEv) : Prop where
  exp : countExp pre = 0
  choice : countChoice pre = 0
  swap : countSwap pre = pre.length
  nochoice : ∀ s d, SfEv.choice s d ∉ pre

theorem swapBlock_nil : SwapBlock [] := ⟨rfl, rfl, rfl, by simp⟩

theorem swapBlock_cons {a b : Nat} {pre : List SfEv} (h : SwapBlock pre) : SwapBlock (.swap a b :: pre) := by
  obtain ⟨h1, h2, h3, h4⟩ := h
  refine ⟨?_, ?_, ?_, ?_⟩
  · simpa [countExp] using h1
  · simpa [countChoice] using h2
  · have : countSwap (SfEv.swap a b :: pre) = countSwap pre + 1 := by simp [countSwap]
    rw [this, h3]; rfl
  · intro s d hm; simp at hm; exact h4 s d hm

theorem swapBlock_append {p q : List SfEv} (hp : SwapBlock p) (hq : SwapBlock q) : SwapBlock (p ++ q) := by
  refine ⟨by rw [countExp_append, hp.exp, hq.exp], by rw [countChoice_append, hp.choice, hq.choice],
    by rw [countSwap_append, hp.swap, hq.swap, List.length_append], ?_⟩
  intro s d hm
  rcases List.mem_append.mp hm with h | h
  · exact hp.nochoice s d h
  · exact hq.nochoice s d h

theorem takeSwaps_spec (n : Nat) : ∀ (j : Nat) (evs evs1 : List SfEv), takeSwaps n j evs = some evs1 →
    ∃ pre, evs = pre ++ evs1 ∧ pre.length = j ∧ SwapBlock pre := by
  intro j
  induction j with
  | zero => intro evs evs1 h; simp only [takeSwaps, Option.some.injEq] at h; exact ⟨[], by simp [h], rfl, swapBlock_nil⟩
  | succ j ih =>
    intro evs evs1 h
    cases evs with
    | nil => simp [takeSwaps] at h
    | cons e evs =>
      cases e with
      | exp m => simp [takeSwaps] at h
      | choice s d => simp [takeSwaps] at h
      | swap a b =>
        simp only [takeSwaps] at h
        split at h
        · obtain ⟨pre, h1, h2, h3⟩ := ih evs evs1 h
          exact ⟨.swap a b :: pre, by simp [h1], by simp [h2], swapBlock_cons h3⟩
        · cases h

theorem skipSwaps_spec (n : Nat) : ∀ (evs evs1 : List SfEv), skipSwaps n evs = some evs1 →
    ∃ pre, evs = pre ++ evs1 ∧ SwapBlock pre := by
  intro evs
  induction evs with
  | nil => intro evs1 h; simp only [skipSwaps, Option.some.injEq] at h; exact ⟨[], by simp [h], swapBlock_nil⟩
  | cons e evs ih =>
    intro evs1 h
    cases e with
    | exp m => simp only [skipSwaps, Option.some.injEq] at h; exact ⟨[], by simp [h], swapBlock_nil⟩
    | choice s d => simp only [skipSwaps, Option.some.injEq] at h; exact ⟨[], by simp [h], swapBlock_nil⟩
    | swap a b =>
      simp only [skipSwaps] at h
      split at h
      · obtain ⟨pre, h1, h3⟩ := ih evs1 h
        exact ⟨.swap a b :: pre, by simp [h1], swapBlock_cons h3⟩
      · cases h

theorem takeChoices_spec (s : Nat) : ∀ (evs : List SfEv),
    evs = (takeChoices s evs).1.map (SfEv.choice s) ++ (takeChoices s evs).2 := by
  intro evs
  induction evs with
  | nil => simp [takeChoices]
  | cons e evs ih =>
    cases e with
    | exp m => simp [takeChoices]
    | swap a b => simp [takeChoices]
    | choice s' d =>
      simp only [takeChoices]
      split
      · rename_i heq; subst heq
        simp only [List.map_cons, List.cons_append, List.cons.injEq, true_and]
        exact ih
      · simp

theorem count_choiceBlock (s : Nat) (g : List (List Nat)) :
    countExp (g.map (SfEv.choice s)) = 0 ∧ countSwap (g.map (SfEv.choice s)) = 0 ∧
    countChoice (g.map (SfEv.choice s)) = g.length := by
  induction g with
  | nil => simp [countExp, countSwap, countChoice]
  | cons d g ih =>
    obtain ⟨h1, h2, h3⟩ := ih
    simp only [countExp, countSwap, countChoice, List.map_cons, List.filter_cons, List.length_cons] at *
    simp [h1, h2, h3]

/-- the swap calls of one size: a block of swaps in front of the rest; exactly `shuffles` of them when no
    `corr_target` is given, none when `correlated` is off -/
theorem sizeSwaps_spec (n : Nat) (correlated : Bool) (corr : Option Rat) (shuffles : Nat) (first : Bool)
    (evs evs1 : List SfEv) (h : sizeSwaps n correlated corr shuffles first evs = some evs1) :
    ∃ pre, evs = pre ++ evs1 ∧ SwapBlock pre ∧ (correlated = false → pre = []) ∧
      (correlated = true → corr = none → pre.length = shuffles) ∧ shuffles * correlated.toNat ≤ pre.length := by
  unfold sizeSwaps at h
  split at h
  · rename_i hc
    split at h
    · cases h
    · rename_i evs2 h2
      obtain ⟨pre, hp1, hp2, hp3⟩ := takeSwaps_spec n shuffles evs evs2 h2
      split at h
      · rename_i hsp
        obtain ⟨pre2, hq1, hq3⟩ := skipSwaps_spec n evs2 evs1 h
        refine ⟨pre ++ pre2, by rw [hp1, hq1, List.append_assoc], swapBlock_append hp3 hq3, by simp [hc], ?_, ?_⟩
        · intro _ hnone; subst hnone; simp [spearman] at hsp
        · simp [hc, hp2]
      · simp only [Option.some.injEq] at h; subst h
        exact ⟨pre, hp1, hp3, by simp [hc], fun _ _ => hp2, by simp [hc, hp2]⟩
  · rename_i hc
    simp only [Option.some.injEq] at h; subst h
    have hc' : correlated = false := by simpa using hc
    exact ⟨[], rfl, swapBlock_nil, fun _ => rfl, fun h1 => by simp [hc'] at h1, by simp [hc']⟩

theorem groupsOK_imp {P Q : Nat → Nat → List (List Nat) → Prop} (hPQ : ∀ s c g, P s c g → Q s c g) :
    ∀ (req : List (Nat × Nat)) (gs : List (List (List Nat))), GroupsOK P req gs → GroupsOK Q req gs := by
  intro req
  induction req with
  | nil => intro gs _; simp [GroupsOK]
  | cons sc req ih =>
    intro gs h
    cases gs with
    | nil => exact absurd h (by simp [GroupsOK])
    | cons g gs => simp only [GroupsOK] at *; exact ⟨hPQ _ _ _ h.1, ih gs h.2⟩

theorem groupsOK_and {P Q : Nat → Nat → List (List Nat) → Prop} :
    ∀ (req : List (Nat × Nat)) (gs : List (List (List Nat))), GroupsOK P req gs → GroupsOK Q req gs →
      GroupsOK (fun s c g => P s c g ∧ Q s c g) req gs := by
  intro req
  induction req with
  | nil => intro gs _ _; simp [GroupsOK]
  | cons sc req ih =>
    intro gs h1 h2
    cases gs with
    | nil => exact absurd h1 (by simp [GroupsOK])
    | cons g gs => simp only [GroupsOK] at *; exact ⟨⟨h1.1, h2.1⟩, ih gs h1.2 h2.2⟩

theorem sfReturned_groupsOK : ∀ (req : List (Nat × Nat)) (gs : List (List (List Nat))),
    sfReturned req gs = true → gs.length = req.length →
    GroupsOK (fun _ c g => consumedExactly c [] g = true) req gs := by
  intro req
  induction req with
  | nil => intro gs _ _; simp [GroupsOK]
  | cons sc req ih =>
    intro gs h hl
    cases gs with
    | nil => simp at hl
    | cons g gs =>
      obtain ⟨s, c⟩ := sc
      simp only [sfReturned, Bool.and_eq_true] at h
      simp only [GroupsOK]
      exact ⟨h.1, ih gs h.2 (by simpa using hl)⟩

/-- shape of a trace accepted by `sfParse` -/
structure ParseOut (n : Nat) (correlated : Bool) (corr : Option Rat) (shuffles : Nat) (req : List (Nat × Nat))
    (evs : List SfEv) (gs : List (List (List Nat))) : Prop where
  len : gs.length = req.length
  exps : countExp evs = req.length
  choices : countChoice evs = (gs.map List.length).sum
  uncorr : correlated = false → countSwap evs = 0
  shuffled : correlated = true → corr = none → countSwap evs = req.length * shuffles
  atleast : req.length * shuffles * correlated.toNat ≤ countSwap evs
  mem : GroupsOK (fun s _ g => ∀ d ∈ g, SfEv.choice s d ∈ evs) req gs
  only : ∀ s d, SfEv.choice s d ∈ evs → ∃ sc ∈ req, sc.1 = s

theorem sfParse_spec (n : Nat) (correlated : Bool) (corr : Option Rat) (shuffles : Nat) :
    ∀ (req : List (Nat × Nat)) (first : Bool) (evs : List SfEv) (gs : List (List (List Nat))),
      sfParse n correlated corr shuffles first req evs = some gs →
      ParseOut n correlated corr shuffles req evs gs := by
  intro req
  induction req with
  | nil =>
    intro first evs gs h
    cases evs with
    | nil =>
      simp only [sfParse, Option.some.injEq] at h; subst h
      exact ⟨rfl, rfl, rfl, fun _ => rfl, fun _ _ => by simp [countSwap], by simp [countSwap], by simp [GroupsOK],
        by simp⟩
    | cons e evs => simp [sfParse] at h
  | cons sc req ih =>
    intro first evs gs h
    obtain ⟨s, c⟩ := sc
    cases evs with
    | nil => simp [sfParse] at h
    | cons e evs =>
      cases e with
      | swap a b => simp [sfParse] at h
      | choice s' d => simp [sfParse] at h
      | exp m =>
        simp only [sfParse] at h
        split at h
        · split at h
          · cases h
          · rename_i evs1 hsw
            split at h
            · cases h
            · rename_i gs' hrec
              simp only [Option.some.injEq] at h; subst h
              obtain ⟨pre, hpre, hblock, hunc, hshuf, hatl⟩ := sizeSwaps_spec n correlated corr shuffles first evs evs1 hsw
              have hI := ih false _ gs' hrec
              have hsplit := takeChoices_spec s evs1
              obtain ⟨c1, c2, c3⟩ := count_choiceBlock s (takeChoices s evs1).1
              have hev : SfEv.exp m :: evs = [SfEv.exp m] ++ (pre ++ ((takeChoices s evs1).1.map (SfEv.choice s) ++
                  (takeChoices s evs1).2)) := by rw [← hsplit, ← hpre]; rfl
              have hswapcount : countSwap (SfEv.exp m :: evs) = pre.length + countSwap (takeChoices s evs1).2 := by
                rw [hev, countSwap_append, countSwap_append, countSwap_append, hblock.swap, c2]
                simp [countSwap]
              refine ⟨by simp [hI.len], ?_, ?_, ?_, ?_, ?_, ?_, ?_⟩
              · rw [hev, countExp_append, countExp_append, countExp_append, hblock.exp, c1, hI.exps]
                simp [countExp]; omega
              · rw [hev, countChoice_append, countChoice_append, countChoice_append, hblock.choice, c3, hI.choices]
                simp [countChoice]
              · intro hc; rw [hswapcount, hI.uncorr hc, hunc hc]; rfl
              · intro hc hn
                rw [hswapcount, hI.shuffled hc hn, hshuf hc hn]
                simp only [List.length_cons, Nat.add_mul, Nat.one_mul]; omega
              · rw [hswapcount]
                have h2 := hI.atleast
                simp only [List.length_cons, Nat.add_mul, Nat.one_mul]
                omega
              · simp only [GroupsOK]
                refine ⟨?_, groupsOK_imp ?_ _ _ hI.mem⟩
                · intro d hd
                  rw [hev]
                  simp only [List.mem_append, List.mem_map]
                  exact Or.inr (Or.inr (Or.inl ⟨d, hd, rfl⟩))
                · intro s2 _ g hg d hd
                  rw [hev]
                  simp only [List.mem_append]
                  exact Or.inr (Or.inr (Or.inr (hg d hd)))
              · intro s2 d hm
                rw [hev] at hm
                simp only [List.mem_append, List.mem_map, List.mem_singleton] at hm
                rcases hm with hm | hm | hm | hm
                · cases hm
                · exact absurd hm (hblock.nochoice s2 d)
                · obtain ⟨d', _, heq⟩ := hm
                  cases heq; exact ⟨(s, c), by simp, rfl⟩
                · obtain ⟨sc, hsc, heq⟩ := hI.only s2 d hm
                  exact ⟨sc, by simp [hsc], heq⟩
        · cases h

end C14
