import Hgxv.Model.C10Rel
import Hgxv.Proofs.C10Line
import Hgxv.Proofs.C10Bipartite
/-! Helper lemmas for the C10 extension round: line graph for every threshold, the Gram matrices of the incidence
matrix, degrees of the bipartite projection, unknown `distance`, relabelling. -/
namespace C10

/-! ### line graph: every threshold (no `0 < s`) -/

theorem lineGraphFrom_spec_any (es : List Edge) (d : Dist) (s : Rat) (weighted : Bool) (adj : List (List Edge))
    (hes : es.Nodup) (hnd : ∀ e ∈ es, e.Nodup)
    (hA : ∀ l ∈ adj, l.Nodup ∧ ∀ e ∈ l, e ∈ es)
    (hC : ∀ l ∈ adj, ∀ a ∈ l, ∀ b ∈ l, ∃ n, n ∈ a ∧ n ∈ b)
    (hB : ∀ a ∈ es, ∀ b ∈ es, (∃ n, n ∈ a ∧ n ∈ b) → ∃ l ∈ adj, a ∈ l ∧ b ∈ l) :
    ∃ r, lineGraphFrom es d s weighted adj = some r ∧
      AL.keys r.g.nodes = List.range es.length ∧
      (∀ i j a, AL.get? r.g.adj (i, j) = some a ↔
        ∃ (hi : i < es.length) (hj : j < es.length), i ≠ j ∧ (∃ n, n ∈ es[i] ∧ n ∈ es[j]) ∧
          s ≤ distV d es[i] es[j] ∧ a = some (if weighted then distV d es[i] es[j] else 1)) := by
  have hps : ∀ p ∈ adj.flatMap pairsOf, p.1 ∈ es ∧ p.2 ∈ es ∧ ∃ n, n ∈ p.1 ∧ n ∈ p.2 := by
    intro p hp
    obtain ⟨l, hl, hpl⟩ := List.mem_flatMap.1 hp
    have hm := mem_pairsOf_mem (x := p.1) (y := p.2) hpl
    exact ⟨(hA l hl).2 _ hm.1, (hA l hl).2 _ hm.2, hC l hl _ hm.1 _ hm.2⟩
  obtain ⟨r, hr, hI⟩ := lg_fold_inv (d := d) (s := s) (weighted := weighted) hnd _ hps
  have hkey := key_mem_iff hes adj hA hC hB
  refine ⟨r, hr, hI.keys, ?_⟩
  intro i j a
  rw [hI.adj, hkey]
  constructor
  · rintro ⟨⟨hi, hj, hne, hsh⟩, hle, ha⟩
    rw [uVal_getElem es d i j hi hj] at hle ha
    exact ⟨hi, hj, hne, hsh, hle, ha⟩
  · rintro ⟨hi, hj, hne, hsh, hle, ha⟩
    rw [uVal_getElem es d i j hi hj]
    exact ⟨⟨hi, hj, hne, hsh⟩, hle, ha⟩

/-- the hypotheses about the table of incident lists hold for the table computed from the listing -/
theorem incident_table_ok (nodes : List Nat) (es : List Edge) (hes : es.Nodup)
    (hmem : ∀ e ∈ es, ∀ n ∈ e, n ∈ nodes) :
    (∀ l ∈ nodes.map (incident es), l.Nodup ∧ ∀ e ∈ l, e ∈ es) ∧
    (∀ l ∈ nodes.map (incident es), ∀ a ∈ l, ∀ b ∈ l, ∃ n, n ∈ a ∧ n ∈ b) ∧
    (∀ a ∈ es, ∀ b ∈ es, (∃ n, n ∈ a ∧ n ∈ b) → ∃ l ∈ nodes.map (incident es), a ∈ l ∧ b ∈ l) := by
  refine ⟨?_, ?_, ?_⟩
  · intro l hl
    obtain ⟨n, _, rfl⟩ := List.mem_map.1 hl
    exact ⟨hes.filter _, fun e he => (List.mem_filter.1 he).1⟩
  · intro l hl a ha b hb
    obtain ⟨n, _, rfl⟩ := List.mem_map.1 hl
    exact ⟨n, by simpa using (List.mem_filter.1 ha).2, by simpa using (List.mem_filter.1 hb).2⟩
  · rintro a ha b hb ⟨n, hna, hnb⟩
    refine ⟨incident es n, List.mem_map.2 ⟨n, hmem a ha n hna, rfl⟩, ?_, ?_⟩
    · exact List.mem_filter.2 ⟨ha, by simpa using hna⟩
    · exact List.mem_filter.2 ⟨hb, by simpa using hnb⟩

theorem interSize_pos_iff (a b : List Nat) : 0 < interSize a b ↔ ∃ n, n ∈ a ∧ n ∈ b := by
  constructor
  · exact interSize_pos
  · rintro ⟨n, ha, hb⟩
    unfold interSize
    apply List.length_pos_of_mem (a := n)
    exact List.mem_filter.2 ⟨ha, by simpa using hb⟩

/-! ### Gram matrices of the incidence matrix -/

theorem dot_ind {α : Type} (l : List α) (p q : α → Bool) :
    dot (l.map (fun x => if p x then 1 else 0)) (l.map (fun x => if q x then 1 else 0)) =
      l.countP (fun x => p x && q x) := by
  induction l with
  | nil => rfl
  | cons a t ih =>
    unfold dot at ih ⊢
    simp only [List.map_cons, List.zipWith_cons_cons, List.sum_cons, List.countP_cons, ih]
    cases p a <;> cases q a <;> simp <;> omega

theorem cooc_eq (es : List Edge) (u v : Nat) :
    cooc es u v = es.countP (fun e => e.contains u && e.contains v) := by
  unfold cooc incRow
  exact dot_ind es (fun e => e.contains u) (fun e => e.contains v)

theorem cooc_pos_iff (es : List Edge) (u v : Nat) : 0 < cooc es u v ↔ ∃ e ∈ es, u ∈ e ∧ v ∈ e := by
  rw [cooc_eq, List.countP_pos_iff]
  simp

theorem overlap_eq_countP (nodes : List Nat) (a b : Edge) :
    overlap nodes a b = nodes.countP (fun n => a.contains n && b.contains n) := by
  unfold overlap incCol
  exact dot_ind nodes (fun n => a.contains n) (fun n => b.contains n)

theorem overlap_eq (nodes : List Nat) (a b : Edge) (hnd : nodes.Nodup) (ha : a.Nodup) (hm : ∀ x ∈ a, x ∈ nodes) :
    overlap nodes a b = interSize a b := by
  rw [overlap_eq_countP, List.countP_eq_length_filter]
  unfold interSize
  apply List.Perm.length_eq
  rw [List.perm_ext_iff_of_nodup (hnd.filter _) (ha.filter _)]
  intro x
  simp only [List.mem_filter, Bool.and_eq_true, List.contains_iff_mem]
  constructor
  · rintro ⟨_, h1, h2⟩; exact ⟨h1, h2⟩
  · rintro ⟨h1, h2⟩; exact ⟨hm x h1, h1, h2⟩

theorem interSize_self (a : Edge) : interSize a a = a.length := by
  unfold interSize
  rw [List.filter_eq_self.2]
  intro x hx; simpa using hx

/-! ### degrees in the bipartite projection -/

theorem countP_range_getElem {α : Type} (l : List α) (f : Nat → Bool) (p : α → Bool)
    (h : ∀ i x, l[i]? = some x → f i = p x) : (List.range l.length).countP f = l.countP p := by
  induction l using List.reverseRecOn with
  | nil => rfl
  | append_singleton t a ih =>
    rw [List.length_append, List.length_singleton, List.range_succ, List.countP_append, List.countP_append, ih]
    · have := h t.length a (by simp)
      simp [this]
    · intro i x hx
      apply h
      have hi : i < t.length := (List.getElem?_eq_some_iff.1 hx).1
      rw [List.getElem?_append_left hi]; exact hx

theorem countP_mem_of_subset (nodes : List Nat) (e : Edge) (hnd : nodes.Nodup) (he : e.Nodup)
    (hm : ∀ x ∈ e, x ∈ nodes) : nodes.countP (fun x => e.contains x) = e.length := by
  rw [List.countP_eq_length_filter]
  apply List.Perm.length_eq
  rw [List.perm_ext_iff_of_nodup (hnd.filter _) he]
  intro x
  simp only [List.mem_filter, List.contains_iff_mem]
  exact ⟨fun h => h.2, fun h => ⟨hm x h, h⟩⟩

theorem bip_hasEdge_EN {nodes : List Nat} {es : List Edge} (hI : BInv2 nodes es (bipartite nodes es))
    (j i : Nat) : (bipartite nodes es).g.hasEdge (.E j) (.N i) = true ↔
      ∃ x e, nodes[i]? = some x ∧ es[j]? = some e ∧ x ∈ e := by
  unfold Graph.hasEdge
  rw [Option.isSome_iff_exists]
  constructor
  · rintro ⟨a, ha⟩
    obtain ⟨_, i', j', x, e, h1, h2, h3, h4 | h4⟩ := (hI.adj _ _ _).1 ha
    · simp only [Prod.mk.injEq, BV.E.injEq, BV.N.injEq] at h4
      obtain ⟨rfl, rfl⟩ := h4
      exact ⟨x, e, h1, h2, h3⟩
    · simp at h4
  · rintro ⟨x, e, h1, h2, h3⟩
    exact ⟨none, (hI.adj _ _ _).2 ⟨rfl, i, j, x, e, h1, h2, h3, Or.inl rfl⟩⟩

theorem bip_hasEdge_NE {nodes : List Nat} {es : List Edge} (hI : BInv2 nodes es (bipartite nodes es))
    (i j : Nat) : (bipartite nodes es).g.hasEdge (.N i) (.E j) = true ↔
      ∃ x e, nodes[i]? = some x ∧ es[j]? = some e ∧ x ∈ e := by
  unfold Graph.hasEdge
  rw [Option.isSome_iff_exists]
  constructor
  · rintro ⟨a, ha⟩
    obtain ⟨_, i', j', x, e, h1, h2, h3, h4 | h4⟩ := (hI.adj _ _ _).1 ha
    · simp at h4
    · simp only [Prod.mk.injEq, BV.E.injEq, BV.N.injEq] at h4
      obtain ⟨rfl, rfl⟩ := h4
      exact ⟨x, e, h1, h2, h3⟩
  · rintro ⟨x, e, h1, h2, h3⟩
    exact ⟨none, (hI.adj _ _ _).2 ⟨rfl, i, j, x, e, h1, h2, h3, Or.inr rfl⟩⟩

theorem bip_hasEdge_same {nodes : List Nat} {es : List Edge} (hI : BInv2 nodes es (bipartite nodes es)) :
    (∀ i i', (bipartite nodes es).g.hasEdge (.N i) (.N i') = false) ∧
    (∀ j j', (bipartite nodes es).g.hasEdge (.E j) (.E j') = false) := by
  constructor
  · intro i i'
    unfold Graph.hasEdge
    cases h : AL.get? (bipartite nodes es).g.adj (.N i, .N i') with
    | none => rfl
    | some a => obtain ⟨_, _, _, _, _, _, _, _, h4 | h4⟩ := (hI.adj _ _ _).1 h <;> simp at h4
  · intro j j'
    unfold Graph.hasEdge
    cases h : AL.get? (bipartite nodes es).g.adj (.E j, .E j') with
    | none => rfl
    | some a => obtain ⟨_, _, _, _, _, _, _, _, h4 | h4⟩ := (hI.adj _ _ _).1 h <;> simp at h4

theorem bip_degree_E (nodes : List Nat) (es : List Edge) (hnd : nodes.Nodup)
    (hmem : ∀ e ∈ es, ∀ x ∈ e, x ∈ nodes) (hend : ∀ e ∈ es, e.Nodup) (j : Nat) (e : Edge) (he : es[j]? = some e) :
    (bipartite nodes es).g.degreeOf (.E j) = e.length := by
  have hI := bip_loop2 nodes hnd es hmem
  have hin : e ∈ es := List.mem_of_getElem? he
  unfold Graph.degreeOf
  rw [hI.keys, List.countP_append, List.countP_map, List.countP_map]
  have h2 : (List.range es.length).countP ((fun u => (bipartite nodes es).g.hasEdge (.E j) u) ∘ BV.E) = 0 := by
    rw [List.countP_eq_zero]; intro x _; simp [(bip_hasEdge_same hI).2]
  rw [h2, Nat.add_zero, countP_range_getElem nodes _ (fun x => e.contains x)]
  · exact countP_mem_of_subset nodes e hnd (hend e hin) (hmem e hin)
  · intro i x hx
    simp only [Function.comp]
    rw [Bool.eq_iff_iff, bip_hasEdge_EN hI]
    simp only [List.contains_iff_mem]
    constructor
    · rintro ⟨x', e', h1, h2, h3⟩
      rw [hx] at h1; rw [he] at h2; cases h1; cases h2; exact h3
    · intro h; exact ⟨x, e, hx, he, h⟩

theorem bip_degree_N (nodes : List Nat) (es : List Edge) (hnd : nodes.Nodup)
    (hmem : ∀ e ∈ es, ∀ x ∈ e, x ∈ nodes) (i : Nat) (x : Nat) (hx : nodes[i]? = some x) :
    (bipartite nodes es).g.degreeOf (.N i) = (incident es x).length := by
  have hI := bip_loop2 nodes hnd es hmem
  unfold Graph.degreeOf
  rw [hI.keys, List.countP_append, List.countP_map, List.countP_map]
  have h2 : (List.range nodes.length).countP ((fun u => (bipartite nodes es).g.hasEdge (.N i) u) ∘ BV.N) = 0 := by
    rw [List.countP_eq_zero]; intro x _; simp [(bip_hasEdge_same hI).1]
  rw [h2, Nat.zero_add, countP_range_getElem es _ (fun e => e.contains x)]
  · unfold incident; rw [List.countP_eq_length_filter]
  · intro j e he
    simp only [Function.comp]
    rw [Bool.eq_iff_iff, bip_hasEdge_NE hI]
    simp only [List.contains_iff_mem]
    constructor
    · rintro ⟨x', e', h1, h2, h3⟩
      rw [hx] at h1; rw [he] at h2; cases h1; cases h2; exact h3
    · intro h; exact ⟨x, e, hx, he, h⟩

/-! ### unknown `distance` -/

theorem lineGraphUnknownFrom_eq (es : List Edge) (adj : List (List Edge)) :
    lineGraphUnknownFrom es adj =
      if adj.flatMap pairsOf = [] then some { vis := [], g := emptyOn es.length } else none := by
  unfold lineGraphUnknownFrom
  cases h : adj.flatMap pairsOf with
  | nil => rfl
  | cons p t => simp [List.foldlM_cons, lgVisitUnknown]

theorem dlg_unknown_fold (l : List (DEdge × DEdge)) (g : Graph Nat) :
    l.foldlM dlgVisitUnknown g = if ∀ p ∈ l, p.1 = p.2 then some g else none := by
  induction l with
  | nil => simp
  | cons p t ih =>
    rw [List.foldlM_cons]
    by_cases hp : p.1 = p.2
    · have h1 : dlgVisitUnknown g p = some g := by simp [dlgVisitUnknown, hp]
      simp only [h1, Option.bind_eq_bind, Option.bind_some, ih, List.forall_mem_cons, hp, true_and]
    · have h1 : dlgVisitUnknown g p = none := by simp [dlgVisitUnknown, hp]
      simp [h1, hp]

/-! ### relabelling -/

theorem contains_map_inj {f : Nat → Nat} (hf : Function.Injective f) (b : List Nat) (x : Nat) :
    (b.map f).contains (f x) = b.contains x := by
  rw [Bool.eq_iff_iff]
  simp only [List.contains_iff_mem, List.mem_map]
  constructor
  · rintro ⟨y, hy, he⟩; rw [← hf he]; exact hy
  · intro h; exact ⟨x, h, rfl⟩

theorem interSize_map {f : Nat → Nat} (hf : Function.Injective f) (a b : List Nat) :
    interSize (a.map f) (b.map f) = interSize a b := by
  unfold interSize
  rw [List.filter_map, List.length_map]
  congr 1
  apply List.filter_congr
  intro x _
  exact contains_map_inj hf b x

theorem unionSize_map {f : Nat → Nat} (hf : Function.Injective f) (a b : List Nat) :
    unionSize (a.map f) (b.map f) = unionSize a b := by
  unfold unionSize
  rw [List.filter_map, List.length_map, List.length_map]
  congr 2
  apply List.filter_congr
  intro x _
  simp only [Function.comp, contains_map_inj hf a x]

theorem distV_map {f : Nat → Nat} (hf : Function.Injective f) (d : Dist) (a b : List Nat) :
    distV d (a.map f) (b.map f) = distV d a b := by
  cases d <;> simp [distV, interSize_map hf, unionSize_map hf]

/-! ### sums -/

theorem sum_map_ind_add {β : Type} (ys : List β) (q : β → Bool) (g : β → Nat) :
    (ys.map (fun y => (if q y then 1 else 0) + g y)).sum = ys.countP q + (ys.map g).sum := by
  induction ys with
  | nil => rfl
  | cons y t ih =>
    simp only [List.map_cons, List.sum_cons, List.countP_cons, ih]
    cases q y <;> simp <;> omega

theorem sum_countP_swap {α β : Type} (xs : List α) (ys : List β) (p : α → β → Bool) :
    (xs.map (fun x => ys.countP (p x))).sum = (ys.map (fun y => xs.countP (fun x => p x y))).sum := by
  induction xs with
  | nil => induction ys with
    | nil => rfl
    | cons y t ih => simpa using ih
  | cons a t ih =>
    rw [List.map_cons, List.sum_cons, ih, ← sum_map_ind_add]
    congr 1
    apply List.map_congr_left
    intro y _
    rw [List.countP_cons]; omega

theorem sum_range_getElem {α : Type} (l : List α) (f : Nat → Nat) (g : α → Nat)
    (h : ∀ i x, l[i]? = some x → f i = g x) : ((List.range l.length).map f).sum = (l.map g).sum := by
  induction l using List.reverseRecOn with
  | nil => rfl
  | append_singleton t a ih =>
    rw [List.length_append, List.length_singleton, List.range_succ, List.map_append, List.map_append,
      List.sum_append, List.sum_append, ih]
    · have := h t.length a (by simp)
      simp [this]
    · intro i x hx
      apply h
      have hi : i < t.length := (List.getElem?_eq_some_iff.1 hx).1
      rw [List.getElem?_append_left hi]; exact hx

/-! ### vertex ORDER of the clique projection with `keep_isolated=True` -/

theorem addNodes_keys_list (nodes : List Nat) (g : Graph Nat) (hnd : nodes.Nodup)
    (hdis : ∀ x ∈ nodes, x ∉ AL.keys g.nodes) :
    AL.keys (nodes.foldl (fun g n => g.addNode n none) g).nodes = AL.keys g.nodes ++ nodes := by
  induction nodes generalizing g with
  | nil => simp
  | cons a t ih =>
    have ha : a ∉ AL.keys g.nodes := hdis a (by simp)
    have hk : AL.keys (g.addNode a none).nodes = AL.keys g.nodes ++ [a] := by
      simp only [Graph.addNode, keys_touch, if_neg ha]
    rw [List.foldl_cons, ih _ (List.nodup_cons.1 hnd).2, hk]
    · simp
    · intro x hx
      rw [hk]
      simp only [List.mem_append, List.mem_singleton, not_or]
      refine ⟨hdis x (by simp [hx]), ?_⟩
      intro hxa; subst hxa; exact (List.nodup_cons.1 hnd).1 hx

/-! ### Jaccard similarity is at most 1, and 1 only for equal sets -/

theorem interSize_le_left (a b : List Nat) : interSize a b ≤ a.length := by
  unfold interSize; exact List.length_filter_le _ _

theorem left_le_unionSize (a b : List Nat) : a.length ≤ unionSize a b := by
  unfold unionSize; omega

theorem subset_of_union_le_inter (a b : List Nat) (h : unionSize a b ≤ interSize a b) :
    (∀ x ∈ a, x ∈ b) ∧ (∀ x ∈ b, x ∈ a) := by
  have h1 := interSize_le_left a b
  unfold unionSize at h
  have h2 : (b.filter (fun x => !a.contains x)).length = 0 := by omega
  have h3 : interSize a b = a.length := by omega
  constructor
  · intro x hx
    unfold interSize at h3
    rw [← List.countP_eq_length_filter, List.countP_eq_length] at h3
    simpa using h3 x hx
  · intro x hx
    apply Classical.byContradiction
    intro hxa
    have : x ∈ b.filter (fun x => !a.contains x) := by simp [List.mem_filter, hx, hxa]
    have := List.length_pos_of_mem this
    omega

theorem two_distinct_iff {α : Type} (l : List α) (h : l.Nodup) : (∃ e ∈ l, ∃ f ∈ l, e ≠ f) ↔ 2 ≤ l.length := by
  constructor
  · rintro ⟨e, he, f, hf, hne⟩
    match l, he, hf with
    | [x], he, hf =>
      simp only [List.mem_singleton] at he hf
      exact absurd (he.trans hf.symm) hne
    | x :: y :: t, _, _ => simp
  · intro h2
    match l, h, h2 with
    | x :: y :: t, h, _ =>
      refine ⟨x, by simp, y, by simp, ?_⟩
      intro e; subst e; simp at h

end C10
