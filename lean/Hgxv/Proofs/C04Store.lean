import Hgxv.Proofs.C04Basic
/-! C04 - characterisation lemmas for the helper functions of the concrete store. Core Lean only. -/
namespace C04
open AL

/-! ## add_node -/

theorem addNode_fields (s : Store) (n : Node) (md : Option Meta) :
    (addNode s n md).edgeList = s.edgeList ∧ (addNode s n md).rev = s.rev ∧
    (addNode s n md).weights = s.weights ∧ (addNode s n md).emeta = s.emeta ∧
    (addNode s n md).nextId = s.nextId ∧ (addNode s n md).weighted = s.weighted ∧
    (addNode s n md).hmeta = s.hmeta ∧ (addNode s n md).layers = s.layers := by
  unfold addNode fillNodeMeta ensureNode
  split <;> split <;> simp

theorem addNode_adj (s : Store) (n : Node) (md : Option Meta) (m : Node) :
    get? (addNode s n md).adj m = if m = n then some ((get? s.adj n).getD []) else get? s.adj m := by
  have key : get? (ensureNode s n).adj m = if m = n then some ((get? s.adj n).getD []) else get? s.adj m := by
    unfold ensureNode
    cases h : get? s.adj n with
    | none => simp [get?_set]; grind
    | some ids => simp; grind
  unfold addNode fillNodeMeta
  split <;> exact key

/-- the node-metadata table after `add_node`, given that `_adj` and `_node_metadata` have the same keys -/
theorem addNode_nmeta (s : Store) (n : Node) (md : Option Meta)
    (hs : (get? s.adj n).isSome ↔ (get? s.nmeta n).isSome) :
    (addNode s n md).nmeta =
      match get? s.nmeta n with
      | none => AL.set s.nmeta n (md.getD [])
      | some [] => AL.set s.nmeta n (md.getD [])
      | some _ => s.nmeta := by
  unfold addNode fillNodeMeta ensureNode
  cases h : get? s.adj n with
  | none =>
    have h2 : get? s.nmeta n = none := by
      cases h3 : get? s.nmeta n with
      | none => rfl
      | some x => simp [h, h3] at hs
    simp [h, h2, get?_set_self, set_set]
  | some ids =>
    have h2 : (get? s.nmeta n).isSome := hs.mp (by simp [h])
    cases h3 : get? s.nmeta n with
    | none => simp [h3] at h2
    | some x => cases x <;> simp [h, h3]

theorem addNode_nmeta_some (s : Store) (n : Node) (md : Option Meta) (m : Node)
    (hs : (get? s.adj n).isSome ↔ (get? s.nmeta n).isSome) :
    (get? (addNode s n md).nmeta m).isSome ↔ (m = n ∨ (get? s.nmeta m).isSome) := by
  rw [addNode_nmeta s n md hs]
  cases h : get? s.nmeta n with
  | none => simp only [get?_set]; grind
  | some x => cases x <;> simp only [get?_set] <;> grind

/-! ## touchNodes -/

theorem touchNodes_fields (s : Store) (ns : List Node) :
    (touchNodes s ns).edgeList = s.edgeList ∧ (touchNodes s ns).rev = s.rev ∧
    (touchNodes s ns).weights = s.weights ∧ (touchNodes s ns).emeta = s.emeta ∧
    (touchNodes s ns).nextId = s.nextId ∧ (touchNodes s ns).weighted = s.weighted ∧
    (touchNodes s ns).hmeta = s.hmeta ∧ (touchNodes s ns).layers = s.layers := by
  induction ns generalizing s with
  | nil => simp [touchNodes]
  | cons n ns ih =>
    simp only [touchNodes]
    have h1 := ih (addNode s n none)
    have h2 := addNode_fields s n none
    grind

theorem touchNodes_adj (s : Store) (ns : List Node) (m : Node) :
    get? (touchNodes s ns).adj m = if m ∈ ns then some ((get? s.adj m).getD []) else get? s.adj m := by
  induction ns generalizing s with
  | nil => simp [touchNodes]
  | cons n ns ih =>
    simp only [touchNodes]
    rw [ih, addNode_adj]
    grind

/-! ## linkNodes / unlinkNodes -/

theorem linkNodes_adj (adj : List (Node × List Nat)) (id : Nat) (ns : List Node) (hnd : ns.Nodup) (m : Node) :
    get? (linkNodes adj id ns) m = if m ∈ ns then some (((get? adj m).getD []) ++ [id]) else get? adj m := by
  induction ns generalizing adj with
  | nil => simp [linkNodes]
  | cons n ns ih =>
    simp only [linkNodes]
    have hn := List.nodup_cons.mp hnd
    rw [ih _ hn.2]
    simp only [get?_set]
    grind

theorem linkNodes_keys (adj : List (Node × List Nat)) (id : Nat) (ns : List Node)
    (h : ∀ n ∈ ns, (get? adj n).isSome) : keys (linkNodes adj id ns) = keys adj := by
  induction ns generalizing adj with
  | nil => simp [linkNodes]
  | cons n ns ih =>
    simp only [linkNodes]
    rw [ih]
    · exact keys_set_of_mem _ _ _ (h n List.mem_cons_self)
    · intro m hm
      rw [get?_set]
      split
      · simp
      · exact h m (List.mem_cons_of_mem _ hm)

theorem unlinkNodes_adj (adj : List (Node × List Nat)) (id : Nat) (ns : List Node) (hnd : ns.Nodup) (m : Node) :
    get? (unlinkNodes adj id ns) m = if m ∈ ns then (get? adj m).map (fun ids => ids.erase id) else get? adj m := by
  induction ns generalizing adj with
  | nil => simp [unlinkNodes]
  | cons n ns ih =>
    simp only [unlinkNodes]
    have hn := List.nodup_cons.mp hnd
    rw [ih _ hn.2]
    cases h : get? adj n with
    | none => simp only []; grind
    | some ids => simp only [get?_set]; grind

theorem unlinkNodes_keys (adj : List (Node × List Nat)) (id : Nat) (ns : List Node) :
    keys (unlinkNodes adj id ns) = keys adj := by
  induction ns generalizing adj with
  | nil => simp [unlinkNodes]
  | cons n ns ih =>
    simp only [unlinkNodes]
    rw [ih]
    cases h : get? adj n with
    | none => rfl
    | some ids => exact keys_set_of_mem _ _ _ (by simp [h])

end C04
