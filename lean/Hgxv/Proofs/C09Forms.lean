import Hgxv.Proofs.C09Mat
/-! Helper lemmas for C09, part 3: label-indexed normal forms of the model's matrices. -/
namespace C09
variable {R : Type} [CommRing R]

theorem contains_map_encode (cls : List Nat) (hc : cls.Nodup) (e : List Nat) (he : ∀ x ∈ e, x ∈ cls)
    (i : Nat) (hi : i < cls.length) : (e.map (encode cls)).contains i = decide (cls[i] ∈ e) := by
  rw [Bool.eq_iff_iff]
  simp only [List.contains_iff_mem, List.mem_map, decide_eq_true_eq]
  constructor
  · rintro ⟨x, hx, rfl⟩
    rw [getElem_encode cls x (he x hx)]; exact hx
  · intro h
    exact ⟨cls[i], h, encode_getElem cls hc i hi⟩

/-- rows of the binary incidence matrix, indexed by the sorted labels -/
theorem binInc_eq (nodes : List Nat) (edges : List Edge) (hN : nodes.Nodup)
    (hE : ∀ e ∈ edges, ∀ x ∈ e, x ∈ nodes) :
    (binInc nodes edges : List (List R)) =
      (classes nodes).map fun x => edges.map fun e => ind (decide (x ∈ e)) := by
  unfold binInc binIncIdx
  apply List.ext_getElem
  · simp [classes_length nodes hN]
  · intro i h1 h2
    simp only [List.getElem_map, List.getElem_range, List.map_map]
    apply List.map_congr_left
    intro e he
    simp only [Function.comp]
    rw [contains_map_encode _ (classes_nodup nodes) e
      (fun x hx => (mem_classes x nodes).2 (hE e he x hx)) i (by simpa using h2)]

theorem inc_eq (nodes : List Nat) (es : List (Edge × R)) (hN : nodes.Nodup)
    (hE : ∀ e ∈ es, ∀ x ∈ e.1, x ∈ nodes) :
    inc nodes es = (classes nodes).map fun x => es.map fun e => ind (decide (x ∈ e.1)) * e.2 := by
  unfold inc scaleCols
  rw [binInc_eq nodes _ hN (by
    intro e he x hx
    obtain ⟨e', he', rfl⟩ := List.mem_map.1 he
    exact hE e' he' x hx)]
  simp only [List.map_map]
  apply List.map_congr_left
  intro x _
  simp only [Function.comp]
  simp [Function.comp]

theorem mulT_rows {β γ δ : Type} (l : List β) (l' : List γ) (es : List δ) (f : β → δ → R) (g : γ → δ → R) :
    mulT (l.map fun x => es.map (f x)) (l'.map fun y => es.map (g y)) =
      l.map fun x => l'.map fun y => (es.map fun e => f x e * g y e).sum := by
  simp [mulT, dot_map, List.map_map, Function.comp]

theorem transpose_rows {β δ : Type} (l : List β) (es : List δ) (f : β → δ → R) :
    transpose es.length (l.map fun x => es.map (f x)) = es.map fun e => l.map fun x => f x e := by
  unfold transpose
  apply List.ext_getElem
  · simp
  · intro j h1 h2
    have hj : j < es.length := by simpa using h2
    simp [List.map_map, Function.comp, hj]

end C09

/-! ### `hye_list_to_binary_incidence` with an explicit shape -/
namespace C09
variable {R : Type} [CommRing R]

theorem foldl_max_le (l : List Nat) (a N : Nat) (ha : a ≤ N) (hl : ∀ x ∈ l, x ≤ N) : l.foldl max a ≤ N := by
  induction l generalizing a with
  | nil => simpa
  | cons b l ih =>
    simp only [List.foldl_cons]
    exact ih _ (Nat.max_le.2 ⟨ha, hl b List.mem_cons_self⟩) (fun x hx => hl x (List.mem_cons_of_mem _ hx))

theorem le_foldl_max (l : List Nat) (a : Nat) : a ≤ l.foldl max a ∧ ∀ x ∈ l, x ≤ l.foldl max a := by
  induction l generalizing a with
  | nil => simp
  | cons b l ih =>
    simp only [List.foldl_cons]
    have h := ih (max a b)
    refine ⟨Nat.le_trans (Nat.le_max_left a b) h.1, ?_⟩
    intro x hx
    rcases List.mem_cons.1 hx with rfl | hx
    · exact Nat.le_trans (Nat.le_max_right a x) h.1
    · exact h.2 x hx

theorem inferredN_le (hyes : List (List Nat)) (N : Nat) (h : ∀ e ∈ hyes, ∀ x ∈ e, x < N) : inferredN hyes ≤ N := by
  unfold inferredN
  apply foldl_max_le _ _ _ (Nat.zero_le _)
  intro y hy
  obtain ⟨x, hx, rfl⟩ := List.mem_map.1 hy
  obtain ⟨e, he, hxe⟩ := List.mem_flatten.1 hx
  exact h e he x hxe

theorem lt_inferredN (hyes : List (List Nat)) (e : List Nat) (he : e ∈ hyes) (x : Nat) (hx : x ∈ e) :
    x < inferredN hyes := by
  unfold inferredN
  have := (le_foldl_max (hyes.flatten.map (· + 1)) 0).2 (x + 1)
    (List.mem_map.2 ⟨x, List.mem_flatten.2 ⟨e, he, hx⟩, rfl⟩)
  omega

theorem binIncPad_eq (N : Nat) (hyes : List (List Nat)) :
    (binIncPad N hyes.length hyes : List (List R)) = binIncIdx N hyes := by
  unfold binIncPad binIncIdx
  apply List.map_congr_left
  intro i _
  apply List.ext_getElem
  · simp
  · intro j h1 h2
    have hj : j < hyes.length := by simpa using h2
    simp [hj]

end C09
