import Hgxv.Proofs.C15Sum
import Mathlib.Data.Finset.Powerset
import Mathlib.Algebra.BigOperators.Group.Finset.Sigma
import Mathlib.Data.Nat.Choose.Basic
/-! # C15 — double counting behind the closed forms (DESIGN-feasibility.md §G, over `ℚ`) -/
open Finset
namespace C15

theorem choose_eq (n k : ℕ) : choose n k = Nat.choose n k := by
  induction n generalizing k with
  | zero => cases k <;> simp [choose]
  | succ n ih => cases k <;> simp [choose, ih, Nat.choose_succ_succ]

variable {α : Type} [DecidableEq α]

/-- every ordered pair of distinct elements of `V` lies in `C(|V|-2, d-2)` subsets of size `d` -/
theorem count_pairs (V : Finset α) (d : ℕ) (hd : 2 ≤ d) (f : α → α → ℚ) :
    ∑ e ∈ V.powersetCard d, ∑ p ∈ e.offDiag, f p.1 p.2
      = (Nat.choose (V.card - 2) (d - 2) : ℚ) * ∑ p ∈ V.offDiag, f p.1 p.2 := by
  have h1 : ∀ e ∈ V.powersetCard d, ∑ p ∈ e.offDiag, f p.1 p.2
      = ∑ p ∈ V.offDiag, if ({p.1, p.2} : Finset α) ⊆ e then f p.1 p.2 else 0 := by
    intro e he
    have hsub : e ⊆ V := (mem_powersetCard.mp he).1
    rw [← Finset.sum_filter]
    apply Finset.sum_congr _ (fun _ _ => rfl)
    ext p
    simp only [mem_offDiag, mem_filter, insert_subset_iff, singleton_subset_iff]
    constructor
    · rintro ⟨a, b, c⟩; exact ⟨⟨hsub a, hsub b, c⟩, a, b⟩
    · rintro ⟨⟨_, _, c⟩, a, b⟩; exact ⟨a, b, c⟩
  rw [Finset.sum_congr rfl h1, Finset.sum_comm, Finset.mul_sum]
  apply Finset.sum_congr rfl
  intro p hp
  obtain ⟨hp1, hp2, hne⟩ := mem_offDiag.mp hp
  rw [← Finset.sum_filter, Finset.sum_const, nsmul_eq_mul]
  congr 2
  have hcard : ({p.1, p.2} : Finset α).card = 2 := Finset.card_pair hne
  have := card_filter_powersetCard_subset ({p.1, p.2} : Finset α) V d
    (by simp [insert_subset_iff, hp1, hp2]) (by rw [hcard]; exact hd)
  rw [hcard] at this
  exact this

/-- number of `d`-subsets of an `n`-set that contain three given elements -/
def cnt3 (n d : ℕ) : ℕ := if 3 ≤ d then Nat.choose (n - 3) (d - 3) else 0

/-- the same count restricted to the subsets that contain a given element `i`: a pair through `i`
lies in `C(|V|-2, d-2)` of them, a pair avoiding `i` in `C(|V|-3, d-3)` (none when `d = 2`) -/
theorem count_pairs_node (V : Finset α) (d : ℕ) (hd : 2 ≤ d) (i : α) (hi : i ∈ V) (f : α → α → ℚ) :
    ∑ e ∈ V.powersetCard d with i ∈ e, ∑ p ∈ e.offDiag, f p.1 p.2
      = ∑ p ∈ V.offDiag, f p.1 p.2 *
          (if i = p.1 ∨ i = p.2 then (Nat.choose (V.card - 2) (d - 2) : ℚ) else (cnt3 V.card d : ℚ)) := by
  have h1 : ∀ e ∈ (V.powersetCard d).filter (i ∈ ·), ∑ p ∈ e.offDiag, f p.1 p.2
      = ∑ p ∈ V.offDiag, if ({i, p.1, p.2} : Finset α) ⊆ e then f p.1 p.2 else 0 := by
    intro e he
    obtain ⟨he, hie⟩ := mem_filter.mp he
    have hsub : e ⊆ V := (mem_powersetCard.mp he).1
    rw [← Finset.sum_filter]
    apply Finset.sum_congr _ (fun _ _ => rfl)
    ext p
    simp only [mem_offDiag, mem_filter, insert_subset_iff, singleton_subset_iff]
    constructor
    · rintro ⟨a, b, c⟩; exact ⟨⟨hsub a, hsub b, c⟩, hie, a, b⟩
    · rintro ⟨⟨_, _, c⟩, _, a, b⟩; exact ⟨a, b, c⟩
  rw [Finset.sum_congr rfl h1, Finset.sum_comm]
  apply Finset.sum_congr rfl
  intro p hp
  obtain ⟨hp1, hp2, hne⟩ := mem_offDiag.mp hp
  rw [← Finset.sum_filter, Finset.sum_const, nsmul_eq_mul, mul_comm]
  congr 1
  have hfil : ((V.powersetCard d).filter (i ∈ ·)).filter (fun e => ({i, p.1, p.2} : Finset α) ⊆ e)
      = (V.powersetCard d).filter (fun e => ({i, p.1, p.2} : Finset α) ⊆ e) := by
    ext e
    simp only [mem_filter, insert_subset_iff, singleton_subset_iff]
    constructor
    · rintro ⟨⟨a, _⟩, b⟩; exact ⟨a, b⟩
    · rintro ⟨a, b⟩; exact ⟨⟨a, b.1⟩, b⟩
  rw [hfil]
  have hsubV : ({i, p.1, p.2} : Finset α) ⊆ V := by
    simp [insert_subset_iff, hi, hp1, hp2]
  by_cases hip : i = p.1 ∨ i = p.2
  · rw [if_pos hip]
    have hset : ({i, p.1, p.2} : Finset α) = {p.1, p.2} := by
      rcases hip with h | h
      · rw [h]; simp
      · rw [h]; ext x; simp
    have hcard : ({i, p.1, p.2} : Finset α).card = 2 := by rw [hset]; exact Finset.card_pair hne
    have := card_filter_powersetCard_subset ({i, p.1, p.2} : Finset α) V d hsubV (by rw [hcard]; exact hd)
    rw [hcard] at this
    exact_mod_cast this
  · rw [if_neg hip]
    rw [not_or] at hip
    have hcard : ({i, p.1, p.2} : Finset α).card = 3 := by
      rw [Finset.card_insert_of_notMem (by simp [hip.1, hip.2]), Finset.card_pair hne]
    unfold cnt3
    by_cases h3 : 3 ≤ d
    · rw [if_pos h3]
      have := card_filter_powersetCard_subset ({i, p.1, p.2} : Finset α) V d hsubV (by rw [hcard]; exact h3)
      rw [hcard] at this
      exact_mod_cast this
    · rw [if_neg h3]
      have : (V.powersetCard d).filter (fun e => ({i, p.1, p.2} : Finset α) ⊆ e) = ∅ := by
        apply Finset.filter_eq_empty_iff.mpr
        intro e he hsub
        have h1 := Finset.card_le_card hsub
        rw [hcard, (mem_powersetCard.mp he).2] at h1
        omega
      rw [this]; simp

end C15
