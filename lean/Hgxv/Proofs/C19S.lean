import Hgxv.Proofs.C19B
import Mathlib.Algebra.Order.Field.Rat
import Mathlib.Tactic.Linarith
/-! C19 part B, strengthening round: the scan `stepUp` is a step-UP scan - every position below its line bounds the
threshold from below, whatever the earlier positions do (a step-down scan stops at the first position that is not
below its line: seeded change C19-a2). -/
namespace C19

/-- the scan never falls below a running value that is at most the current line (`bonf ≥ 0`: the lines increase) -/
theorem stepUp_ge_best (bonf : Rat) (hb : 0 ≤ bonf) (l : List Rat) (i : Nat) (best : Rat)
    (h : best ≤ ((i : Nat) : Rat) * bonf) : best ≤ stepUp bonf l i best := by
  induction l generalizing i best with
  | nil => simp [stepUp]
  | cons p ps ih =>
    have hi : ((i : Nat) : Rat) * bonf ≤ ((i + 1 : Nat) : Rat) * bonf := by
      push_cast; nlinarith
    simp only [stepUp]
    split
    · exact le_trans h (ih (i + 1) _ hi)
    · exact ih (i + 1) best (le_trans h hi)

/-- step-up: EVERY position below its line bounds the result from below, whatever happens before it -/
theorem stepUp_ge_hit (bonf : Rat) (hb : 0 ≤ bonf) (l : List Rat) (i : Nat) (best : Rat)
    (j : Nat) (hj : j < l.length) (hhit : l[j] < ((i + j : Nat) : Rat) * bonf) :
    ((i + j : Nat) : Rat) * bonf ≤ stepUp bonf l i best := by
  induction l generalizing i best j with
  | nil => simp at hj
  | cons p ps ih =>
    have hi : ((i : Nat) : Rat) * bonf ≤ ((i + 1 : Nat) : Rat) * bonf := by
      push_cast; nlinarith
    cases j with
    | zero =>
      have h0 : p < ((i : Nat) : Rat) * bonf := by simpa using hhit
      simp only [stepUp, h0, if_true]
      simpa using stepUp_ge_best bonf hb ps (i + 1) _ hi
    | succ j0 =>
      simp only [stepUp]
      have shift : i + 1 + j0 = i + (j0 + 1) := by omega
      have := ih (i + 1) (if p < ((i : Nat) : Rat) * bonf then ((i : Nat) : Rat) * bonf else best) j0
        (by simp at hj; omega) (by simpa [shift] using hhit)
      simpa [shift] using this

end C19
