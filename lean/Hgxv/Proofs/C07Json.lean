import Hgxv.Proofs.C07Canon
/-! # C07: `ser x = ser y` is equality of JSON values (core Lean only)

`Content.Equiv` compares metadata by `ser x = ser y`.  This file shows that this is exactly Python's `==` on
JSON values with the numeric types kept apart: `JEq`, defined below by recursion on the first value -
atoms equal (same constructor: `1`, `1.0`, `True` differ), lists element-wise, dictionaries with the same number
of keys and equal values under every key (the order of the keys does not matter) - provided both values are
built from dictionaries (`KN`: no key twice, at any depth). -/
namespace C07

mutual
/-- equality of JSON values as Python's `==` decides it, numeric types kept apart -/
def JEq : JTree → JTree → Prop
  | .null, b => b = .null
  | .bool x, b => b = .bool x
  | .num x, b => b = .num x
  | .str x, b => b = .str x
  | .arr l, b => ∃ l', b = .arr l' ∧ JEqList l l'
  | .obj l, b => ∃ l', b = .obj l' ∧ l.length = l'.length ∧ JEqFields l l'
def JEqList : List JTree → List JTree → Prop
  | [], l' => l' = []
  | x :: xs, l' => ∃ y ys, l' = y :: ys ∧ JEq x y ∧ JEqList xs ys
/-- every key of the first dictionary has an equal value in the second -/
def JEqFields : List (String × JTree) → List (String × JTree) → Prop
  | [], _ => True
  | (k, v) :: xs, l' => (∃ v', (k, v') ∈ l' ∧ JEq v v') ∧ JEqFields xs l'
end

mutual
/-- a JSON value whose dictionaries have no repeated key (what a Python value always is) -/
def KN : JTree → Prop
  | .arr l => KNList l
  | .obj l => (l.map (·.1)).Nodup ∧ KNFields l
  | .null => True
  | .bool _ => True
  | .num _ => True
  | .str _ => True
def KNList : List JTree → Prop
  | [] => True
  | x :: xs => KN x ∧ KNList xs
def KNFields : List (String × JTree) → Prop
  | [] => True
  | (_, v) :: xs => KN v ∧ KNFields xs
end

theorem KNList_iff (l : List JTree) : KNList l ↔ ∀ x, x ∈ l → KN x := by
  induction l with
  | nil => simp [KNList]
  | cons a t ih => simp [KNList, ih]

theorem KNFields_iff (l : List (String × JTree)) : KNFields l ↔ ∀ p, p ∈ l → KN p.2 := by
  induction l with
  | nil => simp [KNFields]
  | cons a t ih => obtain ⟨k, v⟩ := a; simp [KNFields, ih]

theorem JEqFields_iff (l l' : List (String × JTree)) :
    JEqFields l l' ↔ ∀ p, p ∈ l → ∃ v', (p.1, v') ∈ l' ∧ JEq p.2 v' := by
  induction l with
  | nil => simp [JEqFields]
  | cons a t ih => obtain ⟨k, v⟩ := a; simp [JEqFields, ih]

/-- induction over JSON values with the induction hypothesis for every child -/
theorem JTree.induct (P : JTree → Prop) (hnull : P .null) (hbool : ∀ b, P (.bool b)) (hnum : ∀ n, P (.num n))
    (hstr : ∀ s, P (.str s)) (harr : ∀ l, (∀ x, x ∈ l → P x) → P (.arr l))
    (hobj : ∀ l : List (String × JTree), (∀ p, p ∈ l → P p.2) → P (.obj l)) : ∀ t, P t := by
  intro t
  exact JTree.rec (motive_1 := P) (motive_2 := fun l => ∀ x, x ∈ l → P x)
    (motive_3 := fun l => ∀ p, p ∈ l → P p.2) (motive_4 := fun p => P p.2)
    hnull hbool hnum hstr (fun l ih => harr l ih) (fun l ih => hobj l ih)
    (by intro x hx; cases hx)
    (by
      intro h t ih1 ih2 x hx
      rcases List.mem_cons.mp hx with rfl | hx
      · exact ih1
      · exact ih2 x hx)
    (by intro p hp; cases hp)
    (by
      intro h t ih1 ih2 p hp
      rcases List.mem_cons.mp hp with rfl | hp
      · exact ih1
      · exact ih2 p hp)
    (fun _ _ ih => ih) t

/-! ### shape of `ser` -/

theorem ser_arr (l : List JTree) : ser (.arr l) = .arr (l.map ser) := by simp [ser, serList_eq]

theorem ser_obj (l : List (String × JTree)) :
    ser (.obj l) = .obj (sortBy fieldLe (l.map (fun p => (p.1, ser p.2)))) := by simp [ser, serFields_eq]

theorem ser_eq_null {b : JTree} (h : ser b = .null) : b = .null := by cases b <;> simp_all [ser]
theorem ser_eq_bool {b : JTree} {x : Bool} (h : ser b = .bool x) : b = .bool x := by cases b <;> simp_all [ser]
theorem ser_eq_num {b : JTree} {x : Num} (h : ser b = .num x) : b = .num x := by cases b <;> simp_all [ser]
theorem ser_eq_str {b : JTree} {x : String} (h : ser b = .str x) : b = .str x := by cases b <;> simp_all [ser]
theorem ser_eq_arr {b : JTree} {m : List JTree} (h : ser b = .arr m) : ∃ l', b = .arr l' ∧ l'.map ser = m := by
  cases b with
  | arr l' => exact ⟨l', rfl, by simpa [ser_arr] using h⟩
  | _ => simp [ser] at h
theorem ser_eq_obj {b : JTree} {m : List (String × JTree)} (h : ser b = .obj m) :
    ∃ l', b = .obj l' ∧ sortBy fieldLe (l'.map (fun p => (p.1, ser p.2))) = m := by
  cases b with
  | obj l' => exact ⟨l', rfl, by simpa [ser_obj] using h⟩
  | _ => simp [ser] at h

/-! ### lists -/

theorem JEqList_imp (l l' : List JTree) (ih : ∀ x, x ∈ l → ∀ y, y ∈ l' → JEq x y → ser x = ser y)
    (h : JEqList l l') : l.map ser = l'.map ser := by
  induction l generalizing l' with
  | nil => simp [JEqList] at h; subst h; rfl
  | cons a t iht =>
    simp only [JEqList] at h
    obtain ⟨y, ys, rfl, hxy, hr⟩ := h
    simp only [List.map_cons]
    rw [ih a (List.mem_cons_self ..) y (List.mem_cons_self ..) hxy,
      iht ys (fun x hx z hz => ih x (List.mem_cons_of_mem _ hx) z (List.mem_cons_of_mem _ hz)) hr]

theorem JEqList_of (l l' : List JTree) (ih : ∀ x, x ∈ l → ∀ y, y ∈ l' → ser x = ser y → JEq x y)
    (h : l.map ser = l'.map ser) : JEqList l l' := by
  induction l generalizing l' with
  | nil => cases l' with
    | nil => simp [JEqList]
    | cons y ys => simp at h
  | cons a t iht => cases l' with
    | nil => simp at h
    | cons y ys =>
      simp only [List.map_cons, List.cons.injEq] at h
      simp only [JEqList]
      exact ⟨y, ys, rfl, ih a (List.mem_cons_self ..) y (List.mem_cons_self ..) h.1,
        iht ys (fun x hx z hz => ih x (List.mem_cons_of_mem _ hx) z (List.mem_cons_of_mem _ hz)) h.2⟩

/-! ### dictionaries -/

theorem subset_of_nodup_length {α : Type} [DecidableEq α] {l₁ l₂ : List α} (h1 : l₁.Nodup) (hs : l₁ ⊆ l₂)
    (hl : l₂.length ≤ l₁.length) : l₂ ⊆ l₁ := by
  intro x hx
  apply Decidable.byContradiction
  intro hn
  have hsub : l₁ ⊆ l₂.erase x := fun y hy =>
    (List.mem_erase_of_ne (by intro e; subst e; exact hn hy)).mpr (hs hy)
  have h2 := h1.length_le_of_subset hsub
  rw [List.length_erase_of_mem hx] at h2
  have : 0 < l₂.length := List.length_pos_of_mem hx
  omega

def serField (p : String × JTree) : String × JTree := (p.1, ser p.2)

theorem keys_serField (l : List (String × JTree)) : (l.map serField).map (·.1) = l.map (·.1) := by
  simp [List.map_map, Function.comp_def, serField]

theorem nodup_of_keys_nodup {α β : Type} {l : List (α × β)} (h : (l.map (·.1)).Nodup) : l.Nodup := by
  induction l with
  | nil => exact List.nodup_nil
  | cons a t ih =>
    simp only [List.map_cons, List.nodup_cons] at h ⊢
    exact ⟨fun hm => h.1 (List.mem_map_of_mem hm), ih h.2⟩

/-- dictionaries with the same number of keys where every field of the first has an equal field in the second
serialize to permutations of each other -/
theorem serFields_perm (l l' : List (String × JTree)) (hn : (l.map (·.1)).Nodup) (hn' : (l'.map (·.1)).Nodup)
    (hlen : l.length = l'.length)
    (hsub : ∀ p, p ∈ l → ∃ v', (p.1, v') ∈ l' ∧ ser p.2 = ser v') :
    (l.map serField).Perm (l'.map serField) := by
  have n1 : (l.map serField).Nodup := nodup_of_keys_nodup (by rw [keys_serField]; exact hn)
  have n2 : (l'.map serField).Nodup := nodup_of_keys_nodup (by rw [keys_serField]; exact hn')
  have fwd : ∀ q, q ∈ l.map serField → q ∈ l'.map serField := by
    intro q hq
    obtain ⟨p, hp, rfl⟩ := List.mem_map.mp hq
    obtain ⟨v', hv', he⟩ := hsub p hp
    exact List.mem_map.mpr ⟨(p.1, v'), hv', by simp [serField, he]⟩
  have ksub : l.map (·.1) ⊆ l'.map (·.1) := by
    intro k hk
    obtain ⟨p, hp, rfl⟩ := List.mem_map.mp hk
    obtain ⟨v', hv', _⟩ := hsub p hp
    exact List.mem_map.mpr ⟨(p.1, v'), hv', rfl⟩
  have kback : l'.map (·.1) ⊆ l.map (·.1) :=
    subset_of_nodup_length hn ksub (by simp [hlen])
  rw [List.perm_ext_iff_of_nodup n1 n2]
  intro q
  refine ⟨fwd q, fun hq => ?_⟩
  obtain ⟨p', hp', rfl⟩ := List.mem_map.mp hq
  obtain ⟨p, hp, hk⟩ := List.mem_map.mp (kback (List.mem_map_of_mem (f := (·.1)) hp'))
  -- p ∈ l has the key of p'; its image is in l' with that key, hence is the image of p'
  have h1 := fwd (serField p) (List.mem_map_of_mem hp)
  have h2 : serField p' ∈ l'.map serField := List.mem_map_of_mem hp'
  have hkk : (serField p).1 = (serField p').1 := hk
  have := eq_of_nodup_map (fun q : String × JTree => q.1) (by rw [keys_serField]; exact hn') h1 h2 hkk
  rw [← this]
  exact List.mem_map_of_mem hp

theorem fieldLe_eq : fieldLe = fun a b : String × JTree => KeyOrd.le a.1 b.1 := rfl

/-! ### the theorem -/

/-- `ser x = ser y` iff `x == y` as JSON values (dictionary order irrelevant, numeric types kept apart) -/
theorem ser_eq_iff_JEq : ∀ a : JTree, ∀ b : JTree, KN a → KN b → (ser a = ser b ↔ JEq a b) := by
  intro a
  induction a using JTree.induct with
  | hnull => intro b _ _; simp only [ser, JEq]; exact ⟨fun h => ser_eq_null h.symm, fun h => by rw [h]; rfl⟩
  | hbool x => intro b _ _; simp only [ser, JEq]; exact ⟨fun h => ser_eq_bool h.symm, fun h => by rw [h]; rfl⟩
  | hnum x => intro b _ _; simp only [ser, JEq]; exact ⟨fun h => ser_eq_num h.symm, fun h => by rw [h]; rfl⟩
  | hstr x => intro b _ _; simp only [ser, JEq]; exact ⟨fun h => ser_eq_str h.symm, fun h => by rw [h]; rfl⟩
  | harr l ih =>
    intro b ka kb
    simp only [KN, KNList_iff] at ka
    constructor
    · intro h
      rw [ser_arr] at h
      obtain ⟨l', rfl, hl'⟩ := ser_eq_arr h.symm
      simp only [KN, KNList_iff] at kb
      simp only [JEq]
      exact ⟨l', rfl, JEqList_of l l' (fun x hx y hy hxy => (ih x hx y (ka x hx) (kb y hy)).mp hxy) hl'.symm⟩
    · intro h
      simp only [JEq] at h
      obtain ⟨l', rfl, hl⟩ := h
      simp only [KN, KNList_iff] at kb
      rw [ser_arr, ser_arr, JEqList_imp l l' (fun x hx y hy hxy => (ih x hx y (ka x hx) (kb y hy)).mpr hxy) hl]
  | hobj l ih =>
    intro b ka kb
    simp only [KN, KNFields_iff] at ka
    obtain ⟨nd, ka⟩ := ka
    constructor
    · intro h
      rw [ser_obj] at h
      obtain ⟨l', rfl, hl'⟩ := ser_eq_obj h.symm
      simp only [KN, KNFields_iff] at kb
      obtain ⟨nd', kb⟩ := kb
      have hp : (l.map serField).Perm (l'.map serField) :=
        (sortBy_perm fieldLe _).symm.trans (hl'.symm ▸ sortBy_perm fieldLe _)
      simp only [JEq]
      refine ⟨l', rfl, by simpa using hp.length_eq, (JEqFields_iff l l').mpr ?_⟩
      intro p hpl
      obtain ⟨p', hp', he⟩ := List.mem_map.mp (hp.mem_iff.mp (List.mem_map_of_mem (f := serField) hpl))
      simp only [serField, Prod.mk.injEq] at he
      refine ⟨p'.2, ?_, (ih p hpl p'.2 (ka p hpl) (kb p' hp')).mp he.2.symm⟩
      rw [← he.1]; exact hp'
    · intro h
      simp only [JEq] at h
      obtain ⟨l', rfl, hlen, hf⟩ := h
      simp only [KN, KNFields_iff] at kb
      obtain ⟨nd', kb⟩ := kb
      rw [JEqFields_iff] at hf
      have hp : (l.map serField).Perm (l'.map serField) := by
        apply serFields_perm l l' nd nd' hlen
        intro p hpl
        obtain ⟨v', hv', hj⟩ := hf p hpl
        exact ⟨v', hv', (ih p hpl v' (ka p hpl) (kb (p.1, v') hv')).mpr hj⟩
      rw [ser_obj, ser_obj, fieldLe_eq]
      congr 1
      exact sortBy_key_eq_of_perm (fun q : String × JTree => q.1) hp (by
        show (List.map (fun x => x.1) (List.map serField l)).Nodup
        rw [keys_serField]; exact nd)

/-- `JEq` is what `ser` decides also when written the other way round (symmetry comes for free) -/
theorem JEq_symm {a b : JTree} (ka : KN a) (kb : KN b) (h : JEq a b) : JEq b a :=
  (ser_eq_iff_JEq b a kb ka).mp ((ser_eq_iff_JEq a b ka kb).mpr h).symm

end C07
