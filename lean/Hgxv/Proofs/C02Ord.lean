import Hgxv.Proofs.C02Step2
/-! C02 helper lemmas, part 10: ids are allocated increasingly and adjacency lists are append-only, so the id lists and
the key table are sorted by id (`Ord`).  Consequence: a role listing is EQUAL (as a list) to the filter of the key list,
which makes `remove_node(keep_edges=True)` the same fold on the concrete store and on the abstract object. -/

namespace AL
variable {α β : Type} [DecidableEq α]
theorem erase_sublist (l : List (α × β)) (k : α) : (erase l k).Sublist l := by
  induction l with
  | nil => simp [erase]
  | cons hd t ih =>
    obtain ⟨a, b⟩ := hd
    simp only [erase]; split
    · exact List.sublist_cons_self _ _
    · exact ih.cons₂ _
end AL

namespace C02
open AL

structure Ord (s : Store) : Prop where
  edge_sorted : (s.edgeList.map (·.2)).Pairwise (· < ·)
  adjS_sorted : ∀ n ids, get? s.adjS n = some ids → ids.Pairwise (· < ·)
  adjT_sorted : ∀ n ids, get? s.adjT n = some ids → ids.Pairwise (· < ·)

theorem Ord.of_eq {s s' : Store} (o : Ord s) (h1 : s'.edgeList = s.edgeList) (h2 : s'.adjS = s.adjS)
    (h3 : s'.adjT = s.adjT) : Ord s' := by
  constructor
  · rw [h1]; exact o.edge_sorted
  · rw [h2]; exact o.adjS_sorted
  · rw [h3]; exact o.adjT_sorted

theorem ord_init (w : Bool) (hm : Meta) : Ord { weighted := w, hmeta := hm } := by
  constructor <;> simp

theorem clear_ord (s : Store) : Ord (clear s) := by
  constructor <;> simp [clear]

theorem getD_sorted_S {s : Store} (o : Ord s) (n : Node) : ((get? s.adjS n).getD []).Pairwise (· < ·) := by
  cases h : get? s.adjS n with
  | none => simp
  | some ids => exact o.adjS_sorted n ids h

theorem getD_sorted_T {s : Store} (o : Ord s) (n : Node) : ((get? s.adjT n).getD []).Pairwise (· < ·) := by
  cases h : get? s.adjT n with
  | none => simp
  | some ids => exact o.adjT_sorted n ids h

theorem addNode_ord (s : Store) (n : Node) (md : Option Meta) (o : Ord s) : Ord (addNode s n md) := by
  constructor
  · rw [(addNode_fields s n md).1]; exact o.edge_sorted
  · intro m ids hh
    rw [addNode_adjS] at hh
    split at hh
    · injection hh with hh; subst hh; exact getD_sorted_S o n
    · exact o.adjS_sorted m ids hh
  · intro m ids hh
    rw [addNode_adjT] at hh
    split at hh
    · injection hh with hh; subst hh; simp
    · exact o.adjT_sorted m ids hh

theorem addNodes_ord (s : Store) (ns : List Node) (o : Ord s) : Ord (addNodes s ns) := by
  induction ns generalizing s with
  | nil => exact o
  | cons n ns ih => exact ih _ (addNode_ord s n none o)

theorem sorted_snoc (ids : List Nat) (x : Nat) (h : ids.Pairwise (· < ·)) (hx : ∀ i ∈ ids, i < x) :
    (ids ++ [x]).Pairwise (· < ·) := by
  refine List.pairwise_append.mpr ⟨h, by simp, ?_⟩
  intro a ha b hb; simp at hb; subst hb; exact hx a ha

theorem addEdgeNew_ord (s : Store) (k : Key) (wt : Int) (md : Meta) (hk : KeyWF k)
    (hget : get? s.edgeList k = none) (h : Inv s) (o : Ord s) : Ord (addEdgeNew s k wt md) := by
  have ltS : ∀ n, ∀ i ∈ (get? s.adjS n).getD [], i < s.nextId := by
    intro n i hi
    obtain ⟨k', hk', _⟩ := (h.adjS_getD n i).mp hi
    exact h.id_lt _ _ hk'
  have ltT : ∀ n, ∀ i ∈ (get? s.adjT n).getD [], i < s.nextId := by
    intro n i hi
    obtain ⟨k', hk', _⟩ := (h.adjT_getD n i).mp hi
    exact h.id_lt _ _ hk'
  constructor
  · rw [(addEdgeNew_fields s k wt md).1, set_of_not_mem _ _ _ hget, List.map_append]
    refine sorted_snoc _ _ o.edge_sorted ?_
    intro i hi
    obtain ⟨p, hp, hpi⟩ := List.mem_map.mp hi
    subst hpi
    have hg : get? s.edgeList p.1 = some p.2 := get?_of_mem _ _ _ h.nd_edge hp
    exact h.id_lt _ _ (h.rev_of_edge _ _ hg)
  · intro n ids hh
    rw [addEdgeNew_adjS s k wt md hk.nodupS hk.disj] at hh
    split at hh
    · injection hh with hh; subst hh; exact sorted_snoc _ _ (getD_sorted_S o n) (ltS n)
    · split at hh
      · injection hh with hh; subst hh; exact getD_sorted_S o n
      · exact o.adjS_sorted n ids hh
  · intro n ids hh
    rw [addEdgeNew_adjT s k wt md hk.nodupS hk.nodupT hk.disj h.adj_same] at hh
    split at hh
    · injection hh with hh; subst hh; exact sorted_snoc _ _ (getD_sorted_T o n) (ltT n)
    · split at hh
      · injection hh with hh; subst hh; exact getD_sorted_T o n
      · exact o.adjT_sorted n ids hh

theorem addEdgeKey_ord (s : Store) (k : Key) (w : Option Int) (md : Option Meta) (hk : KeyWF k) (h : Inv s) (o : Ord s) :
    Ord (addEdgeKey s k w md).1 := by
  unfold addEdgeKey
  split
  · exact o
  · split
    · rename_i hget; exact addEdgeNew_ord s k _ _ hk hget h o
    · exact o.of_eq rfl rfl rfl

theorem addEdge_ord (s : Store) (e : RawEdge) (w : Option Int) (md : Option Meta) (he : RawWF e) (h : Inv s) (o : Ord s) :
    Ord (addEdge s e w md).1 :=
  addEdgeKey_ord s _ w md (keyWF_canonAdd e he) h o

theorem addEdgesLoop_ord (s : Store) (es : List RawEdge) (ws : Option (List Int)) (mds : Option (List Meta))
    (hes : ∀ e ∈ es, RawWF e) (h : Inv s) (o : Ord s) : Ord (addEdgesLoop s es ws mds).1 := by
  induction es generalizing s ws mds with
  | nil => exact o
  | cons e es ih =>
    have hw := hes e List.mem_cons_self
    have hes' : ∀ e' ∈ es, RawWF e' := fun e' he' => hes e' (List.mem_cons_of_mem _ he')
    unfold addEdgesLoop
    split
    · exact o
    · split
      · exact o
      · simp only []
        split
        · exact addEdge_ord s e _ _ hw h o
        · exact ih _ _ _ hes' (addEdge_inv s e _ _ hw h) (addEdge_ord s e _ _ hw h o)

theorem addEdges_ord (s : Store) (es : List RawEdge) (ws : Option (List Int)) (mds : Option (List Meta))
    (hes : ∀ e ∈ es, RawWF e) (h : Inv s) (o : Ord s) : Ord (addEdges s es ws mds).1 := by
  unfold addEdges
  simp only []
  have h0 : Inv (if (ws.isSome && !s.weighted) = true then { s with weighted := true } else s) := by
    split
    · exact h.set_weighted true
    · exact h
  have o0 : Ord (if (ws.isSome && !s.weighted) = true then { s with weighted := true } else s) := by
    split
    · exact o.of_eq rfl rfl rfl
    · exact o
  split
  · split
    · exact o0
    · exact addEdgesLoop_ord _ _ _ _ hes h0 o0
  · exact addEdgesLoop_ord _ _ _ _ hes h0 o0

theorem removeEdgeKey_ord (s : Store) (k : Key) (h : Inv s) (o : Ord s) : Ord (removeEdgeKey s k).1 := by
  unfold removeEdgeKey
  cases hk : get? s.edgeList k with
  | none => exact o
  | some id =>
    have wf := h.key_wf id k (h.rev_of_edge k id hk)
    constructor
    · show ((AL.erase s.edgeList k).map (·.2)).Pairwise (· < ·)
      exact List.Pairwise.sublist ((erase_sublist s.edgeList k).map _) o.edge_sorted
    · intro n ids hh
      have hh' : get? (unlink s.adjS id k.1) n = some ids := hh
      rw [unlink_get _ _ _ wf.nodupS] at hh'
      split at hh'
      · cases ha : get? s.adjS n with
        | none => rw [ha] at hh'; cases hh'
        | some x =>
          rw [ha] at hh'; simp only [Option.map_some] at hh'; injection hh' with hh'; subst hh'
          exact (o.adjS_sorted n x ha).erase id
      · exact o.adjS_sorted n ids hh'
    · intro n ids hh
      have hh' : get? (unlink s.adjT id k.2) n = some ids := hh
      rw [unlink_get _ _ _ wf.nodupT] at hh'
      split at hh'
      · cases ha : get? s.adjT n with
        | none => rw [ha] at hh'; cases hh'
        | some x =>
          rw [ha] at hh'; simp only [Option.map_some] at hh'; injection hh' with hh'; subst hh'
          exact (o.adjT_sorted n x ha).erase id
      · exact o.adjT_sorted n ids hh'

theorem removeEdge_ord (s : Store) (e : RawEdge) (h : Inv s) (o : Ord s) : Ord (removeEdge s e).1 := by
  unfold removeEdge
  split
  · exact o
  · exact removeEdgeKey_ord s _ h o

theorem removeEdges_ord (s : Store) (es : List RawEdge) (h : Inv s) (o : Ord s) : Ord (removeEdges s es).1 := by
  induction es generalizing s with
  | nil => exact o
  | cons e es ih =>
    simp only [removeEdges]
    split
    · exact removeEdge_ord s e h o
    · exact ih _ (removeEdge_inv s e h) (removeEdge_ord s e h o)

theorem reinsert_ord (s : Store) (n : Node) (k : Key) (hk : KeyWF k) (h : Inv s) (o : Ord s) : Ord (reinsert s n k).1 := by
  unfold reinsert
  simp only []
  split
  · exact o
  · rename_i hne
    have hne' : (shrinkKey k n).1 ≠ [] ∧ (shrinkKey k n).2 ≠ [] := by
      simp only [Bool.or_eq_true, List.isEmpty_iff, not_or] at hne; exact hne
    split
    · unfold addEdge
      rw [canonAdd_ofKey _ (keyWF_shrink k n hk hne'.1 hne'.2)]
      exact addEdgeKey_ord s _ _ _ (keyWF_shrink k n hk hne'.1 hne'.2) h o
    · exact o

theorem reinsertAll_ord (s : Store) (n : Node) (L : List Key) (hL : ∀ k ∈ L, KeyWF k) (h : Inv s) (o : Ord s) :
    Ord (reinsertAll s n L).1 := by
  induction L generalizing s with
  | nil => exact o
  | cons k ks ih =>
    simp only [reinsertAll]
    have wf := hL k List.mem_cons_self
    split
    · exact reinsert_ord s n k wf h o
    · exact ih _ (fun k' hk' => hL k' (List.mem_cons_of_mem _ hk')) (reinsert_inv s n k wf h) (reinsert_ord s n k wf h o)

theorem removeKeys_ord (s : Store) (L : List Key) (h : Inv s) (o : Ord s) : Ord (removeKeys s L).1 := by
  induction L generalizing s with
  | nil => exact o
  | cons k ks ih =>
    simp only [removeKeys]
    split
    · exact removeEdge_ord s _ h o
    · exact ih _ (removeEdge_inv s _ h) (removeEdge_ord s _ h o)

theorem dropNode_ord (s : Store) (n : Node) (h : Inv s) (o : Ord s) : Ord (dropNode s n) := by
  constructor
  · exact o.edge_sorted
  · intro m ids hh
    have hh' : get? (AL.erase s.adjS n) m = some ids := hh
    rw [get?_erase _ _ _ h.nd_adjS] at hh'
    split at hh'
    · cases hh'
    · exact o.adjS_sorted m ids hh'
  · intro m ids hh
    have hh' : get? (AL.erase s.adjT n) m = some ids := hh
    rw [get?_erase _ _ _ h.nd_adjT] at hh'
    split at hh'
    · cases hh'
    · exact o.adjT_sorted m ids hh'

end C02
