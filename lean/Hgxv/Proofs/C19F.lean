import Hgxv.Proofs.C19L
import Mathlib.Algebra.Order.Field.Rat
import Mathlib.Tactic.Linarith
/-! C19 part B, extension round: the step-up scan as a multiple-testing procedure.

* `stepUp_cases`: the scan returns its start value (no position below its line) or the line of the LAST position
  below its line - one statement, no hypothesis.
* `filter_length_prefix`: a predicate that holds exactly on the first `k` positions selects `k` items.
* `threshold_rank`: for `bonf > 0` the threshold is `k * bonf` with `k` = number of validated p-values.
* `threshold_mono`: the threshold grows with `bonf` (hence with `alpha`).
* `threshold_le_all`, `threshold_ge_bonf`: between the Bonferroni line and the line of the last rank.
* survival-function identities of the exact tail. -/
namespace C19
open Finset

theorem stepUp_cases (bonf : Rat) (l : List Rat) (i : Nat) (best : Rat) :
    (stepUp bonf l i best = best ∧ ∀ j (h : j < l.length), ¬ l[j] < ((i + j : Nat) : Rat) * bonf) ∨
    (∃ j, ∃ h : j < l.length, l[j] < ((i + j : Nat) : Rat) * bonf ∧
      (∀ j' (h' : j' < l.length), j < j' → ¬ l[j'] < ((i + j' : Nat) : Rat) * bonf) ∧
      stepUp bonf l i best = ((i + j : Nat) : Rat) * bonf) := by
  induction l generalizing i best with
  | nil => left; exact ⟨rfl, fun j h => by simp at h⟩
  | cons p ps ih =>
    have shift : ∀ j, i + 1 + j = i + (j + 1) := fun j => by omega
    simp only [stepUp]
    rcases ih (i + 1) (if p < (i : Rat) * bonf then (i : Rat) * bonf else best) with ⟨heq, hno⟩ | ⟨j, hj, hhit, hlast, heq⟩
    · by_cases h0 : p < (i : Rat) * bonf
      · right
        refine ⟨0, by simp, by simpa using h0, ?_, by simpa [h0] using heq⟩
        intro j' hj' hpos
        obtain ⟨j0, rfl⟩ : ∃ j0, j' = j0 + 1 := ⟨j' - 1, by omega⟩
        have := hno j0 (by simpa using hj')
        simpa [shift] using this
      · left
        refine ⟨by simpa [h0] using heq, ?_⟩
        intro j' hj'
        cases j' with
        | zero => simpa using h0
        | succ j0 =>
          have := hno j0 (by simpa using hj')
          simpa [shift] using this
    · right
      refine ⟨j + 1, by simpa using hj, by simpa [shift] using hhit, ?_, by simpa [shift] using heq⟩
      intro j' hj' hlt
      obtain ⟨j0, rfl⟩ : ∃ j0, j' = j0 + 1 := ⟨j' - 1, by omega⟩
      have := hlast j0 (by simpa using hj') (by omega)
      simpa [shift] using this

theorem filter_length_prefix {α : Type} (P : α → Bool) (l : List α) (k : Nat) (hk : k ≤ l.length)
    (h1 : ∀ i (h : i < l.length), i < k → P l[i] = true) (h2 : ∀ i (h : i < l.length), k ≤ i → P l[i] = false) :
    (l.filter P).length = k := by
  induction l generalizing k with
  | nil =>
    have : k = 0 := by simpa using hk
    subst this; rfl
  | cons a t ih =>
    cases k with
    | zero =>
      have : (a :: t).filter P = [] := by
        rw [List.filter_eq_nil_iff]
        intro x hx
        obtain ⟨i, hi, rfl⟩ := List.mem_iff_getElem.mp hx
        simpa using h2 i hi (Nat.zero_le _)
      simp [this]
    | succ k0 =>
      have ha : P a = true := h1 0 (by simp) (by omega)
      rw [List.filter_cons_of_pos ha, List.length_cons, ih k0 (by simpa using hk)]
      · intro i hi hik
        exact h1 (i + 1) (by simpa using hi) (by omega)
      · intro i hi hik
        exact h2 (i + 1) (by simpa using hi) (by omega)

theorem sorted_mergeSort (ps : List Rat) : (ps.mergeSort (fun a b => a ≤ b)).Pairwise (· ≤ ·) := by
  have := List.pairwise_mergeSort (le := fun (a b : Rat) => decide (a ≤ b))
    (fun a b c h1 h2 => by simp only [decide_eq_true_eq] at *; exact Rat.le_trans h1 h2)
    (fun a b => by simp only [Bool.or_eq_true, decide_eq_true_eq]; exact Rat.le_total) ps
  simpa using this

/-- for `bonf > 0`: with `k` the number of validated p-values, the threshold is `k * bonf`; `k` is 0 or a rank whose
p-value is below its line; every rank below its line is at most `k` -/
theorem threshold_rank (ps : List Rat) (bonf : Rat) (hb : 0 < bonf) :
    let s := ps.mergeSort (fun a b => a ≤ b)
    let k := (ps.filter (fun p => validated ps bonf p)).length
    threshold ps bonf = (k : Rat) * bonf ∧ k ≤ s.length ∧
    (∀ h : 0 < k, ∃ h' : k - 1 < s.length, s[k - 1] < (k : Rat) * bonf) ∧
    (∀ j (h : j < s.length), s[j] < ((j + 1 : Nat) : Rat) * bonf → j + 1 ≤ k) := by
  intro s k
  have hperm : s.Perm ps := List.mergeSort_perm _ _
  have hsorted := sorted_mergeSort ps
  have hk : k = (s.filter (fun p => validated ps bonf p)).length := (hperm.filter _).length_eq.symm
  have hthr : threshold ps bonf = stepUp bonf s 1 0 := rfl
  rcases stepUp_cases bonf s 1 0 with ⟨heq, hno⟩ | ⟨j, hj, hhit, hlast, heq⟩
  · -- no rank is below its line: nothing is validated
    have hk0 : k = 0 := by
      rw [hk]
      apply filter_length_prefix _ _ 0 (Nat.zero_le _) (fun i _ hi => by omega)
      intro i hi _
      have h := hno i hi
      have hpos : (0 : Rat) ≤ ((1 + i : Nat) : Rat) * bonf := by positivity
      simp only [validated, hthr, heq, decide_eq_false_iff_not, not_lt]
      linarith [not_lt.mp h]
    refine ⟨by rw [hthr, heq, hk0]; simp, by omega, fun h => by omega, ?_⟩
    intro j hj hhit
    exact absurd (by simpa [Nat.add_comm] using hhit) (hno j hj)
  · have hkj : k = j + 1 := by
      rw [hk]
      apply filter_length_prefix _ _ (j + 1) (by omega)
      · intro i hi hij
        have hle : s[i] ≤ s[j] := by
          rcases Nat.lt_or_eq_of_le (Nat.le_of_lt_succ hij) with hlt | he
          · exact (List.pairwise_iff_getElem.mp hsorted) i j hi hj hlt
          · subst he; exact le_refl _
        simp only [validated, hthr, heq, decide_eq_true_eq]
        exact lt_of_le_of_lt hle hhit
      · intro i hi hij
        have h := hlast i hi (by omega)
        have hc : ((1 + j : Nat) : Rat) * bonf ≤ ((1 + i : Nat) : Rat) * bonf :=
          mul_le_mul_of_nonneg_right (by exact_mod_cast (by omega : 1 + j ≤ 1 + i)) (le_of_lt hb)
        simp only [validated, hthr, heq, decide_eq_false_iff_not, not_lt]
        linarith [not_lt.mp h]
    refine ⟨by rw [hthr, heq, hkj, Nat.add_comm], by omega, fun _ => ⟨by omega, ?_⟩, ?_⟩
    · have e : k - 1 = j := by omega
      have hc : ((k : Nat) : Rat) = ((1 + j : Nat) : Rat) := by rw [hkj, Nat.add_comm]
      simp only [e]
      rw [hc]
      exact hhit
    · intro j' hj' hhit'
      apply Decidable.byContradiction
      intro hgt
      exact hlast j' hj' (by omega) (by simpa [Nat.add_comm] using hhit')

theorem threshold_nonneg (ps : List Rat) (bonf : Rat) (hb : 0 ≤ bonf) : 0 ≤ threshold ps bonf := by
  have := stepUp_ge_best bonf hb (ps.mergeSort (fun a b => a ≤ b)) 1 0 (by simpa using hb)
  exact this

/-- the threshold is monotone in the Bonferroni unit -/
theorem threshold_mono (ps : List Rat) (b b' : Rat) (hb : 0 ≤ b) (hbb : b ≤ b') :
    threshold ps b ≤ threshold ps b' := by
  have hb' : 0 ≤ b' := le_trans hb hbb
  rcases stepUp_cases b (ps.mergeSort (fun a b => a ≤ b)) 1 0 with ⟨heq, _⟩ | ⟨j, hj, hhit, _, heq⟩
  · show stepUp b _ 1 0 ≤ _
    rw [heq]; exact threshold_nonneg ps b' hb'
  · show stepUp b _ 1 0 ≤ _
    rw [heq]
    have hc : ((1 + j : Nat) : Rat) * b ≤ ((1 + j : Nat) : Rat) * b' :=
      mul_le_mul_of_nonneg_left hbb (by positivity)
    have := stepUp_ge_hit b' hb' (ps.mergeSort (fun a b => a ≤ b)) 1 0 j hj (lt_of_lt_of_le hhit hc)
    exact le_trans hc this

/-- the threshold never exceeds the line of the last rank -/
theorem threshold_le_all (ps : List Rat) (bonf : Rat) (hb : 0 ≤ bonf) :
    threshold ps bonf ≤ (ps.length : Rat) * bonf := by
  show stepUp bonf (ps.mergeSort (fun a b => a ≤ b)) 1 0 ≤ _
  apply stepUp_le
  · positivity
  · intro j hj _
    have hlen : (ps.mergeSort (fun a b => a ≤ b)).length = ps.length := List.length_mergeSort _
    exact mul_le_mul_of_nonneg_right (by exact_mod_cast (by omega : 1 + j ≤ ps.length)) hb

/-- a p-value below the Bonferroni line `1 * bonf` pulls the threshold up to at least `bonf` -/
theorem threshold_ge_bonf (ps : List Rat) (bonf : Rat) (hb : 0 ≤ bonf) (p : Rat) (hp : p ∈ ps) (hlt : p < bonf) :
    bonf ≤ threshold ps bonf := by
  have hperm : (ps.mergeSort (fun a b => a ≤ b)).Perm ps := List.mergeSort_perm _ _
  have hsorted := sorted_mergeSort ps
  obtain ⟨i, hi, hip⟩ := List.mem_iff_getElem.mp (hperm.mem_iff.mpr hp)
  have h0 : 0 < (ps.mergeSort (fun a b => a ≤ b)).length := by omega
  have hle : (ps.mergeSort (fun a b => a ≤ b))[0] ≤ p := by
    rw [← hip]
    rcases Nat.eq_zero_or_pos i with rfl | hpos
    · exact le_refl _
    · exact (List.pairwise_iff_getElem.mp hsorted) 0 i h0 hi hpos
  have := stepUp_ge_hit bonf hb (ps.mergeSort (fun a b => a ≤ b)) 1 0 0 h0 (by simpa using lt_of_le_of_lt hle hlt)
  show bonf ≤ stepUp bonf (ps.mergeSort (fun a b => a ≤ b)) 1 0
  simpa using this

/-! ### survival-function identities of the exact binomial tail -/

theorem pmf_eq (N : Nat) (p : ℚ) (j : Nat) : pmf N p j = (N.choose j : ℚ) * p ^ j * (1 - p) ^ (N - j) := by
  simp [pmf, choose_eq]

/-- `P(X ≥ w) = P(X = w) + P(X ≥ w + 1)` -/
theorem tail_step (w N : Nat) (p : ℚ) (hw : w ≤ N) : tail w N p = pmf N p w + tail (w + 1) N p := by
  rw [tail_eq_sum, tail_eq_sum, pmf_eq, Finset.sum_eq_sum_Ico_succ_bot (by omega)]

/-- nothing above `N` -/
theorem tail_above (w N : Nat) (p : ℚ) (hw : N < w) : tail w N p = 0 := by
  rw [tail_eq_sum, Finset.Ico_eq_empty (by omega), Finset.sum_empty]

/-- `P(X ≥ N) = p ^ N` -/
theorem tail_top (N : Nat) (p : ℚ) : tail N N p = p ^ N := by
  rw [tail_step N N p (le_refl _), tail_above (N + 1) N p (by omega), pmf_eq]; simp

/-- `P(X ≥ 1) = 1 - (1 - p) ^ N` (the closed form for a hyperedge seen once) -/
theorem tail_one (N : Nat) (p : ℚ) : tail 1 N p = 1 - (1 - p) ^ N := by
  have h := tail_step 0 N p (Nat.zero_le _)
  rw [tail_zero, pmf_eq] at h
  simp at h
  linarith

/-- survival function and distribution function are complementary: `sf(k) = 1 - Σ_{j ≤ k} P(X = j)` for `k ≤ N` -/
theorem sf_compl (k N : Nat) (p : ℚ) (hk : k ≤ N) :
    sfExact k N p = 1 - ∑ j ∈ range (k + 1), pmf N p j := by
  unfold sfExact
  have h := Finset.sum_range_add_sum_Ico (fun j => (N.choose j : ℚ) * p ^ j * (1 - p) ^ (N - j))
    (show k + 1 ≤ N + 1 by omega)
  have h0 := tail_zero N p
  rw [tail_eq_sum, Nat.Ico_zero_eq_range] at h0
  rw [tail_eq_sum]
  simp only [pmf_eq]
  linarith

/-- for a probability `p` the tail decreases in the weight -/
theorem tail_antitone (w w' N : Nat) (p : ℚ) (hp0 : 0 ≤ p) (hp1 : p ≤ 1) (hw : w ≤ w') :
    tail w' N p ≤ tail w N p := by
  have hq : 0 ≤ 1 - p := by linarith
  rw [tail_eq_sum, tail_eq_sum]
  apply Finset.sum_le_sum_of_subset_of_nonneg
  · intro j hj
    simp only [mem_Ico] at hj ⊢
    omega
  · intro j _ _
    positivity

/-- reflection: successes with probability `p` are failures with probability `1 - p`:
`P(X ≥ w | p) = 1 - P(X ≥ N + 1 - w | 1 - p)` for `w ≤ N + 1` -/
theorem tail_reflect (w N : Nat) (p : ℚ) (hw : w ≤ N + 1) : tail w N p = 1 - tail (N + 1 - w) N (1 - p) := by
  have h0 := tail_zero N p
  rw [tail_eq_sum, Nat.Ico_zero_eq_range] at h0
  have hsplit := Finset.sum_range_add_sum_Ico (fun j => (N.choose j : ℚ) * p ^ j * (1 - p) ^ (N - j)) hw
  have hrefl := Finset.sum_Ico_reflect (fun i => (N.choose i : ℚ) * (1 - p) ^ i * (1 - (1 - p)) ^ (N - i)) 0 hw
  rw [tail_eq_sum, tail_eq_sum]
  have hlow : ∑ j ∈ range w, (N.choose j : ℚ) * p ^ j * (1 - p) ^ (N - j) =
      ∑ i ∈ Ico (N + 1 - w) (N + 1), (N.choose i : ℚ) * (1 - p) ^ i * (1 - (1 - p)) ^ (N - i) := by
    rw [show N + 1 = N + 1 - 0 from rfl] at hrefl
    rw [← Nat.Ico_zero_eq_range]
    simp only [Nat.sub_zero] at hrefl
    rw [← hrefl]
    apply Finset.sum_congr rfl
    intro j hj
    have hjN : j ≤ N := by simp only [mem_Ico] at hj; omega
    rw [Nat.choose_symm hjN, Nat.sub_sub_self hjN, sub_sub_cancel]
    ring
  linarith

/-- flags of a table: counting the flagged rows is counting the validated p-values -/
theorem flagged_count (rows : List Row) (ps : List Rat) (bonf : Rat) (hps : ps = rows.map (·.p)) :
    ((rows.map (fun r => (r, validated ps bonf r.p))).filter (·.2)).length =
      (ps.filter (fun p => validated ps bonf p)).length := by
  subst hps
  rw [List.filter_map, List.length_map, List.filter_map, List.length_map]
  rfl

end C19
