import Hgxv.Model.C06
/-! Helper lemmas for C06 (core Lean only): association lists, `touchNode`, the laws of the four key
types, the JSON round trip. -/
set_option linter.unusedSectionVars false
namespace C06

/-! ## association lists -/
section al
variable {α β : Type} [DecidableEq α]

theorem AL_set_same (l : List (α × β)) (k : α) (v : β) (h : AL.get? l k = some v) : AL.set l k v = l := by
  induction l with
  | nil => simp [AL.get?] at h
  | cons hd t ih => grind [AL.set, AL.get?]

theorem AL_set_new (l : List (α × β)) (k : α) (v : β) (h : AL.get? l k = none) : AL.set l k v = l ++ [(k, v)] := by
  induction l with
  | nil => simp [AL.set]
  | cons hd t ih => grind [AL.set, AL.get?]

theorem AL_get?_append (l : List (α × β)) (k k' : α) (v : β) :
    AL.get? (l ++ [(k, v)]) k' = match AL.get? l k' with
      | some x => some x
      | none => if k = k' then some v else none := by
  induction l with
  | nil => simp [AL.get?]
  | cons hd t ih => grind [AL.get?]

theorem AL_keys_append (l l' : List (α × β)) : AL.keys (l ++ l') = AL.keys l ++ AL.keys l' := by
  simp [AL.keys]

theorem AL_get?_none_of_not_mem (l : List (α × β)) (k : α) (h : k ∉ AL.keys l) : AL.get? l k = none :=
  (AL.get?_eq_none_iff l k).mpr h

theorem AL_get?_isSome_of_mem (l : List (α × β)) (k : α) (h : k ∈ AL.keys l) : ∃ v, AL.get? l k = some v := by
  cases hg : AL.get? l k with
  | none => exact absurd h ((AL.get?_eq_none_iff l k).mp hg)
  | some v => exact ⟨v, rfl⟩

theorem AL_get?_mem (l : List (α × β)) (k : α) (v : β) (h : AL.get? l k = some v) : (k, v) ∈ l := by
  induction l with
  | nil => simp [AL.get?] at h
  | cons hd t ih => grind [AL.get?]

theorem AL_get?_of_mem_nodup (l : List (α × β)) (k : α) (v : β) (hn : (AL.keys l).Nodup) (h : (k, v) ∈ l) :
    AL.get? l k = some v := by
  induction l with
  | nil => simp at h
  | cons hd t ih =>
    obtain ⟨k', v'⟩ := hd
    simp only [AL.keys, List.map_cons, List.nodup_cons, List.mem_map] at hn
    rcases List.mem_cons.mp h with h1 | h1
    · cases h1; simp [AL.get?]
    · have : k' ≠ k := by
        intro hk; subst hk; exact hn.1 ⟨(k', v), h1, rfl⟩
      simp only [AL.get?, this, if_false]
      exact ih hn.2 h1

end al

/-! ## metadata: erasing the reserved keys -/

theorem eraseReserved_set (m : Meta) (k : Key) (v : Val) (hk : isReserved k = true) :
    eraseReserved (AL.set m k v) = eraseReserved m := by
  induction m with
  | nil => simp [AL.set, eraseReserved, hk]
  | cons hd t ih =>
    obtain ⟨k', v'⟩ := hd
    by_cases h : k' = k
    · subst h; simp [AL.set, eraseReserved, hk]
    · simp only [AL.set, h, if_false]
      simp only [eraseReserved, List.filter_cons] at ih ⊢
      rw [ih]

theorem eraseReserved_setWeight (wtd : Bool) (w : Int) (m : Meta) :
    eraseReserved (setWeight wtd w m) = eraseReserved m := by
  unfold setWeight; split
  · exact eraseReserved_set m _ _ rfl
  · rfl

theorem eraseReserved_idem (m : Meta) : eraseReserved (eraseReserved m) = eraseReserved m := by
  simp [eraseReserved]

theorem get?_setWeight_true (w : Int) (m : Meta) : AL.get? (setWeight true w m) Key.weight = some (Val.wq w) := by
  simp [setWeight]

/-! ## laws of the four key types -/

class LawfulKind (κ : Type) [Kind κ] : Prop where
  readKey_inter : ∀ (wtd : Bool) (w : Int) (k : κ) (m : Meta),
    Kind.readKey (Kind.inter k) (Kind.decorate wtd w k m) = some k
  weight_decorate : ∀ (w : Int) (k : κ) (m : Meta),
    AL.get? (Kind.decorate true w k m) Key.weight = some (Val.wq w)
  erase_decorate : ∀ (wtd : Bool) (w : Int) (k : κ) (m : Meta),
    eraseReserved (Kind.decorate wtd w k m) = eraseReserved m

instance : LawfulKind HKey where
  readKey_inter := by intros; rfl
  weight_decorate := by intro w k m; exact get?_setWeight_true w m
  erase_decorate := by intro wtd w k m; exact eraseReserved_setWeight wtd w m

instance : LawfulKind DKey where
  readKey_inter := by intros; rfl
  weight_decorate := by intro w k m; exact get?_setWeight_true w m
  erase_decorate := by intro wtd w k m; exact eraseReserved_setWeight wtd w m

instance : LawfulKind TKey where
  readKey_inter := by
    intro wtd w k m
    show (match Inter.flat k.nodes, AL.get? (AL.set (setWeight wtd w m) Key.time (Val.tm k.time)) Key.time with
      | .flat ns, some (.tm t) => some (⟨t, ns⟩ : TKey)
      | _, _ => none) = some k
    rw [AL.get?_set_self]
  weight_decorate := by
    intro w k m
    show AL.get? (AL.set (setWeight true w m) Key.time (Val.tm k.time)) Key.weight = _
    rw [AL.get?_set_ne _ _ _ _ (by decide)]; exact get?_setWeight_true w m
  erase_decorate := by
    intro wtd w k m
    show eraseReserved (AL.set (setWeight wtd w m) Key.time (Val.tm k.time)) = _
    rw [eraseReserved_set _ _ _ rfl, eraseReserved_setWeight]

instance : LawfulKind MKey where
  readKey_inter := by
    intro wtd w k m
    show (match Inter.flat k.nodes, AL.get? (setWeight wtd w (AL.set m Key.layer (Val.lay k.layer))) Key.layer with
      | .flat ns, some (.lay l) => some (⟨ns, l⟩ : MKey)
      | _, _ => none) = some k
    have : AL.get? (setWeight wtd w (AL.set m Key.layer (Val.lay k.layer))) Key.layer = some (Val.lay k.layer) := by
      unfold setWeight; split
      · rw [AL.get?_set_ne _ _ _ _ (by decide)]; simp
      · simp
    rw [this]
  weight_decorate := by
    intro w k m
    exact get?_setWeight_true w _
  erase_decorate := by
    intro wtd w k m
    show eraseReserved (setWeight wtd w (AL.set m Key.layer (Val.lay k.layer))) = _
    rw [eraseReserved_setWeight, eraseReserved_set _ _ _ rfl]

/-! ## `add_node` -/

theorem touchNode_new (ns : List (Nat × Meta)) (n : Nat) (m : Meta) (h : n ∉ AL.keys ns) :
    touchNode ns n m = ns ++ [(n, m)] := by
  unfold touchNode; rw [AL_get?_none_of_not_mem ns n h]

theorem touchNode_old (ns : List (Nat × Meta)) (n : Nat) (h : n ∈ AL.keys ns) :
    touchNode ns n [] = ns := by
  obtain ⟨v, hv⟩ := AL_get?_isSome_of_mem ns n h
  unfold touchNode; rw [hv]
  by_cases hv' : v = []
  · subst hv'; simp [AL_set_same ns n [] hv]
  · simp [hv']

theorem touchAll_present (ns : List (Nat × Meta)) (l : List Nat) (h : ∀ n ∈ l, n ∈ AL.keys ns) :
    touchAll ns l = ns := by
  unfold touchAll
  induction l with
  | nil => rfl
  | cons a t ih =>
    simp only [List.foldl_cons]
    rw [touchNode_old ns a (h a (by simp))]
    exact ih (fun n hn => h n (by simp [hn]))

section rt
variable {κ : Type} [DecidableEq κ] [Kind κ]

theorem loadNodes_fresh (c : Content κ) (l : List (Nat × Meta)) (h : (AL.keys (c.nodes ++ l)).Nodup) :
    loadNodes c l = { c with nodes := c.nodes ++ l } := by
  induction l generalizing c with
  | nil => simp [loadNodes]
  | cons p t ih =>
    have hp : p.1 ∉ AL.keys c.nodes := by
      intro hin
      rw [AL_keys_append] at h
      have := (List.nodup_append.mp h).2.2 p.1 hin p.1 (by simp [AL.keys])
      exact this rfl
    have hstep : addNode c p.1 (some p.2) = { c with nodes := c.nodes ++ [p] } := by
      simp [addNode, metaOrEmpty, touchNode_new c.nodes p.1 p.2 hp]
    have := ih (addNode c p.1 (some p.2)) (by rw [hstep]; simpa using h)
    simp only [loadNodes, List.foldl_cons] at this ⊢
    rw [this, hstep]; simp

/-! ## the JSON record stream produced by `save` -/

theorem lastHeader_nodes (l : List (Nat × Meta)) (rs : List Record) (acc : Option (HType × Bool × Meta)) :
    lastHeader (l.map saveNode ++ rs) acc = lastHeader rs acc := by
  induction l with
  | nil => rfl
  | cons a t ih => simpa [saveNode, lastHeader] using ih

theorem lastHeader_edges (wtd : Bool) (l : List (κ × (Int × Meta))) (acc : Option (HType × Bool × Meta)) :
    lastHeader (l.map (saveEdge wtd)) acc = acc := by
  induction l with
  | nil => rfl
  | cons a t ih => simpa [saveEdge, lastHeader] using ih

theorem nodeRecs_nodes (l : List (Nat × Meta)) (rs : List Record) :
    nodeRecs (l.map saveNode ++ rs) = l ++ nodeRecs rs := by
  induction l with
  | nil => rfl
  | cons a t ih => simp [saveNode, nodeRecs] at ih ⊢; exact ih

theorem nodeRecs_edges (wtd : Bool) (l : List (κ × (Int × Meta))) : nodeRecs (l.map (saveEdge wtd)) = [] := by
  induction l with
  | nil => rfl
  | cons a t ih => simpa [saveEdge, nodeRecs] using ih

theorem edgeRecs_nodes (l : List (Nat × Meta)) (rs : List Record) :
    edgeRecs (l.map saveNode ++ rs) = edgeRecs rs := by
  induction l with
  | nil => rfl
  | cons a t ih => simpa [saveNode, edgeRecs] using ih

theorem lastHeader_save {κ : Type} [DecidableEq κ] [Kind κ] (c : Content κ) :
    lastHeader (save c) none = some (Kind.ty κ, c.weighted, c.hmeta) := by
  simp [save, lastHeader, lastHeader_nodes, lastHeader_edges]

/-- the edge record `save` writes for a content entry, as `load` sees it -/
def recOf (wtd : Bool) (e : κ × (Int × Meta)) : Inter × Meta :=
  (Kind.inter e.1, Kind.decorate wtd e.2.1 e.1 e.2.2)

/-- the entry `load` rebuilds: same key and weight, metadata = the record's metadata -/
def decorated (wtd : Bool) (e : κ × (Int × Meta)) : κ × (Int × Meta) :=
  (e.1, (e.2.1, Kind.decorate wtd e.2.1 e.1 e.2.2))

theorem edgeRecs_edges (wtd : Bool) (l : List (κ × (Int × Meta))) :
    edgeRecs (l.map (saveEdge wtd)) = l.map (recOf wtd) := by
  induction l with
  | nil => rfl
  | cons a t ih => simp [saveEdge, edgeRecs, recOf] at ih ⊢; exact ih

theorem keys_decorated (wtd : Bool) (l : List (κ × (Int × Meta))) :
    AL.keys (l.map (decorated wtd)) = AL.keys l := by
  simp [AL.keys, decorated, Function.comp_def]

variable [LawfulKind κ]

theorem readWeight_decorate (wtd : Bool) (w : Int) (k : κ) (m : Meta) :
    readWeight wtd (Kind.decorate wtd w k m) = some (if wtd then some w else none) := by
  cases wtd with
  | false => simp [readWeight]
  | true => simp [readWeight, LawfulKind.weight_decorate]

/-- one saved edge record through `add_edge` appends exactly the decorated entry -/
theorem loadEdge_fresh (c : Content κ) (e : κ × (Int × Meta))
    (hk : e.1 ∉ AL.keys c.edges) (hc : Kind.canon e.1 = e.1)
    (hm : ∀ n ∈ Kind.members e.1, n ∈ AL.keys c.nodes)
    (hw : c.weighted = false → e.2.1 = unit) :
    loadEdge c (recOf c.weighted e) = some { c with edges := c.edges ++ [decorated c.weighted e] } := by
  unfold loadEdge recOf
  simp only [LawfulKind.readKey_inter, readWeight_decorate]
  unfold addEdge
  have hrej : rejectsWeight c.weighted (if c.weighted = true then some e.2.1 else none) = false := by
    cases hwd : c.weighted <;> simp [rejectsWeight]
  simp only [hrej, hc, AL_get?_none_of_not_mem c.edges e.1 hk]
  simp only [addEdgeNew, touchAll_present c.nodes _ hm, metaOrEmpty, decorated]
  cases hwd : c.weighted with
  | false => simp [hw hwd]
  | true => simp [weightOrUnit]

theorem loadEdges_fresh (c : Content κ) (l : List (κ × (Int × Meta)))
    (hn : (AL.keys c.edges ++ AL.keys l).Nodup)
    (hc : ∀ e ∈ l, Kind.canon e.1 = e.1)
    (hm : ∀ e ∈ l, ∀ n ∈ Kind.members e.1, n ∈ AL.keys c.nodes)
    (hw : c.weighted = false → ∀ e ∈ l, e.2.1 = unit) :
    loadEdges c (l.map (recOf c.weighted)) = some { c with edges := c.edges ++ l.map (decorated c.weighted) } := by
  induction l generalizing c with
  | nil => simp [loadEdges]
  | cons e t ih =>
    have hk : e.1 ∉ AL.keys c.edges := by
      intro hin
      exact (List.nodup_append.mp hn).2.2 e.1 hin e.1 (by simp [AL.keys]) rfl
    have h1 := loadEdge_fresh c e hk (hc e (by simp)) (hm e (by simp)) (fun h => hw h e (by simp))
    simp only [List.map_cons, loadEdges, h1]
    have h2 := ih { c with edges := c.edges ++ [decorated c.weighted e] }
      (by
        simp only [AL_keys_append]
        have : AL.keys [decorated c.weighted e] = [e.1] := by simp [AL.keys, decorated]
        rw [this]
        simpa [AL.keys, List.append_assoc] using hn)
      (fun x hx => hc x (by simp [hx]))
      (fun x hx => hm x (by simp [hx]))
      (fun h x hx => hw h x (by simp [hx]))
    simp only at h2
    rw [h2]; simp

/-- `load (save c)` rebuilds `c` with every hyperedge's metadata decorated by the reserved keys -/
theorem load_save (c : Content κ) (h : WF c) :
    load (save c) = some { c with edges := c.edges.map (decorated c.weighted) } := by
  obtain ⟨hnn, hen, hcan, hclosed, hunit⟩ := h
  unfold load save
  simp only [lastHeader, lastHeader_nodes, lastHeader_edges, if_true]
  simp only [nodeRecs, nodeRecs_nodes, nodeRecs_edges, edgeRecs, edgeRecs_nodes, edgeRecs_edges, List.append_nil]
  have h1 := loadNodes_fresh (setHMeta (construct κ c.weighted) c.hmeta) c.nodes
    (by simpa [setHMeta, construct] using hnn)
  rw [h1]
  have h2 := loadEdges_fresh
    ({ setHMeta (construct κ c.weighted) c.hmeta with
        nodes := (setHMeta (construct κ c.weighted) c.hmeta).nodes ++ c.nodes } : Content κ) c.edges
    (by simpa [setHMeta, construct, AL.keys] using hen)
    hcan
    (by simpa [setHMeta, construct] using hclosed)
    (by simpa [setHMeta, construct] using hunit)
  simp only [setHMeta, construct, List.nil_append] at h2 ⊢
  rw [h2]

theorem erased_decorated (c : Content κ) :
    ({ c with edges := c.edges.map (decorated c.weighted) } : Content κ).erased = c.erased := by
  simp [Content.erased, decorated, LawfulKind.erase_decorate, Function.comp_def]

/-- the loaded content is again well-formed: `WF` speaks about keys, members and weights only, and
    `decorated` keeps those -/
theorem WF_decorated (c : Content κ) (h : WF c) :
    WF ({ c with edges := c.edges.map (decorated c.weighted) } : Content κ) := by
  obtain ⟨hn, he, hc, hm, hu⟩ := h
  refine ⟨hn, ?_, ?_, ?_, ?_⟩
  · simpa [keys_decorated] using he
  · intro e hmem
    obtain ⟨e0, h0, rfl⟩ := List.mem_map.mp hmem
    exact hc e0 h0
  · intro e hmem
    obtain ⟨e0, h0, rfl⟩ := List.mem_map.mp hmem
    exact hm e0 h0
  · intro hw e hmem
    obtain ⟨e0, h0, rfl⟩ := List.mem_map.mp hmem
    exact hu hw e0 h0

end rt


end C06
