import Hgxv.Proofs.C01Query
/-! C01 helper lemmas, part 8: what `remove_node` does to the abstract hypergraph, in declarative terms.

`Spec.removeNode` is written as the code runs (re-insert every incident hyperedge without the node, then remove
the incident hyperedges, then drop the node).  Here its *result* is characterised by lookups:
with `keep_edges=False` exactly the keys containing the node disappear; with `keep_edges=True` the key set becomes
`{ e \ {n} }`, a key's weight is its old weight plus the weights of the hyperedges that shrink onto it, its metadata
that of a hyperedge that shrinks onto it, every other entry is untouched.  Core Lean only. -/
namespace C01
open AL

/-- the hyperedge without the node (`[m for m in edge if m != n]`; canonical when `edge` is) -/
def sh (n : Node) (e : Edge) : Edge := e.filter (· ≠ n)

theorem not_mem_sh (n : Node) (e : Edge) : n ∉ sh n e := by simp [sh]

theorem sh_of_not_mem {n : Node} {e : Edge} (h : n ∉ e) : sh n e = e := by
  unfold sh
  apply List.filter_eq_self.mpr
  intro a ha
  simp only [ne_eq, decide_not, Bool.not_eq_eq_eq_not, Bool.not_true, decide_eq_false_iff_not]
  intro heq; exact h (heq ▸ ha)

theorem mem_of_mem_sh {n m : Node} {e : Edge} (h : m ∈ sh n e) : m ∈ e := (List.mem_filter.mp h).1

/-- sum of the weights of the listed hyperedges that shrink onto `x` -/
def wsum (a : Spec) (n : Node) (es : List Edge) (x : Edge) : Int :=
  ((es.filter (fun e => decide (sh n e = x))).map (Spec.weightOf a)).sum

theorem wsum_nil (a : Spec) (n : Node) (x : Edge) : wsum a n [] x = 0 := rfl

theorem wsum_cons (a : Spec) (n : Node) (e : Edge) (t : List Edge) (x : Edge) :
    wsum a n (e :: t) x = (if sh n e = x then Spec.weightOf a e else 0) + wsum a n t x := by
  unfold wsum
  by_cases h : sh n e = x <;> simp [h]

theorem wsum_congr (a b : Spec) (n : Node) (x : Edge) : ∀ (t : List Edge),
    (∀ e ∈ t, Spec.weightOf b e = Spec.weightOf a e) → wsum b n t x = wsum a n t x := by
  intro t
  induction t with
  | nil => intro _; rfl
  | cons e t ih =>
    intro h
    rw [wsum_cons, wsum_cons, h e List.mem_cons_self, ih (fun y hy => h y (List.mem_cons_of_mem _ hy))]

/-- what the abstract states of histories satisfy (see `abs_swf`) -/
structure SWF (a : Spec) : Prop where
  knd : (keys a.edges).Nodup
  key : ∀ e, (get? a.edges e).isSome → e.Nodup ∧ canon e = e ∧ ∀ m ∈ e, (get? a.nodes m).isSome
  unw : a.weighted = false → ∀ e w md, get? a.edges e = some (w, md) → w = one

theorem abs_swf {s : Store} (h : Inv s) : SWF (abs s) := by
  refine ⟨by rw [abs_keys]; exact h.el_nodup, ?_, ?_⟩
  · intro e he
    rw [abs_isSome] at he
    obtain ⟨id, hid⟩ := Option.isSome_iff_exists.mp he
    refine ⟨(h.key_canon e id hid).1, (h.key_canon e id hid).2, ?_⟩
    intro m hm
    show (get? s.nmeta m).isSome
    rw [h.node_agree]
    exact h.nodes_in id e (h.rev_of_edge _ _ hid) m hm
  · intro hw e w md hg
    rw [abs_get] at hg
    cases hid : get? s.edgeList e with
    | none => simp [hid] at hg
    | some id =>
      simp only [hid, Option.map_some, Option.some.injEq, wm, Prod.mk.injEq] at hg
      have h1 : (get? s.weights id).isSome := by rw [h.w_dom]; simp [h.rev_of_edge _ _ hid]
      obtain ⟨w', hwv⟩ := Option.isSome_iff_exists.mp h1
      have := h.unw_one hw id w' hwv
      rw [hwv] at hg
      simp at hg
      rw [← hg.1, this]

theorem foldl_touch_present (ns : List Node) (a : Spec) (h : ∀ m ∈ ns, (get? a.nodes m).isSome) :
    ns.foldl Spec.touchNode a = a := by
  induction ns generalizing a with
  | nil => rfl
  | cons m ns ih =>
    simp only [List.foldl_cons]
    have : Spec.touchNode a m = a := by
      unfold Spec.touchNode; simp [h m List.mem_cons_self]
    rw [this]; exact ih a (fun x hx => h x (List.mem_cons_of_mem _ hx))

theorem spec_weightOf_get (a : Spec) (e : Edge) (w : Int) (md : Meta) (h : get? a.edges e = some (w, md)) :
    Spec.weightOf a e = w ∧ Spec.emetaOf a e = md := by
  simp [Spec.weightOf, Spec.emetaOf, h]

theorem spec_weightOf_none (a : Spec) (e : Edge) (h : get? a.edges e = none) : Spec.weightOf a e = 0 := by
  simp [Spec.weightOf, h]

/-- `add_edge` of a canonical key whose nodes are nodes already, with a weight the hypergraph accepts: one map update -/
theorem spec_addEdge_char (a : Spec) (raw : List Nat) (w : Int) (md : Meta)
    (hacc : a.weighted = true ∨ w = one)
    (hu : a.weighted = false → ∀ e w md, get? a.edges e = some (w, md) → w = one)
    (hn : ∀ m ∈ raw, (get? a.nodes m).isSome) :
    ∃ v : Int × Meta, Spec.addEdge a raw (some w) (some md) = ({ a with edges := AL.set a.edges (canon raw) v }, .ok) ∧
      v.2 = md ∧ v.1 = (if a.weighted then Spec.weightOf a (canon raw) + w else one) := by
  have hrej : (!a.weighted && (some w).isSome && (some w != some one)) = false := by
    rcases hacc with h | h
    · simp [h]
    · subst h; simp
  unfold Spec.addEdge
  rw [if_neg (by rw [hrej]; simp)]
  cases hg : get? a.edges (canon raw) with
  | none =>
    simp only [hg]
    refine ⟨(if a.weighted then w else one, md), ?_, rfl, ?_⟩
    · rw [foldl_touch_present]
      · simp
      · intro m hm; exact hn m (mem_canon.mp hm)
    · rw [spec_weightOf_none a _ hg]; simp
  | some p =>
    obtain ⟨w0, md0⟩ := p
    simp only [hg]
    refine ⟨(if a.weighted then w0 + w else w0, md), by simp, rfl, ?_⟩
    rw [(spec_weightOf_get a _ w0 md0 hg).1]
    cases hwt : a.weighted with
    | true => simp
    | false => simp [hu hwt _ w0 md0 hg]

/-- one pass of the `keep_edges=True` loop -/
theorem spec_shrink_step (n : Node) (b : Spec) (e : Edge) (hb : SWF b) (he : (get? b.edges e).isSome) :
    ∃ v : Int × Meta, Spec.shrinkInto n b e = ({ b with edges := AL.set b.edges (sh n e) v }, .ok) ∧
      v.2 = Spec.emetaOf b e ∧
      v.1 = (if b.weighted then Spec.weightOf b (sh n e) + Spec.weightOf b e else one) := by
  obtain ⟨hnd, hc, hnodes⟩ := hb.key e he
  have hcs : canon (sh n e) = sh n e := canon_filter_of_canon hc _
  have hacc : b.weighted = true ∨ Spec.weightOf b e = one := by
    cases hwt : b.weighted with
    | true => exact Or.inl rfl
    | false =>
      right
      obtain ⟨p, hp⟩ := Option.isSome_iff_exists.mp he
      obtain ⟨w0, md0⟩ := p
      rw [(spec_weightOf_get b e w0 md0 hp).1]
      exact hb.unw hwt e w0 md0 hp
  obtain ⟨v, h1, h2, h3⟩ := spec_addEdge_char b (sh n e) (Spec.weightOf b e) (Spec.emetaOf b e) hacc hb.unw
    (fun m hm => hnodes m (mem_of_mem_sh hm))
  refine ⟨v, ?_, h2, ?_⟩
  · unfold Spec.shrinkInto
    show Spec.addEdge b (sh n e) _ _ = _
    rw [h1, hcs]
  · rw [h3, hcs]

theorem swf_set (b : Spec) (k : Edge) (v : Int × Meta) (hb : SWF b)
    (hk : k.Nodup ∧ canon k = k ∧ ∀ m ∈ k, (get? b.nodes m).isSome) (hv : b.weighted = false → v.1 = one) :
    SWF { b with edges := AL.set b.edges k v } := by
  refine ⟨keys_set_nodup _ _ _ hb.knd, ?_, ?_⟩
  · intro x hx
    simp only [get?_set] at hx
    by_cases hkx : k = x
    · subst hkx; exact hk
    · simp only [hkx, if_false] at hx; exact hb.key x hx
  · intro hw x w md hg
    simp only [get?_set] at hg
    by_cases hkx : k = x
    · simp only [hkx, if_true, Option.some.injEq] at hg
      have := hv hw
      rw [hg] at this; exact this
    · simp only [hkx, if_false] at hg; exact hb.unw hw x w md hg

/-- the state after the `keep_edges=True` loop over the hyperedges `es` (all containing `n`), seen from the state `b`
before it -/
structure ShrinkRes (n : Node) (b r : Spec) (es : List Edge) : Prop where
  nodes : r.nodes = b.nodes
  weighted : r.weighted = b.weighted
  hmeta : r.hmeta = b.hmeta
  swf : SWF r
  same_n : ∀ x, n ∈ x → get? r.edges x = get? b.edges x
  present : ∀ x, n ∉ x → ((get? r.edges x).isSome ↔ ((get? b.edges x).isSome ∨ ∃ e ∈ es, sh n e = x))
  weight : b.weighted = true → ∀ x, n ∉ x → Spec.weightOf r x = Spec.weightOf b x + wsum b n es x
  untouched : ∀ x, n ∉ x → (∀ e ∈ es, sh n e ≠ x) → get? r.edges x = get? b.edges x
  md : ∀ x, n ∉ x → (∃ e ∈ es, sh n e = x) → ∃ e ∈ es, sh n e = x ∧ Spec.emetaOf r x = Spec.emetaOf b e

theorem spec_weightOf_congr (a b : Spec) (x y : Edge) (h : get? a.edges x = get? b.edges y) :
    Spec.weightOf a x = Spec.weightOf b y ∧ Spec.emetaOf a x = Spec.emetaOf b y := by
  simp [Spec.weightOf, Spec.emetaOf, h]

theorem shrinkLoop (n : Node) : ∀ (es : List Edge) (b : Spec), SWF b →
    (∀ e ∈ es, n ∈ e ∧ (get? b.edges e).isSome) →
    (seqOps (Spec.shrinkInto n) b es).2 = .ok ∧ ShrinkRes n b (seqOps (Spec.shrinkInto n) b es).1 es := by
  intro es
  induction es with
  | nil =>
    intro b hb _
    refine ⟨rfl, rfl, rfl, rfl, hb, fun _ _ => rfl, ?_, ?_, fun _ _ _ => rfl, ?_⟩
    · intro x _; simp [seqOps]
    · intro _ x _; simp [seqOps, wsum_nil]
    · intro x _ h; obtain ⟨e, he, _⟩ := h; cases he
  | cons e t ih =>
    intro b hb hes
    obtain ⟨hne, hpe⟩ := hes e List.mem_cons_self
    obtain ⟨v, hstep, hv2, hv1⟩ := spec_shrink_step n b e hb hpe
    obtain ⟨hnd, hc, hnodes⟩ := hb.key e hpe
    -- the state after this pass
    have hb1 : SWF { b with edges := AL.set b.edges (sh n e) v } := by
      apply swf_set b (sh n e) v hb
      · exact ⟨(List.filter_sublist).nodup hnd, canon_filter_of_canon hc _, fun m hm => hnodes m (mem_of_mem_sh hm)⟩
      · intro hw; rw [hv1]; simp [hw]
    have hlook : ∀ x, get? (AL.set b.edges (sh n e) v) x = if sh n e = x then some v else get? b.edges x :=
      fun x => get?_set _ _ _ _
    have hlook_n : ∀ x, n ∈ x → get? (AL.set b.edges (sh n e) v) x = get? b.edges x := by
      intro x hx
      rw [hlook]
      have : sh n e ≠ x := by intro heq; exact not_mem_sh n e (heq ▸ hx)
      simp [this]
    have ht : ∀ e' ∈ t, n ∈ e' ∧ (get? ({ b with edges := AL.set b.edges (sh n e) v } : Spec).edges e').isSome := by
      intro e' he'
      obtain ⟨h1, h2⟩ := hes e' (List.mem_cons_of_mem _ he')
      exact ⟨h1, by show (get? (AL.set b.edges (sh n e) v) e').isSome = true; rw [hlook_n e' h1]; exact h2⟩
    obtain ⟨hok, hr⟩ := ih _ hb1 ht
    have hseq : seqOps (Spec.shrinkInto n) b (e :: t) =
        seqOps (Spec.shrinkInto n) { b with edges := AL.set b.edges (sh n e) v } t := by
      simp only [seqOps, hstep]
    rw [hseq]
    refine ⟨hok, ?_⟩
    generalize seqOps (Spec.shrinkInto n) { b with edges := AL.set b.edges (sh n e) v } t = res at hr
    obtain ⟨r, o⟩ := res
    simp only at hr ⊢
    have hw1 : ∀ e' ∈ t, Spec.weightOf ({ b with edges := AL.set b.edges (sh n e) v } : Spec) e' = Spec.weightOf b e' := by
      intro e' he'
      exact (spec_weightOf_congr _ b e' e' (hlook_n e' (hes e' (List.mem_cons_of_mem _ he')).1)).1
    refine ⟨hr.nodes, hr.weighted, hr.hmeta, hr.swf, ?_, ?_, ?_, ?_, ?_⟩
    · intro x hx; rw [hr.same_n x hx]; exact hlook_n x hx
    · intro x hx
      rw [hr.present x hx]
      show ((get? (AL.set b.edges (sh n e) v) x).isSome ∨ _) ↔ _
      rw [hlook]
      by_cases hx' : sh n e = x
      · simp only [hx', if_true, Option.isSome_some, true_or, true_iff]
        exact Or.inr ⟨e, List.mem_cons_self, hx'⟩
      · simp only [hx', if_false]
        constructor
        · rintro (h | ⟨e', he', h⟩)
          · exact Or.inl h
          · exact Or.inr ⟨e', List.mem_cons_of_mem _ he', h⟩
        · rintro (h | ⟨e', he', h⟩)
          · exact Or.inl h
          · rcases List.mem_cons.mp he' with h1 | h1
            · subst h1; exact absurd h hx'
            · exact Or.inr ⟨e', h1, h⟩
    · intro hw x hx
      have hw' : ({ b with edges := AL.set b.edges (sh n e) v } : Spec).weighted = true := hw
      rw [hr.weight hw' x hx, wsum_cons, wsum_congr b _ n x t hw1]
      by_cases hx' : sh n e = x
      · have : Spec.weightOf ({ b with edges := AL.set b.edges (sh n e) v } : Spec) x = v.1 := by
          have : get? ({ b with edges := AL.set b.edges (sh n e) v } : Spec).edges x = some (v.1, v.2) := by
            show get? (AL.set b.edges (sh n e) v) x = _
            rw [hlook]; simp [hx']
          exact (spec_weightOf_get _ x v.1 v.2 this).1
        rw [this, hv1, hw, hx']
        simp only [if_true]
        omega
      · have : Spec.weightOf ({ b with edges := AL.set b.edges (sh n e) v } : Spec) x = Spec.weightOf b x := by
          apply (spec_weightOf_congr _ b x x _).1
          show get? (AL.set b.edges (sh n e) v) x = _
          rw [hlook]; simp [hx']
        rw [this]; simp only [hx', if_false]; omega
    · intro x hx hno
      have h1 : ∀ e' ∈ t, sh n e' ≠ x := fun e' he' => hno e' (List.mem_cons_of_mem _ he')
      rw [hr.untouched x hx h1]
      show get? (AL.set b.edges (sh n e) v) x = _
      rw [hlook]; simp [hno e List.mem_cons_self]
    · intro x hx hex
      by_cases hin : ∃ e' ∈ t, sh n e' = x
      · obtain ⟨e', he', h1, h2⟩ := hr.md x hx hin
        refine ⟨e', List.mem_cons_of_mem _ he', h1, ?_⟩
        rw [h2]
        exact (spec_weightOf_congr _ b e' e' (hlook_n e' (hes e' (List.mem_cons_of_mem _ he')).1)).2
      · have h1 : ∀ e' ∈ t, sh n e' ≠ x := fun e' he' heq => hin ⟨e', he', heq⟩
        obtain ⟨e0, he0, hx0⟩ := hex
        have hx' : sh n e = x := by
          rcases List.mem_cons.mp he0 with h | h
          · subst h; exact hx0
          · exact absurd hx0 (h1 e0 h)
        refine ⟨e, List.mem_cons_self, hx', ?_⟩
        have : get? r.edges x = some (v.1, v.2) := by
          rw [hr.untouched x hx h1]
          show get? (AL.set b.edges (sh n e) v) x = _
          rw [hlook]; simp [hx']
        rw [(spec_weightOf_get r x v.1 v.2 this).2, hv2]

/-- `remove_edges` of distinct present canonical keys: exactly those entries disappear -/
theorem spec_removeLoop : ∀ (es : List Edge) (r : Spec),
    (∀ e ∈ es, canon e = e ∧ (get? r.edges e).isSome) → es.Nodup →
    (seqOps Spec.removeEdge r es).2 = .ok ∧
    (seqOps Spec.removeEdge r es).1.nodes = r.nodes ∧ (seqOps Spec.removeEdge r es).1.weighted = r.weighted ∧
    (seqOps Spec.removeEdge r es).1.hmeta = r.hmeta ∧
    ∀ x, get? (seqOps Spec.removeEdge r es).1.edges x = if x ∈ es then none else get? r.edges x := by
  intro es
  induction es with
  | nil => intro r _ _; simp [seqOps]
  | cons e t ih =>
    intro r hes hnd
    obtain ⟨hc, hp⟩ := hes e List.mem_cons_self
    obtain ⟨hnot, hndt⟩ := List.nodup_cons.mp hnd
    have hstep : Spec.removeEdge r e = ({ r with edges := del r.edges e }, .ok) := by
      unfold Spec.removeEdge; rw [hc, if_pos hp]
    have ht : ∀ e' ∈ t, canon e' = e' ∧ (get? ({ r with edges := del r.edges e } : Spec).edges e').isSome := by
      intro e' he'
      obtain ⟨h1, h2⟩ := hes e' (List.mem_cons_of_mem _ he')
      refine ⟨h1, ?_⟩
      show (get? (del r.edges e) e').isSome = true
      rw [get?_del]
      have : e ≠ e' := by intro heq; subst heq; exact hnot he'
      simp [this, h2]
    obtain ⟨h1, h2, h3, h4, h5⟩ := ih _ ht hndt
    have hseq : seqOps Spec.removeEdge r (e :: t) = seqOps Spec.removeEdge { r with edges := del r.edges e } t := by
      simp only [seqOps, hstep]
    rw [hseq]
    refine ⟨h1, h2, h3, h4, ?_⟩
    intro x
    rw [h5 x]
    show (if x ∈ t then none else get? (del r.edges e) x) = _
    rw [get?_del]
    by_cases hx : x = e
    · subst hx; simp
    · have : e ≠ x := fun h => hx h.symm
      simp [List.mem_cons, hx, this]

theorem map_canon_id : ∀ (l : List Edge), (∀ x ∈ l, canon x = x) → l.map canon = l := by
  intro l; induction l with
  | nil => intro _; rfl
  | cons a t ih =>
    intro hl
    simp only [List.map_cons]
    rw [hl a List.mem_cons_self, ih (fun x hx => hl x (List.mem_cons_of_mem _ hx))]

theorem spec_removeEdges_char (r : Spec) (es : List Edge)
    (hes : ∀ e ∈ es, canon e = e ∧ (get? r.edges e).isSome) (hnd : es.Nodup) :
    ∃ r2, Spec.removeEdges r es = (r2, .ok) ∧ r2.nodes = r.nodes ∧ r2.weighted = r.weighted ∧ r2.hmeta = r.hmeta ∧
      ∀ x, get? r2.edges x = if x ∈ es then none else get? r.edges x := by
  obtain ⟨h1, h2, h3, h4, h5⟩ := spec_removeLoop es r hes hnd
  refine ⟨(seqOps Spec.removeEdge r es).1, ?_, h2, h3, h4, h5⟩
  unfold Spec.removeEdges
  have hvalid : (es.all (fun r' => (get? r.edges (canon r')).isSome) && decide (es.map canon).Nodup) = true := by
    simp only [Bool.and_eq_true, List.all_eq_true, decide_eq_true_eq]
    refine ⟨fun x hx => by rw [(hes x hx).1]; exact (hes x hx).2, ?_⟩
    rw [map_canon_id es (fun x hx => (hes x hx).1)]; exact hnd
  rw [if_pos hvalid]
  generalize seqOps Spec.removeEdge r es = res at h1
  obtain ⟨a, b⟩ := res
  simp at h1; subst h1; rfl

theorem mem_spec_incidentKeys (a : Spec) (n : Node) (e : Edge) :
    e ∈ Spec.incidentKeys a n ↔ ((get? a.edges e).isSome ∧ n ∈ e) := by
  unfold Spec.incidentKeys
  rw [List.mem_filter, mem_keys_iff]
  simp

/-- **`remove_node(n)` (hyperedges dropped)**: the node leaves the node list, exactly the keys containing it leave the map -/
theorem spec_removeNode_drop (a : Spec) (ha : SWF a) (n : Node) (hn : (get? a.nodes n).isSome) :
    ∃ a', Spec.removeNode a n false = (a', .ok) ∧ a'.nodes = del a.nodes n ∧ a'.weighted = a.weighted ∧
      a'.hmeta = a.hmeta ∧ ∀ x, get? a'.edges x = if n ∈ x then none else get? a.edges x := by
  have hes : ∀ e ∈ Spec.incidentKeys a n, canon e = e ∧ (get? a.edges e).isSome := by
    intro e he
    have := (mem_spec_incidentKeys a n e).mp he
    exact ⟨(ha.key e this.1).2.1, this.1⟩
  have hnd : (Spec.incidentKeys a n).Nodup := (List.filter_sublist).nodup ha.knd
  obtain ⟨r2, h1, h2, h3, h4, h5⟩ := spec_removeEdges_char a _ hes hnd
  refine ⟨{ r2 with nodes := del r2.nodes n }, ?_, by simp [h2], h3, h4, ?_⟩
  · unfold Spec.removeNode
    simp only [hn, Bool.not_true, Bool.false_eq_true, if_false]
    rw [h1]
  · intro x
    show get? r2.edges x = _
    rw [h5 x]
    by_cases hm : x ∈ Spec.incidentKeys a n
    · have := (mem_spec_incidentKeys a n x).mp hm
      simp [hm, this.2]
    · by_cases hx : n ∈ x
      · have hp : ¬ (get? a.edges x).isSome := fun hp => hm ((mem_spec_incidentKeys a n x).mpr ⟨hp, hx⟩)
        simp only [hm, hx, if_false, if_true]
        simpa using hp
      · simp [hm, hx]

/-- **`remove_node(n, keep_edges=True)` (hyperedges shrunk)** -/
theorem spec_removeNode_keep (a : Spec) (ha : SWF a) (n : Node) (hn : (get? a.nodes n).isSome) :
    ∃ a', Spec.removeNode a n true = (a', .ok) ∧ a'.nodes = del a.nodes n ∧ a'.weighted = a.weighted ∧
      a'.hmeta = a.hmeta ∧ SWF a' ∧
      (∀ x, (get? a'.edges x).isSome ↔ ∃ e, (get? a.edges e).isSome ∧ sh n e = x) ∧
      (a.weighted = true → ∀ x, n ∉ x →
        Spec.weightOf a' x = Spec.weightOf a x + wsum a n (Spec.incidentKeys a n) x) ∧
      (∀ x, n ∉ x → (∀ e, (get? a.edges e).isSome → n ∈ e → sh n e ≠ x) → get? a'.edges x = get? a.edges x) ∧
      (∀ x, (∃ e, (get? a.edges e).isSome ∧ n ∈ e ∧ sh n e = x) →
        ∃ e, (get? a.edges e).isSome ∧ n ∈ e ∧ sh n e = x ∧ Spec.emetaOf a' x = Spec.emetaOf a e) := by
  have hinc := mem_spec_incidentKeys a n
  have hes0 : ∀ e ∈ Spec.incidentKeys a n, n ∈ e ∧ (get? a.edges e).isSome :=
    fun e he => ⟨((hinc e).mp he).2, ((hinc e).mp he).1⟩
  obtain ⟨hok, hr⟩ := shrinkLoop n _ a ha hes0
  generalize hres : seqOps (Spec.shrinkInto n) a (Spec.incidentKeys a n) = res at hok hr
  obtain ⟨r1, o⟩ := res
  simp only at hok hr; subst hok
  have hes : ∀ e ∈ Spec.incidentKeys a n, canon e = e ∧ (get? r1.edges e).isSome := by
    intro e he
    obtain ⟨h1, h2⟩ := hes0 e he
    exact ⟨(ha.key e h2).2.1, by rw [hr.same_n e h1]; exact h2⟩
  have hnd : (Spec.incidentKeys a n).Nodup := (List.filter_sublist).nodup ha.knd
  obtain ⟨r2, h1, h2, h3, h4, h5⟩ := spec_removeEdges_char r1 _ hes hnd
  -- lookups of the final map
  have hfin_n : ∀ x, n ∈ x → get? r2.edges x = none := by
    intro x hx
    rw [h5 x]
    by_cases hm : x ∈ Spec.incidentKeys a n
    · simp [hm]
    · have hp : ¬ (get? a.edges x).isSome := fun hp => hm ((hinc x).mpr ⟨hp, hx⟩)
      simp only [hm, if_false]
      rw [hr.same_n x hx]
      simpa using hp
  have hfin : ∀ x, n ∉ x → get? r2.edges x = get? r1.edges x := by
    intro x hx
    have hm : x ∉ Spec.incidentKeys a n := fun hm => hx ((hinc x).mp hm).2
    rw [h5 x]; simp [hm]
  have hswf : SWF { r2 with nodes := del r2.nodes n } := by
    refine ⟨?_, ?_, ?_⟩
    · -- keys of r2 are a sublist-like subset: use lookups through nodup of r1 and the characterisation of removeEdges
      have : (keys r2.edges).Nodup := by
        have hsub : ∀ (es : List Edge) (r : Spec), (keys r.edges).Nodup →
            (keys (seqOps Spec.removeEdge r es).1.edges).Nodup := by
          intro es
          induction es with
          | nil => intro r h; exact h
          | cons e t ih =>
            intro r h
            by_cases hc : (get? r.edges (canon e)).isSome
            · have hst : Spec.removeEdge r e = ({ r with edges := del r.edges (canon e) }, .ok) := by
                unfold Spec.removeEdge; rw [if_pos hc]
              simp only [seqOps, hst]
              apply ih
              show (keys (del r.edges (canon e))).Nodup
              rw [keys_del]; exact (List.filter_sublist).nodup h
            · have hst : Spec.removeEdge r e = (r, .rej) := by
                unfold Spec.removeEdge; rw [if_neg hc]
              simp only [seqOps, hst]; exact h
        have hre : r2 = (seqOps Spec.removeEdge r1 (Spec.incidentKeys a n)).1 := by
          have := h1
          unfold Spec.removeEdges at this
          split at this
          · rw [Prod.ext_iff] at this; exact this.1.symm ▸ rfl
          · simp at this
        rw [hre]; exact hsub _ r1 hr.swf.knd
      exact this
    · intro x hx
      show _ ∧ _ ∧ ∀ m ∈ x, (get? (del r2.nodes n) m).isSome
      have hx' : (get? r2.edges x).isSome := hx
      have hnx : n ∉ x := by
        intro hin; rw [hfin_n x hin] at hx'; simp at hx'
      rw [hfin x hnx] at hx'
      obtain ⟨k1, k2, k3⟩ := hr.swf.key x hx'
      refine ⟨k1, k2, ?_⟩
      intro m hm
      rw [get?_del, h2]
      have : n ≠ m := by intro heq; subst heq; exact hnx hm
      simp only [this, if_false]
      exact k3 m hm
    · intro hw x w md hg
      have hg' : get? r2.edges x = some (w, md) := hg
      have hnx : n ∉ x := by
        intro hin; rw [hfin_n x hin] at hg'; simp at hg'
      rw [hfin x hnx] at hg'
      exact hr.swf.unw (by rw [← h3]; exact hw) x w md hg'
  refine ⟨{ r2 with nodes := del r2.nodes n }, ?_, by simp [h2, hr.nodes], by simp [h3, hr.weighted],
    by simp [h4, hr.hmeta], hswf, ?_, ?_, ?_, ?_⟩
  · unfold Spec.removeNode
    simp only [hn, Bool.not_true, Bool.false_eq_true, if_false, if_true]
    rw [hres]; simp only []
    rw [h1]
  · intro x
    show (get? r2.edges x).isSome ↔ _
    by_cases hx : n ∈ x
    · rw [hfin_n x hx]
      simp only [Option.isSome_none, Bool.false_eq_true, false_iff]
      rintro ⟨e, _, he⟩
      exact not_mem_sh n e (he ▸ hx)
    · rw [hfin x hx, hr.present x hx]
      constructor
      · rintro (h | ⟨e, he, h⟩)
        · exact ⟨x, h, sh_of_not_mem hx⟩
        · exact ⟨e, ((hinc e).mp he).1, h⟩
      · rintro ⟨e, he, h⟩
        by_cases hne : n ∈ e
        · exact Or.inr ⟨e, (hinc e).mpr ⟨he, hne⟩, h⟩
        · rw [sh_of_not_mem hne] at h; subst h; exact Or.inl he
  · intro hw x hx
    have := hr.weight hw x hx
    rw [← this]
    exact (spec_weightOf_congr _ r1 x x (hfin x hx)).1
  · intro x hx hno
    show get? r2.edges x = _
    rw [hfin x hx]
    exact hr.untouched x hx (fun e he => hno e ((hinc e).mp he).1 ((hinc e).mp he).2)
  · rintro x ⟨e, he, hne, hex⟩
    have hx : n ∉ x := by rw [← hex]; exact not_mem_sh n e
    obtain ⟨e', he', h1', h2'⟩ := hr.md x hx ⟨e, (hinc e).mpr ⟨he, hne⟩, hex⟩
    refine ⟨e', ((hinc e').mp he').1, ((hinc e').mp he').2, h1', ?_⟩
    rw [← h2']
    exact (spec_weightOf_congr _ r1 x x (hfin x hx)).2

end C01
