import Hgxv.Proofs.C08Visit
import Hgxv.Proofs.C08Nbrs
/-! # C08 - the filter is a restriction of the hypergraph; filtered classes refine the unfiltered ones; sizes of the
components add up to the number of nodes; cross-consistency of the connectivity functions (core Lean) -/
namespace C08

/-- the hyperedges that pass the filter: the sub-hypergraph every filtered function speaks about -/
def restrict (es : List Edge) (f : Filt) : List Edge := es.filter (fun e => passes f e.length)

theorem incident_restrict (es : List Edge) (f : Filt) (n : Nat) :
    incident es n f = incident (restrict es f) n .none := by
  simp only [incident, incidentG, restrict, List.filter_filter, id, passes, Bool.and_true]

theorem neighbors_restrict (es : List Edge) (f : Filt) : neighbors es f = neighbors (restrict es f) .none := by
  funext n
  simp only [neighbors, incident_restrict es f n]

theorem deg_restrict (es : List Edge) (f : Filt) (n : Nat) : deg es n f = deg (restrict es f) n .none := by
  have := incident_restrict es f n
  simp only [deg, degG, incident] at this ⊢
  rw [this]

theorem bfsH_restrict (es : List Edge) (f : Filt) : bfsH es f = bfsH (restrict es f) .none := by
  funext s
  unfold bfsH
  have : ∀ (nb : Nat → List Nat) (hnb : ∀ x, x ∉ es.flatten → nb x = []) (e : nb = neighbors (restrict es f) .none),
      bfs es.flatten nb hnb [s] [] = bfs (restrict es f).flatten (neighbors (restrict es f) .none)
        (neighbors_nil_of_not_mem _ _) [s] [] := by
    intro nb hnb e
    subst e
    exact bfs_indep _ _ _ _ _ _ _
  exact this _ _ (neighbors_restrict es f)

theorem visitH_restrict (es : List Edge) (f : Filt) (md : Option Int) (dfs : Bool) :
    visitH es f md dfs = visitH (restrict es f) .none md dfs := by
  funext s
  unfold visitH
  have : ∀ (nb : Nat → List Nat) (hnb : ∀ x, x ∉ es.flatten → nb x = []) (e : nb = neighbors (restrict es f) .none),
      search es.flatten nb hnb md dfs [(s, 0)] [] = search (restrict es f).flatten (neighbors (restrict es f) .none)
        (neighbors_nil_of_not_mem _ _) md dfs [(s, 0)] [] := by
    intro nb hnb e
    subst e
    exact search_indep _ _ _ _ _ _ _ _ _
  exact this _ _ (neighbors_restrict es f)

theorem components_restrict (nodes : List Nat) (es : List Edge) (f : Filt) :
    components nodes es f = components nodes (restrict es f) .none := by
  unfold components; rw [bfsH_restrict]

theorem degreeSeq_restrict (nodes : List Nat) (es : List Edge) (f : Filt) :
    degreeSeq nodes es f = degreeSeq nodes (restrict es f) .none := by
  simp only [degreeSeq, degreeSeqG]
  apply List.map_congr_left
  intro n _
  have := deg_restrict es f n
  simp only [deg] at this
  rw [degG_toOrder, this]; rfl

theorem restrict_toOrder (es : List Edge) (f : Filt) : restrict es (toOrder f) = restrict es f := by
  simp only [restrict, passes_toOrder]

theorem degreeDist_restrict (nodes : List Nat) (es : List Edge) (f : Filt) :
    degreeDist nodes es f = degreeDist nodes (restrict es f) .none := by
  have := degreeSeq_restrict nodes es (toOrder f)
  simp only [degreeSeq] at this
  simp only [degreeDist, degreeDistG, this, restrict_toOrder]; rfl

theorem restrict_size_order (es : List Edge) (s : Int) : restrict es (.size s) = restrict es (.order (s - 1)) := rfl

theorem mem_restrict (es : List Edge) (f : Filt) (e : Edge) : e ∈ restrict es f ↔ e ∈ es ∧ passes f e.length = true := by
  simp [restrict]

/-! ## refinement -/

theorem Adj.unfilter {es : List Edge} {f : Filt} {u v : Nat} (h : Adj es f u v) : Adj es .none u v := by
  obtain ⟨e, he, _, hu, hv⟩ := h
  exact ⟨e, he, rfl, hu, hv⟩

theorem Reach.unfilter {es : List Edge} {f : Filt} {u v : Nat} (h : Reach es f u v) : Reach es .none u v := by
  induction h with
  | refl => exact Reach.refl _
  | step _ ha ih => exact Reach.step ih ha.unfilter

/-- `Reach` is the least reflexive transitive relation containing `Adj` -/
theorem Reach.least {es : List Edge} {f : Filt} (R : Nat → Nat → Prop) (hrefl : ∀ a, R a a)
    (htrans : ∀ a b c, R a b → R b c → R a c) (hadj : ∀ a b, Adj es f a b → R a b) {u v : Nat} (h : Reach es f u v) :
    R u v := by
  induction h with
  | refl => exact hrefl _
  | step _ ha ih => exact htrans _ _ _ ih (hadj _ _ ha)

/-- a finer filter can only split components: at least as many of them -/
theorem numComponents_le (nodes : List Nat) (es : List Edge) (f : Filt) :
    numComponents nodes es .none ≤ numComponents nodes es f := by
  obtain ⟨a1, a2, _⟩ := components_spec nodes es .none
  obtain ⟨_, _, b3⟩ := components_spec nodes es f
  apply length_le_of_rel (fun (a b : List Nat) => b ∈ components nodes es f ∧ b ≠ [] ∧ ∀ x ∈ b, x ∈ a)
  · apply a2.imp
    intro a a' hd b hab ha'b
    obtain ⟨x, hx⟩ := List.exists_mem_of_ne_nil _ hab.2.1
    exact hd x (hab.2.2 x hx) (ha'b.2.2 x hx)
  · intro a ha
    obtain ⟨r, hr, rfl⟩ := a1 a ha
    obtain ⟨b, hb, hrb⟩ := b3 r hr
    refine ⟨b, hb, hb, List.ne_nil_of_mem hrb, ?_⟩
    intro x hx
    exact (mem_bfsH es .none r x).mpr ((components_class nodes es f b hb r hrb x).mp hx).unfilter

/-! ## the sizes of the components add up -/

theorem components_flatten_perm (nodes : List Nat) (es : List Edge) (f : Filt) (hn : nodes.Nodup) (hwf : WF nodes es) :
    (components nodes es f).flatten.Perm nodes := by
  obtain ⟨h1, h2, h3⟩ := components_spec nodes es f
  apply (List.perm_ext_iff_of_nodup _ hn).mpr
  · intro x
    rw [List.mem_flatten]
    constructor
    · rintro ⟨c, hc, hx⟩
      obtain ⟨r, hr, rfl⟩ := h1 c hc
      exact ((mem_bfsH es f r x).mp hx).mem_nodes hwf hr
    · intro hx
      obtain ⟨c, hc, hxc⟩ := h3 x hx
      exact ⟨c, hc, hxc⟩
  · unfold List.Nodup
    rw [List.pairwise_flatten]
    refine ⟨?_, h2.imp (fun hd => ?_)⟩
    · intro c hc
      obtain ⟨r, _, rfl⟩ := h1 c hc
      exact bfsH_nodup es f r
    · intro x hxa y hyb hxy
      exact hd x hxa (hxy ▸ hyb)

theorem components_sum_length (nodes : List Nat) (es : List Edge) (f : Filt) (hn : nodes.Nodup) (hwf : WF nodes es) :
    ((components nodes es f).map List.length).sum = nodes.length := by
  rw [← List.length_flatten]
  exact (components_flatten_perm nodes es f hn hwf).length_eq

theorem components_nonempty (nodes : List Nat) (es : List Edge) (f : Filt) :
    ∀ c ∈ components nodes es f, 0 < c.length := by
  intro c hc
  obtain ⟨r, _, rfl⟩ := (components_spec nodes es f).1 c hc
  exact List.length_pos_of_mem ((mem_bfsH es f r r).mpr (Reach.refl r))

theorem length_le_sum_of_mem (l : List (List Nat)) (c : List Nat) (hc : c ∈ l) :
    c.length ≤ (l.map List.length).sum := by
  induction l with
  | nil => cases hc
  | cons a t ih =>
    simp only [List.map_cons, List.sum_cons]
    rcases List.mem_cons.mp hc with rfl | hc
    · omega
    · have := ih hc; omega

/-- in a list of non-empty lists, one member as long as all together is the only member -/
theorem eq_singleton_of_sum (l : List (List Nat)) (hpos : ∀ c ∈ l, 0 < c.length) (c : List Nat) (hc : c ∈ l)
    (hsum : (l.map List.length).sum = c.length) : l = [c] := by
  match l, hpos, hc, hsum with
  | [a], _, hc, _ => simp only [List.mem_singleton] at hc; rw [hc]
  | a :: b :: t, hpos, hc, hsum =>
    exfalso
    have ha := hpos a List.mem_cons_self
    have hb := hpos b (by simp)
    simp only [List.map_cons, List.sum_cons] at hsum
    rcases List.mem_cons.mp hc with rfl | hc
    · omega
    · rcases List.mem_cons.mp hc with rfl | hc
      · omega
      · have : c.length ≤ (t.map List.length).sum := length_le_sum_of_mem t c hc
        omega

theorem eq_singleton_of_mem_iff (c : List Nat) (n : Nat) (hnd : c.Nodup) (hmem : ∀ v, v ∈ c ↔ v = n) : c = [n] := by
  match c, hmem, hnd with
  | [], hmem, _ => exact absurd ((hmem n).mpr rfl) (by simp)
  | [a], hmem, _ => rw [(hmem a).mp List.mem_cons_self]
  | a :: b :: t, hmem, hnd =>
    have ha := (hmem a).mp List.mem_cons_self
    have hb := (hmem b).mp (by simp)
    rw [ha, hb] at hnd
    exact absurd List.mem_cons_self (List.nodup_cons.mp hnd).1

/-- connected iff the largest component has all the nodes -/
theorem isConnected_iff_largest (nodes : List Nat) (es : List Edge) (f : Filt) (hn : nodes.Nodup) (hwf : WF nodes es) :
    isConnected nodes es f = true ↔ largestComponentSize nodes es f = some nodes.length := by
  have hsum := components_sum_length nodes es f hn hwf
  have hpos := components_nonempty nodes es f
  simp only [isConnected, beq_iff_eq, largestComponentSize, largestComponent]
  constructor
  · intro hlen
    match hcs : components nodes es f, hlen with
    | [c], _ =>
      rw [hcs] at hsum
      simp only [List.map_cons, List.map_nil, List.sum_cons, List.sum_nil, Nat.add_zero] at hsum
      simp [maxByLen, hsum]
  · intro hl
    by_cases hne : components nodes es f = []
    · rw [hne] at hl; simp [maxByLen] at hl
    · obtain ⟨c, hmax, hc, _⟩ := maxByLen_spec _ hne
      rw [hmax] at hl
      simp only [Option.map_some, Option.some.injEq] at hl
      have := eq_singleton_of_sum _ hpos c hc (by rw [hsum, hl])
      rw [this]; rfl

/-- any partition of the nodes into reachability classes is the one `connected_components` returns -/
theorem components_unique (nodes : List Nat) (es : List Edge) (f : Filt) (P : List (List Nat))
    (hcls : ∀ p ∈ P, p ≠ [] ∧ ∀ u ∈ p, u ∈ nodes ∧ ∀ v, v ∈ p ↔ Reach es f u v)
    (hcov : ∀ n ∈ nodes, ∃ p ∈ P, n ∈ p) (hdis : P.Pairwise Disj) :
    P.length = (components nodes es f).length ∧ ∀ p ∈ P, ∃ c ∈ components nodes es f, ∀ v, v ∈ p ↔ v ∈ c := by
  obtain ⟨h1, h2, h3⟩ := components_spec nodes es f
  refine ⟨Nat.le_antisymm ?_ ?_, ?_⟩
  · apply length_le_of_rel (fun (p c : List Nat) => p ∈ P ∧ c ∈ components nodes es f ∧ ∃ x, x ∈ p ∧ x ∈ c)
    · apply hdis.imp
      intro p p' hd c hpc hp'c
      obtain ⟨hp, hc, x, hxp, hxc⟩ := hpc
      obtain ⟨_, _, y, hyp', hyc⟩ := hp'c
      have hxy : Reach es f x y := (components_class nodes es f c hc x hxc y).mp hyc
      exact hd y (((hcls p hp).2 x hxp).2 y |>.mpr hxy) hyp'
    · intro p hp
      obtain ⟨x, hx⟩ := List.exists_mem_of_ne_nil _ (hcls p hp).1
      obtain ⟨c, hc, hxc⟩ := h3 x ((hcls p hp).2 x hx).1
      exact ⟨c, hc, hp, hc, x, hx, hxc⟩
  · apply length_le_of_rel (fun (c p : List Nat) => p ∈ P ∧ c ∈ components nodes es f ∧ ∃ x, x ∈ p ∧ x ∈ c)
    · apply h2.imp
      intro c c' hd p hcp hc'p
      obtain ⟨hp, hc, x, hxp, hxc⟩ := hcp
      obtain ⟨_, _, y, hyp, hyc'⟩ := hc'p
      have hxy : Reach es f x y := (((hcls p hp).2 x hxp).2 y).mp hyp
      exact hd y ((components_class nodes es f c hc x hxc y).mpr hxy) hyc'
    · intro c hc
      obtain ⟨r, hr, rfl⟩ := h1 c hc
      obtain ⟨p, hp, hrp⟩ := hcov r hr
      exact ⟨p, hp, hp, hc, r, hrp, (mem_bfsH es f r r).mpr (Reach.refl r)⟩
  · intro p hp
    obtain ⟨x, hx⟩ := List.exists_mem_of_ne_nil _ (hcls p hp).1
    obtain ⟨c, hc, hxc⟩ := h3 x ((hcls p hp).2 x hx).1
    refine ⟨c, hc, fun v => ?_⟩
    rw [((hcls p hp).2 x hx).2 v, components_class nodes es f c hc x hxc v]

end C08
