import Hgxv.Proofs.C16Sample
import Hgxv.Proofs.C16Deg
import Hgxv.Model.C16Run
namespace C16

theorem outputsOfD_spec {ys : List Config} {qs : List (List Nat)} {labels : Option (List Nat)}
    {outs : List (List (Hye × Nat))} (h : outputsOfD ys qs labels = some outs) :
    outs.length = ys.length ∧ ∀ k (h1 : k < ys.length) (h2 : k < outs.length),
      ∃ q, qs[k]? = some q ∧ q.length = ys[k].length ∧ outputStageD ys[k] q labels = some outs[k] := by
  induction ys generalizing qs outs with
  | nil => simp only [outputsOfD, Option.some.injEq] at h; subst h; simp
  | cons y ys ih =>
    cases qs with
    | nil => simp [outputsOfD] at h
    | cons w ws =>
      simp only [outputsOfD] at h
      cases ho : outputStageR y w labels with
      | none => simp [ho] at h
      | some o =>
        simp only [ho, Option.bind_some] at h
        cases hr : outputsOfD ys ws labels with
        | none => simp [hr] at h
        | some r =>
          simp only [hr, Option.map_some, Option.some.injEq] at h
          subst h
          obtain ⟨i1, i2⟩ := ih hr
          refine ⟨by simp [i1], ?_⟩
          intro k h1 h2
          cases k with
          | zero =>
            unfold outputStageR at ho
            by_cases hl : w.length = y.length
            · rw [if_pos hl] at ho
              exact ⟨w, by simp, by simpa using hl, by simpa using ho⟩
            · rw [if_neg hl] at ho; exact absurd ho (by simp)
          | succ k =>
            obtain ⟨w', e1, e2, e3⟩ := i2 k (by simpa using h1) (by simpa using h2)
            exact ⟨w', by simpa using e1, by simpa using e2, by simpa using e3⟩

theorem outputStageR_agrees (cfg : Config) (qs : List Nat) (labels : Option (List Nat))
    (h2 : ∀ e ∈ cfg, 2 ≤ e.length) : outputStageR cfg qs labels = outputStage cfg (truncWeights qs) labels := by
  unfold outputStageR
  by_cases hl : qs.length = cfg.length
  · rw [if_pos hl]
    unfold outputStageD
    rw [degenWeights_all cfg _ (by simp [truncWeights, hl]) h2]
  · rw [if_neg hl]
    unfold outputStage
    rw [if_neg (by simpa [truncWeights] using hl)]

theorem outputsOfD_agrees (ys : List Config) (qs : List (List Nat)) (labels : Option (List Nat))
    (h2 : ∀ y ∈ ys, ∀ e ∈ y, 2 ≤ e.length) :
    outputsOfD ys qs labels = outputsOf ys (qs.map truncWeights) labels := by
  induction ys generalizing qs with
  | nil => simp [outputsOfD, outputsOf]
  | cons y ys ih =>
    cases qs with
    | nil => simp [outputsOfD, outputsOf]
    | cons q qs =>
      simp only [outputsOfD, outputsOf, List.map_cons]
      rw [outputStageR_agrees y q labels (h2 y List.mem_cons_self),
        ih qs (fun y' hy' => h2 y' (List.mem_cons_of_mem _ hy'))]

theorem sampleFromConfigD_spec {cfg fixed : Config} {labels : Option (List Nat)} {t : OwnTape}
    {outs : List (List (Hye × Nat))} (h : sampleFromConfigD cfg fixed labels t = some outs) :
    ∃ ys, mcmcRoutine cfg fixed t.burn t.thins = some ys ∧ outs.length = ys.length ∧
      ∀ k (h1 : k < ys.length) (h2 : k < outs.length),
        ∃ q, t.quantiles[k]? = some q ∧ q.length = ys[k].length ∧ outputStageD ys[k] q labels = some outs[k] := by
  unfold sampleFromConfigD at h
  cases hm : mcmcRoutine cfg fixed t.burn t.thins with
  | none => simp [hm] at h
  | some ys =>
    simp only [hm, Option.bind_some] at h
    obtain ⟨a, b⟩ := outputsOfD_spec h
    exact ⟨ys, rfl, a, b⟩

/-- degrees / size counts of the hyperedges of size >= 2 against the whole configuration -/
theorem degOf_proper_le (n : Nat) (cfg : Config) (ws : List Nat) : degOf n (properCfg cfg ws) ≤ degOf n cfg := by
  induction cfg generalizing ws with
  | nil => simp [properCfg, properPairs, degOf]
  | cons e cfg ih =>
    cases ws with
    | nil => simp [properCfg, properPairs, degOf]
    | cons w ws =>
      rw [properCfg_cons]
      have := ih ws
      split <;> simp only [degOf, List.map_cons, List.sum_cons] at this ⊢ <;> omega

theorem sizeCount_proper (s : Nat) (cfg : Config) (ws : List Nat) (hl : ws.length = cfg.length) :
    sizeCount s (properCfg cfg ws) = if 2 ≤ s then sizeCount s cfg else 0 := by
  induction cfg generalizing ws with
  | nil => simp [properCfg, properPairs, sizeCount]
  | cons e cfg ih =>
    cases ws with
    | nil => simp at hl
    | cons w ws =>
      rw [properCfg_cons]
      have := ih ws (by simpa using hl)
      unfold sizeCount at this ⊢
      by_cases h2 : 2 ≤ e.length
      · rw [if_pos h2]
        simp only [List.map_cons, List.count_cons, this]
        by_cases hs : 2 ≤ s <;> simp [hs] <;> omega
      · rw [if_neg h2, this]
        simp only [List.map_cons, List.count_cons]
        by_cases hs : 2 ≤ s <;> simp [hs] <;> omega

end C16
