import Hgxv.Proofs.C07Ops
import Hgxv.Proofs.C01Inv
import Hgxv.Proofs.C02Inv
import Hgxv.Proofs.C03Inv
import Hgxv.Model.C03Spec
import Hgxv.Proofs.C04Inv
/-! # C07 ↔ C01 … C04: the full container invariants imply the well-formedness the hash needs

`ofC01 s` / `ofC02 s` read a store of the full models of `Hypergraph` / `DirectedHypergraph` as C07 tables (weights
get a fixed numeric tag, metadata tokens become JSON numbers under string keys: only the *presence* of entries matters
for `WF`).  `C01.Inv s → WF (ofC01 s)` and `C02.Inv s → WF (ofC02 s)`; since `C01_inv` / the C02 invariant theorem
establish `Inv` for every reachable state of the full classes (all public mutators, batched calls, attribute setters),
`C07_factor`, `C07_equal`, `C07_differ` apply to every reachable `Hypergraph` / `DirectedHypergraph` state.
Not imported by `Props/C07.lean` (so that the C07 check does not depend on other properties' files). -/
namespace C07
open AL

/-- metadata of the container models (attribute token ↦ value token) as a JSON object -/
def metaTree (m : List (Nat × Nat)) : JTree := .obj (m.map (fun p => ("k" ++ toString p.1, .num (.int p.2))))

def mapVals {α β γ : Type} (f : β → γ) (l : List (α × β)) : List (α × γ) := l.map (fun p => (p.1, f p.2))

theorem get?_mapVals {α β γ : Type} [DecidableEq α] (f : β → γ) (l : List (α × β)) (k : α) :
    get? (mapVals f l) k = (get? l k).map f := by
  induction l with
  | nil => rfl
  | cons hd t ih =>
    obtain ⟨k', v⟩ := hd
    simp only [mapVals, List.map_cons, get?] at ih ⊢
    split
    · rfl
    · exact ih

theorem keys_mapVals {α β γ : Type} (f : β → γ) (l : List (α × β)) : keys (mapVals f l) = keys l := by
  simp [mapVals, keys, List.map_map, Function.comp_def]

theorem insertSorted_eq (ins : Nat → List Nat → List Nat)
    (h0 : ∀ a, ins a [] = [a])
    (h1 : ∀ a b bs, ins a (b :: bs) = if a ≤ b then a :: b :: bs else b :: ins a bs) (a : Nat) (l : List Nat) :
    ins a l = insertBy KeyOrd.le a l := by
  induction l with
  | nil => simp [h0, insertBy]
  | cons b bs ih => simp only [h1, insertBy, KeyOrd.le, decide_eq_true_eq, ih]

theorem sortNat_of_sorted {l : List Nat} (h : l.Pairwise (· ≤ ·)) : sortNat l = l := by
  apply sortBy_of_pairwise
  exact h.imp (fun hab => by simpa [KeyOrd.le] using hab)

/-! ## Hypergraph -/

def ofC01 (s : C01.Store) : Tables KH where
  adj := s.adj
  edgeList := s.edgeList
  rev := s.rev
  weights := mapVals Num.flt s.weights
  edgeMeta := mapVals metaTree s.emeta
  nodeMeta := mapVals metaTree s.nmeta
  hmeta := metaTree s.hmeta
  weighted := s.weighted
  nextId := s.nextId

theorem canon_C01 (l : List Nat) : C01.canon l = sortNat l := by
  unfold C01.canon sortNat sortBy
  induction l with
  | nil => rfl
  | cons a t ih =>
    simp only [List.foldr_cons, ih]
    exact insertSorted_eq C01.insertSorted (fun _ => rfl) (fun _ _ _ => rfl) a _

theorem C07_link_C01 (s : C01.Store) (h : C01.Inv s) : WF (ofC01 s) := by
  apply wf_of_store_invariant
  · exact h.adj_nodup
  · show (keys (mapVals metaTree s.nmeta)).Nodup
    rw [keys_mapVals, h.nm_keys]; exact h.adj_nodup
  · intro n
    show (get? (mapVals metaTree s.nmeta) n).isSome = (get? s.adj n).isSome
    rw [get?_mapVals, Option.isSome_map]
    have : ∀ (a b : Bool), (a = true ↔ b = true) → a = b := by decide
    apply this
    rw [isSome_get?_iff, isSome_get?_iff, h.nm_keys]
  · exact h.el_nodup
  · exact h.rev_of_edge
  · exact h.id_lt
  · intro id
    show (get? (mapVals Num.flt s.weights) id).isSome = _
    rw [get?_mapVals, Option.isSome_map]; exact h.w_dom id
  · intro id
    show (get? (mapVals metaTree s.emeta) id).isSome = _
    rw [get?_mapVals, Option.isSome_map]; exact h.m_dom id
  · intro k id hk
    show sortNat k = k
    rw [← canon_C01]; exact (h.key_canon k id hk).2

theorem filterMap_congr' {α β : Type} (f g : α → Option β) (l : List α) (h : ∀ x, x ∈ l → f x = g x) :
    l.filterMap f = l.filterMap g := by
  induction l with
  | nil => rfl
  | cons a t ih =>
    rw [List.filterMap_cons, List.filterMap_cons, h a (List.mem_cons_self ..),
      ih (fun x hx => h x (List.mem_cons_of_mem _ hx))]

/-- reading the keys back with `get?` returns the dictionary -/
theorem filterMap_keys_get? {α β : Type} [DecidableEq α] (l : List (α × β)) (hnd : (keys l).Nodup) :
    (keys l).filterMap (fun n => (get? l n).map (fun v => (n, v))) = l := by
  induction l with
  | nil => rfl
  | cons hd t ih =>
    obtain ⟨k, v⟩ := hd
    simp only [keys, List.map_cons, List.nodup_cons] at hnd
    have hk : get? ((k, v) :: t) k = some v := by simp [get?]
    simp only [keys, List.map_cons, List.filterMap_cons, hk, Option.map_some]
    congr 1
    refine Eq.trans ?_ (ih hnd.2)
    apply filterMap_congr'
    intro n hn
    have hne : k ≠ n := by
      intro e; subst e
      exact hnd.1 hn
    simp only [get?, hne, if_false]

/-- the hyperedge records of the content, when every id in `_edge_list` has a weight and a metadata entry -/
theorem content_edges_link {κ : Type} [Kind κ] (t : Tables κ) (ws : List (Nat × Int)) (em : List (Nat × List (Nat × Nat)))
    (d : Int) (hw : t.weights = mapVals Num.flt ws) (hm : t.edgeMeta = mapVals metaTree em)
    (hW : ∀ p, p ∈ t.edgeList → (get? ws p.2).isSome = true) (hM : ∀ p, p ∈ t.edgeList → (get? em p.2).isSome = true) :
    (content t).edges
      = t.edgeList.map (fun p => (p.1, Num.flt ((get? ws p.2).getD d), metaTree ((get? em p.2).getD []))) := by
  show t.edgeList.filterMap _ = _
  apply filterMap_eq_map
  intro p hp
  obtain ⟨w, hw'⟩ := Option.isSome_iff_exists.mp (hW p hp)
  obtain ⟨m, hm'⟩ := Option.isSome_iff_exists.mp (hM p hp)
  show (match get? t.weights p.2, get? t.edgeMeta p.2 with
    | some w, some md => some (p.1, w, md)
    | _, _ => none) = _
  rw [hw, hm, get?_mapVals, get?_mapVals, hw', hm']
  rfl

/-- the abstract specification state of C01 (`C01.Spec`: nodes ↦ metadata, node sets ↦ (weight, metadata)) as a
C07 content -/
def ofSpec01 (a : C01.Spec) : Content KH where
  nodes := mapVals metaTree a.nodes
  edges := a.edges.map (fun p => (p.1, Num.flt p.2.1, metaTree p.2.2))
  hmeta := metaTree a.hmeta
  weighted := a.weighted

/-- the content the hash sees is the abstraction `C01.abs` of the store -/
theorem content_ofC01 (s : C01.Store) (h : C01.Inv s) : content (ofC01 s) = ofSpec01 (C01.abs s) := by
  have hn : (content (ofC01 s)).nodes = mapVals metaTree s.nmeta := by
    show (keys s.adj).filterMap (fun n => (get? (mapVals metaTree s.nmeta) n).map (fun md => (n, md))) = _
    rw [← h.nm_keys, ← keys_mapVals metaTree s.nmeta]
    exact filterMap_keys_get? _ (by rw [keys_mapVals, h.nm_keys]; exact h.adj_nodup)
  have he := content_edges_link (ofC01 s) s.weights s.emeta 0 rfl rfl
    (fun p hp => by
      have hg : get? s.edgeList p.1 = some p.2 := get?_of_mem_nodup h.el_nodup hp
      rw [h.w_dom, h.rev_of_edge _ _ hg]; rfl)
    (fun p hp => by
      have hg : get? s.edgeList p.1 = some p.2 := get?_of_mem_nodup h.el_nodup hp
      rw [h.m_dom, h.rev_of_edge _ _ hg]; rfl)
  have hc : content (ofC01 s) =
      ⟨(content (ofC01 s)).nodes, (content (ofC01 s)).edges, metaTree s.hmeta, s.weighted⟩ := rfl
  rw [hc, hn, he]
  unfold ofSpec01 C01.abs
  simp only [List.map_map, Function.comp_def]
  rfl

/-- **Hypergraph, full API.** Two reachable states of the complete model of `Hypergraph` (C01: all 18 mutating calls,
`copy`, batched calls, attribute setters; `C01_inv` gives `Inv`, `C01_refines_state` gives `abs (run …) = Spec.run …`)
whose ABSTRACT SPEC states are the same content hash equally - for any `dumps` and `H`. -/
theorem C07_equal_C01 {Digest : Type} (dumps : JTree → String) (H : String → Digest) (s s' : C01.Store)
    (h : C01.Inv s) (h' : C01.Inv s') (e : (ofSpec01 (C01.abs s)).Equiv (ofSpec01 (C01.abs s'))) :
    hashOf dumps H (ofC01 s) = hashOf dumps H (ofC01 s') := by
  have w := C07_link_C01 s h
  have w' := C07_link_C01 s' h'
  unfold hashOf
  rw [factor w, factor w', content_ofC01 s h, content_ofC01 s' h',
    canon_congr (by rw [← content_ofC01 s h]; exact content_WF w) e]


/-- the difference direction for the full model: different abstract spec contents hash differently, under the two
explicit hypotheses of `C07_differ` (`dumps` injective on serialized trees, `H` injective on the two texts) -/
theorem C07_differ_C01 {Digest : Type} (dumps : JTree → String) (H : String → Digest) (s s' : C01.Store)
    (h : C01.Inv s) (h' : C01.Inv s') (e : ¬ (ofSpec01 (C01.abs s)).Equiv (ofSpec01 (C01.abs s')))
    (hd : ∀ a b : JTree, dumps (ser a) = dumps (ser b) → ser a = ser b) (hH : ∀ x y : String, H x = H y → x = y) :
    hashOf dumps H (ofC01 s) ≠ hashOf dumps H (ofC01 s') := by
  have w := C07_link_C01 s h
  have w' := C07_link_C01 s' h'
  unfold hashOf
  rw [factor w, factor w', content_ofC01 s h, content_ofC01 s' h']
  intro he
  simp only [Option.map_some, Option.some.injEq] at he
  have e2 := hH _ _ he
  unfold canon at e2
  exact e (canon_inj (hd _ _ e2))

/-! ## DirectedHypergraph -/

def ofC02 (s : C02.Store) : Tables KD where
  adj := s.adjS
  adjT := s.adjT
  edgeList := s.edgeList
  rev := s.rev
  weights := mapVals Num.flt s.weights
  edgeMeta := mapVals metaTree s.emeta
  nodeMeta := mapVals metaTree s.nmeta
  hmeta := metaTree s.hmeta
  weighted := s.weighted
  nextId := s.nextId

theorem C07_link_C02 (s : C02.Store) (h : C02.Inv s) : WF (ofC02 s) := by
  apply wf_of_store_invariant
  · exact h.nd_adjS
  · show (keys (mapVals metaTree s.nmeta)).Nodup
    rw [keys_mapVals]; exact h.nd_nm
  · intro n
    show (get? (mapVals metaTree s.nmeta) n).isSome = (get? s.adjS n).isSome
    rw [get?_mapVals, Option.isSome_map]; exact h.nmeta_same n
  · exact h.nd_edge
  · exact h.rev_of_edge
  · exact h.id_lt
  · intro id
    show (get? (mapVals Num.flt s.weights) id).isSome = _
    rw [get?_mapVals, Option.isSome_map]; exact h.weights_same id
  · intro id
    show (get? (mapVals metaTree s.emeta) id).isSome = _
    rw [get?_mapVals, Option.isSome_map]; exact h.emeta_same id
  · intro k id hk
    have kw := h.key_wf id k (h.rev_of_edge k id hk)
    show (sortNat k.1, sortNat k.2) = k
    rw [sortNat_of_sorted kw.sortedS, sortNat_of_sorted kw.sortedT]

def ofSpec02 (a : C02.Spec) : Content KD where
  nodes := mapVals metaTree a.nodes
  edges := a.edges.map (fun p => (p.1, Num.flt p.2.1, metaTree p.2.2))
  hmeta := metaTree a.hmeta
  weighted := a.weighted

theorem content_ofC02 (s : C02.Store) (h : C02.Inv s) : content (ofC02 s) = ofSpec02 (C02.abs s) := by
  have hn : (content (ofC02 s)).nodes
      = (keys s.adjS).map (fun n => (n, metaTree ((get? s.nmeta n).getD []))) := by
    show (keys s.adjS).filterMap (fun n => (get? (mapVals metaTree s.nmeta) n).map (fun md => (n, md))) = _
    apply filterMap_eq_map
    intro n hn
    have : (get? s.nmeta n).isSome = true := by rw [h.nmeta_same]; exact isSome_get?_iff.mpr hn
    obtain ⟨m, hm⟩ := Option.isSome_iff_exists.mp this
    rw [get?_mapVals, hm]; rfl
  have he := content_edges_link (ofC02 s) s.weights s.emeta 0 rfl rfl
    (fun p hp => by
      have hg : get? s.edgeList p.1 = some p.2 := get?_of_mem_nodup h.nd_edge hp
      rw [h.weights_same, h.rev_of_edge _ _ hg]; rfl)
    (fun p hp => by
      have hg : get? s.edgeList p.1 = some p.2 := get?_of_mem_nodup h.nd_edge hp
      rw [h.emeta_same, h.rev_of_edge _ _ hg]; rfl)
  have hc : content (ofC02 s) =
      ⟨(content (ofC02 s)).nodes, (content (ofC02 s)).edges, metaTree s.hmeta, s.weighted⟩ := rfl
  rw [hc, hn, he]
  unfold ofSpec02 C02.abs mapVals
  simp only [List.map_map, Function.comp_def]
  rfl

/-- **DirectedHypergraph, full API**: reachable states (`C02_inv`) whose abstract spec states are the same content
hash equally -/
theorem C07_equal_C02 {Digest : Type} (dumps : JTree → String) (H : String → Digest) (s s' : C02.Store)
    (h : C02.Inv s) (h' : C02.Inv s') (e : (ofSpec02 (C02.abs s)).Equiv (ofSpec02 (C02.abs s'))) :
    hashOf dumps H (ofC02 s) = hashOf dumps H (ofC02 s') := by
  have w := C07_link_C02 s h
  have w' := C07_link_C02 s' h'
  unfold hashOf
  rw [factor w, factor w', content_ofC02 s h, content_ofC02 s' h',
    canon_congr (by rw [← content_ofC02 s h]; exact content_WF w) e]


/-- the difference direction for the full model: different abstract spec contents hash differently, under the two
explicit hypotheses of `C07_differ` (`dumps` injective on serialized trees, `H` injective on the two texts) -/
theorem C07_differ_C02 {Digest : Type} (dumps : JTree → String) (H : String → Digest) (s s' : C02.Store)
    (h : C02.Inv s) (h' : C02.Inv s') (e : ¬ (ofSpec02 (C02.abs s)).Equiv (ofSpec02 (C02.abs s')))
    (hd : ∀ a b : JTree, dumps (ser a) = dumps (ser b) → ser a = ser b) (hH : ∀ x y : String, H x = H y → x = y) :
    hashOf dumps H (ofC02 s) ≠ hashOf dumps H (ofC02 s') := by
  have w := C07_link_C02 s h
  have w' := C07_link_C02 s' h'
  unfold hashOf
  rw [factor w, factor w', content_ofC02 s h, content_ofC02 s' h']
  intro he
  simp only [Option.map_some, Option.some.injEq] at he
  have e2 := hH _ _ he
  unfold canon at e2
  exact e (canon_inj (hd _ _ e2))

/-! ## TemporalHypergraph

`TemporalHypergraph.get_nodes()` lists `_node_metadata.keys()` (as `MultiplexHypergraph` does); the node table of the
C07 view is read from `_node_metadata` (same key set as `_adj` by `C03.NT`). -/

theorem bool_eq_of_iff {a b : Bool} (h : a = true ↔ b = true) : a = b := by
  cases a <;> cases b <;> simp_all

def ofC03 (s : C03.Store) : Tables KT where
  adj := mapVals (fun _ => ([] : List Nat)) s.nmeta
  edgeList := s.edgeList
  rev := s.rev
  weights := mapVals Num.flt s.weights
  edgeMeta := mapVals metaTree s.emeta
  nodeMeta := mapVals metaTree s.nmeta
  hmeta := metaTree s.hmeta
  weighted := s.weighted
  nextId := s.nextId

theorem C07_link_C03 (s : C03.Store) (h : C03.Inv s) : WF (ofC03 s) := by
  apply wf_of_store_invariant
  · show (keys (mapVals (fun _ => ([] : List Nat)) s.nmeta)).Nodup
    rw [keys_mapVals]; exact h.nt.nmetaNodup
  · show (keys (mapVals metaTree s.nmeta)).Nodup
    rw [keys_mapVals]; exact h.nt.nmetaNodup
  · intro n
    show (get? (mapVals metaTree s.nmeta) n).isSome = (get? (mapVals (fun _ => ([] : List Nat)) s.nmeta) n).isSome
    rw [get?_mapVals, get?_mapVals, Option.isSome_map, Option.isSome_map]
  · exact h.keysNodup
  · exact h.rev_of_edge
  · exact h.id_lt
  · intro id
    show (get? (mapVals Num.flt s.weights) id).isSome = _
    rw [get?_mapVals, Option.isSome_map]; exact bool_eq_of_iff (h.wKeys id)
  · intro id
    show (get? (mapVals metaTree s.emeta) id).isSome = _
    rw [get?_mapVals, Option.isSome_map]; exact bool_eq_of_iff (h.mKeys id)
  · intro k id hk
    show (k.1, sortNat k.2) = k
    rw [sortNat_of_sorted (h.keyCanon k id hk).1]

def ofSpec03 (a : C03.Spec) : Content KT where
  nodes := mapVals metaTree a.nodes
  edges := a.recs.map (fun p => (p.1, Num.flt p.2.1, metaTree p.2.2))
  hmeta := metaTree a.hmeta
  weighted := a.weighted

theorem content_ofC03 (s : C03.Store) (h : C03.Inv s) : content (ofC03 s) = ofSpec03 (C03.abs s) := by
  have hn : (content (ofC03 s)).nodes = mapVals metaTree s.nmeta := by
    show (keys (mapVals (fun _ => ([] : List Nat)) s.nmeta)).filterMap
      (fun n => (get? (mapVals metaTree s.nmeta) n).map (fun md => (n, md))) = _
    rw [keys_mapVals, ← keys_mapVals metaTree s.nmeta]
    exact filterMap_keys_get? _ (by rw [keys_mapVals]; exact h.nt.nmetaNodup)
  have he := content_edges_link (ofC03 s) s.weights s.emeta C03.one rfl rfl
    (fun p hp => by
      have hg : get? s.edgeList p.1 = some p.2 := get?_of_mem_nodup h.keysNodup hp
      exact (h.wKeys p.2).mpr (by rw [h.rev_of_edge _ _ hg]; rfl))
    (fun p hp => by
      have hg : get? s.edgeList p.1 = some p.2 := get?_of_mem_nodup h.keysNodup hp
      exact (h.mKeys p.2).mpr (by rw [h.rev_of_edge _ _ hg]; rfl))
  have hc : content (ofC03 s) =
      ⟨(content (ofC03 s)).nodes, (content (ofC03 s)).edges, metaTree s.hmeta, s.weighted⟩ := rfl
  rw [hc, hn, he]
  unfold ofSpec03 C03.abs C03.records
  simp only [List.map_map, Function.comp_def]
  rfl

/-- **TemporalHypergraph, full API**: reachable states (`C03_inv`) whose abstract spec states are the same content
hash equally -/
theorem C07_equal_C03 {Digest : Type} (dumps : JTree → String) (H : String → Digest) (s s' : C03.Store)
    (h : C03.Inv s) (h' : C03.Inv s') (e : (ofSpec03 (C03.abs s)).Equiv (ofSpec03 (C03.abs s'))) :
    hashOf dumps H (ofC03 s) = hashOf dumps H (ofC03 s') := by
  have w := C07_link_C03 s h
  have w' := C07_link_C03 s' h'
  unfold hashOf
  rw [factor w, factor w', content_ofC03 s h, content_ofC03 s' h',
    canon_congr (by rw [← content_ofC03 s h]; exact content_WF w) e]

/-- the difference direction for the full model: different abstract spec contents hash differently, under the two
explicit hypotheses of `C07_differ` (`dumps` injective on serialized trees, `H` injective on the two texts) -/
theorem C07_differ_C03 {Digest : Type} (dumps : JTree → String) (H : String → Digest) (s s' : C03.Store)
    (h : C03.Inv s) (h' : C03.Inv s') (e : ¬ (ofSpec03 (C03.abs s)).Equiv (ofSpec03 (C03.abs s')))
    (hd : ∀ a b : JTree, dumps (ser a) = dumps (ser b) → ser a = ser b) (hH : ∀ x y : String, H x = H y → x = y) :
    hashOf dumps H (ofC03 s) ≠ hashOf dumps H (ofC03 s') := by
  have w := C07_link_C03 s h
  have w' := C07_link_C03 s' h'
  unfold hashOf
  rw [factor w, factor w', content_ofC03 s h, content_ofC03 s' h']
  intro he
  simp only [Option.map_some, Option.some.injEq] at he
  have e2 := hH _ _ he
  unfold canon at e2
  exact e (canon_inj (hd _ _ e2))

/-! ## MultiplexHypergraph

`MultiplexHypergraph.get_nodes()` lists `_node_metadata.keys()`, and `C04.Inv` does not state that `_adj` lists a node
once; the node table of the C07 view is therefore read from `_node_metadata` (same key set as `_adj` by `C04.NM`). -/

def ofC04 (s : C04.Store) : Tables KM where
  adj := mapVals (fun _ => ([] : List Nat)) s.nmeta
  edgeList := s.edgeList
  rev := s.rev
  weights := mapVals Num.flt s.weights
  edgeMeta := mapVals metaTree s.emeta
  nodeMeta := mapVals metaTree s.nmeta
  hmeta := metaTree s.hmeta
  weighted := s.weighted
  nextId := s.nextId

theorem C07_link_C04 (s : C04.Store) (h : C04.Inv s) : WF (ofC04 s) := by
  apply wf_of_store_invariant
  · show (keys (mapVals (fun _ => ([] : List Nat)) s.nmeta)).Nodup
    rw [keys_mapVals]; exact h.nm.nm_nodup
  · show (keys (mapVals metaTree s.nmeta)).Nodup
    rw [keys_mapVals]; exact h.nm.nm_nodup
  · intro n
    show (get? (mapVals metaTree s.nmeta) n).isSome = (get? (mapVals (fun _ => ([] : List Nat)) s.nmeta) n).isSome
    rw [get?_mapVals, get?_mapVals, Option.isSome_map, Option.isSome_map]
  · exact h.id.el_nodup
  · exact h.id.rev_of_edge
  · exact h.id.id_lt
  · intro id
    show (get? (mapVals Num.flt s.weights) id).isSome = _
    rw [get?_mapVals, Option.isSome_map]; exact bool_eq_of_iff (h.id.w_some id)
  · intro id
    show (get? (mapVals metaTree s.emeta) id).isSome = _
    rw [get?_mapVals, Option.isSome_map]; exact bool_eq_of_iff (h.id.em_some id)
  · intro k id hk
    show (sortNat k.1, k.2) = k
    rw [sortNat_of_sorted (h.id.key_sorted id k (h.id.rev_of_edge k id hk)).le]

def ofSpec04 (a : C04.Spec) : Content KM where
  nodes := mapVals metaTree a.nodes
  edges := a.edges.map (fun p => (p.1, Num.flt p.2.1, metaTree p.2.2))
  hmeta := metaTree a.hmeta
  weighted := a.weighted

theorem content_ofC04 (s : C04.Store) (h : C04.Inv s) : content (ofC04 s) = ofSpec04 (C04.abs s) := by
  have hn : (content (ofC04 s)).nodes = mapVals metaTree s.nmeta := by
    show (keys (mapVals (fun _ => ([] : List Nat)) s.nmeta)).filterMap
      (fun n => (get? (mapVals metaTree s.nmeta) n).map (fun md => (n, md))) = _
    rw [keys_mapVals, ← keys_mapVals metaTree s.nmeta]
    exact filterMap_keys_get? _ (by rw [keys_mapVals]; exact h.nm.nm_nodup)
  have he := content_edges_link (ofC04 s) s.weights s.emeta C04.one rfl rfl
    (fun p hp => by
      have hg : get? s.edgeList p.1 = some p.2 := get?_of_mem_nodup h.id.el_nodup hp
      exact (h.id.w_some p.2).mpr (by rw [h.id.rev_of_edge _ _ hg]; rfl))
    (fun p hp => by
      have hg : get? s.edgeList p.1 = some p.2 := get?_of_mem_nodup h.id.el_nodup hp
      exact (h.id.em_some p.2).mpr (by rw [h.id.rev_of_edge _ _ hg]; rfl))
  have hc : content (ofC04 s) =
      ⟨(content (ofC04 s)).nodes, (content (ofC04 s)).edges, metaTree s.hmeta, s.weighted⟩ := rfl
  rw [hc, hn, he]
  unfold ofSpec04 C04.abs
  simp only [List.map_map, Function.comp_def]
  rfl

/-- **MultiplexHypergraph, full API**: reachable states (`C04_inv`; `C04_refines`: `abs (run …) = Spec.run …`) whose
abstract spec states are the same content hash equally -/
theorem C07_equal_C04 {Digest : Type} (dumps : JTree → String) (H : String → Digest) (s s' : C04.Store)
    (h : C04.Inv s) (h' : C04.Inv s') (e : (ofSpec04 (C04.abs s)).Equiv (ofSpec04 (C04.abs s'))) :
    hashOf dumps H (ofC04 s) = hashOf dumps H (ofC04 s') := by
  have w := C07_link_C04 s h
  have w' := C07_link_C04 s' h'
  unfold hashOf
  rw [factor w, factor w', content_ofC04 s h, content_ofC04 s' h',
    canon_congr (by rw [← content_ofC04 s h]; exact content_WF w) e]


/-- the difference direction for the full model: different abstract spec contents hash differently, under the two
explicit hypotheses of `C07_differ` (`dumps` injective on serialized trees, `H` injective on the two texts) -/
theorem C07_differ_C04 {Digest : Type} (dumps : JTree → String) (H : String → Digest) (s s' : C04.Store)
    (h : C04.Inv s) (h' : C04.Inv s') (e : ¬ (ofSpec04 (C04.abs s)).Equiv (ofSpec04 (C04.abs s')))
    (hd : ∀ a b : JTree, dumps (ser a) = dumps (ser b) → ser a = ser b) (hH : ∀ x y : String, H x = H y → x = y) :
    hashOf dumps H (ofC04 s) ≠ hashOf dumps H (ofC04 s') := by
  have w := C07_link_C04 s h
  have w' := C07_link_C04 s' h'
  unfold hashOf
  rw [factor w, factor w', content_ofC04 s h, content_ofC04 s' h']
  intro he
  simp only [Option.map_some, Option.some.injEq] at he
  have e2 := hH _ _ he
  unfold canon at e2
  exact e (canon_inj (hd _ _ e2))

end C07
