import Hgxv.Proofs.C10Graph
import Mathlib.Data.List.Induction
/-! Helper lemmas for C10: `bipartite_projection` (two loops over a record of three tables). -/
namespace C10

theorem addEdges_nodes_of_mem {ν : Type} [DecidableEq ν] (ps : List (ν × ν)) (g : Graph ν)
    (h : ∀ p ∈ ps, p.1 ∈ AL.keys g.nodes ∧ p.2 ∈ AL.keys g.nodes) : (addEdges g ps).nodes = g.nodes := by
  induction ps generalizing g with
  | nil => rfl
  | cons p ps ih =>
    have h1 : addEdges g (p :: ps) = addEdges (g.addEdge p.1 p.2 none) ps := rfl
    have hp := h p (by simp)
    have h2 := addEdge_nodes_of_mem g p.1 p.2 none hp.1 hp.2
    rw [h1, ih, h2]
    intro q hq; rw [h2]; exact h q (by simp [hq])

/-- state after the first loop (`for node in h.get_nodes()`) -/
structure BInv1 (nodes : List Nat) (st : Bip) : Prop where
  adj : st.g.adj = []
  keys : AL.keys st.g.nodes = (List.range nodes.length).map BV.N
  attr : ∀ v, AL.get? st.g.nodes v =
    match v with
    | .N i => if i < nodes.length then some (some 0) else none
    | .E _ => none
  tab : ∀ v, AL.get? st.idToObj v =
    match v with
    | .N i => nodes[i]?.map Obj.node
    | .E _ => none
  inv : ∀ i x, nodes[i]? = some x → AL.get? st.objToId (.node x) = some (.N i)

theorem bipNode_inv {nodes : List Nat} {st : Bip} (hI : BInv1 nodes st) (x : Nat) (hx : x ∉ nodes) :
    BInv1 (nodes ++ [x]) (bipNode st (x, nodes.length)) := by
  have hnone : AL.get? st.g.nodes (.N nodes.length) = none := by rw [hI.attr]; simp
  refine ⟨?_, ?_, ?_, ?_, ?_⟩
  · simp [bipNode, Graph.addNode, hI.adj]
  · simp only [bipNode, Graph.addNode, List.length_append, List.length_singleton]
    rw [AL.keys_set_of_not_mem _ _ _ hnone, hI.keys, List.range_succ, List.map_append]; rfl
  · intro v
    simp only [bipNode, Graph.addNode, AL.get?_set, hI.attr, List.length_append, List.length_singleton]
    cases v with
    | N i => by_cases h : nodes.length = i
             · subst h; simp
             · have : ¬ (BV.N nodes.length = BV.N i) := by simpa using h
               simp only [this, if_false]
               by_cases h2 : i < nodes.length
               · have : i < nodes.length + 1 := by omega
                 simp [h2, this]
               · have : ¬ i < nodes.length + 1 := by omega
                 simp [h2, this]
    | E j => simp
  · intro v
    simp only [bipNode, AL.get?_set, hI.tab]
    cases v with
    | N i => by_cases h : nodes.length = i
             · subst h; simp
             · have : ¬ (BV.N nodes.length = BV.N i) := by simpa using h
               simp only [this, if_false]
               by_cases h2 : i < nodes.length
               · simp [List.getElem?_append_left h2]
               · have h3 : nodes.length < i := by omega
                 have : (nodes ++ [x])[i]? = none := by
                   apply List.getElem?_eq_none; simp; omega
                 rw [this, List.getElem?_eq_none (by omega)]
    | E j => simp
  · intro i y hy
    simp only [bipNode, AL.get?_set]
    by_cases h : i < nodes.length
    · rw [List.getElem?_append_left h] at hy
      have hyn : y ∈ nodes := List.mem_of_getElem? hy
      have : ¬ (Obj.node x = Obj.node y) := by
        intro he; injection he with he; exact hx (he ▸ hyn)
      simp only [this, if_false]
      exact hI.inv i y hy
    · have hi : i = nodes.length := by
        have := (List.getElem?_eq_some_iff.1 hy).1
        simp at this; omega
      subst hi
      simp at hy; subst hy; simp

theorem bip_loop1 (nodes : List Nat) (hnd : nodes.Nodup) : BInv1 nodes (nodes.zipIdx.foldl bipNode {}) := by
  induction nodes using List.reverseRecOn with
  | nil => exact ⟨rfl, rfl, by intro v; cases v <;> simp, by intro v; cases v <;> simp, by simp⟩
  | append_singleton l x ih =>
    have hl : l.Nodup := (List.nodup_append.1 hnd).1
    have hx : x ∉ l := by
      intro h; have := (List.nodup_append.1 hnd).2.2 x h x (by simp); exact this rfl
    rw [List.zipIdx_append, List.foldl_append]
    simpa using bipNode_inv (ih hl) x hx

/-- state after the first loop and the second loop over the hyperedges `es` -/
structure BInv2 (nodes : List Nat) (es : List Edge) (st : Bip) : Prop where
  adj : ∀ u v a, AL.get? st.g.adj (u, v) = some a ↔
    (a = none ∧ ∃ i j x e, nodes[i]? = some x ∧ es[j]? = some e ∧ x ∈ e ∧
      ((u, v) = (BV.E j, BV.N i) ∨ (u, v) = (BV.N i, BV.E j)))
  keys : AL.keys st.g.nodes = (List.range nodes.length).map BV.N ++ (List.range es.length).map BV.E
  attr : ∀ v, AL.get? st.g.nodes v =
    match v with
    | .N i => if i < nodes.length then some (some 0) else none
    | .E j => if j < es.length then some (some 1) else none
  tab : ∀ v, AL.get? st.idToObj v =
    match v with
    | .N i => nodes[i]?.map Obj.node
    | .E j => es[j]?.map Obj.edge
  inv : ∀ i x, nodes[i]? = some x → AL.get? st.objToId (.node x) = some (.N i)

theorem bipLink_fold {nodes : List Nat} (ev : BV) (l : List Nat) (st : Bip)
    (hinv : ∀ i x, nodes[i]? = some x → AL.get? st.objToId (.node x) = some (.N i))
    (hl : ∀ x ∈ l, x ∈ nodes) :
    l.foldl (bipLink ev) st = { st with g := addEdges st.g (l.map (fun x => (ev, BV.N (nodes.idxOf x)))) } := by
  induction l generalizing st with
  | nil => rfl
  | cons x t ih =>
    have hx := hl x (by simp)
    have hlt : nodes.idxOf x < nodes.length := List.idxOf_lt_length_iff.2 hx
    have hget : nodes[nodes.idxOf x]? = some x := by
      rw [List.getElem?_eq_getElem hlt, List.getElem_idxOf]
    have h1 : bipLink ev st x = { st with g := st.g.addEdge ev (.N (nodes.idxOf x)) none } := by
      simp [bipLink, hinv _ x hget]
    rw [List.foldl_cons, h1,
      ih { st with g := st.g.addEdge ev (.N (nodes.idxOf x)) none } hinv (fun y hy => hl y (by simp [hy]))]
    rfl

theorem bipEdge_inv {nodes : List Nat} {es : List Edge} {st : Bip} (hI : BInv2 nodes es st) (e : Edge)
    (he : ∀ x ∈ e, x ∈ nodes) (hnd : nodes.Nodup) :
    BInv2 nodes (es ++ [e]) (bipEdge st (e, es.length)) := by
  have hnone : AL.get? st.g.nodes (.E es.length) = none := by rw [hI.attr]; simp
  unfold bipEdge
  simp only []
  rw [bipLink_fold (nodes := nodes) _ _ _ (by
    intro i x hx
    exact hI.inv i x hx) he]
  have hkeys1 : AL.keys (st.g.addNode (.E es.length) (some 1)).nodes =
      (List.range nodes.length).map BV.N ++ (List.range (es ++ [e]).length).map BV.E := by
    simp only [Graph.addNode, List.length_append, List.length_singleton]
    rw [AL.keys_set_of_not_mem _ _ _ hnone, hI.keys, List.range_succ, List.map_append, List.append_assoc]; rfl
  have hnodes : (addEdges (st.g.addNode (.E es.length) (some 1))
      (e.map (fun x => (BV.E es.length, BV.N (nodes.idxOf x))))).nodes =
      (st.g.addNode (.E es.length) (some 1)).nodes := by
    apply addEdges_nodes_of_mem
    intro p hp
    obtain ⟨x, hx, rfl⟩ := List.mem_map.1 hp
    rw [hkeys1]
    constructor
    · simp
    · simp only [List.mem_append, List.mem_map, List.mem_range]
      exact Or.inl ⟨_, List.idxOf_lt_length_iff.2 (he x hx), rfl⟩
  refine ⟨?_, ?_, ?_, ?_, ?_⟩
  · intro u v a
    simp only [get_adj_addEdges, adj_addNode]
    have hold := hI.adj u v a
    constructor
    · intro h
      split at h
      · rename_i hc
        refine ⟨by simpa using h.symm, ?_⟩
        rcases hc with hc | hc
        · obtain ⟨x, hx, hp⟩ := List.mem_map.1 hc
          have hlt : nodes.idxOf x < nodes.length := List.idxOf_lt_length_iff.2 (he x hx)
          refine ⟨nodes.idxOf x, es.length, x, e, ?_, by simp, hx, Or.inl hp.symm⟩
          rw [List.getElem?_eq_getElem hlt, List.getElem_idxOf]
        · obtain ⟨x, hx, hp⟩ := List.mem_map.1 hc
          have hlt : nodes.idxOf x < nodes.length := List.idxOf_lt_length_iff.2 (he x hx)
          refine ⟨nodes.idxOf x, es.length, x, e, ?_, by simp, hx, Or.inr ?_⟩
          · rw [List.getElem?_eq_getElem hlt, List.getElem_idxOf]
          · simp only [Prod.mk.injEq] at hp ⊢; exact ⟨hp.2.symm, hp.1.symm⟩
      · obtain ⟨ha, i, j, x, e', h1, h2, h3, h4⟩ := hold.1 h
        have hj : j < es.length := (List.getElem?_eq_some_iff.1 h2).1
        exact ⟨ha, i, j, x, e', h1, by rw [List.getElem?_append_left hj]; exact h2, h3, h4⟩
    · rintro ⟨rfl, i, j, x, e', h1, h2, h3, h4⟩
      by_cases hj : j < es.length
      · rw [List.getElem?_append_left hj] at h2
        have := hold.2 ⟨rfl, i, j, x, e', h1, h2, h3, h4⟩
        split
        · rfl
        · exact this
      · have hj2 : j = es.length := by
          have := (List.getElem?_eq_some_iff.1 h2).1
          simp at this; omega
        subst hj2
        simp at h2; subst h2
        have hidx : nodes.idxOf x = i := by
          have hi := (List.getElem?_eq_some_iff.1 h1)
          obtain ⟨hi1, hi2⟩ := hi
          rw [← hi2]; exact hnd.idxOf_getElem i hi1
        rw [if_pos]
        rcases h4 with h4 | h4
        · left; apply List.mem_map.2; exact ⟨x, h3, by rw [hidx]; exact h4.symm⟩
        · right; apply List.mem_map.2
          refine ⟨x, h3, ?_⟩
          rw [hidx]; simp only [Prod.mk.injEq] at h4 ⊢; exact ⟨h4.2.symm, h4.1.symm⟩
  · show AL.keys (addEdges _ _).nodes = _
    rw [hnodes, hkeys1]
  · intro v
    show AL.get? (addEdges _ _).nodes v = _
    rw [hnodes]
    simp only [Graph.addNode, AL.get?_set, hI.attr, List.length_append, List.length_singleton]
    cases v with
    | N i => simp
    | E j => by_cases h : es.length = j
             · subst h; simp
             · have : ¬ (BV.E es.length = BV.E j) := by simpa using h
               simp only [this, if_false]
               by_cases h2 : j < es.length
               · have : j < es.length + 1 := by omega
                 simp [h2, this]
               · have : ¬ j < es.length + 1 := by omega
                 simp [h2, this]
  · intro v
    simp only [AL.get?_set, hI.tab]
    cases v with
    | N i => simp
    | E j => by_cases h : es.length = j
             · subst h; simp
             · have : ¬ (BV.E es.length = BV.E j) := by simpa using h
               simp only [this, if_false]
               by_cases h2 : j < es.length
               · simp [List.getElem?_append_left h2]
               · have : (es ++ [e])[j]? = none := by
                   apply List.getElem?_eq_none; simp; omega
                 rw [this, List.getElem?_eq_none (by omega)]
  · intro i x hx
    exact hI.inv i x hx

theorem bip_loop2 (nodes : List Nat) (hnd : nodes.Nodup) (es : List Edge) (hmem : ∀ e ∈ es, ∀ x ∈ e, x ∈ nodes) :
    BInv2 nodes es (bipartite nodes es) := by
  unfold bipartite
  induction es using List.reverseRecOn with
  | nil =>
    have h1 := bip_loop1 nodes hnd
    simp only [List.zipIdx_nil, List.foldl_nil]
    refine ⟨?_, by simpa using h1.keys, ?_, ?_, h1.inv⟩
    · intro u v a; simp [h1.adj]
    · intro v; rw [h1.attr]; cases v <;> simp
    · intro v; rw [h1.tab]; cases v <;> simp
  | append_singleton l e ih =>
    rw [List.zipIdx_append, List.foldl_append]
    have := bipEdge_inv (ih (fun e' he' => hmem e' (by simp [he']))) e (hmem e (by simp)) hnd
    simpa using this

/-! ### the routine before the repair (one table for node labels and hyperedge tuples) -/

/-- same graph, same id table, and the node part of `obj_to_id` agrees -/
def BipSim (a b : Bip) : Prop :=
  a.g = b.g ∧ a.idToObj = b.idToObj ∧ ∀ n, AL.get? a.objToId (.node n) = AL.get? b.objToId (.node n)

theorem bipLink_sim (ev : BV) {a b : Bip} (h : BipSim a b) (n : Nat) : BipSim (bipLink ev a n) (bipLink ev b n) := by
  obtain ⟨hg, ht, ho⟩ := h
  unfold bipLink
  rw [ho n]
  cases AL.get? b.objToId (.node n) with
  | none => exact ⟨hg, ht, ho⟩
  | some v => exact ⟨by simp [hg], ht, ho⟩

theorem bipLink_fold_sim (ev : BV) (l : List Nat) {a b : Bip} (h : BipSim a b) :
    BipSim (l.foldl (bipLink ev) a) (l.foldl (bipLink ev) b) := by
  induction l generalizing a b with
  | nil => exact h
  | cons x t ih => exact ih (bipLink_sim ev h x)

theorem bipEdgeShared_sim (tl : Edge → Option Nat) (p : Edge × Nat) (hp : tl p.1 = none) {a b : Bip} (h : BipSim a b) :
    BipSim (bipEdgeShared tl a p) (bipEdge b p) := by
  obtain ⟨hg, ht, ho⟩ := h
  unfold bipEdgeShared bipEdge
  apply bipLink_fold_sim
  refine ⟨by simp [hg], by simp [ht], ?_⟩
  intro n
  have hk : edgeKey tl p.1 = Obj.edge p.1 := by simp [edgeKey, hp]
  have hne : ¬ (Obj.edge p.1 = Obj.node n) := by intro h; cases h
  simp only [hk, AL.get?_set, hne, if_false]
  exact ho n

theorem bipShared_fold_sim (tl : Edge → Option Nat) (ps : List (Edge × Nat)) (hps : ∀ p ∈ ps, tl p.1 = none) {a b : Bip}
    (h : BipSim a b) : BipSim (ps.foldl (bipEdgeShared tl) a) (ps.foldl bipEdge b) := by
  induction ps generalizing a b with
  | nil => exact h
  | cons p t ih =>
    exact ih (fun q hq => hps q (by simp [hq])) (bipEdgeShared_sim tl p (hps p (by simp)) h)

end C10
