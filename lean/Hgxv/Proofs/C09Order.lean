import Hgxv.Proofs.C09Forms
/-! Helper lemmas for C09, part 4: per-order matrices, degree matrix, Laplacian. -/
set_option linter.unusedSectionVars false
namespace C09
variable {R : Type} [CommRing R]

theorem mem_ofOrder (d : Nat) (es : List (Edge × R)) (e : Edge × R) :
    e ∈ ofOrder d es ↔ e ∈ es ∧ e.1.length = d + 1 := by
  simp [ofOrder]

theorem subNodes_true (d : Nat) (nodes : List Nat) (es : List (Edge × R)) :
    subNodes d true nodes es = nodes := by simp [subNodes]

theorem mem_subNodes_false (d : Nat) (nodes : List Nat) (es : List (Edge × R)) (x : Nat) :
    x ∈ subNodes d false nodes es ↔ ∃ e ∈ es, e.1.length = d + 1 ∧ x ∈ e.1 := by
  simp only [subNodes, Bool.false_eq_true, if_false, mem_classes, List.mem_flatten, List.mem_map]
  constructor
  · rintro ⟨l, ⟨e, he, rfl⟩, hx⟩
    exact ⟨e, ((mem_ofOrder d es e).1 he).1, ((mem_ofOrder d es e).1 he).2, hx⟩
  · rintro ⟨e, he, hl, hx⟩
    exact ⟨e.1, ⟨e, (mem_ofOrder d es e).2 ⟨he, hl⟩, rfl⟩, hx⟩

theorem subNodes_nodup (d : Nat) (k : Bool) (nodes : List Nat) (es : List (Edge × R)) (hN : nodes.Nodup) :
    (subNodes d k nodes es).Nodup := by
  cases k
  · simp only [subNodes, Bool.false_eq_true, if_false]; exact classes_nodup _
  · simpa [subNodes] using hN

theorem subNodes_covers (d : Nat) (k : Bool) (nodes : List Nat) (es : List (Edge × R))
    (hE : ∀ e ∈ es, ∀ x ∈ e.1, x ∈ nodes) :
    ∀ e ∈ ofOrder d es, ∀ x ∈ e.1, x ∈ subNodes d k nodes es := by
  intro e he x hx
  have h := (mem_ofOrder d es e).1 he
  cases k
  · exact (mem_subNodes_false d nodes es x).2 ⟨e, h.1, h.2, hx⟩
  · rw [subNodes_true]; exact hE e h.1 x hx

/-- entry `(x, y)` of `I_d I_dᵀ` -/
def gram (d : Nat) (es : List (Edge × R)) (x y : Nat) : R :=
  ((ofOrder d es).map fun e => (ind (decide (x ∈ e.1)) * e.2) * (ind (decide (y ∈ e.1)) * e.2)).sum

theorem gram_comm (d : Nat) (es : List (Edge × R)) (x y : Nat) : gram d es x y = gram d es y x := by
  unfold gram
  congr 1
  apply List.map_congr_left
  intro e _
  ring

theorem gramMatrix_eq (d : Nat) (nodes : List Nat) (es : List (Edge × R)) (hN : nodes.Nodup)
    (hE : ∀ e ∈ es, ∀ x ∈ e.1, x ∈ nodes) :
    mulT (incByOrder d true nodes es) (incByOrder d true nodes es) =
      (classes nodes).map fun x => (classes nodes).map fun y => gram d es x y := by
  unfold incByOrder
  rw [subNodes_true, inc_eq nodes (ofOrder d es) hN
    (fun e he => hE e ((mem_ofOrder d es e).1 he).1), mulT_rows]
  rfl

/-- for an unweighted hypergraph the Gram entry is the number of hyperedges of order `d` containing both nodes -/
theorem gram_unweighted (d : Nat) (es : List (Edge × R)) (hW : ∀ e ∈ es, e.2 = 1) (x y : Nat) :
    gram d es x y =
      ((es.countP fun e => e.1.length == d + 1 && (decide (x ∈ e.1) && decide (y ∈ e.1)) : Nat) : R) := by
  unfold gram
  have : ((ofOrder d es).map fun e => (ind (decide (x ∈ e.1)) * e.2) * (ind (decide (y ∈ e.1)) * e.2))
      = (ofOrder d es).map fun e => (ind (decide (x ∈ e.1) && decide (y ∈ e.1)) : R) := by
    apply List.map_congr_left
    intro e he
    rw [hW e ((mem_ofOrder d es e).1 he).1, mul_one, mul_one, ind_mul_ind]
  rw [this, sum_map_ind, ofOrder, List.countP_filter]
  congr 2
  funext e
  rw [Bool.and_comm]

theorem degree_eq_countP (d : Nat) (es : List (Edge × R)) (x : Nat) :
    degree d es x = es.countP fun e => e.1.length == d + 1 && (decide (x ∈ e.1) && decide (x ∈ e.1)) := by
  unfold degree
  rw [← List.countP_eq_length_filter]
  congr 1
  funext e
  simp [Bool.and_comm]

theorem degMatrix_eq (d : Nat) (nodes : List Nat) (es : List (Edge × R)) :
    degMatrix d nodes es = diag ((classes nodes).map fun x => ((degree d es x : Nat) : R)) := by
  unfold degMatrix
  congr 1
  have h2 : (mapping nodes).map (·.2) = classes nodes := by
    rw [mapping_eq]; exact List.map_snd_zip (by simp)
  rw [← h2, List.map_map]
  rfl

theorem getElem_matSub (A B : List (List R)) (i : Nat) (hA : i < A.length) (hB : i < B.length) :
    (matSub A B)[i]'(by simp [matSub]; omega) = List.zipWith (· - ·) A[i] B[i] := by
  simp [matSub]

end C09

namespace C09
variable {R : Type} [CommRing R]

theorem lap_entry (d : Nat) (nodes : List Nat) (es : List (Edge × R)) (hN : nodes.Nodup)
    (hE : ∀ e ∈ es, ∀ x ∈ e.1, x ∈ nodes)
    (i j : Nat) (hi : i < (classes nodes).length) (hj : j < (classes nodes).length) :
    entry (laplacian d nodes es) i j
      = some (((d + 1 : Nat) : R) * (if i = j then ((degree d es (classes nodes)[i] : Nat) : R) else 0)
              - gram d es (classes nodes)[i] (classes nodes)[j]) := by
  unfold laplacian
  simp only
  rw [gramMatrix_eq d nodes es hN hE, entry_matSub, entry_smul, degMatrix_eq,
    entry_diag _ i j (by simpa using hi) (by simpa using hj), entry_map_map _ _ _ i j hi hj]
  simp

/-- row `i` of the Laplacian -/
theorem lap_row (d : Nat) (nodes : List Nat) (es : List (Edge × R)) (hN : nodes.Nodup)
    (hE : ∀ e ∈ es, ∀ x ∈ e.1, x ∈ nodes) (i : Nat) (hi : i < (classes nodes).length) :
    (laplacian d nodes es)[i]? = some (List.zipWith (· - ·)
      ((List.range (classes nodes).length).map fun j =>
          ((d + 1 : Nat) : R) * (if i = j then ((degree d es (classes nodes)[i] : Nat) : R) else 0))
      ((classes nodes).map fun y => gram d es (classes nodes)[i] y)) := by
  unfold laplacian
  simp only
  rw [gramMatrix_eq d nodes es hN hE, degMatrix_eq]
  simp [matSub, smul, diag, hi]

/-- sum over all nodes `y` of the Gram entries of `x`, unweighted: every hyperedge of order `d` through `x`
is counted once per member, i.e. `d + 1` times -/
theorem sum_gram_unweighted (d : Nat) (nodes : List Nat) (es : List (Edge × R))
    (hE : ∀ e ∈ es, ∀ x ∈ e.1, x ∈ nodes) (hD : ∀ e ∈ es, e.1.Nodup) (hW : ∀ e ∈ es, e.2 = 1) (x : Nat) :
    ((classes nodes).map fun y => gram d es x y).sum = ((d + 1 : Nat) : R) * ((degree d es x : Nat) : R) := by
  unfold gram
  rw [sum_map_sum_comm]
  have : ((ofOrder d es).map fun e => ((classes nodes).map fun y =>
        (ind (decide (x ∈ e.1)) * e.2) * (ind (decide (y ∈ e.1)) * e.2)).sum)
      = (ofOrder d es).map fun e => ((d + 1 : Nat) : R) * ind (decide (x ∈ e.1)) := by
    apply List.map_congr_left
    intro e he
    have hm := (mem_ofOrder d es e).1 he
    rw [hW e hm.1]
    simp only [mul_one]
    rw [sum_map_mul_left', sum_map_ind,
      countP_mem_of_subset (classes nodes) e.1 (classes_nodup nodes) (hD e hm.1)
        (fun y hy => (mem_classes y nodes).2 (hE e hm.1 y hy)), hm.2]
    ring
  rw [this, sum_map_mul_left', sum_map_ind, degree_eq_countP, ofOrder, List.countP_filter]
  congr 3
  funext e
  simp [Bool.and_comm]

end C09
