import Hgxv.Proofs.C01SubEdges
/-! C01, extension round: `subhypergraph_by_orders(.., keep_nodes=False)` in declarative terms.  Core Lean only. -/
namespace C01
open AL

/-- the loop `add_edge(e, get_weight(e), get_edge_metadata(e))` over keys of `a` that are new to `h`; the nodes of the
hyperedges come along -/
theorem spec_copyEdges_touch (a : Spec) (ha : SWF a) : ∀ (es : List Edge) (h : Spec), es.Nodup →
    (∀ e ∈ es, (get? a.edges e).isSome) → (∀ e ∈ es, get? h.edges e = none) → h.weighted = a.weighted →
    (seqOps (Spec.copyEdge a) h es).2 = .ok ∧
    (seqOps (Spec.copyEdge a) h es).1.weighted = h.weighted ∧
    (seqOps (Spec.copyEdge a) h es).1.hmeta = h.hmeta ∧
    keys (seqOps (Spec.copyEdge a) h es).1.edges = keys h.edges ++ es ∧
    (∀ x, get? (seqOps (Spec.copyEdge a) h es).1.edges x = if x ∈ es then get? a.edges x else get? h.edges x) ∧
    (∀ m, get? (seqOps (Spec.copyEdge a) h es).1.nodes m
      = if (get? h.nodes m).isSome then get? h.nodes m else if m ∈ es.flatten then some [] else none) := by
  intro es
  induction es with
  | nil =>
    intro h _ _ _ _
    refine ⟨rfl, rfl, rfl, by simp [seqOps], fun x => by simp [seqOps], fun m => ?_⟩
    cases hm : get? h.nodes m <;> simp [seqOps, hm]
  | cons e es ih =>
    intro h hnd hpres hfree hw
    obtain ⟨v, hv⟩ := Option.isSome_iff_exists.mp (hpres e List.mem_cons_self)
    obtain ⟨w0, md0⟩ := v
    obtain ⟨_, hcan, _⟩ := ha.key e (hpres e List.mem_cons_self)
    have hval : (if h.weighted then (if a.weighted then some (Spec.weightOf a e) else none).getD one else one) = w0 := by
      rw [hw, (spec_weightOf_get a e w0 md0 hv).1]
      cases hwt : a.weighted with
      | true => simp
      | false => simp [ha.unw hwt e w0 md0 hv]
    have hstep : Spec.copyEdge a h e =
        ({ h with edges := h.edges ++ [(e, (w0, md0))], nodes := e.foldl touchMeta h.nodes }, .ok) := by
      unfold Spec.copyEdge
      rw [spec_addEdge_new h e _ _ hcan ?_ (hfree e List.mem_cons_self), hval, (spec_weightOf_get a e w0 md0 hv).2]
      · rfl
      · rw [hw]; cases a.weighted <;> simp
    simp only [seqOps, hstep]
    have hne : ∀ x ∈ es, x ≠ e := fun x hx hxe => (List.nodup_cons.mp hnd).1 (hxe ▸ hx)
    have happ : h.edges ++ [(e, (w0, md0))] = AL.set h.edges e (w0, md0) :=
      (set_of_not_mem _ _ _ (hfree e List.mem_cons_self)).symm
    obtain ⟨r1, r2, r3, r4, r5, r6⟩ := ih
      { h with edges := h.edges ++ [(e, (w0, md0))], nodes := e.foldl touchMeta h.nodes } (List.nodup_cons.mp hnd).2
      (fun x hx => hpres x (List.mem_cons_of_mem _ hx))
      (fun x hx => by
        show get? (h.edges ++ [(e, (w0, md0))]) x = none
        rw [happ, get?_set_ne _ _ _ _ (fun h' => hne x hx h'.symm)]
        exact hfree x (List.mem_cons_of_mem _ hx)) hw
    refine ⟨r1, r2, r3, ?_, ?_, ?_⟩
    · rw [r4]
      show keys (h.edges ++ [(e, (w0, md0))]) ++ es = keys h.edges ++ e :: es
      simp [keys]
    · intro x
      rw [r5 x]
      show (if x ∈ es then _ else get? (h.edges ++ [(e, (w0, md0))]) x) = _
      rw [happ, get?_set]
      by_cases hxe : x = e
      · subst hxe
        have : x ∉ es := (List.nodup_cons.mp hnd).1
        simp [this, hv]
      · have : ¬ e = x := fun h' => hxe h'.symm
        simp [hxe, this]
    · intro m
      rw [r6 m]
      show (if (get? (e.foldl touchMeta h.nodes) m).isSome then get? (e.foldl touchMeta h.nodes) m
            else if m ∈ es.flatten then some [] else none) = _
      rw [touchFold_get]
      by_cases hm : (get? h.nodes m).isSome = true
      · simp [hm]
      · by_cases hme : m ∈ e
        · simp [hm, hme]
        · simp [hm, hme]

/-- outcome and result of `subhypergraph_by_orders(orders, sizes, keep_nodes=False)` -/
theorem spec_subOrders_drop (a : Spec) (ha : SWF a) (os ks : Option (List Int)) (sz : List Int)
    (hsz : sizesArg os ks = some sz) :
    (Spec.subOrders a os ks false).2 = .ok ∧
    (Spec.subOrders a os ks false).1.weighted = a.weighted ∧
    (Spec.subOrders a os ks false).1.hmeta = initHMeta a.weighted [] ∧
    (∀ m, get? (Spec.subOrders a os ks false).1.nodes m =
      if m ∈ (edgesOfSizes sz (keys a.edges)).flatten then get? a.nodes m else none) ∧
    keys (Spec.subOrders a os ks false).1.edges = edgesOfSizes sz (keys a.edges) ∧
    ∀ x, get? (Spec.subOrders a os ks false).1.edges x = if (x.length : Int) ∈ sz then get? a.edges x else none := by
  generalize hes : edgesOfSizes sz (keys a.edges) = es
  have hes_mem : ∀ e, e ∈ es ↔ e ∈ keys a.edges ∧ (e.length : Int) ∈ sz := by
    intro e; rw [← hes]; exact mem_edgesOfSizes_iff _ _ _
  have hnd : es.Nodup := by rw [← hes]; exact nodup_edgesOfSizes _ _ ha.knd
  have hpres : ∀ e ∈ es, (get? a.edges e).isSome := fun e he => (mem_keys_iff _ _).mp ((hes_mem e).mp he).1
  obtain ⟨i1, i2, i3, i4, i5, i6⟩ := spec_copyEdges_touch a ha es (Spec.new a.weighted []) hnd hpres (fun e _ => rfl) rfl
  unfold Spec.subOrders
  rw [hsz]
  simp only [Bool.false_eq_true, if_false, andThen, hes]
  generalize hh2 : seqOps (Spec.copyEdge a) (Spec.new a.weighted []) es = r2 at i1 i2 i3 i4 i5 i6
  obtain ⟨h2, o2⟩ := r2
  simp only at i1 i2 i3 i4 i5 i6
  subst i1
  simp only []
  have hnew : ∀ m, get? (Spec.new a.weighted []).nodes m = none := fun m => rfl
  have h2nodes : ∀ m, get? h2.nodes m = if m ∈ es.flatten then some [] else none := by
    intro m; rw [i6 m, hnew m]; simp
  have h2in : ∀ m, (get? h2.nodes m).isSome → (get? a.nodes m).isSome := by
    intro m hm
    rw [h2nodes m] at hm
    by_cases hfl : m ∈ es.flatten
    · obtain ⟨e, he, hme⟩ := List.mem_flatten.mp hfl
      exact (ha.key e (hpres e he)).2.2 m hme
    · simp [hfl] at hm
  obtain ⟨b1, b2⟩ := spec_copyNodeMetas a (keys h2.nodes) h2 (fun n hn => (mem_keys_iff _ _).mp hn)
  have hall : ∀ n ∈ keys h2.nodes, (get? a.nodes n).isSome := fun n hn => h2in n ((mem_keys_iff _ _).mp hn)
  have b1' := b1.mpr hall
  obtain ⟨c1, c2, c3, c4⟩ := b2 hall
  generalize hh3 : seqOps (Spec.copyNodeMeta a) h2 (keys h2.nodes) = r3 at b1' c1 c2 c3 c4
  obtain ⟨h3, o3⟩ := r3
  simp only at b1' c1 c2 c3 c4
  subst b1'
  refine ⟨rfl, ?_, ?_, ?_, ?_, ?_⟩
  · rw [c2, i2]; rfl
  · rw [c3, i3]; rfl
  · intro m
    rw [c4 m]
    by_cases hk : m ∈ keys h2.nodes
    · have hs : (get? h2.nodes m).isSome := (mem_keys_iff _ _).mp hk
      rw [h2nodes m] at hs
      have hfl : m ∈ es.flatten := by
        by_cases hfl : m ∈ es.flatten
        · exact hfl
        · simp [hfl] at hs
      simp only [hk, if_true, hfl]
    · have hnone : get? h2.nodes m = none := (get?_eq_none_iff _ _).mpr hk
      simp only [hk, if_false, hnone]
      rw [h2nodes m] at hnone
      have hfl : m ∉ es.flatten := by
        intro hfl
        simp [hfl] at hnone
      simp [hfl]
  · rw [c1, i4]; rfl
  · intro x
    rw [c1, i5 x]
    by_cases hx : x ∈ es
    · simp only [hx, if_true, ((hes_mem x).mp hx).2]
    · simp only [hx, if_false]
      have hnil : get? (Spec.new a.weighted []).edges x = none := rfl
      rw [hnil]
      by_cases hsize : (x.length : Int) ∈ sz
      · have hnk : x ∉ keys a.edges := fun hk => hx ((hes_mem x).mpr ⟨hk, hsize⟩)
        simp only [hsize, if_true]
        exact ((get?_eq_none_iff _ _).mpr hnk).symm
      · simp [hsize]

end C01
