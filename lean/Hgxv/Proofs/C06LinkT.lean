import Hgxv.Proofs.C06Link
import Hgxv.Proofs.C03Ref
/-! # C06 ↔ C03 (`TemporalHypergraph`): the content-level `add_node` / `add_edge` of `Model/C06.lean` are the
operations of `C03.Spec` (for times that are non-negative integers, the only ones a C06 key can carry), and every
reachable state of the full model is a well-formed C06 content.  Core Lean only. -/
namespace C06

def tkey (k : C03.Key) : TKey := ⟨k.1, k.2⟩

theorem tkey_inj : ∀ a b : C03.Key, tkey a = tkey b → a = b := by
  intro a b h
  obtain ⟨a1, a2⟩ := a
  obtain ⟨b1, b2⟩ := b
  simp only [tkey, TKey.mk.injEq] at h
  rw [h.1, h.2]

/-- the abstract state of the full `TemporalHypergraph` model as a C06 content -/
def ofSpec03 (a : C03.Spec) : Content TKey := ofTables tkey a.weighted a.hmeta a.nodes a.recs

theorem insertSorted03 (a : Nat) (l : List Nat) : C03.insertSorted a l = Wire.insertSorted a l := by
  induction l with
  | nil => rfl
  | cons b bs ih => simp [C03.insertSorted, Wire.insertSorted, ih]

theorem canon03 (l : List Nat) : C03.canon l = sort l := by
  unfold C03.canon sort Wire.sortNats
  induction l with
  | nil => rfl
  | cons a t ih => simp only [List.foldr_cons, ih, insertSorted03]

/-! ## the spec operations as table updates -/

theorem touchTable03 (t : List (Nat × TMeta)) (n : Nat) : C03.touchTable t n = tAddNode t n [] := by
  unfold C03.touchTable tAddNode
  cases h : AL.get? t n with
  | none => simp
  | some old =>
    cases old with
    | nil => simp [AL_set_same t n [] h]
    | cons x xs => simp

theorem fillTouch03 (t : List (Nat × TMeta)) (n : Nat) (md : TMeta) :
    C03.fillTable (C03.touchTable t n) n md = tAddNode t n md := by
  unfold C03.fillTable C03.touchTable tAddNode
  cases h : AL.get? t n with
  | none => simp [AL_set_set]
  | some old =>
    cases old with
    | nil => simp [h]
    | cons x xs => simp [h]

theorem touchAll03 (l : List Nat) (t : List (Nat × TMeta)) : l.foldl C03.touchTable t = tTouchAll t l := by
  unfold tTouchAll
  induction l generalizing t with
  | nil => rfl
  | cons n l ih => simp only [List.foldl_cons]; rw [ih, touchTable03]

theorem spec03_addNode (a : C03.Spec) (n : Nat) (md : Option C03.Meta) :
    C03.Spec.addNode a n md = { a with nodes := tAddNode a.nodes n (md.getD []) } := by
  unfold C03.Spec.addNode; rw [fillTouch03]

theorem rejects03 (wtd : Bool) (w : Option Int) :
    (!wtd && w.isSome && w != some C03.one) = rejectsWeight wtd w := by
  cases w with
  | none => simp [rejectsWeight]
  | some q =>
    have : C03.one = unit := rfl
    cases wtd <;> simp [rejectsWeight, this, bne]

theorem recVal03 (wtd : Bool) (old : Option (Int × TMeta)) (w : Option Int) (md : TMeta)
    (h : ¬ rejectsWeight wtd w = true) :
    C03.Spec.recVal wtd old (weightOrUnit w) md = tEntry wtd old (weightOrUnit w) md := by
  cases old with
  | none => simp only [C03.Spec.recVal, tEntry, accepted_weight wtd w h]
  | some o => rfl

theorem spec03_addEdge (a : C03.Spec) (raw : List Nat) (t : Nat) (w : Option Int) (md : Option C03.Meta) :
    C03.Spec.addEdge a raw (.int t) w md =
      if rejectsWeight a.weighted w then (a, .rej)
      else ({ a with
                recs := AL.set a.recs (t, C03.canon raw)
                  (tEntry a.weighted (AL.get? a.recs (t, C03.canon raw)) (weightOrUnit w) (md.getD []))
                nodes := tTouchAll a.nodes (C03.canon raw) }, .ok) := by
  unfold C03.Spec.addEdge
  simp only [rejects03]
  by_cases hr : rejectsWeight a.weighted w = true
  · simp [hr]
  · have hneg : ¬ ((t : Int) < 0) := by omega
    have hw : w.getD C03.one = weightOrUnit w := by cases w <;> rfl
    simp only [hr, Bool.false_eq_true, if_false, hneg, Int.toNat_natCast, C03.Spec.addKey, hw,
      recVal03 a.weighted _ w _ hr, touchAll03]

/-! ## the link -/

theorem link_addNode03 (a : C03.Spec) (n : Nat) (md : Option C03.Meta) :
    ofSpec03 (C03.Spec.addNode a n md) = addNode (ofSpec03 a) n (md.map decMeta) := by
  rw [spec03_addNode]; unfold ofSpec03; rw [addNode_ofTables]

/-- `add_edge(edge, time, weight, metadata)` of the spec with a time `t ≥ 0` is C06's `addEdge` on the content, accepted
and rejected alike (`C03.Spec.addEdge` additionally rejects times that are not non-negative integers: no C06 key has
such a time) -/
theorem link_addEdge03 (a : C03.Spec) (raw : List Nat) (t : Nat) (w : Option Int) (md : Option C03.Meta) :
    addEdge (ofSpec03 a) ⟨t, raw⟩ w (md.map decMeta) =
      match C03.Spec.addEdge a raw (.int t) w md with
      | (a', .ok) => some (ofSpec03 a')
      | (_, .rej) => none := by
  rw [spec03_addEdge]
  unfold ofSpec03
  rw [addEdge_ofTables tkey tkey_inj a.weighted a.hmeta a.nodes a.recs ⟨t, raw⟩ (t, C03.canon raw)
    (by show (⟨t, sort raw⟩ : TKey) = tkey (t, C03.canon raw); simp [tkey, canon03])]
  by_cases hr : rejectsWeight a.weighted w = true
  · simp [hr]
  · simp only [hr, Bool.false_eq_true, if_false]
    have : Kind.touchAlways TKey = true := rfl
    simp only [this, Bool.true_or, if_true]
    rfl

theorem link_new03 (w : Bool) :
    ofSpec03 (C03.Spec.new w) = setHMeta (construct TKey w) (decMeta (C03.Spec.new w).hmeta) := rfl

theorem link_setHMeta03 (a : C03.Spec) (hm : C03.Meta) :
    ofSpec03 (C03.Spec.applyOp a (.setHMeta hm)).1 = setHMeta (ofSpec03 a) (decMeta hm) := rfl

theorem ofSpec03_onto (c : Content TKey) : ∃ a : C03.Spec, ofSpec03 a = c :=
  ⟨{ weighted := c.weighted, hmeta := encMeta c.hmeta, nodes := mapKV id encMeta c.nodes,
     recs := mapKV (fun k : TKey => (k.time, k.nodes)) (fun v => (v.1, encMeta v.2)) c.edges },
   ofTables_enc tkey (fun k : TKey => (k.time, k.nodes)) (fun _ => rfl) c⟩

/-! ## `load_hypergraph` replays the records on `C03.Spec` -/

/-- the spec's own entry points, as `load_hypergraph` uses them: `TemporalHypergraph(weighted=w)` then
`set_hypergraph_metadata`, `add_node(n, md)`, `add_edge(nodes, time, weight, md)` -/
def specT : SpecOps TKey C03.Spec where
  of := ofSpec03
  new w hm := (C03.Spec.applyOp (C03.Spec.new w) (.setHMeta hm)).1
  addNode a n md := (C03.Spec.applyOp a (.addNode n (some md))).1
  addEdge a k w md :=
    match C03.Spec.applyOp a (.addEdge k.nodes (.int k.time) w (some md)) with
    | (a', .ok) => some a'
    | (_, .rej) => none
  okKey _ := True
  of_new w hm := rfl
  of_addNode a n md := link_addNode03 a n (some md)
  of_addEdge a k w md _ := by
    have h := link_addEdge03 a k.nodes k.time w (some md)
    simp only [Option.map_some] at h
    rw [h]
    simp only [C03.Spec.applyOp]
    cases C03.Spec.addEdge a k.nodes (.int k.time) w (some md) with
    | mk a' o => cases o <;> rfl

/-! ## reachable states of the full model are well-formed contents -/

theorem WF_ofSpec03_abs (s : C03.Store) (h : C03.Inv s) : WF (ofSpec03 (C03.abs s)) := by
  unfold ofSpec03
  apply WF_ofTables tkey tkey_inj
  · exact h.nt.nmetaNodup
  · show (AL.keys (C03.records s)).Nodup
    rw [C03.keys_records]; exact h.keysNodup
  · intro k hk
    have hk' : k ∈ AL.keys s.edgeList := by
      have : k ∈ AL.keys (C03.records s) := hk
      rwa [C03.keys_records] at this
    obtain ⟨id, hid⟩ := AL_get?_isSome_of_mem _ _ hk'
    show (⟨k.1, sort k.2⟩ : TKey) = ⟨k.1, k.2⟩
    rw [sort_of_sorted _ (h.keyCanon k id hid).1]
  · intro k hk n hn
    have hk' : k ∈ AL.keys s.edgeList := by
      have : k ∈ AL.keys (C03.records s) := hk
      rwa [C03.keys_records] at this
    obtain ⟨id, hid⟩ := AL_get?_isSome_of_mem _ _ hk'
    have h1 := (h.nt.same n).mp (h.nodes_in k id hid n hn)
    show n ∈ AL.keys s.nmeta
    apply Decidable.byContradiction
    intro hc
    rw [AL_get?_none_of_not_mem _ _ hc] at h1
    cases h1
  · intro hw e he
    have he' : e ∈ C03.records s := he
    simp only [C03.records, List.mem_map] at he'
    obtain ⟨p, hp, rfl⟩ := he'
    have hid : AL.get? s.edgeList p.1 = some p.2 := AL_get?_of_mem_nodup _ _ _ h.keysNodup hp
    have hsome : (AL.get? s.weights p.2).isSome = true :=
      (h.wKeys p.2).mpr (by rw [h.rev_of_edge _ _ hid]; rfl)
    obtain ⟨w0, hw0⟩ := Option.isSome_iff_exists.mp hsome
    show (AL.get? s.weights p.2).getD C03.one = unit
    rw [hw0]
    exact h.unw hw p.2 w0 hw0

/-- every object after every history of well-formed public calls -/
theorem WF_ofSpec03_reachable (s : C03.Store) (hs : C03.Reachable s) : WF (ofSpec03 (C03.abs s)) :=
  WF_ofSpec03_abs s (C03.reachable_inv hs)

/-! ## one step on the concrete store (`C03.applyOp_abs`) -/

theorem link_store_addNode03 (s : C03.Store) (h : C03.Inv s) (n : Nat) (md : Option C03.Meta) :
    ofSpec03 (C03.abs (C03.applyOp s (.addNode n md)).1) = addNode (ofSpec03 (C03.abs s)) n (md.map decMeta) := by
  have hs := (C03.applyOp_abs s h (.addNode n md) trivial).1
  rw [hs]
  exact link_addNode03 (C03.abs s) n md

theorem link_store_addEdge03 (s : C03.Store) (h : C03.Inv s) (raw : List Nat) (hraw : raw.Nodup) (t : Nat)
    (w : Option Int) (md : Option C03.Meta) :
    addEdge (ofSpec03 (C03.abs s)) ⟨t, raw⟩ w (md.map decMeta) =
      match C03.applyOp s (.addEdge raw (.int t) w md) with
      | (s', .ok) => some (ofSpec03 (C03.abs s'))
      | (_, .rej) => none := by
  obtain ⟨h1, h2⟩ := C03.applyOp_abs s h (.addEdge raw (.int t) w md) hraw
  rw [link_addEdge03]
  simp only [C03.Spec.applyOp] at h1 h2
  revert h1 h2
  generalize C03.applyOp s (.addEdge raw (.int t) w md) = r
  generalize C03.Spec.addEdge (C03.abs s) raw (.int t) w md = q
  obtain ⟨s', o1⟩ := r
  obtain ⟨a', o2⟩ := q
  intro h1 h2
  simp only at h1 h2
  subst h1 h2
  cases o1 <;> rfl

/-! ## `load_hypergraph` builds an object of the id-indexed model -/

theorem match_outT {β : Type} (r : C03.Store × C03.Out) (g : C03.Store → β) :
    (match r with
      | (s', .ok) => some (g s')
      | (_, .rej) => none) = if r.2 = .ok then some (g r.1) else none := by
  obtain ⟨s', o⟩ := r
  cases o <;> simp

abbrev StoreT := { s : C03.Store // C03.Inv s }

def storeT : SpecOps TKey StoreT where
  of s := ofSpec03 (C03.abs s.1)
  new w hm := ⟨(C03.applyOp (C03.Store.new w) (.setHMeta hm)).1, C03.applyOp_inv _ (C03.inv_new w) (.setHMeta hm) trivial⟩
  addNode s n md := ⟨(C03.applyOp s.1 (.addNode n (some md))).1, C03.applyOp_inv _ s.2 (.addNode n (some md)) trivial⟩
  addEdge s k w md :=
    if hk : k.nodes.Nodup then
      if (C03.applyOp s.1 (.addEdge k.nodes (.int k.time) w (some md))).2 = .ok then
        some ⟨(C03.applyOp s.1 (.addEdge k.nodes (.int k.time) w (some md))).1,
          C03.applyOp_inv _ s.2 (.addEdge k.nodes (.int k.time) w (some md)) hk⟩
      else none
    else none
  okKey k := k.nodes.Nodup
  of_new w hm := rfl
  of_addNode s n md := link_store_addNode03 s.1 s.2 n (some md)
  of_addEdge s k w md hk := by
    have h := link_store_addEdge03 s.1 s.2 k.nodes hk k.time w (some md)
    simp only [Option.map_some] at h
    rw [h]
    rw [match_outT]
    simp only [dif_pos hk]
    split <;> rfl

theorem okKeys03 (s : C03.Store) (h : C03.Inv s) : ∀ e ∈ (ofSpec03 (C03.abs s)).edges, storeT.okKey e.1 := by
  intro e he
  obtain ⟨p, hp, rfl⟩ := (mem_mapKV tkey decVal2 _ e).mp he
  have hk : p.1 ∈ AL.keys (C03.records s) := List.mem_map.mpr ⟨p, hp, rfl⟩
  rw [C03.keys_records] at hk
  obtain ⟨id, hid⟩ := AL_get?_isSome_of_mem _ _ hk
  exact (h.keyCanon p.1 id hid).2

end C06
