import Hgxv.Model.C12Ext
/-! Helper lemmas of the C12 extension round (core Lean only): the Python loops compute the closed forms. -/
set_option linter.unusedSimpArgs false
namespace C12

/-! ## generic fold lemmas -/

theorem foldl_if {α β : Type} (c : α → Bool) (f : β → α → β) (es : List α) (b : β) :
    es.foldl (fun t e => if c e then f t e else t) b = (es.filter c).foldl f b := by
  induction es generalizing b with
  | nil => rfl
  | cons e t ih =>
    by_cases h : c e = true
    · simp [List.filter_cons, h, ih]
    · have h' : c e = false := by simpa using h
      simp [List.filter_cons, h', ih]

theorem foldl_append_if {α β : Type} (c : α → Bool) (g : α → List β) (es : List α) (init : List β) :
    es.foldl (fun acc e => if c e then acc ++ g e else acc) init = init ++ (es.filter c).flatMap g := by
  induction es generalizing init with
  | nil => simp
  | cons e t ih =>
    by_cases h : c e = true
    · simp [List.filter_cons, h, ih, List.append_assoc]
    · have h' : c e = false := by simpa using h
      simp [List.filter_cons, h', ih]

/-! ## `tab[i] += 1` loops -/

theorem length_bump (t : List Nat) (i : Nat) : (bump t i).length = t.length := by
  induction t generalizing i with
  | nil => rfl
  | cons x xs ih => cases i <;> simp [bump, ih]

theorem getElem?_bump (t : List Nat) (i j : Nat) :
    (bump t i)[j]? = if i = j then t[j]?.map (· + 1) else t[j]? := by
  induction t generalizing i j with
  | nil => simp [bump]
  | cons x xs ih =>
    cases i with
    | zero => cases j <;> simp [bump]
    | succ i => cases j with
      | zero => simp [bump]
      | succ j => simp [bump, ih]

theorem foldl_bump (key : DEdge → Nat) (es : List DEdge) (t : List Nat) (j : Nat) :
    (es.foldl (fun t e => bump t (key e)) t)[j]? =
      t[j]?.map (· + (es.filter (fun e => key e == j)).length) := by
  induction es generalizing t with
  | nil => simp
  | cons e es ih =>
    rw [List.foldl_cons, ih, getElem?_bump]
    by_cases h : key e = j
    · cases ht : t[j]? <;> simp [h, List.filter_cons]; omega
    · simp [h, List.filter_cons]

/-- the counting loop computes, for every index of the table, the number of items with that key -/
theorem countLoop_eq (key : DEdge → Nat) (n : Nat) (es : List DEdge) :
    countLoop key n es = (List.range n).map (fun j => (es.filter (fun e => key e == j)).length) := by
  apply List.ext_getElem?
  intro j
  unfold countLoop
  rw [foldl_bump]
  by_cases hj : j < n
  · simp [List.getElem?_replicate, hj, List.getElem?_range hj]
  · simp [List.getElem?_replicate, hj]

theorem countLoopIf_eq (c : DEdge → Bool) (key : DEdge → Nat) (n : Nat) (es : List DEdge) :
    countLoopIf c key n es = countLoop key n (es.filter c) := by
  unfold countLoopIf countLoop; exact foldl_if c _ es _

theorem countLoopIf_getD (c : DEdge → Bool) (key : DEdge → Nat) (n : Nat) (es : List DEdge) (k : Nat) (hk : k < n) :
    (countLoopIf c key n es).getD k 0 = ((es.filter c).filter (fun e => key e == k)).length := by
  rw [countLoopIf_eq, countLoop_eq, List.getD_eq_getElem?_getD]
  simp [List.getElem?_range hk, hk]

/-! ## `reciprocity.py`: the tables the loops build -/

theorem bounded_eq_filter (m : Nat) (es : List DEdge) : bounded m es = es.filter (inBound m) := rfl

theorem foldl_dictAdd_nodup {α : Type} [BEq α] [LawfulBEq α] (es : List α) (init : List α) (hn : es.Nodup)
    (hd : ∀ e ∈ es, e ∉ init) : es.foldl dictAdd init = init ++ es := by
  induction es generalizing init with
  | nil => simp
  | cons e t ih =>
    have hne : e ∉ init := hd e List.mem_cons_self
    have hn' := List.nodup_cons.mp hn
    rw [List.foldl_cons]
    have h1 : dictAdd init e = init ++ [e] := by
      unfold dictAdd
      have : init.contains e = false := by simpa using hne
      rw [this]; rfl
    rw [h1, ih (init ++ [e]) hn'.2]
    · simp
    · intro x hx hmem
      rcases List.mem_append.mp hmem with h | h
      · exact hd x (List.mem_cons_of_mem _ hx) h
      · have : x = e := by simpa using h
        subst this; exact hn'.1 hx

/-- on the duplicate-free listing `get_edges()` the dict `edge_set` has exactly the bounded set as its keys, in order -/
theorem edgeSetLoop_eq (es : List DEdge) (m : Nat) (hn : es.Nodup) : edgeSetLoop es m = bounded m es := by
  unfold edgeSetLoop
  rw [foldl_if (inBound m) dictAdd es [], bounded_eq_filter,
    foldl_dictAdd_nodup _ [] ((List.filter_sublist).nodup hn) (fun _ _ h => by cases h)]
  rfl

theorem mem_foldl_dictAdd {α : Type} [BEq α] [LawfulBEq α] (ps : List α) (acc : List α) (p : α) :
    p ∈ ps.foldl dictAdd acc ↔ p ∈ acc ∨ p ∈ ps := by
  induction ps generalizing acc with
  | nil => simp
  | cons q ps ih =>
    rw [List.foldl_cons, ih]
    have : p ∈ dictAdd acc q ↔ p ∈ acc ∨ p = q := by
      unfold dictAdd
      by_cases hc : acc.contains q = true
      · rw [if_pos hc]
        have hq : q ∈ acc := by simpa using hc
        constructor
        · exact Or.inl
        · rintro (h | rfl)
          · exact h
          · exact hq
      · rw [if_neg hc]; simp
    rw [this, List.mem_cons, or_assoc]

/-- in general `edge_set` has the same members as the bounded set (duplicates in the listing are stored once) -/
theorem mem_edgeSetLoop (es : List DEdge) (m : Nat) (e : DEdge) : e ∈ edgeSetLoop es m ↔ e ∈ bounded m es := by
  unfold edgeSetLoop
  rw [foldl_if (inBound m) dictAdd es [], bounded_eq_filter, mem_foldl_dictAdd]
  simp

theorem mem_foldl_binStep (es : List DEdge) (acc : List (Nat × Nat)) (p : Nat × Nat) :
    p ∈ es.foldl binStep acc ↔ p ∈ acc ∨ ∃ f ∈ es, p ∈ pairsOf f := by
  induction es generalizing acc with
  | nil => simp
  | cons e es ih =>
    rw [List.foldl_cons, ih]
    unfold binStep
    rw [mem_foldl_dictAdd]
    simp only [List.mem_cons, exists_eq_or_imp, or_assoc]

theorem mem_binLoop (es : List DEdge) (m : Nat) (p : Nat × Nat) :
    p ∈ binLoop es m ↔ ∃ f ∈ bounded m es, p.1 ∈ f.1 ∧ p.2 ∈ f.2 := by
  unfold binLoop
  rw [foldl_if (inBound m) binStep es [], mem_foldl_binStep, bounded_eq_filter]
  obtain ⟨a, b⟩ := p
  simp only [List.not_mem_nil, false_or, pairsOf, List.mem_flatMap, List.mem_map, Prod.mk.injEq]
  constructor
  · rintro ⟨f, hf, i, hi, j, hj, rfl, rfl⟩; exact ⟨f, hf, hi, hj⟩
  · rintro ⟨f, hf, hi, hj⟩; exact ⟨f, hf, a, hi, b, hj, rfl, rfl⟩

/-- `s in node_reach[n]` -/
def inTbl (tbl : List (Nat × List Nat)) (n s : Nat) : Prop := ∃ r, AL.get? tbl n = some r ∧ s ∈ r

theorem inTbl_nil (n s : Nat) : ¬ inTbl [] n s := by simp [inTbl]

theorem inTbl_reachInner (tgt : List Nat) (src : List Nat) (t : List (Nat × List Nat)) (n s : Nat) :
    inTbl (src.foldl (fun t k => AL.set t k (match AL.get? t k with
      | none => tgt
      | some r => r ++ tgt)) t) n s ↔ inTbl t n s ∨ (n ∈ src ∧ s ∈ tgt) := by
  induction src generalizing t with
  | nil => simp
  | cons k src ih =>
    rw [List.foldl_cons, ih]
    have step : inTbl (AL.set t k (match AL.get? t k with
        | none => tgt
        | some r => r ++ tgt)) n s ↔ inTbl t n s ∨ (k = n ∧ s ∈ tgt) := by
      unfold inTbl
      rw [AL.get?_set]
      by_cases hk : k = n
      · subst hk
        cases hg : AL.get? t k <;> simp [List.mem_append]
      · simp [hk]
    rw [step]
    simp only [List.mem_cons]
    constructor
    · rintro ((h | ⟨rfl, h⟩) | ⟨h1, h2⟩)
      · exact Or.inl h
      · exact Or.inr ⟨Or.inl rfl, h⟩
      · exact Or.inr ⟨Or.inr h1, h2⟩
    · rintro (h | ⟨(rfl | h1), h2⟩)
      · exact Or.inl (Or.inl h)
      · exact Or.inl (Or.inr ⟨rfl, h2⟩)
      · exact Or.inr ⟨h1, h2⟩

theorem inTbl_reachStep (t : List (Nat × List Nat)) (e : DEdge) (n s : Nat) :
    inTbl (reachStep t e) n s ↔ inTbl t n s ∨ (n ∈ e.1 ∧ s ∈ e.2) :=
  inTbl_reachInner e.2 e.1 t n s

theorem inTbl_foldl_reachStep (es : List DEdge) (t : List (Nat × List Nat)) (n s : Nat) :
    inTbl (es.foldl reachStep t) n s ↔ inTbl t n s ∨ ∃ f ∈ es, n ∈ f.1 ∧ s ∈ f.2 := by
  induction es generalizing t with
  | nil => simp
  | cons e es ih =>
    rw [List.foldl_cons, ih, inTbl_reachStep]
    simp only [List.mem_cons, exists_eq_or_imp, or_assoc]

/-- the dict `node_reach`: `s ∈ node_reach[n]` iff some hyperedge of the bounded set has `n` as a source and `s` as a target -/
theorem inTbl_reachLoop (es : List DEdge) (m : Nat) (n s : Nat) :
    inTbl (reachLoop es m) n s ↔ ∃ f ∈ bounded m es, n ∈ f.1 ∧ s ∈ f.2 := by
  unfold reachLoop
  rw [foldl_if (inBound m) reachStep es [], inTbl_foldl_reachStep, bounded_eq_filter]
  simp [inTbl_nil]

theorem mem_coveredFold (tbl : List (Nat × List Nat)) (T : List Nat) (c : List Nat) (s : Nat) :
    s ∈ T.foldl (coveredStep tbl) c ↔ s ∈ c ∨ ∃ t ∈ T, inTbl tbl t s := by
  induction T generalizing c with
  | nil => simp
  | cons t T ih =>
    rw [List.foldl_cons, ih]
    unfold coveredStep
    cases hg : AL.get? tbl t with
    | none => simp [inTbl, hg]
    | some r => simp [inTbl, hg, List.mem_append, or_assoc]

theorem mem_coveredLoop (tbl : List (Nat × List Nat)) (T : List Nat) (s : Nat) :
    s ∈ coveredLoop tbl T ↔ ∃ t ∈ T, inTbl tbl t s := by
  unfold coveredLoop; rw [mem_coveredFold]; simp

/-! ## the three tests of the second loops are the predicates of `Model/C12.lean` -/

theorem exactTest_eq (es : List DEdge) (m : Nat) (e : DEdge) :
    exactTest (edgeSetLoop es m) e = isExact (bounded m es) e := by
  rw [Bool.eq_iff_iff]
  simp only [exactTest, isExact, List.contains_iff_mem, mem_edgeSetLoop]

theorem strongTest_eq (es : List DEdge) (m : Nat) (e : DEdge) :
    strongTest (reachLoop es m) e = isStrong (bounded m es) e := by
  rw [Bool.eq_iff_iff]
  simp only [strongTest, isStrong, reach, List.all_eq_true, List.any_eq_true, List.contains_iff_mem,
    List.mem_flatMap, List.mem_filter, mem_coveredLoop, inTbl_reachLoop]
  constructor
  · intro h s hs
    obtain ⟨t, ht, f, hf, htf, hsf⟩ := h s hs
    exact ⟨t, ht, f, ⟨hf, htf⟩, hsf⟩
  · intro h s hs
    obtain ⟨t, ht, f, ⟨hf, htf⟩, hsf⟩ := h s hs
    exact ⟨t, ht, f, hf, htf, hsf⟩

theorem weakTest_eq (es : List DEdge) (m : Nat) (e : DEdge) :
    weakTest (binLoop es m) e = isWeak (bounded m es) e := by
  rw [Bool.eq_iff_iff]
  simp only [weakTest, isWeak, List.any_eq_true, List.contains_iff_mem, mem_binLoop, Bool.and_eq_true]

/-! ## the whole routine -/

theorem filter_congr_mem {α : Type} (p q : α → Bool) (l : List α) (h : ∀ x ∈ l, p x = q x) :
    l.filter p = l.filter q := List.filter_congr h

/-- the loops of a reciprocity routine (tot, edge_set, rec, division) give the table of the closed forms -/
theorem loop_table (test : DEdge → Bool) (p : List DEdge → DEdge → Bool) (es : List DEdge) (m : Nat)
    (hn : es.Nodup) (h : ∀ e, test e = p (bounded m es) e) :
    ratioLoop (recLoop test (edgeSetLoop es m) m) (totLoop es m) m = reciprocityTable p es m := by
  unfold ratioLoop reciprocityTable
  apply List.map_congr_left
  intro k hk
  have hk' : k < m + 1 := by
    have := (List.mem_filter.mp hk).1
    exact List.mem_range.mp this
  have e1 : (recLoop test (edgeSetLoop es m) m).getD k 0 = recCount p (bounded m es) k := by
    unfold recLoop recCount ofSize
    rw [countLoopIf_getD _ _ _ _ _ hk', edgeSetLoop_eq es m hn, List.filter_filter, List.filter_filter]
    congr 1
    apply List.filter_congr
    intro e _
    rw [h e, Bool.and_comm]
  have e2 : (totLoop es m).getD k 0 = total (bounded m es) k := by
    unfold totLoop total ofSize
    rw [countLoopIf_getD _ _ _ _ _ hk', bounded_eq_filter]
  rw [e1, e2]; rfl

/-! ## handshake: degree sums against side sizes -/

theorem sum_map_add {α : Type} (l : List α) (f g : α → Nat) :
    (l.map (fun x => f x + g x)).sum = (l.map f).sum + (l.map g).sum := by
  induction l with
  | nil => rfl
  | cons x l ih => simp only [List.map_cons, List.sum_cons, ih]; omega

theorem sum_map_ite {α : Type} (l : List α) (p : α → Bool) :
    (l.map (fun x => if p x then 1 else 0)).sum = l.countP p := by
  induction l with
  | nil => rfl
  | cons x l ih =>
    simp only [List.map_cons, List.sum_cons, ih, List.countP_cons]
    by_cases h : p x = true <;> simp [h]; omega

theorem sum_map_zero {α : Type} (l : List α) : (l.map (fun _ => 0)).sum = 0 := by
  induction l with
  | nil => rfl
  | cons x l ih => simp only [List.map_cons, List.sum_cons, ih]

/-- a duplicate-free list all of whose members are among the duplicate-free `nodes` is met by exactly its length
many of them -/
theorem countP_contains (nodes s : List Nat) (hn : nodes.Nodup) (hs : s.Nodup) (hsub : ∀ x ∈ s, x ∈ nodes) :
    nodes.countP (fun n => s.contains n) = s.length := by
  rw [List.countP_eq_length_filter]
  apply List.Perm.length_eq
  rw [List.perm_ext_iff_of_nodup ((List.filter_sublist).nodup hn) hs]
  intro a
  simp only [List.mem_filter, List.contains_iff_mem]
  constructor
  · intro h; exact h.2
  · intro h; exact ⟨hsub a h, h⟩

/-- generic handshake over one side `sd` of the hyperedges -/
theorem handshake_side (sd : DEdge → List Nat) (nodes : List Nat) (es : List DEdge) (size : Option Nat)
    (hn : nodes.Nodup) (hs : ∀ e ∈ es, (sd e).Nodup ∧ ∀ x ∈ sd e, x ∈ nodes) :
    (nodes.map (fun n => (es.filter (fun e => (sd e).contains n && passes size e)).length)).sum
      = ((es.filter (passes size)).map (fun e => (sd e).length)).sum := by
  induction es with
  | nil => simp [sum_map_zero]
  | cons e es ih =>
    have ih' := ih (fun f hf => hs f (List.mem_cons_of_mem _ hf))
    have he := hs e List.mem_cons_self
    have split : ∀ n, ((e :: es).filter (fun e => (sd e).contains n && passes size e)).length
        = (if ((sd e).contains n && passes size e) then 1 else 0)
          + (es.filter (fun e => (sd e).contains n && passes size e)).length := by
      intro n
      by_cases h : ((sd e).contains n && passes size e) = true
      · rw [List.filter_cons]; simp only [h, if_true, List.length_cons]; omega
      · rw [List.filter_cons]; simp only [h]; simp
    rw [List.map_congr_left (fun n _ => split n), sum_map_add, ih']
    by_cases hp : passes size e = true
    · rw [List.filter_cons_of_pos hp, List.map_cons, List.sum_cons]
      have : (nodes.map (fun n => if ((sd e).contains n && passes size e) then 1 else 0)).sum = (sd e).length := by
        rw [sum_map_ite]
        simp only [hp, Bool.and_true]
        exact countP_contains nodes (sd e) hn he.1 he.2
      rw [this]
    · rw [List.filter_cons_of_neg hp]
      have hp' : passes size e = false := by simpa using hp
      simp [hp', sum_map_zero]

theorem handshake_in (nodes : List Nat) (es : List DEdge) (size : Option Nat)
    (hn : nodes.Nodup) (hs : ∀ e ∈ es, e.1.Nodup ∧ ∀ x ∈ e.1, x ∈ nodes) :
    sumInDegrees nodes es size = sumSourceSizes es size :=
  handshake_side (·.1) nodes es size hn hs

theorem handshake_out (nodes : List Nat) (es : List DEdge) (size : Option Nat)
    (hn : nodes.Nodup) (hs : ∀ e ∈ es, e.2.Nodup ∧ ∀ x ∈ e.2, x ∈ nodes) :
    sumOutDegrees nodes es size = sumTargetSizes es size :=
  handshake_side (·.2) nodes es size hn hs

theorem sum_sides (es : List DEdge) (size : Option Nat) :
    sumSourceSizes es size + sumTargetSizes es size = ((selected es size).map esize).sum := by
  unfold sumSourceSizes sumTargetSizes esize
  rw [← sum_map_add]

theorem sum_const {α : Type} (l : List α) (f : α → Nat) (k : Nat) (h : ∀ x ∈ l, f x = k) :
    (l.map f).sum = k * l.length := by
  induction l with
  | nil => simp
  | cons x l ih =>
    simp only [List.map_cons, List.sum_cons, List.length_cons]
    rw [ih (fun y hy => h y (List.mem_cons_of_mem _ hy)), h x List.mem_cons_self, Nat.mul_succ]; omega

/-! ## the signature as the code accumulates it (2-d array, then `flatten`) -/

def at2 (M : List (List Nat)) (a b : Nat) : Option Nat := M[a]?.bind (·[b]?)

def Uniform (w : Nat) (M : List (List Nat)) : Prop := ∀ row ∈ M, row.length = w

theorem getElem?_bump2 (M : List (List Nat)) (r c a : Nat) :
    (bump2 M r c)[a]? = if r = a then M[a]?.map (fun row => bump row c) else M[a]? := by
  induction M generalizing r a with
  | nil => simp [bump2]
  | cons row rows ih =>
    cases r with
    | zero => cases a <;> simp [bump2]
    | succ r => cases a with
      | zero => simp [bump2]
      | succ a => simp [bump2, ih]

theorem at2_bump2 (M : List (List Nat)) (r c a b : Nat) :
    at2 (bump2 M r c) a b = if r = a ∧ c = b then (at2 M a b).map (· + 1) else at2 M a b := by
  unfold at2
  rw [getElem?_bump2]
  by_cases hr : r = a
  · subst hr
    cases hM : M[r]? with
    | none => simp
    | some row =>
      simp only [if_true, Option.map_some, Option.bind_some, true_and, getElem?_bump]
  · simp [hr]

theorem length_bump2 (M : List (List Nat)) (r c : Nat) : (bump2 M r c).length = M.length := by
  induction M generalizing r with
  | nil => rfl
  | cons row rows ih => cases r <;> simp [bump2, ih]

theorem uniform_bump2 (w : Nat) (M : List (List Nat)) (r c : Nat) (h : Uniform w M) : Uniform w (bump2 M r c) := by
  induction M generalizing r with
  | nil => exact h
  | cons row rows ih =>
    have h1 : row.length = w := h row List.mem_cons_self
    have h2 : Uniform w rows := fun x hx => h x (List.mem_cons_of_mem _ hx)
    cases r with
    | zero =>
      intro x hx
      simp only [bump2, List.mem_cons] at hx
      rcases hx with rfl | hx
      · rw [length_bump]; exact h1
      · exact h2 x hx
    | succ r =>
      intro x hx
      simp only [bump2, List.mem_cons] at hx
      rcases hx with rfl | hx
      · exact h1
      · exact ih r h2 x hx

theorem sigFold_inv (w : Nat) (sel : List DEdge) (M : List (List Nat)) (h : Uniform w M) :
    Uniform w (sel.foldl (fun M e => bump2 M (e.1.length - 1) (e.2.length - 1)) M) ∧
    (sel.foldl (fun M e => bump2 M (e.1.length - 1) (e.2.length - 1)) M).length = M.length := by
  induction sel generalizing M with
  | nil => exact ⟨h, rfl⟩
  | cons e sel ih =>
    rw [List.foldl_cons]
    have := ih (bump2 M (e.1.length - 1) (e.2.length - 1)) (uniform_bump2 w M _ _ h)
    exact ⟨this.1, by rw [this.2, length_bump2]⟩

theorem at2_sigFold (sel : List DEdge) (M : List (List Nat)) (a b : Nat) :
    at2 (sel.foldl (fun M e => bump2 M (e.1.length - 1) (e.2.length - 1)) M) a b =
      (at2 M a b).map (· + (sel.filter (fun e => e.1.length - 1 == a && e.2.length - 1 == b)).length) := by
  induction sel generalizing M with
  | nil => simp
  | cons e sel ih =>
    rw [List.foldl_cons, ih, at2_bump2]
    by_cases h : e.1.length - 1 = a ∧ e.2.length - 1 = b
    · cases hM : at2 M a b <;> simp [h, List.filter_cons]; omega
    · have h' : (e.1.length - 1 == a && e.2.length - 1 == b) = false := by
        simp only [Bool.and_eq_false_iff, beq_eq_false_iff_ne]
        by_cases h1 : e.1.length - 1 = a
        · exact Or.inr (fun h2 => h ⟨h1, h2⟩)
        · exact Or.inl h1
      simp [h, List.filter_cons, h']

theorem at2_zeros (n a b : Nat) (ha : a < n) (hb : b < n) :
    at2 (List.replicate n (List.replicate n 0)) a b = some 0 := by
  simp [at2, List.getElem?_replicate, ha, hb]

theorem uniform_zeros (n : Nat) : Uniform n (List.replicate n (List.replicate n 0)) := by
  intro row hrow
  rw [List.mem_replicate] at hrow
  rw [hrow.2, List.length_replicate]

theorem flatten_getElem? (w : Nat) (M : List (List Nat)) (hu : Uniform w M) (a b : Nat) (hb : b < w) :
    M.flatten[a * w + b]? = at2 M a b := by
  induction M generalizing a with
  | nil => simp [at2]
  | cons row rows ih =>
    have h1 : row.length = w := hu row List.mem_cons_self
    have h2 : Uniform w rows := fun x hx => hu x (List.mem_cons_of_mem _ hx)
    rw [List.flatten_cons]
    cases a with
    | zero =>
      rw [Nat.zero_mul, Nat.zero_add, List.getElem?_append_left (by omega)]
      simp [at2]
    | succ a =>
      have hge : row.length ≤ (a + 1) * w + b := by rw [h1, Nat.succ_mul]; omega
      rw [List.getElem?_append_right hge]
      have : (a + 1) * w + b - row.length = a * w + b := by rw [h1, Nat.succ_mul]; omega
      rw [this, ih h2 a]
      simp [at2]

theorem length_flatten_uniform (w : Nat) (M : List (List Nat)) (hu : Uniform w M) :
    M.flatten.length = M.length * w := by
  induction M with
  | nil => simp
  | cons row rows ih =>
    have h1 : row.length = w := hu row List.mem_cons_self
    have h2 : Uniform w rows := fun x hx => hu x (List.mem_cons_of_mem _ hx)
    rw [List.flatten_cons, List.length_append, ih h2, h1, List.length_cons, Nat.succ_mul]; omega

theorem divmod_unique (w x y : Nat) (hy : y < w) : (x * w + y) / w = x ∧ (x * w + y) % w = y := by
  have hw : 0 < w := by omega
  constructor
  · rw [Nat.mul_comm, Nat.mul_add_div hw, Nat.div_eq_of_lt hy, Nat.add_zero]
  · rw [Nat.mul_comm, Nat.mul_add_mod, Nat.mod_eq_of_lt hy]

/-- the flattened 2-d accumulation IS the flat closed form (non-empty sides: no index wraps) -/
theorem signatureLoop_eq (es : List DEdge) (m : Nat) (hne : ∀ e ∈ es, e.1 ≠ [] ∧ e.2 ≠ []) :
    signatureLoop es m = signature es m := by
  apply List.ext_getElem?
  intro idx
  have hinv := sigFold_inv (m - 1) (es.filter (fun e => esize e ≤ m)) _ (uniform_zeros (m - 1))
  rw [List.length_replicate] at hinv
  by_cases hidx : idx < (m - 1) * (m - 1)
  · have hw : 0 < m - 1 := by
      apply Nat.pos_of_ne_zero; intro h0; rw [h0] at hidx; omega
    have ha : idx / (m - 1) < m - 1 := (Nat.div_lt_iff_lt_mul hw).mpr hidx
    have hb : idx % (m - 1) < m - 1 := Nat.mod_lt _ hw
    have hdm : idx / (m - 1) * (m - 1) + idx % (m - 1) = idx := by
      rw [Nat.mul_comm]; exact Nat.div_add_mod idx (m - 1)
    have h1 := flatten_getElem? (m - 1) (signatureMatrix es m) hinv.1 (idx / (m - 1)) (idx % (m - 1)) hb
    rw [hdm] at h1
    unfold signatureLoop
    rw [h1]
    unfold signatureMatrix
    rw [at2_sigFold, at2_zeros _ _ _ ha hb]
    simp only [signature, List.getElem?_map, List.getElem?_range hidx, Option.map_some, Nat.zero_add]
    congr 2
    apply List.filter_congr
    intro e he
    have he' := List.mem_filter.mp he
    have hsz : esize e ≤ m := of_decide_eq_true he'.2
    have hl1 : 1 ≤ e.1.length := List.length_pos_iff.mpr (hne e he'.1).1
    have hl2 : 1 ≤ e.2.length := List.length_pos_iff.mpr (hne e he'.1).2
    have hy : e.2.length - 1 < m - 1 := by unfold esize at hsz; omega
    have hu := divmod_unique (m - 1) (e.1.length - 1) (e.2.length - 1) hy
    rw [Bool.eq_iff_iff]
    simp only [Bool.and_eq_true, beq_iff_eq, cellIndex]
    constructor
    · rintro ⟨h3, h4⟩; rw [h3, h4]; exact hdm
    · intro h; rw [← h]; exact ⟨hu.1.symm, hu.2.symm⟩
  · have l1 : (signatureLoop es m).length ≤ idx := by
      unfold signatureLoop
      have hu' : Uniform (m - 1) (signatureMatrix es m) := hinv.1
      have hl' : (signatureMatrix es m).length = m - 1 := hinv.2
      rw [length_flatten_uniform (m - 1) _ hu', hl']; omega
    have l2 : (signature es m).length ≤ idx := by
      simp only [signature, List.length_map, List.length_range]; omega
    rw [List.getElem?_eq_none l1, List.getElem?_eq_none l2]

/-! ## the reversed hypergraph -/

theorem esize_swap (e : DEdge) : esize (e.2, e.1) = esize e := by simp [esize, Nat.add_comm]

theorem passes_swap (size : Option Nat) (e : DEdge) : passes size (e.2, e.1) = passes size e := by
  cases size <;> simp [passes, esize_swap]

theorem inDegree_reverse (es : List DEdge) (size : Option Nat) (n : Nat) :
    inDegree (reverse es) size n = outDegree es size n := by
  unfold inDegree outDegree reverse
  rw [List.filter_map, List.length_map]
  congr 1
  apply List.filter_congr
  intro e _
  simp only [Function.comp]; rw [passes_swap]

theorem outDegree_reverse (es : List DEdge) (size : Option Nat) (n : Nat) :
    outDegree (reverse es) size n = inDegree es size n := by
  unfold inDegree outDegree reverse
  rw [List.filter_map, List.length_map]
  congr 1
  apply List.filter_congr
  intro e _
  simp only [Function.comp]; rw [passes_swap]

theorem bounded_reverse (m : Nat) (es : List DEdge) : bounded m (reverse es) = reverse (bounded m es) := by
  unfold bounded reverse
  rw [List.filter_map]
  congr 1
  apply List.filter_congr
  intro e _
  simp only [Function.comp]; rw [esize_swap]

theorem ofSize_reverse (k : Nat) (E : List DEdge) : ofSize k (reverse E) = reverse (ofSize k E) := by
  unfold ofSize reverse
  rw [List.filter_map]
  congr 1
  apply List.filter_congr
  intro e _
  simp only [Function.comp]; rw [esize_swap]

theorem total_reverse (E : List DEdge) (k : Nat) : total (reverse E) k = total E k := by
  unfold total; rw [ofSize_reverse]; simp [reverse]

theorem recCount_reverse (p : List DEdge → DEdge → Bool) (hp : ∀ E e, p (reverse E) (e.2, e.1) = p E e)
    (E : List DEdge) (k : Nat) : recCount p (reverse E) k = recCount p E k := by
  unfold recCount
  rw [ofSize_reverse]
  show (List.filter (p (reverse E)) ((ofSize k E).map (fun e => (e.2, e.1)))).length = _
  rw [List.filter_map, List.length_map]
  congr 1
  apply List.filter_congr
  intro e _
  exact hp E e

theorem reciprocity_reverse (p : List DEdge → DEdge → Bool) (hp : ∀ E e, p (reverse E) (e.2, e.1) = p E e)
    (es : List DEdge) (m k : Nat) : reciprocity p (reverse es) m k = reciprocity p es m k := by
  unfold reciprocity
  rw [bounded_reverse, recCount_reverse p hp, total_reverse]

theorem isExact_reverse (E : List DEdge) (e : DEdge) : isExact (reverse E) (e.2, e.1) = isExact E e := by
  rw [Bool.eq_iff_iff]
  simp only [isExact, reverse, List.contains_iff_mem, List.mem_map, Prod.mk.injEq]
  constructor
  · rintro ⟨f, hf, h1, h2⟩
    have : f = (e.2, e.1) := by cases f; simp_all
    rw [← this]; exact hf
  · intro h; exact ⟨(e.2, e.1), h, rfl, rfl⟩

theorem isWeak_reverse (E : List DEdge) (e : DEdge) : isWeak (reverse E) (e.2, e.1) = isWeak E e := by
  rw [Bool.eq_iff_iff]
  simp only [isWeak, reverse, List.any_eq_true, List.mem_map, Bool.and_eq_true, List.contains_iff_mem]
  constructor
  · rintro ⟨i, hi, j, hj, f', ⟨f, hf, rfl⟩, h1, h2⟩
    exact ⟨j, hj, i, hi, f, hf, h2, h1⟩
  · rintro ⟨i, hi, j, hj, f, hf, h1, h2⟩
    exact ⟨j, hj, i, hi, (f.2, f.1), ⟨f, hf, rfl⟩, h2, h1⟩

/-! ## the default bound of the signature -/

theorem maxSizeE_none (es : List DEdge) : maxSize es = none ↔ es = [] := by
  cases es with
  | nil => simp [maxSize]
  | cons e es => cases h : maxSize es <;> simp [maxSize, h]

theorem maxSizeE_spec (es : List DEdge) (m : Nat) (h : maxSize es = some m) :
    (∀ e ∈ es, esize e ≤ m) ∧ ∃ e ∈ es, esize e = m := by
  induction es generalizing m with
  | nil => simp [maxSize] at h
  | cons e es ih =>
    cases hm : maxSize es with
    | none =>
      have hes : es = [] := (maxSizeE_none es).mp hm
      simp only [maxSize, hm, Option.some.injEq] at h
      subst hes
      simp [h]
    | some k =>
      simp only [maxSize, hm, Option.some.injEq] at h
      obtain ⟨h1, f, hf, h2⟩ := ih k hm
      by_cases hlt : k < esize e
      · rw [if_pos hlt] at h
        refine ⟨?_, e, List.mem_cons_self, h⟩
        intro x hx
        rcases List.mem_cons.mp hx with rfl | hx
        · omega
        · have := h1 x hx; omega
      · rw [if_neg hlt] at h
        subst h
        refine ⟨?_, f, List.mem_cons_of_mem _ hf, h2⟩
        intro x hx
        rcases List.mem_cons.mp hx with rfl | hx
        · omega
        · exact h1 x hx

/-! ## cells of the signature weighted by their row / column -/

theorem weighted_step (sel : List DEdge) (f : DEdge → Nat) (w : Nat → Nat) (n : Nat) :
    ((sel.filter (fun e => f e < n + 1)).map (fun e => w (f e))).sum =
      ((sel.filter (fun e => f e < n)).map (fun e => w (f e))).sum
        + w n * (sel.filter (fun e => f e == n)).length := by
  induction sel with
  | nil => simp
  | cons e t ih =>
    by_cases h1 : f e < n
    · have h2 : f e < n + 1 := by omega
      have h3 : ¬ f e = n := by omega
      simp only [List.filter_cons, h1, h2, h3, decide_true, decide_false, if_true, beq_iff_eq, if_false,
        List.map_cons, List.sum_cons, ih, Bool.false_eq_true]
      omega
    · by_cases h3 : f e = n
      · have h2 : f e < n + 1 := by omega
        have hb : (f e == n) = true := by simp [h3]
        simp only [List.filter_cons, h1, h2, hb, decide_true, decide_false, if_true, if_false,
          List.map_cons, List.sum_cons, ih, Bool.false_eq_true, List.length_cons, Nat.mul_succ]
        rw [h3]
        omega
      · have h2 : ¬ f e < n + 1 := by omega
        simp only [List.filter_cons, h1, h2, h3, decide_false, beq_iff_eq, if_false, ih, Bool.false_eq_true]

theorem weighted_cells (sel : List DEdge) (f : DEdge → Nat) (w : Nat → Nat) (n : Nat) :
    ((List.range n).map (fun i => w i * (sel.filter (fun e => f e == i)).length)).sum =
      ((sel.filter (fun e => f e < n)).map (fun e => w (f e))).sum := by
  induction n with
  | zero => simp [List.filter_eq_nil_iff.mpr]
  | succ n ih =>
    rw [List.range_succ, List.map_append, List.sum_append, ih, weighted_step]
    simp

theorem cellIndex_lt (m : Nat) (e : DEdge) (h1 : 1 ≤ e.1.length) (h2 : 1 ≤ e.2.length) (hs : esize e ≤ m) :
    cellIndex m e < (m - 1) * (m - 1) := by
  unfold cellIndex
  unfold esize at hs
  have a1 : e.1.length - 1 + 1 ≤ m - 1 := by omega
  have a2 : e.2.length - 1 < m - 1 := by omega
  calc (e.1.length - 1) * (m - 1) + (e.2.length - 1) < (e.1.length - 1) * (m - 1) + (m - 1) := by omega
    _ = (e.1.length - 1 + 1) * (m - 1) := by rw [Nat.add_mul, Nat.one_mul]
    _ ≤ (m - 1) * (m - 1) := Nat.mul_le_mul_right _ a1

theorem signature_getD (es : List DEdge) (m idx : Nat) (h : idx < (m - 1) * (m - 1)) :
    (signature es m).getD idx 0 =
      ((es.filter (fun e => esize e ≤ m)).filter (fun e => cellIndex m e == idx)).length := by
  simp [signature, List.getD_eq_getElem?_getD, List.getElem?_map, List.getElem?_range h]

/-- generic form: the cells weighted by `w (cell index)` sum to `w` of the cell of every hyperedge within the bound -/
theorem signature_weighted (w : Nat → Nat) (es : List DEdge) (m : Nat) (hne : ∀ e ∈ es, e.1 ≠ [] ∧ e.2 ≠ []) :
    ((List.range ((m - 1) * (m - 1))).map (fun idx => w idx * (signature es m).getD idx 0)).sum =
      ((es.filter (fun e => esize e ≤ m)).map (fun e => w (cellIndex m e))).sum := by
  have cell : ∀ idx ∈ List.range ((m - 1) * (m - 1)), w idx * (signature es m).getD idx 0 =
      w idx * ((es.filter (fun e => esize e ≤ m)).filter (fun e => cellIndex m e == idx)).length := by
    intro idx hidx
    rw [signature_getD es m idx (List.mem_range.mp hidx)]
  rw [List.map_congr_left cell, weighted_cells]
  congr 2
  rw [List.filter_eq_self]
  intro e he
  have he' := List.mem_filter.mp he
  exact decide_eq_true (cellIndex_lt m e (List.length_pos_iff.mpr (hne e he'.1).1)
    (List.length_pos_iff.mpr (hne e he'.1).2) (of_decide_eq_true he'.2))

theorem sigSourceWeighted_eq (es : List DEdge) (m : Nat) (hne : ∀ e ∈ es, e.1 ≠ [] ∧ e.2 ≠ []) :
    sigSourceWeighted (signature es m) m = ((es.filter (fun e => esize e ≤ m)).map (·.1.length)).sum := by
  unfold sigSourceWeighted
  rw [signature_weighted (fun idx => idx / (m - 1) + 1) es m hne]
  congr 1
  apply List.map_congr_left
  intro e he
  have he' := List.mem_filter.mp he
  have hl1 : 1 ≤ e.1.length := List.length_pos_iff.mpr (hne e he'.1).1
  have hl2 : 1 ≤ e.2.length := List.length_pos_iff.mpr (hne e he'.1).2
  have hsz : esize e ≤ m := of_decide_eq_true he'.2
  have hy : e.2.length - 1 < m - 1 := by unfold esize at hsz; omega
  have hu := divmod_unique (m - 1) (e.1.length - 1) (e.2.length - 1) hy
  show cellIndex m e / (m - 1) + 1 = e.1.length
  unfold cellIndex
  rw [hu.1]; omega

theorem sigTargetWeighted_eq (es : List DEdge) (m : Nat) (hne : ∀ e ∈ es, e.1 ≠ [] ∧ e.2 ≠ []) :
    sigTargetWeighted (signature es m) m = ((es.filter (fun e => esize e ≤ m)).map (·.2.length)).sum := by
  unfold sigTargetWeighted
  rw [signature_weighted (fun idx => idx % (m - 1) + 1) es m hne]
  congr 1
  apply List.map_congr_left
  intro e he
  have he' := List.mem_filter.mp he
  have hl1 : 1 ≤ e.1.length := List.length_pos_iff.mpr (hne e he'.1).1
  have hl2 : 1 ≤ e.2.length := List.length_pos_iff.mpr (hne e he'.1).2
  have hsz : esize e ≤ m := of_decide_eq_true he'.2
  have hy : e.2.length - 1 < m - 1 := by unfold esize at hsz; omega
  have hu := divmod_unique (m - 1) (e.1.length - 1) (e.2.length - 1) hy
  show cellIndex m e % (m - 1) + 1 = e.2.length
  unfold cellIndex
  rw [hu.2]; omega

/-! ## the first loop is ONE pass filling all tables -/

theorem firstLoop_fold (m : Nat) (es : List DEdge) (st : FirstLoop) :
    es.foldl (firstStep m) st =
      { tot := es.foldl (fun t e => if inBound m e then bump t (esize e) else t) st.tot,
        edgeSet := es.foldl (fun acc e => if inBound m e then dictAdd acc e else acc) st.edgeSet,
        reach := es.foldl (fun t e => if inBound m e then reachStep t e else t) st.reach,
        bins := es.foldl (fun acc e => if inBound m e then binStep acc e else acc) st.bins } := by
  induction es generalizing st with
  | nil => rfl
  | cons e es ih =>
    rw [List.foldl_cons, ih]
    by_cases h : inBound m e = true
    · simp [firstStep, h]
    · simp [firstStep, h]

theorem firstLoop_eq (es : List DEdge) (m : Nat) :
    firstLoop es m = { tot := totLoop es m, edgeSet := edgeSetLoop es m, reach := reachLoop es m,
                       bins := binLoop es m } := by
  unfold firstLoop
  rw [firstLoop_fold]
  rfl

/-! ## every cell of the signature -/

theorem signature_cell_all (es : List DEdge) (m a b : Nat) (ha : a < m - 1) (hb : b < m - 1)
    (hne : ∀ e ∈ es, e.1 ≠ [] ∧ e.2 ≠ []) :
    (signature es m)[a * (m - 1) + b]? =
      some ((es.filter (fun e => esize e ≤ m)).filter
        (fun e => e.1.length - 1 == a && e.2.length - 1 == b)).length := by
  have hinv := sigFold_inv (m - 1) (es.filter (fun e => esize e ≤ m)) _ (uniform_zeros (m - 1))
  have hu' : Uniform (m - 1) (signatureMatrix es m) := hinv.1
  rw [← signatureLoop_eq es m hne]
  unfold signatureLoop
  rw [flatten_getElem? (m - 1) _ hu' a b hb]
  unfold signatureMatrix
  rw [at2_sigFold, at2_zeros _ _ _ ha hb]
  simp

/-! ## exactly reciprocated hyperedges come in pairs -/

theorem even_of_involution {α : Type} [DecidableEq α] (sw : α → α) (hsw : ∀ x, sw (sw x) = x) :
    ∀ (n : Nat) (l : List α), l.length ≤ n → l.Nodup → (∀ x ∈ l, sw x ∈ l) → (∀ x ∈ l, sw x ≠ x) →
      l.length % 2 = 0 := by
  intro n
  induction n with
  | zero =>
    intro l hl _ _ _
    have : l.length = 0 := by omega
    rw [this]
  | succ n ih =>
    intro l hl hn hc hf
    cases l with
    | nil => rfl
    | cons e t =>
      have hn' := List.nodup_cons.mp hn
      have hse : sw e ∈ t := by
        have := hc e List.mem_cons_self
        rcases List.mem_cons.mp this with h | h
        · exact absurd h (hf e List.mem_cons_self)
        · exact h
      have hlen : (t.erase (sw e)).length = t.length - 1 := List.length_erase_of_mem hse
      have htpos : 0 < t.length := List.length_pos_of_mem hse
      have hnd : (t.erase (sw e)).Nodup := hn'.2.erase _
      have key := ih (t.erase (sw e)) (by rw [hlen]; simp at hl; omega) hnd ?_ ?_
      · simp only [List.length_cons]; rw [hlen] at key; omega
      · intro x hx
        have hx' := (List.Nodup.mem_erase_iff hn'.2).mp hx
        have hxl : sw x ∈ e :: t := hc x (List.mem_cons_of_mem _ hx'.2)
        rw [List.Nodup.mem_erase_iff hn'.2]
        refine ⟨?_, ?_⟩
        · intro h
          have : x = e := by rw [← hsw x, h, hsw]
          rw [this] at hx'
          exact hn'.1 hx'.2
        · rcases List.mem_cons.mp hxl with h | h
          · exfalso
            have : x = sw e := by rw [← hsw x, h]
            exact hx'.1 this
          · exact h
      · intro x hx
        have hx' := (List.Nodup.mem_erase_iff hn'.2).mp hx
        exact hf x (List.mem_cons_of_mem _ hx'.2)

/-- the hyperedges of one size whose reverse is present form pairs `e`, reverse of `e` -/
theorem recCount_exact_even (E : List DEdge) (k : Nat) (hn : E.Nodup) (hd : ∀ e ∈ E, e.1 ≠ e.2) :
    recCount isExact E k % 2 = 0 := by
  unfold recCount
  apply even_of_involution (fun e : DEdge => (e.2, e.1)) (fun x => rfl) _ _ (Nat.le_refl _)
  · exact (List.filter_sublist).nodup ((List.filter_sublist).nodup hn)
  · intro x hx
    have h1 := List.mem_filter.mp hx
    have h2 := List.mem_filter.mp h1.1
    have hx' : (x.2, x.1) ∈ E := by simpa [isExact] using h1.2
    refine List.mem_filter.mpr ⟨List.mem_filter.mpr ⟨hx', ?_⟩, ?_⟩
    · have := h2.2
      simp only [beq_iff_eq] at this ⊢
      rw [esize_swap]; exact this
    · simp only [isExact, List.contains_iff_mem]
      exact h2.1
  · intro x hx
    have h1 := List.mem_filter.mp hx
    have h2 := List.mem_filter.mp h1.1
    intro heq
    have : x.2 = x.1 := by
      have := congrArg Prod.fst heq
      exact this
    exact hd x h2.1 this.symm

end C12
