import Hgxv.Proofs.C11Pattern
import Hgxv.Proofs.C11Esu
/-! # C11 - list lemmas for the relabelling argument (core Lean only) -/
namespace C11

theorem getElem!_eq_getD (l : List Nat) (i : Nat) : l[i]! = l.getD i 0 := by
  simp [List.getD_eq_getElem?_getD]

theorem getD_eq_getElem_lt {α} (l : List α) (d : α) {i : Nat} (h : i < l.length) : l.getD i d = l[i] := by
  simp [List.getD_eq_getElem?_getD, List.getElem?_eq_getElem h]

theorem getD_map_lt {α β} (f : α → β) (l : List α) (d : α) (d' : β) {i : Nat} (h : i < l.length) :
    (l.map f).getD i d' = f (l.getD i d) := by
  rw [getD_eq_getElem_lt _ _ (by simpa using h), getD_eq_getElem_lt _ _ h, List.getElem_map]

theorem getD_mem {α} (l : List α) (d : α) {i : Nat} (h : i < l.length) : l.getD i d ∈ l := by
  rw [getD_eq_getElem_lt _ _ h]; exact List.getElem_mem h

/-! ## `subsetsOfSize` commutes with `map` -/

theorem subsetsOfSize_map (f : Nat → Nat) (k : Nat) (l : List Nat) :
    subsetsOfSize k (l.map f) = (subsetsOfSize k l).map (List.map f) := by
  induction l generalizing k with
  | nil => cases k <;> simp [subsetsOfSize]
  | cons a l ih =>
    cases k with
    | zero => simp [subsetsOfSize]
    | succ k =>
      simp only [List.map_cons, subsetsOfSize, ih, List.map_append, List.map_map]
      congr 1

theorem hyperedgesOf_map (f : Nat → Nat) (n : Nat) (l : List Nat) :
    hyperedgesOf n (l.map f) = (hyperedgesOf n l).map (List.map f) := by
  unfold hyperedgesOf
  rw [List.map_flatMap]
  congr 1
  funext k
  exact subsetsOfSize_map f k l

theorem eq_map_range (S : List Nat) : S = (List.range S.length).map (S.getD · 0) := by
  apply List.ext_getElem
  · simp
  · intro i h1 h2
    rw [List.getElem_map, List.getElem_range, getD_eq_getElem_lt _ _ h1]

/-- the sub-hyperedges of an `n`-list `S` are the position lists `hyperedges n` read through `S` -/
theorem hyperedgesOf_eq {n : Nat} {S : List Nat} (h : S.length = n) :
    hyperedgesOf n S = (hyperedges n).map (List.map (S.getD · 0)) := by
  unfold hyperedges
  rw [← hyperedgesOf_map, ← h, ← eq_map_range]

theorem mem_hyperedges {n : Nat} {he : List Nat} (h : he ∈ hyperedges n) :
    SSorted he ∧ (∀ j ∈ he, j < n) ∧ 2 ≤ he.length ∧ he.length ≤ n := by
  obtain ⟨hs, h2, hn⟩ := mem_hyperedgesOf.mp h
  have hr : SSorted (List.range n) := by
    unfold SSorted
    rw [List.pairwise_iff_getElem]
    intro i j hi hj hij
    simpa using hij
  exact ⟨List.Pairwise.sublist hs hr, fun j hj => List.mem_range.mp (hs.subset hj), h2, hn⟩

theorem sorted_mem_hyperedges {n : Nat} {he : List Nat} (hs : SSorted he) (hlt : ∀ j ∈ he, j < n)
    (h2 : 2 ≤ he.length) (hn : he.length ≤ n) : he ∈ hyperedges n := by
  have hr : SSorted (List.range n) := by
    unfold SSorted
    rw [List.pairwise_iff_getElem]
    intro i j hi hj hij
    simpa using hij
  exact mem_hyperedgesOf.mpr ⟨sublist_of_sorted hs hr (fun x hx => List.mem_range.mpr (hlt x hx)), h2, hn⟩

/-- reading increasing positions through an increasing list gives an increasing list -/
theorem map_getD_sorted {S X : List Nat} (hS : SSorted S) (hX : SSorted X) (hlt : ∀ x ∈ X, x < S.length) :
    SSorted (X.map (S.getD · 0)) := by
  unfold SSorted
  rw [List.pairwise_map]
  refine List.Pairwise.imp_of_mem ?_ hX
  intro a b ha hb hab
  rw [getD_eq_getElem_lt _ _ (hlt a ha), getD_eq_getElem_lt _ _ (hlt b hb)]
  exact (List.pairwise_iff_getElem.mp hS) a b (hlt a ha) (hlt b hb) hab

/-! ## every rearrangement of a list is in `perms` -/

theorem mem_insertions (x : Nat) (a b : List Nat) : a ++ x :: b ∈ insertions x (a ++ b) := by
  induction a with
  | nil => cases b <;> simp [insertions]
  | cons y a ih =>
    simp only [List.cons_append, insertions, List.mem_cons, List.mem_map]
    right
    exact ⟨a ++ x :: b, ih, rfl⟩

theorem mem_perms_of_perm : ∀ (xs l : List Nat), l.Perm xs → l ∈ perms xs := by
  intro xs
  induction xs with
  | nil => intro l h; have := h.eq_nil; subst this; simp [perms]
  | cons x xs ih =>
    intro l h
    have hx : x ∈ l := h.symm.subset (by simp)
    obtain ⟨a, b, rfl⟩ := List.append_of_mem hx
    have hp : (a ++ b).Perm xs := by
      have := (List.perm_middle (a := x) (l₁ := a) (l₂ := b)).symm.trans h
      exact this.cons_inv
    simp only [perms, List.mem_flatMap]
    exact ⟨a ++ b, ih _ hp, mem_insertions x a b⟩

/-- a duplicate-free list of `n` numbers below `n` is a permutation of `0..n-1` -/
theorem mem_perms_range {n : Nat} {q : List Nat} (hnd : q.Nodup) (hlen : q.length = n) (hlt : ∀ x ∈ q, x < n) :
    q ∈ perms (List.range n) := by
  apply mem_perms_of_perm
  apply (List.perm_ext_iff_of_nodup hnd List.nodup_range).mpr
  intro x
  constructor
  · intro hx; exact List.mem_range.mpr (hlt x hx)
  · intro hx
    exact subset_of_full (S := List.range n) (sub := q) List.nodup_range hnd (by simp [hlen])
      (fun y hy => List.mem_range.mpr (hlt y hy)) x hx

/-! ## the index tables really implement `relabel` (decided for order 3 and 4) -/

def edgePermOk (n : Nat) : Bool :=
  (perms (List.range n)).all fun q =>
    (edgePerm (hyperedges n) q).length == (hyperedges n).length &&
    (List.range (hyperedges n).length).all (fun i =>
      decide ((edgePerm (hyperedges n) q).getD i 0 < (hyperedges n).length) &&
      ((hyperedges n).getD ((edgePerm (hyperedges n) q).getD i 0) []
        == isort (((hyperedges n).getD i []).map fun v => q.getD v 0))) &&
    (List.range (hyperedges n).length).all (fun j =>
      (List.range (hyperedges n).length).any fun p => (edgePerm (hyperedges n) q).getD p 0 == j)

theorem edgePermOk3 : edgePermOk 3 = true := by decide
set_option maxRecDepth 100000 in
theorem edgePermOk4 : edgePermOk 4 = true := by decide +kernel

theorem edgePerm_facts {n : Nat} (hn : n = 3 ∨ n = 4) {q : List Nat} (hq : q ∈ perms (List.range n)) :
    (edgePerm (hyperedges n) q).length = (hyperedges n).length ∧
    (∀ i, i < (hyperedges n).length →
      (edgePerm (hyperedges n) q).getD i 0 < (hyperedges n).length ∧
      (hyperedges n).getD ((edgePerm (hyperedges n) q).getD i 0) []
        = isort (((hyperedges n).getD i []).map fun v => q.getD v 0)) ∧
    (∀ j, j < (hyperedges n).length → ∃ p, p < (hyperedges n).length ∧ (edgePerm (hyperedges n) q).getD p 0 = j) := by
  have h : edgePermOk n = true := by
    rcases hn with h | h
    · subst h; exact edgePermOk3
    · subst h; exact edgePermOk4
  simp only [edgePermOk, List.all_eq_true, Bool.and_eq_true, beq_iff_eq, decide_eq_true_eq, List.mem_range,
    List.any_eq_true] at h
  obtain ⟨⟨h1, h2⟩, h3⟩ := h q hq
  exact ⟨h1, h2, h3⟩

end C11
