import Hgxv.Model.C15Init
import Hgxv.Proofs.C15Exact
import Hgxv.Proofs.C15Witness
/-! # C15 — constructor, initial draws, the whole run of `fit` from the raw draws, `log_likelihood`

Helper lemmas for the extension round (`Model/C15Init.lean`). -/
open Finset
namespace C15

/-! ## arrays read from nested lists -/

theorem matOf_nonneg_of_mem (x : List (List Rat)) (h : ∀ row ∈ x, ∀ v ∈ row, 0 ≤ v) (i a : ℕ) : 0 ≤ matOf x i a := by
  unfold matOf
  rw [List.getD_eq_getElem?_getD, List.getD_eq_getElem?_getD]
  cases hr : x[i]? with
  | none => simp
  | some row =>
    have hrow : row ∈ x := List.mem_of_getElem? hr
    cases hv : row[a]? with
    | none => simp [hv]
    | some v => simpa [hv] using h row hrow v (List.mem_of_getElem? hv)

theorem anyNeg_false_iff (x : List (List Rat)) : anyNeg x = false ↔ ∀ row ∈ x, ∀ v ∈ row, 0 ≤ v := by
  unfold anyNeg
  simp only [List.any_eq_false, List.any_eq_true, decide_eq_true_eq, not_exists, not_and, not_lt]

theorem symmetricB_iff (K : ℕ) (w : Mat) : symmetricB K w = true ↔ ∀ a < K, ∀ b < K, w a b = w b a := by
  unfold symmetricB
  simp only [allTo_iff, decide_eq_true_eq]

theorem upperZero_iff (K : ℕ) (w : Mat) : upperZero K w = true ↔ ∀ a < K, ∀ b < K, a < b → w a b = 0 := by
  unfold upperZero
  simp only [allTo_iff, decide_eq_true_eq]

/-- for a symmetric array "upper triangle zero" (`np.triu(w, 1) == 0`) is "diagonal" -/
theorem upperZero_diag (K : ℕ) (w : Mat) (hs : ∀ a < K, ∀ b < K, w a b = w b a) :
    upperZero K w = true ↔ ∀ a < K, ∀ b < K, a ≠ b → w a b = 0 := by
  rw [upperZero_iff]
  constructor
  · intro h a ha b hb hab
    rcases Nat.lt_or_gt_of_ne hab with hlt | hgt
    · exact h a ha b hb hlt
    · rw [hs a ha b hb]; exact h b hb a ha hgt
  · intro h a ha b hb hab
    exact h a ha b hb (Nat.ne_of_lt hab)

/-! ## the constructor -/

theorem checkW_none (ass : Bool) (w : List (List Rat)) (h : checkW ass w = none) :
    anyNeg w = false ∧ symmetricB w.length (matOf w) = true ∧ (ass = true → upperZero w.length (matOf w) = true) := by
  unfold checkW at h
  by_cases h1 : anyNeg w = true
  · simp [h1] at h
  · by_cases h2 : symmetricB w.length (matOf w) = true
    · by_cases h3 : ass = true
      · by_cases h4 : upperZero w.length (matOf w) = true
        · exact ⟨by simpa using h1, h2, fun _ => h4⟩
        · simp [h1, h2, h3, h4] at h
      · exact ⟨by simpa using h1, h2, fun h' => absurd h' h3⟩
    · simp [h1, h2] at h

theorem checkW_of (ass : Bool) (w : List (List Rat)) (h1 : anyNeg w = false) (h2 : symmetricB w.length (matOf w) = true)
    (h3 : ass = true → upperZero w.length (matOf w) = true) : checkW ass w = none := by
  unfold checkW
  cases ass with
  | false => simp [h1, h2]
  | true => simp [h1, h2, h3 rfl]

/-- what an accepted construction has passed -/
theorem construct_ok (c : Ctor) (h : Hyper) (hc : construct c = .ok h) :
    inferAssortative c = some h.assortative ∧ inferK c = some h.K ∧
    (∀ w, c.w = some w → checkW h.assortative w = none) ∧
    (∀ u, c.u = some u → anyNeg u = false) ∧
    (∀ u w, c.u = some u → c.w = some w → ncols u = w.length) := by
  unfold construct at hc
  cases hA : inferAssortative c with
  | none => simp [hA] at hc
  | some ass =>
    cases hK : inferK c with
    | none => simp [hA, hK] at hc
    | some K =>
      simp only [hA, hK] at hc
      cases hW : c.w.bind (checkW ass) with
      | some e => simp [hW] at hc
      | none =>
        simp only [hW] at hc
        by_cases hU : (c.u.map anyNeg).getD false = true
        · simp [hU] at hc
        · have hU' : (c.u.map anyNeg).getD false = false := by simpa using hU
          simp only [hU'] at hc
          cases hu : c.u with
          | none =>
            simp only [hu] at hc
            have hh : h = { K := K, assortative := ass } := by
              injection hc with hc; exact hc.symm
            subst hh
            refine ⟨rfl, rfl, fun w hw => by simpa [hw] using hW, fun u hu' => by simp at hu', fun u w hu' _ => by simp at hu'⟩
          | some u =>
            simp only [hu] at hc hU'
            cases hw : c.w with
            | none =>
              simp only [hw] at hc
              injection hc with hc
              subst hc
              exact ⟨rfl, rfl, fun w hw' => by simp at hw', fun u' hu' => by
                injection hu' with hu'; subst hu'; simpa using hU', fun u' w _ hw' => by simp at hw'⟩
            | some w =>
              simp only [hw] at hc hW
              by_cases hn : ncols u = w.length
              · simp only [hn, if_true] at hc
                injection hc with hc
                subst hc
                exact ⟨rfl, rfl, fun w' hw' => by injection hw' with hw'; subst hw'; simpa using hW,
                  fun u' hu' => by injection hu' with hu'; subst hu'; simpa using hU',
                  fun u' w' hu' hw' => by injection hu' with hu'; injection hw' with hw'; subst hu'; subst hw'; exact hn⟩
              · simp [hn] at hc

/-- every input of the property's quantifier is accepted -/
theorem construct_accepts (k : Option ℕ) (u w : List (List Rat)) (ass : Bool)
    (hu : ∀ row ∈ u, ∀ v ∈ row, 0 ≤ v) (hw : ∀ row ∈ w, ∀ v ∈ row, 0 ≤ v)
    (hs : ∀ a < w.length, ∀ b < w.length, matOf w a b = matOf w b a)
    (hd : ass = true → ∀ a < w.length, ∀ b < w.length, a ≠ b → matOf w a b = 0)
    (hK : ncols u = w.length) :
    construct { K := k, u := some u, w := some w, assortative := some ass }
      = .ok { K := k.getD w.length, assortative := ass } := by
  have h1 : checkW ass w = none :=
    checkW_of ass w ((anyNeg_false_iff w).mpr hw) ((symmetricB_iff _ _).mpr hs)
      (fun h => (upperZero_diag _ _ hs).mpr (hd h))
  have h2 : anyNeg u = false := (anyNeg_false_iff u).mpr hu
  unfold construct inferAssortative inferK
  cases k <;> simp [h1, h2, hK]

/-! ## the initial draws -/

theorem symUpper_symm (x : Mat) (a b : ℕ) : symUpper x a b = symUpper x b a := by
  unfold symUpper
  rcases Nat.lt_trichotomy a b with h | h | h
  · rw [if_pos (Nat.le_of_lt h), if_neg (by omega)]
  · subst h; rfl
  · rw [if_neg (by omega), if_pos (Nat.le_of_lt h)]

theorem symUpper_nonneg (x : Mat) (hx : ∀ a b, 0 ≤ x a b) (a b : ℕ) : 0 ≤ symUpper x a b := by
  unfold symUpper; split <;> exact hx _ _

theorem initWMat_symm (ass : Bool) (prior : Prior) (g : Mat) (a b : ℕ) :
    initWMat ass prior g a b = initWMat ass prior g b a := by
  unfold initWMat
  split
  · split
    · unfold diagOnly
      by_cases hab : a = b
      · subst hab; rfl
      · rw [if_neg hab, if_neg (fun h => hab h.symm)]
    · exact symUpper_symm _ a b
  · split
    · by_cases hab : a = b
      · subst hab; rfl
      · have hba : ¬ b = a := fun h => hab h.symm
        simp only [if_neg hab, if_neg hba]
    · exact symUpper_symm _ a b

theorem initWMat_nonneg (ass : Bool) (prior : Prior) (g : Mat) (hg : ∀ a b, 0 ≤ g a b)
    (hp : ∀ a b, 0 ≤ prior.mat a b) (a b : ℕ) : 0 ≤ initWMat ass prior g a b := by
  unfold initWMat
  split
  · split
    · unfold diagOnly; split
      · exact symUpper_nonneg g hg a b
      · exact le_refl 0
    · exact symUpper_nonneg g hg a b
  · split
    · by_cases hab : a = b
      · simp only [if_pos hab]; exact mul_nonneg (one_div_nonneg.mpr (hp a a)) (hg 0 a)
      · simp only [if_neg hab]; exact le_refl 0
    · exact symUpper_nonneg _ (fun a b => mul_nonneg (one_div_nonneg.mpr (hp a b)) (hg a b)) a b

theorem initWMat_diag (prior : Prior) (g : Mat) (a b : ℕ) (hab : a ≠ b) : initWMat true prior g a b = 0 := by
  unfold initWMat
  split
  · simp [diagOnly, hab]
  · simp [hab]

theorem initW_symm (K : ℕ) (ass : Bool) (prior : Prior) (g : List (List Rat)) (a b : ℕ) :
    matOf (initW K ass prior g) a b = matOf (initW K ass prior g) b a := by
  unfold initW
  rw [matOf_toRows, matOf_toRows]
  by_cases hab : a < K ∧ b < K
  · rw [if_pos hab, if_pos ⟨hab.2, hab.1⟩]; exact initWMat_symm ass prior _ a b
  · rw [if_neg hab, if_neg (fun h => hab ⟨h.2, h.1⟩)]

theorem initW_nonneg (K : ℕ) (ass : Bool) (prior : Prior) (g : List (List Rat)) (hg : ∀ a b, 0 ≤ matOf g a b)
    (hp : ∀ a b, 0 ≤ prior.mat a b) (a b : ℕ) : 0 ≤ matOf (initW K ass prior g) a b :=
  matOf_toRows_nonneg _ _ _ (initWMat_nonneg ass prior _ hg hp) a b

theorem initW_diag (K : ℕ) (prior : Prior) (g : List (List Rat)) (a b : ℕ) (hab : a ≠ b) :
    matOf (initW K true prior g) a b = 0 := by
  unfold initW
  rw [matOf_toRows]; split
  · exact initWMat_diag prior _ a b hab
  · rfl

theorem initU_nonneg (N K : ℕ) (prior : Prior) (g : List (List Rat)) (hg : ∀ i a, 0 ≤ matOf g i a)
    (hp : ∀ i a, 0 ≤ prior.mat i a) (i a : ℕ) : 0 ≤ matOf (initU N K prior g) i a := by
  unfold initU
  apply matOf_toRows_nonneg
  intro i a
  unfold initUMat
  split
  · exact hg i a
  · exact mul_nonneg (one_div_nonneg.mpr (hp i a)) (hg i a)

/-! ## the guarded loop is the loop -/

theorem wUpdate?_some (d : Data) (u w r x : Mat) (h : wUpdate? d u w r = some x) : x = wUpdate d u w r := by
  unfold wUpdate? at h
  split at h
  · injection h with h; exact h.symm
  · simp at h

theorem uUpdate?_some (d : Data) (u w r x : Mat) (h : uUpdate? d u w r = some x) : x = uUpdate d u w r := by
  unfold uUpdate? at h
  split at h
  · injection h with h; exact h.symm
  · simp at h

theorem emStep?_eq (d : Data) (fu fw : Bool) (ru rw : Mat) (p q : Params)
    (h : emStep? d fu fw ru rw p = some q) : q = emStep d fu fw ru rw p := by
  unfold emStep? at h
  split at h
  · simp at h
  · rename_i w' hw'
    split at h
    · simp at h
    · rename_i u' hu'
      injection h with h
      subst h
      have e1 : w' = if fw then p.w else toRows d.K d.K (wUpdate d (matOf p.u) (matOf p.w) rw) := by
        cases fw with
        | false =>
          simp only [Bool.false_eq_true, if_false] at hw' ⊢
          cases hx : wUpdate? d (matOf p.u) (matOf p.w) rw with
          | none => simp [hx] at hw'
          | some x =>
            rw [hx] at hw'
            simp only [Option.map_some, Option.some.injEq] at hw'
            rw [← hw', wUpdate?_some d _ _ _ x hx]
        | true => simp only [if_true, Option.some.injEq] at hw' ⊢; exact hw'.symm
      subst e1
      have e2 : u' = if fu then p.u else toRows d.N d.K (uUpdate d (matOf p.u)
          (matOf (if fw then p.w else toRows d.K d.K (wUpdate d (matOf p.u) (matOf p.w) rw))) ru) := by
        cases fu with
        | false =>
          simp only [Bool.false_eq_true, if_false] at hu' ⊢
          cases hx : uUpdate? d (matOf p.u) (matOf (if fw then p.w else toRows d.K d.K (wUpdate d (matOf p.u) (matOf p.w) rw))) ru with
          | none => simp [hx] at hu'
          | some x =>
            rw [hx] at hu'
            simp only [Option.map_some, Option.some.injEq] at hu'
            rw [← hu', uUpdate?_some d _ _ _ x hx]
        | true => simp only [if_true, Option.some.injEq] at hu' ⊢; exact hu'.symm
      subst e2
      rfl

theorem emLoop?_eq (d : Data) (fu fw : Bool) (ru rw : Mat) (n : ℕ) (p q : Params)
    (h : emLoop? d fu fw ru rw n p = some q) : q = emLoop d fu fw ru rw n p := by
  induction n generalizing q with
  | zero => simp only [emLoop?, Option.some.injEq] at h; exact h.symm
  | succ n ih =>
    simp only [emLoop?] at h
    cases hm : emLoop? d fu fw ru rw n p with
    | none => simp [hm] at h
    | some r =>
      rw [hm] at h
      simp only [Option.bind_some] at h
      rw [emStep?_eq d fu fw ru rw r q h, ih r hm]
      rfl

/-- supplied memberships: the guarded loop never fails (the Poisson parameters of the data stay positive) -/
theorem emLoop?_supplied_u (d : Data) (us w0 : List (List Rat)) (ru rw : Mat)
    (hu : ∀ i a, 0 ≤ matOf us i a) (hw0 : ∀ a b, 0 ≤ matOf w0 a b) (hA : ∀ e < d.E, 0 < d.A e)
    (hr : ∀ a b, 0 ≤ rw a b)
    (hlam : ∀ e < d.E, 0 < poisson d.N d.K (matOf us) (matOf w0) (d.edge e)) (n : ℕ) :
    emLoop? d true false ru rw n { u := us, w := w0 } = some (emLoop d true false ru rw n { u := us, w := w0 }) := by
  induction n with
  | zero => rfl
  | succ n ih =>
    have hinv := (loop_inv d us w0 ru rw hu hw0 hA hr hlam n).2
    unfold wAfter at hinv
    have hm : multOk d (matOf us) (matOf (emLoop d true false ru rw n { u := us, w := w0 }).w) = true := by
      unfold multOk
      simp only [allTo_iff, decide_eq_true_eq]
      exact fun e he => (hinv e he).ne'
    simp only [emLoop?, ih, Option.bind_some]
    unfold emStep? wUpdate?
    simp only [Bool.false_eq_true, if_false, if_true, emLoop_u_fixed, hm, Option.map_some]
    simp [emLoop, emStep, emLoop_u_fixed]

/-! ## what the loop keeps: non-negative, `w` symmetric, zero pattern of `w` -/

/-- non-negative parameters, symmetric `w`, `w` zero on the pattern `Z` -/
structure PInv (Z : ℕ → ℕ → Prop) (p : Params) : Prop where
  u_nonneg : ∀ i a, 0 ≤ matOf p.u i a
  w_nonneg : ∀ a b, 0 ≤ matOf p.w a b
  w_symm : ∀ a b, matOf p.w a b = matOf p.w b a
  w_zero : ∀ a b, Z a b → matOf p.w a b = 0

theorem emStep_inv (Z : ℕ → ℕ → Prop) (d : Data) (fu fw : Bool) (ru rw : Mat) (hA : ∀ e < d.E, 0 ≤ d.A e)
    (hrs : ∀ a b, rw a b = rw b a) (p : Params) (hp : PInv Z p) : PInv Z (emStep d fu fw ru rw p) := by
  have hw' : PInv Z { u := p.u, w := (emStep d fu fw ru rw p).w } := by
    cases fw with
    | true => exact ⟨hp.u_nonneg, hp.w_nonneg, hp.w_symm, hp.w_zero⟩
    | false =>
      refine ⟨hp.u_nonneg, ?_, ?_, ?_⟩
      · intro a b
        simp only [emStep, Bool.false_eq_true, if_false]
        exact matOf_toRows_nonneg _ _ _ (wUpdate_nonneg d _ _ rw hp.u_nonneg hp.w_nonneg hA) a b
      · intro a b
        simp only [emStep, Bool.false_eq_true, if_false]
        rw [matOf_toRows, matOf_toRows]
        by_cases hab : a < d.K ∧ b < d.K
        · rw [if_pos hab, if_pos ⟨hab.2, hab.1⟩]
          exact wUpdate_symm d _ _ rw a b (hp.w_symm a b) (hrs a b)
        · rw [if_neg hab, if_neg (fun h => hab ⟨h.2, h.1⟩)]
      · intro a b hz
        simp only [emStep, Bool.false_eq_true, if_false]
        rw [matOf_toRows]; split
        · exact wUpdate_zero d _ _ rw a b (hp.w_zero a b hz)
        · rfl
  refine ⟨?_, hw'.w_nonneg, hw'.w_symm, hw'.w_zero⟩
  cases fu with
  | true => exact hp.u_nonneg
  | false =>
    intro i a
    simp only [emStep, Bool.false_eq_true, if_false]
    rw [matOf_toRows]; split
    · rename_i hia
      exact uUpdate_nonneg d _ _ ru hp.u_nonneg hw'.w_nonneg hA i hia.1 a
    · exact le_refl 0

theorem emLoop_inv (Z : ℕ → ℕ → Prop) (d : Data) (fu fw : Bool) (ru rw : Mat) (hA : ∀ e < d.E, 0 ≤ d.A e)
    (hrs : ∀ a b, rw a b = rw b a) (p : Params) (hp : PInv Z p) (n : ℕ) : PInv Z (emLoop d fu fw ru rw n p) := by
  induction n with
  | zero => exact hp
  | succ n ih => exact emStep_inv Z d fu fw ru rw hA hrs _ ih

theorem C_nonneg (D : ℕ) : 0 ≤ C (dims 2 D) := by
  by_cases hD : 2 ≤ D
  · exact (C_pos D hD).le
  · have : dims 2 D = [] := by
      unfold dims
      have : D + 1 - 2 = 0 := by omega
      rw [this]; rfl
    rw [this]; exact le_refl 0

theorem finish_inv (Z : ℕ → ℕ → Prop) (d : Data) (fu fw : Bool) (c sqrtC : Rat) (hc : 0 ≤ c) (hs : 0 ≤ sqrtC)
    (p : Params) (hp : PInv Z p) : PInv Z (finish d fu fw c sqrtC p) := by
  unfold finish
  cases fw with
  | false =>
    simp only [Bool.not_false, if_true]
    refine ⟨hp.u_nonneg, ?_, ?_, ?_⟩
    · exact matOf_toRows_nonneg _ _ _ (fun a b => div_nonneg (hp.w_nonneg a b) hc)
    · intro a b
      rw [matOf_toRows, matOf_toRows]
      by_cases hab : a < d.K ∧ b < d.K
      · rw [if_pos hab, if_pos ⟨hab.2, hab.1⟩, hp.w_symm a b]
      · rw [if_neg hab, if_neg (fun h => hab ⟨h.2, h.1⟩)]
    · intro a b hz
      rw [matOf_toRows]; split
      · rw [hp.w_zero a b hz, zero_div]
      · rfl
  | true =>
    cases fu with
    | false =>
      simp only [Bool.not_true, Bool.false_eq_true, if_false, Bool.not_false, if_true]
      exact ⟨matOf_toRows_nonneg _ _ _ (fun i a => div_nonneg (hp.u_nonneg i a) hs), hp.w_nonneg, hp.w_symm, hp.w_zero⟩
    | true =>
      simp only [Bool.not_true, Bool.false_eq_true, if_false]
      exact hp

/-- **whole `fit`, either exit, any `n_iter`**: what the initial parameters satisfy (non-negative, `w` symmetric and zero
on a pattern) the returned parameters satisfy -/
theorem fit_inv (Z : ℕ → ℕ → Prop) (d : Data) (uSup wSup : Option (List (List Rat))) (Dsup : Option ℕ)
    (u0 w0 : List (List Rat)) (ru rw : Mat) (sqrtC : Rat) (stop : Option Stop) (n D : ℕ) (p : Params)
    (hA : ∀ e < d.E, 0 ≤ d.A e) (hrs : ∀ a b, rw a b = rw b a) (hs : 0 ≤ sqrtC)
    (h0 : PInv Z { u := uSup.getD u0, w := wSup.getD w0 })
    (h : fit d uSup wSup Dsup u0 w0 ru rw sqrtC stop n = some (D, p)) : PInv Z p := by
  obtain ⟨_, _, hp⟩ := fit_some d uSup wSup Dsup u0 w0 ru rw sqrtC stop n D p h
  obtain ⟨m, _, hm⟩ := emRun_iter d uSup.isSome wSup.isSome ru rw stop n { u := uSup.getD u0, w := wSup.getD w0 }
  have hm' : (fitRun d uSup wSup u0 w0 ru rw stop n).p
      = emLoop d uSup.isSome wSup.isSome ru rw m { u := uSup.getD u0, w := wSup.getD w0 } := hm
  rw [hp, hm']
  exact finish_inv Z d _ _ _ _ (C_nonneg D) hs _ (emLoop_inv Z d _ _ ru rw hA hrs _ h0 m)

/-! ## `fitSeed` -/

/-- an `ok` outcome of the whole path, taken apart -/
theorem fitSeed_ok (s : Seed) (N : ℕ) (edges : List (List ℕ)) (A : List Rat) (D : ℕ) (p : Params) (it : ℕ) (reached : Bool)
    (h : fitSeed s N edges A = .ok D p it reached) :
    ∃ hy w0 u0, construct s.ctor = .ok hy ∧ seedW0 s hy = some w0 ∧ seedU0 s hy N = some u0 ∧
      fit (dataOf N hy.K edges A) s.ctor.u s.ctor.w s.Dsup u0 w0 s.uPrior.mat s.wPrior.mat s.sqrtC s.stop s.n = some (D, p) ∧
      it = (fitRun (dataOf N hy.K edges A) s.ctor.u s.ctor.w u0 w0 s.uPrior.mat s.wPrior.mat s.stop s.n).it ∧
      reached = (fitRun (dataOf N hy.K edges A) s.ctor.u s.ctor.w u0 w0 s.uPrior.mat s.wPrior.mat s.stop s.n).reached ∧
      (emLoop? (dataOf N hy.K edges A) s.ctor.u.isSome s.ctor.w.isSome s.uPrior.mat s.wPrior.mat (it + 1)
        { u := s.ctor.u.getD u0, w := s.ctor.w.getD w0 }).isSome = true := by
  unfold fitSeed at h
  cases hc : construct s.ctor with
  | error e => simp [hc] at h
  | ok hy =>
    simp only [hc] at h
    cases hw : seedW0 s hy with
    | none => simp [hw] at h
    | some w0 =>
      simp only [hw] at h
      cases hu : seedU0 s hy N with
      | none => simp [hu] at h
      | some u0 =>
        simp only [hu] at h
        cases hf : fit (dataOf N hy.K edges A) s.ctor.u s.ctor.w s.Dsup u0 w0 s.uPrior.mat s.wPrior.mat s.sqrtC s.stop s.n with
        | none => simp [hf] at h
        | some Dp =>
          obtain ⟨D', p'⟩ := Dp
          simp only [hf] at h
          split at h
          · rename_i hg
            injection h with h1 h2 h3 h4
            subst h1; subst h2; subst h3; subst h4
            exact ⟨hy, w0, u0, rfl, hw, hu, hf, rfl, rfl, hg⟩
          · simp at h

theorem seedW0_inferred (s : Seed) (hy : Hyper) (w0 : List (List Rat)) (hnone : s.ctor.w = none) (h : seedW0 s hy = some w0) :
    initWOk hy.K hy.assortative s.wPrior = true ∧ w0 = initW hy.K hy.assortative s.wPrior s.gw := by
  unfold seedW0 at h
  rw [hnone] at h
  by_cases hok : initWOk hy.K hy.assortative s.wPrior = true
  · simp only [hok, if_true] at h
    injection h with h
    exact ⟨hok, h.symm⟩
  · simp [hok] at h

theorem seedU0_inferred (s : Seed) (hy : Hyper) (N : ℕ) (u0 : List (List Rat)) (hnone : s.ctor.u = none)
    (h : seedU0 s hy N = some u0) : initUOk N hy.K s.uPrior = true ∧ u0 = initU N hy.K s.uPrior s.gu := by
  unfold seedU0 at h
  rw [hnone] at h
  by_cases hok : initUOk N hy.K s.uPrior = true
  · simp only [hok, if_true] at h
    injection h with h
    exact ⟨hok, h.symm⟩
  · simp [hok] at h

/-! ## `log_likelihood` -/

/-- `HyMMSBM.log_likelihood(H)` for the parameters `(u, w)`: `-bf_and_sum(u, w) + hye_weights · log(poisson_params)`,
from the two ingredients `logLikParts` -/
noncomputable def logLikMethod (d : Data) (u w : Mat) : ℝ :=
  - (((logLikParts d u w).1 : ℚ) : ℝ)
    + ∑ e ∈ range d.E, ((d.A e : ℚ) : ℝ) * Real.log ((((logLikParts d u w).2.getD e 0 : ℚ)) : ℝ)

theorem logLikMethod_eq_penLik (d : Data) (u w : Mat) : logLikMethod d u w = penLik d u (fun _ _ => 0) w := by
  unfold logLikMethod penLik logLikParts
  have h0 : (∑ a ∈ range d.K, ∑ b ∈ range d.K, (0 : ℚ) * w a b) = 0 := by simp
  rw [h0, add_zero]
  have hs : ∀ e ∈ range d.E,
      ((d.A e : ℚ) : ℝ) * Real.log (((((List.range d.E).map fun e => poisson d.N d.K u w (d.edge e)).getD e 0 : ℚ)) : ℝ)
        = ((d.A e : ℚ) : ℝ) * Real.log ((poisson d.N d.K u w (d.edge e) : ℚ) : ℝ) := by
    intro e he
    have he' : e < d.E := mem_range.mp he
    simp [List.getD_eq_getElem?_getD, he']
  rw [Finset.sum_congr rfl hs]
  ring

end C15

namespace C15

/-- a `K × K` array read through `matOf` is symmetric / zero everywhere once it is on its index range -/
theorem matOf_out (w : List (List Rat)) (hsq : ∀ row ∈ w, row.length = w.length) (a b : ℕ)
    (h : ¬ (a < w.length ∧ b < w.length)) : matOf w a b = 0 := by
  unfold matOf
  rw [List.getD_eq_getElem?_getD, List.getD_eq_getElem?_getD]
  cases hr : w[a]? with
  | none => simp
  | some row =>
    have ha : a < w.length := by
      rcases List.getElem?_eq_some_iff.mp hr with ⟨ha, _⟩; exact ha
    have hlen : row.length = w.length := hsq row (List.mem_of_getElem? hr)
    have hb : ¬ b < row.length := by rw [hlen]; exact fun hb => h ⟨ha, hb⟩
    simp [List.getElem?_eq_none (Nat.le_of_not_lt hb)]

theorem matOf_symm_square (w : List (List Rat)) (hsq : ∀ row ∈ w, row.length = w.length)
    (hs : ∀ a < w.length, ∀ b < w.length, matOf w a b = matOf w b a) (a b : ℕ) : matOf w a b = matOf w b a := by
  by_cases h : a < w.length ∧ b < w.length
  · exact hs a h.1 b h.2
  · rw [matOf_out w hsq a b h, matOf_out w hsq b a (fun h' => h ⟨h'.2, h'.1⟩)]

theorem matOf_diag_square (w : List (List Rat)) (hsq : ∀ row ∈ w, row.length = w.length)
    (hd : ∀ a < w.length, ∀ b < w.length, a ≠ b → matOf w a b = 0) (a b : ℕ) (hab : a ≠ b) : matOf w a b = 0 := by
  by_cases h : a < w.length ∧ b < w.length
  · exact hd a h.1 b h.2 hab
  · exact matOf_out w hsq a b h

/-- the converse of `fitSeed_ok` -/
theorem fitSeed_intro (s : Seed) (N : ℕ) (edges : List (List ℕ)) (A : List Rat) (hy : Hyper) (w0 u0 : List (List Rat))
    (D : ℕ) (p : Params) (hc : construct s.ctor = .ok hy) (hw : seedW0 s hy = some w0) (hu : seedU0 s hy N = some u0)
    (hf : fit (dataOf N hy.K edges A) s.ctor.u s.ctor.w s.Dsup u0 w0 s.uPrior.mat s.wPrior.mat s.sqrtC s.stop s.n = some (D, p))
    (hg : (emLoop? (dataOf N hy.K edges A) s.ctor.u.isSome s.ctor.w.isSome s.uPrior.mat s.wPrior.mat
        ((fitRun (dataOf N hy.K edges A) s.ctor.u s.ctor.w u0 w0 s.uPrior.mat s.wPrior.mat s.stop s.n).it + 1)
        { u := s.ctor.u.getD u0, w := s.ctor.w.getD w0 }).isSome = true) :
    fitSeed s N edges A = .ok D p (fitRun (dataOf N hy.K edges A) s.ctor.u s.ctor.w u0 w0 s.uPrior.mat s.wPrior.mat s.stop s.n).it
      (fitRun (dataOf N hy.K edges A) s.ctor.u s.ctor.w u0 w0 s.uPrior.mat s.wPrior.mat s.stop s.n).reached := by
  unfold fitSeed
  simp only [hc, hw, hu, hf, hg, if_true]

end C15

/-! ## a concrete run from raw draws (non-vacuity of the `fitSeed` theorems): the D28 data -/
namespace C15

/-- `HyMMSBM(K=2, u=witU, assortative=True, u_prior=0.0, w_prior=1.0).fit(H, n_iter=n)` with the raw exponential draws `(1, 1)`:
`_init_w` gives the identity (`witW0`) -/
def exSeed (n : ℕ) : Seed :=
  { ctor := { K := some 2, u := some witU, w := none, assortative := some true }, Dsup := none,
    uPrior := .scalar 0, wPrior := .scalar 1, gw := [[1, 1]], gu := [], sqrtC := 1, stop := none, n := n }

theorem exSeed_ctor (n : ℕ) : construct (exSeed n).ctor = .ok { K := 2, assortative := true } := by
  show construct (exSeed 0).ctor = _
  decide +kernel

theorem exSeed_w0 (n : ℕ) : seedW0 (exSeed n) { K := 2, assortative := true } = some witW0 := by
  show seedW0 (exSeed 0) { K := 2, assortative := true } = some witW0
  decide +kernel

theorem exSeed_ok (n : ℕ) : ∃ p it r, fitSeed (exSeed n) 3 [[0, 1], [0, 2]] [3, 3] = .ok 2 p it r := by
  have hg : (emLoop? (dataOf 3 2 [[0, 1], [0, 2]] [3, 3]) (exSeed n).ctor.u.isSome (exSeed n).ctor.w.isSome (exSeed n).uPrior.mat
      (exSeed n).wPrior.mat
      ((fitRun (dataOf 3 2 [[0, 1], [0, 2]] [3, 3]) (exSeed n).ctor.u (exSeed n).ctor.w [] witW0 (exSeed n).uPrior.mat
        (exSeed n).wPrior.mat (exSeed n).stop (exSeed n).n).it + 1)
      { u := (exSeed n).ctor.u.getD [], w := (exSeed n).ctor.w.getD witW0 }).isSome = true := by
    have := emLoop?_supplied_u witD witU witW0 (fun _ _ => 0) witR witU_nonneg witW0_nonneg witD_A (fun _ _ => by simp [witR])
      witD_lam ((fitRun witD (some witU) none [] witW0 (fun _ _ => 0) witR none n).it + 1)
    have h' : emLoop? (dataOf 3 2 [[0, 1], [0, 2]] [3, 3]) (exSeed n).ctor.u.isSome (exSeed n).ctor.w.isSome (exSeed n).uPrior.mat
        (exSeed n).wPrior.mat
        ((fitRun (dataOf 3 2 [[0, 1], [0, 2]] [3, 3]) (exSeed n).ctor.u (exSeed n).ctor.w [] witW0 (exSeed n).uPrior.mat
          (exSeed n).wPrior.mat (exSeed n).stop (exSeed n).n).it + 1)
        { u := (exSeed n).ctor.u.getD [], w := (exSeed n).ctor.w.getD witW0 } = some _ := this
    rw [h']; rfl
  exact ⟨_, _, _, fitSeed_intro (exSeed n) 3 [[0, 1], [0, 2]] [3, 3] { K := 2, assortative := true } witW0 [] 2 _
    (exSeed_ctor n) (exSeed_w0 n) rfl rfl hg⟩

end C15
