import Hgxv.Proofs.C06
/-! C06: `WF` is an invariant of the constructor, `add_node`, `add_edge`, `set_hypergraph_metadata`
(the round-trip hypotheses are what the API guarantees), and what one `add_edge` does to the key / node
listings.  Core Lean only. -/
set_option linter.unusedSectionVars false
namespace C06

/-! ## sorting -/

theorem insertSorted_perm (a : Nat) (l : List Nat) : (Wire.insertSorted a l).Perm (a :: l) := by
  induction l with
  | nil => simp [Wire.insertSorted]
  | cons b t ih =>
    unfold Wire.insertSorted
    split
    · exact List.Perm.refl _
    · exact (List.Perm.cons b ih).trans (List.Perm.swap a b t)

theorem sort_perm (l : List Nat) : (sort l).Perm l := by
  unfold sort Wire.sortNats
  induction l with
  | nil => simp
  | cons a t ih =>
    simp only [List.foldr_cons]
    exact (insertSorted_perm a _).trans (List.Perm.cons a ih)

theorem mem_sort (l : List Nat) (n : Nat) : n ∈ sort l ↔ n ∈ l := (sort_perm l).mem_iff

theorem insertSorted_sorted (a : Nat) (l : List Nat) (h : l.Pairwise (· ≤ ·)) :
    (Wire.insertSorted a l).Pairwise (· ≤ ·) := by
  induction l with
  | nil => simp [Wire.insertSorted]
  | cons b t ih =>
    unfold Wire.insertSorted
    split
    · rename_i hab
      refine List.Pairwise.cons ?_ h
      intro x hx
      rcases List.mem_cons.mp hx with rfl | hx
      · exact hab
      · exact Nat.le_trans hab (List.rel_of_pairwise_cons h hx)
    · rename_i hab
      have hba : b ≤ a := Nat.le_of_lt (Nat.lt_of_not_le hab)
      refine List.Pairwise.cons ?_ (ih (List.Pairwise.of_cons h))
      intro x hx
      have := (insertSorted_perm a t).mem_iff.mp hx
      rcases List.mem_cons.mp this with rfl | hx'
      · exact hba
      · exact List.rel_of_pairwise_cons h hx'

theorem sort_sorted (l : List Nat) : (sort l).Pairwise (· ≤ ·) := by
  unfold sort Wire.sortNats
  induction l with
  | nil => simp
  | cons a t ih => simp only [List.foldr_cons]; exact insertSorted_sorted a _ ih

theorem sort_of_sorted (l : List Nat) (h : l.Pairwise (· ≤ ·)) : sort l = l := by
  unfold sort Wire.sortNats
  induction l with
  | nil => rfl
  | cons a t ih =>
    simp only [List.foldr_cons]
    rw [ih (List.Pairwise.of_cons h)]
    cases t with
    | nil => rfl
    | cons b t' =>
      have : a ≤ b := List.rel_of_pairwise_cons h (by simp)
      simp [Wire.insertSorted, this]

theorem sort_idem (l : List Nat) : sort (sort l) = sort l := sort_of_sorted _ (sort_sorted l)

/-- `canon` is idempotent for the four key types -/
class CanonKind (κ : Type) [Kind κ] : Prop where
  canon_idem : ∀ k : κ, Kind.canon (Kind.canon k) = Kind.canon k

instance : CanonKind HKey := ⟨fun k => by simp [Kind.canon, sort_idem]⟩
instance : CanonKind DKey := ⟨fun k => by simp [Kind.canon, sort_idem]⟩
instance : CanonKind TKey := ⟨fun k => by simp [Kind.canon, sort_idem]⟩
instance : CanonKind MKey := ⟨fun k => by simp [Kind.canon, sort_idem]⟩

/-! ## association lists: `set` -/
section al
variable {α β : Type} [DecidableEq α]

theorem AL_mem_set (l : List (α × β)) (k : α) (v : β) (e : α × β) (h : e ∈ AL.set l k v) :
    e ∈ l ∨ e = (k, v) := by
  induction l with
  | nil => simp [AL.set] at h; exact Or.inr h
  | cons hd t ih => grind [AL.set]

theorem AL_keys_set_old (l : List (α × β)) (k : α) (v : β) (h : k ∈ AL.keys l) : AL.keys (AL.set l k v) = AL.keys l := by
  obtain ⟨x, hx⟩ := AL_get?_isSome_of_mem l k h
  exact AL.keys_set_of_mem l k v (by simp [hx])

end al

/-! ## `add_node` on the node table -/

theorem keys_touchNode (ns : List (Nat × Meta)) (n : Nat) (m : Meta) :
    AL.keys (touchNode ns n m) = if n ∈ AL.keys ns then AL.keys ns else AL.keys ns ++ [n] := by
  unfold touchNode
  cases hg : AL.get? ns n with
  | none =>
    have : n ∉ AL.keys ns := (AL.get?_eq_none_iff ns n).mp hg
    simp only [this, if_false]
    simp [AL.keys]
  | some old =>
    have hin : n ∈ AL.keys ns := by
      apply Decidable.byContradiction; intro hc
      rw [(AL.get?_eq_none_iff ns n).mpr hc] at hg; cases hg
    simp only [hin, if_true]
    split
    · exact AL_keys_set_old ns n m hin
    · rfl

theorem nodup_touchNode (ns : List (Nat × Meta)) (n : Nat) (m : Meta) (h : (AL.keys ns).Nodup) :
    (AL.keys (touchNode ns n m)).Nodup := by
  rw [keys_touchNode]; split
  · exact h
  · rename_i hn
    exact List.nodup_append.mpr ⟨h, by simp, by intro a ha b hb; simp at hb; subst hb; intro hab; subst hab; exact hn ha⟩

theorem mem_keys_touchNode (ns : List (Nat × Meta)) (n : Nat) (m : Meta) (x : Nat) :
    x ∈ AL.keys (touchNode ns n m) ↔ x ∈ AL.keys ns ∨ x = n := by
  rw [keys_touchNode]; split
  · rename_i h; constructor
    · intro hx; exact Or.inl hx
    · rintro (hx | rfl); exact hx; exact h
  · simp

theorem mem_keys_touchAll (ns : List (Nat × Meta)) (l : List Nat) (x : Nat) :
    x ∈ AL.keys (touchAll ns l) ↔ x ∈ AL.keys ns ∨ x ∈ l := by
  unfold touchAll
  induction l generalizing ns with
  | nil => simp
  | cons a t ih =>
    simp only [List.foldl_cons]
    rw [ih, mem_keys_touchNode]
    simp only [List.mem_cons]
    constructor
    · rintro ((h | h) | h)
      · exact Or.inl h
      · exact Or.inr (Or.inl h)
      · exact Or.inr (Or.inr h)
    · rintro (h | h | h)
      · exact Or.inl (Or.inl h)
      · exact Or.inl (Or.inr h)
      · exact Or.inr h

theorem nodup_touchAll (ns : List (Nat × Meta)) (l : List Nat) (h : (AL.keys ns).Nodup) :
    (AL.keys (touchAll ns l)).Nodup := by
  unfold touchAll
  induction l generalizing ns with
  | nil => exact h
  | cons a t ih => simp only [List.foldl_cons]; exact ih _ (nodup_touchNode ns a [] h)

/-! ## `WF` is preserved -/
section wf
variable {κ : Type} [DecidableEq κ] [Kind κ]

theorem WF_construct (w : Bool) : WF (construct κ w) := by
  simp [WF, construct, AL.keys]

theorem WF_setHMeta (c : Content κ) (hm : Meta) (h : WF c) : WF (setHMeta c hm) := h

theorem WF_addNode (c : Content κ) (n : Nat) (m : Option Meta) (h : WF c) : WF (addNode c n m) := by
  obtain ⟨h1, h2, h3, h4, h5⟩ := h
  refine ⟨nodup_touchNode _ _ _ h1, h2, h3, ?_, h5⟩
  intro e he x hx
  exact (mem_keys_touchNode _ _ _ _).mpr (Or.inl (h4 e he x hx))

/-- what `add_edge` does to the listings -/
theorem addEdge_spec (c c' : Content κ) (raw : κ) (w : Option Int) (m : Option Meta)
    (h : addEdge c raw w m = some c') :
    c'.weighted = c.weighted ∧ c'.hmeta = c.hmeta ∧
    (match AL.get? c.edges (Kind.canon raw) with
      | none => c'.edges = c.edges ++ [(Kind.canon raw, ((if c.weighted then weightOrUnit w else unit), metaOrEmpty m))]
                ∧ c'.nodes = touchAll c.nodes (Kind.members (Kind.canon raw))
      | some old => c'.edges = AL.set c.edges (Kind.canon raw) ((if c.weighted then old.1 + weightOrUnit w else old.1), metaOrEmpty m)
                ∧ c'.nodes = if Kind.touchAlways κ then touchAll c.nodes (Kind.members (Kind.canon raw)) else c.nodes) := by
  unfold addEdge at h
  split at h
  · cases h
  · cases hg : AL.get? c.edges (Kind.canon raw) with
    | none => simp only [hg] at h; cases h; simp [addEdgeNew]
    | some old => simp only [hg] at h; cases h; simp [addEdgeOld]

variable [CanonKind κ]

theorem WF_addEdge (c c' : Content κ) (raw : κ) (w : Option Int) (m : Option Meta)
    (hwf : WF c) (h : addEdge c raw w m = some c') : WF c' := by
  obtain ⟨h1, h2, h3, h4, h5⟩ := hwf
  obtain ⟨hw, _, hs⟩ := addEdge_spec c c' raw w m h
  cases hg : AL.get? c.edges (Kind.canon raw) with
  | none =>
    rw [hg] at hs
    obtain ⟨he, hn⟩ := hs
    have hnew : Kind.canon raw ∉ AL.keys c.edges := (AL.get?_eq_none_iff _ _).mp hg
    refine ⟨?_, ?_, ?_, ?_, ?_⟩
    · rw [hn]; exact nodup_touchAll _ _ h1
    · rw [he, AL_keys_append]
      exact List.nodup_append.mpr ⟨h2, by simp [AL.keys], by
        intro a ha b hb; simp [AL.keys] at hb; subst hb; intro hab; subst hab; exact hnew ha⟩
    · intro e hin; rw [he] at hin
      rcases List.mem_append.mp hin with hin | hin
      · exact h3 e hin
      · simp at hin; subst hin; exact CanonKind.canon_idem raw
    · intro e hin x hx; rw [he] at hin; rw [hn]
      rcases List.mem_append.mp hin with hin | hin
      · exact (mem_keys_touchAll _ _ _).mpr (Or.inl (h4 e hin x hx))
      · simp at hin; subst hin; exact (mem_keys_touchAll _ _ _).mpr (Or.inr hx)
    · intro hu e hin; rw [he] at hin; rw [hw] at hu
      rcases List.mem_append.mp hin with hin | hin
      · exact h5 hu e hin
      · simp at hin; subst hin; simp [hu]
  | some old =>
    rw [hg] at hs
    obtain ⟨he, hn⟩ := hs
    have hold : Kind.canon raw ∈ AL.keys c.edges := by
      apply Decidable.byContradiction; intro hc
      rw [(AL.get?_eq_none_iff _ _).mpr hc] at hg; cases hg
    have hmem := AL_get?_mem _ _ _ hg
    have hsub : ∀ x, x ∈ AL.keys c.nodes → x ∈ AL.keys c'.nodes := by
      intro x hx; rw [hn]; split
      · exact (mem_keys_touchAll _ _ _).mpr (Or.inl hx)
      · exact hx
    refine ⟨?_, ?_, ?_, ?_, ?_⟩
    · rw [hn]; split
      · exact nodup_touchAll _ _ h1
      · exact h1
    · rw [he, AL_keys_set_old _ _ _ hold]; exact h2
    · intro e hin; rw [he] at hin
      rcases AL_mem_set _ _ _ _ hin with hin | hin
      · exact h3 e hin
      · subst hin; exact CanonKind.canon_idem raw
    · intro e hin x hx; rw [he] at hin
      rcases AL_mem_set _ _ _ _ hin with hin | hin
      · exact hsub x (h4 e hin x hx)
      · subst hin; exact hsub x (h4 _ hmem x hx)
    · intro hu e hin; rw [he] at hin; rw [hw] at hu
      rcases AL_mem_set _ _ _ _ hin with hin | hin
      · exact h5 hu e hin
      · subst hin; simp [hu]; exact h5 hu _ hmem

end wf

end C06
