import Hgxv.Model.C10
/-! Helper lemmas for C10: `combinations`, `get_all_subsets`, `simplicial_complex`. Core Lean only. -/
namespace C10

theorem mem_combos {α : Type} (l : List α) (r : Nat) (k : List α) :
    k ∈ combos l r ↔ k.Sublist l ∧ k.length = r := by
  induction l generalizing r k with
  | nil =>
    cases r with
    | zero => simp [combos]
    | succ r => simp [combos]; intro h; subst h; simp
  | cons a t ih =>
    cases r with
    | zero =>
      simp only [combos, List.mem_singleton]
      constructor
      · rintro rfl; simp
      · rintro ⟨_, h⟩; exact List.length_eq_zero_iff.1 h
    | succ r =>
      simp only [combos, List.mem_append, List.mem_map, ih]
      constructor
      · rintro (⟨c, ⟨hc, hl⟩, rfl⟩ | ⟨h1, h2⟩)
        · exact ⟨List.Sublist.cons_cons a hc, by simp [hl]⟩
        · exact ⟨List.Sublist.cons a h1, h2⟩
      · rintro ⟨hs, hl⟩
        cases hs with
        | cons _ h => exact Or.inr ⟨h, hl⟩
        | cons_cons _ h => rename_i k'; exact Or.inl ⟨k', ⟨h, by simpa using hl⟩, rfl⟩

theorem mem_allSubsets {α : Type} (e k : List α) : k ∈ allSubsets e ↔ k.Sublist e := by
  simp only [allSubsets, List.mem_flatMap, List.mem_range, mem_combos]
  constructor
  · rintro ⟨r, _, h, _⟩; exact h
  · intro h; exact ⟨k.length, Nat.lt_succ_of_le h.length_le, h, rfl⟩

theorem insertSorted_of_le (a : Nat) (l : List Nat) (h : ∀ b ∈ l, a ≤ b) : insertSorted a l = a :: l := by
  cases l with
  | nil => rfl
  | cons b t => simp [insertSorted, h b (by simp)]

/-- `sorted` is the identity on strictly increasing tuples -/
theorem sortNodes_of_sorted (l : List Nat) (h : l.Pairwise (· < ·)) : sortNodes l = l := by
  induction l with
  | nil => rfl
  | cons a t ih =>
    rw [List.pairwise_cons] at h
    show insertSorted a (sortNodes t) = a :: t
    rw [ih h.2]; exact insertSorted_of_le a t (fun b hb => Nat.le_of_lt (h.1 b hb))

/-- a strictly increasing list whose members lie in a strictly increasing list is a sub-tuple of it -/
theorem sublist_of_sorted_subset (e : List Nat) (he : e.Pairwise (· < ·)) (k : List Nat) (hk : k.Pairwise (· < ·))
    (hsub : ∀ x ∈ k, x ∈ e) : k.Sublist e := by
  induction e generalizing k with
  | nil =>
    cases k with
    | nil => exact List.Sublist.slnil
    | cons b k' => exact absurd (hsub b (by simp)) (by simp)
  | cons a t ih =>
    rw [List.pairwise_cons] at he
    cases k with
    | nil => exact List.nil_sublist _
    | cons b k' =>
      rw [List.pairwise_cons] at hk
      have hb := hsub b (by simp)
      rw [List.mem_cons] at hb
      rcases hb with rfl | hb
      · apply List.Sublist.cons_cons
        apply ih he.2 k' hk.2
        intro x hx
        have h1 := hsub x (List.mem_cons_of_mem _ hx)
        have h2 := hk.1 x hx
        rw [List.mem_cons] at h1
        rcases h1 with rfl | h1
        · omega
        · exact h1
      · apply List.Sublist.cons
        apply ih he.2 (b :: k') (List.pairwise_cons.2 hk)
        intro x hx
        have h1 := hsub x hx
        have hab := he.1 b hb
        rw [List.mem_cons] at h1 hx
        rcases h1 with rfl | h1
        · rcases hx with rfl | hx
          · omega
          · have := hk.1 x hx; omega
        · exact h1

theorem mem_setAdd (s : List Edge) (x k : Edge) : k ∈ setAdd s x ↔ k ∈ s ∨ k = x := by
  unfold setAdd; split
  · rename_i h; have : x ∈ s := by simpa using h
    constructor
    · exact Or.inl
    · rintro (h | rfl) <;> assumption
  · simp

theorem nodup_setAdd (s : List Edge) (x : Edge) (h : s.Nodup) : (setAdd s x).Nodup := by
  unfold setAdd; split
  · exact h
  · rename_i hx
    have : x ∉ s := by simpa using hx
    exact List.nodup_append.2 ⟨h, by simp, by simp; intro a ha hax; exact this (hax ▸ ha)⟩

theorem mem_foldl_setAdd (f : List Nat → Edge) (l : List (List Nat)) (s : List Edge) (k : Edge) :
    k ∈ l.foldl (fun s sub => setAdd s (f sub)) s ↔ k ∈ s ∨ ∃ sub ∈ l, f sub = k := by
  induction l generalizing s with
  | nil => simp
  | cons a t ih =>
    rw [List.foldl_cons, ih, mem_setAdd]
    simp only [List.mem_cons]
    constructor
    · rintro ((h | rfl) | ⟨sub, hs, rfl⟩)
      · exact Or.inl h
      · exact Or.inr ⟨a, Or.inl rfl, rfl⟩
      · exact Or.inr ⟨sub, Or.inr hs, rfl⟩
    · rintro (h | ⟨sub, rfl | hs, rfl⟩)
      · exact Or.inl (Or.inl h)
      · exact Or.inl (Or.inr rfl)
      · exact Or.inr ⟨sub, hs, rfl⟩

theorem nodup_foldl_setAdd (f : List Nat → Edge) (l : List (List Nat)) (s : List Edge) (h : s.Nodup) :
    (l.foldl (fun s sub => setAdd s (f sub)) s).Nodup := by
  induction l generalizing s with
  | nil => simpa
  | cons a t ih => rw [List.foldl_cons]; exact ih _ (nodup_setAdd _ _ h)

theorem mem_simplicial_fold (es : List Edge) (s : List Edge) (k : Edge) :
    k ∈ es.foldl simplicialEdge s ↔ k ∈ s ∨ ∃ e ∈ es, ∃ sub, sub.Sublist e ∧ sortNodes sub = k := by
  induction es generalizing s with
  | nil => simp
  | cons a t ih =>
    rw [List.foldl_cons, ih]
    unfold simplicialEdge
    rw [mem_foldl_setAdd]
    simp only [mem_allSubsets, List.mem_cons]
    constructor
    · rintro ((h | ⟨sub, hs, rfl⟩) | ⟨e, he, sub, hs, rfl⟩)
      · exact Or.inl h
      · exact Or.inr ⟨a, Or.inl rfl, sub, hs, rfl⟩
      · exact Or.inr ⟨e, Or.inr he, sub, hs, rfl⟩
    · rintro (h | ⟨e, rfl | he, sub, hs, rfl⟩)
      · exact Or.inl (Or.inl h)
      · exact Or.inl (Or.inr ⟨sub, hs, rfl⟩)
      · exact Or.inr ⟨e, he, sub, hs, rfl⟩

theorem nodup_simplicial_fold (es : List Edge) (s : List Edge) (h : s.Nodup) : (es.foldl simplicialEdge s).Nodup := by
  induction es generalizing s with
  | nil => simpa
  | cons a t ih => rw [List.foldl_cons]; exact ih _ (nodup_foldl_setAdd _ _ _ h)

end C10
