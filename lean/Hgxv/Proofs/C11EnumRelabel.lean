import Hgxv.Proofs.C11Enum
import Hgxv.Proofs.C11Relabel
/-! # C11 - the enumeration is equivariant under relabelling; order hypotheses in the words of the code (core only) -/
namespace C11

/-! ## the order hypotheses of `countedWith_perm` in the words of the code -/

theorem mem_upTo {n : Nat} {E : HG} {e : List Nat} : e ∈ upTo n E ↔ e ∈ E ∧ e.length ≤ n := by
  simp [upTo, List.mem_filter]

theorem mem_incident_upTo {n : Nat} {E : HG} {x : Nat} {e : List Nat} :
    e ∈ incident n (upTo n E) x ↔ e ∈ E ∧ e.length < n ∧ x ∈ e := by
  simp only [incident, smaller, upTo, List.mem_filter, decide_eq_true_eq, List.contains_iff_mem]
  constructor
  · rintro ⟨⟨⟨a, _⟩, b⟩, c⟩; exact ⟨a, b, c⟩
  · rintro ⟨a, b, c⟩; exact ⟨⟨⟨a, by omega⟩, b⟩, c⟩

theorem mem_nbrs_upTo {n : Nat} (hn : 2 ≤ n) {E : HG} {y x : Nat} :
    x ∈ nbrs (upTo n E) y ↔ ∃ e ∈ E, e.length = 2 ∧ y ∈ e ∧ x ∈ e ∧ x ≠ y := by
  rw [mem_nbrs]
  constructor
  · rintro ⟨e, he, r⟩; exact ⟨e, (mem_upTo.mp he).1, r⟩
  · rintro ⟨e, he, hl, r⟩; exact ⟨e, mem_upTo.mpr ⟨he, by omega⟩, hl, r⟩

theorem mem_roots_upTo {n : Nat} (hn : 2 ≤ n) {E : HG} {v : Nat} :
    v ∈ roots (upTo n E) ↔ ∃ e ∈ E, e.length = 2 ∧ v ∈ e := by
  rw [mem_roots]
  constructor
  · rintro ⟨e, he, r⟩; exact ⟨e, (mem_upTo.mp he).1, r⟩
  · rintro ⟨e, he, hl, r⟩; exact ⟨e, mem_upTo.mpr ⟨he, by omega⟩, hl, r⟩

theorem countedWith_perm' {n : Nat} (hn : 2 ≤ n) (E : HG) {inc : Nat → HG} {g : Nat → List Nat} {rts : List Nat}
    (hinc : ∀ x e, e ∈ inc x ↔ e ∈ E ∧ e.length < n ∧ x ∈ e)
    (hg : ∀ w, (g w).Nodup ∧ ∀ u, u ∈ g w ↔ ∃ e ∈ E, e.length = 2 ∧ w ∈ e ∧ u ∈ e ∧ u ≠ w)
    (hr : rts.Nodup ∧ ∀ v, v ∈ rts ↔ ∃ e ∈ E, e.length = 2 ∧ v ∈ e) :
    (countedWith n E inc g rts).Perm (countedPats n E) := by
  apply countedWith_perm (by omega) E
  · intro x e; rw [hinc, mem_incident_upTo]
  · intro w; refine ⟨(hg w).1, fun u => ?_⟩; rw [(hg w).2, mem_nbrs_upTo hn]
  · refine ⟨hr.1, fun v => ?_⟩; rw [hr.2, mem_roots_upTo hn]

/-! ## relabelling -/

section
variable {π : Nat → Nat} (hπ : ∀ a b, π a = π b → a = b)
include hπ

theorem counted_relabel {n : Nat} (hn : n = 3 ∨ n = 4) {E : HG} (hE : WF E) :
    (counted n (relabelHG π E)).Perm ((counted n E).map (relabelSet π)) := by
  have hE' : WF (relabelHG π E) := relabelHG_wf hπ hE
  have hnd := counted_nodup hn hE
  have hnd2 : ((counted n E).map (relabelSet π)).Nodup := by
    rw [List.nodup_iff_pairwise_ne, List.pairwise_map]
    rw [List.nodup_iff_pairwise_ne] at hnd
    refine List.Pairwise.imp_of_mem ?_ hnd
    intro a b ha hb hab heq
    exact hab (relabelSet_inj hπ ((mem_counted hn hE).mp ha).1 ((mem_counted hn hE).mp hb).1 heq)
  apply (List.perm_ext_iff_of_nodup (counted_nodup hn hE') hnd2).mpr
  intro S'
  rw [mem_counted hn hE', List.mem_map]
  constructor
  · rintro ⟨hS', hlen', hc'⟩
    -- the preimage: the nodes of `E` whose image lies in `S'`
    let S := (nodesOf E).filter fun x => S'.contains (π x)
    have hSs : SSorted S := List.Pairwise.filter _ (nodesOf_sorted E)
    have hmem : ∀ y, y ∈ relabelSet π S ↔ y ∈ S' := by
      intro y
      rw [mem_relabelSet hπ]
      constructor
      · rintro ⟨x, hx, rfl⟩
        exact List.contains_iff_mem.mp (List.mem_filter.mp hx).2
      · intro hy
        obtain ⟨e', he', hye'⟩ := conn_covered hS' (by rcases hn with h | h <;> omega) hc' y hy
        obtain ⟨x, hx, hxy⟩ := (mem_nodesOf_relabel hπ).mp (mem_nodesOf.mpr ⟨e', he', hye'⟩)
        refine ⟨x, List.mem_filter.mpr ⟨hx, ?_⟩, hxy⟩
        rw [hxy]; exact List.contains_iff_mem.mpr hy
    have heq : relabelSet π S = S' :=
      eq_of_sorted_of_mem_iff (relabelSet_sorted hπ hSs.nodup) hS' hmem
    refine ⟨S, (mem_counted hn hE).mpr ⟨hSs, ?_, ?_⟩, heq⟩
    · rw [← relabelSet_length (π := π) S, heq]; exact hlen'
    · rw [← heq] at hc'; exact (conn_relabel hπ).mp hc'
  · rintro ⟨S, hS, rfl⟩
    obtain ⟨hSs, hlen, hc⟩ := (mem_counted hn hE).mp hS
    exact ⟨relabelSet_sorted hπ hSs.nodup, by rw [relabelSet_length]; exact hlen, (conn_relabel hπ).mpr hc⟩

end
end C11
