import Hgxv.Proofs.C10Graph
import Mathlib.Algebra.Order.Field.Rat
import Mathlib.Algebra.Order.Field.Basic
import Mathlib.Data.List.Induction
/-! Helper lemmas for C10: similarity values, the line graph and the directed line graph. -/
namespace C10

/-- the value the property speaks of: intersection size, or Jaccard similarity `|a ∩ b| / |a ∪ b|` -/
def distV (d : Dist) (a b : List Nat) : Rat :=
  match d with
  | .intersection => (interSize a b : Rat)
  | .jaccard => (interSize a b : Rat) / (unionSize a b : Rat)

theorem dist?_eq (d : Dist) (a b : List Nat) (h : d = .jaccard → unionSize a b ≠ 0) :
    dist? d a b = some (distV d a b) := by
  cases d with
  | intersection => rfl
  | jaccard => simp [dist?, jaccard?, distV, h rfl]

theorem interSize_comm (a b : List Nat) (ha : a.Nodup) (hb : b.Nodup) : interSize a b = interSize b a := by
  unfold interSize
  apply List.Perm.length_eq
  rw [List.perm_ext_iff_of_nodup (ha.filter _) (hb.filter _)]
  intro x; simp [List.mem_filter, and_comm]

theorem unionSize_add (a b : List Nat) : unionSize a b + interSize b a = a.length + b.length := by
  unfold unionSize interSize
  have h := List.length_eq_countP_add_countP (fun x => a.contains x) (l := b)
  rw [← List.countP_eq_length_filter, ← List.countP_eq_length_filter]
  have h2 : List.countP (fun x => !a.contains x) b = List.countP (fun x => decide ¬(a.contains x = true)) b := by
    apply List.countP_congr; intro x _; cases a.contains x <;> simp
  omega

theorem unionSize_comm (a b : List Nat) (ha : a.Nodup) (hb : b.Nodup) : unionSize a b = unionSize b a := by
  have h1 := unionSize_add a b
  have h2 := unionSize_add b a
  have h3 := interSize_comm a b ha hb
  omega

theorem distV_comm (d : Dist) (a b : List Nat) (ha : a.Nodup) (hb : b.Nodup) : distV d a b = distV d b a := by
  cases d <;> simp [distV, interSize_comm a b ha hb, unionSize_comm a b ha hb]

theorem interSize_pos {a b : List Nat} (h : 0 < interSize a b) : ∃ n, n ∈ a ∧ n ∈ b := by
  unfold interSize at h
  obtain ⟨n, hn⟩ := List.exists_mem_of_length_pos h
  rw [List.mem_filter] at hn
  exact ⟨n, hn.1, by simpa using hn.2⟩

/-- a positive threshold is only reached by sets that share an element -/
theorem shares_of_le_distV {d : Dist} {a b : List Nat} {s : Rat} (hs : 0 < s) (h : s ≤ distV d a b) :
    ∃ n, n ∈ a ∧ n ∈ b := by
  apply interSize_pos
  apply Nat.pos_of_ne_zero
  intro h0
  cases d <;> simp [distV, h0] at h <;> exact absurd (lt_of_lt_of_le hs h) (lt_irrefl _)

theorem unionSize_ne_zero_left {a b : List Nat} (h : a ≠ []) : unionSize a b ≠ 0 := by
  unfold unionSize
  have := List.length_pos_iff.2 h
  omega

theorem unionSize_ne_zero_right {a b : List Nat} (h : b ≠ []) : unionSize a b ≠ 0 := by
  unfold unionSize
  obtain ⟨x, hx⟩ := List.exists_mem_of_ne_nil _ h
  by_cases hxa : x ∈ a
  · have := List.length_pos_of_mem hxa; omega
  · have : x ∈ b.filter (fun x => !a.contains x) := by simp [List.mem_filter, hx, hxa]
    have := List.length_pos_of_mem this; omega

/-! ### ids -/
section ids
variable {α : Type} [BEq α] [LawfulBEq α]

theorem idOf_lt {es : List α} {e : α} (h : e ∈ es) : idOf es e < es.length :=
  List.idxOf_lt_length_iff.2 h

theorem getElem_idOf {es : List α} {e : α} (h : e ∈ es) : es[idOf es e]'(idOf_lt h) = e :=
  List.getElem_idxOf _

theorem idOf_inj {es : List α} {a b : α} (ha : a ∈ es) (hb : b ∈ es) (h : idOf es a = idOf es b) : a = b := by
  have h1 := getElem_idOf ha
  have h2 := getElem_idOf hb
  simp only [h] at h1
  exact h1.symm.trans h2

theorem idOf_getElem {es : List α} (hnd : es.Nodup) (i : Nat) (hi : i < es.length) : idOf es es[i] = i :=
  hnd.idxOf_getElem i hi

theorem keys_emptyOn (m : Nat) : AL.keys (emptyOn m).nodes = List.range m := by
  induction m with
  | zero => rfl
  | succ m ih =>
    have : emptyOn (m + 1) = (emptyOn m).touch m := by
      simp [emptyOn, Graph.addNodesFrom, List.range_succ, List.foldl_append]
    rw [this, keys_touch, ih, List.range_succ]
    simp

theorem adj_emptyOn (m : Nat) : (emptyOn m).adj = [] := by
  induction m with
  | zero => rfl
  | succ m ih =>
    have : emptyOn (m + 1) = (emptyOn m).touch m := by
      simp [emptyOn, Graph.addNodesFrom, List.range_succ, List.foldl_append]
    rw [this, adj_touch, ih]

end ids

/-! ### directed line graph -/

/-- value attached to the ordered id pair `(i, j)`: `_distance(target of e_i, source of e_j)` -/
def dVal (es : List DEdge) (d : Dist) (i j : Nat) : Rat :=
  distV d (es.getD i ([], [])).2 (es.getD j ([], [])).1

def dAttr (weighted : Bool) (w : Rat) : Option Rat := if weighted then some w else none

structure DInv (es : List DEdge) (d : Dist) (s : Rat) (weighted : Bool) (g : Graph Nat) (K : List (Nat × Nat)) : Prop where
  keys : AL.keys g.nodes = List.range es.length
  adj : ∀ x y a, AL.get? g.adj (x, y) = some a ↔
    ((x, y) ∈ K ∧ x ≠ y ∧ s ≤ dVal es d x y ∧ a = dAttr weighted (dVal es d x y))

theorem getD_idOf {es : List DEdge} {e : DEdge} (h : e ∈ es) : es.getD (idOf es e) ([], []) = e := by
  simp [List.getD_eq_getElem?_getD, List.getElem?_eq_getElem (idOf_lt h), getElem_idOf h]

theorem dlgVisit_inv {es : List DEdge} {d : Dist} {s : Rat} {weighted : Bool} {g : Graph Nat} {K : List (Nat × Nat)}
    (hI : DInv es d s weighted g K) {a b : DEdge} (ha : a ∈ es) (hb : b ∈ es)
    (hu : d = .jaccard → a ≠ b → unionSize a.2 b.1 ≠ 0) :
    ∃ g', dlgVisit es d s weighted g (a, b) = some g' ∧ DInv es d s weighted g' (K ++ [(idOf es a, idOf es b)]) := by
  unfold dlgVisit
  by_cases hab : a = b
  · subst hab
    refine ⟨g, by simp, hI.keys, ?_⟩
    intro x y c
    rw [hI.adj]; simp only [List.mem_append, List.mem_singleton, Prod.mk.injEq]; grind
  · have hij : idOf es a ≠ idOf es b := fun h => hab (idOf_inj ha hb h)
    have hw : dist? d a.2 b.1 = some (dVal es d (idOf es a) (idOf es b)) := by
      rw [dVal, getD_idOf ha, getD_idOf hb]; exact dist?_eq _ _ _ (fun hd => hu hd hab)
    simp only [hab, if_false, hw]
    by_cases hs : s ≤ dVal es d (idOf es a) (idOf es b)
    · refine ⟨g.addArc (idOf es a) (idOf es b) (dAttr weighted (dVal es d (idOf es a) (idOf es b))),
        by simp only [hs, if_true, dAttr], ?_, ?_⟩
      · rw [addArc_nodes_of_mem, hI.keys]
        · rw [hI.keys]; exact List.mem_range.2 (idOf_lt ha)
        · rw [hI.keys]; exact List.mem_range.2 (idOf_lt hb)
      · intro x y c
        rw [get_adj_addArc]
        have := hI.adj x y c
        simp only [List.mem_append, List.mem_singleton, Prod.mk.injEq, dAttr] at *
        grind
    · refine ⟨g, by simp only [hs, if_false], hI.keys, ?_⟩
      intro x y c
      rw [hI.adj]; simp only [List.mem_append, List.mem_singleton, Prod.mk.injEq]; grind

theorem dlg_fold_inv {es : List DEdge} {d : Dist} {s : Rat} {weighted : Bool}
    (ps : List (DEdge × DEdge)) (hps : ∀ p ∈ ps, p.1 ∈ es ∧ p.2 ∈ es)
    (hu : d = .jaccard → ∀ p ∈ ps, p.1 ≠ p.2 → unionSize p.1.2 p.2.1 ≠ 0) :
    ∃ g, ps.foldlM (dlgVisit es d s weighted) (emptyOn es.length) = some g ∧
      DInv es d s weighted g (ps.map (fun p => (idOf es p.1, idOf es p.2))) := by
  induction ps using List.reverseRecOn with
  | nil =>
    refine ⟨_, rfl, keys_emptyOn _, ?_⟩
    intro x y a; simp [adj_emptyOn]
  | append_singleton ps p ih =>
    obtain ⟨g, hg, hI⟩ := ih (fun q hq => hps q (by simp [hq])) (fun hd q hq => hu hd q (by simp [hq]))
    obtain ⟨g', hg', hI'⟩ := dlgVisit_inv hI (hps p (by simp)).1 (hps p (by simp)).2
      (fun hd => hu hd p (by simp))
    refine ⟨g', ?_, ?_⟩
    · rw [List.foldlM_append, hg]; simpa using hg'
    · simpa using hI'


/-! ### line graph -/

/-- value attached to the unordered id pair `{x, y}`: `_distance(e_x, e_y)` -/
def uVal (es : List Edge) (d : Dist) (x y : Nat) : Rat := distV d (es.getD x []) (es.getD y [])

def lgAttr (weighted : Bool) (w : Rat) : Option Rat := some (if weighted then w else 1)

theorem pairKey_comm (i j : Nat) : pairKey i j = pairKey j i := by
  unfold pairKey; split <;> split <;> first | rfl | (simp only [Prod.mk.injEq]; omega)

theorem pairKey_eq_iff (x y i j : Nat) : pairKey x y = pairKey i j ↔ (x = i ∧ y = j) ∨ (x = j ∧ y = i) := by
  unfold pairKey; split <;> split <;> simp only [Prod.mk.injEq] <;> omega

theorem pairKey_le (x y : Nat) : (pairKey x y).1 ≤ (pairKey x y).2 := by
  unfold pairKey; split <;> simp <;> omega

theorem nodup_getD {es : List Edge} (hnd : ∀ e ∈ es, e.Nodup) (x : Nat) : (es.getD x []).Nodup := by
  rw [List.getD_eq_getElem?_getD]
  cases h : es[x]? with
  | none => simp
  | some e => exact hnd e (List.mem_of_getElem? h)

theorem uVal_comm {es : List Edge} (hnd : ∀ e ∈ es, e.Nodup) (d : Dist) (x y : Nat) :
    uVal es d x y = uVal es d y x :=
  distV_comm d _ _ (nodup_getD hnd x) (nodup_getD hnd y)

theorem getD_idOf' {es : List Edge} {e : Edge} (h : e ∈ es) : es.getD (idOf es e) [] = e := by
  simp [List.getD_eq_getElem?_getD, List.getElem?_eq_getElem (idOf_lt h), getElem_idOf h]

theorem uVal_getElem (es : List Edge) (d : Dist) (i j : Nat) (hi : i < es.length) (hj : j < es.length) :
    uVal es d i j = distV d es[i] es[j] := by
  simp [uVal, List.getD_eq_getElem?_getD, List.getElem?_eq_getElem hi, List.getElem?_eq_getElem hj]

structure LInv (es : List Edge) (d : Dist) (s : Rat) (weighted : Bool) (st : LG) (K : List (Nat × Nat)) : Prop where
  vis : ∀ k, k ∈ st.vis ↔ k ∈ K
  nodup : st.vis.Nodup
  keys : AL.keys st.g.nodes = List.range es.length
  adj : ∀ x y a, AL.get? st.g.adj (x, y) = some a ↔
    (pairKey x y ∈ K ∧ s ≤ uVal es d x y ∧ a = lgAttr weighted (uVal es d x y))

theorem lgVisit_inv {es : List Edge} {d : Dist} {s : Rat} {weighted : Bool} {st : LG} {K : List (Nat × Nat)}
    (hnd : ∀ e ∈ es, e.Nodup) (hI : LInv es d s weighted st K) {a b : Edge} (ha : a ∈ es) (hb : b ∈ es)
    (hn : ∃ n, n ∈ a ∧ n ∈ b) :
    ∃ st', lgVisit es d s weighted st (a, b) = some st' ∧
      LInv es d s weighted st' (K ++ [pairKey (idOf es a) (idOf es b)]) := by
  unfold lgVisit
  by_cases hk : pairKey (idOf es a) (idOf es b) ∈ st.vis
  · refine ⟨st, by simp [hk], ?_, hI.nodup, hI.keys, ?_⟩
    · intro k; rw [hI.vis]; have := (hI.vis _).1 hk; simp only [List.mem_append, List.mem_singleton]; grind
    · intro x y c; rw [hI.adj]; have := (hI.vis _).1 hk; simp only [List.mem_append, List.mem_singleton]; grind
  · have hane : a ≠ [] := by obtain ⟨n, hna, _⟩ := hn; exact List.ne_nil_of_mem hna
    have hw : dist? d a b = some (uVal es d (idOf es a) (idOf es b)) := by
      rw [uVal, getD_idOf' ha, getD_idOf' hb]; exact dist?_eq _ _ _ (fun _ => unionSize_ne_zero_left hane)
    have hsym := uVal_comm hnd d (idOf es a) (idOf es b)
    have hkK : pairKey (idOf es a) (idOf es b) ∉ K := fun h => hk ((hI.vis _).2 h)
    have hc : st.vis.contains (pairKey (idOf es a) (idOf es b)) = false := by simpa using hk
    simp only [hc, hw]
    by_cases hs : s ≤ uVal es d (idOf es a) (idOf es b)
    · refine ⟨{ vis := pairKey (idOf es a) (idOf es b) :: st.vis,
                g := lgAdd st.g (idOf es a) (idOf es b) weighted (uVal es d (idOf es a) (idOf es b)) },
        by simp [hs], ?_, ?_, ?_, ?_⟩
      · intro k; simp only [List.mem_cons, List.mem_append, hI.vis]; grind
      · exact List.nodup_cons.2 ⟨hk, hI.nodup⟩
      · show AL.keys (lgAdd _ _ _ _ _).nodes = _
        unfold lgAdd
        rw [addEdge_nodes_of_mem, hI.keys]
        · rw [hI.keys]; exact List.mem_range.2 (idOf_lt ha)
        · rw [hI.keys]; exact List.mem_range.2 (idOf_lt hb)
      · intro x y c
        show AL.get? (lgAdd _ _ _ _ _).adj (x, y) = some c ↔ _
        unfold lgAdd
        rw [get_adj_addEdge]
        have h1 := hI.adj x y c
        have h2 := pairKey_eq_iff x y (idOf es a) (idOf es b)
        simp only [List.mem_append, List.mem_singleton, Prod.mk.injEq, lgAttr] at *
        grind
    · refine ⟨{ vis := pairKey (idOf es a) (idOf es b) :: st.vis, g := st.g }, by simp [hs], ?_, ?_, hI.keys, ?_⟩
      · intro k; simp only [List.mem_cons, List.mem_append, hI.vis]; grind
      · exact List.nodup_cons.2 ⟨hk, hI.nodup⟩
      · intro x y c
        have h1 := hI.adj x y c
        have h2 := pairKey_eq_iff x y (idOf es a) (idOf es b)
        simp only [List.mem_append, List.mem_singleton] at *
        grind

theorem lg_fold_inv {es : List Edge} {d : Dist} {s : Rat} {weighted : Bool} (hnd : ∀ e ∈ es, e.Nodup)
    (ps : List (Edge × Edge)) (hps : ∀ p ∈ ps, p.1 ∈ es ∧ p.2 ∈ es ∧ ∃ n, n ∈ p.1 ∧ n ∈ p.2) :
    ∃ st, ps.foldlM (lgVisit es d s weighted) { vis := [], g := emptyOn es.length } = some st ∧
      LInv es d s weighted st (ps.map (fun p => pairKey (idOf es p.1) (idOf es p.2))) := by
  induction ps using List.reverseRecOn with
  | nil =>
    refine ⟨_, rfl, by simp, by simp, keys_emptyOn _, ?_⟩
    intro x y a; simp [adj_emptyOn]
  | append_singleton ps p ih =>
    obtain ⟨st, hst, hI⟩ := ih (fun q hq => hps q (by simp [hq]))
    have hp := hps p (by simp)
    obtain ⟨st', hst', hI'⟩ := lgVisit_inv hnd hI hp.1 hp.2.1 hp.2.2
    refine ⟨st', ?_, ?_⟩
    · rw [List.foldlM_append, hst]; simpa using hst'
    · simpa using hI'

/-- which keys the pair enumeration through the incident lists reaches: exactly the pairs of distinct hyperedges
that share a node -/
theorem key_mem_iff {es : List Edge} (hes : es.Nodup) (adj : List (List Edge))
    (hA : ∀ l ∈ adj, l.Nodup ∧ ∀ e ∈ l, e ∈ es)
    (hC : ∀ l ∈ adj, ∀ a ∈ l, ∀ b ∈ l, ∃ n, n ∈ a ∧ n ∈ b)
    (hB : ∀ a ∈ es, ∀ b ∈ es, (∃ n, n ∈ a ∧ n ∈ b) → ∃ l ∈ adj, a ∈ l ∧ b ∈ l) (x y : Nat) :
    pairKey x y ∈ (adj.flatMap pairsOf).map (fun p => pairKey (idOf es p.1) (idOf es p.2)) ↔
      ∃ (hx : x < es.length) (hy : y < es.length), x ≠ y ∧ ∃ n, n ∈ es[x] ∧ n ∈ es[y] := by
  constructor
  · intro h
    obtain ⟨⟨a, b⟩, hp, hk⟩ := List.mem_map.1 h
    obtain ⟨l, hl, hpl⟩ := List.mem_flatMap.1 hp
    have hm := mem_pairsOf_mem hpl
    have hne := mem_pairsOf_ne (hA l hl).1 hpl
    have ha := (hA l hl).2 a hm.1
    have hb := (hA l hl).2 b hm.2
    have hsh := hC l hl a hm.1 b hm.2
    have hidne : idOf es a ≠ idOf es b := fun h => hne (idOf_inj ha hb h)
    simp only at hk
    rcases (pairKey_eq_iff _ _ _ _).1 hk with ⟨h1, h2⟩ | ⟨h1, h2⟩
    · subst h1 h2
      refine ⟨idOf_lt ha, idOf_lt hb, hidne, ?_⟩
      rw [getElem_idOf ha, getElem_idOf hb]; exact hsh
    · subst h1 h2
      refine ⟨idOf_lt hb, idOf_lt ha, hidne.symm, ?_⟩
      rw [getElem_idOf ha, getElem_idOf hb]
      obtain ⟨n, h1, h2⟩ := hsh; exact ⟨n, h2, h1⟩
  · rintro ⟨hx, hy, hne, hsh⟩
    obtain ⟨l, hl, h1, h2⟩ := hB es[x] (List.getElem_mem hx) es[y] (List.getElem_mem hy) hsh
    have hne' : es[x] ≠ es[y] := fun h => hne (by
      have h1 := idOf_getElem hes x hx
      have h2 := idOf_getElem hes y hy
      rw [h] at h1; omega)
    apply List.mem_map.2
    rcases mem_pairsOf_of_mem h1 h2 hne' with h | h
    · exact ⟨(es[x], es[y]), List.mem_flatMap.2 ⟨l, hl, h⟩, by simp only [idOf_getElem hes]⟩
    · exact ⟨(es[y], es[x]), List.mem_flatMap.2 ⟨l, hl, h⟩, by simp only [idOf_getElem hes]; exact pairKey_comm _ _⟩

/-- `line_graph` for any incident-list table `adj` that lists, node by node, duplicate-free lists of hyperedges
having a common node, such that every two intersecting hyperedges occur together in some list -/
theorem lineGraphFrom_spec (es : List Edge) (d : Dist) (s : Rat) (weighted : Bool) (adj : List (List Edge))
    (hes : es.Nodup) (hnd : ∀ e ∈ es, e.Nodup) (hs : 0 < s)
    (hA : ∀ l ∈ adj, l.Nodup ∧ ∀ e ∈ l, e ∈ es)
    (hC : ∀ l ∈ adj, ∀ a ∈ l, ∀ b ∈ l, ∃ n, n ∈ a ∧ n ∈ b)
    (hB : ∀ a ∈ es, ∀ b ∈ es, (∃ n, n ∈ a ∧ n ∈ b) → ∃ l ∈ adj, a ∈ l ∧ b ∈ l) :
    ∃ r, lineGraphFrom es d s weighted adj = some r ∧
      AL.keys r.g.nodes = List.range es.length ∧
      (∀ i j a, AL.get? r.g.adj (i, j) = some a ↔
        ∃ (hi : i < es.length) (hj : j < es.length), i ≠ j ∧ s ≤ distV d es[i] es[j] ∧
          a = some (if weighted then distV d es[i] es[j] else 1)) ∧
      r.vis.Nodup ∧
      (∀ i j, (i, j) ∈ r.vis ↔
        i < j ∧ ∃ (hi : i < es.length) (hj : j < es.length), ∃ n, n ∈ es[i] ∧ n ∈ es[j]) := by
  have hps : ∀ p ∈ adj.flatMap pairsOf, p.1 ∈ es ∧ p.2 ∈ es ∧ ∃ n, n ∈ p.1 ∧ n ∈ p.2 := by
    intro p hp
    obtain ⟨l, hl, hpl⟩ := List.mem_flatMap.1 hp
    have hm := mem_pairsOf_mem (x := p.1) (y := p.2) hpl
    exact ⟨(hA l hl).2 _ hm.1, (hA l hl).2 _ hm.2, hC l hl _ hm.1 _ hm.2⟩
  obtain ⟨r, hr, hI⟩ := lg_fold_inv (d := d) (s := s) (weighted := weighted) hnd _ hps
  have hkey := key_mem_iff hes adj hA hC hB
  refine ⟨r, hr, hI.keys, ?_, hI.nodup, ?_⟩
  · intro i j a
    rw [hI.adj, hkey]
    constructor
    · rintro ⟨⟨hi, hj, hne, _⟩, hle, ha⟩
      rw [uVal_getElem es d i j hi hj] at hle ha
      exact ⟨hi, hj, hne, hle, ha⟩
    · rintro ⟨hi, hj, hne, hle, ha⟩
      rw [uVal_getElem es d i j hi hj]
      exact ⟨⟨hi, hj, hne, shares_of_le_distV hs hle⟩, hle, ha⟩
  · intro i j
    rw [hI.vis]
    constructor
    · intro h
      obtain ⟨p, _, hk⟩ := List.mem_map.1 h
      have hle : i ≤ j := by have := pairKey_le (idOf es p.1) (idOf es p.2); rw [hk] at this; exact this
      have hpk : pairKey i j = (i, j) := by simp [pairKey, hle]
      rw [← hpk, hkey] at h
      obtain ⟨hi, hj, hne, hsh⟩ := h
      exact ⟨by omega, hi, hj, hsh⟩
    · rintro ⟨hlt, hi, hj, hsh⟩
      have hpk : pairKey i j = (i, j) := by simp [pairKey]; omega
      rw [← hpk, hkey]
      exact ⟨hi, hj, by omega, hsh⟩

theorem mem_allOrdered {α : Type} {es : List α} {a b : α} : (a, b) ∈ allOrdered es ↔ a ∈ es ∧ b ∈ es := by
  simp [allOrdered, List.mem_flatMap]

theorem foldlM_none_of_mem {σ α : Type} (f : σ → α → Option σ) (l : List α) (p : α) (hp : p ∈ l)
    (hf : ∀ st, f st p = none) (st : σ) : l.foldlM f st = none := by
  induction l generalizing st with
  | nil => simp at hp
  | cons a t ih =>
    rw [List.foldlM_cons]
    rw [List.mem_cons] at hp
    cases h : f st a with
    | none => rfl
    | some st' =>
      rcases hp with rfl | hp
      · rw [hf] at h; cases h
      · exact ih hp st'

theorem dVal_getElem (es : List DEdge) (d : Dist) (i j : Nat) (hi : i < es.length) (hj : j < es.length) :
    dVal es d i j = distV d es[i].2 es[j].1 := by
  simp [dVal, List.getD_eq_getElem?_getD, List.getElem?_eq_getElem hi, List.getElem?_eq_getElem hj]

end C10
