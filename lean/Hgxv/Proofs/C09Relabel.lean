import Hgxv.Proofs.C09
/-! Helper lemmas for C09 (core Lean): every matrix of the model depends on the node labels only through their
ORDER.  A strictly increasing relabelling `f` (the rank map by which the harness sends floats, strings, negative or
huge integers to the model; or `0, 0.5, 2 ↦ 0, 1, 2`) commutes with the encoder and leaves every matrix unchanged.
Also: the encoder is the identity exactly when the sorted labels are `0..N-1` - the only situation in which a
"fast path" may use the labels themselves as row indices. -/
set_option linter.unusedSectionVars false
namespace C09

/-- strictly increasing relabelling of the nodes -/
def Increasing (f : Nat → Nat) : Prop := ∀ a b, a < b → f a < f b

theorem Increasing.inj {f : Nat → Nat} (hf : Increasing f) (a b : Nat) (h : f a = f b) : a = b := by
  rcases Nat.lt_trichotomy a b with h1 | h1 | h1
  · have := hf a b h1; omega
  · exact h1
  · have := hf b a h1; omega

/-- a hyperedge list with weights, relabelled -/
def relabelEs {α : Type} (f : Nat → Nat) (es : List (Edge × α)) : List (Edge × α) :=
  es.map fun p => (p.1.map f, p.2)

/-- temporal records, relabelled (times stay) -/
def relabelRecs {α : Type} (f : Nat → Nat) (recs : List (Rec α)) : List (Rec α) :=
  recs.map fun r => (r.1, r.2.1.map f, r.2.2)

/-- a mapping `index ↦ label`, relabelled -/
def relabelMap (f : Nat → Nat) (m : List (Nat × Nat)) : List (Nat × Nat) := m.map fun p => (p.1, f p.2)

theorem insertSorted_map (f : Nat → Nat) (hf : Increasing f) (a : Nat) (l : List Nat) :
    insertSorted (f a) (l.map f) = (insertSorted a l).map f := by
  induction l with
  | nil => simp [insertSorted]
  | cons b bs ih =>
    simp only [List.map_cons, insertSorted]
    by_cases h1 : a < b
    · have := hf a b h1
      simp [h1, this]
    · by_cases h2 : a = b
      · subst h2; simp
      · have h3 : b < a := by omega
        have := hf b a h3
        have h4 : ¬ f a < f b := by omega
        have h5 : ¬ f a = f b := by omega
        simp [h1, h2, h4, h5, ih]

theorem classes_map (f : Nat → Nat) (hf : Increasing f) (l : List Nat) :
    classes (l.map f) = (classes l).map f := by
  induction l with
  | nil => rfl
  | cons a l ih =>
    show insertSorted (f a) (classes (l.map f)) = (insertSorted a (classes l)).map f
    rw [ih, insertSorted_map f hf]

theorem encode_map (f : Nat → Nat) (hinj : ∀ a b, f a = f b → a = b) (cls : List Nat) (x : Nat) :
    encode (cls.map f) (f x) = encode cls x := by
  unfold encode
  induction cls with
  | nil => simp
  | cons c cs ih =>
    simp only [List.map_cons, List.idxOf_cons]
    by_cases h : c = x
    · subst h; simp
    · have h' : ¬ f c = f x := fun e => h (hinj _ _ e)
      have b1 : (c == x) = false := by simpa using h
      have b2 : (f c == f x) = false := by simpa using h'
      rw [b1, b2, ih]

theorem contains_map_inj (f : Nat → Nat) (hinj : ∀ a b, f a = f b → a = b) (e : List Nat) (x : Nat) :
    (e.map f).contains (f x) = e.contains x := by
  induction e with
  | nil => simp
  | cons c cs ih =>
    simp only [List.map_cons, List.contains_cons, ih]
    by_cases h : x = c
    · subst h; simp
    · have h' : ¬ f x = f c := fun e => h (hinj _ _ e)
      have b1 : (x == c) = false := by simpa using h
      have b2 : (f x == f c) = false := by simpa using h'
      rw [b1, b2]

theorem mapping_map (f : Nat → Nat) (hf : Increasing f) (nodes : List Nat) :
    mapping (nodes.map f) = relabelMap f (mapping nodes) := by
  rw [mapping_eq, mapping_eq, classes_map f hf, relabelMap, List.length_map]
  generalize (List.range (classes nodes).length) = r
  generalize classes nodes = c
  induction r generalizing c with
  | nil => simp
  | cons a r ih =>
    cases c with
    | nil => simp
    | cons b c => simp [ih]

section
variable {α : Type} [Add α] [Mul α] [Sub α] [Zero α] [NatCast α] [DecidableEq α]

theorem binInc_map (f : Nat → Nat) (hf : Increasing f) (nodes : List Nat) (edges : List Edge) :
    (binInc (nodes.map f) (edges.map (·.map f)) : List (List α)) = binInc nodes edges := by
  unfold binInc
  simp only [List.length_map, classes_map f hf, List.map_map]
  congr 1
  apply List.map_congr_left
  intro e _
  simp only [Function.comp, List.map_map]
  apply List.map_congr_left
  intro x _
  exact encode_map f hf.inj _ x

theorem relabelEs_fst (f : Nat → Nat) (es : List (Edge × α)) :
    (relabelEs f es).map (·.1) = (es.map (·.1)).map (·.map f) := by
  simp [relabelEs, List.map_map, Function.comp]

theorem relabelEs_snd (f : Nat → Nat) (es : List (Edge × α)) :
    (relabelEs f es).map (·.2) = es.map (·.2) := by
  simp [relabelEs, List.map_map, Function.comp]

theorem inc_map (f : Nat → Nat) (hf : Increasing f) (nodes : List Nat) (es : List (Edge × α)) :
    inc (nodes.map f) (relabelEs f es) = inc nodes es := by
  unfold inc
  rw [relabelEs_fst, relabelEs_snd, binInc_map f hf]

theorem ofOrder_map (f : Nat → Nat) (d : Nat) (es : List (Edge × α)) :
    ofOrder d (relabelEs f es) = relabelEs f (ofOrder d es) := by
  unfold ofOrder relabelEs
  rw [List.filter_map]
  congr 1
  apply List.filter_congr
  intro p _
  simp [Function.comp]

theorem subNodes_map (f : Nat → Nat) (hf : Increasing f) (d : Nat) (k : Bool) (nodes : List Nat) (es : List (Edge × α)) :
    subNodes d k (nodes.map f) (relabelEs f es) = (subNodes d k nodes es).map f := by
  unfold subNodes
  cases k with
  | true => simp
  | false =>
    simp only [Bool.false_eq_true, if_false]
    rw [ofOrder_map, relabelEs_fst, ← classes_map f hf]
    congr 1
    simp [List.map_flatten, List.map_map]

theorem incByOrder_map (f : Nat → Nat) (hf : Increasing f) (d : Nat) (k : Bool) (nodes : List Nat) (es : List (Edge × α)) :
    incByOrder d k (nodes.map f) (relabelEs f es) = incByOrder d k nodes es := by
  unfold incByOrder
  rw [subNodes_map f hf, ofOrder_map, inc_map f hf]

theorem mappingByOrder_map (f : Nat → Nat) (hf : Increasing f) (d : Nat) (k : Bool) (nodes : List Nat) (es : List (Edge × α)) :
    mappingByOrder d k (nodes.map f) (relabelEs f es) = relabelMap f (mappingByOrder d k nodes es) := by
  unfold mappingByOrder
  rw [subNodes_map f hf, mapping_map f hf]

theorem adj_map (f : Nat → Nat) (hf : Increasing f) (nodes : List Nat) (edges : List Edge) :
    (adj (nodes.map f) (edges.map (·.map f)) : List (List α)) = adj nodes edges := by
  unfold adj
  rw [binInc_map f hf]

theorem dual_map (f : Nat → Nat) (hf : Increasing f) (nodes : List Nat) (edges : List Edge) :
    (dual (nodes.map f) (edges.map (·.map f)) : List (List α)) = dual nodes edges := by
  unfold dual
  rw [binInc_map f hf, List.length_map]

theorem adjByOrder_map (f : Nat → Nat) (hf : Increasing f) (d : Nat) (nodes : List Nat) (es : List (Edge × α)) :
    adjByOrder d (nodes.map f) (relabelEs f es) = adjByOrder d nodes es := by
  unfold adjByOrder
  rw [incByOrder_map f hf]

theorem degree_map (f : Nat → Nat) (hf : Increasing f) (d : Nat) (es : List (Edge × α)) (x : Nat) :
    degree d (relabelEs f es) (f x) = degree d es x := by
  unfold degree relabelEs
  rw [List.filter_map, List.length_map]
  congr 1
  apply List.filter_congr
  intro p _
  show ((p.1.map f).contains (f x) && (p.1.map f).length == d + 1) = (p.1.contains x && p.1.length == d + 1)
  rw [contains_map_inj f hf.inj, List.length_map]

theorem degMatrix_map (f : Nat → Nat) (hf : Increasing f) (d : Nat) (nodes : List Nat) (es : List (Edge × α)) :
    (degMatrix d (nodes.map f) (relabelEs f es) : List (List α)) = degMatrix d nodes es := by
  unfold degMatrix
  rw [mapping_map f hf, relabelMap, List.map_map]
  congr 1
  apply List.map_congr_left
  intro p _
  simp [Function.comp, degree_map f hf]

theorem laplacian_map (f : Nat → Nat) (hf : Increasing f) (d : Nat) (nodes : List Nat) (es : List (Edge × α)) :
    laplacian d (nodes.map f) (relabelEs f es) = laplacian d nodes es := by
  unfold laplacian
  rw [incByOrder_map f hf, degMatrix_map f hf]

theorem laplacianScaled_map (f : Nat → Nat) (hf : Increasing f) (d : Nat) (nodes : List Nat) (es : List (Edge × α)) :
    laplacianScaled d (nodes.map f) (relabelEs f es) = laplacianScaled d nodes es := by
  unfold laplacianScaled
  rw [laplacian_map f hf]

/-! temporal records -/

theorem times_map (f : Nat → Nat) (recs : List (Rec α)) : times (relabelRecs f recs) = times recs := by
  unfold times relabelRecs
  rw [List.map_map]
  rfl

theorem snapshot_map (f : Nat → Nat) (recs : List (Rec α)) (t : Nat) :
    snapshot (relabelRecs f recs) t = relabelEs f (snapshot recs t) := by
  unfold snapshot relabelRecs relabelEs
  rw [List.filter_map, List.map_map, List.map_map]
  congr 1

theorem snapshotNodes_map (f : Nat → Nat) (hf : Increasing f) (recs : List (Rec α)) (t : Nat) :
    snapshotNodes (relabelRecs f recs) t = (snapshotNodes recs t).map f := by
  unfold snapshotNodes
  rw [snapshot_map, relabelEs_fst, ← classes_map f hf]
  congr 1
  simp [List.map_flatten, List.map_map]

theorem temporalAdj_map (f : Nat → Nat) (hf : Increasing f) (recs : List (Rec α)) (t : Nat) :
    temporalAdj (relabelRecs f recs) t = temporalAdj recs t := by
  unfold temporalAdj
  rw [snapshotNodes_map f hf, snapshot_map, relabelEs_fst, adj_map f hf]

theorem temporalAdjByOrder_map (f : Nat → Nat) (hf : Increasing f) (d : Nat) (recs : List (Rec α)) (t : Nat) :
    temporalAdjByOrder d (relabelRecs f recs) t = temporalAdjByOrder d recs t := by
  unfold temporalAdjByOrder
  rw [snapshotNodes_map f hf, snapshot_map, adjByOrder_map f hf]

end

/-! the encoder is the identity exactly on the label set `0..N-1` -/

theorem encode_range (N x : Nat) (h : x < N) : encode (List.range N) x = x := by
  have h1 := encode_getElem (List.range N) List.nodup_range x (by simpa using h)
  simpa using h1

theorem classes_eq_range_of_encode_id (nodes : List Nat) (hN : nodes.Nodup)
    (h : ∀ x ∈ nodes, encode (classes nodes) x = x) : classes nodes = List.range nodes.length := by
  have hl := classes_length nodes hN
  apply List.ext_getElem
  · simp [hl]
  · intro i h1 h2
    have hm : (classes nodes)[i] ∈ nodes := (mem_classes _ nodes).1 (List.getElem_mem h1)
    have h3 := h _ hm
    rw [encode_getElem _ (classes_nodup nodes) i h1] at h3
    simp [← h3]

end C09
