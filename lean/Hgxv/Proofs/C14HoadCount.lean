import Hgxv.Proofs.C14Hoad
/-! `HOADmodel`: how many draws a run takes - one coin per (order, time step, node), whatever the coins decide. -/
namespace C14

theorem hoadEmit_length (t i : Nat) (s : List Nat) : (hoadEmit t i s).length ≤ 1 := by
  unfold hoadEmit; split <;> simp

theorem hoadNode_length (N order : Nat) (act : Rat) (t i : Nat) (d : HoadDraw) (ds : List HoadDraw)
    (out : List (Nat × Edge)) (h : hoadNode N order act t i d ds = .done out) : out.length ≤ 1 := by
  unfold hoadNode at h
  split at h
  · split at h
    · split at h <;> cases h
    · split at h
      · cases h; exact hoadEmit_length t i d.sample
      · cases h
  · split at h
    · cases h
    · cases h; simp

theorem hoadNodes_count (N order t : Nat) (acts : List Rat) : ∀ (k i : Nat) (ds : List HoadDraw)
    (out : List (Nat × Edge)) (rest : List HoadDraw),
    hoadNodes N order t acts k i ds = .done (out, rest) → ds.length = rest.length + k ∧ out.length ≤ k := by
  intro k
  induction k with
  | zero =>
    intro i ds out rest h
    simp only [hoadNodes, Run.done.injEq, Prod.mk.injEq] at h
    simp [← h.1, ← h.2]
  | succ k ih =>
    intro i ds out rest h
    simp only [hoadNodes] at h
    split at h
    · cases h
    · rename_i a ha
      split at h
      · cases h
      · rename_i d ds'
        split at h
        · cases h
        · cases h
        · rename_i o1 h1
          split at h
          · rename_i outs rest' h2
            cases h
            have h3 := ih (i + 1) ds' outs _ h2
            have h4 := hoadNode_length N order a t i d ds' o1 h1
            simp only [List.length_cons, List.length_append]
            omega
          · cases h
          · cases h

theorem hoadTimes_count (N order : Nat) (acts : List Rat) :
    ∀ (steps t : Nat) (ds : List HoadDraw) (out : List (Nat × Edge)) (rest : List HoadDraw),
    hoadTimes N order acts steps t ds = .done (out, rest) →
    ds.length = rest.length + steps * N ∧ out.length ≤ steps * N := by
  intro steps
  induction steps with
  | zero =>
    intro t ds out rest h
    simp only [hoadTimes, Run.done.injEq, Prod.mk.injEq] at h
    simp [← h.1, ← h.2]
  | succ steps ih =>
    intro t ds out rest h
    simp only [hoadTimes] at h
    split at h
    · cases h
    · cases h
    · rename_i o1 r1 h1
      split at h
      · rename_i outs rest' h2
        cases h
        have h3 := hoadNodes_count N order t acts N 0 ds o1 r1 h1
        have h4 := ih (t + 1) r1 outs _ h2
        simp only [List.length_append, Nat.add_mul, Nat.one_mul]
        omega
      · cases h
      · cases h

theorem hoadOrders_count (N time : Nat) : ∀ (acts : List (Nat × List Rat)) (ds : List HoadDraw)
    (out : List (Nat × Edge)) (rest : List HoadDraw),
    hoadOrders N time acts ds = .done (out, rest) →
    ds.length = rest.length + acts.length * (time * N) ∧ out.length ≤ acts.length * (time * N) := by
  intro acts
  induction acts with
  | nil =>
    intro ds out rest h
    simp only [hoadOrders, Run.done.injEq, Prod.mk.injEq] at h
    simp [← h.1, ← h.2]
  | cons oa acts ih =>
    intro ds out rest h
    obtain ⟨order, av⟩ := oa
    simp only [hoadOrders] at h
    split at h
    · cases h
    · cases h
    · rename_i o1 r1 h1
      split at h
      · rename_i outs rest' h2
        cases h
        have h3 := hoadTimes_count N order av time 0 ds o1 r1 h1
        have h4 := ih r1 outs _ h2
        simp only [List.length_append, List.length_cons, Nat.add_mul, Nat.one_mul]
        omega
      · cases h
      · cases h

/-- a run of `HOADmodel` that returns took exactly one coin per (order, time step, node) and emitted at most one
    hyperlink per coin -/
theorem hoad_count (N time : Nat) (acts : List (Nat × List Rat)) (draws : List HoadDraw) (out : List (Nat × Edge))
    (h : hoad N time acts draws = .done out) :
    draws.length = acts.length * (time * N) ∧ out.length ≤ acts.length * (time * N) := by
  unfold hoad at h
  split at h
  · rename_i o hr
    cases h
    have := hoadOrders_count N time acts draws o [] hr
    have h2 := length_dedup_le o
    simp only [List.length_nil, Nat.zero_add] at this
    exact ⟨this.1, by omega⟩
  · cases h
  · cases h

end C14
