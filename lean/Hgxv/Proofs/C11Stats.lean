import Hgxv.Model.C11Stats
import Mathlib.Algebra.Order.Field.Rat
import Mathlib.Algebra.Order.Field.Basic
import Mathlib.Tactic.Linarith
import Mathlib.Tactic.FieldSimp
import Mathlib.Tactic.Positivity
import Mathlib.Tactic.Ring
/-! # C11 - facts about the null-model arithmetic -/
namespace C11

theorem relAb_den_pos (o : Nat) {u : Rat} (hu : 0 ≤ u) : (0 : Rat) < (o : Rat) + u + 4 := by
  have : (0 : Rat) ≤ (o : Rat) := Nat.cast_nonneg o
  linarith

theorem relAb_bounds (o : Nat) {u : Rat} (hu : 0 ≤ u) : -1 < relAb o u ∧ relAb o u < 1 := by
  have hd := relAb_den_pos o hu
  have ho : (0 : Rat) ≤ (o : Rat) := Nat.cast_nonneg o
  unfold relAb
  constructor
  · rw [lt_div_iff₀ hd]; linarith
  · rw [div_lt_one hd]; linarith

theorem relAb_pos_iff (o : Nat) {u : Rat} (hu : 0 ≤ u) : 0 < relAb o u ↔ u < (o : Rat) := by
  have hd := relAb_den_pos o hu
  unfold relAb
  rw [div_pos_iff_of_pos_right hd]
  constructor <;> intro h <;> linarith

theorem relAb_neg_iff (o : Nat) {u : Rat} (hu : 0 ≤ u) : relAb o u < 0 ↔ (o : Rat) < u := by
  have hd := relAb_den_pos o hu
  unfold relAb
  rw [div_lt_iff₀ hd]
  constructor <;> intro h <;> linarith

theorem relAb_zero_right (o : Nat) : relAb o 0 = (o : Rat) / ((o : Rat) + 4) := by
  unfold relAb; simp

/-! ## column sums really are the per-class sums over the rounds -/

theorem colSums_aux (i : Nat) : ∀ (nulls : List (List Nat)) (acc : List Nat) (len : Nat), acc.length = len →
    (∀ m ∈ nulls, m.length = len) → i < len →
    (nulls.foldl (fun acc m => List.zipWith (· + ·) acc m) acc)[i]? =
      some (acc[i]?.getD 0 + (nulls.map fun m => m[i]?.getD 0).sum) := by
  intro nulls
  induction nulls with
  | nil => intro acc len hl _ hi; simp [List.getElem?_eq_getElem (hl ▸ hi)]
  | cons m nulls ih =>
    intro acc len hl hm hi
    have hml : m.length = len := hm m List.mem_cons_self
    have hz : (List.zipWith (· + ·) acc m).length = len := by simp [hl, hml]
    rw [List.foldl_cons, ih _ len hz (fun m' h => hm m' (List.mem_cons_of_mem _ h)) hi]
    have h1 : acc[i]? = some acc[i] := List.getElem?_eq_getElem (hl ▸ hi)
    have h2 : m[i]? = some m[i] := List.getElem?_eq_getElem (hml ▸ hi)
    simp [List.getElem?_zipWith, h1, h2, Nat.add_assoc]

/-- entry `i` of `colSums` is the sum of the entries `i` of all rounds -/
theorem colSums_getElem? {len : Nat} {nulls : List (List Nat)} (hm : ∀ m ∈ nulls, m.length = len) {i : Nat}
    (hi : i < len) : (colSums len nulls)[i]? = some ((nulls.map fun m => m[i]?.getD 0).sum) := by
  unfold colSums
  rw [colSums_aux i nulls _ len (List.length_replicate ..) hm hi]
  simp [hi]

theorem colSums_length {len : Nat} : ∀ {nulls : List (List Nat)} (_ : ∀ m ∈ nulls, m.length = len),
    (colSums len nulls).length = len := by
  intro nulls
  unfold colSums
  suffices h : ∀ acc : List Nat, acc.length = len → (∀ m ∈ nulls, m.length = len) →
      (nulls.foldl (fun acc m => List.zipWith (· + ·) acc m) acc).length = len from
    fun hm => h _ (List.length_replicate ..) hm
  induction nulls with
  | nil => intro acc h _; simpa using h
  | cons m nulls ih =>
    intro acc h hm
    rw [List.foldl_cons]
    apply ih
    · simp [h, hm m List.mem_cons_self]
    · exact fun m' h' => hm m' (List.mem_cons_of_mem _ h')

theorem statsOk_iff {obs : List Nat} {nulls : List (List Nat)} :
    statsOk obs nulls = true ↔ nulls ≠ [] ∧ ∀ m ∈ nulls, m.length = obs.length := by
  unfold statsOk
  simp

theorem avgNull_nonneg {len : Nat} {nulls : List (List Nat)} : ∀ u ∈ avgNull len nulls, (0 : Rat) ≤ u := by
  intro u hu
  unfold avgNull at hu
  obtain ⟨s, _, rfl⟩ := List.mem_map.mp hu
  exact div_nonneg (Nat.cast_nonneg _) (Nat.cast_nonneg _)

theorem mem_zipWith_relAb {obs : List Nat} {us : List Rat} {x : Rat} (h : x ∈ List.zipWith relAb obs us) :
    ∃ o ∈ obs, ∃ u ∈ us, x = relAb o u := by
  induction obs generalizing us with
  | nil => simp at h
  | cons o obs ih =>
    cases us with
    | nil => simp at h
    | cons u us =>
      rw [List.zipWith_cons_cons, List.mem_cons] at h
      rcases h with h | h
      · exact ⟨o, List.mem_cons_self, u, List.mem_cons_self, h⟩
      · obtain ⟨o', ho', u', hu', hx⟩ := ih h
        exact ⟨o', List.mem_cons_of_mem _ ho', u', List.mem_cons_of_mem _ hu', hx⟩

/-! ## `norm_vector` -/

theorem sumSq_nonneg (a : List Rat) : 0 ≤ sumSq a := by
  unfold sumSq
  induction a with
  | nil => simp
  | cons x a ih => simp only [List.map_cons, List.sum_cons]; have := mul_self_nonneg x; linarith

theorem sumSq_eq_zero {a : List Rat} (h : sumSq a = 0) : ∀ x ∈ a, x = 0 := by
  induction a with
  | nil => intro x hx; simp at hx
  | cons y a ih =>
    have h' : y * y + sumSq a = 0 := by simpa [sumSq] using h
    have h1 := mul_self_nonneg y
    have h2 := sumSq_nonneg a
    have hy : y * y = 0 := by linarith
    have ha : sumSq a = 0 := by linarith
    intro x hx
    rcases List.mem_cons.mp hx with rfl | hx
    · exact mul_self_eq_zero.mp hy
    · exact ih ha x hx

theorem sumSq_div (s : Rat) (a : List Rat) : sumSq (a.map (· / s)) = sumSq a / (s * s) := by
  unfold sumSq
  induction a with
  | nil => simp
  | cons x a ih =>
    simp only [List.map_cons, List.sum_cons] at ih ⊢
    rw [ih, add_div]
    congr 1
    by_cases hs : s = 0
    · simp [hs]
    · field_simp

/-! ## directed -/

section directed
variable {K : Type} [DecidableEq K]

theorem dKeySum_eq_zero {nulls : List (List (K × Nat))} {k : K} (h : dHasKey nulls k = false) :
    dKeySum nulls k = 0 := by
  unfold dKeySum
  induction nulls with
  | nil => simp
  | cons m nulls ih =>
    simp only [dHasKey, List.any_cons, Bool.or_eq_false_iff] at h
    have hm : (m.filter fun p => decide (p.1 = k)) = [] := by
      apply List.filter_eq_nil_iff.mpr
      intro p hp hpk
      have := List.any_eq_false.mp h.1 p hp
      exact this hpk
    simp only [List.map_cons, List.sum_cons, hm, List.map_nil, List.sum_nil, Nat.zero_add]
    exact ih h.2

end directed
end C11
