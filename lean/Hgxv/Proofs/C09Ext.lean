import Hgxv.Model.C09Ext
import Hgxv.Proofs.C09Multi
import Hgxv.Proofs.C09Psd
import Mathlib.Algebra.Field.Defs
/-! Helper lemmas for C09, second extension round: the annealed matrices (average over the snapshots) and `adjacency_factor`. -/
set_option linter.unusedSectionVars false
namespace C09

theorem allSome_spec {β : Type} (l : List (Nat × Option β)) (r : List (Nat × β)) (h : allSome l = some r) :
    r.map (·.1) = l.map (·.1) ∧ ∀ p ∈ r, (p.1, some p.2) ∈ l := by
  induction l generalizing r with
  | nil => simp [allSome] at h; subst h; simp
  | cons x l ih =>
    obtain ⟨d, o⟩ := x
    cases o with
    | none => simp [allSome] at h
    | some M =>
      simp only [allSome, Option.map_eq_some_iff] at h
      obtain ⟨r', hr', rfl⟩ := h
      obtain ⟨h1, h2⟩ := ih r' hr'
      refine ⟨by simp [h1], ?_⟩
      intro p hp
      rcases List.mem_cons.1 hp with rfl | hp
      · simp
      · exact List.mem_cons_of_mem _ (h2 p hp)

theorem allSome_eq_none {β : Type} (l : List (Nat × Option β)) :
    allSome l = none ↔ ∃ p ∈ l, p.2 = none := by
  induction l with
  | nil => simp [allSome]
  | cons x l ih =>
    obtain ⟨d, o⟩ := x
    cases o with
    | none => simp [allSome]
    | some M => simp [allSome, ih]

variable {R : Type} [Field R] [DecidableEq R]

theorem sameLen_spec (Ms : List (List (List R))) :
    sameLen Ms = true ↔ ∀ A ∈ Ms, ∀ B ∈ Ms, A.length = B.length := by
  cases Ms with
  | nil => simp [sameLen]
  | cons M rest =>
    simp only [sameLen, List.all_eq_true, beq_iff_eq, List.mem_cons]
    constructor
    · intro h A hA B hB
      have e : ∀ X, X = M ∨ X ∈ rest → X.length = M.length := by
        intro X hX
        rcases hX with rfl | hX
        · rfl
        · exact h X hX
      rw [e A hA, e B hB]
    · intro h X hX
      exact h X (Or.inr hX) M (Or.inl rfl)

theorem entry_divScalar (M : List (List R)) (c : R) (i j : Nat) :
    entry (divScalar M c) i j = (entry M i j).map (· / c) := by
  unfold entry divScalar
  rw [List.getElem?_map]
  cases M[i]? with
  | none => rfl
  | some r => simp [List.getElem?_map]

theorem entryD_of_entry {R : Type} [Zero R] (M : List (List R)) (i j : Nat) (v : R) (h : entry M i j = some v) : entryD M i j = v := by
  unfold entry at h
  unfold entryD
  cases hr : M[i]? with
  | none => rw [hr] at h; simp at h
  | some r =>
    rw [hr] at h
    simp only [Option.bind_some] at h
    simp [List.getD_eq_getElem?_getD, hr, h]

section psd
variable {S : Type} [CommRing S]

theorem sum_map_add' {β : Type} (l : List β) (f g : β → S) :
    (l.map fun b => f b + g b).sum = (l.map f).sum + (l.map g).sum := by
  induction l with
  | nil => simp
  | cons a l ih =>
    simp only [List.map_cons, List.sum_cons, ih]
    ring

theorem sum_map_zero' {β : Type} (l : List β) : (l.map fun _ => (0 : S)).sum = 0 := by
  induction l with
  | nil => rfl
  | cons a l ih => simp [ih]

/-- the quadratic form of a linear combination of matrices is the combination of the quadratic forms -/
theorem quad_sum_swap {β : Type} (cls : List Nat) (ps : List β) (k : β → S) (G : β → Nat → Nat → S) (x : Nat → S) :
    (cls.map fun a => (cls.map fun b => x a * (ps.map fun p => k p * G p a b).sum * x b).sum).sum
      = (ps.map fun p => k p * (cls.map fun a => (cls.map fun b => x a * G p a b * x b).sum).sum).sum := by
  induction ps with
  | nil => simp [sum_map_zero']
  | cons p ps ih =>
    have h1 : ∀ a b, x a * ((p :: ps).map fun q => k q * G q a b).sum * x b
        = k p * (x a * G p a b * x b) + x a * (ps.map fun q => k q * G q a b).sum * x b := by
      intro a b
      simp only [List.map_cons, List.sum_cons]
      ring
    simp only [h1, sum_map_add', sum_map_mul_left']
    rw [ih]
    simp only [List.map_cons, List.sum_cons]

end psd

end C09
