import Hgxv.Proofs.C17Inv
import Mathlib.Algebra.BigOperators.Field
import Mathlib.Algebra.Order.BigOperators.Ring.Finset
import Mathlib.Data.List.Sort
import Mathlib.Data.List.Perm.Subperm
import Mathlib.Tactic.FieldSimp
set_option linter.unusedSectionVars false
set_option linter.unusedVariables false
/-! Sums of the index-style model as `Finset` sums; products over hyperedges; `e_m ≥` any product of `m` entries. -/
namespace C17
open Finset

section
variable {α : Type} [Field α] [LinearOrder α] [IsStrictOrderedRing α]

theorem sumR_eq (n : Nat) (f : Nat → α) : sumR n f = ∑ i ∈ range n, f i := by
  unfold sumR
  induction n with
  | zero => simp
  | succ n ih => rw [List.range_succ, List.map_append, List.sum_append, ih, Finset.sum_range_succ]; simp

theorem prodL_cons (x : α) (l : List α) : prodL (x :: l) = x * prodL l := rfl
theorem prodL_nil : prodL ([] : List α) = 1 := rfl

theorem prodL_pos (l : List α) (h : ∀ x ∈ l, 0 < x) : 0 < prodL l := by
  induction l with
  | nil => simp [prodL_nil]
  | cons x l ih =>
    rw [prodL_cons]
    exact mul_pos (h x (by simp)) (ih (fun y hy => h y (by simp [hy])))

theorem prodL_nonneg (l : List α) (h : ∀ x ∈ l, 0 ≤ x) : 0 ≤ prodL l := by
  induction l with
  | nil => simp [prodL_nil]
  | cons x l ih =>
    rw [prodL_cons]
    exact mul_nonneg (h x (by simp)) (ih (fun y hy => h y (by simp [hy])))

/-- product over a hyperedge after the value at node `i` changed from `f i` to `g i` -/
theorem prodL_update (f g : Nat → α) (i : Nat) (hfi : f i ≠ 0) :
    ∀ (e : List Nat), (∀ j ∈ e, j ≠ i → f j = g j) → e.Nodup →
      prodL (e.map g) = if i ∈ e then prodL (e.map f) * (g i / f i) else prodL (e.map f) := by
  intro e
  induction e with
  | nil => intro _ _; simp
  | cons j e ih =>
    intro hfg hnd
    have hj : j ∉ e := (List.nodup_cons.mp hnd).1
    have ih' := ih (fun j' hj' => hfg j' (by simp [hj'])) (List.nodup_cons.mp hnd).2
    simp only [List.map_cons, prodL_cons]
    by_cases hji : j = i
    · subst hji
      have hni : j ∉ e := hj
      rw [ih']; simp only [hni, if_false, List.mem_cons, true_or, if_true]
      field_simp
    · rw [ih', ← hfg j (by simp) hji]
      by_cases hie : i ∈ e
      · have : i ∈ j :: e := by simp [hie]
        simp only [hie, this, if_true]; ring
      · have : i ∉ j :: e := by simp [hie]; exact fun h => hji h.symm
        simp only [hie, this, if_false]

theorem esymm_mono_cons (x : α) (hx : 0 ≤ x) (l : List α) (hl : ∀ y ∈ l, 0 ≤ y) (m : Nat) :
    esymm m l ≤ esymm m (x :: l) := by
  cases m with
  | zero => simp [esymm_zero]
  | succ m =>
    simp only [esymm]
    have := mul_nonneg hx (esymm_nonneg m l hl)
    linarith

/-- `e_m(l)` dominates the product of any `m` entries (a sublist), for non-negative entries -/
theorem prodL_le_esymm {l' l : List α} (hs : l'.Sublist l) (hl : ∀ y ∈ l, 0 ≤ y) :
    prodL l' ≤ esymm l'.length l := by
  induction hs with
  | slnil => simp [prodL_nil, esymm_zero]
  | cons x hs ih =>
    rename_i l1 l2
    have hl2 : ∀ y ∈ l2, 0 ≤ y := fun y hy => hl y (by simp [hy])
    exact le_trans (ih hl2) (esymm_mono_cons x (hl x (by simp)) l2 hl2 _)
  | cons_cons x hs ih =>
    rename_i l1 l2
    have hl2 : ∀ y ∈ l2, 0 ≤ y := fun y hy => hl y (by simp [hy])
    simp only [List.length_cons, esymm, prodL_cons]
    have h1 := mul_le_mul_of_nonneg_left (ih hl2) (hl x (by simp))
    have h2 := esymm_nonneg (l1.length + 1) l2 hl2
    linarith

end

/-- a strictly increasing list of indices `< n` is a sublist of `range n` -/
theorem sublist_range (S : List Nat) (n : Nat) (hs : S.Pairwise (· < ·)) (hn : ∀ j ∈ S, j < n) :
    S.Sublist (List.range n) := by
  apply List.sublist_of_subperm_of_pairwise (r := (· < ·))
  · apply List.subperm_of_subset hs.nodup
    intro j hj; simp [hn j hj]
  · exact hs
  · exact List.pairwise_lt_range

theorem sublist_rest (S : List Nat) (n i : Nat) (hs : S.Pairwise (· < ·)) (hn : ∀ j ∈ S, j < n) (hi : i ∉ S) :
    S.Sublist (List.range i ++ List.range' (i + 1) (n - i - 1)) := by
  apply List.sublist_of_subperm_of_pairwise (r := (· < ·))
  · apply List.subperm_of_subset hs.nodup
    intro j hj
    have h1 := hn j hj
    have h2 : j ≠ i := fun h => hi (h ▸ hj)
    simp only [List.mem_append, List.mem_range, List.mem_range']
    by_cases h : j < i
    · left; exact h
    · right; exact ⟨j - (i + 1), by omega, by omega⟩
  · exact hs
  · rw [List.pairwise_append]
    refine ⟨List.pairwise_lt_range, List.pairwise_lt_range', ?_⟩
    intro a ha b hb
    simp only [List.mem_range] at ha
    simp only [List.mem_range'] at hb
    omega

end C17
