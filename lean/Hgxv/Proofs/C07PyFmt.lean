import Hgxv.Proofs.C07Dumps
/-! # C07: CPython's atom writers satisfy `Fmt.Laws` (core Lean only)

`pyFmt` = decimal ints, positional quarter floats, `ensure_ascii` escapes.  Shown here: numbers are written
injectively (ints among themselves, floats among themselves, an int never like a float: `1` vs `1.0`), start with a
digit or `-`, consist of digits `-` `.`; the escapes of two characters are never prefixes of one another (UTF-16
surrogate pairs included: a `Char` is no surrogate). -/
namespace C07

/-! ## digits -/

theorem digs_digit (n : Nat) : ∀ c, c ∈ digs n → c.isDigit = true := by
  intro c hc
  exact Nat.isDigit_of_mem_toDigits (by decide) (by decide) hc

theorem digs_inj {a b : Nat} (h : digs a = digs b) : a = b := by
  have := congrArg (fun l => Nat.ofDigitChars 10 l 0) h
  simpa [digs] using this

theorem digs_ne_nil (n : Nat) : digs n ≠ [] := Nat.toDigits_ne_nil

theorem digs_head (n : Nat) : ∃ c cs, digs n = c :: cs ∧ c.isDigit = true := by
  cases h : digs n with
  | nil => exact absurd h (digs_ne_nil n)
  | cons c cs => exact ⟨c, cs, rfl, digs_digit n c (by rw [h]; exact List.mem_cons_self)⟩

/-- two digit runs in front of continuations that do not start with a digit -/
theorem digit_run_split : ∀ (l₁ l₂ r₁ r₂ : List Char),
    (∀ c, c ∈ l₁ → c.isDigit = true) → (∀ c, c ∈ l₂ → c.isDigit = true) →
    (∀ c cs, r₁ = c :: cs → c.isDigit = false) → (∀ c cs, r₂ = c :: cs → c.isDigit = false) →
    l₁ ++ r₁ = l₂ ++ r₂ → l₁ = l₂ ∧ r₁ = r₂ := by
  intro l₁
  induction l₁ with
  | nil =>
    intro l₂ r₁ r₂ _ h2 s1 _ h
    cases l₂ with
    | nil => exact ⟨rfl, by simpa using h⟩
    | cons d ds =>
      exfalso
      have hd := h2 d List.mem_cons_self
      have := s1 d (ds ++ r₂) (by simpa using h)
      rw [hd] at this; cases this
  | cons c cs ih =>
    intro l₂ r₁ r₂ h1 h2 s1 s2 h
    cases l₂ with
    | nil =>
      exfalso
      have hc := h1 c List.mem_cons_self
      have := s2 c (cs ++ r₁) (by simpa using h.symm)
      rw [hc] at this; cases this
    | cons d ds =>
      simp only [List.cons_append, List.cons.injEq] at h
      obtain ⟨e, r⟩ := ih ds r₁ r₂ (fun x hx => h1 x (List.mem_cons_of_mem _ hx))
        (fun x hx => h2 x (List.mem_cons_of_mem _ hx)) s1 s2 h.2
      exact ⟨by rw [h.1, e], r⟩

theorem fracText_head (m : Nat) : ∃ cs, fracText m = '.' :: cs := by
  unfold fracText; split <;> exact ⟨_, rfl⟩

theorem fracText_nondigit (m : Nat) : ∀ c cs, fracText m = c :: cs → c.isDigit = false := by
  intro c cs h
  obtain ⟨cs', h'⟩ := fracText_head m
  rw [h'] at h
  simp only [List.cons.injEq] at h
  rw [← h.1]; decide

theorem fracText_inj {a b : Nat} (ha : a < 4) (hb : b < 4) (h : fracText a = fracText b) : a = b := by
  have ha' : a = 0 ∨ a = 1 ∨ a = 2 ∨ a = 3 := by omega
  have hb' : b = 0 ∨ b = 1 ∨ b = 2 ∨ b = 3 := by omega
  rcases ha' with rfl | rfl | rfl | rfl <;> rcases hb' with rfl | rfl | rfl | rfl <;> first | rfl | (simp [fracText] at h)

theorem fracText_chars (m : Nat) : ∀ c, c ∈ fracText m → c = '.' ∨ c.isDigit = true := by
  intro c hc
  unfold fracText at hc
  split at hc <;> simp at hc <;> rcases hc with rfl | hc <;> (try (left; rfl)) <;> right
  all_goals first | (rcases hc with rfl | rfl <;> decide) | (subst hc; decide)

/-! ## signs -/

theorem sign_split {x y : Bool} {l₁ l₂ : List Char} (h1 : ∃ c cs, l₁ = c :: cs ∧ c.isDigit = true)
    (h2 : ∃ c cs, l₂ = c :: cs ∧ c.isDigit = true) (h : signK x ++ l₁ = signK y ++ l₂) : x = y ∧ l₁ = l₂ := by
  obtain ⟨c, cs, e1, d1⟩ := h1
  obtain ⟨d, ds, e2, d2⟩ := h2
  cases x <;> cases y
  · exact ⟨rfl, by simpa [signK] using h⟩
  · exfalso
    simp only [signK, e1, e2, Bool.false_eq_true, if_false, if_true, List.nil_append, List.cons_append,
      List.cons.injEq] at h
    rw [h.1] at d1; exact absurd d1 (by decide)
  · exfalso
    simp only [signK, e1, e2, Bool.false_eq_true, if_false, if_true, List.nil_append, List.cons_append,
      List.cons.injEq] at h
    rw [← h.1] at d2; exact absurd d2 (by decide)
  · exact ⟨rfl, by simpa [signK] using h⟩

theorem int_of_sign_abs {i j : Int} (hs : decide (i < 0) = decide (j < 0)) (ha : i.natAbs = j.natAbs) : i = j := by
  have : (i < 0) ↔ (j < 0) := by simpa using hs
  omega

theorem digs_frac_head (a m : Nat) : ∃ c cs, digs a ++ fracText m = c :: cs ∧ c.isDigit = true := by
  obtain ⟨c, cs, e, d⟩ := digs_head a
  exact ⟨c, cs ++ fracText m, by rw [e]; rfl, d⟩

/-! ## numbers -/

theorem pyIntText_inj {i j : Int} (h : pyIntText i = pyIntText j) : i = j := by
  unfold pyIntText at h
  obtain ⟨hs, hd⟩ := sign_split (digs_head _) (digs_head _) h
  exact int_of_sign_abs hs (digs_inj hd)

theorem pyFltText_inj {p q : Int} (h : pyFltText p = pyFltText q) : p = q := by
  unfold pyFltText at h
  obtain ⟨hs, hd⟩ := sign_split (digs_frac_head _ _) (digs_frac_head _ _) h
  obtain ⟨e1, e2⟩ := digit_run_split _ _ _ _ (digs_digit _) (digs_digit _) (fracText_nondigit _) (fracText_nondigit _) hd
  have h4 := digs_inj e1
  have hm := fracText_inj (Nat.mod_lt _ (by decide)) (Nat.mod_lt _ (by decide)) e2
  exact int_of_sign_abs hs (by omega)

theorem signK_chars (x : Bool) : ∀ c, c ∈ signK x → c = '-' := by
  intro c hc; cases x <;> simp [signK] at hc; exact hc

theorem pyIntText_chars (i : Int) : ∀ c, c ∈ pyIntText i → c = '-' ∨ c.isDigit = true := by
  intro c hc
  unfold pyIntText at hc
  rcases List.mem_append.mp hc with h | h
  · exact Or.inl (signK_chars _ c h)
  · exact Or.inr (digs_digit _ c h)

theorem pyFltText_chars (q : Int) : ∀ c, c ∈ pyFltText q → c = '-' ∨ c = '.' ∨ c.isDigit = true := by
  intro c hc
  unfold pyFltText at hc
  rcases List.mem_append.mp hc with h | h
  · exact Or.inl (signK_chars _ c h)
  · rcases List.mem_append.mp h with h | h
    · exact Or.inr (Or.inr (digs_digit _ c h))
    · exact Or.inr (fracText_chars _ c h)

theorem dot_mem_flt (q : Int) : '.' ∈ pyFltText q := by
  unfold pyFltText
  obtain ⟨cs, h⟩ := fracText_head (q.natAbs % 4)
  rw [h]
  simp

/-- `1` and `1.0`: an int is never written like a float -/
theorem int_ne_flt (i q : Int) : pyIntText i ≠ pyFltText q := by
  intro h
  have hd := dot_mem_flt q
  rw [← h] at hd
  rcases pyIntText_chars i _ hd with e | e
  · exact absurd e (by decide)
  · exact absurd e (by decide)

theorem pyNumText_chars (n : Num) : ∀ c, c ∈ pyNumText n → c = '-' ∨ c = '.' ∨ c.isDigit = true := by
  intro c hc
  cases n with
  | int i => rcases pyIntText_chars i c hc with e | e; exact Or.inl e; exact Or.inr (Or.inr e)
  | flt q => exact pyFltText_chars q c hc

theorem pyNumText_head (n : Num) : ∃ c cs, pyNumText n = c :: cs ∧ (c = '-' ∨ c.isDigit = true) := by
  have key : ∀ (x : Bool) (l : List Char), (∃ c cs, l = c :: cs ∧ c.isDigit = true) →
      ∃ c cs, signK x ++ l = c :: cs ∧ (c = '-' ∨ c.isDigit = true) := by
    intro x l ⟨c, cs, e, d⟩
    cases x
    · exact ⟨c, cs, by simp [signK, e], Or.inr d⟩
    · exact ⟨'-', l, by simp [signK], Or.inl rfl⟩
  cases n with
  | int i => exact key _ _ (digs_head _)
  | flt q => exact key _ _ (digs_frac_head _ _)

theorem numChar_cases {c : Char} (h : c = '-' ∨ c = '.' ∨ c.isDigit = true) {d : Char}
    (hd1 : d ≠ '-') (hd2 : d ≠ '.') (hd3 : d.isDigit = false) : c ≠ d := by
  intro e
  rw [e] at h
  rcases h with h | h | h
  · exact hd1 h
  · exact hd2 h
  · rw [hd3] at h; cases h

/-! ## escapes -/

theorem hexDigit_inj : ∀ a, a < 16 → ∀ b, b < 16 → hexDigit a = hexDigit b → a = b := by decide

theorem hex4_split {a b : Nat} (ha : a < 65536) (hb : b < 65536) {r₁ r₂ : List Char}
    (h : hex4 a ++ r₁ = hex4 b ++ r₂) : a = b ∧ r₁ = r₂ := by
  simp only [hex4, List.cons_append, List.nil_append, List.cons.injEq] at h
  obtain ⟨h1, h2, h3, h4, hr⟩ := h
  have e1 := hexDigit_inj _ (Nat.mod_lt _ (by decide)) _ (Nat.mod_lt _ (by decide)) h1
  have e2 := hexDigit_inj _ (Nat.mod_lt _ (by decide)) _ (Nat.mod_lt _ (by decide)) h2
  have e3 := hexDigit_inj _ (Nat.mod_lt _ (by decide)) _ (Nat.mod_lt _ (by decide)) h3
  have e4 := hexDigit_inj _ (Nat.mod_lt _ (by decide)) _ (Nat.mod_lt _ (by decide)) h4
  exact ⟨by omega, hr⟩

theorem uEsc_split {a b : Nat} (ha : a < 65536) (hb : b < 65536) {r₁ r₂ : List Char}
    (h : uEsc a ++ r₁ = uEsc b ++ r₂) : a = b ∧ r₁ = r₂ := by
  simp only [uEsc, List.cons_append, List.cons.injEq, true_and] at h
  exact hex4_split ha hb h

theorem char_valid (c : Char) : c.toNat < 55296 ∨ (57343 < c.toNat ∧ c.toNat < 1114112) := c.valid

/-- the two-character escapes: the second character names the escaped one -/
def shortDec (x : Char) : Char :=
  if x = '"' then '"' else if x = '\\' then '\\' else if x = 'n' then '\n' else if x = 'r' then '\r' else
  if x = 't' then '\t' else if x = 'b' then Char.ofNat 8 else Char.ofNat 12

def hiUnit (c : Char) : Nat := 55296 + (c.toNat - 65536) / 1024
def loUnit (c : Char) : Nat := 56320 + (c.toNat - 65536) % 1024

/-- the four shapes of an escape -/
theorem pyEsc_shape (c : Char) :
    (pyEsc c = [c] ∧ c ≠ '\\' ∧ c ≠ '"') ∨
    (∃ x, pyEsc c = ['\\', x] ∧ x ≠ 'u' ∧ c = shortDec x) ∨
    (c.toNat < 65536 ∧ pyEsc c = uEsc c.toNat) ∨
    (65536 ≤ c.toNat ∧ pyEsc c = uEsc (hiUnit c) ++ uEsc (loUnit c)) := by
  unfold pyEsc
  by_cases h1 : c = '"'
  · right; left; exact ⟨'"', by simp [h1], by decide, by rw [h1]; rfl⟩
  by_cases h2 : c = '\\'
  · right; left; exact ⟨'\\', by simp [h2], by decide, by rw [h2]; rfl⟩
  by_cases h3 : c = '\n'
  · right; left; exact ⟨'n', by simp [h3], by decide, by rw [h3]; rfl⟩
  by_cases h4 : c = '\r'
  · right; left; exact ⟨'r', by simp [h4], by decide, by rw [h4]; rfl⟩
  by_cases h5 : c = '\t'
  · right; left; exact ⟨'t', by simp [h5], by decide, by rw [h5]; rfl⟩
  by_cases h6 : c = Char.ofNat 8
  · right; left; exact ⟨'b', by simp [h6], by decide, by rw [h6]; rfl⟩
  by_cases h7 : c = Char.ofNat 12
  · right; left; exact ⟨'f', by simp [h7], by decide, by rw [h7]; rfl⟩
  simp only [h1, h2, h3, h4, h5, h6, h7, if_false]
  by_cases h8 : 32 ≤ c.toNat ∧ c.toNat ≤ 126
  · left; simp only [h8, and_self, if_true]; exact ⟨trivial, h2, h1⟩
  by_cases h9 : c.toNat < 65536
  · right; right; left; simp only [h8, h9, if_false, if_true]; exact ⟨trivial, trivial⟩
  · right; right; right; simp only [h8, h9, if_false]; exact ⟨by omega, rfl⟩

theorem hiUnit_range (c : Char) (h : 65536 ≤ c.toNat) : 55296 ≤ hiUnit c ∧ hiUnit c < 56320 := by
  have := char_valid c
  unfold hiUnit
  omega

theorem loUnit_range (c : Char) : 56320 ≤ loUnit c ∧ loUnit c < 57344 := by
  unfold loUnit
  omega

theorem char_of_units {c d : Char} (hc : 65536 ≤ c.toNat) (hd : 65536 ≤ d.toNat) (h1 : hiUnit c = hiUnit d)
    (h2 : loUnit c = loUnit d) : c = d := by
  apply Char.toNat_inj.mp
  unfold hiUnit at h1
  unfold loUnit at h2
  omega

theorem pyEsc_head (a : Char) : ∃ c cs, pyEsc a = c :: cs ∧ c ≠ '"' := by
  rcases pyEsc_shape a with ⟨e, _, h⟩ | ⟨x, e, _, _⟩ | ⟨_, e⟩ | ⟨_, e⟩
  · exact ⟨a, [], e, h⟩
  · exact ⟨'\\', [x], e, by decide⟩
  · exact ⟨'\\', 'u' :: hex4 a.toNat, by rw [e]; rfl, by decide⟩
  · exact ⟨'\\', 'u' :: hex4 (hiUnit a) ++ uEsc (loUnit a), by rw [e]; rfl, by decide⟩

theorem shape1_vs_bs {a : Char} (ha : a ≠ '\\') {r₁ rest : List Char} (h : [a] ++ r₁ = '\\' :: rest) : False := by
  simp only [List.cons_append, List.nil_append, List.cons.injEq] at h
  exact ha h.1

theorem pyEsc_free (a b : Char) (r₁ r₂ : List Char) (h : pyEsc a ++ r₁ = pyEsc b ++ r₂) : a = b ∧ r₁ = r₂ := by
  rcases pyEsc_shape a with ⟨ea, ha, _⟩ | ⟨x, ea, hx, ax⟩ | ⟨la, ea⟩ | ⟨la, ea⟩ <;>
  rcases pyEsc_shape b with ⟨eb, hb, _⟩ | ⟨y, eb, hy, by'⟩ | ⟨lb, eb⟩ | ⟨lb, eb⟩ <;>
  rw [ea, eb] at h
  · simpa using h
  · exact (shape1_vs_bs ha h).elim
  · exact (shape1_vs_bs ha h).elim
  · exact (shape1_vs_bs ha h).elim
  · exact (shape1_vs_bs hb h.symm).elim
  · simp only [List.cons_append, List.nil_append, List.cons.injEq, true_and] at h
    exact ⟨by rw [ax, by', h.1], h.2⟩
  · simp only [uEsc, List.cons_append, List.nil_append, List.cons.injEq, true_and] at h
    exact absurd h.1 hx
  · simp only [uEsc, List.cons_append, List.nil_append, List.cons.injEq, true_and] at h
    exact absurd h.1 hx
  · exact (shape1_vs_bs hb h.symm).elim
  · simp only [uEsc, List.cons_append, List.nil_append, List.cons.injEq, true_and] at h
    exact absurd h.1.symm hy
  · obtain ⟨e, r⟩ := uEsc_split la lb h
    exact ⟨Char.toNat_inj.mp e, r⟩
  · exfalso
    rw [List.append_assoc] at h
    have hr := hiUnit_range b lb
    obtain ⟨e, _⟩ := uEsc_split la (by omega) h
    have := char_valid a
    omega
  · exact (shape1_vs_bs hb h.symm).elim
  · simp only [uEsc, List.cons_append, List.nil_append, List.cons.injEq, true_and] at h
    exact absurd h.1.symm hy
  · exfalso
    rw [List.append_assoc] at h
    have hr := hiUnit_range a la
    obtain ⟨e, _⟩ := uEsc_split (by omega) lb h
    have := char_valid b
    omega
  · rw [List.append_assoc, List.append_assoc] at h
    have hra := hiUnit_range a la
    have hrb := hiUnit_range b lb
    have hla := loUnit_range a
    have hlb := loUnit_range b
    obtain ⟨e1, r⟩ := uEsc_split (by omega) (by omega) h
    obtain ⟨e2, r2⟩ := uEsc_split (by omega) (by omega) r
    exact ⟨char_of_units la lb e1 e2, r2⟩

/-! ## the laws -/

theorem pyFmt_laws : pyFmt.Laws where
  numInj := by
    intro a b h
    cases a with
    | int i =>
      cases b with
      | int j => rw [pyIntText_inj h]
      | flt q => exact absurd h (int_ne_flt i q)
    | flt p =>
      cases b with
      | int j => exact absurd h.symm (int_ne_flt j p)
      | flt q => rw [pyFltText_inj h]
  numHead := by
    intro a
    obtain ⟨c, cs, e, hc⟩ := pyNumText_head a
    have hc' : c = '-' ∨ c = '.' ∨ c.isDigit = true := by
      rcases hc with h | h
      · exact Or.inl h
      · exact Or.inr (Or.inr h)
    exact ⟨c, cs, e, numChar_cases hc' (by decide) (by decide) (by decide),
      numChar_cases hc' (by decide) (by decide) (by decide), numChar_cases hc' (by decide) (by decide) (by decide),
      numChar_cases hc' (by decide) (by decide) (by decide), numChar_cases hc' (by decide) (by decide) (by decide),
      numChar_cases hc' (by decide) (by decide) (by decide)⟩
  numBody := by
    intro a c hc
    have hc' := pyNumText_chars a c hc
    exact ⟨numChar_cases hc' (by decide) (by decide) (by decide), numChar_cases hc' (by decide) (by decide) (by decide),
      numChar_cases hc' (by decide) (by decide) (by decide)⟩
  escHead := pyEsc_head
  escFree := pyEsc_free

end C07
