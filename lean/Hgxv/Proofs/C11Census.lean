import Hgxv.Proofs.C11Passes
import Hgxv.Proofs.C11Feat
/-! # C11 - the census counts every connected node subset once, under its class -/
namespace C11

/-! ## small helpers -/

theorem zipMax_map (l : List Nat) (f g : Nat → Nat) :
    zipMax (l.map fun c => (c, f c)) (l.map fun c => (c, g c)) = l.map fun c => (c, max (f c) (g c)) := by
  induction l with
  | nil => rfl
  | cons a l ih => simp [zipMax, ih]

theorem contains_filter (l : HG) (p : List Nat → Bool) (e : List Nat) :
    (l.filter p).contains e = (l.contains e && p e) := by
  rw [Bool.eq_iff_iff]
  simp [List.mem_filter]

theorem mem_nodesOf {E : HG} {x : Nat} : x ∈ nodesOf E ↔ ∃ e ∈ E, x ∈ e := by
  unfold nodesOf; rw [mem_isort, mem_dedup]; simp

theorem nodesOf_sorted (E : HG) : SSorted (nodesOf E) := isort_sorted (nodup_dedup _)

theorem hreach_mono {E E' : HG} {S : List Nat} (h : ∀ y x, hadj E S y x → hadj E' S y x) {a b : Nat}
    (hr : Reach E S a b) : Reach E' S a b := by
  induction hr with
  | refl => exact Reach.refl _
  | step _ hadj ih => exact Reach.step ih (h _ _ hadj)

/-- hyperedges inside an `n`-set have at most `n` nodes, so `get_edges(size=n, up_to=True)` loses nothing -/
theorem conn_upTo {n : Nat} {E : HG} (hE : WF E) {S : List Nat} (hS : SSorted S) (hlen : S.length = n) :
    Conn (upTo n E) S ↔ Conn E S := by
  constructor
  · intro h y hy x hx
    refine hreach_mono ?_ (h y hy x hx)
    rintro y x ⟨e, he, hs, hy, hx⟩
    exact ⟨e, (List.mem_filter.mp he).1, hs, hy, hx⟩
  · intro h y hy x hx
    refine hreach_mono ?_ (h y hy x hx)
    rintro y x ⟨e, he, hs, hy, hx⟩
    refine ⟨e, List.mem_filter.mpr ⟨he, ?_⟩, hs, hy, hx⟩
    have := length_le_of_sorted_subset (hE.sorted e he) hS hs
    simp; omega

/-- every node of a connected set with at least two nodes lies in a hyperedge -/
theorem conn_covered {E : HG} {S : List Nat} (hS : SSorted S) (h2 : 2 ≤ S.length) (hc : Conn E S) :
    ∀ x ∈ S, ∃ e ∈ E, x ∈ e := by
  intro x hx
  obtain ⟨y, hy, hne⟩ := exists_outside (S := S) (sub := [x]) hS.nodup (by simp) (by simp; omega)
  obtain ⟨e, he, _, hxe, _⟩ := (hc x hx y hy).first_step (by simpa using hne)
  exact ⟨e, he, hxe⟩

/-! ## the visited sets of the three passes, for `E` with hyperedges of size `≤ n` -/

section passes
variable {n : Nat} (hn : n = 3 ∨ n = 4) {E : HG} (hE : WF E) (hle : ∀ e ∈ E, e.length ≤ n)

/-- node sets visited by pass 2 (only run for order 4) -/
def sets2 (n : Nat) (E : HG) : List (List Nat) := if n == 4 then notFullSets n E (fullSets n E) else []
def sets3 (n : Nat) (E : HG) : List (List Nat) := stdSets n E (sets2 n E ++ fullSets n E)

theorem mem_sets1 {S : List Nat} : S ∈ fullSets n E ↔ S ∈ E ∧ S.length = n := by
  simp [fullSets, List.mem_filter]

include hE in
theorem sets2_spec {S : List Nat} (h : S ∈ sets2 n E) :
    n = 4 ∧ SSorted S ∧ S.length = 4 ∧ S ∉ E ∧
      ∃ e ∈ E, e.length = 3 ∧ (∀ z ∈ e, z ∈ S) ∧ ∃ e' ∈ E, e'.length < 4 ∧ (∀ z ∈ e', z ∈ S) ∧
        (∃ x ∈ e, x ∈ e') ∧ ∀ z ∈ S, z ∈ e ∨ z ∈ e' := by
  unfold sets2 at h
  by_cases h4 : n = 4
  · subst h4
    simp only [beq_self_eq_true, if_true] at h
    exact ⟨rfl, (mem_notFullSets hE).mp h⟩
  · have : (n == 4) = false := by simpa using h4
    rw [this] at h; simp at h

include hE in
/-- a connected 4-set that is not a hyperedge but contains one of size 3 is visited by pass 2 -/
theorem sets2_of_conn {S : List Nat} (hS : SSorted S) (hlen : S.length = 4) (hnot : S ∉ E)
    (h3 : has3 E S) (hc : Conn E S) : S ∈ sets2 4 E := by
  unfold sets2
  simp only [beq_self_eq_true, if_true]
  rw [mem_notFullSets hE]
  obtain ⟨e, he, hl, hes⟩ := h3
  have hesrt := hE.sorted e he
  obtain ⟨d, hd, hde⟩ := exists_outside (S := S) (sub := e) hS.nodup hesrt.nodup (by omega)
  -- every node of S other than d lies in e
  have hrest : ∀ z ∈ S, z ≠ d → z ∈ e := by
    intro z hz hzd
    apply Classical.byContradiction
    intro hze
    have hnd : (z :: d :: e).Nodup := by
      refine List.nodup_cons.mpr ⟨?_, List.nodup_cons.mpr ⟨hde, hesrt.nodup⟩⟩
      simp only [List.mem_cons, not_or]; exact ⟨hzd, hze⟩
    have := hnd.length_le_of_subset (l₂ := S) (by
      intro y hy
      rcases List.mem_cons.mp hy with e1 | e1
      · subst e1; exact hz
      · rcases List.mem_cons.mp e1 with e2 | e2
        · subst e2; exact hd
        · exact hes y e2)
    simp at this; omega
  obtain ⟨x, hx⟩ : ∃ x, x ∈ e := by
    match e, hl with
    | a :: _, _ => exact ⟨a, by simp⟩
  have hxd : x ≠ d := fun h => hde (h ▸ hx)
  obtain ⟨e', he', hes', hde', z, hz, hzd⟩ := (hc d hd x (hes x hx)).first_step hxd
  have he'srt := hE.sorted e' he'
  have hl' : e'.length < 4 := by
    have h1 := length_le_of_sorted_subset he'srt hS hes'
    by_cases h4 : e'.length = 4
    · have := eq_of_sorted_subset_length he'srt hS hes' (by omega)
      exact absurd (this ▸ he') hnot
    · omega
  refine ⟨hS, hlen, hnot, e, he, hl, hes, e', he', hl', hes', ⟨z, hrest z (hes' z hz) hzd, hz⟩, ?_⟩
  intro y hy
  by_cases hyd : y = d
  · subst hyd; exact Or.inr hde'
  · exact Or.inl (hrest y hy hyd)

theorem mem_sets3 {S : List Nat} :
    S ∈ sets3 n E ↔ (∃ o ∈ esuSets n E, isort o = S) ∧ S ∉ sets2 n E ∧ S ∉ fullSets n E := by
  unfold sets3 stdSets
  simp only [List.mem_filter, List.mem_map, Bool.not_eq_true', List.contains_eq_mem, decide_eq_false_iff_not,
    List.mem_append, not_or]

include hn hE in
/-- what pass 3 visits: not a hyperedge, no hyperedge of size 3 inside (order 4), connected by pairs -/
theorem sets3_spec {S : List Nat} (h : S ∈ sets3 n E) :
    SSorted S ∧ S.length = n ∧ S ∉ E ∧ ¬ has3 E S ∧ Conn E S := by
  have hn1 : 1 ≤ n := by rcases hn with h | h <;> omega
  obtain ⟨hex, hn2, hn1'⟩ := mem_sets3.mp h
  obtain ⟨hS, hlen, v, _, hval⟩ := (mem_esu_sorted hn1).mp hex
  have hc := conn_of_rootValid hval
  have hnot : S ∉ E := fun hin => hn1' (mem_sets1.mpr ⟨hin, hlen⟩)
  refine ⟨hS, hlen, hnot, ?_, hc⟩
  intro h3
  rcases hn with h | h
  · subst h
    obtain ⟨e, he, hl, hes⟩ := h3
    have := eq_of_sorted_subset_length (hE.sorted e he) hS hes (by omega)
    exact hnot (this ▸ he)
  · subst h
    exact hn2 (sets2_of_conn hE hS hlen hnot h3 hc)

include hn hE hle in
/-- a connected `n`-set is visited by exactly the pass that matches its largest inner hyperedge -/
theorem conn_visited {S : List Nat} (hS : SSorted S) (hlen : S.length = n) (hc : Conn E S) :
    S ∈ fullSets n E ∨ S ∈ sets2 n E ∨ S ∈ sets3 n E := by
  have hn1 : 1 ≤ n := by rcases hn with h | h <;> omega
  by_cases hin : S ∈ E
  · exact Or.inl (mem_sets1.mpr ⟨hin, hlen⟩)
  · by_cases h3 : has3 E S
    · rcases hn with h | h
      · subst h
        obtain ⟨e, he, hl, hes⟩ := h3
        have := eq_of_sorted_subset_length (hE.sorted e he) hS hes (by omega)
        exact absurd (this ▸ he) hin
      · subst h
        exact Or.inr (Or.inl (sets2_of_conn hE hS hlen hin h3 hc))
    · right; right
      have hd : dyOnly E S := by
        intro e he hes
        have hesrt := hE.sorted e he
        have h1 := length_le_of_sorted_subset hesrt hS hes
        apply Classical.byContradiction
        intro hgt
        by_cases hfull : e.length = n
        · have := eq_of_sorted_subset_length hesrt hS hes (by omega)
          exact hin (this ▸ he)
        · have : e.length = 3 := by rcases hn with h | h <;> omega
          exact h3 ⟨e, he, this, hes⟩
      have hex := rootValid_of_conn hE hS (by rcases hn with h | h <;> omega) hd hc
      refine mem_sets3.mpr ⟨(mem_esu_sorted hn1).mpr ⟨hS, hlen, hex⟩, ?_, fun h => hin (mem_sets1.mp h).1⟩
      intro h2
      obtain ⟨_, _, _, _, e, he, hl, hes, _⟩ := sets2_spec hE h2
      exact h3 ⟨e, he, hl, hes⟩

/-- all node sets the census classifies -/
def allSets (n : Nat) (E : HG) : List (List Nat) := fullSets n E ++ (sets2 n E ++ sets3 n E)

include hn hE in
theorem allSets_nodup : (allSets n E).Nodup := by
  have hn1 : 1 ≤ n := by rcases hn with h | h <;> omega
  unfold allSets
  refine List.nodup_append.mpr ⟨List.Pairwise.filter _ hE.nodup, List.nodup_append.mpr ⟨?_, ?_, ?_⟩, ?_⟩
  · unfold sets2; split
    · exact nodup_visitNew
    · exact List.nodup_nil
  · unfold sets3 stdSets
    exact List.Pairwise.filter _ (esu_sorted_nodup hn1 E)
  · intro a ha b hb hab
    subst hab
    exact (mem_sets3.mp hb).2.1 ha
  · intro a ha b hb hab
    subst hab
    rcases List.mem_append.mp hb with h | h
    · have := sets2_spec hE h
      exact this.2.2.2.1 (mem_sets1.mp ha).1
    · exact (mem_sets3.mp h).2.2 ha

include hn hE hle in
theorem mem_allSets {S : List Nat} :
    S ∈ allSets n E ↔ SSorted S ∧ S.length = n ∧ Conn E S := by
  constructor
  · intro h
    rcases List.mem_append.mp h with h1 | h23
    · obtain ⟨hin, hlen⟩ := mem_sets1.mp h1
      have hS := hE.sorted S hin
      refine ⟨hS, hlen, ?_⟩
      have hpos : S ≠ [] := by
        intro h0; subst h0; simp at hlen; rcases hn with h | h <;> omega
      obtain ⟨a, ha⟩ := List.exists_mem_of_ne_nil S hpos
      apply conn_of_hub a
      intro y hy
      exact Reach.single ⟨S, hin, fun z hz => hz, ha, hy⟩
    · rcases List.mem_append.mp h23 with h2 | h3
      · obtain ⟨h4, hS, hlen, _, e, he, _, hes, e', he', _, hes', ⟨x, hx, hx'⟩, hcov⟩ := sets2_spec hE h2
        refine ⟨hS, by omega, ?_⟩
        apply conn_of_hub x
        intro y hy
        rcases hcov y hy with h | h
        · exact Reach.single ⟨e, he, hes, hx, h⟩
        · exact Reach.single ⟨e', he', hes', hx', h⟩
      · obtain ⟨hS, hlen, _, _, hc⟩ := sets3_spec hn hE h3
        exact ⟨hS, hlen, hc⟩
  · rintro ⟨hS, hlen, hc⟩
    rcases conn_visited hn hE hle hS hlen hc with h | h | h
    · exact List.mem_append.mpr (Or.inl h)
    · exact List.mem_append.mpr (Or.inr (List.mem_append.mpr (Or.inl h)))
    · exact List.mem_append.mpr (Or.inr (List.mem_append.mpr (Or.inr h)))

/-! ## the patterns the passes look up are the full patterns, and tell the passes apart -/

include hn in
theorem pat1 {S : List Nat} (h : S ∈ fullSets n E) : pattern n E S % 2 = 1 := by
  obtain ⟨hin, hlen⟩ := mem_sets1.mp h
  rw [pattern_mod2 hn E hlen]
  have : E.contains S = true := List.contains_iff_mem.mpr hin
  rw [this]; rfl

include hE in
theorem pat2 {S : List Nat} (h : S ∈ sets2 n E) :
    n = 4 ∧ pattern n (smaller n E) S = pattern n E S ∧ pattern n E S % 2 = 0 ∧ pattern n E S / 2 % 16 ≠ 0 := by
  obtain ⟨h4, hS, hlen, hnot, e, he, hl, hes, _⟩ := sets2_spec hE h
  subst h4
  have hcS : E.contains S = false := Bool.eq_false_iff.mpr (fun h => hnot (List.contains_iff_mem.mp h))
  refine ⟨rfl, ?_, ?_, ?_⟩
  · apply pattern_congr
    intro f hf h2 h4
    unfold smaller
    rw [contains_filter]
    by_cases hf4 : f.length = 4
    · have : f = S := hf.eq_of_length (by omega)
      subst this
      simp [hnot]
    · have : decide (f.length < 4) = true := by simp; omega
      simp [this]
  · rw [pattern_mod2 (Or.inr rfl) E hlen, hcS]; simp
  · intro h0
    have := (pattern4_mid_zero_iff E hlen).mp h0 e
      ((mem_subsetsOfSize_sorted hS).mpr ⟨hE.sorted e he, hes, hl⟩)
    have hce : E.contains e = true := by simpa using he
    rw [hce] at this; exact absurd this (by simp)

include hn hE in
theorem pat3 {S : List Nat} (h : S ∈ sets3 n E) :
    pattern n (dyadic E) S = pattern n E S ∧ pattern n E S % 2 = 0 ∧ (n = 4 → pattern n E S / 2 % 16 = 0) := by
  obtain ⟨hS, hlen, hnot, hno3, _⟩ := sets3_spec hn hE h
  have hcS : E.contains S = false := Bool.eq_false_iff.mpr (fun h => hnot (List.contains_iff_mem.mp h))
  have hbig : ∀ f, f.Sublist S → 3 ≤ f.length → f.length ≤ n → E.contains f = false := by
    intro f hf h3 hfn
    apply Classical.byContradiction
    intro hc
    have hin : f ∈ E := by simpa using hc
    by_cases hfull : f.length = n
    · have : f = S := hf.eq_of_length (by omega)
      exact hnot (this ▸ hin)
    · have : f.length = 3 := by rcases hn with h | h <;> omega
      exact hno3 ⟨f, hin, this, fun z hz => hf.subset hz⟩
  refine ⟨?_, ?_, ?_⟩
  · apply pattern_congr
    intro f hf h2 hfn
    unfold dyadic
    rw [contains_filter]
    by_cases hf2 : f.length = 2
    · simp [hf2]
    · rw [hbig f hf (by omega) hfn]; simp
  · rw [pattern_mod2 hn E hlen, hcS]; simp
  · intro h4
    subst h4
    rw [pattern4_mid_zero_iff E hlen]
    intro f hf
    obtain ⟨hs, hl⟩ := mem_subsetsOfSize.mp hf
    exact hbig f hs (by omega) (by omega)

end passes

/-! ## the three tallies have disjoint supports, so the per-class maximum is the sum -/

theorem max3_of_exclusive {a b c : Nat} (h12 : a = 0 ∨ b = 0) (h13 : a = 0 ∨ c = 0) (h23 : b = 0 ∨ c = 0) :
    max (max a b) c = a + b + c := by
  rcases h12 with h | h <;> rcases h13 with h' | h' <;> rcases h23 with h'' | h'' <;> subst_vars <;> simp

theorem countP_zero_or {α} (l : List α) (p : α → Bool) : l.countP p = 0 ∨ ∃ x ∈ l, p x = true := by
  by_cases h : ∃ x ∈ l, p x = true
  · exact Or.inr h
  · left; rw [List.countP_eq_zero]; intro a ha hp; exact h ⟨a, ha, hp⟩

section census
variable {n : Nat} (hn : n = 3 ∨ n = 4) {E : HG} (hE : WF E) (hle : ∀ e ∈ E, e.length ≤ n)

/-- number of node sets in `L` whose full pattern belongs to class `c` -/
def classCount (n : Nat) (E : HG) (c : Nat) (L : List (List Nat)) : Nat :=
  L.countP fun S => cidFor n (pattern n E S) == c

include hn hE in
theorem census_eq_classCount (hE0 : E = upTo n E) :
    censusWith (tbls n) (classes n) (labeling n) n E
      = (classes n).map fun c => (c, classCount n E c (allSets n E)) := by
  have C := certFor hn
  have hlen1 : ∀ S ∈ fullSets n E, S.length = n := fun S h => (mem_sets1.mp h).2
  have hlen2 : ∀ S ∈ sets2 n E, S.length = n := fun S h => by
    have := sets2_spec hE h; omega
  have hlen3 : ∀ S ∈ sets3 n E, S.length = n := fun S h => (sets3_spec hn hE h).2.1
  -- the three tallies
  have t1 : tallyWith (tbls n) (classes n) (labeling n) (fullPats n E)
      = (classes n).map fun c => (c, classCount n E c (fullSets n E)) := by
    rw [tally_eq C]
    · apply List.map_congr_left; intro c _
      unfold fullPats classCount; rw [List.countP_map]; rfl
    · intro p hp
      obtain ⟨S, hS, rfl⟩ := List.mem_map.mp hp
      exact pattern_lt _ (hlen1 S hS)
  have t2 : tallyWith (tbls n) (classes n) (labeling n) ((sets2 n E).map (pattern n (smaller n E)))
      = (classes n).map fun c => (c, classCount n E c (sets2 n E)) := by
    rw [tally_eq C]
    · apply List.map_congr_left; intro c _
      unfold classCount; rw [List.countP_map]
      congr 1
      apply List.countP_congr
      intro S hS
      simp only [Function.comp]
      rw [(pat2 hE hS).2.1]
    · intro p hp
      obtain ⟨S, hS, rfl⟩ := List.mem_map.mp hp
      exact pattern_lt _ (hlen2 S hS)
  have t3 : tallyWith (tbls n) (classes n) (labeling n) ((sets3 n E).map (pattern n (dyadic E)))
      = (classes n).map fun c => (c, classCount n E c (sets3 n E)) := by
    rw [tally_eq C]
    · apply List.map_congr_left; intro c _
      unfold classCount; rw [List.countP_map]
      congr 1
      apply List.countP_congr
      intro S hS
      simp only [Function.comp]
      rw [(pat3 hn hE hS).1]
    · intro p hp
      obtain ⟨S, hS, rfl⟩ := List.mem_map.mp hp
      exact pattern_lt _ (hlen3 S hS)
  -- class features of each pass
  have f1 : ∀ c, c ∈ classes n → (∃ S ∈ fullSets n E, (cidFor n (pattern n E S) == c) = true) → c % 2 = 1 := by
    rintro c hc ⟨S, hS, hcS⟩
    have hcS' : cidFor n (pattern n E S) = c := by simpa using hcS
    have hne : cidFor n (pattern n E S) ≠ 0 := by rw [hcS']; exact ((mem_classes C).mp hc).2.2
    have := feat_bit0 hn (pattern_lt E (hlen1 S hS)) hne
    rw [hcS', pat1 hn hS] at this; exact this
  have f2 : ∀ c, c ∈ classes n → (∃ S ∈ sets2 n E, (cidFor n (pattern n E S) == c) = true) →
      c % 2 = 0 ∧ c / 2 % 16 ≠ 0 := by
    rintro c hc ⟨S, hS, hcS⟩
    have hcS' : cidFor n (pattern n E S) = c := by simpa using hcS
    have hne : cidFor n (pattern n E S) ≠ 0 := by rw [hcS']; exact ((mem_classes C).mp hc).2.2
    obtain ⟨h4, _, hb0, hmid⟩ := pat2 hE hS
    have h0 := feat_bit0 hn (pattern_lt E (hlen2 S hS)) hne
    subst h4
    have hm := feat_mid (pattern_lt E (hlen2 S hS)) hne
    rw [hcS'] at h0 hm
    exact ⟨by omega, fun h => hmid (hm.mp h)⟩
  have f3 : ∀ c, c ∈ classes n → (∃ S ∈ sets3 n E, (cidFor n (pattern n E S) == c) = true) →
      c % 2 = 0 ∧ (n = 4 → c / 2 % 16 = 0) := by
    rintro c hc ⟨S, hS, hcS⟩
    have hcS' : cidFor n (pattern n E S) = c := by simpa using hcS
    have hne : cidFor n (pattern n E S) ≠ 0 := by rw [hcS']; exact ((mem_classes C).mp hc).2.2
    obtain ⟨_, hb0, hmid⟩ := pat3 hn hE hS
    have h0 := feat_bit0 hn (pattern_lt E (hlen3 S hS)) hne
    rw [hcS'] at h0
    refine ⟨by omega, ?_⟩
    intro h4; subst h4
    have hm := feat_mid (pattern_lt E (hlen3 S hS)) hne
    rw [hcS'] at hm
    exact hm.mpr (hmid rfl)
  -- per class: maximum = sum
  have hsum : ∀ c ∈ classes n,
      max (max (classCount n E c (fullSets n E)) (classCount n E c (sets2 n E))) (classCount n E c (sets3 n E))
        = classCount n E c (allSets n E) := by
    intro c hc
    have e1 := countP_zero_or (fullSets n E) (fun S => cidFor n (pattern n E S) == c)
    have e2 := countP_zero_or (sets2 n E) (fun S => cidFor n (pattern n E S) == c)
    have e3 := countP_zero_or (sets3 n E) (fun S => cidFor n (pattern n E S) == c)
    have h12 : classCount n E c (fullSets n E) = 0 ∨ classCount n E c (sets2 n E) = 0 := by
      rcases e1 with h | h
      · exact Or.inl h
      · rcases e2 with h' | h'
        · exact Or.inr h'
        · have := f1 c hc h; have := (f2 c hc h').1; omega
    have h13 : classCount n E c (fullSets n E) = 0 ∨ classCount n E c (sets3 n E) = 0 := by
      rcases e1 with h | h
      · exact Or.inl h
      · rcases e3 with h' | h'
        · exact Or.inr h'
        · have := f1 c hc h; have := (f3 c hc h').1; omega
    have h23 : classCount n E c (sets2 n E) = 0 ∨ classCount n E c (sets3 n E) = 0 := by
      rcases e2 with h | h
      · exact Or.inl h
      · rcases e3 with h' | h'
        · exact Or.inr h'
        · obtain ⟨S, hS, _⟩ := h
          have h4 := (sets2_spec hE hS).1
          have := (f2 c hc ⟨S, hS, ‹_›⟩).2
          exact absurd ((f3 c hc h').2 h4) this
    rw [max3_of_exclusive h12 h13 h23]
    unfold classCount allSets
    rw [List.countP_append, List.countP_append]; omega
  -- assemble
  unfold censusWith
  have hup : upTo n E = E := hE0.symm
  simp only [hup]
  by_cases h4 : n = 4
  · subst h4
    simp only [beq_self_eq_true, if_true]
    have hs2 : notFullSets 4 E (fullSets 4 E) = sets2 4 E := by simp [sets2]
    have hp2 : notFullPats 4 E (fullSets 4 E) = (sets2 4 E).map (pattern 4 (smaller 4 E)) := by
      unfold notFullPats; rw [hs2]
    have hp3 : stdPats 4 E (notFullSets 4 E (fullSets 4 E) ++ fullSets 4 E)
        = (sets3 4 E).map (pattern 4 (dyadic E)) := by
      unfold stdPats sets3; rw [hs2]
    rw [hp2, hp3, t1, t2, t3, zipMax_map, zipMax_map]
    apply List.map_congr_left
    intro c hc
    rw [hsum c hc]
  · have hb : (n == 4) = false := by simpa using h4
    simp only [hb]
    have hs2 : sets2 n E = [] := by simp [sets2, hb]
    have hp3 : stdPats n E (fullSets n E) = (sets3 n E).map (pattern n (dyadic E)) := by
      unfold stdPats sets3; rw [hs2]; simp
    rw [hp3, t1, t3, zipMax_map]
    apply List.map_congr_left
    intro c hc
    have := hsum c hc
    rw [hs2] at this
    simp only [classCount, List.countP_nil, Nat.max_zero] at this ⊢
    rw [this]

end census

/-! ## the specification: every `n`-subset of the node set, kept when connected, filed under its class -/

theorem upTo_idem (n : Nat) (E : HG) : upTo n (upTo n E) = upTo n E := by
  unfold upTo; rw [List.filter_filter]; simp

theorem pattern_upTo {n : Nat} (E : HG) (S : List Nat) : pattern n (upTo n E) S = pattern n E S := by
  apply pattern_congr
  intro e _ _ hn
  unfold upTo
  rw [contains_filter]
  have : decide (e.length ≤ n) = true := by simpa using hn
  rw [this]; simp

/-- class membership in the words of the property: the pattern is a relabelling of the class -/
theorem isRelabel_iff {n : Nat} (hn : n = 3 ∨ n = 4) {c p : Nat} (hc : c ∈ classes n) (hp : p < numMasks n) :
    (∃ t ∈ tbls n, applyPerm t c = p) ↔ cidFor n p = c := by
  have C := certFor hn
  constructor
  · rintro ⟨t, ht, h⟩; exact (cid_of_relabel C hc ht h).2
  · intro h
    have hne : cidFor n p ≠ 0 := by rw [h]; exact ((mem_classes C).mp hc).2.2
    obtain ⟨t, ht, h'⟩ := C.ofRep p hp hne
    exact ⟨t, ht, by rw [← h]; exact h'⟩

open Classical in
/-- the number of connected `n`-subsets whose pattern is a relabelling of `c` -/
noncomputable def specCount (n : Nat) (E : HG) (c : Nat) : Nat :=
  ((subsetsOfSize n (nodesOf E)).filter fun S =>
    decide (Conn E S ∧ ∃ t ∈ tbls n, applyPerm t c = pattern n E S)).length

open Classical in
theorem census_spec {n : Nat} (hn : n = 3 ∨ n = 4) {E : HG} (hE : WF E) :
    census n E = (classes n).map fun c => (c, specCount n E c) := by
  have hEn : WF (upTo n E) := hE.filter _
  have hle : ∀ e ∈ upTo n E, e.length ≤ n := by
    intro e he; simpa using (List.mem_filter.mp he).2
  have h1 : census n E = censusWith (tbls n) (classes n) (labeling n) n (upTo n E) := by
    unfold census censusWith; rw [upTo_idem]
  rw [h1, census_eq_classCount hn hEn (upTo_idem n E).symm]
  apply List.map_congr_left
  intro c hc
  congr 1
  -- the visited sets are, up to order, the connected n-subsets of the node set
  have hperm : (allSets n (upTo n E)).Perm
      ((subsetsOfSize n (nodesOf E)).filter fun S => decide (Conn E S)) := by
    apply (List.perm_ext_iff_of_nodup (allSets_nodup hn hEn)
      (List.Pairwise.filter _ (nodup_subsetsOfSize (nodesOf_sorted E).nodup))).mpr
    intro S
    rw [mem_allSets hn hEn hle, List.mem_filter, mem_subsetsOfSize_sorted (nodesOf_sorted E)]
    simp only [decide_eq_true_eq]
    constructor
    · rintro ⟨hS, hlen, hc'⟩
      have hcE := (conn_upTo hE hS hlen).mp hc'
      refine ⟨⟨hS, ?_, hlen⟩, hcE⟩
      intro x hx
      exact mem_nodesOf.mpr (conn_covered hS (by rcases hn with h | h <;> omega) hcE x hx)
    · rintro ⟨⟨hS, _, hlen⟩, hcE⟩
      exact ⟨hS, hlen, (conn_upTo hE hS hlen).mpr hcE⟩
  unfold classCount specCount
  rw [hperm.countP_eq, List.countP_filter, List.countP_eq_length_filter]
  congr 1
  apply List.filter_congr
  intro S hS
  have hlen : S.length = n := (mem_subsetsOfSize.mp hS).2
  rw [pattern_upTo]
  have hiff := isRelabel_iff hn hc (pattern_lt E hlen)
  by_cases hcn : Conn E S
  · by_cases hr : cidFor n (pattern n E S) = c
    · simp [hcn, hr, hiff.mpr hr]
    · have : ¬ ∃ t ∈ tbls n, applyPerm t c = pattern n E S := fun h => hr (hiff.mp h)
      simp [hcn, hr, this]
  · simp [hcn]

/-- the specification only looks at which hyperedges are present -/
theorem specCount_congr {n : Nat} {E E' : HG} (h : ∀ e, e ∈ E ↔ e ∈ E') (c : Nat) :
    specCount n E c = specCount n E' c := by
  have hV : nodesOf E = nodesOf E' := by
    apply eq_of_sorted_of_mem_iff (nodesOf_sorted E) (nodesOf_sorted E')
    intro x
    rw [mem_nodesOf, mem_nodesOf]
    constructor
    · rintro ⟨e, he, hx⟩; exact ⟨e, (h e).mp he, hx⟩
    · rintro ⟨e, he, hx⟩; exact ⟨e, (h e).mpr he, hx⟩
  have hP : ∀ S, pattern n E S = pattern n E' S := by
    intro S
    apply pattern_congr
    intro e _ _ _
    rw [Bool.eq_iff_iff, List.contains_iff_mem, List.contains_iff_mem]
    exact h e
  have hC : ∀ S, Conn E S ↔ Conn E' S := by
    intro S
    constructor
    · intro hc y hy x hx
      refine hreach_mono ?_ (hc y hy x hx)
      rintro y x ⟨e, he, hs, hy, hx⟩; exact ⟨e, (h e).mp he, hs, hy, hx⟩
    · intro hc y hy x hx
      refine hreach_mono ?_ (hc y hy x hx)
      rintro y x ⟨e, he, hs, hy, hx⟩; exact ⟨e, (h e).mpr he, hs, hy, hx⟩
  unfold specCount
  rw [hV]
  congr 1
  apply List.filter_congr
  intro S _
  rw [hP S]
  by_cases hc : Conn E S
  · have := (hC S).mp hc; simp [hc, this]
  · have : ¬ Conn E' S := fun h' => hc ((hC S).mpr h'); simp [hc, this]

end C11
