import Hgxv.Model.C20Cent
/-! Lemmas about the executable networkx routines of `Model/C20Cent.lean` (core Lean only):
walk counts ↔ walks, the characterisation of `distSigma`, congruence in the edge SET, isolated vertices. -/
namespace C20
variable {V : Type} [DecidableEq V]

/-- value of a level vector at a vertex (absent = 0) -/
def val (w : List (V × Nat)) (v : V) : Nat := (AL.get? w v).getD 0

/-- "there is a walk of length `k` from `s` to `v`" (last step `u ~ v`), all vertices in `g.verts` -/
def reachIn (g : Graph V) (s : V) : Nat → V → Prop
  | 0, v => v = s ∧ v ∈ g.verts
  | k + 1, v => v ∈ g.verts ∧ ∃ u, u ∈ nbrs g v ∧ reachIn g s k u

/-- number of walks of length `k` from `s` to `v` (the recursion `σ(v) = Σ_{u ~ v} σ(u)` of Brandes' algorithm
when `k` is the distance) -/
def walkCount (g : Graph V) (s : V) : Nat → V → Nat
  | 0, v => if v = s ∧ v ∈ g.verts then 1 else 0
  | k + 1, v => if v ∈ g.verts then ((nbrs g v).map (walkCount g s k)).sum else 0

/-- the `k`-th level vector -/
def lvl (g : Graph V) (s : V) : Nat → List (V × Nat)
  | 0 => g.verts.map fun v => (v, if v = s then 1 else 0)
  | k + 1 => walkStep g (lvl g s k)

theorem get?_map_mk (l : List V) (f : V → Nat) (v : V) :
    AL.get? (l.map fun u => (u, f u)) v = if v ∈ l then some (f v) else none := by
  induction l with
  | nil => simp
  | cons a t ih => grind [AL.get?]

theorem val_map_mk (l : List V) (f : V → Nat) (v : V) :
    val (l.map fun u => (u, f u)) v = if v ∈ l then f v else 0 := by
  unfold val; rw [get?_map_mk]; split <;> rfl

theorem val_walkStep (g : Graph V) (w : List (V × Nat)) (v : V) :
    val (walkStep g w) v = if v ∈ g.verts then ((nbrs g v).map (val w)).sum else 0 := by
  unfold walkStep
  exact val_map_mk g.verts (fun v => ((nbrs g v).map fun u => (AL.get? w u).getD 0).sum) v

theorem val_lvl (g : Graph V) (s : V) (k : Nat) (v : V) : val (lvl g s k) v = walkCount g s k v := by
  induction k generalizing v with
  | zero => simp only [lvl, walkCount]; rw [val_map_mk]; grind
  | succ k ih =>
    simp only [lvl, walkCount]; rw [val_walkStep]
    have : (nbrs g v).map (val (lvl g s k)) = (nbrs g v).map (walkCount g s k) :=
      List.map_congr_left fun u _ => ih u
    rw [this]

omit [DecidableEq V] in
theorem sum_pos_iff (l : List V) (f : V → Nat) : 0 < (l.map f).sum ↔ ∃ x, x ∈ l ∧ 0 < f x := by
  induction l with
  | nil => simp
  | cons a t ih =>
    simp only [List.map_cons, List.sum_cons, List.mem_cons]
    constructor
    · intro h
      by_cases ha : 0 < f a
      · exact ⟨a, Or.inl rfl, ha⟩
      · obtain ⟨x, hx, hp⟩ := ih.mp (by omega)
        exact ⟨x, Or.inr hx, hp⟩
    · rintro ⟨x, hx | hx, hp⟩
      · subst hx; omega
      · have := ih.mpr ⟨x, hx, hp⟩; omega

/-- a walk of length `k` exists iff the walk count is positive -/
theorem reachIn_iff_walkCount (g : Graph V) (s : V) (k : Nat) (v : V) :
    reachIn g s k v ↔ 0 < walkCount g s k v := by
  induction k generalizing v with
  | zero =>
    simp only [reachIn, walkCount]
    by_cases h : v = s ∧ v ∈ g.verts
    · rw [if_pos h]; exact ⟨fun _ => Nat.one_pos, fun _ => h⟩
    · rw [if_neg h]; exact ⟨fun h' => absurd h' h, fun h' => absurd h' (Nat.lt_irrefl 0)⟩
  | succ k ih =>
    simp only [reachIn, walkCount]
    by_cases hv : v ∈ g.verts
    · simp only [hv, true_and, if_true]
      rw [sum_pos_iff]
      constructor
      · rintro ⟨u, hu, hr⟩; exact ⟨u, hu, (ih u).mp hr⟩
      · rintro ⟨u, hu, hr⟩; exact ⟨u, hu, (ih u).mpr hr⟩
    · simp [hv]

/-! ### `levels` and `distSigma` -/

theorem walkLevels_eq (g : Graph V) (s : V) (n : Nat) (w : List (V × Nat)) (F : Nat → List (V × Nat))
    (h0 : F 0 = w) (hs : ∀ k, F (k + 1) = walkStep g (F k)) :
    walkLevels g s n w = (List.range n).map F := by
  induction n generalizing w F with
  | zero => simp [walkLevels]
  | succ n ih =>
    rw [walkLevels, List.range_succ_eq_map, List.map_cons, List.map_map, h0]
    congr 1
    exact ih (walkStep g w) (fun k => F (k + 1)) (by rw [hs, h0]) (fun k => hs (k + 1))

theorem levels_eq (g : Graph V) (s : V) : levels g s = (List.range g.verts.length).map (lvl g s) :=
  walkLevels_eq g s _ _ (lvl g s) rfl (fun _ => rfl)

theorem findSome_range {β : Type} (n : Nat) (P : Nat → Prop) [DecidablePred P] (F : Nat → β) :
    ∀ b, (List.range n).findSome? (fun k => if P k then some (F k) else none) = some b ↔
      ∃ d, d < n ∧ P d ∧ (∀ j, j < d → ¬ P j) ∧ b = F d := by
  induction n with
  | zero => simp
  | succ n ih =>
    intro b
    rw [List.range_succ, List.findSome?_append]
    cases hfs : (List.range n).findSome? (fun k => if P k then some (F k) else none) with
    | some b' =>
      have hb' := (ih b').mp hfs
      simp only [Option.some_or]
      constructor
      · intro h
        cases h
        obtain ⟨d, hd, rest⟩ := hb'
        exact ⟨d, by omega, rest⟩
      · rintro ⟨d, hd, hp, hmin, hb⟩
        obtain ⟨d', hd', hp', hmin', hbb⟩ := hb'
        have : d = d' := by
          rcases Nat.lt_trichotomy d d' with h | h | h
          · exact absurd hp (hmin' d h)
          · exact h
          · exact absurd hp' (hmin d' h)
        subst this; rw [hb, hbb]
    | none =>
      have hnone : ∀ d, d < n → ¬ P d := by
        intro d hd hp
        have := (List.findSome?_eq_none_iff.mp hfs) d (List.mem_range.mpr hd)
        simp [hp] at this
      simp only [Option.none_or, List.findSome?_cons, List.findSome?_nil]
      by_cases hp : P n
      · simp only [hp, if_true]
        constructor
        · intro h; cases h; exact ⟨n, by omega, hp, hnone, rfl⟩
        · rintro ⟨d, hd, hpd, _, hb⟩
          have : d = n := by
            rcases Nat.lt_or_ge d n with h | h
            · exact absurd hpd (hnone d h)
            · omega
          subst this; rw [hb]
      · simp only [hp, if_false]
        constructor
        · intro h; cases h
        · rintro ⟨d, hd, hpd, _, _⟩
          rcases Nat.lt_or_ge d n with h | h
          · exact absurd hpd (hnone d h)
          · have : d = n := by omega
            subst this; exact absurd hpd hp

theorem findSome_zip_map {β γ : Type} (l : List Nat) (F : Nat → β) (G : Nat × β → Option γ) :
    (l.zip (l.map F)).findSome? G = l.findSome? (fun k => G (k, F k)) := by
  induction l with
  | nil => rfl
  | cons a t ih => simp [List.findSome?_cons, ih]

theorem distSigma_levels (g : Graph V) (s v : V) :
    distSigma (levels g s) v = (List.range g.verts.length).findSome? (fun k =>
      if 0 < walkCount g s k v then some (k, walkCount g s k v) else none) := by
  unfold distSigma
  rw [levels_eq, List.length_map, List.length_range, findSome_zip_map]
  congr 1
  funext k
  show (if 0 < val (lvl g s k) v then some (k, val (lvl g s k) v) else none) = _
  rw [val_lvl]

/-- `distSigma` from source `s`: the answer `(d, c)` says that `d < |V|` is the length of a SHORTEST walk from `s` to
`v` and `c` the number of walks of that length (= the number of shortest paths). -/
theorem distSigma_spec (g : Graph V) (s v : V) (d c : Nat) :
    distSigma (levels g s) v = some (d, c) ↔
      d < g.verts.length ∧ reachIn g s d v ∧ (∀ j, j < d → ¬ reachIn g s j v) ∧ c = walkCount g s d v := by
  rw [distSigma_levels, findSome_range g.verts.length (fun k => 0 < walkCount g s k v) (fun k => (k, walkCount g s k v))]
  constructor
  · rintro ⟨d', hd, hp, hmin, hb⟩
    cases hb
    exact ⟨hd, (reachIn_iff_walkCount g s d v).mpr hp, fun j hj h => hmin j hj ((reachIn_iff_walkCount g s j v).mp h), rfl⟩
  · rintro ⟨hd, hp, hmin, hc⟩
    exact ⟨d, hd, (reachIn_iff_walkCount g s d v).mp hp, fun j hj h => hmin j hj ((reachIn_iff_walkCount g s j v).mpr h), by rw [hc]⟩

theorem distSigma_none (g : Graph V) (s v : V) :
    distSigma (levels g s) v = none ↔ ∀ k, k < g.verts.length → ¬ reachIn g s k v := by
  rw [distSigma_levels, List.findSome?_eq_none_iff]
  constructor
  · intro h k hk hr
    have := h k (List.mem_range.mpr hk)
    rw [if_pos ((reachIn_iff_walkCount g s k v).mp hr)] at this
    cases this
  · intro h k hk
    rw [if_neg fun hp => h k (List.mem_range.mp hk) ((reachIn_iff_walkCount g s k v).mpr hp)]

/-! ### congruence: the routines read the vertex list and the edge SET only -/

theorem adjacent_congr (g g' : Graph V) (he : ∀ e, e ∈ g.edges ↔ e ∈ g'.edges) (u v : V) :
    adjacent g u v = adjacent g' u v := by
  unfold adjacent
  rw [Bool.eq_iff_iff, List.any_eq_true, List.any_eq_true]
  constructor
  · rintro ⟨e, h1, h2⟩; exact ⟨e, (he e).mp h1, h2⟩
  · rintro ⟨e, h1, h2⟩; exact ⟨e, (he e).mpr h1, h2⟩

theorem nbrs_congr (g g' : Graph V) (hv : g.verts = g'.verts) (he : ∀ e, e ∈ g.edges ↔ e ∈ g'.edges) :
    nbrs g = nbrs g' := by
  funext v
  unfold nbrs
  rw [hv]
  apply List.filter_congr
  intro u _
  rw [adjacent_congr g g' he]

theorem levels_congr (g g' : Graph V) (hv : g.verts = g'.verts) (he : ∀ e, e ∈ g.edges ↔ e ∈ g'.edges) :
    levels g = levels g' := by
  have hw : walkStep g = walkStep g' := by
    funext w; unfold walkStep; rw [hv, nbrs_congr g g' hv he]
  have hl : ∀ s k w, walkLevels g s k w = walkLevels g' s k w := by
    intro s k
    induction k with
    | zero => intro w; rfl
    | succ k ih => intro w; simp only [walkLevels, hw, ih]
  funext s
  unfold levels
  rw [hv, hl]

theorem closeness_congr (g g' : Graph V) (hv : g.verts = g'.verts) (he : ∀ e, e ∈ g.edges ↔ e ∈ g'.edges) :
    closeness g = closeness g' := by
  funext v
  unfold closeness
  simp only [levels_congr g g' hv he, hv]

theorem betweenness_congr (g g' : Graph V) (hv : g.verts = g'.verts) (he : ∀ e, e ∈ g.edges ↔ e ∈ g'.edges) :
    betweenness g = betweenness g' := by
  funext v
  unfold betweenness
  simp only [levels_congr g g' hv he, hv]

/-! ### isolated vertices -/

theorem adjacent_symm (g : Graph V) (u v : V) : adjacent g u v = adjacent g v u := by
  unfold adjacent
  congr 1
  funext e
  exact decide_eq_decide.mpr Or.comm

theorem nbrs_symm (g : Graph V) (u v : V) (h : u ∈ nbrs g v) (hv : v ∈ g.verts) : v ∈ nbrs g u := by
  unfold nbrs at h ⊢
  rw [List.mem_filter] at h ⊢
  refine ⟨hv, ?_⟩
  have h2 := h.2
  simp only [decide_eq_true_eq] at h2 ⊢
  exact ⟨fun e => h2.1 e.symm, by rw [adjacent_symm]; exact h2.2⟩

theorem reachIn_mem (g : Graph V) (s : V) (k : Nat) (v : V) (h : reachIn g s k v) : v ∈ g.verts := by
  cases k with
  | zero => exact h.2
  | succ k => exact h.1

theorem isolated_reach (g : Graph V) (s : V) (hs : nbrs g s = []) (k : Nat) (u : V) : ¬ reachIn g s (k + 1) u := by
  induction k generalizing u with
  | zero =>
    rintro ⟨hu, x, hx, hxs, _⟩
    subst hxs
    have := nbrs_symm g x u hx hu
    rw [hs] at this
    cases this
  | succ k ih =>
    rintro ⟨_, x, _, hr⟩
    exact ih x hr

theorem distSigma_isolated (g : Graph V) (s u : V) (hs : nbrs g s = []) (d c : Nat)
    (h : distSigma (levels g s) u = some (d, c)) : d = 0 ∧ u = s := by
  obtain ⟨_, hr, _, _⟩ := (distSigma_spec g s u d c).mp h
  cases d with
  | zero => exact ⟨rfl, hr.1⟩
  | succ d => exact absurd hr (isolated_reach g s hs d u)

theorem natsum_zero {β : Type} (l : List β) (f : β → Nat) (h : ∀ x, x ∈ l → f x = 0) : (l.map f).sum = 0 := by
  induction l with
  | nil => rfl
  | cons a t ih =>
    rw [List.map_cons, List.sum_cons, h a (List.mem_cons_self), ih fun x hx => h x (List.mem_cons_of_mem _ hx)]

theorem ratsum_zero {β : Type} (l : List β) (f : β → Rat) (h : ∀ x, x ∈ l → f x = 0) : (l.map f).sum = 0 := by
  induction l with
  | nil => rfl
  | cons a t ih =>
    rw [List.map_cons, List.sum_cons, h a (List.mem_cons_self), ih fun x hx => h x (List.mem_cons_of_mem _ hx)]
    exact Rat.add_zero 0

/-- an isolated vertex (no neighbour) has closeness 0 ... -/
theorem closeness_isolated (g : Graph V) (v : V) (hs : nbrs g v = []) : closeness g v = 0 := by
  have htot : ((g.verts.filterMap fun u => distSigma (levels g v) u).map (·.1)).sum = 0 := by
    apply natsum_zero
    intro p hp
    obtain ⟨u, _, hu⟩ := List.mem_filterMap.mp hp
    exact (distSigma_isolated g v u hs p.1 p.2 hu).1
  unfold closeness
  simp only [htot]
  simp

theorem pairDep_isolated (g : Graph V) (v t : V) (hs : nbrs g v = []) (ht : t ≠ v) (ls : List (List (V × Nat))) :
    pairDep ls (levels g v) v t = 0 := by
  have hnone : distSigma (levels g v) t = none := by
    cases h : distSigma (levels g v) t with
    | none => rfl
    | some p => exact absurd (distSigma_isolated g v t hs p.1 p.2 h).2 ht
  unfold pairDep
  rw [hnone]
  split
  · rename_i h; cases h
  · rfl

/-- ... and betweenness 0 -/
theorem betweenness_isolated (g : Graph V) (v : V) (hs : nbrs g v = []) : betweenness g v = 0 := by
  have hraw : ((g.verts.filter (· ≠ v)).map fun s =>
      (((g.verts.filter (· ≠ v)).filter (· ≠ s)).map fun t => pairDep (levels g s) (levels g v) v t).sum).sum = 0 := by
    apply ratsum_zero
    intro s _
    apply ratsum_zero
    intro t ht
    have := (List.mem_filter.mp (List.mem_filter.mp ht).1).2
    exact pairDep_isolated g v t hs (by simpa using this) _
  unfold betweenness
  simp only [hraw]
  split
  · rw [Rat.div_def, Rat.zero_mul]
  · rfl

/-! ### walks: concatenation, reversal; distance is symmetric and satisfies the triangle inequality -/

theorem reachIn_trans (g : Graph V) (s u t : V) (a b : Nat) (h1 : reachIn g s a u) (h2 : reachIn g u b t) :
    reachIn g s (a + b) t := by
  induction b generalizing t with
  | zero => obtain ⟨rfl, _⟩ := h2; exact h1
  | succ b ih =>
    obtain ⟨ht, x, hx, hr⟩ := h2
    exact ⟨ht, x, hx, ih x hr⟩

/-- first-step decomposition of a walk -/
theorem reachIn_first (g : Graph V) (v t : V) (k : Nat) (h : reachIn g v (k + 1) t) :
    ∃ x, x ∈ nbrs g v ∧ reachIn g x k t := by
  induction k generalizing t with
  | zero =>
    obtain ⟨ht, x, hx, rfl, hxv⟩ := h
    exact ⟨t, nbrs_symm g x t hx ht, rfl, ht⟩
  | succ k ih =>
    obtain ⟨ht, y, hy, hr⟩ := h
    obtain ⟨x, hx, hxr⟩ := ih y hr
    exact ⟨x, hx, ht, y, hy, hxr⟩

theorem mem_verts_of_mem_nbrs (g : Graph V) (u v : V) (h : u ∈ nbrs g v) : u ∈ g.verts :=
  (List.mem_filter.mp h).1

theorem reachIn_one (g : Graph V) (u v : V) (h : u ∈ nbrs g v) (hv : v ∈ g.verts) : reachIn g u 1 v :=
  ⟨hv, u, h, rfl, mem_verts_of_mem_nbrs g u v h⟩

/-- walks can be reversed -/
theorem reachIn_symm (g : Graph V) (s v : V) (k : Nat) (h : reachIn g s k v) : reachIn g v k s := by
  induction k generalizing v with
  | zero => obtain ⟨rfl, hv⟩ := h; exact ⟨rfl, hv⟩
  | succ k ih =>
    obtain ⟨hv, u, hu, hr⟩ := h
    have h1 : reachIn g v 1 u := reachIn_one g v u (nbrs_symm g u v hu hv) (mem_verts_of_mem_nbrs g u v hu)
    have := reachIn_trans g v u s 1 k h1 (ih u hr)
    rwa [Nat.add_comm] at this

/-- the distance part of `distSigma` -/
def dist (g : Graph V) (s v : V) : Option Nat := (distSigma (levels g s) v).map (·.1)

theorem dist_spec (g : Graph V) (s v : V) (d : Nat) :
    dist g s v = some d ↔ d < g.verts.length ∧ reachIn g s d v ∧ ∀ j, j < d → ¬ reachIn g s j v := by
  unfold dist
  constructor
  · intro h
    cases hd : distSigma (levels g s) v with
    | none => rw [hd] at h; cases h
    | some p =>
      rw [hd] at h
      obtain ⟨d', c⟩ := p
      cases h
      obtain ⟨h1, h2, h3, _⟩ := (distSigma_spec g s v d' c).mp hd
      exact ⟨h1, h2, h3⟩
  · rintro ⟨h1, h2, h3⟩
    rw [(distSigma_spec g s v d (walkCount g s d v)).mpr ⟨h1, h2, h3, rfl⟩]
    rfl

theorem dist_none (g : Graph V) (s v : V) : dist g s v = none ↔ ∀ k, k < g.verts.length → ¬ reachIn g s k v := by
  unfold dist
  rw [Option.map_eq_none_iff, distSigma_none]

theorem dist_symm (g : Graph V) (s v : V) : dist g s v = dist g v s := by
  cases h : dist g s v with
  | none =>
    symm
    rw [dist_none] at h ⊢
    exact fun k hk hr => h k hk (reachIn_symm g v s k hr)
  | some d =>
    symm
    rw [dist_spec] at h ⊢
    exact ⟨h.1, reachIn_symm g s v d h.2.1, fun j hj hr => h.2.2 j hj (reachIn_symm g v s j hr)⟩

/-- triangle inequality for the computed distances -/
theorem dist_triangle (g : Graph V) (s u t : V) (a b c : Nat) (h1 : dist g s u = some a) (h2 : dist g u t = some b)
    (h3 : dist g s t = some c) : c ≤ a + b := by
  rw [dist_spec] at h1 h2 h3
  apply Decidable.byContradiction
  intro hlt
  exact h3.2.2 (a + b) (by omega) (reachIn_trans g s u t a b h1.2.1 h2.2.1)

/-! ### a leaf lies on no shortest path between two other vertices -/

theorem pairDep_leaf (g : Graph V) (v u s t : V) (hleaf : nbrs g v = [u]) (hs : s ≠ v) (ht : t ≠ v) :
    pairDep (levels g s) (levels g v) v t = 0 := by
  unfold pairDep
  split
  · rename_i dst sst dsv ssv dvt svt h1 h2 h3
    split
    · rename_i heq
      exfalso
      obtain ⟨_, _, hmin, _⟩ := (distSigma_spec g s t dst sst).mp h1
      obtain ⟨_, hsv, _, _⟩ := (distSigma_spec g s v dsv ssv).mp h2
      obtain ⟨_, hvt, _, _⟩ := (distSigma_spec g v t dvt svt).mp h3
      cases dsv with
      | zero => exact hs hsv.1.symm
      | succ a =>
        cases dvt with
        | zero => exact ht hvt.1
        | succ b =>
          obtain ⟨_, x, hx, hsx⟩ := hsv
          rw [hleaf, List.mem_singleton] at hx
          subst hx
          obtain ⟨y, hy, hyt⟩ := reachIn_first g v t b hvt
          rw [hleaf, List.mem_singleton] at hy
          subst hy
          exact hmin (a + b) (by omega) (reachIn_trans g s y t a b hsx hyt)
    · rfl
  · rfl

/-- a vertex with exactly one neighbour has betweenness 0 -/
theorem betweenness_leaf (g : Graph V) (v u : V) (hleaf : nbrs g v = [u]) : betweenness g v = 0 := by
  have hraw : ((g.verts.filter (· ≠ v)).map fun s =>
      (((g.verts.filter (· ≠ v)).filter (· ≠ s)).map fun t => pairDep (levels g s) (levels g v) v t).sum).sum = 0 := by
    apply ratsum_zero
    intro s hs
    apply ratsum_zero
    intro t ht
    have h1 := (List.mem_filter.mp (List.mem_filter.mp ht).1).2
    have h2 := (List.mem_filter.mp hs).2
    exact pairDep_leaf g v u s t hleaf (by simpa using h2) (by simpa using h1)
  unfold betweenness
  simp only [hraw]
  split
  · rw [Rat.div_def, Rat.zero_mul]
  · rfl

/-- `closeness` in terms of the distances -/
theorem closeness_formula (g : Graph V) (v : V) :
    closeness g v =
      if 0 < (g.verts.filterMap (dist g v)).sum ∧ 1 < g.verts.length then
        ((((g.verts.filterMap (dist g v)).length - 1 : Nat) : Rat) / (((g.verts.filterMap (dist g v)).sum : Nat) : Rat)) *
        ((((g.verts.filterMap (dist g v)).length - 1 : Nat) : Rat) / ((g.verts.length - 1 : Nat) : Rat))
      else 0 := by
  have h : g.verts.filterMap (dist g v) = (g.verts.filterMap fun u => distSigma (levels g v) u).map (·.1) := by
    rw [List.map_filterMap]; rfl
  rw [h, List.length_map]
  rfl

/-! ### a shortest walk has fewer than `|V|` steps (pigeonhole), so the bound `k < |V|` of `levels` loses nothing -/

/-- along a shortest walk of length `k` there are `k + 1` different vertices (one at each distance `0..k`) -/
theorem shortest_witness (g : Graph V) (s : V) (k : Nat) (v : V) (h : reachIn g s k v)
    (hmin : ∀ j, j < k → ¬ reachIn g s j v) :
    ∃ xs : List V, xs.Nodup ∧ xs.length = k + 1 ∧ ∀ x, x ∈ xs → x ∈ g.verts ∧ ∃ j, j ≤ k ∧ reachIn g s j x := by
  induction k generalizing v with
  | zero => exact ⟨[v], by simp, rfl, fun x hx => by
      rw [List.mem_singleton] at hx; subst hx; exact ⟨h.2, 0, Nat.le_refl 0, h⟩⟩
  | succ k ih =>
    obtain ⟨hv, u, hu, hr⟩ := h
    have humin : ∀ j, j < k → ¬ reachIn g s j u := fun j hj hju =>
      hmin (j + 1) (by omega) ⟨hv, u, hu, hju⟩
    obtain ⟨xs, hnd, hlen, hall⟩ := ih u hr humin
    refine ⟨v :: xs, List.nodup_cons.mpr ⟨?_, hnd⟩, by simp [hlen], ?_⟩
    · intro hvx
      obtain ⟨_, j, hj, hjr⟩ := hall v hvx
      exact hmin j (by omega) hjr
    · intro x hx
      rcases List.mem_cons.mp hx with rfl | hx
      · exact ⟨hv, k + 1, Nat.le_refl _, hv, u, hu, hr⟩
      · obtain ⟨h1, j, hj, hjr⟩ := hall x hx
        exact ⟨h1, j, by omega, hjr⟩

theorem exists_min_reach (g : Graph V) (s v : V) (k : Nat) (h : reachIn g s k v) :
    ∃ d, d ≤ k ∧ reachIn g s d v ∧ ∀ j, j < d → ¬ reachIn g s j v := by
  induction k using Nat.strongRecOn with
  | _ k ih =>
    by_cases hex : ∃ j, j < k ∧ reachIn g s j v
    · obtain ⟨j, hj, hr⟩ := hex
      obtain ⟨d, hd, hrd, hmin⟩ := ih j hj hr
      exact ⟨d, by omega, hrd, hmin⟩
    · exact ⟨k, Nat.le_refl k, h, fun j hj hr => hex ⟨j, hj, hr⟩⟩

/-- a shortest walk has fewer than `|V|` steps -/
theorem shortest_lt (g : Graph V) (s : V) (k : Nat) (v : V) (h : reachIn g s k v)
    (hmin : ∀ j, j < k → ¬ reachIn g s j v) : k < g.verts.length := by
  obtain ⟨xs, hnd, hlen, hall⟩ := shortest_witness g s k v h hmin
  have := List.Nodup.length_le_of_subset hnd (fun x hx => (hall x hx).1)
  omega

/-- `dist` without the bound: `some d` iff `d` is the length of a shortest walk, `none` iff there is no walk at all -/
theorem dist_spec' (g : Graph V) (s v : V) (d : Nat) :
    dist g s v = some d ↔ reachIn g s d v ∧ ∀ j, j < d → ¬ reachIn g s j v := by
  rw [dist_spec]
  exact ⟨fun h => ⟨h.2.1, h.2.2⟩, fun h => ⟨shortest_lt g s d v h.1 h.2, h.1, h.2⟩⟩

theorem dist_none' (g : Graph V) (s v : V) : dist g s v = none ↔ ∀ k, ¬ reachIn g s k v := by
  rw [dist_none]
  constructor
  · intro h k hr
    obtain ⟨d, _, hrd, hmin⟩ := exists_min_reach g s v k hr
    exact h d (shortest_lt g s d v hrd hmin) hrd
  · intro h k _; exact h k

/-! ### Chapman-Kolmogorov for walk counts; the numerators of the pair dependencies -/

theorem walkCount_not_mem (g : Graph V) (s : V) (k : Nat) (v : V) (h : v ∉ g.verts) : walkCount g s k v = 0 := by
  cases k <;> simp [walkCount, h]

theorem nsum_add {β : Type} (l : List β) (f g : β → Nat) :
    (l.map fun y => f y + g y).sum = (l.map f).sum + (l.map g).sum := by
  induction l with
  | nil => rfl
  | cons a t ih => simp only [List.map_cons, List.sum_cons, ih]; omega

theorem nsum_mul {β : Type} (l : List β) (c : Nat) (f : β → Nat) :
    (l.map fun y => c * f y).sum = c * (l.map f).sum := by
  induction l with
  | nil => rfl
  | cons a t ih => simp only [List.map_cons, List.sum_cons, ih, Nat.mul_add]

theorem nsum_comm {β γ : Type} (l1 : List β) (l2 : List γ) (F : β → γ → Nat) :
    (l1.map fun x => (l2.map fun y => F x y).sum).sum = (l2.map fun y => (l1.map fun x => F x y).sum).sum := by
  induction l1 with
  | nil => simp only [List.map_nil, List.sum_nil]; exact (natsum_zero l2 _ fun _ _ => rfl).symm
  | cons a t ih =>
    simp only [List.map_cons, List.sum_cons, ih]
    rw [← nsum_add]

theorem nsum_congr {β : Type} (l : List β) (f g : β → Nat) (h : ∀ x, x ∈ l → f x = g x) :
    (l.map f).sum = (l.map g).sum := by
  rw [List.map_congr_left h]

theorem nsum_indicator (l : List V) (hl : l.Nodup) (f : V → Nat) (t : V) :
    (l.map fun v => f v * (if t = v then 1 else 0)).sum = if t ∈ l then f t else 0 := by
  induction l with
  | nil => rfl
  | cons a r ih =>
    rw [List.nodup_cons] at hl
    simp only [List.map_cons, List.sum_cons, ih hl.2, List.mem_cons]
    by_cases h : t = a
    · subst h; simp [hl.1]
    · simp [h]

/-- Chapman-Kolmogorov for walk counts: a walk of length `a + b` splits at its `a`-th vertex -/
theorem walkCount_add (g : Graph V) (hn : g.verts.Nodup) (s t : V) (a b : Nat) :
    walkCount g s (a + b) t = (g.verts.map fun v => walkCount g s a v * walkCount g v b t).sum := by
  induction b generalizing t with
  | zero =>
    by_cases ht : t ∈ g.verts
    · have : (g.verts.map fun v => walkCount g s a v * walkCount g v 0 t)
          = (g.verts.map fun v => walkCount g s a v * (if t = v then 1 else 0)) := by
        apply List.map_congr_left
        intro v _
        simp only [walkCount, ht, and_true]
      rw [this, nsum_indicator g.verts hn, if_pos ht]; rfl
    · rw [natsum_zero]
      · exact walkCount_not_mem g s _ t ht
      · intro v _; simp [walkCount, ht]
  | succ b ih =>
    by_cases ht : t ∈ g.verts
    · have hL : walkCount g s (a + (b + 1)) t = ((nbrs g t).map (walkCount g s (a + b))).sum := by
        show walkCount g s (a + b + 1) t = _
        simp only [walkCount, ht, if_true]
      rw [hL]
      have hR : (g.verts.map fun v => walkCount g s a v * walkCount g v (b + 1) t)
          = (g.verts.map fun v => ((nbrs g t).map fun u => walkCount g s a v * walkCount g v b u).sum) := by
        apply List.map_congr_left
        intro v _
        simp only [walkCount, ht, if_true]
        rw [← nsum_mul]
      rw [hR, nsum_comm]
      apply nsum_congr
      intro u _
      exact ih u
    · rw [natsum_zero]
      · exact walkCount_not_mem g s _ t ht
      · intro v _; rw [walkCount_not_mem g v _ t ht, Nat.mul_zero]

/-! ### the pair dependencies of all intermediate vertices sum to `distance - 1` -/

/-- number of shortest `s`-`t` walks through `v` (`d` = the distance of `s` and `t`): `σ_sv · σ_vt` when
`d(s,v) + d(v,t) = d`, else 0 -/
def thru (g : Graph V) (s t : V) (d : Nat) (v : V) : Nat :=
  match dist g s v with
  | some a => if a ≤ d then walkCount g s a v * walkCount g v (d - a) t else 0
  | none => 0

/-- the part of `thru` contributed by the vertices at distance exactly `a` from `s` -/
def thruAt (g : Graph V) (s t : V) (d a : Nat) (v : V) : Nat :=
  if dist g s v = some a then walkCount g s a v * walkCount g v (d - a) t else 0

theorem range_sum_single (n : Nat) (o : Option Nat) (F : Nat → Nat) :
    ((List.range n).map fun a => if o = some a then F a else 0).sum =
      match o with
      | some a => if a < n then F a else 0
      | none => 0 := by
  cases o with
  | none => exact natsum_zero _ _ fun a _ => by simp
  | some a0 =>
    induction n with
    | zero => simp
    | succ n ih =>
      rw [List.range_succ, List.map_append, List.sum_append, ih]
      simp only [List.map_cons, List.map_nil, List.sum_cons, List.sum_nil, Option.some.injEq]
      by_cases h1 : a0 < n
      · have : a0 ≠ n := by omega
        simp [h1, this]; omega
      · by_cases h2 : a0 = n
        · subst h2; simp
        · have : ¬ a0 < n + 1 := by omega
          simp [h1, h2, this]

theorem thru_eq_sum (g : Graph V) (s t : V) (d : Nat) (v : V) :
    thru g s t d v = ((List.range (d + 1)).map fun a => thruAt g s t d a v).sum := by
  unfold thruAt
  rw [range_sum_single (d + 1) (dist g s v) (fun a => walkCount g s a v * walkCount g v (d - a) t)]
  unfold thru
  cases dist g s v with
  | none => rfl
  | some a => simp only [Nat.lt_succ_iff]

theorem walkCount_eq_zero (g : Graph V) (s v : V) (k : Nat) (h : ¬ reachIn g s k v) : walkCount g s k v = 0 := by
  rw [reachIn_iff_walkCount] at h; omega

theorem thruAt_sum (g : Graph V) (hn : g.verts.Nodup) (s t : V) (d a : Nat) (hd : dist g s t = some d) (ha : a ≤ d) :
    (g.verts.map (thruAt g s t d a)).sum = walkCount g s d t := by
  have hd' := (dist_spec g s t d).mp hd
  have hterm : ∀ v, v ∈ g.verts → thruAt g s t d a v = walkCount g s a v * walkCount g v (d - a) t := by
    intro v _
    unfold thruAt
    by_cases h : dist g s v = some a
    · rw [if_pos h]
    · rw [if_neg h]
      by_cases h1 : reachIn g s a v
      · by_cases h2 : reachIn g v (d - a) t
        · exfalso
          by_cases hex : ∃ j, j < a ∧ reachIn g s j v
          · obtain ⟨j, hj, hr⟩ := hex
            exact hd'.2.2 (j + (d - a)) (by omega) (reachIn_trans g s v t j (d - a) hr h2)
          · exact h ((dist_spec g s v a).mpr ⟨by omega, h1, fun j hj hr => hex ⟨j, hj, hr⟩⟩)
        · rw [walkCount_eq_zero g v t _ h2, Nat.mul_zero]
      · rw [walkCount_eq_zero g s v _ h1, Nat.zero_mul]
  rw [nsum_congr _ _ _ hterm, ← walkCount_add g hn s t a (d - a)]
  congr 1; omega

theorem nsum_const {β : Type} (l : List β) (c : Nat) : (l.map fun _ => c).sum = l.length * c := by
  induction l with
  | nil => simp
  | cons a t ih => simp only [List.map_cons, List.sum_cons, ih, List.length_cons, Nat.succ_mul]; omega

theorem thru_total (g : Graph V) (hn : g.verts.Nodup) (s t : V) (d : Nat) (hd : dist g s t = some d) :
    (g.verts.map (thru g s t d)).sum = (d + 1) * walkCount g s d t := by
  have h1 : (g.verts.map (thru g s t d)) = g.verts.map fun v => ((List.range (d + 1)).map fun a => thruAt g s t d a v).sum :=
    List.map_congr_left fun v _ => thru_eq_sum g s t d v
  rw [h1, nsum_comm]
  rw [nsum_congr _ _ (fun _ => walkCount g s d t) fun a ha => thruAt_sum g hn s t d a hd (by have := List.mem_range.mp ha; omega)]
  rw [nsum_const, List.length_range]

theorem nsum_filter_ne (l : List V) (hl : l.Nodup) (x : V) (hx : x ∈ l) (f : V → Nat) :
    (l.map f).sum = f x + ((l.filter (· ≠ x)).map f).sum := by
  induction l with
  | nil => cases hx
  | cons a r ih =>
    rw [List.nodup_cons] at hl
    by_cases h : a = x
    · subst h
      have : (a :: r).filter (· ≠ a) = r := by
        rw [List.filter_cons]
        simp only [ne_eq, not_true_eq_false, decide_false, Bool.false_eq_true, if_false]
        rw [List.filter_eq_self]
        intro y hy
        simp only [decide_eq_true_eq]
        intro hya; subst hya; exact hl.1 hy
      rw [this]; rfl
    · have hx' : x ∈ r := by
        rcases List.mem_cons.mp hx with h' | h'
        · exact absurd h'.symm h
        · exact h'
      rw [List.filter_cons]
      simp only [ne_eq, h, not_false_eq_true, decide_true, if_true, List.map_cons, List.sum_cons, ih hl.2 hx']
      omega

theorem dist_self (g : Graph V) (s : V) (hs : s ∈ g.verts) : dist g s s = some 0 :=
  (dist_spec g s s 0).mpr ⟨List.length_pos_of_mem hs, ⟨rfl, hs⟩, fun j hj => by omega⟩

/-- the numerators over all vertices other than `s` and `t` -/
theorem thru_others (g : Graph V) (hn : g.verts.Nodup) (s t : V) (hst : s ≠ t) (d : Nat) (hd : dist g s t = some d) :
    (((g.verts.filter (· ≠ s)).filter (· ≠ t)).map (thru g s t d)).sum = (d - 1) * walkCount g s d t := by
  have hd' := (dist_spec g s t d).mp hd
  have hs : s ∈ g.verts := reachIn_mem g t d s (reachIn_symm g s t d hd'.2.1)
  have ht : t ∈ g.verts := reachIn_mem g s d t hd'.2.1
  have hts : thru g s t d s = walkCount g s d t := by
    unfold thru
    rw [dist_self g s hs]
    simp [walkCount, hs]
  have htt : thru g s t d t = walkCount g s d t := by
    unfold thru
    rw [hd]
    simp [walkCount, ht]
  have e1 := nsum_filter_ne g.verts hn s hs (thru g s t d)
  have ht' : t ∈ g.verts.filter (· ≠ s) := List.mem_filter.mpr ⟨ht, by simpa using fun h => hst h.symm⟩
  have e2 := nsum_filter_ne (g.verts.filter (· ≠ s)) (hn.filter _) t ht' (thru g s t d)
  have e3 := thru_total g hn s t d hd
  cases d with
  | zero => exact absurd hd'.2.1.1.symm hst
  | succ e =>
    rw [hts] at e1; rw [htt] at e2
    rw [e1, e2] at e3
    simp only [Nat.add_sub_cancel]
    have : (e + 1 + 1) * walkCount g s (e + 1) t = e * walkCount g s (e + 1) t + 2 * walkCount g s (e + 1) t := by
      rw [← Nat.add_mul]
    rw [this] at e3
    generalize e * walkCount g s (e + 1) t = m at *
    omega

end C20
