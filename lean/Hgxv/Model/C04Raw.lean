import Hgxv.Model.C04Dump
import Hgxv.Model.C04Ext
/-! # C04, second extension round - the raw setters, histories with raw calls, the hashing view for layer names
that cannot be ordered

Core Lean only (compiled into `driver_c04`).

* `setEdgeList` / `setAdjDict` / `setExistingLayers` - `set_edge_list(d)`, `set_adj_dict(d)`, `set_existing_layers(s)`:
  plain attribute assignments (nothing is checked, nothing else is touched), `getExistingLayers` the getter of the
  registry.  `RawOp` / `rawStep` / `rawRun`: histories in which public calls are mixed with raw assignments and with
  `populate_from_dict(data)`.
* `hashViewT ty` - `expose_attributes_for_hashing()` when layer names have Python types that need not be mutually
  orderable: `ty l` is the comparability class of layer name `l` (`a < b` is defined iff `ty a = ty b`; node labels
  are mutually orderable - the property's "comparable node universe").  `sorted(self._edge_list.keys())` compares two
  keys `(e, l)`, `(e', l')` as tuples: the first component that differs under `==` decides, so two layer names are
  compared with `<` only when the node tuples are equal.  A comparison of two names of different classes raises
  `TypeError`, which leaves `sorted` and the method (no fallback, no `key=`).  Every comparison sort must compare
  the two members of such a pair directly or through a chain of keys with the same node tuple (otherwise its answer
  would be the same for the two total orders that extend the comparisons made in opposite ways), so the call raises
  exactly when some node set lives in two layers whose names are of different classes: `layerClash`. -/
namespace C04

/-! ## raw setters -/

/-- `set_edge_list(edge_list)`: `self._edge_list = edge_list` -/
def setEdgeList (s : Store) (t : List (Key × Nat)) : Store := { s with edgeList := t }
/-- `set_adj_dict(adj_dict)`: `self._adj = adj_dict` -/
def setAdjDict (s : Store) (t : List (Node × List Nat)) : Store := { s with adj := t }
/-- `set_existing_layers(existing_layers)`: `self._existing_layers = existing_layers` -/
def setExistingLayers (s : Store) (ls : List Layer) : Store := { s with layers := ls }
/-- `get_existing_layers()` -/
def getExistingLayers (s : Store) : List Layer := s.layers

/-- a call of the public OR the raw surface -/
inductive RawOp
  | pub (op : Op)
  | setEdgeList (t : List (Key × Nat))
  | setAdjDict (t : List (Node × List Nat))
  | setExistingLayers (ls : List Layer)
  | populate (d : Dump)
  deriving Repr

def rawStep (s : Store) : RawOp → Store
  | .pub op => (step s op).1
  | .setEdgeList t => setEdgeList s t
  | .setAdjDict t => setAdjDict s t
  | .setExistingLayers ls => setExistingLayers s ls
  | .populate d => populate d

def rawRun (s : Store) (ops : List RawOp) : Store := ops.foldl rawStep s

/-- the raw call hands back what the matching getter (`get_edge_list()`, `get_adj_dict()`, `get_existing_layers()`,
`expose_data_structures()`) returns at that moment -/
def RawOp.echo (s : Store) : RawOp → Bool
  | .pub _ => true
  | .setEdgeList t => decide (t = edgeTable s)
  | .setAdjDict t => decide (t = adjTable s)
  | .setExistingLayers ls => decide (ls = getExistingLayers s)
  | .populate d => match loadDump d with
    | some s' => decide (s'.weighted = s.weighted ∧ s'.edgeList = s.edgeList ∧ s'.rev = s.rev ∧ s'.weights = s.weights ∧
        s'.emeta = s.emeta ∧ s'.adj = s.adj ∧ s'.nmeta = s.nmeta ∧ s'.nextId = s.nextId ∧ s'.hmeta = s.hmeta ∧
        s'.layers = s.layers)
    | none => false

/-- every raw call of the history is an echo at the moment it is made -/
def echoes (s : Store) : List RawOp → Bool
  | [] => true
  | op :: ops => op.echo s && echoes (rawStep s op) ops

/-- the public calls of a mixed history -/
def pubOps : List RawOp → List Op
  | [] => []
  | .pub op :: ops => op :: pubOps ops
  | _ :: ops => pubOps ops

/-- the ten table names a well-typed serialisation dictionary carries -/
structure Dump.WF (d : Dump) : Prop where
  hm : ∃ m, lookup d "hypergraph_metadata" = some (.hmeta m)
  nm : ∃ m, lookup d "node_metadata" = some (.nmeta m)
  em : ∃ m, lookup d "edge_metadata" = some (.emeta m)
  wd : ∃ b, lookup d "_weighted" = some (.flag b)
  ws : ∃ m, lookup d "_weights" = some (.weights m)
  el : ∃ m, lookup d "_edge_list" = some (.edgeList m)
  ad : ∃ m, lookup d "_adj" = some (.adj m)
  rv : ∃ m, lookup d "reverse_edge_list" = some (.rev m)
  nx : ∃ n, lookup d "next_edge_id" = some (.num n)
  ly : ∃ l, lookup d "existing_layers" = some (.layers l)

def tableNames : List String :=
  ["hypergraph_metadata", "node_metadata", "edge_metadata", "_weighted", "_weights", "_edge_list", "_adj",
   "reverse_edge_list", "next_edge_id", "existing_layers"]

/-! ## the hashing view when layer names are of several comparability classes -/

/-- some node set lives in two layers whose names cannot be compared -/
def layerClash (ty : Layer → Nat) (ks : List Key) : Bool :=
  ks.any (fun k => ks.any (fun k' => decide (k.1 = k'.1) && decide (ty k.2 ≠ ty k'.2)))

/-- `expose_attributes_for_hashing()` with layer names of classes `ty`; `none` = raises (`TypeError` out of `sorted`,
or the `KeyError` of `hashView`) -/
def hashViewT (ty : Layer → Nat) (s : Store) : Option HashView :=
  if layerClash ty (records s) then none else hashView s

/-- the class table as the driver receives it: position = layer rank, names beyond the table are class 0 -/
def tyOf (classes : List Nat) (l : Layer) : Nat := classes.getD l 0

end C04
