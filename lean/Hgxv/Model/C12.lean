/-! Model of `hypergraphx/measures/directed/{degree,hyperedge_signature,reciprocity}.py` (core Lean only).

A directed hypergraph is given by its list of distinct canonical hyperedges `(source, target)`
(what `DirectedHypergraph.get_edges()` returns) and its node list. -/
namespace C12

abbrev DEdge := List Nat × List Nat

def esize (e : DEdge) : Nat := e.1.length + e.2.length

/-- the order/size filter of `get_source_edges` / `get_target_edges` (`none` = no filter) -/
def passes (size : Option Nat) (e : DEdge) : Bool :=
  match size with
  | none => true
  | some k => esize e == k

/-- `in_degree` = `len(get_source_edges(node, size))` -/
def inDegree (es : List DEdge) (size : Option Nat) (n : Nat) : Nat :=
  (es.filter (fun e => e.1.contains n && passes size e)).length

/-- `out_degree` = `len(get_target_edges(node, size))` -/
def outDegree (es : List DEdge) (size : Option Nat) (n : Nat) : Nat :=
  (es.filter (fun e => e.2.contains n && passes size e)).length

def inDegreeSeq (nodes : List Nat) (es : List DEdge) (size : Option Nat) : List (Nat × Nat) :=
  nodes.map (fun n => (n, inDegree es size n))
def outDegreeSeq (nodes : List Nat) (es : List DEdge) (size : Option Nat) : List (Nat × Nat) :=
  nodes.map (fun n => (n, outDegree es size n))

/-- the hyperedges the reciprocity routines look at: `2 ≤ size ≤ max_hyperedge_size` -/
def bounded (m : Nat) (es : List DEdge) : List DEdge :=
  es.filter (fun e => 2 ≤ esize e && esize e ≤ m)

/-- `reciprocated_edge in edge_set` -/
def isExact (E : List DEdge) (e : DEdge) : Bool := E.contains (e.2, e.1)

/-- `node_reach[n]`: union of the targets of the hyperedges having `n` among their sources -/
def reach (E : List DEdge) (n : Nat) : List Nat :=
  (E.filter (fun f => f.1.contains n)).flatMap (·.2)

/-- `set(source).issubset(covered)` with `covered = ⋃_{t ∈ target} node_reach[t]` -/
def isStrong (E : List DEdge) (e : DEdge) : Bool :=
  e.1.all (fun s => e.2.any (fun t => (reach E t).contains s))

/-- some `(j, i) ∈ bin_edges` with `i ∈ source`, `j ∈ target` -/
def isWeak (E : List DEdge) (e : DEdge) : Bool :=
  e.1.any (fun i => e.2.any (fun j => E.any (fun f => f.1.contains j && f.2.contains i)))

def ofSize (k : Nat) (E : List DEdge) : List DEdge := E.filter (fun e => esize e == k)

/-- `tot[k]` -/
def total (E : List DEdge) (k : Nat) : Nat := (ofSize k E).length
/-- `rec[k]` before the division -/
def recCount (p : List DEdge → DEdge → Bool) (E : List DEdge) (k : Nat) : Nat :=
  ((ofSize k E).filter (p E)).length

/-- `rec[k] / tot[k]`, `0` when `tot[k] = 0` -/
def ratio (c t : Nat) : Rat := if t = 0 then 0 else (c : Rat) / (t : Rat)

def reciprocity (p : List DEdge → DEdge → Bool) (es : List DEdge) (m k : Nat) : Rat :=
  ratio (recCount p (bounded m es) k) (total (bounded m es) k)

/-- the table `{k : ratio}` for `k = 2..m` -/
def reciprocityTable (p : List DEdge → DEdge → Bool) (es : List DEdge) (m : Nat) : List (Nat × Rat) :=
  ((List.range (m + 1)).filter (2 ≤ ·)).map (fun k => (k, reciprocity p es m k))

/-- flat index of the cell of a hyperedge in the `(m-1) × (m-1)` signature matrix -/
def cellIndex (m : Nat) (e : DEdge) : Nat := (e.1.length - 1) * (m - 1) + (e.2.length - 1)

/-- `hyperedge_signature_vector(h, m)`: loop over `get_edges(size=m, up_to=True)` -/
def signature (es : List DEdge) (m : Nat) : List Nat :=
  let sel := es.filter (fun e => esize e ≤ m)
  (List.range ((m - 1) * (m - 1))).map (fun idx => (sel.filter (fun e => cellIndex m e == idx)).length)

end C12
