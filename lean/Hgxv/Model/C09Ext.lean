import Hgxv.Model.C09
/-! Model of the remaining routines of `hypergraphx/linalg/linalg.py` (second extension round) - core Lean only:
`annealed_adjacency_matrices_all_orders` (average of the per-time matrices of one order) and `adjacency_factor`
(for a `Hypergraph`). -/
namespace C09

/-- `{d : Option M}` -> `{d : M}`, `none` as soon as one value is `none` (the Python loop raises at that order) -/
def allSome {β : Type} : List (Nat × Option β) → Option (List (Nat × β))
  | [] => some []
  | (_, none) :: _ => none
  | (d, some M) :: rest => (allSome rest).map ((d, M) :: ·)

section
variable {α : Type} [Add α] [Mul α] [Sub α] [Zero α] [NatCast α] [DecidableEq α] [Div α]

/-- all matrices have as many rows as the first one (the per-time adjacency matrices are square: equal shapes;
scipy's `+` raises `ValueError: inconsistent shapes` otherwise) -/
def sameLen : List (List (List α)) → Bool
  | [] => true
  | M :: rest => rest.all fun M' => M'.length == M.length

/-- `M / T` for a scalar -/
def divScalar (M : List (List α)) (c : α) : List (List α) := M.map fun r => r.map fun x => x / c

/-- one iteration of the loop of `annealed_adjacency_matrices_all_orders`: `sum(A_d(t) for t) / T`, `T` the number of
times; `none` = raises (snapshots with different numbers of nodes: inconsistent shapes; no time at all: `0 / 0`). -/
def annealedOne (d : Nat) (recs : List (Rec α)) : Option (List (List α)) :=
  let Ms := (times recs).map (temporalAdjByOrder d recs)
  if sameLen Ms then (matSum Ms).map fun S => divScalar S ((Ms.length : Nat) : α) else none

/-- `annealed_adjacency_matrices_all_orders(th)` : `{d : average over the times of A_d(t)}` for `d = 1..max_order`;
`none` = raises (no record: `max_order()`; or inconsistent shapes at the first order). -/
def annealedAllOrders (recs : List (Rec α)) : Option (List (Nat × List (List α))) :=
  (temporalMaxOrder recs).bind fun m =>
    allSome (((List.range m).map (· + 1)).map fun d => (d, annealedOne d recs))

/-- `val ** t` for a natural exponent -/
def powN (x : α) : Nat → α
  | 0 => ((1 : Nat) : α)
  | n + 1 => powN x n * x

/-- entry with the defaults of a dense matrix -/
def entryD (M : List (List α)) (i j : Nat) : α := (M.getD i []).getD j 0

/-- `adjacency_factor(hypergraph, t)` for a `Hypergraph`: for every node `a` (in `get_nodes()` order) the sum over the
other nodes `b` with `A[a, b] != 0` of `A[a, b] ** t`, `A` the (unweighted) adjacency matrix read through the node mapping. -/
def adjFactor (t : Nat) (nodes : List Nat) (edges : List Edge) : List (Nat × α) :=
  let A : List (List α) := adj nodes edges
  let cls := classes nodes
  nodes.map fun a => (a, ((nodes.filter fun b => b != a).map fun b =>
    let v := entryD A (encode cls a) (encode cls b)
    if v = 0 then 0 else powN v t).sum)

/-- hyperedge list of the DUAL hypergraph in index form: one hyperedge per node (row `i` of the incidence matrix, i.e. the
`i`-th label of the encoder) holding the indices of the hyperedges that contain it -/
def dualHyes (nodes : List Nat) (edges : List Edge) : List (List Nat) :=
  (classes nodes).map fun a => (List.range edges.length).filter fun j => (edges.getD j []).contains a

/-- `hye_list_to_binary_incidence(dual hyperedges, shape=(E, N))` : the incidence matrix of the dual hypergraph -/
def dualInc (nodes : List Nat) (edges : List Edge) : Option (List (List α)) :=
  hyeBinInc (dualHyes nodes edges) (some (edges.length, nodes.length))

end
end C09
