import Hgxv.Model.C06
/-! # C06 — the text file as `save_hypergraph` writes it: framing of the record stream

`save_hypergraph(.json)` does not hand the record list to `json.dump`; it writes the array by hand:

    outfile.write("[\n"); first = True
    def write_item(item):
        if not first: outfile.write(",\n")
        json.dump(item, outfile, separators=(",", ":")); first = False
    ... one write_item per record ...
    outfile.write("\n]")

`json.load` then parses the array again.  The serialisation of ONE record (`json.dump` / the parser of
one value) stays trusted; what is modelled here is the framing: which pieces reach the file in which
order, and which piece sequences the top-level array grammar accepts.  A record count is nowhere in
the definitions: the statements hold for every number of records.  Core Lean only. -/
namespace C06

/-- what reaches the file: `[`, `,`, one serialised record, `]` (white space is not a piece) -/
inductive Piece (α : Type) where
  | opn
  | sep
  | item (r : α)
  | cls
deriving DecidableEq, Repr

/-- the writer's state: the `first` flag and everything written so far -/
structure Writer (α : Type) where
  first : Bool
  out : List (Piece α)

/-- `outfile.write("[\n"); first = True` -/
def Writer.start {α : Type} : Writer α := { first := true, out := [.opn] }

/-- the comma branch of `write_item` -/
def Writer.comma {α : Type} (w : Writer α) : List (Piece α) := if w.first then [] else [.sep]

/-- `write_item(item)` -/
def Writer.writeItem {α : Type} (w : Writer α) (r : α) : Writer α :=
  { first := false, out := w.out ++ w.comma ++ [.item r] }

/-- `outfile.write("\n]")` -/
def Writer.finish {α : Type} (w : Writer α) : List (Piece α) := w.out ++ [.cls]

/-- the whole file for the record list `rs` -/
def writeText {α : Type} (rs : List α) : List (Piece α) :=
  (rs.foldl Writer.writeItem Writer.start).finish

/-- the array grammar after an item: `]` or `,` item ... -/
def readTail {α : Type} : List (Piece α) → Option (List α)
  | [.cls] => some []
  | .sep :: .item r :: rest => (readTail rest).map (r :: ·)
  | _ => none

/-- the top-level array grammar of `json.load`: `[` `]`, or `[` item (`,` item)* `]`, nothing after it -/
def readText {α : Type} : List (Piece α) → Option (List α)
  | [.opn, .cls] => some []
  | .opn :: .item r :: rest => (readTail rest).map (r :: ·)
  | _ => none

/-- the separators-in-between layout the file is meant to have -/
def framed {α : Type} (rs : List α) : List (Piece α) :=
  .opn :: ((rs.map Piece.item).intersperse .sep ++ [.cls])

/-- save to / load from the text file, for each container type -/
def saveText {κ : Type} [DecidableEq κ] [Kind κ] (c : Content κ) : List (Piece Record) := writeText (save c)
def loadText {κ : Type} [DecidableEq κ] [Kind κ] (ps : List (Piece Record)) : Option (Content κ) :=
  (readText ps).bind load
def saveTextAny (a : AnyContent) : List (Piece Record) := writeText (saveAny a)
def loadTextAny (ps : List (Piece Record)) : Option AnyContent := (readText ps).bind loadAny

/-! ## the buffered variant (seeded change C06-c2), kept as a defect witness

Records are collected in a buffer; once `n` of them are buffered (and once more at the end) the buffer is
written as `",\n".join(chunk)`.  Nothing is written BETWEEN two flushes. -/
structure BufWriter (α : Type) where
  chunk : List α
  out : List (Piece α)

def BufWriter.flush {α : Type} (w : BufWriter α) : BufWriter α :=
  { chunk := [], out := w.out ++ (w.chunk.map Piece.item).intersperse .sep }

def BufWriter.writeItem {α : Type} (n : Nat) (w : BufWriter α) (r : α) : BufWriter α :=
  let w' : BufWriter α := { w with chunk := w.chunk ++ [r] }
  if w'.chunk.length ≥ n then w'.flush else w'

def writeBuffered {α : Type} (n : Nat) (rs : List α) : List (Piece α) :=
  (rs.foldl (BufWriter.writeItem n) { chunk := [], out := [.opn] }).flush.out ++ [.cls]

end C06
