import Hgxv.Model.C13
/-! # C13, extension round — entry point, returned object, draw accounting (core Lean only)

What `Model/C13.lean` left outside:

* the argument handling of the public entry point `configuration_model(hypergraph, n_steps, label, order, size, ...)`:
  `order` AND `size` given → `ValueError` before anything is read or drawn; `order=o` means `size=o+1`
  (`cmCall`);
* the NODE SET of the returned object: `new_h = Hypergraph(); new_h.add_edges(...)` registers exactly the nodes
  that occur in a returned hyperedge (isolated nodes of the input are not carried over, also not by the
  `size=` variant although its restriction keeps them) – `nodesOf`, `dnodesOf`;
* the accounting of the random draws: how many calls of `np.random.randint` (proposals: accepted + rejected by
  the `while len(f1) != len(f2)` loop), how many calls of `np.random.rand` (coins of the dealing loop) a run
  makes and that nothing is drawn beyond them (`cmReport`); directed: how many draws the two swap loops consume
  (`2` for an iteration with `id1 == id2`, `4` otherwise) (`dcmReport`).

The reports are computed from the SAME functions `chain` / `swapLoop` of `Model/C13.lean` (no second
implementation): `Props/C13.lean` proves that their `edges` component is the old model's answer. -/
namespace C13

/-! ## the entry point `configuration_model(..., order=, size=)` -/

/-- `if order is not None and size is not None: raise ValueError`; `if size is None: size = order + 1` -/
def resolveSize (order size : Option Nat) : Except Err (Option Nat) :=
  match order, size with
  | some _, some _ => .error .raise
  | none, none => .ok none
  | none, some s => .ok (some s)
  | some o, none => .ok (some (o + 1))

/-- `configuration_model(hypergraph, n_steps, label, order, size, n_clash, detailed)` -/
def cmCall (label : Label) (detailed : Bool) (order size : Option Nat) (nSteps : Nat)
    (es : List Edge) (ds : List Draw) : Except Err (List Edge) :=
  match resolveSize order size with
  | .error e => .error e
  | .ok sz => configurationModel label detailed sz nSteps es ds

/-! ## the node set of the returned object -/

/-- `Hypergraph.get_nodes()` of the returned object: the nodes that `add_edges` / `add_edge` registered,
i.e. the nodes occurring in a returned hyperedge (as the sorted duplicate-free list) -/
def nodesOf (out : List Edge) : List Nat := sortNodes (dedup (stubs out))

/-- `DirectedHypergraph(edge_list=final_hyperedges).get_nodes()` -/
def dnodesOf (out : List DEdge) : List Nat := sortNodes (dedup (srcStubs out ++ tgtStubs out))

/-! ## accounting of the draws -/

def isIdx : Draw → Bool
  | .idx _ _ => true
  | .coin _ => false

def isCoin : Draw → Bool
  | .coin _ => true
  | .idx _ _ => false

/-- the draws a run consumed, given the draws it was handed and the draws it left over -/
def usedOf {α} (ds ds' : List α) : List α := ds.take (ds.length - ds'.length)

/-- the largest hyperedge size of a listing (bounds the coins of one reshuffle) -/
def maxSize (es : List Edge) : Nat := (sizes es).foldr max 0

structure Report where
  /-- the listing of the returned hypergraph (what `configurationModel` answers) -/
  edges : List Edge
  /-- its node set -/
  nodes : List Nat
  /-- number of calls `np.random.randint(0, m, 2)` -/
  idx : Nat
  /-- number of calls `np.random.rand()` -/
  coins : Nat
  /-- draws of the list that the run did not consume -/
  left : Nat
deriving Repr, DecidableEq

/-- the hyperedges that take part in the chain: all, or those of the requested size -/
def selected (size : Option Nat) (es : List Edge) : List Edge :=
  match size with
  | none => es
  | some s => es.filter (fun e => e.length == s)

/-- the hyperedges of the other sizes, re-added one by one with `add_edge` after the run -/
def readd (size : Option Nat) (es out0 : List Edge) : List Edge :=
  match size with
  | none => out0
  | some s => (es.filter (fun e => e.length != s)).foldl addEdge out0

/-- the whole call with its accounting: same chain, same merging, same re-adding as `cmCall` -/
def cmReport (_label : Label) (detailed : Bool) (order size : Option Nat) (nSteps : Nat)
    (es : List Edge) (ds : List Draw) : Except Err Report :=
  match resolveSize order size with
  | .error e => .error e
  | .ok sz =>
    match chain detailed nSteps (selected sz es) ds with
    | .error e => .error e
    | .ok (es', ds') =>
      let out := readd sz es (dedup (es'.map sortNodes))
      .ok { edges := out, nodes := nodesOf out,
            idx := (usedOf ds ds').countP isIdx, coins := (usedOf ds ds').countP isCoin,
            left := ds'.length }

structure DReport where
  edges : List DEdge
  nodes : List Nat
  /-- draws consumed by the loop over the source sets / over the target sets -/
  usedSrc : Nat
  usedTgt : Nat
  left : Nat
deriving Repr, DecidableEq

def dcmReport (es : List DEdge) (ds : List Nat) : Except Err DReport :=
  match swapLoop false (es.length * 10) es ds with
  | .error e => .error e
  | .ok (es1, ds1) =>
    match swapLoop true (es.length * 10) es1 ds1 with
    | .error e => .error e
    | .ok (es2, ds2) =>
      let out := dedup (es2.map sortSides)
      .ok { edges := out, nodes := dnodesOf out,
            usedSrc := ds.length - ds1.length, usedTgt := ds1.length - ds2.length, left := ds2.length }

end C13
