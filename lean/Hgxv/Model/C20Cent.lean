import Hgxv.Model.C20
/-! Instantiations of the parameter `cent` used by the C20 driver (core Lean only). The parametric theorems hold for
every `cent`; since the extension round `closeness` and `betweenness` are also the SUBJECT of theorems
(`Proofs/C20Cent*.lean`, `C20_dist_spec` ... `C20_nx_relabel` in `Props/C20.lean`):

* `stubCent`     an arbitrary, vertex- and graph-dependent value; the harness installs the same function in
                 place of the networkx routines, so the glue is compared exactly;
* `closeness`    `nx.closeness_centrality(G)` (`wf_improved=True`) in exact rationals;
* `betweenness`  `nx.betweenness_centrality(G)` (normalised, no endpoints) in exact rationals.

Shortest paths are obtained from walk counts: `w_0 = 1_s`, `w_{k+1}(v) = Σ_{u ~ v} w_k(u)`; the distance of `v`
is the first `k < |V|` with `w_k(v) > 0` and that `w_k(v)` is the number of shortest paths. -/
namespace C20
variable {V : Type} [DecidableEq V]

def adjacent (g : Graph V) (u v : V) : Bool :=
  g.edges.any fun e => (e.1 = u ∧ e.2 = v) ∨ (e.1 = v ∧ e.2 = u)

def nbrs (g : Graph V) (v : V) : List V := g.verts.filter fun u => u ≠ v ∧ adjacent g u v

def degree (g : Graph V) (v : V) : Nat := (nbrs g v).length

/-- an arbitrary deterministic "centrality": depends on the vertex' position, its degree and the number of edges -/
def stubCent (g : Graph V) (v : V) : Rat :=
  (((3 * degree g v + 7 * g.verts.idxOf v + 11 * g.edges.length + 5) % 64 : Nat) : Rat) / 8

/-- one more step of the walk counts (a vector aligned with `g.verts`) -/
def walkStep (g : Graph V) (w : List (V × Nat)) : List (V × Nat) :=
  g.verts.map fun v => (v, ((nbrs g v).map fun u => (AL.get? w u).getD 0).sum)

def walkLevels (g : Graph V) (s : V) : Nat → List (V × Nat) → List (List (V × Nat))
  | 0, _ => []
  | k + 1, w => w :: walkLevels g s k (walkStep g w)

/-- `[w_0, …, w_{|V|-1}]` from source `s` -/
def levels (g : Graph V) (s : V) : List (List (V × Nat)) :=
  walkLevels g s g.verts.length (g.verts.map fun v => (v, if v = s then 1 else 0))

/-- `(distance, number of shortest paths)` from the source of `lv` to `v`; `none` = unreachable -/
def distSigma (lv : List (List (V × Nat))) (v : V) : Option (Nat × Nat) :=
  ((List.range lv.length).zip lv).findSome? fun p =>
    let c := (AL.get? p.2 v).getD 0
    if 0 < c then some (p.1, c) else none

/-- `nx.closeness_centrality(g)[v]` -/
def closeness (g : Graph V) (v : V) : Rat :=
  let lv := levels g v
  let ds := g.verts.filterMap fun u => distSigma lv u
  let tot := (ds.map (·.1)).sum
  let r := ds.length - 1
  let n := g.verts.length
  if 0 < tot ∧ 1 < n then ((r : Rat) / (tot : Rat)) * ((r : Rat) / ((n - 1 : Nat) : Rat)) else 0

/-- pair dependency of `v` for the ordered pair `(s, t)` -/
def pairDep (ls lvv : List (List (V × Nat))) (v t : V) : Rat :=
  match distSigma ls t, distSigma ls v, distSigma lvv t with
  | some (dst, sst), some (dsv, ssv), some (dvt, svt) =>
    if dsv + dvt = dst then ((ssv * svt : Nat) : Rat) / (sst : Rat) else 0
  | _, _, _ => 0

/-- `nx.betweenness_centrality(g)[v]` -/
def betweenness (g : Graph V) (v : V) : Rat :=
  let lvv := levels g v
  let others := g.verts.filter (· ≠ v)
  let raw := (others.map fun s =>
    let ls := levels g s
    ((others.filter (· ≠ s)).map fun t => pairDep ls lvv v t).sum).sum
  let n := g.verts.length
  if 3 ≤ n then raw / (((n - 1) * (n - 2) : Nat) : Rat) else raw

end C20
