import Hgxv.Model.AList
import Hgxv.Model.Wire
/-! # C06 — content-level model of `hypergraphx/readwrite/save.py`, `load.py` (json / hgx / hgr)

A *content* is what the public API of a container shows: insertion-ordered nodes with their metadata
(isolated ones included), insertion-ordered keys ↦ (weight, metadata), the weighted flag and the
hypergraph metadata.  Keys: node set (`HKey`), (sources, targets) (`DKey`), (time, nodes) (`TKey`),
(nodes, layer) (`MKey`).  Node labels / layer names are `Nat` ranks, weights are `Int` counts of the
quantum 1/4 (`unit = 4` is the weight 1), metadata are insertion-ordered association lists.

`save`/`load` are written after `save_hypergraph` / `load_hypergraph` **as repaired** (D20: reserved
keys go into a copy; D21: the header record carries the weighted flag and the saved hypergraph
metadata is restored after construction).  `load` goes through `addNode` / `addEdge`, the model of the
classes' `add_node` / `add_edge`, as the code goes through its public API. Core Lean only. -/
namespace C06

/-! ## metadata -/

inductive Key where
  | weight | time | layer
  | user (n : Nat)
deriving DecidableEq, Repr

/-- metadata values: an opaque JSON value (pool token), or what `save` writes under a reserved key -/
inductive Val where
  | tok (n : Nat)
  | wq (q : Int)      -- a weight, in quanta
  | tm (t : Nat)      -- a time
  | lay (l : Nat)     -- a layer name
deriving DecidableEq, Repr

abbrev Meta := List (Key × Val)

def isReserved : Key → Bool
  | .weight => true | .time => true | .layer => true
  | .user _ => false

/-- erase the reserved keys `weight`, `time`, `layer` (the property compares hyperedge metadata modulo these) -/
def eraseReserved (m : Meta) : Meta := m.filter (fun p => !isReserved p.1)

/-! ## keys of the four container types -/

inductive HType where
  | H | D | T | M
deriving DecidableEq, Repr

def HType.index : HType → Nat
  | .H => 0 | .D => 1 | .T => 2 | .M => 3

structure HKey where
  nodes : List Nat
deriving DecidableEq, Repr

structure DKey where
  src : List Nat
  tgt : List Nat
deriving DecidableEq, Repr

structure TKey where
  time : Nat
  nodes : List Nat
deriving DecidableEq, Repr

structure MKey where
  nodes : List Nat
  layer : Nat
deriving DecidableEq, Repr

/-- the JSON value written under `"interaction"` -/
inductive Inter where
  | flat (ns : List Nat)
  | pair (s t : List Nat)
deriving DecidableEq, Repr

/-- Python `sorted` on node labels -/
def sort (l : List Nat) : List Nat := Wire.sortNats l

/-- what the model needs to know about a key type -/
class Kind (κ : Type) where
  ty : HType
  /-- `tuple(sorted(edge))` / `_canon_edge` -/
  canon : κ → κ
  /-- nodes of the hyperedge, in the order `add_edge` touches them -/
  members : κ → List Nat
  /-- `add_edge` calls `add_node` for the members also when the key already exists (temporal, multiplex) -/
  touchAlways : Bool
  /-- the `"interaction"` value `save` writes -/
  inter : κ → Inter
  /-- the reserved keys `save` writes into (a copy of) the metadata, in the code's order -/
  decorate : Bool → Int → κ → Meta → Meta
  /-- what `load` reads back from an edge record (not yet canonicalised); `none` = the call raises -/
  readKey : Inter → Meta → Option κ

def setWeight (wtd : Bool) (w : Int) (m : Meta) : Meta :=
  if wtd then AL.set m Key.weight (Val.wq w) else m

instance : Kind HKey where
  ty := .H
  canon k := ⟨sort k.nodes⟩
  members k := k.nodes
  touchAlways := false
  inter k := .flat k.nodes
  decorate wtd w _ m := setWeight wtd w m
  readKey i _ := match i with
    | .flat ns => some ⟨ns⟩
    | .pair _ _ => none

instance : Kind DKey where
  ty := .D
  canon k := ⟨sort k.src, sort k.tgt⟩
  members k := k.src ++ k.tgt
  touchAlways := false
  inter k := .pair k.src k.tgt
  decorate wtd w _ m := setWeight wtd w m
  readKey i _ := match i with
    | .pair s t => some ⟨s, t⟩
    | .flat _ => none

instance : Kind TKey where
  ty := .T
  canon k := ⟨k.time, sort k.nodes⟩
  members k := k.nodes
  touchAlways := true
  inter k := .flat k.nodes
  -- save.py: weight first, then time
  decorate wtd w k m := AL.set (setWeight wtd w m) Key.time (Val.tm k.time)
  readKey i m := match i, AL.get? m Key.time with
    | .flat ns, some (.tm t) => some ⟨t, ns⟩
    | _, _ => none

instance : Kind MKey where
  ty := .M
  canon k := ⟨sort k.nodes, k.layer⟩
  members k := k.nodes
  touchAlways := true
  inter k := .flat k.nodes
  -- save.py: layer first, then weight
  decorate wtd w k m := setWeight wtd w (AL.set m Key.layer (Val.lay k.layer))
  readKey i m := match i, AL.get? m Key.layer with
    | .flat ns, some (.lay l) => some ⟨ns, l⟩
    | _, _ => none

/-! ## contents and the classes' `add_node` / `add_edge` -/

/-- the weight 1 in quanta of 1/4 -/
def unit : Int := 4

structure Content (κ : Type) where
  weighted : Bool
  hmeta : Meta
  nodes : List (Nat × Meta)
  edges : List (κ × (Int × Meta))
deriving Repr

section ops
variable {κ : Type} [DecidableEq κ] [Kind κ]

/-- the constructor: empty tables, hypergraph metadata `{"weighted": w, "type": <class name>}`
    (key tokens 0, 1; value tokens 0/1 = False/True, 2.. = the class names) -/
def construct (κ : Type) [Kind κ] (w : Bool) : Content κ :=
  { weighted := w
    hmeta := [(Key.user 0, Val.tok (if w then 1 else 0)), (Key.user 1, Val.tok (2 + (Kind.ty κ).index))]
    nodes := [], edges := [] }

def setHMeta (c : Content κ) (hm : Meta) : Content κ := { c with hmeta := hm }

/-- `add_node(node, metadata)` on the node table: a new node gets `metadata`; an existing node only
    when its metadata is still `{}` -/
def touchNode (ns : List (Nat × Meta)) (n : Nat) (m : Meta) : List (Nat × Meta) :=
  match AL.get? ns n with
  | none => ns ++ [(n, m)]
  | some old => if old = [] then AL.set ns n m else ns

def metaOrEmpty : Option Meta → Meta
  | none => []
  | some m => m

def addNode (c : Content κ) (n : Nat) (m : Option Meta) : Content κ :=
  { c with nodes := touchNode c.nodes n (metaOrEmpty m) }

def touchAll (ns : List (Nat × Meta)) (l : List Nat) : List (Nat × Meta) :=
  l.foldl (fun acc n => touchNode acc n []) ns

/-- `weight is not None and weight != 1` on an unweighted object raises -/
def rejectsWeight (wtd : Bool) : Option Int → Bool
  | none => false
  | some q => !wtd && q != unit

def weightOrUnit : Option Int → Int
  | none => unit
  | some q => q

/-- a new key: weight (1 when unweighted), metadata; its nodes are touched -/
def addEdgeNew (c : Content κ) (k : κ) (w : Int) (md : Meta) : Content κ :=
  { c with edges := c.edges ++ [(k, ((if c.weighted then w else unit), md))]
           nodes := touchAll c.nodes (Kind.members k) }

/-- an existing key: weights add up when weighted, the metadata is replaced -/
def addEdgeOld (c : Content κ) (k : κ) (w0 : Int) (w : Int) (md : Meta) : Content κ :=
  { c with edges := AL.set c.edges k ((if c.weighted then w0 + w else w0), md)
           nodes := if Kind.touchAlways κ then touchAll c.nodes (Kind.members k) else c.nodes }

/-- `add_edge(edge, [time | layer], weight, metadata)`; `none` = the call raises (nothing changed) -/
def addEdge (c : Content κ) (raw : κ) (w : Option Int) (m : Option Meta) : Option (Content κ) :=
  if rejectsWeight c.weighted w then none
  else
    let k := Kind.canon raw
    match AL.get? c.edges k with
    | none => some (addEdgeNew c k (weightOrUnit w) (metaOrEmpty m))
    | some old => some (addEdgeOld c k old.1 (weightOrUnit w) (metaOrEmpty m))

end ops

/-! ## the JSON record stream -/

inductive Record where
  | header (ty : HType) (weighted : Bool) (hmeta : Meta)
  | node (idx : Nat) (md : Meta)
  | edge (inter : Inter) (md : Meta)
deriving DecidableEq, Repr

section json
variable {κ : Type} [DecidableEq κ] [Kind κ]

def saveNode (p : Nat × Meta) : Record := .node p.1 p.2

def saveEdge (wtd : Bool) (e : κ × (Int × Meta)) : Record :=
  .edge (Kind.inter e.1) (Kind.decorate wtd e.2.1 e.1 e.2.2)

/-- `save_hypergraph(h, file, binary=False)`: header, node records, edge records -/
def save (c : Content κ) : List Record :=
  .header (Kind.ty κ) c.weighted c.hmeta :: (c.nodes.map saveNode ++ c.edges.map (saveEdge c.weighted))

/-- `save_hypergraph` as a run on the live object: one iteration of the edge loop returns the live
    entry after the iteration and the record written.  `copy = true` is the code (`metadata =
    dict(metadata)` before the reserved keys are written, D20 repaired); `copy = false` is the
    unrepaired code, which wrote into the dict `get_edges(metadata=True)` hands out. -/
def saveEdgeRun (copy : Bool) (wtd : Bool) (e : κ × (Int × Meta)) : (κ × (Int × Meta)) × Record :=
  let written := Kind.decorate wtd e.2.1 e.1 e.2.2
  ((e.1, (e.2.1, if copy then e.2.2 else written)), .edge (Kind.inter e.1) written)

/-- the saved object after the call, and the records written -/
def saveRun (copy : Bool) (c : Content κ) : Content κ × List Record :=
  ({ c with edges := c.edges.map (fun e => (saveEdgeRun copy c.weighted e).1) },
   .header (Kind.ty κ) c.weighted c.hmeta ::
     (c.nodes.map saveNode ++ c.edges.map (fun e => (saveEdgeRun copy c.weighted e).2)))

/-- the scan of `load_hypergraph`: the last header record wins -/
def lastHeader : List Record → Option (HType × Bool × Meta) → Option (HType × Bool × Meta)
  | [], acc => acc
  | .header t w hm :: rs, _ => lastHeader rs (some (t, w, hm))
  | _ :: rs, acc => lastHeader rs acc

def nodeRecs : List Record → List (Nat × Meta)
  | [] => []
  | .node i m :: rs => (i, m) :: nodeRecs rs
  | _ :: rs => nodeRecs rs

def edgeRecs : List Record → List (Inter × Meta)
  | [] => []
  | .edge i m :: rs => (i, m) :: edgeRecs rs
  | _ :: rs => edgeRecs rs

/-- `edge["metadata"].get("weight", None) if weighted else None`; outer `none` = not a number -/
def readWeight (wtd : Bool) (m : Meta) : Option (Option Int) :=
  if wtd then
    match AL.get? m Key.weight with
    | none => some none
    | some (.wq q) => some (some q)
    | some _ => none
  else some none

/-- one edge record through `add_edge`; the record's whole metadata dict becomes the hyperedge's -/
def loadEdge (c : Content κ) (r : Inter × Meta) : Option (Content κ) :=
  match Kind.readKey (κ := κ) r.1 r.2, readWeight c.weighted r.2 with
  | some k, some w => addEdge c k w (some r.2)
  | _, _ => none

def loadEdges (c : Content κ) : List (Inter × Meta) → Option (Content κ)
  | [] => some c
  | r :: rs =>
    match loadEdge c r with
    | none => none
    | some c' => loadEdges c' rs

def loadNodes (c : Content κ) (l : List (Nat × Meta)) : Content κ :=
  l.foldl (fun acc p => addNode acc p.1 (some p.2)) c

/-- `load_hypergraph(file.json)` for the class of key type `κ`; `none` = raises / returns nothing -/
def load (rs : List Record) : Option (Content κ) :=
  match lastHeader rs none with
  | none => none
  | some (t, w, hm) =>
    if t = Kind.ty κ then
      loadEdges (loadNodes (setHMeta (construct κ w) hm) (nodeRecs rs)) (edgeRecs rs)
    else none

end json

/-- the four classes behind one loader (type dispatch on the header) -/
inductive AnyContent where
  | H (c : Content HKey)
  | D (c : Content DKey)
  | T (c : Content TKey)
  | M (c : Content MKey)

def saveAny : AnyContent → List Record
  | .H c => save c
  | .D c => save c
  | .T c => save c
  | .M c => save c

def loadAny (rs : List Record) : Option AnyContent :=
  match lastHeader rs none with
  | none => none
  | some (.H, _, _) => (load (κ := HKey) rs).map .H
  | some (.D, _, _) => (load (κ := DKey) rs).map .D
  | some (.T, _, _) => (load (κ := TKey) rs).map .T
  | some (.M, _, _) => (load (κ := MKey) rs).map .M

/-- erase the reserved keys from every hyperedge's metadata -/
def Content.erased {κ : Type} (c : Content κ) : Content κ :=
  { c with edges := c.edges.map (fun e => (e.1, (e.2.1, eraseReserved e.2.2))) }

def AnyContent.erased : AnyContent → AnyContent
  | .H c => .H c.erased
  | .D c => .D c.erased
  | .T c => .T c.erased
  | .M c => .M c.erased

/-! ## well-formed contents: what every object built through the public API satisfies -/

section wf
variable {κ : Type} [DecidableEq κ] [Kind κ]

def WF (c : Content κ) : Prop :=
  (AL.keys c.nodes).Nodup ∧ (AL.keys c.edges).Nodup ∧
  (∀ e ∈ c.edges, Kind.canon e.1 = e.1) ∧
  (∀ e ∈ c.edges, ∀ n ∈ Kind.members e.1, n ∈ AL.keys c.nodes) ∧
  (c.weighted = false → ∀ e ∈ c.edges, e.2.1 = unit)

instance (c : Content κ) : Decidable (WF c) := by unfold WF; infer_instance

end wf

/-! ## the binary path: `expose_data_structures` → pickle → `populate_from_dict` -/

/-- everything an object holds: the content, the multiplex layer registry, and the two tables only the
    HIF reader fills (incidence metadata, empty edges; record tokens) -/
structure Full (κ : Type) where
  c : Content κ
  layers : List Nat
  incidences : List ((κ × Nat) × Nat)
  emptyEdges : List (Nat × Nat)

/-- the pickled dict (one field per table the four `expose_data_structures` list) -/
structure Snapshot (κ : Type) where
  ty : HType
  weighted : Bool
  hmeta : Meta
  nodes : List (Nat × Meta)
  edges : List (κ × (Int × Meta))
  layers : List Nat

def expose {κ : Type} [Kind κ] (s : Full κ) : Snapshot κ :=
  { ty := Kind.ty κ, weighted := s.c.weighted, hmeta := s.c.hmeta, nodes := s.c.nodes, edges := s.c.edges,
    layers := s.layers }

/-- `populate_from_dict`: a field-by-field copy; the tables the dict does not carry are empty -/
def populate {κ : Type} (d : Snapshot κ) : Full κ :=
  { c := { weighted := d.weighted, hmeta := d.hmeta, nodes := d.nodes, edges := d.edges },
    layers := d.layers, incidences := [], emptyEdges := [] }

/-- `_load_pickle`: dispatch on `data["type"]`, construct, populate -/
def loadPickle {κ : Type} [Kind κ] (d : Snapshot κ) : Option (Full κ) :=
  if d.ty = Kind.ty κ then some (populate d) else none

/-! ## hMETIS (.hgr) reader -/

/-- a line after `strip`: blank / `%` comment, or its blank-separated integer tokens -/
inductive Line where
  | skip
  | toks (l : List Nat)
deriving DecidableEq, Repr

structure HgrSt where
  edges : Nat := 0
  nodes : Nat := 0
  mode : Nat := 0
  ws : List Nat := []
  es : List (List Nat) := []
  readCount : Nat := 0
  readNode : Nat := 0
deriving Repr

def hgrWeighted (mode : Nat) : Bool := mode % 10 == 1

/-- header `E N [mode]` (the mode is read only when there are exactly three tokens) -/
def hgrHeader (s : HgrSt) : List Nat → Option HgrSt
  | e :: n :: rest =>
    some { s with edges := e, nodes := n, mode := match rest with
                                                    | [m] => m
                                                    | _ => s.mode }
  | _ => none

def hgrEdgeLine (s : HgrSt) (l : List Nat) : Option HgrSt :=
  if hgrWeighted s.mode then
    match l with
    | w :: a :: rest => some { s with readCount := s.readCount + 1, ws := s.ws ++ [w], es := s.es ++ [a :: rest] }
    | _ => none
  else
    match l with
    | a :: rest => some { s with readCount := s.readCount + 1, es := s.es ++ [a :: rest] }
    | [] => none

def hgrStep (s : HgrSt) : Line → Option HgrSt
  | .skip => some s
  | .toks l =>
    if s.nodes = 0 then hgrHeader s l
    else if s.readCount < s.edges then hgrEdgeLine s l
    else if s.readNode < s.nodes then some { s with readNode := s.readNode + 1 }
    else none

def hgrScan (s : HgrSt) : List Line → Option HgrSt
  | [] => some s
  | l :: ls =>
    match hgrStep s l with
    | none => none
    | some s' => hgrScan s' ls

/-- `add_edges(edge_list, weights)` of `Hypergraph`, metadata `None` -/
def addEdgesH (c : Content HKey) : List (List Nat × Option Int) → Option (Content HKey)
  | [] => some c
  | (e, w) :: rest =>
    match addEdge c ⟨e⟩ w none with
    | none => none
    | some c' => addEdgesH c' rest

/-- `Hypergraph(edge_list=es, weighted=wtd, weights=ws if wtd else None)` -/
def buildHgr (wtd : Bool) (ws : List Nat) (es : List (List Nat)) : Option (Content HKey) :=
  if wtd then
    if es.length ≠ ws.length then none            -- cannot happen after `hgrScan`; the constructor checks it
    else if decide es.Nodup then addEdgesH (construct HKey true) (es.zip (ws.map (fun (w : Nat) => some (unit * (w : Int)))))
    else none                                       -- "the edge list must not contain repeated edges"
  else addEdgesH (construct HKey false) (es.map (fun e => (e, none)))

def parseHgr (ls : List Line) : Option (Content HKey) :=
  match hgrScan {} ls with
  | none => none
  | some s => buildHgr (hgrWeighted s.mode) s.ws s.es

end C06
