/-! # C06 — STRING CONTENT in the text format: the string-literal layer of `json.dump` / `json.load`

`save_hypergraph(.json)` calls `json.dump(item, outfile, separators=(",", ":"))`, i.e. with the default
`ensure_ascii=True`, into a file opened in text mode with the LOCALE encoding; `load_hypergraph` reads the file
with the locale encoding and `json.load`.  Every node label, layer name, metadata key and string value reaches
the file as a JSON string literal.  This module models that layer on code points (a Python `str` is a list of
code points `< 0x110000`, lone surrogates allowed):

* `encChar` / `encode` — `json.encoder.py_encode_basestring_ascii` (`ESCAPE_ASCII`, `ESCAPE_DCT`): two-character
  escapes for `"` `\` BS FF LF CR TAB, printable ASCII as it is, every other BMP code point `\uXXXX`, an astral
  code point as the `\uXXXX\uXXXX` surrogate pair;
* `decBody` / `decode` — `json.decoder.scanstring` (strict): a `\uXXXX` that is a HIGH surrogate and is followed by a
  `\uXXXX` that is a LOW surrogate is read as ONE astral code point;
* `encCharRaw` — the `ensure_ascii=False` variant (`ESCAPE`): only `"` `\` and C0 controls are escaped, everything
  else is handed to the file's encoder as it is (seeded change C06-e3).

Core Lean only. -/
namespace C06
namespace Str

/-- lower-case hexadecimal digit (`'{0:04x}'.format`) as a character code -/
def hexDigit (d : Nat) : Nat := if d < 10 then 48 + d else 87 + d

/-- value of a hexadecimal digit (`int(esc, 16)` accepts both cases) -/
def hexVal? (c : Nat) : Option Nat :=
  if 48 ≤ c ∧ c ≤ 57 then some (c - 48)
  else if 97 ≤ c ∧ c ≤ 102 then some (c - 87)
  else if 65 ≤ c ∧ c ≤ 70 then some (c - 55)
  else none

def hex4? (a b c d : Nat) : Option Nat :=
  match hexVal? a, hexVal? b, hexVal? c, hexVal? d with
  | some a, some b, some c, some d => some (4096 * a + 256 * b + 16 * c + d)
  | _, _, _, _ => none

/-- `\uXXXX` -/
def esc4 (u : Nat) : List Nat :=
  [92, 117, hexDigit (u / 4096 % 16), hexDigit (u / 256 % 16), hexDigit (u / 16 % 16), hexDigit (u % 16)]

def isHigh (u : Nat) : Bool := 55296 ≤ u && u ≤ 56319
def isLow (u : Nat) : Bool := 56320 ≤ u && u ≤ 57343

/-- `ESCAPE_DCT`: the two-character escapes (second character) -/
def short? (c : Nat) : Option Nat :=
  if c = 34 then some 34 else if c = 92 then some 92 else if c = 10 then some 110 else if c = 13 then some 114
  else if c = 9 then some 116 else if c = 8 then some 98 else if c = 12 then some 102 else none

/-- one code point under `ensure_ascii=True` (what `save_hypergraph` uses) -/
def encChar (c : Nat) : List Nat :=
  match short? c with
  | some e => [92, e]
  | none =>
    if 32 ≤ c ∧ c ≤ 126 then [c]
    else if c < 65536 then esc4 c
    else esc4 (55296 + (c - 65536) / 1024) ++ esc4 (56320 + (c - 65536) % 1024)

def encBody (s : List Nat) : List Nat := s.flatMap encChar

/-- the string literal of `s` -/
def encode (s : List Nat) : List Nat := 34 :: (encBody s ++ [34])

/-- one code point under `ensure_ascii=False`: `"` `\` and the C0 controls are escaped, all else is written raw -/
def encCharRaw (c : Nat) : List Nat :=
  match short? c with
  | some e => [92, e]
  | none => if c < 32 then esc4 c else [c]

def encodeRaw (s : List Nat) : List Nat := 34 :: (s.flatMap encCharRaw ++ [34])

/-- `BACKSLASH`: the characters after `\` the reader accepts (other than `u`) -/
def unshort? (e : Nat) : Option Nat :=
  if e = 34 then some 34 else if e = 92 then some 92 else if e = 47 then some 47 else if e = 98 then some 8
  else if e = 102 then some 12 else if e = 110 then some 10 else if e = 114 then some 13 else if e = 116 then some 9
  else none

/-- a `\uXXXX` escape at the head of the text -/
def uEsc? : List Nat → Option Nat
  | x :: y :: a :: b :: c :: d :: _ => if x = 92 ∧ y = 117 then hex4? a b c d else none
  | _ => none

/-- `scanstring` after the opening quote (strict: no raw control characters); the literal must end the text -/
def decBody (l : List Nat) : Option (List Nat) :=
  match l with
  | [] => none
  | c :: rest =>
    if c = 34 then (if rest = [] then some [] else none)
    else if c = 92 then
      match rest with
      | [] => none
      | e :: rest1 =>
        if e = 117 then
          match uEsc? (c :: e :: rest1) with
          | none => none
          | some u =>
            if isHigh u then
              match uEsc? (rest1.drop 4) with
              | some u2 =>
                if isLow u2 then
                  (decBody (rest1.drop 10)).map ((65536 + (u - 55296) * 1024 + (u2 - 56320)) :: ·)
                else (decBody (rest1.drop 4)).map (u :: ·)
              | none => (decBody (rest1.drop 4)).map (u :: ·)
            else (decBody (rest1.drop 4)).map (u :: ·)
        else
          match unshort? e with
          | some x => (decBody rest1).map (x :: ·)
          | none => none
    else if c < 32 then none
    else (decBody rest).map (c :: ·)
termination_by l.length
decreasing_by all_goals (simp only [List.length_cons, List.length_drop]; omega)

/-- the reader of one string literal -/
def decode : List Nat → Option (List Nat)
  | 34 :: rest => decBody rest
  | _ => none

/-- a Python `str`: code points below `0x110000` -/
def Valid (s : List Nat) : Prop := ∀ c ∈ s, c < 1114112

/-- no high surrogate immediately followed by a low surrogate -/
def NoPair : List Nat → Prop
  | a :: b :: t => ¬ (isHigh a = true ∧ isLow b = true) ∧ NoPair (b :: t)
  | _ => True

end Str
end C06
