import Hgxv.Model.C03
/-! # C03 - the abstract specification: a map `(time, node set) ↦ (weight, metadata)` plus nodes with metadata

`Spec` is what the property names: no ids, no reverse table, no adjacency lists.  Keys are `(time, sorted node list)`
(a sorted duplicate-free list IS the node set), the association list is kept in creation order (the order is only used
to say which record is processed first by `remove_node(keep_edges=True)`, as Python's dict order does).
`Spec.applyOp` is the obvious map update for every public mutator, `Spec.answer` answers every query by a
`filter`/`map` over the record list (`none` for the two observables that expose edge ids).  The refinement theorem
(`Proofs/C03Ref.lean`, `Props/C03.lean`) says that `abs : Store → Spec` commutes with every operation and query. -/
namespace C03

structure Spec where
  weighted : Bool
  nodes : List (Node × Meta) := []
  recs : List (Key × (Int × Meta)) := []
  hmeta : Meta := []
  deriving DecidableEq

/-- the abstraction of a concrete store -/
def abs (s : Store) : Spec := { weighted := s.weighted, nodes := s.nmeta, recs := records s, hmeta := s.hmeta }

def Spec.new (w : Bool) : Spec := { weighted := w, hmeta := [(100, if w then 91 else 90), (101, 92)] }

/-- node table: insert with empty metadata if absent -/
def touchTable (t : List (Node × Meta)) (n : Node) : List (Node × Meta) :=
  if (AL.get? t n).isSome then t else AL.set t n []

/-- node table: metadata is stored only while the current metadata is empty -/
def fillTable (t : List (Node × Meta)) (n : Node) (md : Meta) : List (Node × Meta) :=
  if AL.get? t n = some [] then AL.set t n md else t

namespace Spec

def addNode (sp : Spec) (n : Node) (md : Option Meta) : Spec :=
  { sp with nodes := fillTable (touchTable sp.nodes n) n (md.getD []) }

def addNodes (sp : Spec) (ns : List Node) (mds : Option (List (Node × Meta))) : Spec × Out :=
  match mds with
  | none => (ns.foldl (fun sp n => addNode sp n none) sp, .ok)
  | some d =>
    if ns.all (fun n => (AL.get? d n).isSome) then (ns.foldl (fun sp n => addNode sp n (AL.get? d n)) sp, .ok)
    else (sp, .rej)

/-- the value of a record after (re-)insertion -/
def recVal (weighted : Bool) (old : Option (Int × Meta)) (wt : Int) (md : Meta) : Int × Meta :=
  match old with
  | none => (wt, md)
  | some (w0, _) => (if weighted then w0 + wt else w0, md)

/-- map update of an insertion: weights add on an existing key when weighted, metadata replaced, nodes created -/
def addKey (sp : Spec) (k : Key) (wt : Int) (md : Meta) : Spec :=
  { sp with recs := AL.set sp.recs k (recVal sp.weighted (AL.get? sp.recs k) wt md),
            nodes := k.2.foldl touchTable sp.nodes }

def addEdge (sp : Spec) (raw : List Nat) (t : TimeArg) (w : Option Int) (md : Option Meta) : Spec × Out :=
  match t with
  | .bad => (sp, .rej)
  | .int i =>
    if !sp.weighted && w.isSome && w != some one then (sp, .rej)
    else if i < 0 then (sp, .rej)
    else (addKey sp (i.toNat, canon raw) (w.getD one) (md.getD []), .ok)

def addEdgesLoop (sp : Spec) (ws : Option (List Int)) (mds : Option (List Meta)) :
    Nat → List (List Nat × TimeArg) → Spec
  | _, [] => sp
  | i, (raw, t) :: rest => addEdgesLoop (addEdge sp raw t (nth? ws i) (nth? mds i)).1 ws mds (i + 1) rest

def addEdges (sp : Spec) (raws : List (List Nat)) (ts : List TimeArg) (ws : Option (List Int))
    (mds : Option (List Meta)) : Spec × Out :=
  if addEdgesOk raws ts ws mds then
    (addEdgesLoop (if ws.isSome then { sp with weighted := true } else sp) ws mds 0 (raws.zip ts), .ok)
  else (sp, .rej)

def removeKey (sp : Spec) (k : Key) : Spec × Out :=
  if (AL.get? sp.recs k).isSome then ({ sp with recs := AL.erase sp.recs k }, .ok) else (sp, .rej)

def removeEdge (sp : Spec) (raw : List Nat) (t : TimeArg) : Spec × Out :=
  match mkKey raw t with
  | none => (sp, .rej)
  | some k => removeKey sp k

def removeEdges (sp : Spec) (recs : List (TimeArg × List Nat)) : Spec × Out :=
  match recs.mapM (fun r => mkKey r.2 r.1) with
  | none => (sp, .rej)
  | some ks =>
    if ks.all (fun k => (AL.get? sp.recs k).isSome) && keysDistinct ks then
      (ks.foldl (fun sp k => (removeKey sp k).1) sp, .ok)
    else (sp, .rej)

/-- a record containing the removed node: dropped, or (keep_edges) re-keyed without the node, keeping weight and
metadata and merging with an existing record of the shrunk key; a record that becomes empty is dropped -/
def dropKey (sp : Spec) (n : Node) (keep : Bool) (k : Key) : Spec :=
  match AL.get? sp.recs k with
  | none => sp
  | some (w, md) =>
    let sp1 := { sp with recs := AL.erase sp.recs k }
    let upd := k.2.filter (· != n)
    if keep && !upd.isEmpty then (addEdge sp1 upd (.int k.1) (some w) (some md)).1 else sp1

def removeNode (sp : Spec) (n : Node) (keep : Bool) : Spec × Out :=
  if (AL.get? sp.nodes n).isSome then
    let ks := (sp.recs.filter (fun p => p.1.2.contains n)).map (·.1)
    let sp1 := ks.foldl (fun sp k => dropKey sp n keep k) sp
    ({ sp1 with nodes := AL.erase sp1.nodes n }, .ok)
  else (sp, .rej)

def removeNodes (sp : Spec) (ns : List Node) (keep : Bool) : Spec × Out :=
  if ns.all (fun n => (AL.get? sp.nodes n).isSome) && nodesDistinct ns then
    (ns.foldl (fun sp n => (removeNode sp n keep).1) sp, .ok)
  else (sp, .rej)

def recOf (sp : Spec) (raw : List Nat) (t : TimeArg) : Option (Key × (Int × Meta)) :=
  (mkKey raw t).bind (fun k => (AL.get? sp.recs k).map (fun v => (k, v)))

def setWeight (sp : Spec) (raw : List Nat) (t : TimeArg) (w : Int) : Spec × Out :=
  if !sp.weighted && w != one then (sp, .rej) else
  match recOf sp raw t with
  | none => (sp, .rej)
  | some (k, v) => ({ sp with recs := AL.set sp.recs k (w, v.2) }, .ok)

def setNodeMeta (sp : Spec) (n : Node) (md : Meta) : Spec × Out :=
  if (AL.get? sp.nodes n).isSome then ({ sp with nodes := AL.set sp.nodes n md }, .ok) else (sp, .rej)

def setEdgeMeta (sp : Spec) (raw : List Nat) (t : TimeArg) (md : Meta) : Spec × Out :=
  match recOf sp raw t with
  | none => (sp, .rej)
  | some (k, v) => ({ sp with recs := AL.set sp.recs k (v.1, md) }, .ok)

def attrNode (sp : Spec) (n : Node) (k v : Nat) : Spec × Out :=
  match AL.get? sp.nodes n with
  | none => (sp, .rej)
  | some md => ({ sp with nodes := AL.set sp.nodes n (AL.set md k v) }, .ok)

def attrEdge (sp : Spec) (raw : List Nat) (t : TimeArg) (k v : Nat) : Spec × Out :=
  match recOf sp raw t with
  | none => (sp, .rej)
  | some (key, val) => ({ sp with recs := AL.set sp.recs key (val.1, AL.set val.2 k v) }, .ok)

def delAttrNode (sp : Spec) (n : Node) (k : Nat) : Spec × Out :=
  match AL.get? sp.nodes n with
  | none => (sp, .rej)
  | some md => if (AL.get? md k).isSome then ({ sp with nodes := AL.set sp.nodes n (AL.erase md k) }, .ok) else (sp, .rej)

def delAttrEdge (sp : Spec) (raw : List Nat) (t : TimeArg) (k : Nat) : Spec × Out :=
  match recOf sp raw t with
  | none => (sp, .rej)
  | some (key, val) =>
    if (AL.get? val.2 k).isSome then ({ sp with recs := AL.set sp.recs key (val.1, AL.erase val.2 k) }, .ok) else (sp, .rej)

def applyOp (sp : Spec) : SOp → Spec × Out
  | .addNode n md => (addNode sp n md, .ok)
  | .addNodes ns mds => addNodes sp ns mds
  | .addEdge raw t w md => addEdge sp raw t w md
  | .addEdges raws ts ws mds => addEdges sp raws ts ws mds
  | .removeEdge raw t => removeEdge sp raw t
  | .removeEdges recs => removeEdges sp recs
  | .removeNode n keep => removeNode sp n keep
  | .removeNodes ns keep => removeNodes sp ns keep
  | .setWeight raw t w => setWeight sp raw t w
  | .setNodeMeta n md => setNodeMeta sp n md
  | .setEdgeMeta raw t md => setEdgeMeta sp raw t md
  | .setHMeta md => ({ sp with hmeta := md }, .ok)
  | .attrH k v => ({ sp with hmeta := AL.set sp.hmeta k v }, .ok)
  | .attrNode n k v => attrNode sp n k v
  | .attrEdge raw t k v => attrEdge sp raw t k v
  | .delAttrNode n k => delAttrNode sp n k
  | .delAttrEdge raw t k => delAttrEdge sp raw t k
  | .clear => ({ weighted := sp.weighted }, .ok)

end Spec

/-- what the getters read, on the abstract map: the listing is the key list, weight / metadata are the map's values,
the incident records of a node are the records whose node set contains it; the two id-exposing fields are empty -/
def Spec.view (sp : Spec) : View :=
  { weighted := sp.weighted, nodes := sp.nodes, keys := AL.keys sp.recs,
    wOf := fun k => (AL.get? sp.recs k).map (·.1), mOf := fun k => (AL.get? sp.recs k).map (·.2),
    has := fun k => (AL.get? sp.recs k).isSome,
    inc := fun n => if (AL.get? sp.nodes n).isSome then some ((AL.keys sp.recs).filter (fun k => k.2.contains n)) else none,
    hmeta := sp.hmeta, idMeta := [], items := [] }

/-- the answer of the abstract map to a query (same query code `V.answer`, read off the map) -/
def Spec.answer (sp : Spec) (q : Query) : Ans := V.answer (Spec.view sp) q

/-- the two observables that expose internal edge ids (`get_all_edges_metadata`, `__iter__`) have no meaning on the map -/
def Query.exposesIds : Query → Bool
  | .allEdgeMeta => true
  | .iter => true
  | _ => false

/-- abstract state: one `Spec` per slot -/
abbrev SpecState := List (Nat × Spec)

/-- the history on the abstract side (queries do not change anything) -/
def specStep (st : SpecState) : Op → SpecState
  | .new i w => AL.set st i (Spec.new w)
  | .on i o =>
    match AL.get? st i with
    | none => st
    | some sp => AL.set st i (Spec.applyOp sp o).1
  | .copy i j =>
    match AL.get? st i with
    | none => st
    | some sp => AL.set st j sp
  | .query _ _ => st

def specRun (st : SpecState) (ops : List Op) : SpecState := ops.foldl specStep st

end C03
