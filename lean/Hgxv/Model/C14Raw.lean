import Hgxv.Model.C14
/-! The generators of `Hgxv/Model/C14.lean` with their numeric arguments AS THE CALLER HOLDS THEM (core Lean only).

Python does not receive "a number": it receives an `int`, a `bool`, a `float`, a `Fraction`, a NumPy scalar, a `str`.
Which of these a routine accepts, and WHICH NUMBER it then works with, is decided by the operation the code applies to
the argument.  The unchanged code applies exactly four:

* `operator.index` (`range(x)`, `random.sample(pop, x)`): only integers (and `bool`) pass, everything else raises;
* a NumPy size (`np.random.exponential(scale, x)`, `np.random.choice(pop, size=x)`): integers only, `bool` refused;
* `int(x)` (`scale_free_hypergraph`, line 55, stored back into `edges_by_size`): reals are truncated toward zero,
  integer literals in a `str` are parsed;
* the loop test `len(acc) < x` (`random_hypergraph`, `add_random_edges`): reals compare by value, so the loop makes
  `ceil(x)` passes; a `str` raises.

`int(x)` and `len(acc) < x` give DIFFERENT numbers for `3.7` (3 and 4): which of the two a routine uses is part of
its contract ("exactly the requested number" of `scale_free_hypergraph` is `int(count)`).  The `..Raw` functions
below put these conversions in front of the models of `C14.lean`. -/
namespace C14

/-- convert every element; `none` as soon as one conversion fails (the call raises) -/
def optAll {α β : Type} (f : α → Option β) : List α → Option (List β)
  | [] => some []
  | a :: l =>
    match f a, optAll f l with
    | some b, some bs => some (b :: bs)
    | _, _ => none

/-- a numeric argument value together with what Python can do with it -/
inductive Num where
  /-- Python `int`, NumPy integer scalar, 0-d integer array: has `__index__`; converts and compares as `i` -/
  | int (i : Int)
  /-- Python `bool` (`True == 1`): an `int` for Python itself (`range`, `random.sample`, `int`, `<`, `+`), but refused
      by NumPy wherever a size is expected -/
  | bool (b : Bool)
  /-- `float`, NumPy floating scalar, `Fraction`, `Decimal`, `numpy.bool_` with the EXACT value `num / (den + 1)`
      (integral ones such as `3.0` included): no `__index__`; `int(x)` truncates toward zero; compares by value -/
  | real (num : Int) (den : Nat)
  /-- `str` / `bytes`: `int(x)` parses it (`v`; `none`: not an integer literal, `ValueError`); cannot be compared
      with a number, cannot be added to one, has no `__index__` -/
  | text (v : Option Int)
deriving Repr, DecidableEq

namespace Num

/-- a natural number written as a Python `int` -/
def ofNat (s : Nat) : Num := int (s : Int)

/-- `operator.index(x)` - what `range(x)`, `random.sample(pop, x)` and `[None] * x` apply; `none` = TypeError -/
def index : Num → Option Int
  | int i => some i
  | bool b => some (b.toNat : Int)
  | real _ _ => none
  | text _ => none

/-- a NumPy size argument (`np.random.exponential(scale, x)`, `np.random.choice(pop, size=x)`); `none` = TypeError -/
def npSize : Num → Option Int
  | int i => some i
  | _ => none

/-- `int(x)`; `none` = the conversion raises -/
def toInt : Num → Option Int
  | int i => some i
  | bool b => some (b.toNat : Int)
  | real n d => some (Int.tdiv n ((d : Int) + 1))
  | text v => v

/-- Python's `j < x` for a list length `j`; `none` = TypeError -/
def natLt (j : Nat) : Num → Option Bool
  | int i => some (decide ((j : Int) < i))
  | bool b => some (decide (j < b.toNat))
  | real n d => some (decide ((j : Int) * ((d : Int) + 1) < n))
  | text _ => none

/-- number of passes of `acc = []; while len(acc) < x: acc.append(..)` (for a set: number of distinct elements
    collected): the first length at which the test fails (`loopCount_spec`); `none` = the test raises -/
def loopCount : Num → Option Nat
  | int i => some i.toNat
  | bool b => some b.toNat
  | real n d => some ((n.toNat + d) / (d + 1))
  | text _ => none

/-- `x + 1` (`size = order + 1`); `none` = TypeError (`str + int`) -/
def succ : Num → Option Num
  | int i => some (int (i + 1))
  | bool b => some (int ((b.toNat : Int) + 1))
  | real n d => some (real (n + (d : Int) + 1) d)
  | text _ => none

/-- exact value `(numerator, denominator)` of an argument that is compared with numbers (`0 <= p <= 1`,
    `int(p * m)`); `none` = TypeError -/
def value : Num → Option (Int × Nat)
  | int i => some (i, 1)
  | bool b => some ((b.toNat : Int), 1)
  | real n d => some (n, d + 1)
  | text _ => none

/-- a dict key that is a natural number by value (`2`, `True`, `2.0`, `Fraction(2)` are the same key) -/
def natValue : Num → Option Nat
  | int i => if 0 ≤ i then some i.toNat else none
  | bool b => some b.toNat
  | real n d => if 0 ≤ n ∧ n % ((d : Int) + 1) = 0 then some (n / ((d : Int) + 1)).toNat else none
  | text _ => none

/-- the `k` of `random.sample(range(pop), k)` as the models of `C14.lean` see it: a `k` that the sampler refuses
    (no `__index__`, negative) acts exactly like a `k` larger than the population - the call raises as soon as a
    sample of that size is asked for, and not before -/
def sampleK (pop : Nat) (x : Num) : Nat :=
  match x.index with
  | some i => if 0 ≤ i then i.toNat else pop + 1
  | none => pop + 1

/-- the same for `np.random.choice(nodes, size=x, replace=False)` -/
def choiceK (pop : Nat) (x : Num) : Nat :=
  match x.npSize with
  | some i => if 0 ≤ i then i.toNat else pop + 1
  | none => pop + 1

end Num

/-- `random_hypergraph(n, {size: count})`: `list(range(n))` needs an index (a negative one gives no node);
    `while len(edges) < count` decides the number of samples; `random.sample(nodes, size)` decides about the sizes -/
def randomHypergraphRaw? (n : Num) (sizes counts : List Num) (groups : List (List (List Nat))) : Option HG :=
  match n.index, optAll Num.loopCount counts with
  | some ni, some cs => randomHypergraph? ni.toNat ((sizes.map (Num.sampleK ni.toNat)).zip cs) groups
  | _, _ => none

/-- `add_random_edges(hg, k, order, size)`: `size = order + 1`; `while len(edges) < k`; `random.sample(nodes, size)` -/
def resolveSizeRaw (pop : Nat) : Option Num → Option Num → Option Nat
  | some _, some _ => none
  | none, none => none
  | none, some s => some (s.sampleK pop)
  | some o, none => o.succ.map (Num.sampleK pop)

def addRandomEdgeRaw (h : HG) (order size : Option Num) (inplace : Bool) (draw : List Nat) : Option CallResult :=
  match resolveSizeRaw h.nodes.length order size with
  | none => none
  | some s => addRandomEdge h none (some s) inplace draw

def addRandomEdgesRaw (h : HG) (k : Num) (order size : Option Num) (inplace : Bool) (draws : List (List Nat)) :
    Option CallResult :=
  match resolveSizeRaw h.nodes.length order size, k.loopCount with
  | some s, some k => addRandomEdges h k none (some s) inplace draws
  | _, _ => none

/-- `num_shuffles` of `scale_free_hypergraph`: compared with `0` first (lines 37-46: only its sign matters), handed to
    `range` only inside the loop over the sizes and only when `correlated`.  An index is used as it is; a real passes
    the comparisons by its sign and makes `range` raise when the loop gets there; a `str` raises in `< 0` -/
def shufflesArg (correlated loopRuns : Bool) (x : Num) : Option Int :=
  match x.index, x.value with
  | some i, _ => some i
  | none, some (n, _) => if correlated && loopRuns then none else some (Int.sign n)
  | none, none => none

/-- `scale_free_hypergraph(n, edges_by_size, scale_by_size, ..)`.  `n`: `range(n)`, and the NumPy size of
    `np.random.exponential(scale, n)` once per size; the keys of `edges_by_size` are natural numbers BY VALUE (dict
    membership goes by value: `2.0 in {2: ..}`), their value type matters to `np.random.choice(.., size=size)` only;
    line 55 stores `int(count)` back and the generation loop reads the CONVERTED number. -/
def scaleFreeRaw (n : Num) (sizes counts : List Num) (scaleKeys : List Nat) (correlated : Bool)
    (corr : Option Rat) (shuffles : Num) (groups : List (List (List Nat))) : Option HG :=
  match (if sizes.isEmpty then n.index else n.npSize), optAll Num.natValue sizes, optAll Num.toInt counts,
        shufflesArg correlated (!sizes.isEmpty) shuffles with
  | some ni, some keyVals, some cs, some sh =>
    if (0 ≤ ni || sizes.isEmpty) && sfValid keyVals cs scaleKeys correlated corr sh
        && admissible ni.toNat ((sizes.map (Num.choiceK ni.toNat)).zip (cs.map Int.toNat)) then
      some (sfLoop (addNodes {} (List.range ni.toNat)) (keyVals.zip (cs.map Int.toNat)) groups)
    else none
  | _, _, _, _ => none

/-- NOT the code - the seeded change C14-d1, kept as a witness only: the validation converts (`int(count)` into a
    local), the generation loop reads the caller's RAW value, so `while len(edges) < count` makes `loopCount` passes -/
def scaleFreeUnconverted (n : Nat) (sizes : List Nat) (counts : List Num) (scaleKeys : List Nat) (correlated : Bool)
    (corr : Option Rat) (shuffles : Int) (groups : List (List (List Nat))) : Option HG :=
  match optAll Num.toInt counts, optAll Num.loopCount counts with
  | some cs, some ls =>
    if sfValid sizes cs scaleKeys correlated corr shuffles && admissible n (sizes.zip ls) then
      some (sfLoop (addNodes {} (List.range n)) (sizes.zip ls) groups)
    else none
  | _, _ => none

/-- `HOADmodel(N, activities_per_order, time)`: `range(time)` is reached when there is at least one order,
    `range(N)` when moreover `time >= 1`; `random.sample(range(N), order)` when a node is active -/
def hoadRaw (N time : Num) (acts : List (Num × List Rat)) (draws : List HoadDraw) : Run (List (Nat × Edge)) :=
  if acts.isEmpty then hoad 0 0 [] draws
  else match time.index with
    | none => if draws.isEmpty then .raised [] else .stuck
    | some t =>
      if t ≤ 0 then hoad 0 0 [] draws
      else match N.index with
        | none => if draws.isEmpty then .raised [] else .stuck
        | some n => hoad n.toNat t.toNat (acts.map (fun a => (a.1.sampleK n.toNat, a.2))) draws

/-- `random_shuffle(.., p)`: `0 <= p <= 1` and `int(p * num_edges)` work on the value of `p` -/
def randomShuffleRaw (h : HG) (order size : Option Nat) (inplace : Bool) (p : Num)
    (idx : List Nat) (choices : List (List Nat)) : Option CallResult :=
  match p.value with
  | none => none
  | some (pn, pd) => randomShuffle h order size inplace pn pd idx choices

end C14
