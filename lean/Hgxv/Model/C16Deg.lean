import Hgxv.Model.C16
/-! # C16, round f: degenerate hyperedges (fewer than two nodes) in the chain state

`sample` computes the Poisson mean of a hyperedge as `exp(log(poisson_params) - log_kappa(size))`.  A hyperedge with
fewer than two nodes has no pair of nodes: its Poisson parameter is 0 and the normalisation `kappa` is 0 as well, so the
mean is `exp(-inf - (-inf)) = nan`; `np.clip(nan, 1e-10, None)` stays nan, `sample_truncated_poisson` returns nan
(`np.maximum(nan, 1) = nan`), `.astype(int)` makes it a non-positive integer and `np.where(weights > 0)` removes the
hyperedge.  In the model: whatever the quantile tape says, the weight of such a hyperedge is 0 (`degenWeights`); the
output stage is the unchanged `C16.outputStage`.  Core Lean only. -/
namespace C16

/-- the weights `sample` works with: the truncated-Poisson value where the mean is a number, a non-positive
value (0) for a hyperedge with fewer than two nodes (nan mean) -/
def degenWeights (cfg : Config) (ws : List Nat) : List Nat :=
  (cfg.zip ws).map (fun p => if p.1.length < 2 then 0 else p.2)

/-- the hyperedges of size >= 2 of a chain state with their weights -/
def properPairs (cfg : Config) (ws : List Nat) : List (Hye × Nat) :=
  (cfg.zip ws).filter (fun p => decide (2 ≤ p.1.length))

def properCfg (cfg : Config) (ws : List Nat) : Config := (properPairs cfg ws).map (·.1)
def properWs (cfg : Config) (ws : List Nat) : List Nat := (properPairs cfg ws).map (·.2)

/-- one yielded `Hypergraph` made from a chain state that may hold degenerate hyperedges; `qs` = the quantile tape -/
def outputStageD (cfg : Config) (qs : List Nat) (labels : Option (List Nat)) : Option (List (Hye × Nat)) :=
  outputStage cfg (degenWeights cfg (truncWeights qs)) labels

end C16
