import Hgxv.Model.AList
/-! # C07 — model of `hypergraphx.readwrite.hashing.hash_hypergraph`

Core Lean only.  Contents
* `sortBy`            Python `sorted` (stable insertion sort over a Bool-valued order)
* `KeyOrd`            decidable linear orders used for node labels, dictionary keys, hyperedge keys
* `Num`, `JTree`      JSON values (numbers carry the int/float tag; floats are quanta of 1/4)
* `ser`               `serialize` of hashing.py (recursive key sort of dicts, lists element-wise)
* `Kind κ`            what differs between the four container classes (type tag, key shape, which table
                      lists the nodes, small behavioural differences of add_node / add_edge / clear)
* `Tables κ`          the private tables that `expose_attributes_for_hashing` and the mutators touch
* `preimage?`         `serialize(obj.expose_attributes_for_hashing())`; `none` = the Python code raises
* `Content κ`, `canon`  the abstract content named by the property and its canonical tree
* `content`           the content of a table state as the public getters show it
* `Op`, `step`, `run`  table-level add_node / add_edge / remove_edge / remove_node / set_* / clear, the attribute-level
                      setters (`set_attr_to_*`, `remove_attr_from_*`), the batched calls, `build` = constructor with lists
-/
namespace C07
open AL

/-! ## sorting -/

/-- insert before the first element that is not smaller (stable when used with `foldr`) -/
def insertBy {α} (le : α → α → Bool) (a : α) : List α → List α
  | [] => [a]
  | b :: bs => if le a b then a :: b :: bs else b :: insertBy le a bs

/-- Python `sorted(l)` for the order `le` -/
def sortBy {α} (le : α → α → Bool) (l : List α) : List α := l.foldr (insertBy le) []

/-- a decidable linear order, as a Bool-valued `≤` -/
class KeyOrd (α : Type) where
  le : α → α → Bool
  total : ∀ a b, (le a b || le b a) = true
  trans : ∀ a b c, le a b = true → le b c = true → le a c = true
  antisymm : ∀ a b, le a b = true → le b a = true → a = b

instance : KeyOrd Nat where
  le a b := decide (a ≤ b)
  total a b := by simp only [Bool.or_eq_true, decide_eq_true_eq]; omega
  trans a b c := by simp only [decide_eq_true_eq]; omega
  antisymm a b := by simp only [decide_eq_true_eq]; omega

instance : KeyOrd String where
  le a b := decide (a ≤ b)
  total a b := by simpa using String.le_total a b
  trans a b c := by simp only [decide_eq_true_eq]; exact String.le_trans
  antisymm a b := by simp only [decide_eq_true_eq]; exact String.le_antisymm

/-- tuples of node labels: Python compares tuples lexicographically, a proper prefix is smaller -/
instance : KeyOrd (List Nat) where
  le a b := decide (a ≤ b)
  total a b := by simpa using List.le_total a b
  trans a b c := by simp only [decide_eq_true_eq]; exact List.le_trans
  antisymm a b := by simp only [decide_eq_true_eq]; exact List.le_antisymm

/-- pairs compare lexicographically (Python tuples `(time, nodes)`, `(nodes, layer)`, `(source, target)`) -/
instance {α β} [DecidableEq α] [KeyOrd α] [KeyOrd β] : KeyOrd (α × β) where
  le p q := if p.1 = q.1 then KeyOrd.le p.2 q.2 else KeyOrd.le p.1 q.1
  total p q := by
    by_cases h : p.1 = q.1
    · have h' : q.1 = p.1 := h.symm
      simp only [h, if_true]; exact KeyOrd.total p.2 q.2
    · have h' : ¬ q.1 = p.1 := fun e => h e.symm
      simp only [h, h', if_false]; exact KeyOrd.total p.1 q.1
  trans p q r := by
    intro h1 h2
    by_cases hpq : p.1 = q.1
    · by_cases hqr : q.1 = r.1
      · have hpr : p.1 = r.1 := hpq.trans hqr
        simp only [hpq, hqr, hpr, if_true] at *
        exact KeyOrd.trans _ _ _ h1 h2
      · have hpr : ¬ p.1 = r.1 := fun e => hqr (hpq ▸ e)
        simp only [hqr, hpr, if_false] at *
        rw [hpq]; exact h2
    · by_cases hqr : q.1 = r.1
      · have hpr : ¬ p.1 = r.1 := fun e => hpq (e.trans hqr.symm)
        simp only [hpq, hpr, if_false] at *
        rw [← hqr]; exact h1
      · simp only [hpq, hqr, if_false] at h1 h2
        have h13 := KeyOrd.trans _ _ _ h1 h2
        by_cases hpr : p.1 = r.1
        · exfalso
          rw [← hpr] at h2
          exact hpq (KeyOrd.antisymm _ _ h1 h2)
        · simp only [hpr, if_false]; exact h13
  antisymm p q := by
    intro h1 h2
    by_cases hpq : p.1 = q.1
    · have hqp : q.1 = p.1 := hpq.symm
      simp only [hpq, if_true] at h1
      simp only [hqp, if_true] at h2
      exact Prod.ext hpq (KeyOrd.antisymm _ _ h1 h2)
    · have hqp : ¬ q.1 = p.1 := fun e => hpq e.symm
      simp only [hpq, if_false] at h1
      simp only [hqp, if_false] at h2
      exact absurd (KeyOrd.antisymm _ _ h1 h2) hpq

/-! ## JSON values -/

/-- numbers with their Python type: `int i`, or `flt q` = the float `q/4` (the harness only uses such floats,
for which `+` is exact) -/
inductive Num where
  | int (i : Int)
  | flt (q : Int)
  deriving DecidableEq, Repr

/-- Python `a + b` on int/float -/
def Num.add : Num → Num → Num
  | .int a, .int b => .int (a + b)
  | .int a, .flt q => .flt (4 * a + q)
  | .flt q, .int b => .flt (q + 4 * b)
  | .flt p, .flt q => .flt (p + q)

/-- Python `w != 1` is false for `1` and `1.0` -/
def Num.isOne : Num → Bool
  | .int i => i == 1
  | .flt q => q == 4

inductive JTree where
  | null
  | bool (b : Bool)
  | num (n : Num)
  | str (s : String)
  | arr (l : List JTree)
  | obj (l : List (String × JTree))
  deriving Repr

abbrev emptyObj : JTree := .obj []

/-- Python `x == {}` for a JSON value -/
def JTree.isEmptyObj : JTree → Bool
  | .obj [] => true
  | _ => false

def fieldLe (a b : String × JTree) : Bool := KeyOrd.le a.1 b.1

mutual
/-- `serialize` of hashing.py: dicts are rebuilt with their keys sorted, lists element-wise, rest unchanged -/
def ser : JTree → JTree
  | .obj l => .obj (sortBy fieldLe (serFields l))
  | .arr l => .arr (serList l)
  | .null => .null
  | .bool b => .bool b
  | .num n => .num n
  | .str s => .str s
def serList : List JTree → List JTree
  | [] => []
  | x :: xs => ser x :: serList xs
def serFields : List (String × JTree) → List (String × JTree)
  | [] => []
  | (k, v) :: xs => (k, ser v) :: serFields xs
end

def natTree (n : Nat) : JTree := .num (.int n)
def natsTree (l : List Nat) : JTree := .arr (l.map natTree)

/-! ## the four container classes -/

/-- behavioural differences between the classes that matter for the tables read by the hash -/
structure Flags where
  /-- `Hypergraph` lists the nodes of the pre-image from `_adj`; the others from `_node_metadata` -/
  nodesFromAdj : Bool
  /-- Temporal/Multiplex look the id up again under the re-sorted key -/
  relookup : Bool
  /-- `TemporalHypergraph.add_node` tests `node not in _node_metadata` (the others `node not in _adj`) -/
  addNodeTestsMeta : Bool
  /-- Temporal/Multiplex store the given weight also when unweighted, and call `add_node` for every node of a
  repeated hyperedge too -/
  storeGivenWeight : Bool
  /-- `clear()` also empties the hypergraph metadata -/
  clearHMeta : Bool

class Kind (κ : Type) extends KeyOrd κ where
  deq : DecidableEq κ
  tag : String
  flags : Flags
  /-- key canonicalisation of add_edge / remove_edge (`tuple(sorted(edge))`, `_canon_edge`) -/
  canonK : κ → κ
  /-- nodes of a key linked in `_adj` (directed: the source nodes, linked in `_adj_source`) -/
  members : κ → List Nat
  /-- directed only: the target nodes, linked in `_adj_target` (`[]` for the other classes) -/
  targets : κ → List Nat
  /-- key without a node (`remove_node(keep_edges=True)`), `none` when nothing is re-inserted -/
  shrink : κ → Nat → Option κ
  /-- the `"nodes"` entry of a hyperedge record -/
  keyTree : κ → JTree

instance {κ} [k : Kind κ] : DecidableEq κ := k.deq

abbrev KH := List Nat              -- Hypergraph: sorted node tuple
abbrev KD := List Nat × List Nat   -- DirectedHypergraph: (source, target)
abbrev KT := Nat × List Nat        -- TemporalHypergraph: (time, nodes)
abbrev KM := List Nat × Nat        -- MultiplexHypergraph: (nodes, layer)  (layer names by rank)

def sortNat (l : List Nat) : List Nat := sortBy KeyOrd.le l

instance : Kind KH where
  deq := inferInstance
  tag := "Hypergraph"
  flags := { nodesFromAdj := true, relookup := false, addNodeTestsMeta := false, storeGivenWeight := false,
             clearHMeta := true }
  canonK k := sortNat k
  members k := k
  targets _ := []
  shrink k n := some (sortNat (k.filter (· ≠ n)))
  keyTree k := natsTree k

instance : Kind KD where
  deq := inferInstance
  tag := "DirectedHypergraph"
  flags := { nodesFromAdj := false, relookup := false, addNodeTestsMeta := false, storeGivenWeight := false,
             clearHMeta := false }
  canonK k := (sortNat k.1, sortNat k.2)
  members k := k.1
  targets k := k.2
  shrink k n :=
    if (k.1.filter (· ≠ n)).isEmpty || (k.2.filter (· ≠ n)).isEmpty then none
    else some (k.1.filter (· ≠ n), k.2.filter (· ≠ n))
  keyTree k := .arr [natsTree k.1, natsTree k.2]

instance : Kind KT where
  deq := inferInstance
  tag := "TemporalHypergraph"
  flags := { nodesFromAdj := false, relookup := true, addNodeTestsMeta := true, storeGivenWeight := true,
             clearHMeta := true }
  canonK k := (k.1, sortNat k.2)
  members k := k.2
  targets _ := []
  shrink k n := if (k.2.filter (· ≠ n)).isEmpty then none else some (k.1, k.2.filter (· ≠ n))
  keyTree k := .arr [natTree k.1, natsTree k.2]

instance : Kind KM where
  deq := inferInstance
  tag := "MultiplexHypergraph"
  flags := { nodesFromAdj := false, relookup := true, addNodeTestsMeta := false, storeGivenWeight := true,
             clearHMeta := false }
  canonK k := (sortNat k.1, k.2)
  members k := k.1
  targets _ := []
  shrink k n := if (k.1.filter (· ≠ n)).isEmpty then none else some (k.1.filter (· ≠ n), k.2)
  keyTree k := .arr [natsTree k.1, natTree k.2]

/-! ## tables and the hash pre-image -/

structure Tables (κ : Type) where
  adj : List (Nat × List Nat) := []        -- `_adj` (directed: `_adj_source`)
  adjT : List (Nat × List Nat) := []       -- directed: `_adj_target` (rows are created for the other classes too, never read)
  edgeList : List (κ × Nat) := []          -- `_edge_list`
  rev : List (Nat × κ) := []               -- `_reverse_edge_list`
  weights : List (Nat × Num) := []         -- `_weights`
  edgeMeta : List (Nat × JTree) := []      -- `_edge_metadata`
  nodeMeta : List (Nat × JTree) := []      -- `_node_metadata`
  hmeta : JTree := emptyObj                -- `_hypergraph_metadata`
  weighted : Bool := false                 -- `_weighted`
  nextId : Nat := 0

variable {κ : Type} [Kind κ]

def edgeTree (e : κ × Num × JTree) : JTree :=
  .obj [("nodes", Kind.keyTree e.1), ("weight", .num e.2.1), ("metadata", e.2.2)]

def nodeTree (p : Nat × JTree) : JTree :=
  .obj [("node", natTree p.1), ("metadata", p.2)]

/-- one iteration of `for edge in sorted(self._edge_list.keys())` -/
def edgeEntry? (t : Tables κ) (k : κ) : Option JTree :=
  let k' := Kind.canonK k
  match get? t.edgeList (if (Kind.flags κ).relookup then k' else k) with
  | none => none                                  -- KeyError
  | some id => some (edgeTree (k', (get? t.weights id).getD (.int 1), (get? t.edgeMeta id).getD emptyObj))

/-- one iteration of the node loop: `self._node_metadata[node]` -/
def nodeEntry? (t : Tables κ) (n : Nat) : Option JTree :=
  match get? t.nodeMeta n with
  | none => none                                  -- KeyError
  | some md => some (nodeTree (n, md))

def nodeKeys (t : Tables κ) : List Nat :=
  if (Kind.flags κ).nodesFromAdj then keys t.adj else keys t.nodeMeta

def topTree (tag : String) (weighted : Bool) (hmeta : JTree) (es ns : List JTree) : JTree :=
  .obj [("type", .str tag), ("weighted", .bool weighted), ("hypergraph_metadata", hmeta),
        ("edges", .arr es), ("nodes", .arr ns)]

/-- `expose_attributes_for_hashing()` -/
def expose? (t : Tables κ) : Option JTree :=
  match (sortBy KeyOrd.le (keys t.edgeList)).mapM (edgeEntry? t),
        (sortBy KeyOrd.le (nodeKeys t)).mapM (nodeEntry? t) with
  | some es, some ns => some (topTree (Kind.tag κ) t.weighted t.hmeta es ns)
  | _, _ => none

/-- `serialize(hypergraph.expose_attributes_for_hashing())` -/
def preimage? (t : Tables κ) : Option JTree := (expose? t).map ser

/-- `hash_hypergraph`; `dumps` = `json.dumps(·, sort_keys=True)`, `H` = SHA-256 of the UTF-8 text -/
def hashOf {Digest : Type} (dumps : JTree → String) (H : String → Digest) (t : Tables κ) : Option Digest :=
  (preimage? t).map (fun j => H (dumps j))

/-- the call as a state transformer: returns the (unchanged) tables and the digest -/
def hashCall {Digest : Type} (dumps : JTree → String) (H : String → Digest) (t : Tables κ) :
    Tables κ × Option Digest := (t, hashOf dumps H t)

/-! ## abstract content -/

structure Content (κ : Type) where
  nodes : List (Nat × JTree)            -- node ↦ metadata
  edges : List (κ × Num × JTree)        -- key ↦ (weight with its numeric type, metadata)
  hmeta : JTree
  weighted : Bool

def edgeKeyLe (a b : κ × Num × JTree) : Bool := KeyOrd.le a.1 b.1
def nodeKeyLe (a b : Nat × JTree) : Bool := KeyOrd.le a.1 b.1

/-- the canonical tree of a content: what the pre-image must be -/
def canon (c : Content κ) : JTree :=
  ser (topTree (Kind.tag κ) c.weighted c.hmeta
        ((sortBy edgeKeyLe c.edges).map edgeTree) ((sortBy nodeKeyLe c.nodes).map nodeTree))

/-- content of a table state as the public getters show it: nodes = keys of the adjacency table with
`get_node_metadata`, hyperedges = keys of `_edge_list` with `get_weight` (`_weights[id]`) and
`get_edge_metadata` (`_edge_metadata[id]`) -/
def content (t : Tables κ) : Content κ where
  nodes := (keys t.adj).filterMap (fun n => (get? t.nodeMeta n).map (fun md => (n, md)))
  edges := t.edgeList.filterMap (fun p =>
    match get? t.weights p.2, get? t.edgeMeta p.2 with
    | some w, some md => some (p.1, w, md)
    | _, _ => none)
  hmeta := t.hmeta
  weighted := t.weighted

/-! ## table-level operations (the repaired code) -/

/-- constructor: `hypergraph_metadata or {}` updated with `weighted` and `type` -/
def init (κ : Type) [Kind κ] (weighted : Bool) (hm : List (String × JTree)) : Tables κ :=
  { hmeta := .obj (set (set hm "weighted" (.bool weighted)) "type" (.str (Kind.tag κ))), weighted := weighted }

def nodeKnown (t : Tables κ) (n : Nat) : Bool :=
  if (Kind.flags κ).addNodeTestsMeta then has t.nodeMeta n else has t.adj n

/-- `add_node`, first `if`: a new node gets an empty adjacency list and `{}` -/
def touchNode (t : Tables κ) (n : Nat) : Tables κ :=
  if nodeKnown t n then t
  else { t with adj := set t.adj n [], adjT := set t.adjT n [], nodeMeta := set t.nodeMeta n emptyObj }

/-- `add_node`, second `if`: metadata is stored only over `{}` -/
def fillNodeMeta (t : Tables κ) (n : Nat) (md : JTree) : Tables κ :=
  match get? t.nodeMeta n with
  | some cur => if cur.isEmptyObj then { t with nodeMeta := set t.nodeMeta n md } else t
  | none => t

def addNode (t : Tables κ) (n : Nat) (md : Option JTree) : Tables κ :=
  fillNodeMeta (touchNode t n) n (md.getD emptyObj)

/-- `self.add_node(node); self._adj[node].append(id)` -/
def linkNode (id : Nat) (t : Tables κ) (n : Nat) : Tables κ :=
  let t1 := addNode t n none
  { t1 with adj := set t1.adj n ((get? t1.adj n).getD [] ++ [id]) }

/-- directed: `self.add_node(node); self._adj_target[node].append(id)` -/
def linkTarget (id : Nat) (t : Tables κ) (n : Nat) : Tables κ :=
  let t1 := addNode t n none
  { t1 with adjT := set t1.adjT n ((get? t1.adjT n).getD [] ++ [id]) }

def addEdgeNew (t : Tables κ) (k : κ) (w : Num) (md : JTree) : Tables κ :=
  let id := t.nextId
  let t1 : Tables κ :=
    { t with edgeList := set t.edgeList k id, rev := set t.rev id k,
             weights := set t.weights id (if t.weighted || (Kind.flags κ).storeGivenWeight then w else .int 1),
             edgeMeta := set t.edgeMeta id md, nextId := id + 1 }
  (Kind.targets k).foldl (linkTarget id) ((Kind.members k).foldl (linkNode id) t1)

/-- `elif self._weighted: self._weights[id] += weight` -/
def bumpWeight (t : Tables κ) (id : Nat) (w : Num) : Tables κ :=
  if t.weighted then { t with weights := set t.weights id (((get? t.weights id).getD (.int 1)).add w) } else t

/-- `self._edge_metadata[id] = metadata` -/
def putEdgeMeta (t : Tables κ) (id : Nat) (md : JTree) : Tables κ :=
  { t with edgeMeta := set t.edgeMeta id md }

/-- Temporal/Multiplex call `add_node` for the nodes of a repeated hyperedge too -/
def retouchNodes (t : Tables κ) (k : κ) : Tables κ :=
  if (Kind.flags κ).storeGivenWeight then (Kind.members k).foldl (fun s n => addNode s n none) t else t

def addEdgeOld (t : Tables κ) (k : κ) (id : Nat) (w : Num) (md : JTree) : Tables κ :=
  retouchNodes (putEdgeMeta (bumpWeight t id w) id md) k

/-- `add_edge(edge, weight, metadata)`; `false` = rejected (ValueError), state unchanged -/
def addEdge (t : Tables κ) (raw : κ) (w : Option Num) (md : Option JTree) : Tables κ × Bool :=
  let wv := w.getD (.int 1)
  if !t.weighted && !wv.isOne then (t, false) else
  let k := Kind.canonK raw
  match get? t.edgeList k with
  | none => (addEdgeNew t k wv (md.getD emptyObj), true)
  | some id => (addEdgeOld t k id wv (md.getD emptyObj), true)

/-- `self._adj[node].remove(id)` -/
def unlinkNode (id : Nat) (t : Tables κ) (n : Nat) : Tables κ :=
  match get? t.adj n with
  | some ids => { t with adj := set t.adj n (ids.erase id) }
  | none => t

def unlinkTarget (id : Nat) (t : Tables κ) (n : Nat) : Tables κ :=
  match get? t.adjT n with
  | some ids => { t with adjT := set t.adjT n (ids.erase id) }
  | none => t

def removeEdgeAt (t : Tables κ) (k : κ) (id : Nat) : Tables κ :=
  let t1 := (Kind.targets k).foldl (unlinkTarget id) ((Kind.members k).foldl (unlinkNode id) t)
  { t1 with rev := erase t1.rev id, edgeMeta := erase t1.edgeMeta id, weights := erase t1.weights id,
            edgeList := erase t1.edgeList k }

/-- `remove_edge(edge)`; `false` = rejected (KeyError / ValueError) -/
def removeEdge (t : Tables κ) (raw : κ) : Tables κ × Bool :=
  let k := Kind.canonK raw
  match get? t.edgeList k with
  | none => (t, false)
  | some id => (removeEdgeAt t k id, true)

/-- one iteration of `remove_node(keep_edges=False)`: `remove_edge(self._reverse_edge_list[id])`.
(An id without reverse entry would be a KeyError in Python; the container invariant of C01–C04 excludes it and
the hash theorems do not depend on it: the model skips.) -/
def dropIncident (t : Tables κ) (id : Nat) : Tables κ :=
  match get? t.rev id with
  | some k => (removeEdge t k).1
  | none => t

/-- one iteration of `remove_node(keep_edges=True)`: the record without the node replaces the record
(weight and metadata read before the removal) -/
def shrinkIncident (n : Nat) (t : Tables κ) (id : Nat) : Tables κ :=
  match get? t.rev id with
  | some k =>
    let w := (get? t.weights id).getD (.int 1)
    let md := (get? t.edgeMeta id).getD emptyObj
    let t1 := (removeEdge t k).1
    match Kind.shrink k n with
    | some k' => (addEdge t1 k' (some w) (some md)).1
    | none => t1
  | none => t

/-- `remove_node(node, keep_edges)`: incident records removed (or shrunk), then the node's adjacency entry
and its metadata entry are deleted (D4/D9 repaired) -/
def removeNode (t : Tables κ) (n : Nat) (keep : Bool) : Tables κ × Bool :=
  match get? t.adj n with
  | none => (t, false)
  | some ids =>
    let all := ids ++ (get? t.adjT n).getD []      -- directed: source records, then target records
    let t1 := if keep then all.foldl (shrinkIncident n) t else all.foldl dropIncident t
    ({ t1 with adj := erase t1.adj n, adjT := erase t1.adjT n, nodeMeta := erase t1.nodeMeta n }, true)

def setNodeMeta (t : Tables κ) (n : Nat) (md : JTree) : Tables κ × Bool :=
  if nodeKnown t n then ({ t with nodeMeta := set t.nodeMeta n md }, true) else (t, false)

def setEdgeMeta (t : Tables κ) (raw : κ) (md : JTree) : Tables κ × Bool :=
  match get? t.edgeList (Kind.canonK raw) with
  | some id => ({ t with edgeMeta := set t.edgeMeta id md }, true)
  | none => (t, false)

def setWeight (t : Tables κ) (raw : κ) (w : Num) : Tables κ × Bool :=
  if !t.weighted && !w.isOne then (t, false) else
  match get? t.edgeList (Kind.canonK raw) with
  | some id => ({ t with weights := set t.weights id w }, true)
  | none => (t, false)

/-- `clear()` (D11 repaired): every table is emptied, ids are not reused -/
def clear (t : Tables κ) : Tables κ :=
  { t with adj := [], adjT := [], edgeList := [], rev := [], weights := [], edgeMeta := [], nodeMeta := [],
           hmeta := if (Kind.flags κ).clearHMeta then emptyObj else t.hmeta }

/-! ### attribute-level setters (`set_attr_to_*`, `remove_attr_from_*`)

The Python code edits the STORED dictionary in place (`self._node_metadata[node][field] = value`).  The tables of the
model are values: an edit replaces the entry of that one node / hyperedge and nothing else.  The real object behaves
like this exactly when no two entries share one dictionary object (the correspondence checks it: batched insertions
without metadata followed by attribute edits). -/

/-- Python `d[field] = value` on a JSON value: only a dict supports it (anything else raises TypeError);
an existing key keeps its position, a new one is appended -/
def JTree.setField : JTree → String → JTree → Option JTree
  | .obj l, f, v => some (.obj (set l f v))
  | _, _, _ => none

/-- Python `del d[field]`: KeyError when the field is missing, TypeError when `d` is not a dict -/
def JTree.delField : JTree → String → Option JTree
  | .obj l, f => if has l f then some (.obj (erase l f)) else none
  | _, _ => none

/-- `set_attr_to_node_metadata` / `remove_attr_from_node_metadata` (all four classes test `node in _node_metadata`);
`edit` is `d[field] = value` or `del d[field]`; `false` = ValueError / KeyError / TypeError, state unchanged -/
def editNodeMeta (t : Tables κ) (n : Nat) (edit : JTree → Option JTree) : Tables κ × Bool :=
  match get? t.nodeMeta n with
  | some md =>
    match edit md with
    | some md' => ({ t with nodeMeta := set t.nodeMeta n md' }, true)
    | none => (t, false)
  | none => (t, false)

/-- `set_attr_to_edge_metadata` / `remove_attr_from_edge_metadata`: the id is looked up under the canonical key,
then `self._edge_metadata[id]` is edited -/
def editEdgeMeta (t : Tables κ) (raw : κ) (edit : JTree → Option JTree) : Tables κ × Bool :=
  match get? t.edgeList (Kind.canonK raw) with
  | some id =>
    match get? t.edgeMeta id with
    | some md =>
      match edit md with
      | some md' => ({ t with edgeMeta := set t.edgeMeta id md' }, true)
      | none => (t, false)
    | none => (t, false)
  | none => (t, false)

/-- `set_attr_to_hypergraph_metadata` -/
def setHAttr (t : Tables κ) (f : String) (v : JTree) : Tables κ × Bool :=
  match t.hmeta.setField f v with
  | some md => ({ t with hmeta := md }, true)
  | none => (t, false)

/-! ### batched calls and the constructor with lists (valid calls: one metadata entry per item or no metadata
argument at all; weights only for hyperedge lists without repetition) -/

/-- `add_nodes(node_list, metadata)`: `add_node(node, metadata[node])` (or `add_node(node, None)`) one after the
other; every node gets ITS OWN entry -/
def addNodes (t : Tables κ) (items : List (Nat × Option JTree)) : Tables κ :=
  items.foldl (fun s p => addNode s p.1 p.2) t

/-- `add_edges(edge_list, weights, metadata)`: a weights list turns the hypergraph weighted; then
`add_edge(edge, weights[i] if weights is not None else None, metadata[i] if metadata is not None else None)`
one after the other; every record gets ITS OWN metadata entry.  (`withW` with an empty list is not generated: the
classes differ on whether the call is made at all.) -/
def addEdges (t : Tables κ) (withW : Bool) (items : List (κ × Option Num × Option JTree)) : Tables κ :=
  items.foldl (fun s it => (addEdge s it.1 (if withW then it.2.1 else none) it.2.2).1)
    (if withW then { t with weighted := true } else t)

/-- constructor with `node_metadata`, `edge_list` (+ `time_list` / `edge_layer`), `weights`, `edge_metadata`:
`add_node(node, md)` for every entry, then `add_edges` -/
def build (κ : Type) [Kind κ] (weighted : Bool) (hm : List (String × JTree)) (nodes : List (Nat × JTree))
    (withW : Bool) (items : List (κ × Option Num × Option JTree)) : Tables κ :=
  addEdges (addNodes (init κ weighted hm) (nodes.map (fun p => (p.1, some p.2)))) withW items

inductive Op (κ : Type) where
  | addNode (n : Nat) (md : Option JTree)
  | addEdge (k : κ) (w : Option Num) (md : Option JTree)
  | removeEdge (k : κ)
  | removeNode (n : Nat) (keep : Bool)
  | setNodeMeta (n : Nat) (md : JTree)
  | setEdgeMeta (k : κ) (md : JTree)
  | setHMeta (md : JTree)
  | setWeight (k : κ) (w : Num)
  | clear
  | addNodes (items : List (Nat × Option JTree))
  | addEdges (withW : Bool) (items : List (κ × Option Num × Option JTree))
  | setNodeAttr (n : Nat) (f : String) (v : JTree)
  | delNodeAttr (n : Nat) (f : String)
  | setEdgeAttr (k : κ) (f : String) (v : JTree)
  | delEdgeAttr (k : κ) (f : String)
  | setHAttr (f : String) (v : JTree)

def step (t : Tables κ) : Op κ → Tables κ × Bool
  | .addNode n md => (addNode t n md, true)
  | .addEdge k w md => addEdge t k w md
  | .removeEdge k => removeEdge t k
  | .removeNode n keep => removeNode t n keep
  | .setNodeMeta n md => setNodeMeta t n md
  | .setEdgeMeta k md => setEdgeMeta t k md
  | .setHMeta md => ({ t with hmeta := md }, true)
  | .setWeight k w => setWeight t k w
  | .clear => (clear t, true)
  | .addNodes items => (addNodes t items, true)
  | .addEdges withW items => (addEdges t withW items, true)
  | .setNodeAttr n f v => editNodeMeta t n (fun d => d.setField f v)
  | .delNodeAttr n f => editNodeMeta t n (fun d => d.delField f)
  | .setEdgeAttr k f v => editEdgeMeta t k (fun d => d.setField f v)
  | .delEdgeAttr k f => editEdgeMeta t k (fun d => d.delField f)
  | .setHAttr f v => setHAttr t f v

def run (t : Tables κ) (ops : List (Op κ)) : Tables κ := ops.foldl (fun s o => (step s o).1) t

/-! ## specification predicates (used by the theorems; no computational content) -/

/-- node record with its metadata as a JSON value up to the order of dictionary keys -/
def normNode (p : Nat × JTree) : Nat × JTree := (p.1, ser p.2)
/-- hyperedge record with its metadata as a JSON value up to the order of dictionary keys -/
def normEdge (e : κ × Num × JTree) : κ × Num × JTree := (e.1, e.2.1, ser e.2.2)

/-- "the same content": the same nodes with the same metadata, the same keys with the same weight (value and
numeric type) and the same metadata, the same hypergraph metadata and weightedness.  Listings are compared as
multisets (the order of insertion is not content); metadata are compared as JSON values, i.e. up to the order
of the keys of their dictionaries (`ser x = ser y`, see `C07_sameValue_iff`). -/
structure Content.Equiv (a b : Content κ) : Prop where
  nodes : (a.nodes.map normNode).Perm (b.nodes.map normNode)
  edges : (a.edges.map normEdge).Perm (b.edges.map normEdge)
  hmeta : ser a.hmeta = ser b.hmeta
  weighted : a.weighted = b.weighted

/-- a content is a pair of maps: no node and no key is listed twice -/
structure Content.WF (c : Content κ) : Prop where
  nodesNodup : (c.nodes.map (·.1)).Nodup
  edgesNodup : (c.edges.map (·.1)).Nodup

/-- what the node tables must satisfy: they are dictionaries and hold entries for exactly the same nodes -/
structure NodeWF (adj : List (Nat × List Nat)) (nodeMeta : List (Nat × JTree)) : Prop where
  adjNodup : (keys adj).Nodup
  nmNodup : (keys nodeMeta).Nodup
  same : ∀ n, n ∈ keys adj ↔ n ∈ keys nodeMeta

/-- what the hyperedge tables must satisfy: `_edge_list` is a dictionary with canonical keys and distinct ids
below the counter; every id in it has a weight and a metadata entry -/
structure EdgeWF (edgeList : List (κ × Nat)) (weights : List (Nat × Num)) (edgeMeta : List (Nat × JTree))
    (nextId : Nat) : Prop where
  elNodup : (keys edgeList).Nodup
  hasW : ∀ k id, get? edgeList k = some id → (get? weights id).isSome = true
  hasM : ∀ k id, get? edgeList k = some id → (get? edgeMeta id).isSome = true
  canonKeys : ∀ k, k ∈ keys edgeList → Kind.canonK k = k
  idsLt : ∀ k id, get? edgeList k = some id → id < nextId
  idsInj : ∀ k₁ k₂ id, get? edgeList k₁ = some id → get? edgeList k₂ = some id → k₁ = k₂

/-- well-formed tables: no entries for removed items, no missing entries for present ones, ids consistent.
(This is the part of the container invariant of C01–C04 that the hash needs; nothing is said about the id
lists inside `adj`/`adjT` or about `rev`.) -/
structure WF (t : Tables κ) : Prop where
  node : NodeWF t.adj t.nodeMeta
  edge : EdgeWF t.edgeList t.weights t.edgeMeta t.nextId

end C07
