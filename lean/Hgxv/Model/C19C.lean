import Hgxv.Model.C19
/-! # C19 extension: `statistical_filters.get_svc` (statistically validated cores), core Lean only.

`get_svc(hypergraph, min_order, max_order, alpha)` works on the same bipartite expansion as `get_svh` (`expand`: one
occurrence per unit of weight, each occurrence its sorted node tuple = `observables`).  It walks the orders
`max_order, max_order-1, .., min_order` (descending); at each order the tested groups are the `order`-subsets
(`itertools.combinations`) of the occurrences that are not an `order`-subset of a group validated at a HIGHER order
(`drop`, from `s_groups`); a group's count is the number of (occurrence, combination) pairs equal to it; the p-value
is `_approximated_pvalue((count, N, deg_a[i]..))` with `N` = number of ALL occurrences and `deg_a` = `Counter(df.a)`
(degrees over all sizes); the Bonferroni unit is `alpha / binom(na, order)` with `na` = number of all nodes; the
threshold is the same step-up scan as in `get_svh`; the validated groups of the order are appended to `s_groups`;
the per-order frames are concatenated in the order they were made. -/
namespace C19

/-- `itertools.combinations(x, k)`: the `k`-sublists in lexicographic order of positions -/
def combos {α : Type} : Nat → List α → List (List α)
  | 0, _ => [[]]
  | _ + 1, [] => []
  | k + 1, x :: xs => (combos k xs).map (fun g => x :: g) ++ combos (k + 1) xs

/-- `deg_a = Counter(df.a)`: number of rows of the bipartite table with node `i` -/
def degAll (occ : List (List Nat)) (i : Nat) : Nat := occ.flatten.count i

/-- `na = df.a.nunique()` -/
def nodesAll (occ : List (List Nat)) : Nat := (dedup occ.flatten).length

/-- `drop`: the `order`-subsets of the groups validated at higher orders -/
def dropOf (sgroups : List (List Nat)) (order : Nat) : List (List Nat) := sgroups.flatMap (combos order)

/-- all (occurrence, combination) pairs of one order, as the combinations, in the order the loop visits them -/
def pairsOf (occ : List (List Nat)) (order : Nat) : List (List Nat) :=
  (occ.filter (fun b => order ≤ b.length)).flatMap (combos order)

/-- the keys of `groups` (a `defaultdict(int)`: first-insertion order) -/
def groupsOf (occ : List (List Nat)) (sgroups : List (List Nat)) (order : Nat) : List (List Nat) :=
  (dedup (pairsOf occ order)).filter (fun g => !(dropOf sgroups order).contains g)

/-- `groups[g]`: how often `g` was counted -/
def countOf (occ : List (List Nat)) (order : Nat) (g : List Nat) : Nat := (pairsOf occ order).count g

structure CoreTable where
  order : Nat
  N : Nat
  na : Nat
  bonf : Rat
  thr : Rat
  rows : List (Row × Bool)

/-- the parameter tuples of one order -/
def coreRows (sf : Nat → Nat → Rat → Rat) (occ : List (List Nat)) (sgroups : List (List Nat)) (order : Nat) :
    List Row :=
  (groupsOf occ sgroups order).map (fun g =>
    let w := countOf occ order g
    let ks := g.map (degAll occ)
    { edge := g, w := w, N := occ.length, ks := ks, p := pvalueWith sf w occ.length ks })

/-- one pass of the loop body: the frame of one order, given the groups validated so far -/
def coreTable (sf : Nat → Nat → Rat → Rat) (alpha : Rat) (occ : List (List Nat)) (sgroups : List (List Nat))
    (order : Nat) : CoreTable :=
  let rows := coreRows sf occ sgroups order
  let ps := rows.map (·.p)
  let bonf := alpha / (choose (nodesAll occ) order : Rat)
  { order := order, N := occ.length, na := nodesAll occ, bonf := bonf, thr := threshold ps bonf,
    rows := rows.map (fun r => (r, validated ps bonf r.p)) }

/-- `temp_df.query("fdr").group.tolist()` -/
def validGroups (t : CoreTable) : List (List Nat) := (t.rows.filter (·.2)).map (·.1.edge)

/-- the loop over the orders with `s_groups` threaded through -/
def coreLoop (sf : Nat → Nat → Rat → Rat) (alpha : Rat) (occ : List (List Nat)) :
    List Nat → List (List Nat) → List CoreTable
  | [], _ => []
  | o :: os, sg =>
    let t := coreTable sf alpha occ sg o
    t :: coreLoop sf alpha occ os (sg ++ validGroups t)

/-- `max(map(len, observables))`, `none` for no observable (`max()` of an empty sequence raises) -/
def maxLen (occ : List (List Nat)) : Option Nat :=
  match occ with
  | [] => none
  | b :: bs => some (bs.foldl (fun m c => max m c.length) b.length)

/-- `if max_order: min(max_order, longest) else: longest`; `None` and `0` are both falsy -/
def effMax (maxOrder : Option Nat) (longest : Nat) : Nat :=
  match maxOrder with
  | none => longest
  | some 0 => longest
  | some m => min m longest

/-- `list(range(min_order, max_order + 1))[::-1]` -/
def ordersDesc (lo hi : Nat) : List Nat := (List.range (hi + 1 - lo)).map (fun i => hi - i)

/-- `get_svc`: `none` = the call raises (`ValueError`: no hyperedge at all, or no order to test:
`pd.concat([])`), else the frames in the order they are concatenated -/
def svc (sf : Nat → Nat → Rat → Rat) (alpha : Rat) (edges : List (List Nat × Nat)) (minOrder : Nat)
    (maxOrder : Option Nat) : Option (List CoreTable) :=
  let occ := expand edges
  match maxLen occ with
  | none => none
  | some longest =>
    let orders := ordersDesc minOrder (effMax maxOrder longest)
    if orders.isEmpty then none else some (coreLoop sf alpha occ orders [])

end C19
