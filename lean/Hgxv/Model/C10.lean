import Hgxv.Model.AList
/-! Model of `hypergraphx/representations/projections.py`, `representations/simplicial_complex.py` and
`measures/edge_similarity.py` (core Lean only).

Input, as the public API returns it: the node list (`h.get_nodes()`, duplicate-free) and the list of distinct
canonical hyperedges (`h.get_edges()`: sorted duplicate-free tuples; directed: `(source, target)` pairs).
`get_incident_edges(n)` is the list of hyperedges containing `n` (C01/C02 prove that about the container; the
theorems about the line graph hold for any order of the incident lists).

networkx graphs are modelled by their two tables: `_node : vertex -> attributes` and the adjacency
`_adj[u][v] -> attributes` (for `nx.Graph` symmetric: `add_edge(u, v)` writes `(u, v)` and `(v, u)`).
In every routine below an attribute is either always or never passed to `add_node`/`add_edge`, so networkx's
"update the attribute dict" is "replace". -/
namespace C10

abbrev Edge := List Nat
abbrev DEdge := List Nat × List Nat

/-! ### networkx `Graph` / `DiGraph` -/

structure Graph (ν : Type) where
  /-- `g._node`: vertex ↦ value of its only attribute (`bipartite`), `none` = no attribute -/
  nodes : List (ν × Option Nat) := []
  /-- `g._adj`: `(u, v)` ↦ value of the only edge attribute (`weight`), `none` = no attribute -/
  adj : List ((ν × ν) × Option Rat) := []

section
variable {ν : Type} [DecidableEq ν]

/-- what `add_edge` does to an end point: create it without attributes when it is new -/
def Graph.touch (g : Graph ν) (v : ν) : Graph ν :=
  if AL.has g.nodes v then g else { g with nodes := g.nodes ++ [(v, none)] }

/-- `g.add_node(v)` / `g.add_node(v, bipartite=a)` -/
def Graph.addNode (g : Graph ν) (v : ν) (a : Option Nat) : Graph ν :=
  match a with
  | none => g.touch v
  | some x => { g with nodes := AL.set g.nodes v (some x) }

/-- `nx.Graph.add_edge(u, v[, weight=w])` -/
def Graph.addEdge (g : Graph ν) (u v : ν) (w : Option Rat) : Graph ν :=
  let g := (g.touch u).touch v
  { g with adj := AL.set (AL.set g.adj (u, v) w) (v, u) w }

/-- `nx.DiGraph.add_edge(u, v[, weight=w])` -/
def Graph.addArc (g : Graph ν) (u v : ν) (w : Option Rat) : Graph ν :=
  let g := (g.touch u).touch v
  { g with adj := AL.set g.adj (u, v) w }

/-- `g.add_nodes_from(vs)` -/
def Graph.addNodesFrom (g : Graph ν) (vs : List ν) : Graph ν := vs.foldl (fun g v => g.touch v) g
end

/-- the pairs `(l[i], l[j])`, `i < j`, in the order of
`for i in range(len(l) - 1): for j in range(i + 1, len(l))` -/
def pairsOf {α : Type} : List α → List (α × α)
  | [] => []
  | a :: t => t.map (fun b => (a, b)) ++ pairsOf t

/-! ### edge_similarity.py (arguments are duplicate-free lists standing for Python sets) -/

/-- `intersection(a, b) = len(a.intersection(b))` -/
def interSize (a b : List Nat) : Nat := (a.filter (fun x => b.contains x)).length
/-- `len(a.union(b))` -/
def unionSize (a b : List Nat) : Nat := a.length + (b.filter (fun x => !a.contains x)).length

/-- `jaccard_similarity(a, b)`; `none` = `ZeroDivisionError` (both sets empty) -/
def jaccard? (a b : List Nat) : Option Rat :=
  if unionSize a b = 0 then none else some ((interSize a b : Rat) / (unionSize a b : Rat))

/-- `jaccard_distance(a, b) = 1 - jaccard_similarity(a, b)` -/
def jaccardDistance? (a b : List Nat) : Option Rat := (jaccard? a b).map (fun x => 1 - x)

inductive Dist | intersection | jaccard
  deriving DecidableEq, Repr

/-- the local `_distance(a, b)` of `line_graph` / `directed_line_graph` -/
def dist? : Dist → List Nat → List Nat → Option Rat
  | .intersection, a, b => some (interSize a b : Rat)
  | .jaccard, a, b => jaccard? a b

/-! ### bipartite_projection -/

inductive BV | N (i : Nat) | E (j : Nat)
  deriving DecidableEq, Repr
/-- keys of `obj_to_id` / values of `id_to_obj`: node labels and hyperedge tuples -/
inductive Obj | node (n : Nat) | edge (e : Edge)
  deriving DecidableEq, Repr

structure Bip where
  g : Graph BV := {}
  idToObj : List (BV × Obj) := []
  objToId : List (Obj × BV) := []

/-- body of `for node in h.get_nodes()` (`p = (node, idx)`) -/
def bipNode (st : Bip) (p : Nat × Nat) : Bip :=
  { g := st.g.addNode (.N p.2) (some 0),
    idToObj := AL.set st.idToObj (.N p.2) (.node p.1),
    objToId := AL.set st.objToId (.node p.1) (.N p.2) }

/-- `g.add_edge(edge_id, obj_to_id[node])`; a node that is not in the table is a `KeyError` in Python
(cannot happen: members of hyperedges are nodes - hypothesis of the theorems), skipped here -/
def bipLink (ev : BV) (st : Bip) (n : Nat) : Bip :=
  match AL.get? st.objToId (.node n) with
  | some v => { st with g := st.g.addEdge ev v none }
  | none => st

/-- body of `for edge in h.get_edges()` (`p = (edge, idx)`; `tuple(sorted(edge))` is the identity on canonical
hyperedges).  Repaired code (fix 0dd3340, D54): the vertex name of the hyperedge is the local `edge_id`; `obj_to_id` holds
node labels only, so it does not matter whether a node label is, as a Python object, equal to a hyperedge tuple. -/
def bipEdge (st : Bip) (p : Edge × Nat) : Bip :=
  let st1 : Bip :=
    { g := st.g.addNode (.E p.2) (some 1),
      idToObj := AL.set st.idToObj (.E p.2) (.edge p.1),
      objToId := st.objToId }
  p.1.foldl (bipLink (.E p.2)) st1

def bipartite (nodes : List Nat) (es : List Edge) : Bip :=
  es.zipIdx.foldl bipEdge (nodes.zipIdx.foldl bipNode {})

/-! #### the routine before the repair: ONE table `obj_to_id` for node labels and hyperedge tuples

Node labels are arbitrary hashable Python objects, in particular tuples: the node `(1, 2)` and the hyperedge
`(1, 2)` are the same dictionary key.  Labels are ranks (`Nat`) in this model, so the coincidence is a parameter:
`tl e = some n` says that the node label `n` is, as a Python object, equal to the tuple of hyperedge `e`
(`none`: no node label equals it - always the case for int / str labels). -/

/-- the key under which `obj_to_id[edge] = ...` is stored -/
def edgeKey (tl : Edge → Option Nat) (e : Edge) : Obj :=
  match tl e with
  | some n => .node n
  | none => .edge e

/-- body of `for edge in h.get_edges()` before the repair: `obj_to_id[edge] = "E" + str(idx)` goes into the table the
inner loop reads the node vertices from -/
def bipEdgeShared (tl : Edge → Option Nat) (st : Bip) (p : Edge × Nat) : Bip :=
  let st1 : Bip :=
    { g := st.g.addNode (.E p.2) (some 1),
      idToObj := AL.set st.idToObj (.E p.2) (.edge p.1),
      objToId := AL.set st.objToId (edgeKey tl p.1) (.E p.2) }
  p.1.foldl (bipLink (.E p.2)) st1

def bipartiteShared (tl : Edge → Option Nat) (nodes : List Nat) (es : List Edge) : Bip :=
  es.zipIdx.foldl (bipEdgeShared tl) (nodes.zipIdx.foldl bipNode {})

/-! ### clique_projection -/

def cliqueEdge (g : Graph Nat) (e : Edge) : Graph Nat :=
  (pairsOf e).foldl (fun g p => g.addEdge p.1 p.2 none) g

def clique (keepIso : Bool) (nodes : List Nat) (es : List Edge) : Graph Nat :=
  let g0 : Graph Nat := if keepIso then nodes.foldl (fun g n => g.addNode n none) {} else {}
  es.foldl cliqueEdge g0

/-! ### line_graph -/

/-- `edge_to_id[e]`: position of `e` in `get_edges()` (a `KeyError` when absent; cannot happen for members of
incident lists) -/
def idOf {α : Type} [BEq α] (es : List α) (e : α) : Nat := es.idxOf e

/-- `id_to_edge` -/
def idTable {α : Type} (es : List α) : List (Nat × α) := es.zipIdx.map (fun p => (p.2, p.1))

/-- `h.get_incident_edges(n)` -/
def incident (es : List Edge) (n : Nat) : List Edge := es.filter (fun e => e.contains n)

/-- `tuple(sorted((i, j)))` -/
def pairKey (i j : Nat) : Nat × Nat := if i ≤ j then (i, j) else (j, i)

structure LG where
  /-- the `vis` dict; as every key is inserted once this list is also the log of the `_distance` calls -/
  vis : List (Nat × Nat) := []
  g : Graph Nat := {}

/-- the graph with vertices `0..m-1`: `g.add_nodes_from([i for i in range(len(h))])` -/
def emptyOn (m : Nat) : Graph Nat := ({} : Graph Nat).addNodesFrom (List.range m)

/-- `g.add_edge(i, j, weight=w)` resp. `weight=1` -/
def lgAdd (g : Graph Nat) (i j : Nat) (weighted : Bool) (w : Rat) : Graph Nat :=
  g.addEdge i j (some (if weighted then w else 1))

/-- innermost loop body of `line_graph` for the pair `(adj[n][i], adj[n][j])`; `none` = exception -/
def lgVisit (es : List Edge) (d : Dist) (s : Rat) (weighted : Bool) (st : LG) (p : Edge × Edge) : Option LG :=
  let i := idOf es p.1
  let j := idOf es p.2
  let k := pairKey i j
  if st.vis.contains k then some st
  else match dist? d p.1 p.2 with
    | none => none
    | some w => some { vis := k :: st.vis, g := if s ≤ w then lgAdd st.g i j weighted w else st.g }

/-- `line_graph` with the incident lists given (one list per node, in node order) -/
def lineGraphFrom (es : List Edge) (d : Dist) (s : Rat) (weighted : Bool) (adj : List (List Edge)) : Option LG :=
  (adj.flatMap pairsOf).foldlM (lgVisit es d s weighted) { vis := [], g := emptyOn es.length }

def lineGraph (nodes : List Nat) (es : List Edge) (d : Dist) (s : Rat) (weighted : Bool) : Option LG :=
  lineGraphFrom es d s weighted (nodes.map (incident es))

/-! #### the table of incident lists as an observed input

`line_graph` does not compute the incident lists from `get_edges()`: it asks the object (`h.get_incident_edges(n)`),
i.e. it reads the container's per-node id lists.  For an object reached through a history (removals, a copy whose
original was changed afterwards, ...) these lists are a second, independent piece of state.  The checks below are the
executable form of the three facts about that table which the line-graph theorems assume; the driver evaluates them on
the table the real object returns, and runs `lineGraphFrom` on that very table. -/

/-- two hyperedges have a common node -/
def sharesNode (a b : Edge) : Bool := a.any (fun n => b.contains n)

/-- every list is duplicate-free and lists hyperedges of `get_edges()` only -/
def incListsOK (es : List Edge) (adj : List (List Edge)) : Bool :=
  adj.all (fun l => decide l.Nodup && l.all (fun e => es.contains e))

/-- the members of one list pairwise have a common node -/
def incSharesOK (adj : List (List Edge)) : Bool :=
  adj.all (fun l => l.all (fun a => l.all (fun b => sharesNode a b)))

/-- every two hyperedges with a common node are together in some list -/
def incCoversOK (es : List Edge) (adj : List (List Edge)) : Bool :=
  es.all (fun a => es.all (fun b => !sharesNode a b || adj.any (fun l => l.contains a && l.contains b)))

def incidentOK (es : List Edge) (adj : List (List Edge)) : Bool :=
  incListsOK es adj && incSharesOK adj && incCoversOK es adj

/-! ### directed_line_graph -/

/-- loop body for `(edge1, edge2)`; `none` = exception -/
def dlgVisit (es : List DEdge) (d : Dist) (s : Rat) (weighted : Bool) (g : Graph Nat) (p : DEdge × DEdge) :
    Option (Graph Nat) :=
  if p.1 = p.2 then some g
  else match dist? d p.1.2 p.2.1 with
    | none => none
    | some w =>
      some (if s ≤ w then g.addArc (idOf es p.1) (idOf es p.2) (if weighted then some w else none) else g)

/-- `for edge1 in edges: for edge2 in edges` -/
def allOrdered {α : Type} (es : List α) : List (α × α) := es.flatMap (fun a => es.map (fun b => (a, b)))

def directedLineGraph (es : List DEdge) (d : Dist) (s : Rat) (weighted : Bool) : Option (Graph Nat) :=
  (allOrdered es).foldlM (dlgVisit es d s weighted) (emptyOn es.length)

/-! ### simplicial_complex -/

/-- `itertools.combinations(l, r)` -/
def combos {α : Type} : List α → Nat → List (List α)
  | _, 0 => [[]]
  | [], _ + 1 => []
  | a :: t, r + 1 => (combos t r).map (fun c => a :: c) ++ combos t (r + 1)

/-- `get_all_subsets(s)`: `chain(*map(lambda x: combinations(s, x), range(0, len(s) + 1)))` -/
def allSubsets {α : Type} (e : List α) : List (List α) := (List.range (e.length + 1)).flatMap (combos e)

/-- `sorted` on node labels -/
def insertSorted (a : Nat) : List Nat → List Nat
  | [] => [a]
  | b :: bs => if a ≤ b then a :: b :: bs else b :: insertSorted a bs
def sortNodes (l : List Nat) : List Nat := l.foldr insertSorted []

/-- `s_edges.add(x)` on a Python set (kept in first-insertion order here; listings are compared sorted) -/
def setAdd (s : List Edge) (x : Edge) : List Edge := if s.contains x then s else s ++ [x]

/-- body of `for edge in h.get_edges()` -/
def simplicialEdge (s : List Edge) (e : Edge) : List Edge :=
  (allSubsets e).foldl (fun s sub => setAdd s (sortNodes sub)) s

/-- hyperedges of `simplicial_complex(h)` (it contains the empty tuple as soon as `h` has a hyperedge) -/
def simplicial (es : List Edge) : List Edge := es.foldl simplicialEdge []

end C10
