import Hgxv.Model.AList
/-! Model for C19 (core Lean only).

Part A - `hypergraphx/filters/metadata_filters.py : filter_hypergraph` on the CONTENT of a container
(`Hypergraph`, `DirectedHypergraph`, `TemporalHypergraph`, `MultiplexHypergraph`): the insertion-ordered
node table `node ↦ metadata` and the insertion-ordered record table `key ↦ (weight, metadata)`.
The container is generic: a key type `κ` with `nodesOf : κ → List Node` and
`shrink : κ → Node → Option κ` (the key that `remove_node(keep_edges=True)` re-inserts, `none` = the
record is dropped).

Part B - `hypergraphx/filters/statistical_filters.py : get_svh`; `scipy.stats.binom.sf` is a parameter
`sf`, `sfExact` is the exact rational tail. -/
namespace C19

abbrev Node := Nat
/-- a metadata dictionary `attribute ↦ value`; the value `none` is Python's `None` -/
abbrev Md := List (Nat × Option Nat)
/-- a criteria dictionary `attribute ↦ allowed values` (`None` may be an allowed value) -/
abbrev Crit := List (Nat × List (Option Nat))

/-- `metadata.get(attr)`: `None` when the attribute is missing -/
def mdGet (md : Md) (a : Nat) : Option Nat :=
  match AL.get? md a with
  | some v => v
  | none => none

/-- `all(metadata.get(attr) in values for attr, values in criteria.items())` -/
def matchesCrit (md : Md) (crit : Crit) : Bool :=
  crit.all (fun p => p.2.contains (mdGet md p.1))

inductive Mode where
  | keep
  | remove
  deriving DecidableEq, Repr

/-- `(mode == "keep" and not matches) or (mode == "remove" and matches)`: the item is put on the
to-process list, i.e. it is going to be removed -/
def selected (mode : Mode) (m : Bool) : Bool :=
  match mode with
  | .keep => !m
  | .remove => m

/-- what a container type contributes -/
structure KeyOps (κ : Type) where
  /-- the nodes a record key is incident to -/
  nodesOf : κ → List Node
  /-- the key re-inserted by `remove_node(node, keep_edges=True)`; `none`: nothing is re-inserted -/
  shrink : κ → Node → Option κ
  /-- the part of the key indexed by the adjacency table that `remove_node` walks first (all nodes for the
  undirected containers; the sources for `DirectedHypergraph`, whose `remove_node` handles the hyperedges where
  the node is a source before those where it is a target) -/
  first : κ → List Node
  /-- `remove_node(keep_edges=True)` first re-inserts all shrunk records and then removes the old ones
  (`Hypergraph`, `DirectedHypergraph`); `false`: record by record, removal then re-insertion
  (`TemporalHypergraph`, `MultiplexHypergraph`) -/
  batch : Bool

/-- content of a container; weights live in any type with `+` -/
structure Content (κ ω : Type) where
  weighted : Bool
  nodes : List (Node × Md)
  edges : List (κ × (ω × Md))

section ops
variable {κ ω : Type} [DecidableEq κ] [Add ω]

/-- `add_node(node)` as called from `add_edge`: a new node gets `{}`, an existing one is untouched -/
def touchNode (nodes : List (Node × Md)) (n : Node) : List (Node × Md) :=
  if (AL.get? nodes n).isSome then nodes else nodes ++ [(n, [])]

def touchNodes (nodes : List (Node × Md)) (ns : List Node) : List (Node × Md) :=
  ns.foldl touchNode nodes

/-- `add_edge` on an existing key: the weight is added when weighted, the metadata is replaced -/
def addEdgeOld (c : Content κ ω) (k : κ) (w0 w : ω) (md : Md) : Content κ ω :=
  { c with edges := AL.set c.edges k (if c.weighted then w0 + w else w0, md) }

/-- `add_edge` on a new key: appended with the given weight and metadata, its nodes are touched.
(`Hypergraph` stores `1` instead of `weight` when unweighted; every weight of an unweighted container
is `1`, and `remove_node` passes the weight of an existing record.) -/
def addEdgeNew (ops : KeyOps κ) (c : Content κ ω) (k : κ) (w : ω) (md : Md) : Content κ ω :=
  { c with edges := c.edges ++ [(k, (w, md))], nodes := touchNodes c.nodes (ops.nodesOf k) }

def addEdge (ops : KeyOps κ) (c : Content κ ω) (k : κ) (w : ω) (md : Md) : Content κ ω :=
  match AL.get? c.edges k with
  | some v => addEdgeOld c k v.1 w md
  | none => addEdgeNew ops c k w md

/-- `remove_edge(key)` for a present key (the filter only removes keys it has just listed) -/
def removeEdge (c : Content κ ω) (k : κ) : Content κ ω :=
  { c with edges := AL.erase c.edges k }

/-- one iteration of the `keep_edges=True` loop of `remove_node`: the incident record `e` (weight and
metadata read before the removal) is removed and, unless it is dropped, re-inserted without the node -/
def shrinkOne (ops : KeyOps κ) (n : Node) (c : Content κ ω) (e : κ × (ω × Md)) : Content κ ω :=
  match ops.shrink e.1 n with
  | none => removeEdge c e.1
  | some k' => addEdge ops (removeEdge c e.1) k' e.2.1 e.2.2

/-- the re-insertion half of a loop iteration (`Hypergraph` / `DirectedHypergraph`: the old record stays for now) -/
def shrinkAdd (ops : KeyOps κ) (n : Node) (c : Content κ ω) (e : κ × (ω × Md)) : Content κ ω :=
  match ops.shrink e.1 n with
  | none => c
  | some k' => addEdge ops c k' e.2.1 e.2.2

/-- the `keep_edges=True` loop(s) of `remove_node` over the incident records `inc` -/
def keepLoop (ops : KeyOps κ) (n : Node) (c : Content κ ω) (inc : List (κ × (ω × Md))) : Content κ ω :=
  if ops.batch then inc.foldl (fun c e => removeEdge c e.1) (inc.foldl (shrinkAdd ops n) c)
  else inc.foldl (shrinkOne ops n) c

/-- records incident to `n` in the order `remove_node` processes them: adjacency table by adjacency table, each
in insertion (= id = adjacency-list) order -/
def incident (ops : KeyOps κ) (c : Content κ ω) (n : Node) : List (κ × (ω × Md)) :=
  c.edges.filter (fun e => (ops.first e.1).contains n && (ops.nodesOf e.1).contains n) ++
  c.edges.filter (fun e => !(ops.first e.1).contains n && (ops.nodesOf e.1).contains n)

/-- `del self._adj[node]` (and the node's metadata row) -/
def dropNode (c : Content κ ω) (n : Node) : Content κ ω :=
  { c with nodes := AL.erase c.nodes n }

/-- `remove_node(node, keep_edges)` -/
def removeNode (ops : KeyOps κ) (keepEdges : Bool) (c : Content κ ω) (n : Node) : Content κ ω :=
  let inc := incident ops c n
  let c' := if keepEdges then keepLoop ops n c inc
            else inc.foldl (fun c e => removeEdge c e.1) c
  dropNode c' n

/-- `nodes_to_process`: computed completely before the first removal -/
def nodesToProcess (c : Content κ ω) (crit : Crit) (mode : Mode) : List Node :=
  (c.nodes.filter (fun x => selected mode (matchesCrit x.2 crit))).map (·.1)

def nodePhase (ops : KeyOps κ) (c : Content κ ω) (crit : Option Crit) (mode : Mode) (keepEdges : Bool) :
    Content κ ω :=
  match crit with
  | none => c
  | some cr => (nodesToProcess c cr mode).foldl (removeNode ops keepEdges) c

/-- `edges_to_process`: computed on the content left by the node phase -/
def edgesToProcess (c : Content κ ω) (crit : Crit) (mode : Mode) : List κ :=
  (c.edges.filter (fun e => selected mode (matchesCrit e.2.2 crit))).map (·.1)

def edgePhase (c : Content κ ω) (crit : Option Crit) (mode : Mode) : Content κ ω :=
  match crit with
  | none => c
  | some cr => (edgesToProcess c cr mode).foldl removeEdge c

/-- `filter_hypergraph(hypergraph, node_criteria, edge_criteria, mode, keep_edges)` -/
def filterHg (ops : KeyOps κ) (c : Content κ ω) (nodeCrit edgeCrit : Option Crit) (mode : Mode)
    (keepEdges : Bool) : Content κ ω :=
  edgePhase (nodePhase ops c nodeCrit mode keepEdges) edgeCrit mode

/-! #### the same calls with their rejections: `remove_node` raises on an absent node, `remove_edge` on an absent
key (`none` = an exception escapes `filter_hypergraph`) -/

def removeEdge? (c : Content κ ω) (k : κ) : Option (Content κ ω) :=
  if (AL.get? c.edges k).isSome then some (removeEdge c k) else none

/-- the inner `remove_edge`/`add_edge` calls of `remove_node` act on keys read from the adjacency lists -/
def removeNode? (ops : KeyOps κ) (keepEdges : Bool) (c : Content κ ω) (n : Node) : Option (Content κ ω) :=
  if (AL.get? c.nodes n).isSome then some (removeNode ops keepEdges c n) else none

def nodePhase? (ops : KeyOps κ) (c : Content κ ω) (crit : Option Crit) (mode : Mode) (keepEdges : Bool) :
    Option (Content κ ω) :=
  match crit with
  | none => some c
  | some cr => (nodesToProcess c cr mode).foldlM (removeNode? ops keepEdges) c

def edgePhase? (c : Content κ ω) (crit : Option Crit) (mode : Mode) : Option (Content κ ω) :=
  match crit with
  | none => some c
  | some cr => (edgesToProcess c cr mode).foldlM removeEdge? c

/-- `filter_hypergraph` with its exceptions -/
def filterHg? (ops : KeyOps κ) (c : Content κ ω) (nodeCrit edgeCrit : Option Crit) (mode : Mode)
    (keepEdges : Bool) : Option (Content κ ω) :=
  (nodePhase? ops c nodeCrit mode keepEdges).bind (fun c1 => edgePhase? c1 edgeCrit mode)

/-! #### vocabulary of the specification -/

/-- the criteria put an item with metadata `md` on the removal list (`none` criteria: never) -/
def critSel (crit : Option Crit) (mode : Mode) (md : Md) : Bool :=
  match crit with
  | none => false
  | some cr => selected mode (matchesCrit md cr)

/-- the nodes removed by the node phase -/
def removedNodes (c : Content κ ω) (crit : Option Crit) (mode : Mode) : List Node :=
  match crit with
  | none => []
  | some cr => nodesToProcess c cr mode

/-- well-formed content (class invariant of the containers, C01-C04): distinct nodes, distinct keys,
every node of a key is a node of the container -/
structure WF (ops : KeyOps κ) (c : Content κ ω) : Prop where
  nodesNodup : (AL.keys c.nodes).Nodup
  keysNodup : (AL.keys c.edges).Nodup
  closed : ∀ e ∈ c.edges, ∀ n ∈ ops.nodesOf e.1, n ∈ AL.keys c.nodes

/-- the only fact about `shrink` the theorems use: the shrunk key has the same nodes except `n` -/
def Lawful (ops : KeyOps κ) : Prop :=
  ∀ k n k', ops.shrink k n = some k' → ∀ m, m ∈ ops.nodesOf k' ↔ (m ∈ ops.nodesOf k ∧ m ≠ n)

/-- what one `remove_node(n, keep_edges=True)` does to a key -/
def stepKey (ops : KeyOps κ) (n : Node) (k : κ) : Option κ :=
  if (ops.nodesOf k).contains n then ops.shrink k n else some k

/-- the key after the removal of the nodes `R` in this order (`none`: dropped on the way) -/
def shrinkAll (ops : KeyOps κ) (R : List Node) (k : κ) : Option κ :=
  R.foldl (fun ok n => ok.bind (stepKey ops n)) (some k)

/-- `add_edge` merge of the incoming record `e` into the current value of its shrunk key -/
def mergeInto (weighted : Bool) (acc : Option (ω × Md)) (e : κ × (ω × Md)) : Option (ω × Md) :=
  match acc with
  | none => some e.2
  | some v => some (if weighted then v.1 + e.2.1 else v.1, e.2.2)

end ops

/-! ### the four container types, all with keys `(node list, tag list)`
`Hypergraph`: `(sorted nodes, [])`; `TemporalHypergraph`: `(sorted nodes, [time])`;
`MultiplexHypergraph`: `(sorted nodes, [layer])`; `DirectedHypergraph`: `(sorted sources, sorted targets)`. -/
abbrev Key := List Nat × List Nat

def without (l : List Nat) (n : Nat) : List Nat := l.filter (· ≠ n)

/-- `Hypergraph`: `tuple(sorted(n for n in edge if n != node))`, also when this is `()` -/
def opsH : KeyOps Key where
  nodesOf k := k.1
  shrink k n := some (without k.1 n, k.2)
  first k := k.1
  batch := true

/-- `TemporalHypergraph` / `MultiplexHypergraph`: `if updated_edge:` - an emptied record is dropped -/
def opsT : KeyOps Key where
  nodesOf k := k.1
  shrink k n := if without k.1 n = [] then none else some (without k.1 n, k.2)
  first k := k.1
  batch := false

/-- `DirectedHypergraph`: a hyperedge that loses a whole side is dropped -/
def opsD : KeyOps Key where
  nodesOf k := k.1 ++ k.2
  shrink k n := if without k.1 n = [] ∨ without k.2 n = [] then none else some (without k.1 n, without k.2 n)
  first k := k.1
  batch := true

/-! ## Part B: statistically validated hypergraph -/

/-- `_get_bipartite_representation`: one occurrence (bipartite "b" vertex) per unit of weight, in
`get_edges()` order; an occurrence is represented by its (sorted) node tuple -/
def expand (edges : List (List Nat × Nat)) : List (List Nat) :=
  edges.flatMap (fun e => List.replicate e.2 e.1)

/-- `.unique()`: first occurrences, in order -/
def dedup {α : Type} [DecidableEq α] (l : List α) : List α :=
  l.foldl (fun acc a => if a ∈ acc then acc else acc ++ [a]) []

/-- `np.sort(orders[(orders >= 2) & (orders <= max_order)])` of the distinct occurrence sizes -/
def sizesOf (occ : List (List Nat)) (bound : Nat) : List Nat :=
  (dedup ((occ.map List.length).filter (fun s => 2 ≤ s ∧ s ≤ bound))).mergeSort (fun a b => a ≤ b)

/-- `sub_edges`: the occurrences of size `n` -/
def subOcc (occ : List (List Nat)) (n : Nat) : List (List Nat) := occ.filter (fun b => b.length = n)

/-- `tuples_order`: the distinct node tuples of size `n` -/
def tuplesOf (occ : List (List Nat)) (n : Nat) : List (List Nat) := dedup (subOcc occ n)

/-- `len(neigh_set_a_sub[node])`: number of size-`n` occurrences containing the node -/
def degK (sub : List (List Nat)) (i : Nat) : Nat := (sub.filter (fun b => b.contains i)).length

/-- `len(reduce(intersection, [neigh_set_a_sub[node] for node in edge]))`: number of size-`n`
occurrences containing every node of the tuple -/
def n12 (sub : List (List Nat)) (e : List Nat) : Nat :=
  (sub.filter (fun b => e.all (fun i => b.contains i))).length

def fact : Nat → Nat
  | 0 => 1
  | n + 1 => (n + 1) * fact n

/-- binomial coefficient (`scipy.special.binom` on small integers) -/
def choose (n k : Nat) : Nat := if k ≤ n then fact n / (fact k * fact (n - k)) else 0

/-- `np.prod(ns / n)` -/
def prodRatio (ks : List Nat) (N : Nat) : Rat := (ks.map (fun (k : Nat) => (k : Rat) / (N : Rat))).foldl (· * ·) 1

/-- one term of the binomial law -/
def pmf (N : Nat) (p : Rat) (j : Nat) : Rat := (choose N j : Rat) * p ^ j * (1 - p) ^ (N - j)

/-- `P(X ≥ w)` for `X ~ Binomial(N, p)`, exactly -/
def tail (w N : Nat) (p : Rat) : Rat := ((List.range (N + 1 - w)).map (fun i => pmf N p (w + i))).foldl (· + ·) 0

/-- exact survival function `sf(k; N, p) = P(X > k)` -/
def sfExact (k N : Nat) (p : Rat) : Rat := tail (k + 1) N p

/-- `_approximated_pvalue((n12, N, K_1, .., K_n))` with `st.binom.sf` as the parameter `sf` -/
def pvalueWith (sf : Nat → Nat → Rat → Rat) (w N : Nat) (ks : List Nat) : Rat := sf (w - 1) N (prodRatio ks N)

/-- the step-up scan: `k[ps < k][-1]` over sorted p-values `ps` and `k_i = i * bonf` (`i` from 1) -/
def stepUp (bonf : Rat) : List Rat → Nat → Rat → Rat
  | [], _, best => best
  | p :: ps, i, best => stepUp bonf ps (i + 1) (if p < (i : Rat) * bonf then (i : Rat) * bonf else best)

/-- `fdr`: the last `k_i` with `p_(i) < k_i`, `0` when there is none (`except: fdr = 0`) -/
def threshold (ps : List Rat) (bonf : Rat) : Rat :=
  stepUp bonf (ps.mergeSort (fun a b => a ≤ b)) 1 0

/-- `temp_df["fdr"] = temp_df["pvalue"] < fdr` -/
def validated (ps : List Rat) (bonf : Rat) (p : Rat) : Bool := p < threshold ps bonf

structure Row where
  edge : List Nat
  w : Nat
  N : Nat
  ks : List Nat
  p : Rat
  deriving Repr

structure SizeTable where
  size : Nat
  N : Nat
  na : Nat
  bonf : Rat
  thr : Rat
  rows : List (Row × Bool)

/-- the parameter tuples of one size -/
def rowsOf (sf : Nat → Nat → Rat → Rat) (occ : List (List Nat)) (n : Nat) : List Row :=
  let sub := subOcc occ n
  (tuplesOf occ n).map (fun e =>
    let w := n12 sub e
    let ks := e.map (degK sub)
    { edge := e, w := w, N := sub.length, ks := ks, p := pvalueWith sf w sub.length ks })

/-- `n_a`: number of distinct nodes in the size-`n` tuples -/
def numNodes (occ : List (List Nat)) (n : Nat) : Nat := (dedup (tuplesOf occ n).flatten).length

/-- `bonf = alpha / binom(n_a, order)` (the code has the literal `0.01` for `alpha`, see notes) -/
def bonfOf (alpha : Rat) (occ : List (List Nat)) (n : Nat) : Rat := alpha / (choose (numNodes occ n) n : Rat)

def sizeTable (sf : Nat → Nat → Rat → Rat) (alpha : Rat) (occ : List (List Nat)) (n : Nat) : SizeTable :=
  let rows := rowsOf sf occ n
  let ps := rows.map (·.p)
  let bonf := bonfOf alpha occ n
  { size := n, N := (subOcc occ n).length, na := numNodes occ n, bonf := bonf, thr := threshold ps bonf,
    rows := rows.map (fun r => (r, validated ps bonf r.p)) }

/-- `get_svh(hypergraph, max_order=bound)` on the weighted edge list `get_edges()` / `get_weight` -/
def svh (sf : Nat → Nat → Rat → Rat) (alpha : Rat) (edges : List (List Nat × Nat)) (bound : Nat) : List SizeTable :=
  (sizesOf (expand edges) bound).map (sizeTable sf alpha (expand edges))

end C19
