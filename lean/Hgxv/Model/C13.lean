/-! # C13 — executable model of the configuration models (core Lean only)

`hypergraphx/generation/configuration_model.py` (`configuration_model`, `_cm_MCMC` with
`label ∈ {'edge','stub'}`) and `hypergraphx/generation/directed_configuration_model.py`.

Node labels are `Nat` (rank of the label in sorted order).  Every random draw of the Python code
is one element of an explicit list of draws, consumed from the left:

* one call `np.random.randint(0, m, 2)`           ↦ `Draw.idx i j`
* one call `np.random.rand()` (used as `< 0.5`)   ↦ `Draw.coin b`
* directed: one call `random.randint(0, m-1)`     ↦ a `Nat`,
            one call `random.choice(seq)`         ↦ the index of the chosen element (a `Nat`).

Results are `Except Err _`:
`raise`   – the Python code raises (`np.random.randint(0, 0, 2)`, `random.choice([])`): no output;
`diverge` – the finite draw list is exhausted before the run returns (the `while len(f1) != len(f2)`
            resampling loop terminates only with probability one);
`badDraw` – the next draw is outside the contract of the sampler that is called
            (index `≥ m`, wrong kind of draw).
-/
namespace C13

inductive Err where
  | raise | diverge | badDraw
deriving Repr, DecidableEq

inductive Draw where
  | idx (i j : Nat)
  | coin (b : Bool)
deriving Repr, DecidableEq

abbrev Edge := List Nat

/-! ## `sorted` -/

def insertSorted (a : Nat) : List Nat → List Nat
  | [] => [a]
  | b :: bs => if a ≤ b then a :: b :: bs else b :: insertSorted a bs

/-- `sorted(e)` (insertion sort; structural, so that it reduces in the kernel) -/
def sortNodes (e : Edge) : Edge := e.foldr insertSorted []

/-! ## `__pairwise_reshuffle` -/

/-- the dealing loop `for v in f: ...`; a coin is consumed only while both lists have room -/
def deal : List Nat → List Nat → List Nat → Nat → Nat → List Draw →
    Except Err (List Nat × List Nat × List Draw)
  | [], g1, g2, _, _, ds => .ok (g1, g2, ds)
  | v :: f, g1, g2, n1, n2, ds =>
    if g1.length < n1 ∧ g2.length < n2 then
      match ds with
      | .coin true :: ds' => deal f (g1 ++ [v]) g2 n1 n2 ds'
      | .coin false :: ds' => deal f g1 (g2 ++ [v]) n1 n2 ds'
      | .idx _ _ :: _ => .error .badDraw
      | [] => .error .diverge
    else if g1.length < n1 then deal f (g1 ++ [v]) g2 n1 n2 ds
    else if g2.length < n2 then deal f g1 (g2 ++ [v]) n1 n2 ds
    else deal f g1 g2 n1 n2 ds

/-- `for v in ix: f.remove(v); f.remove(v)` -/
def strip (f : List Nat) : List Nat → List Nat
  | [] => f
  | v :: ix => strip ((f.erase v).erase v) ix

/-- `ix = list(set(f1) & set(f2))` (the iteration order of the Python set is irrelevant: the
remainder `strip ..` does not depend on it and both results are sorted) -/
def inter (f1 f2 : Edge) : List Nat := f1.filter (fun v => f2.contains v)

def reshuffle (f1 f2 : Edge) (ds : List Draw) : Except Err (Edge × Edge × List Draw) :=
  match deal (strip (f1 ++ f2) (inter f1 f2)) (inter f1 f2) (inter f1 f2) f1.length f2.length ds with
  | .error e => .error e
  | .ok (g1, g2, ds') => .ok (sortNodes g1, sortNodes g2, ds')

/-! ## `__proposal` -/

/-- is the drawn pair accepted? (`while len(f1) != len(f2)` only when `detailed`) -/
def admissible (detailed : Bool) (f1 f2 : Edge) : Bool := !detailed || f1.length == f2.length

/-- scan the stream of index pairs for the first admissible one -/
def pick (detailed : Bool) (es : List Edge) : List Draw →
    Except Err (Nat × Nat × Edge × Edge × List Draw)
  | [] => .error .diverge
  | .coin _ :: _ => .error .badDraw
  | .idx i j :: ds =>
    match es[i]?, es[j]? with
    | some f1, some f2 =>
      if admissible detailed f1 f2 then .ok (i, j, f1, f2, ds) else pick detailed es ds
    | _, _ => .error .badDraw

/-- `np.random.randint(0, 0, 2)` raises `ValueError` -/
def proposal (detailed : Bool) (es : List Edge) (ds : List Draw) :
    Except Err (Nat × Nat × Edge × Edge × List Draw) :=
  if es.isEmpty then .error .raise else pick detailed es ds

/-! ## `mh_step`, the chain, the returned hypergraph -/

def mhStep (detailed : Bool) (es : List Edge) (ds : List Draw) : Except Err (List Edge × List Draw) :=
  match proposal detailed es ds with
  | .error e => .error e
  | .ok (i, j, f1, f2, ds1) =>
    match reshuffle f1 f2 ds1 with
    | .error e => .error e
    | .ok (g1, g2, ds2) => .ok ((es.set i (sortNodes g1)).set j (sortNodes g2), ds2)

/-- `while n < n_steps: mh_step()` -/
def chain (detailed : Bool) : Nat → List Edge → List Draw → Except Err (List Edge × List Draw)
  | 0, es, ds => .ok (es, ds)
  | n + 1, es, ds =>
    match mhStep detailed es ds with
    | .error e => .error e
    | .ok (es', ds') => chain detailed n es' ds'

/-- `list(set(...))` followed by `Hypergraph.add_edges`: coinciding hyperedges are merged
(the order of the listing is that of a Python set, i.e. not specified) -/
def dedup {α} [BEq α] : List α → List α
  | [] => []
  | e :: es => if es.contains e then dedup es else e :: dedup es

inductive Label where
  | edge | stub
deriving Repr, DecidableEq

/-- `stub_edge_mh` -/
def stubEdgeMH (detailed : Bool) (nSteps : Nat) (es : List Edge) (ds : List Draw) :
    Except Err (List Edge) :=
  match chain detailed nSteps es ds with
  | .error e => .error e
  | .ok (es', _) => .ok (dedup (es'.map sortNodes))

/-- `_cm_MCMC` for the two labels the property speaks of: the same routine -/
def cmMCMC (label : Label) (detailed : Bool) (nSteps : Nat) (es : List Edge) (ds : List Draw) :
    Except Err (List Edge) :=
  match label with
  | .edge => stubEdgeMH detailed nSteps es ds
  | .stub => stubEdgeMH detailed nSteps es ds

/-- `Hypergraph.add_edge` on the unweighted result: a hyperedge that is present is not listed twice -/
def addEdge (out : List Edge) (e : Edge) : List Edge := if out.contains e then out else out ++ [e]

/-- `configuration_model`: `size = none` is the plain call, `size = some s` the `size=s` /
`order=s-1` variant (restrict, run, re-add the hyperedges of the other sizes) -/
def configurationModel (label : Label) (detailed : Bool) (size : Option Nat) (nSteps : Nat)
    (es : List Edge) (ds : List Draw) : Except Err (List Edge) :=
  match size with
  | none => cmMCMC label detailed nSteps es ds
  | some s =>
    match cmMCMC label detailed nSteps (es.filter (fun e => e.length == s)) ds with
    | .error e => .error e
    | .ok out => .ok ((es.filter (fun e => e.length != s)).foldl addEdge out)

/-! ## observables of the property -/

/-- number of hyperedges of size `k` that contain `n` -/
def degK (es : List Edge) (n k : Nat) : Nat := es.countP (fun e => e.length == k && e.contains n)
/-- number of hyperedges that contain `n` -/
def deg (es : List Edge) (n : Nat) : Nat := es.countP (fun e => e.contains n)
def sizes (es : List Edge) : List Nat := es.map List.length
/-- the (node, size) incidences of one hyperedge / of a list of hyperedges, with multiplicity -/
def incE (e : Edge) : List (Nat × Nat) := e.map (fun v => (v, e.length))
def incidences (es : List Edge) : List (Nat × Nat) := es.flatMap incE
/-- all stubs (node occurrences), with multiplicity -/
def stubs (es : List Edge) : List Nat := es.flatten

/-! ## directed configuration model -/

abbrev DEdge := List Nat × List Nat

/-- `hyperedge[0]` / `hyperedge[1]` -/
def side (tgt : Bool) (e : DEdge) : List Nat := if tgt then e.2 else e.1
def setSide (tgt : Bool) (e : DEdge) (l : List Nat) : DEdge := if tgt then (e.1, l) else (l, e.2)

/-- `s[s.index(a)] = b` -/
def replaceFirst (s : List Nat) (a b : Nat) : List Nat := s.set (s.idxOf a) b

/-- the two refusal tests `node2 in source1 or node1 in source2` and the swap -/
def swapNodes (tgt : Bool) (es : List DEdge) (id1 id2 : Nat) (e1 e2 : DEdge) (n1 n2 : Nat) : List DEdge :=
  if (side tgt e1).contains n2 || (side tgt e2).contains n1 then es
  else (es.set id1 (setSide tgt e1 (replaceFirst (side tgt e1) n1 n2))).set id2
        (setSide tgt e2 (replaceFirst (side tgt e2) n2 n1))

/-- one iteration of `for _ in range(num_steps_sources)` (`tgt = false`) or of the second loop
(`tgt = true`).  Draw order: `id1, id2`, then (only if `id1 ≠ id2`) `choice(side1), choice(side2)`;
`random.choice([])` raises `IndexError`. -/
def swapStep (tgt : Bool) (es : List DEdge) : List Nat → Except Err (List DEdge × List Nat)
  | id1 :: id2 :: ds =>
    match es[id1]?, es[id2]? with
    | some e1, some e2 =>
      if id1 = id2 then .ok (es, ds)
      else if (side tgt e1).isEmpty then .error .raise
      else match ds with
        | [] => .error .diverge
        | c1 :: ds1 =>
          match (side tgt e1)[c1]? with
          | none => .error .badDraw
          | some n1 =>
            if (side tgt e2).isEmpty then .error .raise
            else match ds1 with
              | [] => .error .diverge
              | c2 :: ds2 =>
                match (side tgt e2)[c2]? with
                | none => .error .badDraw
                | some n2 => .ok (swapNodes tgt es id1 id2 e1 e2 n1 n2, ds2)
    | _, _ => .error .badDraw
  | _ => .error .diverge

def swapLoop (tgt : Bool) : Nat → List DEdge → List Nat → Except Err (List DEdge × List Nat)
  | 0, es, ds => .ok (es, ds)
  | n + 1, es, ds =>
    match swapStep tgt es ds with
    | .error e => .error e
    | .ok (es', ds') => swapLoop tgt n es' ds'

def sortSides (e : DEdge) : DEdge := (sortNodes e.1, sortNodes e.2)

/-- `directed_configuration_model`: `10·m` source steps, `10·m` target steps, both sides sorted,
`DirectedHypergraph(edge_list=...)` merges coinciding hyperedges -/
def directedCM (es : List DEdge) (ds : List Nat) : Except Err (List DEdge) :=
  match swapLoop false (es.length * 10) es ds with
  | .error e => .error e
  | .ok (es1, ds1) =>
    match swapLoop true (es.length * 10) es1 ds1 with
    | .error e => .error e
    | .ok (es2, _) => .ok (dedup (es2.map sortSides))

def outDeg (es : List DEdge) (n : Nat) : Nat := es.countP (fun e => e.1.contains n)
def inDeg (es : List DEdge) (n : Nat) : Nat := es.countP (fun e => e.2.contains n)
def shapes (es : List DEdge) : List (Nat × Nat) := es.map (fun e => (e.1.length, e.2.length))
/-- all source stubs / target stubs, with multiplicity -/
def srcStubs (es : List DEdge) : List Nat := es.flatMap (fun e => e.1)
def tgtStubs (es : List DEdge) : List Nat := es.flatMap (fun e => e.2)

end C13
