import Hgxv.Model.C07
/-! # C07 — model of `json.dumps(serialized, sort_keys=True)` as `hash_hypergraph` calls it (core Lean only)

`hashing.py` writes the serialized pre-image with `json.dumps(obj, sort_keys=True)`: default separators `", "` and
`": "`, `ensure_ascii=True`, no indentation, dictionaries written with their keys sorted (again), lists in order,
`None/True/False` as `null/true/false`, ints in decimal, floats by `float.__repr__`, strings between double quotes
with `\" \\ \n \r \t \b \f`, `\u00XX` for the other characters below space and `\uXXXX` (UTF-16 code units, a surrogate
pair beyond U+FFFF) for everything above `~`.

* `Fmt`          how numbers and characters are written (`pyFmt` = what CPython writes; floats of the model are
                 quarters, `pyFltText` writes the ones that `repr` prints positionally)
* `renderK`      the text of a tree, written in front of a continuation (dictionaries in the order given)
* `dumpsJ`       `json.dumps(·, sort_keys=True)`: the keys of every dictionary are sorted first (`ser`), then written
* `hashText`     the text whose SHA-256 `hash_hypergraph` returns
-/
namespace C07

/-- how atoms are written: numbers and single characters inside strings -/
structure Fmt where
  num : Num → List Char
  esc : Char → List Char

/-- the escaped characters of a string body, in front of `r` -/
def escK (f : Fmt) : List Char → List Char → List Char
  | [], r => r
  | c :: cs, r => f.esc c ++ escK f cs r

/-- `"…"` in front of `r` -/
def quoteK (f : Fmt) (s : String) (r : List Char) : List Char := '"' :: escK f s.toList ('"' :: r)

/-- item separator `", "`: not before the first item -/
def sepK (first : Bool) (r : List Char) : List Char := if first then r else ',' :: ' ' :: r

mutual
/-- the JSON text of a tree in front of `r` (one pass, like the C encoder of `json`) -/
def renderK (f : Fmt) : JTree → List Char → List Char
  | .null, r => 'n' :: 'u' :: 'l' :: 'l' :: r
  | .bool b, r => if b then 't' :: 'r' :: 'u' :: 'e' :: r else 'f' :: 'a' :: 'l' :: 's' :: 'e' :: r
  | .num n, r => f.num n ++ r
  | .str s, r => quoteK f s r
  | .arr l, r => '[' :: itemsK f true l r
  | .obj l, r => '{' :: fieldsK f true l r
def itemsK (f : Fmt) : Bool → List JTree → List Char → List Char
  | _, [], r => ']' :: r
  | first, x :: xs, r => sepK first (renderK f x (itemsK f false xs r))
def fieldsK (f : Fmt) : Bool → List (String × JTree) → List Char → List Char
  | _, [], r => '}' :: r
  | first, (k, v) :: xs, r => sepK first (quoteK f k (':' :: ' ' :: renderK f v (fieldsK f false xs r)))
end

/-- the text of a tree as it stands -/
def render (f : Fmt) (t : JTree) : List Char := renderK f t []

/-- `json.dumps(t, sort_keys=True)`: every dictionary is written with its keys sorted -/
def dumpsJ (f : Fmt) (t : JTree) : String := String.ofList (render f (ser t))

/-! ## what CPython writes -/

def hexDigit (n : Nat) : Char :=
  if n < 10 then Char.ofNat (48 + n) else Char.ofNat (87 + n)

/-- four lower-case hex digits of a UTF-16 code unit -/
def hex4 (n : Nat) : List Char :=
  [hexDigit (n / 4096 % 16), hexDigit (n / 256 % 16), hexDigit (n / 16 % 16), hexDigit (n % 16)]

def uEsc (n : Nat) : List Char := '\\' :: 'u' :: hex4 n

/-- `json.encoder.py_encode_basestring_ascii` / `c_encode_basestring_ascii` for one character -/
def pyEsc (c : Char) : List Char :=
  if c = '"' then ['\\', '"'] else
  if c = '\\' then ['\\', '\\'] else
  if c = '\n' then ['\\', 'n'] else
  if c = '\r' then ['\\', 'r'] else
  if c = '\t' then ['\\', 't'] else
  if c = Char.ofNat 8 then ['\\', 'b'] else
  if c = Char.ofNat 12 then ['\\', 'f'] else
  if 32 ≤ c.toNat ∧ c.toNat ≤ 126 then [c] else
  if c.toNat < 65536 then uEsc c.toNat else
  uEsc (55296 + (c.toNat - 65536) / 1024) ++ uEsc (56320 + (c.toNat - 65536) % 1024)

/-- decimal digits of a natural number (the characters of `Nat.repr`) -/
def digs (n : Nat) : List Char := Nat.toDigits 10 n

/-- `-` in front of negative numbers -/
def signK (neg : Bool) : List Char := if neg then ['-'] else []

/-- decimal text of an int (`int.__repr__`) -/
def pyIntText (i : Int) : List Char := signK (decide (i < 0)) ++ digs i.natAbs

/-- the part after the integer digits of `repr(a/4)` -/
def fracText (m : Nat) : List Char :=
  match m with
  | 0 => ['.', '0']
  | 1 => ['.', '2', '5']
  | 2 => ['.', '5']
  | _ => ['.', '7', '5']

/-- `float.__repr__` of the float `q/4` where the shortest round-trip digits are the exact quarters (`|q/4| < 2^48`):
integer part, point, `0 / 25 / 5 / 75`.  (Beyond that `repr` rounds the fraction - `repr(-2.0**50 - 0.75)` ends in `.8` -
and from `1e16` on uses the exponent form; the text below is then only an injective stand-in and the correspondence does
not compare it.  The theorems need injectivity and the character laws only, which hold for every `q`.) -/
def pyFltText (q : Int) : List Char :=
  signK (decide (q < 0)) ++ (digs (q.natAbs / 4) ++ fracText (q.natAbs % 4))

def pyNumText : Num → List Char
  | .int i => pyIntText i
  | .flt q => pyFltText q

def pyFmt : Fmt := { num := pyNumText, esc := pyEsc }

/-- the text `json.dumps(serialize(expose…()), sort_keys=True)` of a table state; `none` = the code raises -/
def hashText {κ : Type} [Kind κ] (f : Fmt) (t : Tables κ) : Option String := (preimage? t).map (dumpsJ f)

end C07
