import Hgxv.Model.C03
/-! # C03 - the KIND of an answer (round e)

What container a query hands back - a list of records, a map record ↦ metadata, a map record ↦ weight, a list of
numbers, a counting dictionary, a dictionary of snapshots, a plain number - is part of the answer.  In the model it is
the constructor of `Ans`; `Query.kind` is the kind the query and its OPTIONS call for.  `C03_answer_kind`
(Props/C03.lean) says that the content of the object, the position of a window included, never has a say in it; the
driver prints `Ans.kind` for `k`-lines and the harness compares it with the Python type that comes back. -/
namespace C03

inductive Kind
  | rej | bool | int | inf | nodes | ints | recs | recsMeta | recsW | recsId | nodeMeta | dict | idMeta | counts | hs
  deriving DecidableEq, Repr

def Ans.kind : Ans → Kind
  | .rej => .rej
  | .bool _ => .bool
  | .int _ => .int
  | .inf _ => .inf
  | .nodes _ => .nodes
  | .ints _ => .ints
  | .recs _ => .recs
  | .recsMeta _ => .recsMeta
  | .recsW _ => .recsW
  | .recsId _ => .recsId
  | .nodeMeta _ => .nodeMeta
  | .dict _ => .dict
  | .idMeta _ => .idMeta
  | .counts _ => .counts
  | .hs _ => .hs

/-- the kind of answer a query asks for: a function of the query's name and options alone -/
def Query.kind : Query → Kind
  | .nodes => .nodes
  | .nodesMeta => .nodeMeta
  | .checkNode _ => .bool
  | .numNodes => .int
  | .edges _ _ false => .recs
  | .edges _ _ true => .recsMeta
  | .numEdges _ => .int
  | .checkEdge _ _ => .bool
  | .weight _ _ => .int
  | .weights _ true => .recsW
  | .weights _ false => .ints
  | .incident _ _ _ => .recs
  | .neighbors _ _ _ => .nodes
  | .degree _ _ _ => .int
  | .degSeq _ _ => .counts
  | .degDist _ _ => .counts
  | .sizes => .ints
  | .orders => .ints
  | .distSizes => .counts
  | .maxSize => .int
  | .maxOrder => .int
  | .uniform => .bool
  | .weighted => .bool
  | .nodeMeta _ => .dict
  | .edgeMeta _ _ => .dict
  | .allEdgeMeta => .idMeta
  | .hMeta => .dict
  | .isolated _ _ => .nodes
  | .isIsolated _ _ _ => .bool
  | .len => .int
  | .iter => .recsId
  | .timesFor _ => .ints
  | .minTime => .int
  | .maxTime => .int
  | .snap _ => .hs
  | .agg _ => .hs

def Kind.name : Kind → String
  | .rej => "rej" | .bool => "bool" | .int => "int" | .inf => "inf" | .nodes => "nodes" | .ints => "ints"
  | .recs => "recs" | .recsMeta => "recsMeta" | .recsW => "recsW" | .recsId => "recsId" | .nodeMeta => "nodeMeta"
  | .dict => "dict" | .idMeta => "idMeta" | .counts => "counts" | .hs => "hs"

end C03
