import Hgxv.Model.C16
/-! # C16, extension round — all four flag pairs of `_match_sequences`, its error path, the entry points
`sample(deg_seq=...)` / `sample(dim_seq=...)` (core Lean only)

`C16.matchSequences` answers `none` both when the Python raises and for the flag pair
`force_deg_seq and not force_dim_seq`.  Here the run of `_match_sequences` has a result type that keeps the two apart
and records what a raising run leaves behind on the sampler object:

* `MRes.done st`   — the call returned; `st.flag = false` iff `self.matching_sequences = False` was executed;
* `MRes.raised ok` — the call raised (`KeyError` of `nodes_with_deg[0]`, `ValueError` of `Generator.choice` on a too small
  population / of `hye_size < 1`, `TypeError` of `set.union()` without arguments, `AttributeError` of `self.model`);
  `ok = false` iff `self.matching_sequences = False` had been executed before the exception.  Since the repair of D48
  the attribute is `None` at the start of `_match_sequences`, so after the raise it is `None` (`ok`) or `False`.

The second phase of `force_deg_seq and not force_dim_seq` is modelled as the code stands: when a key other than `0` is left
in `nodes_with_deg` (keys are never removed, so: whenever some node had a positive degree) the report becomes `False`, and
when more than one node still has a positive residual degree the loop body is entered, which evaluates `self.model`
(the attribute is called `_model`): `AttributeError`. -/
namespace C16

inductive MRes where
  | done (st : MState)
  | raised (ok : Bool)

/-- `_extract_hye` reaches `except StopIteration:` (which executes `self.matching_sequences = False`): the size is
legal, every draw of the descending loop honours numpy's contract, and nodes are still missing -/
def extractExhausts (keys resid : List Nat) (size : Nat) (picks : List (List Nat)) : Bool :=
  decide (1 ≤ size) &&
    match pickLoop resid (posDegs keys) size picks with
    | some (_, _, _ + 1, _) => true
    | _ => false

/-- one pass of the inner loop of `_match_sequences`, exceptions kept -/
def extractIntoR (size : Nat) (fd fm : Bool) (st : MState) : MRes :=
  match extractInto size fd fm st with
  | some st' => .done st'
  | none => .raised (st.flag && !extractExhausts st.keys st.resid size st.picks)

/-- `for _ in range(dim_seq[hye_size])` -/
def extractManyR (size : Nat) (fd fm : Bool) : Nat → MState → MRes
  | 0, st => .done st
  | k + 1, st =>
    match extractIntoR size fd fm st with
    | .done st' => extractManyR size fd fm k st'
    | .raised ok => .raised ok

/-- `for hye_size in dim_seq` -/
def matchLoopR (fd fm : Bool) : List (Nat × Nat) → MState → MRes
  | [], st => .done st
  | (size, cnt) :: rest, st =>
    match extractManyR size fd fm cnt st with
    | .done st' => matchLoopR fd fm rest st'
    | .raised ok => .raised ok

/-- `sum(len(node_set) for deg, node_set in nodes_with_deg.items() if deg > 0)` -/
def availableNodes (keys resid : List Nat) : Nat :=
  ((keys.filter (fun d => 0 < d)).map (fun d => (bucket resid d).length)).sum

/-- the block `if force_deg_seq and not force_dim_seq:` at the end of `_match_sequences`, as the code stands:
`any(deg != 0 for deg in nodes_with_deg)` looks at the KEYS (also those whose set is empty); the body of
`while available_nodes > 1:` evaluates `self.model` — `AttributeError` -/
def phase2 (st : MState) : MRes :=
  if st.keys.any (fun d => d != 0) then
    if 1 < availableNodes st.keys st.resid then .raised false
    else .done { st with flag := false }
  else .done st

/-- the state `_match_sequences` starts from -/
def matchInit (degSeq : List Nat) (picks : List (List Nat)) : MState :=
  ⟨AL.keys (degToDict degSeq), degSeq, [], true, picks⟩

/-- `_match_sequences(deg_seq, dim_seq, force_deg_seq, force_dim_seq)` for ALL four flag pairs, exceptions kept -/
def matchFull (degSeq : List Nat) (dimSeq : List (Nat × Nat)) (fd fm : Bool) (picks : List (List Nat)) : MRes :=
  match matchLoopR fd fm dimSeq (matchInit degSeq picks) with
  | .done st => if fd && !fm then phase2 st else .done st
  | .raised ok => .raised ok

/-- `sample(deg_seq=d)`: `_match_sequences(d, <size sequence drawn by the inner model>, force_deg_seq=True,
force_dim_seq=False)`, no fixed hyperedges, then the chain and the output stage -/
def sampleFromDeg (degSeq : List Nat) (dimSeq : List (Nat × Nat)) (t : OwnTape) :
    Option (Bool × List (List (Hye × Nat))) :=
  match matchFull degSeq dimSeq true false t.picks with
  | .done st => (sampleFromConfig st.cfg [] none t).map (fun o => (st.flag, o))
  | .raised _ => none

/-! ## one sampler object, several calls — five kinds of arguments, raising calls included -/

/-- the arguments of one `sample(...)` call; `degOnly` = `sample(deg_seq=d)` (the size sequence is drawn by the inner
model, `force_deg_seq and not force_dim_seq`), `dimOnly` = `sample(dim_seq=m)` (the degree sequence is drawn by the inner
model, `force_dim_seq` alone) -/
inductive CallArgsX where
  | hyg (labels : List Nat) (edges : Config)
  | seqs (degSeq : List Nat) (dimSeq : List (Nat × Nat))
  | model
  | degOnly (degSeq : List Nat)
  | dimOnly (dimSeq : List (Nat × Nat))
deriving Repr

structure CallX where
  args : CallArgsX
  own : OwnTape
  inner : InnerTape

/-- `matching_sequences` after a run of `_match_sequences` (repaired code: `None` at its start) -/
def flagOfRes : MRes → Option Bool
  | .done st => some st.flag
  | .raised ok => if ok then none else some false

/-- a call that goes through `_sampling_from_sequences`: new state of the attribute, what the caller sees -/
def seqCallX (degSeq : List Nat) (dimSeq : List (Nat × Nat)) (fd fm : Bool) (fixed : Config) (t : OwnTape) :
    Sampler × Option CallOut :=
  match matchFull degSeq dimSeq fd fm t.picks with
  | .raised ok => (⟨flagOfRes (.raised ok)⟩, none)
  | .done st => (⟨some st.flag⟩, (sampleFromConfig st.cfg fixed none t).map (fun o => ⟨some st.flag, o⟩))

/-- one `sample(...)` call on a sampler in state `s` (repaired code) -/
def callStepX (s : Sampler) (c : CallX) : Sampler × Option CallOut :=
  match c.args with
  | .hyg labels edges => (s, (sampleFromHyg labels edges c.own).map (fun o => ⟨none, o⟩))
  | .seqs degSeq dimSeq => seqCallX degSeq dimSeq true true [] c.own
  | .model => seqCallX c.inner.degSeq c.inner.dimSeq false false c.inner.dyads c.own
  | .degOnly degSeq => seqCallX degSeq c.inner.dimSeq true false [] c.own
  | .dimOnly dimSeq => seqCallX c.inner.degSeq dimSeq false true [] c.own

/-- several calls on ONE sampler object: per call what the caller sees and the attribute after the call -/
def runSessionX : Sampler → List CallX → List (Option CallOut × Option Bool)
  | _, [] => []
  | s, c :: cs => ((callStepX s c).2, (callStepX s c).1.flag) :: runSessionX (callStepX s c).1 cs

/-- the same call on a sampler that has just been built -/
def freshCallX (c : CallX) : Option CallOut := (callStepX ⟨none⟩ c).2

/-- the old three kinds inside the new five -/
def CallArgs.toX : CallArgs → CallArgsX
  | .hyg l e => .hyg l e
  | .seqs d m => .seqs d m
  | .model => .model

def Call.toX (c : Call) : CallX := ⟨c.args.toX, c.own, c.inner⟩

end C16
