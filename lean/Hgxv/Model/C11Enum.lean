import Hgxv.Model.C11
/-! # C11 - the undirected census as an enumeration (core Lean only)

`countedWith n E0 inc g rts`: every node set that one of the three passes of `compute_motifs` classifies, together
with the labelled pattern (bit mask over `hyperedges n`) that this pass hands to the class table, in visiting order:
`_motifs_ho_full`, then (order 4) `_motifs_ho_not_full` with the `visited` dict of the first, then `_motifs_standard`
with the `visited` dict of both.  The iteration orders Python leaves open are parameters:

* `inc x` - the incidence list `graph[x]` of `_motifs_ho_not_full` (order in which the hyperedges were appended),
* `g w`   - the adjacency list `graph[w]` of `_motifs_standard` (it also fixes the order in which `ext` is filled
            and hence popped),
* `rts`   - the order of `graph.keys()` in `_motifs_standard`.

`countedPats n E0` instantiates them the way the sequential code fills its dicts (`incident`, `nbrs`, `roots`). -/
namespace C11

/-- candidates of `_motifs_ho_not_full` in loop order, incidence lists given by `inc` -/
def nfCandsWith (n : Nat) (E : HG) (inc : Nat → HG) : List (List Nat) :=
  (E.filter (·.length + 1 == n)).flatMap fun e => e.flatMap fun x => (inc x).map (unionSet e)

/-- the node sets handed to `count_motif` by the ESU pass; adjacency lists `g`, roots in the order `rts` -/
def esuSetsWith (n : Nat) (g : Nat → List Nat) (rts : List Nat) : List (List Nat) :=
  rts.flatMap fun v => extend n g v [v] ((g v).filter (v < ·)) (g v)

def withPat (n : Nat) (T : HG) (L : List (List Nat)) : List (List Nat × Nat) := L.map fun S => (S, pattern n T S)

/-- (classified node set, labelled pattern handed to the class table) over the three passes, in visiting order -/
def countedWith (n : Nat) (E0 : HG) (inc : Nat → HG) (g : Nat → List Nat) (rts : List Nat) :
    List (List Nat × Nat) :=
  let E := upTo n E0
  let s1 := fullSets n E
  let s2 := if n == 4 then visitNew n s1 (nfCandsWith n E inc) else []
  let s3 := ((esuSetsWith n g rts).map isort).filter (!(s2 ++ s1).contains ·)
  withPat n E s1 ++ (withPat n (smaller n E) s2 ++ withPat n (dyadic E) s3)

def countedPats (n : Nat) (E0 : HG) : List (List Nat × Nat) :=
  countedWith n E0 (incident n (upTo n E0)) (nbrs (upTo n E0)) (roots (upTo n E0))

/-- the classified node sets (sorted lists), in visiting order -/
def counted (n : Nat) (E0 : HG) : List (List Nat) := (countedPats n E0).map (·.1)

/-- the induced sub-hypergraph of the sorted node list `S` with nodes replaced by ranks: bit `i` says whether the
`i`-th rank set of `generate_motifs`' list `A` (`hyperedges n`), read through `S`, is a hyperedge of `E` -/
def inducedMask (n : Nat) (E : HG) (S : List Nat) : Nat :=
  toMask ((hyperedges n).map fun r => E.contains (r.map (S.getD · 0)))

/-- "the pattern `p` is a relabelling of the class `c`" as a computable test -/
def isRelabelOf (n : Nat) (c p : Nat) : Bool := (tbls n).any fun t => applyPerm t c == p

end C11
