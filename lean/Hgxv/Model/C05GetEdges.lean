import Hgxv.Model.C05
/-! # C05 — `get_edges` with ALL its flags

`get_edges(order, size, up_to, subhypergraph, keep_isolated_nodes, metadata)` of `Hypergraph` and `DirectedHypergraph`
hands back one of three kinds of answers.  `Model/C05.lean` has the extraction (`edgesSub`) on its own; here is the whole
function, in the order of the Python code, so that the model can be asked about every combination of the flags. -/
namespace C05

variable {κ : Type} [DecidableEq κ] [Keyed κ]

/-- what `get_edges` returns -/
inductive Answer (κ : Type) where
  /-- the plain listing: a list of hyperedges -/
  | keys (ks : List κ)
  /-- the listing with metadata: `{hyperedge: metadata}` (insertion ordered) -/
  | keysMd (ks : List (κ × Meta))
  /-- `subhypergraph=True`: the extracted hypergraph -/
  | sub (c : Content κ)

/-- `{edge: self.get_edge_metadata(edge) for edge in edges}` -/
def listingMd (src : Content κ) (ks : List κ) : Option (List (κ × Meta)) :=
  ks.mapM (fun k => (getEdgeMeta src k).map (fun md => (k, md)))

/-- `get_edges(order, size, up_to, subhypergraph, keep_isolated_nodes, metadata)`; `none` = raised.
Order of the code: order and size together are rejected; isolated nodes can only be kept in a sub-hypergraph; the
filter; then `subhypergraph` ALONE decides between the extraction and the listing - the `metadata` flag is looked at
only for the listing -/
def getEdges (src : Content κ) (order size : Option Int) (upTo sub keepIso md : Bool) : Option (Answer κ) :=
  match edgeFilter (κ := κ) order size upTo with
  | none => none
  | some p =>
    if sub then (edgesSub src order size upTo keepIso).map Answer.sub
    else if keepIso then none
    else if md then (listingMd src ((keysOf src).filter p)).map Answer.keysMd
    else some (Answer.keys ((keysOf src).filter p))

end C05
