/-! Model of `hypergraphx/communities/hypergraph_mt/model.py` (class `HypergraphMT`) and of the assembly
step of `hypergraphx/communities/hy_sc/model.py` (`HySC.apply_kmeans`).  Core Lean only.

The numerical definitions are *generic in the number type* `α` (only `+ * - /`, `0`, `1`, `<`): the
same text is executed by the driver over `Rat` (exact) and over `Float` (binary64, to follow whole
trajectories of the implementation), and the theorems in `Props/C17.lean` are about the very same
definitions instantiated at an ordered field / at `ℝ`.

Arrays are written in "index style", the way the numpy code reads: a matrix is a list of rows, read with
`at2 m i k` and built with `tab2 n m f` (= `[[f i k for k in range(m)] for i in range(n)]`).

What is a parameter (not modelled, see notes/C17.md): the random draws (dummy row `uk`, the initial
`u0`, `w0`, the node permutations), the Lagrange multipliers returned by `scipy.optimize.root`
(`normalizeU=True`), k-means labels and the eigen-decomposition of `HySC`, `log` (the log-likelihood is
returned as the list of per-hyperedge Poisson means plus the penalty; the harness/theorems apply `log`).
The negative-value repairs of `psiOmega/psiBarOmega` (`abs(x) < 1e-3 -> 0`) are modelled (`barRepair`,
`psiRepairLast`, `psiRepairAbs`) because in binary64 they fire all the time on rounding noise (a sum that is
exactly 0 comes out as `-1e-18`); in exact arithmetic they never fire (`C17_psi`). -/
namespace C17

abbrev Mat (α : Type) := List (List α)

section
variable {α : Type} [Add α] [Mul α] [Sub α] [Div α] [Zero α] [One α] [LT α] [DecidableLT α]

def at1 (l : List α) (k : Nat) : α := l.getD k 0
def at2 (m : Mat α) (i k : Nat) : α := (m.getD i []).getD k 0
def tab (n : Nat) (f : Nat → α) : List α := (List.range n).map f
def tab2 (n m : Nat) (f : Nat → Nat → α) : Mat α := (List.range n).map (fun i => (List.range m).map (f i))
/-- `sum(f(i) for i in range(n))` -/
def sumR (n : Nat) (f : Nat → α) : α := ((List.range n).map f).sum
def prodL (l : List α) : α := l.foldr (· * ·) 1
def npow (x : α) : Nat → α
  | 0 => 1
  | n + 1 => x * npow x n
def ofN : Nat → α
  | 0 => 0
  | n + 1 => ofN n + 1
def absv (x : α) : α := if x < 0 then 0 - x else x

/-- elementary symmetric polynomial `e_d(xs)` by the recurrence `e_d(x::xs) = e_d(xs) + x·e_{d-1}(xs)` -/
def esymm : Nat → List α → α
  | 0, _ => 1
  | _ + 1, [] => 0
  | d + 1, x :: xs => esymm (d + 1) xs + x * esymm d xs

/-- column `k` of the `N × K` matrix `u` -/
def col (N : Nat) (u : Mat α) (k : Nat) : List α := tab N (fun i => at2 u i k)

/-- Pascal's triangle (`scipy.special.comb(n, d)`) -/
def binom : Nat → Nat → Nat
  | _, 0 => 1
  | 0, _ + 1 => 0
  | n + 1, d + 1 => binom n (d + 1) + binom n d

/-- static data of one `fit` call -/
structure Cfg (α : Type) where
  N : Nat
  K : Nat
  D : Nat
  /-- hyperedges as lists of node indices (rows of the incidence matrix) -/
  edges : List (List Nat)
  /-- hyperedge weights `hye_weights` -/
  A : List α
  /-- `min_value_par` -/
  minv : α
  /-- `max_value_par` and the value written when it is exceeded (`1e2` in the code); `none`: no upper clamp -/
  maxv : Option (α × α)
  /-- `DEFAULT_EPS` inside the logarithm of `_update_rho/_LogLikelihood` -/
  eps : α
  /-- bound `1e-3` below which a negative entry of `psiOmega/psiBarOmega` is "repaired" -/
  rtol : α
  normU : Bool

/-- dynamic state: `u`, `w`, `psiOmega`, `psiBarOmega` (both `D × K`, row `d` = degree `d+1`), `rho`;
`lams` = Lagrange multipliers still to be consumed (only `normalizeU=True`) -/
structure St (α : Type) where
  u : Mat α
  w : Mat α
  psi : Mat α
  bar : Mat α
  rho : Mat α
  lams : List α

variable (c : Cfg α)

def Cfg.E : Nat := c.edges.length
def Cfg.edge (e : Nat) : List Nat := c.edges.getD e []
def Cfg.wt (e : Nat) : α := at1 c.A e
/-- `i in isolates`: no stored entry in row `i` of the incidence matrix -/
def Cfg.isIso (i : Nat) : Bool := !c.edges.any (fun e => e.contains i)

/-! ### `_update_rho` -/

/-- `exp(sum_{i in e} log(u[i,k] + EPS))` -/
def edgeProd (u : Mat α) (e : List Nat) (k : Nat) : α := prodL (e.map (fun i => at2 u i k + c.eps))
/-- `w[|e|-2, k] * prod_{i in e} (u[i,k] + EPS)`: unnormalised responsibility of community `k` for hyperedge `e` -/
def cEK (u w : Mat α) (e k : Nat) : α := at2 w ((c.edge e).length - 2) k * edgeProd c u (c.edge e) k
/-- Poisson mean of hyperedge `e` -/
def lamE (u w : Mat α) (e : Nat) : α := sumR c.K (cEK c u w e)
def rhoUpdate (u w : Mat α) : Mat α :=
  tab2 c.E c.K (fun e k => if 0 < lamE c u w e then cEK c u w e k / lamE c u w e else cEK c u w e k)

/-! ### `_update_w` -/

def wNum (rho : Mat α) (d k : Nat) : α :=
  sumR c.E (fun e => if (c.edge e).length = d + 2 then c.wt e * at2 rho e k else 0)
def wUpdate (rho psi : Mat α) : Mat α :=
  tab2 (c.D - 1) c.K (fun d k => if 0 < at2 psi (d + 1) k then wNum c rho d k / at2 psi (d + 1) k else wNum c rho d k)

/-! ### `_update_psiBarOmega`, `_update_psiOmega` (without the repairs) -/

/-- `psiBarOmega[d][k]` after the update for a node whose entry in column `k` is `x` -/
def barAt (psi : Mat α) (x : α) (k : Nat) : Nat → α
  | 0 => at2 psi 0 k - x
  | d + 1 => at2 psi (d + 1) k - x * barAt psi x k d
/-- columns with `act k` are recomputed, the others keep their (stale) content -/
def barUpd (act : Nat → Bool) (x : Nat → α) (psi bar : Mat α) : Mat α :=
  tab2 c.D c.K (fun d k => if act k then barAt psi (x k) k d else at2 bar d k)
/-- `psi[0][k] += delta`, `psi[d][k] += delta * bar[d-1][k]` on the active columns -/
def psiUpd (act : Nat → Bool) (delta : Nat → α) (psi bar : Mat α) : Mat α :=
  tab2 c.D c.K (fun d k => if act k then at2 psi d k + delta k * (match d with | 0 => 1 | d' + 1 => at2 bar d' k)
                            else at2 psi d k)
def setRow (u : Mat α) (i : Nat) (v : Nat → α) : Mat α :=
  tab2 c.N c.K (fun j k => if j = i then v k else at2 u j k)

/-! ### `_update_u`, one node -/

def clampLow (x : α) : α := if x < c.minv then 0 else x
def clampHigh (x : α) : α := match c.maxv with
  | some (t, v) => if t < x then v else x
  | none => x
/-- numerator `sum_{e ∋ i} A_e rho[e,k]` -/
def uNum (rho : Mat α) (i k : Nat) : α :=
  sumR c.E (fun e => if (c.edge e).contains i then c.wt e * at2 rho e k else 0)
/-- denominator `sum_d w[d,k] psiBar[d,k]`, `d = 0..D-2` -/
def uDen (w bar : Mat α) (k : Nat) : α := sumR (c.D - 1) (fun d => at2 w d k * at2 bar d k)
/-- value before `check_u` and the clamps; `lam` is the Lagrange multiplier (used iff `normalizeU`); without
normalisation a vanishing denominator gives 0 (the `where=non_zeros` guard, as in `_update_w`) -/
def uRaw (lam : α) (rho w bar : Mat α) (i k : Nat) : α :=
  if c.normU then
    (if uNum c rho i k / uDen c w bar k < c.minv then 0 else uNum c rho i k) / (lam + uDen c w bar k)
  else if 0 < uDen c w bar k then uNum c rho i k / uDen c w bar k else 0

def anyK (p : Nat → Bool) : Bool := (List.range c.K).any p

/-! ### the negative-value repairs -/

def isNeg (x : α) : Bool := decide (x < 0)
/-- a negative entry that is not small: `not (abs(x) < 1e-3)` -/
def isNegBig (x : α) : Bool := isNeg x && !decide (absv x < c.rtol)
def hasNeg (m : Mat α) : Bool := m.any (fun r => r.any isNeg)
def zeroNeg (x : α) : α := if x < 0 then 0 else x
/-- end of `_update_psiBarOmega`: if every negative entry of the whole matrix is small, they are all set to 0 -/
def barRepair (m : Mat α) : Mat α :=
  if m.any (fun r => r.any (isNegBig c)) then m else m.map (fun r => r.map zeroNeg)
/-- `success` of `_update_psiBarOmega`: no negative entry is left -/
def barOk (m : Mat α) : Bool := !hasNeg m
/-- end of `_update_psiOmega`: the same repair on the last row (`d = D-1`, the loop variable after the loop) only -/
def psiRepairLast (m : Mat α) : Mat α :=
  if anyK c (fun k => isNegBig c (at2 m (c.D - 1) k)) then m
  else tab2 c.D c.K (fun d k => if d = c.D - 1 then zeroNeg (at2 m d k) else at2 m d k)
/-- the `if r == 0` check of `_update_psiOmega`: small negative entries are replaced by their absolute value -/
def psiRepairAbs (m : Mat α) : Mat α :=
  m.map (fun r => r.map (fun x => if isNeg x && decide (absv x < c.rtol) then absv x else x))

/-- `ks = np.where(u[i] > min_value_par)` as a mask -/
def actK (s : St α) (i k : Nat) : Bool := decide (c.minv < at2 s.u i k)
/-- `psiBarOmega` after `_update_psiBarOmega(i, ks)` -/
def barNew (s : St α) (i : Nat) : Mat α :=
  barRepair c (barUpd c (actK c s i) (fun k => at2 s.u i k) s.psi s.bar)
def rawNew (s : St α) (i k : Nat) : α := uRaw c (s.lams.headD 0) s.rho s.w (barNew c s i) i k
/-- `check_u`: some freshly computed entry is negative (then all of them are replaced by their absolute value) -/
def negNew (s : St α) (i : Nat) : Bool := anyK c (fun k => actK c s i k && decide (rawNew c s i k < 0))
/-- the new row `u[i]` after `check_u` and both clamps -/
def vNew (s : St α) (i k : Nat) : α :=
  clampHigh c (clampLow c
    (if actK c s i k then (if negNew c s i then absv (rawNew c s i k) else rawNew c s i k) else at2 s.u i k))

/-- one pass of the body of the `for i in perm` loop of `_update_u` -/
def uNode (s : St α) (i : Nat) : St α :=
  if !anyK c (actK c s i) then s
  else if !barOk (barNew c s i) then { s with bar := barNew c s i }
  else { s with u := setRow c s.u i (vNew c s i),
                bar := barNew c s i,
                psi := psiRepairLast c (psiUpd c (actK c s i) (fun k => vNew c s i k - at2 s.u i k) s.psi (barNew c s i)),
                lams := if c.normU then s.lams.tail else s.lams }

def uSweep (s : St α) (perm : List Nat) : St α := perm.foldl (uNode c) s

/-- `_update_em` (w, rho, u in the order `perm`, rho) -/
def emSweep (s : St α) (perm : List Nat) : St α :=
  let w' := wUpdate c s.rho s.psi
  let s1 := { s with w := w', rho := rhoUpdate c s.u w' }
  let s2 := uSweep c s1 perm
  { s2 with rho := rhoUpdate c s2.u s2.w }

/-! ### `_initialize_psiOmega`, `_initial_update_u_psi` -/

/-- `u0_dummy` row: the draw `uk` divided by its sum -/
def dummyRow (uk : List α) : List α :=
  let s := uk.sum
  if 0 < s then uk.map (· / s) else uk
/-- closed form for `N` equal rows `x`: `psi[0,k] = N x_k`, `psi[d,k] = x_k^(d+1) C(N_k, d+1)` -/
def psiInit (x : List α) : Mat α :=
  tab2 c.D c.K (fun d k =>
    let nk := if (decide (0 < at1 x k) || decide (at1 x k < 0)) then c.N else 0
    match d with
    | 0 => ofN c.N * at1 x k
    | d' + 1 => npow (at1 x k) (d' + 2) * ofN (binom nk (d' + 2)))
/-- row `i` of the first real `u`: `u0[i] / sum(u0[i])`, low values set to 0; zero for an isolated node -/
def initRow (u0 : Mat α) (i k : Nat) : α :=
  if c.isIso i then 0 else clampLow c (at2 u0 i k / sumR c.K (fun k' => at2 u0 i k'))
/-- body of the loop of `_initial_update_u_psi` (all columns are recomputed) -/
def initNode (r0 : Bool) (u0 : Mat α) (s : St α) (i : Nat) : St α :=
  let bar' := barRepair c (barUpd c (fun _ => true) (fun k => at2 s.u i k) s.psi s.bar)
  let psi' := psiRepairLast c (psiUpd c (fun _ => true) (fun k => initRow c u0 i k - at2 s.u i k) s.psi bar')
  { s with u := setRow c s.u i (initRow c u0 i),
           bar := bar',
           psi := if r0 then psiRepairAbs c psi' else psi' }
/-- state after `_initialize_psiOmega`, `_initialize_u_w`, `_initial_update_u_psi`, `_update_rho` -/
def initState (r0 : Bool) (uk : List α) (u0 w0 : Mat α) (lams : List α) : St α :=
  let x := dummyRow uk
  let s0 : St α := { u := tab2 c.N c.K (fun _ k => at1 x k), w := w0, psi := psiInit c x,
                     bar := tab2 c.D c.K (fun _ _ => 0), rho := [], lams := lams }
  let s1 := (List.range c.N).foldl (initNode c r0 u0) s0
  { s1 with rho := rhoUpdate c s1.u s1.w }

/-! ### `_LogLikelihood` without the logarithm -/

/-- `sum(w[0:D-1] * psiOmega[1:D])`: the penalty read from the maintained table -/
def penIncr (w psi : Mat α) : α := sumR (c.D - 1) (fun d => sumR c.K (fun k => at2 w d k * at2 psi (d + 1) k))
/-- the same from the definition: `sum_{d,k} w[d,k] e_{d+2}(u[:,k])` -/
def penDef (u w : Mat α) : α :=
  sumR (c.D - 1) (fun d => sumR c.K (fun k => at2 w d k * esymm (d + 2) (col c.N u k)))
/-- Poisson means of all hyperedges (`np.sum(tmp, axis=1)`) -/
def lamAll (u w : Mat α) : List α := tab c.E (lamE c u w)

end

/-! ## bookkeeping of `fit` (generic in the type of the parameters) -/
section
variable {α : Type} [Sub α] [Zero α] [LT α] [DecidableLT α]

def absd (x : α) : α := if x < 0 then 0 - x else x

structure Conv (α : Type) where
  loglik : α
  nTol : Nat
  conv : Bool
  it : Nat
  /-- `train_info` rows of this realisation, newest first: `(it, loglik, converged)` -/
  rows : List (Nat × α × Bool)

/-- `_check_for_convergence` followed by the `train_info.append` and `it += 1` of `fit`;
`L` is the value `_LogLikelihood()` would return now -/
def convStep (tol : α) (thr every : Nat) (s : Conv α) (L : α) : Conv α :=
  let chk := s.it % every = 0
  let loglik := if chk then L else s.loglik
  let nTol := if chk then (if absd (L - s.loglik) < tol then s.nTol + 1 else 0) else s.nTol
  let conv := if thr < nTol then true else s.conv
  { loglik := loglik, nTol := nTol, conv := conv, it := s.it + 1,
    rows := if chk then (s.it, loglik, conv) :: s.rows else s.rows }

/-- the `while not converged and it < max_iter` loop; `Ls` lists the values the successive sweeps give
(the loop reads as many as it needs) -/
def runReal (tol : α) (thr every maxIter : Nat) (inf : α) (Ls : List α) : Conv α :=
  go maxIter Ls { loglik := inf, nTol := 0, conv := false, it := 0, rows := [] }
where go : Nat → List α → Conv α → Conv α
  | 0, _, s => s
  | _ + 1, [], s => s
  | n + 1, L :: Ls, s => if s.conv then s else go n Ls (convStep tol thr every s L)

/-- `(maxL, best)`: the `if self.maxL < loglik` update after each realisation -/
def bestStep {β : Type} (acc : α × Option β) (r : α × β) : α × Option β :=
  if acc.1 < r.1 then (r.1, some r.2) else acc
def bestOf {β : Type} (inf : α) (rs : List (α × β)) : α × Option β := rs.foldl bestStep (inf, none)

/-! ### several calls of `fit` on ONE `HypergraphMT` object

What the object carries from one call to the next and `fit` reads again: `self.maxL` and the stored optimum
`(u_f, w_f)` (`none`: attribute not set yet).  Everything else (`prng`, `u`, `w`, the tables, `train_info`) is rebuilt by
`_check_fit_params` / inside the loop before it is read. -/

/-- one call of `fit` on an object in state `o`, as repaired (D52): `self.maxL = -inf` first, then the
`if self.maxL < loglik` update per realisation.  The result is what the call returns `(maxL, (u_f, w_f))` and the state
the object is left in -/
def fitCall {β : Type} (inf : α) (o : α × Option β) (rs : List (α × β)) : α × Option β :=
  rs.foldl bestStep (inf, o.2)

/-- the same call before the repair: `maxL` was initialised in `__init__` only -/
def fitCallStale {β : Type} (o : α × Option β) (rs : List (α × β)) : α × Option β :=
  rs.foldl bestStep o

/-- a session: the calls of `fit` made on one object, in order (each with the finals of its realisations); the list
of what the calls return -/
def session {β : Type} (inf : α) : (α × Option β) → List (List (α × β)) → List (α × Option β)
  | _, [] => []
  | o, rs :: cs => fitCall inf o rs :: session inf (fitCall inf o rs) cs

/-- the session before the repair -/
def sessionStale {β : Type} : (α × Option β) → List (List (α × β)) → List (α × Option β)
  | _, [] => []
  | o, rs :: cs => fitCallStale o rs :: sessionStale (fitCallStale o rs) cs
end

/-! ## `HySC.apply_kmeans`: assembly of the 0/1 matrix from the k-means labels -/

/-- `X_pred = zeros((N, K)); for idx, i in enumerate(non_isolates): X_pred[i, y_pred[idx]] = 1` -/
def assemble (N K : Nat) (nonIso : List Nat) (labels : List Nat) : List (List Nat) :=
  (nonIso.zip labels).foldl
    (fun X p => (List.range N).map (fun j => (List.range K).map (fun k =>
      if j = p.1 ∧ k = p.2 then 1 else (X.getD j []).getD k 0)))
    ((List.range N).map (fun _ => (List.range K).map (fun _ => 0)))

/-- `non_isolates` -/
def nonIsolates (N : Nat) (edges : List (List Nat)) : List Nat :=
  (List.range N).filter (fun i => edges.any (fun e => e.contains i))

end C17
