import Hgxv.Model.C16Ext
/-! # C16, second extension round: the argument checks of `_sampling_from_sequences` before `_match_sequences`

```
assert deg_seq.shape == (N,)
assert all(dim <= N for dim in dim_seq), "The dimension sequence contains values that exceed ..."
```
Both raise `AssertionError` BEFORE `_match_sequences` is entered: nothing is delivered and the attribute
`matching_sequences` is not touched (not even reset to `None`) - unlike an exception inside `_match_sequences`
(`C16.flagOfRes`).  `N` = number of nodes of the model.  Core Lean only. -/
namespace C16

inductive Guard where
  | ok | badShape | badDim
deriving Repr, DecidableEq

/-- the two `assert`s, in the order of the code -/
def argGuard (N : Nat) (degSeq : List Nat) (dimSeq : List (Nat × Nat)) : Guard :=
  if degSeq.length = N then
    if dimSeq.all (fun p => decide (p.1 ≤ N)) then .ok else .badDim
  else .badShape

/-- the sequences `_sampling_from_sequences` checks (given by the caller or drawn by the inner model); `none` for
`sample(initial_hyg=...)`, which does not go through `_sampling_from_sequences` -/
def seqsOf (c : CallX) : Option (List Nat × List (Nat × Nat)) :=
  match c.args with
  | .hyg _ _ => none
  | .seqs d m => some (d, m)
  | .model => some (c.inner.degSeq, c.inner.dimSeq)
  | .degOnly d => some (d, c.inner.dimSeq)
  | .dimOnly m => some (c.inner.degSeq, m)

/-- does the call get past the argument checks -/
def accepted (N : Nat) (c : CallX) : Bool :=
  match seqsOf c with
  | none => true
  | some (d, m) => decide (argGuard N d m = .ok)

/-- one `sample(...)` call on a sampler over a model with `N` nodes, argument checks included -/
def callStepG (N : Nat) (s : Sampler) (c : CallX) : Sampler × Option CallOut :=
  if accepted N c then callStepX s c else (s, none)

/-- several calls on ONE sampler object, calls refused by the argument checks included -/
def runSessionG (N : Nat) : Sampler → List CallX → List (Option CallOut × Option Bool)
  | _, [] => []
  | s, c :: cs => ((callStepG N s c).2, (callStepG N s c).1.flag) :: runSessionG N (callStepG N s c).1 cs

end C16
