import Hgxv.Model.C01X
import Hgxv.Model.C03Ext
/-!
# C01, second extension: the constructor as ONE call, the hashing view, `get_mapping`, the raw tables

Core Lean only.  `Model/C01.lean` and `Model/C01X.lean` are unchanged; these definitions sit on top.  The generic
`sortBy` / `ltList` / `ltNat` / `indexOf?` are the ones of `Model/C03Ext.lean` (labels are ranks: Python's order on
labels is `<` on `Nat`, on sorted node tuples it is the lexicographic `ltList`).
-/
namespace C01
open AL

/-! ## `Hypergraph(edge_list, weighted, weights, hypergraph_metadata, node_metadata, edge_metadata)` -/

/-- the constructor's arguments.  `hm` = `hypergraph_metadata or {}`; `nodeMeta` = the items of `node_metadata` in dict
order (`None` / `{}`: `[]`, the loop `if node_metadata:` does not run); `edges` = `edge_list` (`None` / empty: `[]`,
`if edge_list:` is false) -/
structure CtorArgs where
  weighted : Bool := false
  hm : Meta := []
  nodeMeta : List (Node × Meta) := []
  edges : List (List Nat) := []
  weights : Option (List Int) := none
  emetas : Option (List Meta) := none
  deriving DecidableEq, Repr

/-- `for node, metadata in node_metadata.items(): self.add_node(node, metadata=metadata)` -/
def ctorNodes (s : Store) (nm : List (Node × Meta)) : Store := nm.foldl (fun s p => addNode s p.1 (some p.2)) s

/-- `weighted and weights is not None and len(edge_list) != len(weights)` -/
def ctorLenBad (a : CtorArgs) : Bool :=
  a.weighted && (match a.weights with
    | some ws => decide (a.edges.length ≠ ws.length)
    | none => false)

/-- `__init__` as the code runs it; `none` = it raised (there is no object) -/
def construct (a : CtorArgs) : Option Store :=
  let s := ctorNodes (Store.new a.weighted a.hm) a.nodeMeta
  if a.edges.isEmpty then some s
  else if ctorLenBad a then none
  else match addEdges s a.edges a.weights a.emetas with
    | (s', .ok) => some s'
    | (_, .rej) => none

def Spec.ctorNodes (sp : Spec) (nm : List (Node × Meta)) : Spec := nm.foldl (fun sp p => Spec.addNode sp p.1 (some p.2)) sp

/-- the same text on the abstract hypergraph -/
def Spec.construct (a : CtorArgs) : Option Spec :=
  let sp := Spec.ctorNodes (Spec.new a.weighted a.hm) a.nodeMeta
  if a.edges.isEmpty then some sp
  else if ctorLenBad a then none
  else match Spec.addEdges sp a.edges a.weights a.emetas with
    | (sp', .ok) => some sp'
    | (_, .rej) => none

/-- the public calls an accepted constructor call stands for, on slot `i` -/
def ctorCmds (i : Nat) (a : CtorArgs) : List Cmd :=
  Cmd.new i a.weighted a.hm :: (a.nodeMeta.map (fun p => Cmd.on i (.addNode p.1 (some p.2)))
    ++ (if a.edges.isEmpty then [] else [Cmd.on i (.addEdges a.edges a.weights a.emetas)]))

/-- the property's quantifier: hyperedges are node SETS -/
def CtorArgs.WF (a : CtorArgs) : Prop := ∀ r ∈ a.edges, r.Nodup

instance (a : CtorArgs) : Decidable a.WF := by unfold CtorArgs.WF; infer_instance

/-! ## `expose_attributes_for_hashing()` -/

structure HashView where
  weighted : Bool
  hmeta : Meta
  edges : List (Edge × (Int × Meta))
  nodes : List (Node × Meta)
  deriving DecidableEq, Repr

/-- one record of the loop `for edge in sorted(self._edge_list.keys())`: `sorted(edge)`, `edge_id = self._edge_list[edge]`
(the entry itself), `_weights.get(edge_id, 1)`, `_edge_metadata.get(edge_id, {})` -/
def hashEdge (s : Store) (p : Edge × Nat) : Edge × (Int × Meta) :=
  (canon p.1, ((get? s.weights p.2).getD one, (get? s.emeta p.2).getD []))

/-- `self._node_metadata[node]` for the given nodes; `none` = KeyError -/
def lookupAll (t : List (Node × Meta)) : List Node → Option (List (Node × Meta))
  | [] => some []
  | n :: ns =>
    match get? t n with
    | none => none
    | some m => (lookupAll t ns).map (fun r => (n, m) :: r)

/-- `expose_attributes_for_hashing()`; `none` = raises -/
def hashView (s : Store) : Option HashView :=
  match lookupAll s.nmeta (C03.sortBy id C03.ltNat (keys s.adj)) with
  | none => none
  | some ns =>
    some { weighted := s.weighted, hmeta := s.hmeta
           edges := (C03.sortBy (fun (p : Edge × Nat) => p.1) C03.ltList s.edgeList).map (hashEdge s)
           nodes := ns }

/-- the map's entries in key order, the nodes in label order -/
def Spec.hashView (sp : Spec) : HashView :=
  { weighted := sp.weighted, hmeta := sp.hmeta
    edges := C03.sortBy (fun (r : Edge × (Int × Meta)) => r.1) C03.ltList sp.edges
    nodes := C03.sortBy (fun (p : Node × Meta) => p.1) C03.ltNat sp.nodes }

/-! ## `get_mapping()` -/

/-- `LabelEncoder().fit(self.get_nodes()).classes_`: the sorted node labels; `transform` = position (`C03.indexOf?`) -/
def mapping (s : Store) : List Node := C03.sortBy id C03.ltNat (keys s.adj)
def Spec.mapping (sp : Spec) : List Node := C03.sortBy id C03.ltNat (keys sp.nodes)

/-! ## raw tables -/

/-- `expose_data_structures()`: the nine tables by name (the dictionary's `"type"` entry is a constant) -/
structure TableDict where
  weighted : Bool
  adj : List (Node × List Nat)
  edgeList : List (Edge × Nat)
  weights : List (Nat × Int)
  hmeta : Meta
  nmeta : List (Node × Meta)
  emeta : List (Nat × Meta)
  rev : List (Nat × Edge)
  nextId : Nat
  deriving DecidableEq, Repr

def exposeTables (s : Store) : TableDict :=
  { weighted := s.weighted, adj := s.adj, edgeList := s.edgeList, weights := s.weights, hmeta := s.hmeta,
    nmeta := s.nmeta, emeta := s.emeta, rev := s.rev, nextId := s.nextId }

/-- `populate_from_dict(data)` with every table present -/
def populate (d : TableDict) : Store :=
  { weighted := d.weighted, adj := d.adj, edgeList := d.edgeList, weights := d.weights, hmeta := d.hmeta,
    nmeta := d.nmeta, emeta := d.emeta, rev := d.rev, nextId := d.nextId }

/-- `get_adj_dict()` read through `_reverse_edge_list` (id-free view of the two tables): node ↦ its hyperedges in
adjacency order; an id without reverse entry shows as `none` -/
def adjKeys (s : Store) : List (Node × List (Option Edge)) := s.adj.map (fun p => (p.1, p.2.map (get? s.rev)))

/-- the same view from the map: the keys containing the node, in map order -/
def Spec.adjKeys (sp : Spec) : List (Node × List (Option Edge)) :=
  sp.nodes.map (fun p => (p.1, ((keys sp.edges).filter (fun e => decide (p.1 ∈ e))).map some))

end C01
