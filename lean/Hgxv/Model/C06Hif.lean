import Hgxv.Model.C06
/-! # C06 — model of `hypergraphx/readwrite/hif.py: read_hif`

A HIF document = three record lists.  Names are `Nat` tokens; a record is identified by its 1-based
position in its list (its content is opaque: the reader attaches the whole record as metadata), the
metadata standing for record `i` is `recMeta i`.  The reader renumbers nodes and edges in order of
first appearance (incidences first, then the node / edge records) and builds a `Hypergraph` through
`add_node` / `add_edge` / `set_*_metadata` / `add_empty_edge`.  Core Lean only. -/
namespace C06

structure HifDoc where
  incidences : List (Nat × Nat)   -- (edge name, node name)
  nodes : List Nat                -- node records: the node they name
  edges : List Nat                -- edge records: the edge they name
deriving Repr

/-- `if name not in name_to_uid: name_to_uid[name] = next; next += 1` and the lookup that follows -/
def assign (tbl : List (Nat × Nat)) (name : Nat) : List (Nat × Nat) × Nat :=
  match AL.get? tbl name with
  | some u => (tbl, u)
  | none => (tbl ++ [(name, tbl.length)], tbl.length)

/-- metadata standing for the record at position `i` (opaque and non-empty) -/
def recMeta (i : Nat) : Meta := [(Key.user 0, Val.tok i)]

structure HifSt where
  etab : List (Nat × Nat) := []
  ntab : List (Nat × Nat) := []
  tmp : List (Nat × List Nat) := []           -- edge uid ↦ node uids, in order of appearance
  c : Content HKey := construct HKey false
  added : List (List Nat) := []
  incid : List ((List Nat × Nat) × Nat) := []  -- (key, node uid) ↦ incidence record
  empties : List (Nat × Nat) := []             -- edge name ↦ edge record

def listOrEmpty : Option (List Nat) → List Nat
  | none => []
  | some l => l

/-- first loop: numbering and the incidence lists -/
def hifInc1 (s : HifSt) (p : Nat × Nat) : HifSt :=
  let ea := assign s.etab p.1
  let na := assign s.ntab p.2
  { s with etab := ea.1, ntab := na.1,
           tmp := AL.set s.tmp ea.2 (listOrEmpty (AL.get? s.tmp ea.2) ++ [na.2]) }

def setNodeMeta (c : Content HKey) (u : Nat) (m : Meta) : Content HKey :=
  { c with nodes := AL.set c.nodes u m }

def setEdgeMeta (c : Content HKey) (k : HKey) (m : Meta) : Content HKey :=
  match AL.get? c.edges k with
  | none => c            -- the code raises; never reached: the key was just added
  | some old => { c with edges := AL.set c.edges k (old.1, m) }

/-- second loop: `add_node(uid); set_node_metadata(uid, record)` -/
def hifNode (s : HifSt) (name i : Nat) : HifSt :=
  let na := assign s.ntab name
  { s with ntab := na.1, c := setNodeMeta (addNode s.c na.2 none) na.2 (recMeta i) }

def hifNodes (s : HifSt) (i : Nat) : List Nat → HifSt
  | [] => s
  | n :: rest => hifNodes (hifNode s n i) (i + 1) rest

def markAdded (added : List (List Nat)) (k : List Nat) : List (List Nat) :=
  if k ∈ added then added else added ++ [k]

/-- third loop: an edge record with incidences adds the hyperedge and attaches the record; one
    without goes to the empty-edge table (a second record of the same name raises) -/
def hifEdge (s : HifSt) (name i : Nat) : Option HifSt :=
  let ea := assign s.etab name
  match AL.get? s.tmp ea.2 with
  | some l =>
    let k := sort l
    match addEdge s.c ⟨k⟩ none none with
    | none => none
    | some c' => some { s with etab := ea.1, c := setEdgeMeta c' ⟨k⟩ (recMeta i), added := markAdded s.added k }
  | none =>
    if AL.has s.empties name then none
    else some { s with etab := ea.1, empties := s.empties ++ [(name, i)] }

def hifEdges (s : HifSt) (i : Nat) : List Nat → Option HifSt
  | [] => some s
  | e :: rest =>
    match hifEdge s e i with
    | none => none
    | some s' => hifEdges s' (i + 1) rest

/-- fourth loop: hyperedges that have no edge record are added here; every incidence record is
    attached to (key, node uid).  A failed lookup is a `KeyError` (`none`). -/
def hifInc2 (s : HifSt) (p : Nat × Nat) (j : Nat) : Option HifSt :=
  match AL.get? s.etab p.1, AL.get? s.ntab p.2 with
  | some eu, some nu =>
    match AL.get? s.tmp eu with
    | none => none
    | some l =>
      let k := sort l
      if k ∈ s.added then some { s with incid := AL.set s.incid (k, nu) j }
      else
        match addEdge s.c ⟨k⟩ none none with
        | none => none
        | some c' => some { s with c := c', added := s.added ++ [k], incid := AL.set s.incid (k, nu) j }
  | _, _ => none

def hifIncs2 (s : HifSt) (j : Nat) : List (Nat × Nat) → Option HifSt
  | [] => some s
  | p :: rest =>
    match hifInc2 s p j with
    | none => none
    | some s' => hifIncs2 s' (j + 1) rest

structure HifResult where
  c : Content HKey
  incid : List ((List Nat × Nat) × Nat)
  empties : List (Nat × Nat)
deriving Repr

def hifPass1 (d : HifDoc) : HifSt := d.incidences.foldl hifInc1 {}

/-- `read_hif` for network-type undirected / asc / absent (the document metadata, if any, replaces the
    hypergraph metadata and does not interact with the rest: not modelled) -/
def readHif (d : HifDoc) : Option HifResult :=
  match hifEdges (hifNodes (hifPass1 d) 1 d.nodes) 1 d.edges with
  | none => none
  | some s3 =>
    match hifIncs2 s3 1 d.incidences with
    | none => none
    | some s4 => some { c := s4.c, incid := s4.incid, empties := s4.empties }

end C06
