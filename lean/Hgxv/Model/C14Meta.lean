import Hgxv.Model.C14
/-! Node metadata, hypergraph-level metadata and incidence metadata next to the content `HG` (core Lean only).

`add_random_edge(s)` and `random_shuffle(_all_orders)` work on a `Hypergraph` that also carries `_node_metadata`
(node -> dict), `_hypergraph_metadata` and `_incidences_metadata` ((hyperedge, node) -> dict).  What the class does with
them in the calls the generators make:
* `add_edge(edge, ..)`: `add_node(node)` for every node of a NEW hyperedge - a node that is not there yet gets `{}`
  (token 0), an existing node keeps its metadata; nothing else is touched;
* `remove_edge(edge)`: deletes the hyperedge's id, weight and edge metadata - NOT the incidence metadata stored for it;
* `copy()` is `copy.deepcopy`: everything is carried over. -/
namespace C14

structure HGM where
  core : HG := {}
  /-- `_node_metadata`: node -> token (insertion order) -/
  nmeta : List (Nat × Nat) := []
  /-- `_hypergraph_metadata` as one token -/
  hmeta : Nat := 0
  /-- `_incidences_metadata`: (hyperedge, node) -> token -/
  imeta : List ((Edge × Nat) × Nat) := []
deriving Repr, DecidableEq

/-- `add_node(node)` without metadata on the metadata table: a new node gets `{}` -/
def touchNode (nm : List (Nat × Nat)) (x : Nat) : List (Nat × Nat) :=
  if x ∈ nm.map (·.1) then nm else nm ++ [(x, 0)]

/-- `add_edge(raw, weight=w, metadata=md)`: only a NEW hyperedge touches its nodes -/
def addEdgeM (m : HGM) (raw : List Nat) (w md : Nat) : HGM :=
  { m with core := addEdge m.core raw w md,
           nmeta := match AL.get? m.core.edges (sortE raw) with
             | none => (sortE raw).foldl touchNode m.nmeta
             | some _ => m.nmeta }
def addManyM (m : HGM) (L : List (List Nat × Rec)) : HGM := L.foldl (fun m t => addEdgeM m t.1 t.2.1 t.2.2) m
def addEdgesM (m : HGM) (es : List (List Nat)) : HGM := addManyM m (es.map (fun e => (e, (1, 0))))
/-- `remove_edge`: the incidence metadata of the hyperedge stays in its table -/
def removeEdgeM (m : HGM) (e : Edge) : HGM := { m with core := removeEdge m.core e }
def removeEdgesM (m : HGM) (es : List Edge) : HGM := es.foldl removeEdgeM m

/-- (argument afterwards, returned object) -/
structure CallResultM where
  arg : HGM
  ret : Option HGM
deriving Repr, DecidableEq

/-- `h = hg if inplace else hg.copy()` (a deep copy: all tables carried over) -/
def finishM (inplace : Bool) (m m' : HGM) : CallResultM :=
  if inplace then { arg := m', ret := none } else { arg := m, ret := some m' }

def addRandomEdgeM (m : HGM) (order size : Option Nat) (inplace : Bool) (draw : List Nat) : Option CallResultM :=
  match resolveSize order size with
  | none => none
  | some s => if s ≤ m.core.nodes.length then some (finishM inplace m (addEdgeM m draw 1 0)) else none

def addRandomEdgesM (m : HGM) (k : Nat) (order size : Option Nat) (inplace : Bool) (draws : List (List Nat)) :
    Option CallResultM :=
  match resolveSize order size with
  | none => none
  | some s =>
    if k = 0 ∨ s ≤ m.core.nodes.length then some (finishM inplace m (addEdgesM m (collect k [] draws))) else none

def shuffleCoreM (m : HGM) (size : Nat) (idx : List Nat) (choices : List (List Nat)) : HGM :=
  addManyM (removeEdgesM m ((edgesOfSize m.core size).map (·.1))) (readdList idx (edgesOfSize m.core size) 0 choices)

def randomShuffleM (m : HGM) (order size : Option Nat) (inplace : Bool) (pn : Int) (pd : Nat)
    (idx : List Nat) (choices : List (List Nat)) : Option CallResultM :=
  match resolveSize order size with
  | none => none
  | some s => if 0 ≤ pn ∧ pn ≤ pd then some (finishM inplace m (shuffleCoreM m s idx choices)) else none

def shuffleAllLoopM (m : HGM) : List Nat → List (List Nat × List (List Nat)) → HGM
  | s :: sizes, d :: ds => shuffleAllLoopM (shuffleCoreM m s d.1 d.2) sizes ds
  | _, _ => m

def randomShuffleAllM (m : HGM) (inplace : Bool) (pn : Int) (pd : Nat) (sizes : List Nat)
    (draws : List (List Nat × List (List Nat))) : Option CallResultM :=
  if 0 ≤ pn ∧ pn ≤ pd then
    let m' := shuffleAllLoopM m sizes draws
    some (if inplace then { arg := m', ret := some m' } else { arg := m, ret := some m' })
  else none

end C14
