/-! Insertion-ordered association lists (Python-dict-like), core Lean only. -/
namespace AL
variable {α β : Type} [DecidableEq α]

def get? (l : List (α × β)) (k : α) : Option β :=
  match l with
  | [] => none
  | (k', v) :: t => if k' = k then some v else get? t k

def has (l : List (α × β)) (k : α) : Bool := (get? l k).isSome

/-- dict assignment: replace in place if present, else append at the end -/
def set (l : List (α × β)) (k : α) (v : β) : List (α × β) :=
  match l with
  | [] => [(k, v)]
  | (k', v') :: t => if k' = k then (k, v) :: t else (k', v') :: set t k v

def erase (l : List (α × β)) (k : α) : List (α × β) :=
  match l with
  | [] => []
  | (k', v') :: t => if k' = k then t else (k', v') :: erase t k

def keys (l : List (α × β)) : List α := l.map (·.1)

@[simp] theorem get?_nil (k : α) : get? ([] : List (α × β)) k = none := rfl

@[simp] theorem get?_set_self (l : List (α × β)) (k : α) (v : β) : get? (set l k v) k = some v := by
  induction l with
  | nil => simp [set, get?]
  | cons h t ih => grind [set, get?]

theorem get?_set_ne (l : List (α × β)) (k k2 : α) (v : β) (h : k ≠ k2) :
    get? (set l k v) k2 = get? l k2 := by
  induction l with
  | nil => grind [set, get?]
  | cons hd t ih => grind [set, get?]

theorem get?_set (l : List (α × β)) (k k2 : α) (v : β) :
    get? (set l k v) k2 = if k = k2 then some v else get? l k2 := by
  by_cases h : k = k2
  · subst h; simp
  · simp [h, get?_set_ne l k k2 v h]

theorem get?_erase_self (l : List (α × β)) (k : α) (hnd : (keys l).Nodup) : get? (erase l k) k = none := by
  induction l with
  | nil => simp [erase]
  | cons hd t ih =>
    obtain ⟨k', v'⟩ := hd
    simp [keys] at hnd
    by_cases hk : k' = k
    · subst hk
      simp [erase]
      have : ∀ (t : List (α × β)), (∀ x, (k', x) ∉ t) → get? t k' = none := by
        intro t; induction t with
        | nil => simp
        | cons a t iht => intro h; obtain ⟨a1, a2⟩ := a; grind [get?]
      exact this t hnd.1
    · simp [erase, hk, get?]; exact ih (by simpa [keys] using hnd.2)

theorem get?_erase_ne (l : List (α × β)) (k k2 : α) (h : k ≠ k2) : get? (erase l k) k2 = get? l k2 := by
  induction l with
  | nil => simp [erase]
  | cons hd t ih => grind [erase, get?]

theorem keys_set_of_mem (l : List (α × β)) (k : α) (v : β) (h : (get? l k).isSome) :
    keys (set l k v) = keys l := by
  induction l with
  | nil => simp [get?] at h
  | cons hd t ih => grind [set, get?, keys]

theorem keys_set_of_not_mem (l : List (α × β)) (k : α) (v : β) (h : get? l k = none) :
    keys (set l k v) = keys l ++ [k] := by
  induction l with
  | nil => simp [set, keys]
  | cons hd t ih => grind [set, get?, keys]

theorem get?_eq_none_iff (l : List (α × β)) (k : α) : get? l k = none ↔ k ∉ keys l := by
  induction l with
  | nil => simp [keys]
  | cons hd t ih => grind [get?, keys]

theorem keys_erase_perm (l : List (α × β)) (k : α) : keys (erase l k) = (keys l).erase k := by
  induction l with
  | nil => simp [erase, keys]
  | cons hd t ih => grind [erase, keys, List.erase_cons]

end AL
